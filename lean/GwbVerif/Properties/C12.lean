/-
C12 (well-formedness half) — Constructing a world from any byte sequence either succeeds or throws a standard exception;
files whose list-valued parameters have inconsistent lengths are rejected.

The model's parser (`Model/Parse/Json.lean`) contains exactly the checks of a *release* build (`WBAssertThrow`; `WBAssert` is
compiled out).  The theorems say that these checks establish the list-shape invariants `…WellFormed` (`Spec/WellFormed.lean`) on
which the indexing code of the queries relies (C13: a well-formed feature never indexes out of range).

* `C12_parse_plume_wellformed`   a plume accepted by `parsePlume` is well-formed: one entry of `cross section depths`,
                                 `semi-major axis`, `eccentricity`, `rotation angles` per coordinate, gaussian tables of one common
                                 non-zero length, composition / grains lists as long as their `compositions` — given the one fact
                                 the parser leaves to the schema validator: `coordinates` has `minItems 1`
                                 (`SchemaCoordinatesMinItems1`).
* `C12_parse_plume_depths_ascending`  … and its cross-section depths are strictly ascending.
* `C12_parse_plume_wellformed_full_false`  the statement *without* the schema hypothesis is false of the parser: a document with
                                 `"coordinates": []` (rejected by the schema, `minItems 1`) is accepted by `parsePlume`, and every
                                 query on the resulting feature indexes out of range (`coordinates[0]`, plume.cc:273).
* `C12_parse_line_wellformed`    a slab / fault accepted by `parseLine` is well-formed: ≥ 2 coordinates, one section per coordinate,
                                 all sections with the same number ≥ 1 of segments, a Bezier curve with one cubic per pair of
                                 coordinates and one angle per coordinate, composition / grains models with consistent lists
                                 (unconditional).
* `C12_parsed_plume_safe`, `C12_parsed_line_safe`   with C13: no query on a parsed plume / slab / fault returns `Err.internal`.
* `C12_bezier_build_wellformed`  `BezierCurve::BezierCurve(points)`: `control_points.size() = n − 1`, `angles.size() = n`, and it
                                 indexes `points[1]`, `points[n-2]`: fewer than two points is `Err.internal` in the model.

### Findings behind the checks (all repaired upstream while this file was written; the parser model follows; recorded for the history)
Each was "validation does not cover indexing": the C++ check was a debug-only `WBAssert` or missing, the model returned `Err.internal`,
the library crashed / read out of bounds under ASan.  Documents (version 1.1):
1. plume list lengths only `WBAssert`ed (plume.cc:144-174): `{"model":"plume","coordinates":[[0,0]],"cross section depths":[0,100e3]}`
   (other lists default to `[]`) built, then `Plume::properties` read `semi_major_axis_lengths.front()` of an empty vector.
2. gaussian list lengths only `WBAssert`ed (gaussian.cc:99-105); after that fix still `"centerline temperatures": []` (schema `minItems 0`,
   all three lists empty, `0 == 0 == 0`): `center_temperatures.front()` on an empty vector.  Witness:
   `{"model":"plume","coordinates":[[0,0]],"cross section depths":[100e3],"semi-major axis":[50e3],"eccentricity":[0],"rotation angles":[0],
     "temperature models":[{"model":"gaussian","centerline temperatures":[]}]}`, temperature at (0,0) depth 150 km.
3. `Interface::get_coordinates` built `BezierCurve(coordinates)` for every feature; with one coordinate the constructor read `points[1]`
   and `points[SIZE_MAX]` (plumes with one cross section, slabs/faults with one coordinate).
4. slab / fault `smooth` composition: no length check at all; `{"model":"smooth","compositions":[0,1]}` (fraction lists default to one
   entry) read `top_fraction[1]` / `center_fraction[1]`.
5. slab / fault with `"segments": []`: accepted; a query on a trench vertex other than the first at `depth == min depth`
   (three coordinates: with two, the acceptance window of the Bezier search rejects both ends) read `plane_segment_angles[i][0]` of an
   empty vector (utilities.cc:575).  Model: `err internal` at (50e3,100e3) and (0,200e3), depth 0, for
   `{"model":"fault","coordinates":[[0,0],[50e3,100e3],[0,200e3]],"dip point":[100e3,0],"segments":[]}`.
6. oceanic `half space model` / `plate model`: `spreading velocity` tables indexed with the running ridge-point counter, size unchecked
   (`[]` → `second[0]` of an empty vector at construction).
7. spherical `depth method: "continuous"`: `WBAssertThrow(true, …)` never threw, the enum stayed uninitialised.

* `C12_parse_area_indexsafe`     continental plate / oceanic plate / mantle layer: depth surfaces and all model lists are well-formed.
* `C12_parse_world_wellformed`   every feature of a world accepted by `parseWorld` is well-formed.
* `C12_constructed_world_safe`   **the validation logic suffices for the indexing logic**: on a world accepted by `parseWorld` no query
                                 through `properties` (3-D, 2-D) or `distance_to_plane` returns `Err.internal` — any point, depth, request
                                 list, engine state, scalar type.

### What remains a hypothesis (named, in the statements)
* `SchemaWorldFacts` — facts the parser leaves to the schema validator: `coordinates` has `minItems 1` (plume: `coordinates[0]`), and the
  `ridge coordinates` of oceanic temperature models list at least one ridge, no ridge empty (`minItems 1`, `minItems 2`); the same for the
  slab temperature models, whose `subducting velocity` rows are non-empty too (`SchemaLineTemps`);
* `SplineCmp` — only for worlds with a `mass conserving` model whose `apply spline` is on: the scalar type has no NaN (`CmpTotal`); the
  spline table is indexed in range otherwise, but the library can hand `interpolation::operator()` a NaN (see `C12_parse_line_wellformed`);
* `AuxOk` — depth surfaces given at points use the dumped triangulation / kd-tree (`SurfaceAux`, an *input* of the model produced by the
  library's own `delaunator` / `KDTree::create_tree`): the tree is non-empty and its nodes point at dumped triangles.  `Surface.build` checks
  the triangle vertices against the model's own nodes but cannot re-derive the tree.
A polygon is not required to have three corners by anybody (schema: `minItems 1`); that is harmless for the indexing code
(`Feature.WellFormed` asks `AreaFeature.IndexSafe` only).
-/
import GwbVerif.Proofs.ParseWorldWF
import GwbVerif.Properties.C13
import GwbVerif.Properties.C12Schema
namespace Gwb
open Scalar Lean
set_option linter.unusedSectionVars false
variable {R G : Type} [Scalar R] [RandGen G R]

/-! ### plume -/

/-- **C12** a plume accepted by the parser is well-formed (given the schema's `minItems 1` on `coordinates`) -/
theorem C12_parse_plume_wellformed (ctx : Ctx R) (c : Cur) (tags tags' : List String) (st st' : List (SurfaceAux R))
    (f : PlumeFeature R) (h : parsePlume ctx c tags st = .ok ((f, tags'), st')) (hschema : SchemaCoordinatesMinItems1 c) :
    f.WellFormed :=
  (parsePlume_wf ctx c tags st (f, tags') st' h).1 hschema

/-- **C12** … and its cross-section depths are strictly ascending -/
theorem C12_parse_plume_depths_ascending (ctx : Ctx R) (c : Cur) (tags tags' : List String) (st st' : List (SurfaceAux R))
    (f : PlumeFeature R) (h : parsePlume ctx c tags st = .ok ((f, tags'), st')) : StrictAscending f.depths :=
  (parsePlume_wf ctx c tags st (f, tags') st' h).2

/-- the full-strength statement: *every* accepted plume is well-formed, no schema fact assumed -/
def C12_parse_plume_wellformed_full (R : Type) [Scalar R] : Prop :=
  ∀ (ctx : Ctx R) (c : Cur) (tags tags' : List String) (st st' : List (SurfaceAux R)) (f : PlumeFeature R),
    parsePlume ctx c tags st = .ok ((f, tags'), st') → f.WellFormed

/-- **C12** with C13: queries on a parsed plume never index out of range -/
theorem C12_parsed_plume_safe (ctx : Ctx R) (c : Cur) (tags tags' : List String) (st st' : List (SurfaceAux R))
    (f : PlumeFeature R) (h : parsePlume ctx c tags st = .ok ((f, tags'), st')) (hschema : SchemaCoordinatesMinItems1 c)
    (qctx : Ctx R) (q : Query R) (hq : q.worldT () ≠ .error .internal) :
    f.covers qctx q ≠ .error .internal ∧
      ∀ (ps : List Req) (bs : List (List R)), Fits ps bs → ∀ g : G,
        f.apply qctx q (ps.zip (entries ps)) bs.flatten g ≠ .error .internal := by
  have hw := C12_parse_plume_wellformed ctx c tags tags' st st' f h hschema
  exact ⟨f.covers_noInt qctx q hw.1, fun ps bs hfit g => (Feature.plume f).apply_noInt hw qctx q hq ps bs hfit g⟩

/-! #### concrete documents -/

def c12Num (n : Nat) : Json := Json.num ⟨n, 0⟩
def c12ListSchema (d : Nat) : Json :=
  Json.mkObj [("minItems", c12Num 0), ("items", Json.mkObj [("default value", c12Num d)])]

/-- the part of the generated declarations of `plume` that `parsePlume` reads (defaults as generated; `max depth` shortened) -/
def c12PlumeSchema : Json := Json.mkObj [
  ("name", Json.mkObj [("default value", Json.str "")]),
  ("tag", Json.mkObj [("default value", Json.str "")]),
  ("min depth", Json.mkObj [("default value", c12Num 0)]),
  ("max depth", Json.mkObj [("default value", c12Num 1000000)]),
  ("cross section depths", c12ListSchema 0),
  ("semi-major axis", c12ListSchema 100000),
  ("eccentricity", c12ListSchema 0),
  ("rotation angles", c12ListSchema 0)]

def c12Ctx : Ctx R := ⟨⟨false, .none, 0⟩, 1600, 293, false, 0, 1, 1, 10⟩

/-- `{"model":"plume","coordinates":[]}` — violates the schema (`minItems 1`), passes every check of `parsePlume` -/
def c12EmptyPlumeDoc : Json := Json.mkObj [("model", Json.str "plume"), ("coordinates", Json.arr #[])]

/-- `{"model":"plume","coordinates":[[0,0]],"cross section depths":[0],"semi-major axis":[1],"eccentricity":[0],"rotation angles":[0]}` -/
def c12GoodPlumeDoc : Json := Json.mkObj [("model", Json.str "plume"),
  ("coordinates", Json.arr #[Json.arr #[c12Num 0, c12Num 0]]),
  ("cross section depths", Json.arr #[c12Num 0]), ("semi-major axis", Json.arr #[c12Num 1]),
  ("eccentricity", Json.arr #[c12Num 0]), ("rotation angles", Json.arr #[c12Num 0])]

set_option maxRecDepth 4000 in
/-- **C12** the schema hypothesis of `C12_parse_plume_wellformed` cannot be dropped: `parsePlume` accepts `"coordinates": []`, the
feature is not well-formed, and every query on it indexes out of range (for every scalar type) -/
theorem C12_parse_plume_wellformed_full_false :
    (∃ r, parsePlume (R := R) c12Ctx ⟨c12EmptyPlumeDoc, c12PlumeSchema⟩ [] [] = .ok r ∧ ¬ r.1.1.WellFormed ∧
      ∀ (ctx : Ctx R) (q : Query R), r.1.1.covers ctx q = .error .internal) ∧ ¬ C12_parse_plume_wellformed_full R := by
  have key : ∃ r, parsePlume (R := R) c12Ctx ⟨c12EmptyPlumeDoc, c12PlumeSchema⟩ [] [] = .ok r ∧ ¬ r.1.1.WellFormed ∧
      ∀ (ctx : Ctx R) (q : Query R), r.1.1.covers ctx q = .error .internal := by
    refine ⟨_, rfl, ?_, ?_⟩
    · intro h
      exact absurd h.1.1 (Nat.lt_irrefl 0)
    · intro ctx q
      rfl
  refine ⟨key, fun hfull => ?_⟩
  obtain ⟨r, hr, hnw, _⟩ := key
  obtain ⟨⟨f, tags'⟩, st'⟩ := r
  exact hnw (hfull _ _ _ _ _ _ _ hr)

set_option maxRecDepth 4000 in
/-- non-vacuity of `C12_parse_plume_wellformed`: a schema-valid one-cross-section plume is accepted (every scalar type) -/
example : (∃ r, parsePlume (R := R) c12Ctx ⟨c12GoodPlumeDoc, c12PlumeSchema⟩ [] [] = .ok r) ∧
    SchemaCoordinatesMinItems1 ⟨c12GoodPlumeDoc, c12PlumeSchema⟩ := by
  refine ⟨⟨_, rfl⟩, ?_⟩
  intro a ha
  have : (⟨c12GoodPlumeDoc, c12PlumeSchema⟩ : Cur).val? "coordinates" = some (Json.arr #[Json.arr #[c12Num 0, c12Num 0]]) := rfl
  rw [this] at ha
  cases ha
  decide

/-! ### slabs and faults -/

/-- **C12** `BezierCurve::BezierCurve(points)` produces one cubic per pair of points and one angle per point
(and needs at least two points: `bezierAngles` is `Err.internal` below that) -/
theorem C12_bezier_build_wellformed (pts : List (P2 R)) (bz : Bezier R) (h : Bezier.build pts = .ok bz) :
    bz.WellFormedFor pts ∧ 2 ≤ pts.length := by
  refine ⟨Bezier.build_wf pts bz h, ?_⟩
  unfold Bezier.build at h
  cases ha : bezierAngles pts with
  | error e => simp [ha, bind, Except.bind] at h
  | ok a => exact (bezierAngles_length pts a ha).2

/-- non-vacuity of `C12_bezier_build_wellformed`: two points build (every scalar type) -/
example : ∃ bz, Bezier.build ([⟨0, 0⟩, ⟨0, 1⟩] : List (P2 R)) = .ok bz := ⟨_, rfl⟩

/-- **C12** a slab / fault accepted by the parser is well-formed.  Hypotheses: the schema facts about its slab temperature models
(`SchemaLineTemps`: ridge lists and subducting-velocity rows are non-empty, what the schema validator guarantees), and — only if some
`mass conserving` model has `apply spline` on — that the scalar type has no NaN (`f.SplineCmp`): the table of the monotone spline is
always indexed in range, but `interpolation::operator()` converts a NaN argument with `static_cast<int>`, and the library can produce one
(`number of points in spline: 0` with `max distance slab top: 0` gives `(−∞+1)/∞`).  Everything else `MassConserving.WellFormed` asks
(row dimensions, one migration time per ridge) is established by `parse_entries`. -/
theorem C12_parse_line_wellformed (ctx : Ctx R) (isFault : Bool) (c : Cur) (tags tags' : List String) (cull : Bool)
    (f : LineFeature R) (h : parseLine ctx isFault c tags cull = .ok (f, tags')) (hschema : SchemaLineTemps c) (hnan : f.SplineCmp) :
    f.WellFormed :=
  parseLine_post ctx isFault c tags cull (f, tags') h hschema hnan

/-- over a scalar type without NaN (every ordered field, `Proofs/SlabTemp.lean: cmpTotal_field`) the NaN hypothesis holds of every feature -/
theorem C12_splineCmp_of_cmpTotal (hc : CmpTotal R) (f : LineFeature R) : f.SplineCmp := by
  intro sec _ s _ m _
  cases m with
  | basic b => trivial
  | slab sl =>
    cases sl with
    | plateModel p => trivial
    | massConserving mc => exact fun _ => hc

/-- … and over any scalar type of a feature none of whose `mass conserving` models has the spline on -/
theorem C12_splineCmp_of_no_spline (f : LineFeature R)
    (hb : ∀ sec ∈ f.sections, ∀ s ∈ sec, ∀ m ∈ s.temps, ∀ mc, m = SegTemp.slab (.massConserving mc) → mc.applySpline = false) :
    f.SplineCmp := by
  intro sec hsec s hs m hm
  cases m with
  | basic b => trivial
  | slab sl =>
    cases sl with
    | plateModel p => trivial
    | massConserving mc =>
      intro hon
      rw [hb sec hsec s hs _ hm mc rfl] at hon
      cases hon

/-- **C12** with C13: queries on a parsed slab / fault never index out of range -/
theorem C12_parsed_line_safe (ctx : Ctx R) (isFault : Bool) (c : Cur) (tags tags' : List String) (cull : Bool)
    (f : LineFeature R) (h : parseLine ctx isFault c tags cull = .ok (f, tags')) (hschema : SchemaLineTemps c) (hnan : f.SplineCmp)
    (qctx : Ctx R) (q : Query R) (hq : q.worldT () ≠ .error .internal) :
    f.covers qctx q ≠ .error .internal ∧
      (∀ (ps : List Req) (bs : List (List R)), Fits ps bs → ∀ g : G,
        f.apply qctx q (ps.zip (entries ps)) bs.flatten g ≠ .error .internal) ∧
      f.distanceToPlane qctx q ≠ .error .internal := by
  have hw := C12_parse_line_wellformed ctx isFault c tags tags' cull f h hschema hnan
  exact ⟨(f.covers_safe hw qctx q).noInt, fun ps bs hfit g => (Feature.line f).apply_noInt hw qctx q hq ps bs hfit g,
    f.distanceToPlane_noInt hw qctx q⟩

/-- the part of the generated declarations of `fault` that `parseLine` reads for a document without models and sections -/
def c12FaultSchema : Json := Json.mkObj [
  ("name", Json.mkObj [("default value", Json.str "")]),
  ("tag", Json.mkObj [("default value", Json.str "")]),
  ("min depth", Json.mkObj [("default value", c12Num 0)]),
  ("max depth", Json.mkObj [("default value", c12Num 1000000)]),
  ("segments", Json.mkObj [("items", Json.mkObj [("properties", Json.mkObj [])])])]

/-- `{"model":"fault","coordinates":[[0,0],[0,1]],"dip point":[1,0],"segments":[{"length":1,"thickness":[1],"angle":[90]}]}` -/
def c12GoodFaultDoc : Json := Json.mkObj [("model", Json.str "fault"),
  ("coordinates", Json.arr #[Json.arr #[c12Num 0, c12Num 0], Json.arr #[c12Num 0, c12Num 1]]),
  ("dip point", Json.arr #[c12Num 1, c12Num 0]),
  ("segments", Json.arr #[Json.mkObj [("length", c12Num 1), ("thickness", Json.arr #[c12Num 1]), ("angle", Json.arr #[c12Num 90])]])]

/-- the same fault with `"segments": []` -/
def c12NoSegmentFaultDoc : Json := Json.mkObj [("model", Json.str "fault"),
  ("coordinates", Json.arr #[Json.arr #[c12Num 0, c12Num 0], Json.arr #[c12Num 0, c12Num 1]]),
  ("dip point", Json.arr #[c12Num 1, c12Num 0]),
  ("segments", Json.arr #[])]

/-- the same fault with a single coordinate -/
def c12OneCoordinateFaultDoc : Json := Json.mkObj [("model", Json.str "fault"),
  ("coordinates", Json.arr #[Json.arr #[c12Num 0, c12Num 0]]),
  ("dip point", Json.arr #[c12Num 1, c12Num 0]),
  ("segments", Json.arr #[Json.mkObj [("length", c12Num 1), ("thickness", Json.arr #[c12Num 1]), ("angle", Json.arr #[c12Num 90])]])]

set_option maxRecDepth 8000 in
/-- non-vacuity of `C12_parse_line_wellformed`: a two-coordinate one-segment fault is accepted (every scalar type) -/
example : ∃ r, parseLine (R := R) c12Ctx true ⟨c12GoodFaultDoc, c12FaultSchema⟩ [] true = .ok r := ⟨_, rfl⟩

set_option maxRecDepth 8000 in
/-- **C12** inconsistent / degenerate line features are rejected with an exception class of the library (not `internal`):
`"segments": []` and a single coordinate -/
theorem C12_parse_line_rejects :
    parseLine (R := R) c12Ctx true ⟨c12NoSegmentFaultDoc, c12FaultSchema⟩ [] true = .error .other ∧
    parseLine (R := R) c12Ctx true ⟨c12OneCoordinateFaultDoc, c12FaultSchema⟩ [] true = .error .other :=
  ⟨rfl, rfl⟩

/-! ### polygons and the whole world -/

/-- **C12** a continental plate / oceanic plate / mantle layer accepted by the parser has well-formed depth surfaces and model lists,
given well-formed surface dumps and the schema's ridge facts; the remaining dumps stay well-formed -/
theorem C12_parse_area_indexsafe (ctx : Ctx R) (kind : Nat) (defaultTag : String) (c : Cur) (tags tags' : List String)
    (st st' : List (SurfaceAux R)) (f : AreaFeature R) (h : parseArea ctx kind defaultTag c tags st = .ok ((f, tags'), st'))
    (haux : AuxOk st) (hschema : SchemaAreaRidges c) : f.IndexSafe ∧ AuxOk st' :=
  ⟨(parseArea_post ctx kind defaultTag c tags st (f, tags') st' haux h).1 hschema,
   (parseArea_post ctx kind defaultTag c tags st (f, tags') st' haux h).2⟩

/-- the part of the declarations of `continental plate` that `parseArea` reads for a document without models (depth bounds:
`oneOf/0/default value`; the position `0` spelled as an object key, see `c12AltProps`) -/
def c12AreaSchema : Json := Json.mkObj [
  ("name", Json.mkObj [("default value", Json.str "")]),
  ("tag", Json.mkObj [("default value", Json.str "")]),
  ("min depth", Json.mkObj [("oneOf", Json.mkObj [("0", Json.mkObj [("default value", c12Num 0)])])]),
  ("max depth", Json.mkObj [("oneOf", Json.mkObj [("0", Json.mkObj [("default value", c12Num 1000000)])])])]

/-- `{"model":"continental plate","coordinates":[[0,0],[1,0],[0,1]]}` -/
def c12AreaDoc : Json := Json.mkObj [("model", Json.str "continental plate"),
  ("coordinates", Json.arr #[Json.arr #[c12Num 0, c12Num 0], Json.arr #[c12Num 1, c12Num 0], Json.arr #[c12Num 0, c12Num 1]])]

set_option maxRecDepth 8000 in
/-- non-vacuity of `C12_parse_area_indexsafe`: a triangle with default depth bounds is accepted without any surface dump -/
example : (∃ r, parseArea (R := R) c12Ctx 0 "continental plate" ⟨c12AreaDoc, c12AreaSchema⟩ [] [] = .ok r) ∧
    AuxOk ([] : List (SurfaceAux R)) ∧ SchemaAreaRidges ⟨c12AreaDoc, c12AreaSchema⟩ := by
  refine ⟨⟨_, rfl⟩, ?_, ?_⟩
  · intro a h; cases h
  · intro l hl
    have : Cur.pluginList ⟨c12AreaDoc, c12AreaSchema⟩ "temperature models" = .ok [] := rfl
    rw [this] at hl
    cases hl
    intro mc h; cases h

/-- **C12** every feature of a world accepted by `parseWorld` is well-formed -/
theorem C12_parse_world_wellformed (decl : Json) (version : String) (doc : Json) (cull : Bool) (st st' : List (SurfaceAux R))
    (p : Parsed R) (h : parseWorld decl version doc cull st = .ok (p, st')) (haux : AuxOk st) (hschema : SchemaWorldFacts decl doc)
    (hnan : p.world.SplineCmp) :
    p.world.WellFormed :=
  (parseWorld_post decl version doc cull st p st' haux h).1 hschema hnan

/-- **C12 + C13** no query on a successfully constructed world indexes out of range -/
theorem C12_constructed_world_safe (decl : Json) (version : String) (doc : Json) (cull : Bool) (st st' : List (SurfaceAux R))
    (p : Parsed R) (h : parseWorld decl version doc cull st = .ok (p, st')) (haux : AuxOk st) (hschema : SchemaWorldFacts decl doc)
    (hnan : p.world.SplineCmp) (depth : R) (ps : List Req) (g : G) :
    (∀ pt : P3 R, p.world.props3 pt depth ps g ≠ .error .internal) ∧
    (∀ pt : P2 R, p.world.props2 pt depth ps g ≠ .error .internal) ∧
    (∀ (pt : P3 R) (name : String), p.world.distanceToPlane pt depth name ≠ .error .internal) :=
  C13_world_no_internal p.world (C12_parse_world_wellformed decl version doc cull st st' p h haux hschema hnan) depth ps g

/-! #### a concrete world -/

def c12NumDefault (n : Nat) : Json := Json.mkObj [("default value", c12Num n)]

/-- the `properties` of one feature alternative of the declarations: `model/enum/0` names the model.  (The kernel cannot evaluate
`String.toNat?`, which `schemaAt` uses for array positions; in this example the two positions `…/0` the parser reads are therefore spelled
as objects with the key `"0"`, which `schemaAt` resolves by name.  The Float driver parses the generated declarations, where they are arrays.) -/
def c12AltProps (model : String) (props : Json) : Json :=
  props.setObjVal! "model" (Json.mkObj [("enum", Json.mkObj [("0", Json.str model)])])

/-- the `properties` of a cut-down declarations document with the entries `parseWorld` reads for a Cartesian world with a plume and a fault -/
def c12Props : Json := Json.mkObj [
  ("version", Json.mkObj [("default value", Json.str "")]),
  ("coordinate system", Json.mkObj [("oneOf", Json.arr #[])]),
  ("gravity model", Json.mkObj [("oneOf", Json.mkObj [("0", Json.mkObj [("properties", Json.mkObj [("magnitude", c12NumDefault 10)])])])]),
  ("potential mantle temperature", c12NumDefault 1600), ("surface temperature", c12NumDefault 293),
  ("force surface temperature", Json.mkObj [("default value", Json.bool false)]),
  ("thermal expansion coefficient", c12NumDefault 0), ("specific heat", c12NumDefault 1250), ("thermal diffusivity", c12NumDefault 1),
  ("random number seed", Json.mkObj [("default value", Json.num ⟨-1, 0⟩)]),
  ("features", Json.mkObj [("items", Json.mkObj [("oneOf", Json.arr #[
    Json.mkObj [("properties", c12AltProps "plume" c12PlumeSchema)], Json.mkObj [("properties", c12AltProps "fault" c12FaultSchema)]])])])]

def c12Decl : Json := Json.mkObj [("properties", c12Props)]

/-- `{"version":"1.1","features":[<the plume above>,<the fault above>]}` -/
def c12WorldDoc : Json := Json.mkObj [("version", Json.str "1.1"), ("features", Json.arr #[c12GoodPlumeDoc, c12GoodFaultDoc])]

set_option maxRecDepth 20000 in
/-- non-vacuity of `C12_parse_world_wellformed` / `C12_constructed_world_safe`: the document is accepted without any surface dump
(for every scalar type), and it satisfies the schema facts -/
example : (∃ r, parseWorld (R := R) c12Decl "1.1" c12WorldDoc true [] = .ok r) ∧ AuxOk ([] : List (SurfaceAux R)) ∧
    SchemaWorldFacts c12Decl c12WorldDoc := by
  refine ⟨⟨_, rfl⟩, ?_, ?_⟩
  · intro a h; cases h
  intro props l hp hl mc hmem
  have hp' : schemaAt c12Decl ["properties"] = .ok c12Props := rfl
  rw [hp'] at hp
  cases hp
  have hl' : Cur.pluginList ⟨c12WorldDoc, c12Props⟩ "features" =
      .ok [("plume", ⟨c12GoodPlumeDoc, c12AltProps "plume" c12PlumeSchema⟩), ("fault", ⟨c12GoodFaultDoc, c12AltProps "fault" c12FaultSchema⟩)] := rfl
  rw [hl'] at hl
  cases hl
  simp only [List.mem_cons, List.not_mem_nil, or_false] at hmem
  rcases hmem with rfl | rfl
  · refine ⟨fun a ha => ?_, fun l hl => ?_, ?_⟩
    · have : Cur.val? ⟨c12GoodPlumeDoc, c12AltProps "plume" c12PlumeSchema⟩ "coordinates" = some (Json.arr #[Json.arr #[c12Num 0, c12Num 0]]) := rfl
      rw [this] at ha
      cases ha
      decide
    · have : Cur.pluginList ⟨c12GoodPlumeDoc, c12AltProps "plume" c12PlumeSchema⟩ "temperature models" = .ok [] := rfl
      rw [this] at hl
      cases hl
      intro mc h; cases h
    · refine ⟨fun segSchema hs => ?_, fun v arr s2 hv => ?_⟩
      · have : schemaAt (c12AltProps "plume" c12PlumeSchema) ["segments", "items", "properties"] = .error .internal := rfl
        rw [this] at hs; cases hs
      · have : Cur.val? ⟨c12GoodPlumeDoc, c12AltProps "plume" c12PlumeSchema⟩ "sections" = none := rfl
        rw [this] at hv; cases hv
  · refine ⟨fun a ha => ?_, fun l hl => ?_, ?_⟩
    · have : Cur.val? ⟨c12GoodFaultDoc, c12AltProps "fault" c12FaultSchema⟩ "coordinates" =
          some (Json.arr #[Json.arr #[c12Num 0, c12Num 0], Json.arr #[c12Num 0, c12Num 1]]) := rfl
      rw [this] at ha
      cases ha
      decide
    · have : Cur.pluginList ⟨c12GoodFaultDoc, c12AltProps "fault" c12FaultSchema⟩ "temperature models" = .ok [] := rfl
      rw [this] at hl
      cases hl
      intro mc h; cases h
    · refine ⟨fun segSchema hs v a hv ha sj hsj l hl => ?_, fun v arr s2 hv => ?_⟩
      · have e1 : schemaAt (c12AltProps "fault" c12FaultSchema) ["segments", "items", "properties"] = .ok (Json.mkObj []) := rfl
        rw [e1] at hs; cases hs
        have e2 : (c12GoodFaultDoc.getObjVal? "segments").toOption =
            some (Json.arr #[Json.mkObj [("length", c12Num 1), ("thickness", Json.arr #[c12Num 1]), ("angle", Json.arr #[c12Num 90])]]) := rfl
        rw [e2] at hv; cases hv
        simp only [jarr, Except.ok.injEq] at ha
        subst ha
        simp only [List.mem_cons, List.not_mem_nil, or_false] at hsj
        subst hsj
        have e3 : resolveModels ⟨Json.mkObj [("length", c12Num 1), ("thickness", Json.arr #[c12Num 1]), ("angle", Json.arr #[c12Num 90])],
            Json.mkObj []⟩ [c12GoodFaultDoc] "temperature models" = .ok [] := rfl
        rw [e3] at hl; cases hl
        intro mc h; cases h
      · have : Cur.val? ⟨c12GoodFaultDoc, c12AltProps "fault" c12FaultSchema⟩ "sections" = none := rfl
        rw [this] at hv; cases hv

end Gwb
