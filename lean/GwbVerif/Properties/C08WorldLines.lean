/-
C08 for worlds that contain slabs and faults, and for the ridge of the `mass conserving` slab temperature model.

Setting as in Properties/C08Features.lean and Properties/C08Lines.lean: spherical world, ordered field `F`, `fieldScalar T`; the QUERY is fixed
(canonical longitude, `World.query`), the FILE re-describes a feature's own longitudes `k` full turns away (`lonTurns T k = ⟨2πk, 0⟩`).
Laws: `0 < T.pi`, `HalfTurnLaws T` (slabs / faults: Bezier kernel; implies `PeriodLaws T`), `AngleAddLaws T` (ridge kernel).  Everything is a
composition of the kernel theorems (`d := 2πk`, `p' := p`, `j := −k`); no kernel is re-proved.

1. THE RIDGE OF `mass conserving`.  `MassConserving::get_temperature` (mass_conserving.cc:320-329) evaluates its mid-oceanic ridges at
   `NaturalCoordinate(distance_from_planes.closest_trench_point)`: the closest trench point is stored as a CARTESIAN point
   (utilities.cc:604, `closest_point_on_line_cartesian`) and converted back with `atan2`.  So the point handed to the ridge kernel carries
   the CANONICAL longitude whatever alias the trench was written in (model: `trenchNat T ctx pd = toNatural pd.closestTrenchPoint`), and the
   trench's alias and the ridge's alias are independent: a trench written at `190°…200°` is measured from `−170°…−160°`, and a ridge written
   at `−150°…−140°` is within the reach `(−π, 2π]` of that point — measured correctly.  The hypothesis that remains is the kernel's own:
   `MassConserving.RidgeAliasOk T m ctx pd kR` = `RidgeReach` of `C08_ridge_lon_offset` at the closest trench point (not at the query), only
   where the model's range test passes.
   * `C08_slab_temp_ridge_lon_alias`      `MassConserving.get` with every ridge coordinate `kR` turns away: same temperature, same error.
   * `C08_slab_temp_reads_ridge_once`     `MassConserving.get` reads its `RidgeSpec` only through the one kernel call (any other `RidgeSpec` for
                                          which that call agrees gives the same temperature).
   * `C08_segtemps_ridge_lon_alias`       a segment's whole temperature list (`uniform`, `linear`, `adiabatic`, `plate model`, `mass conserving`).
   * `C08_line_applyTemp_ridge_lon_alias`, `C08_line_apply_ridge_lon_alias`
                                          a slab whose `mass conserving` models all have their ridges `kR` turns away (trench unchanged):
                                          temperature entry / every property, random draws included.  `LineFeature.RidgeAliasOk`: where the slab
                                          writes (`covers` returns a hit), the ridge hypothesis at the hit's closest trench point for the models
                                          of the two segments the hit interpolates between.
   * `C08_line_covers_segments_follow`    re-describing what the segments' models hold does not change the membership test: the same hit, with the
                                          re-described segments.
   * `C08_line_applyTemp_lon_alias_all`, `C08_line_apply_lon_alias_all`
                                          trench + dip point `k` turns away AND ridges `kR` turns away, independently.
2. WHOLE WORLDS.  `FeatureTempAliasL` / `FeatureAliasL` = `FeatureTempAlias` / `FeatureAlias` of C08Features.lean plus the case
   `line l k kR` (`LineFeature.AliasOk T l ctx q k`, `LineFeature.RidgeAliasOk T l ctx q kR`); the old relations embed
   (`C08_featureAlias_embeds`).
   * `C08_world_temperature_lon_alias_lines`   `World.temperaturePure` of a world of area features, plumes, slabs and faults, each written its own
                                               number of turns away.
   * `C08_world_props3_lon_alias_lines`        `World.props3`, every property, random draws included (the `worldT` callback of
                                               `tian water content` follows from the former).

CANDIDATE DEFECTS (forced hypotheses a user would not expect); none is new at this level, both are inherited:
* `MassConserving.RidgeAliasOk` is `RidgeReach`, not "ridge longitudes within `[−360°, 360°]`": the slab-level instance of
  `C08_ridge_alias_inrange_full_false` (Properties/C08Features.lean).  The ridge kernel tries the canonical longitude `L` of the closest
  trench point and ONE other description (`L − 2π` for `L ≥ 0`, `L + 2π` for `L < 0`), so a ridge written on the far side is measured the
  long way round.  Concrete world (degrees): subducting plate, trench `[[5,-10],[5,10]]`, `mass conserving` temperature model with
  `"ridge coordinates": [[[-10,-20],[0,20]]]` against `[[[350,-20],[360,20]]]` (the same ridge, both within the documented range): closest
  trench point at longitude `5°`; first description: the ridge is `≈ 5°…15°` away (west of the trench); second description: the kernel
  compares `5` and `5 − 360 = −355` with `350…360`, never `365`, and reports the distance to the `350°` end the long way (`≈ 345°` in the
  (lon, lat) picking step, then the haversine distance to the wrong foot point), so plate age at the trench and the whole slab temperature
  differ.  Kernel witness proved in Lean: `C08_ridge_alias_inrange_full_false` (query longitude `5°`, ridge `[[-10,0],[0,0]]` against
  `[[350,0],[360,0]]`: distance `5°` against `15°`, spreading velocity of the other end).
  REPLAY (gwb-dat of /verif/.cache/build-2bffa760a8df649f-apps; worlds /tmp/wk_MO/replay/world_A.wb, world_B.wb = tests/gwb-dat/
  chunk_slab_mass_conserving.wb with trench `[[5,-10],[5,10]]`, dip point `[20,0]`, ridge `[[[-10,-20],[0,20]]]` resp. `[[[350,-20],[360,20]]]`;
  points pts.dat, 48 points lon 5.5…8, lat −5…5, depth 50…250 km): 40 of 48 temperatures differ, e.g. lon 6 lat 5 depth 50 km `1171.18 K`
  against `837.751 K`, lon 7 lat 5 depth 150 km `1550.14 K` against `1216.85 K`.  CONTROL (world_C1.wb / world_C2.wb: trench
  `[[190,-10],[190,10]]`, dip point `[205,0]`, ridge `[[[-150,-20],[-140,20]]]` against `[[[210,-20],[220,20]]]`, points ptsC.dat at lon
  −169.5…−167): identical output at all 48 points, as `C08_slab_temp_ridge_lon_alias` predicts (canonical trench longitude `−170°`, both ridge
  descriptions within its reach `(−180°, 360°]`).
* the dip point written in another turn than the trench (`C08_line_dip_point_alias_full_false`, Properties/C08Lines.lean): the world
  relation's `line` case therefore moves trench and dip point TOGETHER (`lonShiftGeom`); `kR` (ridges) is free.

What is NOT proved
* `LineFeature.RidgeAliasOk` from ranges at feature level (it is stated at the hit's closest trench point; `C08_ridge_reach_alias_of_range`
  gives `RidgeReach` from ranges once that point's canonical longitude is known).
* the slab-level refutation is not re-proved with a full `MassConserving.get` evaluation (the kernel-level refutation is).
* everything listed under "What is NOT proved" in C08Features.lean / C08Lines.lean (query vertically below the trench, `foot` from ranges,
  query longitude exactly `0`, exact field arithmetic only).
-/
import GwbVerif.Proofs.MotionLonWorldLines
import GwbVerif.Properties.C08Lines
namespace Gwb
open Scalar
set_option linter.unusedSectionVars false

section generic
variable {R : Type} [Scalar R]

/-- **C08** `MassConserving.get` reads its ridge coordinates only through the one call of `calculate_ridge_distance_and_spreading` at the
natural coordinates of the closest trench point (`Scalar`-generic: holds for the floating-point instance too) -/
theorem C08_slab_temp_reads_ridge_once (m : MassConserving R) (r : RidgeSpec R) (ctx : Ctx R) (depth g : R) (pd : PlaneDist R)
    (ap : AdditionalParams R) (old : R)
    (h : (pd.distanceFromPlane ≤ m.mx ∧ pd.distanceFromPlane ≥ m.mn) →
      ridgeDistanceAndSpreading ctx.coord.spherical r.ridges r.vels (ctx.coord.toNatural pd.closestTrenchPoint) m.subVel m.migrationTimes =
      ridgeDistanceAndSpreading ctx.coord.spherical m.ridge.ridges m.ridge.vels (ctx.coord.toNatural pd.closestTrenchPoint) m.subVel
        m.migrationTimes) :
    (m.withRidge r).get ctx depth g pd ap old = m.get ctx depth g pd ap old :=
  MassConserving.get_withRidge m r ctx depth g pd ap old h

/-- **C08** re-describing what the segments' models hold (any map of the segments that keeps lengths, thicknesses, truncations and angles)
does not change the membership test: the same hit, with the re-described segments (`Scalar`-generic) -/
theorem C08_line_covers_segments_follow (g : Segment R → Segment R) (hg : SegGeomSame g) (f : LineFeature R) (ctx : Ctx R) (q : Query R) :
    (f.mapSegments g).covers ctx q = Except.map (Option.map (LineHit.mapSegments g)) (f.covers ctx q) :=
  LineFeature.covers_mapSegments g hg f ctx q

end generic

section field
variable {F : Type} [Field F] [LinearOrder F] [IsStrictOrderedRing F] (T : Transc F)

/-! ### 1 the ridge of the `mass conserving` temperature model -/

/-- **C08** the `mass conserving` slab temperature with every ridge coordinate written `kR` turns away — independently of the alias in which
the trench is written: the ridge is evaluated at the canonical natural coordinates of the Cartesian closest trench point — gives the same
temperature (or the same error) -/
theorem C08_slab_temp_ridge_lon_alias (hπ : 0 < T.pi) (hP : PeriodLaws T) (hA : AngleAddLaws T) (m : MassConserving F) (ctx : Ctx F)
    (depth g : F) (pd : PlaneDist F) (ap : AdditionalParams F) (kR : ℤ) (hsph : ctx.coord.spherical = true)
    (h : m.RidgeAliasOk T ctx pd kR) (old : F) :
    @SlabTemp.get F (fieldScalar T) (.massConserving (m.lonShift T kR)) ctx depth g pd ap old =
      @SlabTemp.get F (fieldScalar T) (.massConserving m) ctx depth g pd ap old :=
  MassConserving.get_lon_alias T hπ hP hA m ctx depth g pd ap kR hsph h old

/-- **C08** a segment's whole temperature list, every ridge `kR` turns away -/
theorem C08_segtemps_ridge_lon_alias (hπ : 0 < T.pi) (hP : PeriodLaws T) (hA : AngleAddLaws T) (ms : List (SegTemp F)) (isFault : Bool)
    (ctx : Ctx F) (depth g : F) (pd : PlaneDist F) (ap : AdditionalParams F) (kR : ℤ) (hsph : ctx.coord.spherical = true)
    (h : ∀ m ∈ ms, m.RidgeAliasOk T ctx pd kR) (old : F) :
    (ms.map (SegTemp.lonShift T kR)).foldlM (fun t m => @SegTemp.get F (fieldScalar T) m isFault ctx depth g pd ap t) old =
      ms.foldlM (fun t m => @SegTemp.get F (fieldScalar T) m isFault ctx depth g pd ap t) old :=
  segTemps_foldlM_lon_alias T hπ hP hA ms isFault ctx depth g pd ap kR hsph h old

/-- **C08** the temperature entry of a slab whose `mass conserving` models have their ridges `kR` turns away (trench unchanged) -/
theorem C08_line_applyTemp_ridge_lon_alias (hπ : 0 < T.pi) (hP : PeriodLaws T) (hA : AngleAddLaws T) (f : LineFeature F) (ctx : Ctx F)
    (q : Query F) (kR : ℤ) (hsph : ctx.coord.spherical = true) (h : f.RidgeAliasOk T ctx q kR) (old : F) :
    @LineFeature.applyTemp F (fieldScalar T) (f.lonShiftRidge T kR) ctx q old = @LineFeature.applyTemp F (fieldScalar T) f ctx q old :=
  LineFeature.applyTemp_ridge_lon_alias T hπ hP hA f ctx q kR hsph h old

/-- **C08** every property of such a slab, random draws included -/
theorem C08_line_apply_ridge_lon_alias {G : Type} [@RandGen G F] (hπ : 0 < T.pi) (hP : PeriodLaws T) (hA : AngleAddLaws T)
    (f : LineFeature F) (ctx : Ctx F) (q : Query F) (kR : ℤ) (hsph : ctx.coord.spherical = true) (h : f.RidgeAliasOk T ctx q kR)
    (pes : List (Req × Nat)) (out : List F) :
    @LineFeature.apply F (fieldScalar T) G _ (f.lonShiftRidge T kR) ctx q pes out = @LineFeature.apply F (fieldScalar T) G _ f ctx q pes out :=
  LineFeature.apply_ridge_lon_alias T hπ hP hA f ctx q kR hsph h pes out

/-- **C08** trench, trench curve and dip point `k` turns away and the ridges `kR` turns away, independently: the temperature entry -/
theorem C08_line_applyTemp_lon_alias_all (hπ : 0 < T.pi) (hH : HalfTurnLaws T) (hA : AngleAddLaws T) (f : LineFeature F) (ctx : Ctx F)
    (q : Query F) (k kR : ℤ) (hsph : ctx.coord.spherical = true) (h : f.AliasOk T ctx q k) (hr : f.RidgeAliasOk T ctx q kR) (old : F) :
    @LineFeature.applyTemp F (fieldScalar T) (f.lonShiftAll T k kR) ctx q old = @LineFeature.applyTemp F (fieldScalar T) f ctx q old :=
  LineFeature.applyTemp_lon_alias_all T hπ hH hA f ctx q k kR hsph h hr old

/-- **C08** the same for every property, random draws included -/
theorem C08_line_apply_lon_alias_all {G : Type} [@RandGen G F] (hπ : 0 < T.pi) (hH : HalfTurnLaws T) (hA : AngleAddLaws T)
    (f : LineFeature F) (ctx : Ctx F) (q : Query F) (k kR : ℤ) (hsph : ctx.coord.spherical = true) (h : f.AliasOk T ctx q k)
    (hr : f.RidgeAliasOk T ctx q kR) (pes : List (Req × Nat)) (out : List F) :
    @LineFeature.apply F (fieldScalar T) G _ (f.lonShiftAll T k kR) ctx q pes out = @LineFeature.apply F (fieldScalar T) G _ f ctx q pes out :=
  LineFeature.apply_lon_alias_all T hπ hH hA f ctx q k kR hsph h hr pes out

/-! ### 2 whole worlds with area features, plumes, slabs and faults -/

/-- **C08** the world relations of C08Features.lean (no re-described slab / fault) are special cases of the extended ones -/
theorem C08_featureAlias_embeds (ctx : Ctx F) (q : Query F) (f' f : Feature F) :
    (FeatureTempAlias T ctx q f' f → FeatureTempAliasL T ctx q f' f) ∧ (FeatureAlias T ctx q f' f → FeatureAliasL T ctx q f' f) :=
  ⟨FeatureTempAlias.toL T ctx q f' f, FeatureAlias.toL T ctx q f' f⟩

/-- **C08** the temperature of a whole world (`World.temperaturePure`: background, then the features in order) when each area feature,
plume, slab and fault is written its own number of turns away (`FeatureTempAliasL`; a slab additionally its ridges by an amount of their
own) -/
theorem C08_world_temperature_lon_alias_lines (hπ : 0 < T.pi) (hH : HalfTurnLaws T) (hA : AngleAddLaws T) (w w' : World F) (pt : P3 F)
    (depth : F) (hctx : w'.ctx = w.ctx) (hsph : w.ctx.coord.spherical = true)
    (hf : List.Forall₂ (FeatureTempAliasL T w.ctx (w.tempQuery T pt depth)) w'.features w.features) :
    @World.temperaturePure F (fieldScalar T) w' pt depth = @World.temperaturePure F (fieldScalar T) w pt depth :=
  World.temperaturePure_lon_alias_lines T hπ hH hA w w' pt depth hctx hsph hf

/-- **C08** every property of such a world (`World.props3`), random draws included -/
theorem C08_world_props3_lon_alias_lines {G : Type} [@RandGen G F] (hπ : 0 < T.pi) (hH : HalfTurnLaws T) (hA : AngleAddLaws T)
    (w w' : World F) (pt : P3 F) (depth : F) (ps : List Req) (hctx : w'.ctx = w.ctx) (hsph : w.ctx.coord.spherical = true)
    (hf : List.Forall₂ (FeatureAliasL T w.ctx (@World.query F (fieldScalar T) w pt depth)) w'.features w.features) :
    @World.props3 F (fieldScalar T) G _ w' pt depth ps = @World.props3 F (fieldScalar T) G _ w pt depth ps :=
  World.props3_lon_alias_lines T hπ hH hA w w' pt depth ps hctx hsph hf

end field

/-! ### non-vacuity -/

/-- the three law bundles are jointly satisfiable: the real functions (no rational toy bundle satisfies `HalfTurnLaws` and the Pythagorean
identity of `AngleAddLaws` together with the addition laws) -/
example : HalfTurnLaws c08Real ∧ AngleAddLaws c08Real ∧ PeriodLaws c08Real := ⟨c08Real_halfTurnLaws, c08Real_angleAddLaws, c08Real_periodLaws⟩

/-- a `mass conserving` model whose ridge is `(1,0)–(2,0)` -/
def c08MassConserving : MassConserving ℚ :=
  { mn := 0, mx := 100, op := .replace, density := 3300, conductivity := 3, couplingDepth := 100, forearcCoolingFactor := 1,
    taperDistance := 100, alpha := 0, cp := 1250, kappa := 1, adiabaticHeating := false, potentialT := 1600, surfaceT := 273,
    ridge := ⟨[[⟨1, 0⟩, ⟨2, 0⟩]], [[1, 2]]⟩, subVel := [[0]], migrationTimes := [], plateRef := false, applySpline := false,
    splineNPoints := 1 }

/-- `C08_slab_temp_ridge_lon_alias`: a hit whose closest trench point is the Cartesian point `(1, 3/2, 0)` (natural coordinates
`(13/4, 3/2, 3/2)` in `c08Flat`, `c08_toNatural`); the ridge one turn to the west: the hypothesis holds and the theorem applies -/
example (pd : PlaneDist ℚ) (hpd : pd.closestTrenchPoint = ⟨1, 3 / 2, 0⟩) (depth g : ℚ) (ap : AdditionalParams ℚ) (old : ℚ) :
    c08MassConserving.RidgeAliasOk c08Flat c08Ctx pd (-1) ∧
    @SlabTemp.get ℚ (fieldScalar c08Flat) (.massConserving (c08MassConserving.lonShift c08Flat (-1))) c08Ctx depth g pd ap old =
      @SlabTemp.get ℚ (fieldScalar c08Flat) (.massConserving c08MassConserving) c08Ctx depth g pd ap old := by
  have hn : trenchNat c08Flat c08Ctx pd = ⟨13 / 4, 3 / 2, 3 / 2⟩ := by
    unfold trenchNat
    rw [hpd]
    exact c08_toNatural
  have h : c08MassConserving.RidgeAliasOk c08Flat c08Ctx pd (-1) := by
    intro _
    rw [hn]
    exact c08Ridge_reach _
  exact ⟨h, C08_slab_temp_ridge_lon_alias c08Flat (by show (0 : ℚ) < 3; norm_num) c08Flat_periodLaws c08Flat_angleAddLaws c08MassConserving
    c08Ctx depth g pd ap (-1) rfl h old⟩

/-- `C08_segtemps_ridge_lon_alias`: a list with a `linear` and the `mass conserving` model -/
example (pd : PlaneDist ℚ) (hpd : pd.closestTrenchPoint = ⟨1, 3 / 2, 0⟩) :
    ∀ m ∈ [SegTemp.basic (.linear 0 100 .replace 300 900), SegTemp.slab (.massConserving c08MassConserving)],
      m.RidgeAliasOk c08Flat c08Ctx pd (-1) := by
  intro m hm
  simp only [List.mem_cons, List.not_mem_nil, or_false] at hm
  rcases hm with rfl | rfl
  · trivial
  · intro _
    have hn : trenchNat c08Flat c08Ctx pd = ⟨13 / 4, 3 / 2, 3 / 2⟩ := by
      unfold trenchNat
      rw [hpd]
      exact c08_toNatural
    rw [hn]
    exact c08Ridge_reach _

/-- `C08_line_covers_segments_follow`: the ridge re-description keeps the geometry of every segment -/
example (kR : ℤ) : SegGeomSame (Segment.lonShiftRidge c08Flat kR) := Segment.lonShiftRidge_geomSame c08Flat kR

/-- `LineFeature.RidgeAliasOk` for a slab none of whose segments holds a `mass conserving` model is not a restriction; here the degenerate
case of a slab that never writes is enough to show that the feature-level hypotheses of `C08_line_applyTemp_ridge_lon_alias`,
`C08_line_apply_ridge_lon_alias`, `C08_line_applyTemp_lon_alias_all`, `C08_line_apply_lon_alias_all` are satisfiable together with
`LineFeature.AliasOk` (the non-degenerate instance of the latter is in Properties/C08Lines.lean): whenever `covers` does not return a
hit, `RidgeAliasOk` holds -/
example {F : Type} [Field F] [LinearOrder F] [IsStrictOrderedRing F] (T : Transc F) (f : LineFeature F) (ctx : Ctx F) (q : Query F) (kR : ℤ)
    (hno : ∀ h, @LineFeature.covers F (fieldScalar T) f ctx q ≠ .ok (some h)) : f.RidgeAliasOk T ctx q kR :=
  fun h hc => absurd hc (hno h)

/-- `C08_world_temperature_lon_alias_lines`, `C08_world_props3_lon_alias_lines` over the real functions (all three law bundles hold): a
world with an area feature, a plume, a slab, each related to itself -/
example {G : Type} [@RandGen G ℝ] (a : AreaFeature ℝ) (p : PlumeFeature ℝ) (l : LineFeature ℝ) (ctx : Ctx ℝ)
    (hsph : ctx.coord.spherical = true) (pt : P3 ℝ) (depth : ℝ) (ps : List Req) :
    @World.props3 ℝ (fieldScalar c08Real) G _ ⟨ctx, none, [.area a, .plume p, .line l]⟩ pt depth ps =
      @World.props3 ℝ (fieldScalar c08Real) G _ ⟨ctx, none, [.area a, .plume p, .line l]⟩ pt depth ps :=
  C08_world_props3_lon_alias_lines c08Real Real.pi_pos c08Real_halfTurnLaws c08Real_angleAddLaws _ _ pt depth ps rfl hsph
    (List.Forall₂.cons (.same _) (List.Forall₂.cons (.same _) (List.Forall₂.cons (.same _) List.Forall₂.nil)))

/-- the world relation with a genuinely re-described area feature and plume next to an unchanged slab (`c08Flat`, `c08World` of
C08Features.lean extended by a slab): `FeatureAliasL` holds -/
example (l : LineFeature ℚ) (depth : ℚ) :
    List.Forall₂ (FeatureAliasL c08Flat c08Ctx (@World.query ℚ (fieldScalar c08Flat) c08World ⟨1, 3 / 2, 0⟩ depth))
      [.area (c08Ocean.lonShift c08Flat (-1)), .plume (c08Plume.lonShift c08Flat (-1)), .line l]
      [.area c08Ocean, .plume c08Plume, .line l] := by
  have hnat : (@World.query ℚ (fieldScalar c08Flat) c08World ⟨1, 3 / 2, 0⟩ depth).nat = ⟨13 / 4, 3 / 2, 3 / 2⟩ := c08_toNatural
  have hsp : surfacePoint true (@World.query ℚ (fieldScalar c08Flat) c08World ⟨1, 3 / 2, 0⟩ depth).nat = ⟨3 / 2, 3 / 2⟩ := by
    rw [hnat]; rfl
  have hpm : c08Plume.models.AliasOk c08Flat c08Ctx (@World.query ℚ (fieldScalar c08Flat) c08World ⟨1, 3 / 2, 0⟩ depth) (-1) :=
    ⟨fun m hm => (by cases hm), fun m hm => (by cases hm), fun m hm => (by cases hm), fun m hm => (by cases hm)⟩
  exact List.Forall₂.cons
    (.area c08Ocean (-1) (by rw [hsp]; exact c08Square_aliasOk_flat) (DepthRange.aliasOk_of_constant c08Flat c08Const _ (-1) rfl rfl)
      (c08Ocean_models_aliasOk _ rfl))
    (List.Forall₂.cons (.plume c08Plume (-1) (c08Plume_aliasOk _ (by rw [hnat])) hpm) (List.Forall₂.cons (.same _) List.Forall₂.nil))

/-- the `line` case of the relation: the slab of Properties/C08Lines.lean (trench along latitude `1`, `c08Half`, culling shortcuts off)
written one turn to the west, ridges two turns east (the slab has no sections and never writes, so the ridge hypothesis is met
vacuously; the trench hypotheses are met by computation) -/
noncomputable def c08HSlab : LineFeature ℚ :=
  { name := "s", tag := 0, isFault := false, coords := (c08HLine 1).points, reference := ⟨3 / 2, 3⟩, minDepth := 0, maxDepth := 1,
    sections := [], bezier := c08HLine 1, cull := false }

example (pt : P3 ℚ) (ctx : Ctx ℚ) (hctx : ctx = ⟨⟨true, .none, 1⟩, 1600, 293, true, 0, 1, 1, 10⟩)
    (q : Query ℚ) (hq : q = { pt := pt, nat := ⟨1, 3 / 2, 2⟩, depth := 0, gravityNorm := 10 }) :
    FeatureAliasL c08Half ctx q (.line (c08HSlab.lonShiftAll c08Half (-1) 2)) (.line c08HSlab) := by
  refine .line c08HSlab (-1) 2 ?_
    (fun h hc => absurd hc (@LineFeature.covers_ne_some_of_no_sections ℚ (fieldScalar c08Half) c08HSlab rfl ctx q h))
  subst hctx hq
  exact ⟨fun h => (by cases h), c08HLine_dpfcpAliasOk pt _⟩

end Gwb
