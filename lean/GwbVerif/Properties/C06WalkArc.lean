/-
C06 (continued) — which piece of the walk wins when the walk mixes STRAIGHT and CIRCULAR pieces.

History.  In the original step (utilities.cc:984-1009) the circular branch, when its sector test rejected the point, did not reset
`new_distance / new_along_plane_distance / new_depth_reference_surface` (function-scope variables): they kept the values of the
previous iteration, whereas the straight branch stores `+∞`.  The "closest so far" test `−1e-10 ≤ new_along ≤ |len_i| ∧
|new_distance| < |distance|` was then run on that stale triple with the CURRENT length.  Abstractly (`mixed_chain`, `Pending`,
`NoOvershoot` in `Proofs/WalkMixed.lean`): a stale triple is `(∞, ∞)`, or has `|new_distance| ≥ |distance|` (it won, or it was beaten),
or `new_along < −1e-10` (never recovers) — all harmless — EXCEPT when it lost at its own piece `j` because `new_along_j > len_j`.  That
happens for an arc whose sector test accepts the point through the `1e-12` rad tolerance beyond its bottom dip.  If the next piece
is a rejecting arc with `len_{j+1} ≥ new_along_j`, the stale triple passes: `segment = j+1`, `fraction = new_along_j / len_{j+1}`,
`along = new_along_j + Σ_{i≤j} len_i` (too large by `len_j`), the average dip of piece `j+1` (`C06_walk_stale_value_old_step`).
Witness replayed on the library (known finding "stale-arc-values"): segments `[100 km, 30°→60°]`, `[150 km, 80°→85°]`, query at
`x = 78565.956809295 m` from the trench, depth `64905.702771487 m` (2e-7 m wide band): `along = 200000`, `segment = 1`,
`fraction = 0.667` instead of `100000`, `0`, `1`.  Repaired upstream: a rejecting circular piece stores `+∞` like the straight one;
`Model/Geometry/Dpfcp.lean` follows the repaired code and everything below is about the repaired step.

Vocabulary (`Proofs/WalkMixed.lean`; ordered field, `ArcLaws T`; plane frame of C06, `t(ψ) = (cos ψ, −sin ψ)`, `n(ψ) = (−sin ψ, −cos ψ)`):
* `PieceKind F` = `straight θ len | arcUp θ β len ρ ψ | arcDown θ β len ρ ψ` (`arcUp`: dip increasing `θ < β`, centre below;
  `arcDown`: dip decreasing, centre above; `(ρ, ψ)` the polar position of the check point about the centre of THAT piece, `ψ` = dip of
  the circle at the foot); `pkLen`, `pkEnd T b kd` (end point of the piece begun at `b`), `mixVertex T b0 kind k` (`b_0 = b0`,
  `b_{k+1} = pkEnd b_k (kind k)`);
* `pkIn T b q kd` : the geometry phase attributes the point: foot on the straight piece (`0 ≤ ⟨q−b,t⟩ ≤ len`); sector test of the arc
  (`ψ` between `θ` and `β` up to `1e-12`);  `pkD` (signed distance, positive below: `⟨q−b,n⟩`, `radius − ρ`, `ρ − radius`),
  `pkA` (local along-value: `⟨q−b,t⟩`, `radius·(ψ−θ)`, `radius·(θ−ψ)`), `pkR` (`startRadius − foot.y`);
  `pkNd / pkNa / pkNdr` = those when `pkIn`, `+∞` otherwise = what the geometry phase writes;
* `MixedPiece T dm fr tables k s q kd` : iteration `k` entered with state `s` is a piece of kind `kd` (hypotheses of `C06_line_piece`,
  `C06_arc_increasing_dip`, `C06_arc_decreasing_dip`, the polar equation `q = centre ± ρ(sin ψ, cos ψ)`);
* `mwAcc … k` : piece `k` ACCEPTS: the triple it wrote passes the window `−1e-10 ≤ pkNa ≤ |len_k|` and `|pkNd| < |∞|`
  (`C06_walk_accept_iff`: iff `pkIn ∧ −1e-10 ≤ pkA ≤ |len| ∧ |pkD| < |∞|`); `mwKey = |pkNd|`; `mwSel = selFirstMin mwAcc mwKey`;
  `mwSpec` the answer `(distance, along, fraction, depthRef, segment, found)` of the selected piece.
Theorems:
* `C06_walk_selects_min_mixed`  the loop over pieces of both kinds succeeds and its final six members are `mwSpec`: those of the
  accepting piece of smallest `|distance|`, the first on ties; the initial ones if none accepts.  No side condition: an arc that
  takes the point only through the tolerance beyond its bottom (`pkA > len`) does not accept, is not recorded and cannot leak;
* `C06_walk_along_eq_mixed`     for the selected piece `k`: `segment = k`, `along = Σ_{j<k} len_j + pkA_k` (`radius·|ψ−θ|` on an arc),
  `fraction = pkA_k / len_k ∈ [−1e-10/len_k, 1]` (`≥ 0` when `pkA_k ≥ 0`), `distance = pkD_k` (or `|pkD_k|`), `depthRef = pkR_k`;
* `C06_walk_joint_straight_arc`, `C06_walk_joint_arc_arc`  a joint (straight → arc of either sense; arc → arc, both increasing) where the next piece starts with
  the dip the previous one ends with: a point on the common normal through the joint is attributed by both pieces (no gap), with the
  same distance, the same total along-value (`len_k + 0`) and the same reference depth (no jump);
* `C06_walk_stale_value_old_step`  (about the ORIGINAL step, abstractly) the stale acceptance described above;
* `C06_walk_old_step_safe`       (about the ORIGINAL step, abstractly) if no fresh triple exceeds its own piece's length
  (`NoOvershoot`) the original loop computed the same answer.
NOT proved: skipped pieces (`len < 1e-14`) inside a mixed walk, joints arc → straight and arc → arc with a change of sense, the running average dip, real-vs-double arithmetic.
-/
import GwbVerif.Proofs.WalkMixed
namespace Gwb
open Scalar
set_option linter.unusedSectionVars false
set_option linter.unusedVariables false
set_option linter.unusedSimpArgs false

section field
variable {F : Type} [Field F] [LinearOrder F] [IsStrictOrderedRing F]

/-- **C06** acceptance by a piece, spelled out: the geometry phase attributes the point (`pkIn`), the local along-value is in the
window `[−1e-10, |len|]`, and `|distance| < |∞|` -/
theorem C06_walk_accept_iff (T : Transc F) (b0 q : P2 F) (kind : Nat → PieceKind F) (k : Nat) :
    mwAcc T b0 q kind k ↔
      (pkIn T (mixVertex T b0 kind k) q (kind k) ∧ -(1 / 10 ^ 10) ≤ pkA T (mixVertex T b0 kind k) q (kind k) ∧
        pkA T (mixVertex T b0 kind k) q (kind k) ≤ |pkLen (kind k)| ∧ |pkD T (mixVertex T b0 kind k) q (kind k)| < |T.inf|) := by
  unfold mwAcc mixAcc mwNd mwNa mwLen pkNd pkNa
  by_cases hin : pkIn T (mixVertex T b0 kind k) q (kind k)
  · rw [if_pos hin, if_pos hin]
    exact ⟨fun ⟨_, a, b, c⟩ => ⟨hin, a, b, c⟩, fun ⟨_, a, b, c⟩ => ⟨trivial, a, b, c⟩⟩
  · rw [if_neg hin, if_neg hin]
    exact ⟨fun ⟨_, _, _, c⟩ => absurd c (lt_irrefl _), fun ⟨h, _⟩ => absurd h hin⟩

/-- **C06** the piece the walk keeps, walks of straight AND circular pieces (repaired step).  Setting: the segment loop over
`n = lensCur.length` pieces, piece `k` of kind `kind k` (`MixedPiece`), started from a state whose running minimum and pending
distance are `+∞` (as in the code).  Then the loop succeeds and `(distance, along, segmentFraction, depthRef, segment, found)` of its
final state are `mwSpec`: the initial ones if no piece accepts; otherwise those of the piece returned by the scan
`mwSel = selFirstMin mwAcc mwKey`, characterised completely by `IsFirstMin`: it accepts the point, its `|distance|` is minimal among
the accepting pieces, and it is the FIRST such piece. -/
theorem C06_walk_selects_min_mixed (T : Transc F) (L : ArcLaws T) (dm : DepthMethod) (op : Bool) (sr fr : F) (q : P2 F)
    (angsCur angsNext : List (P2 F)) (lensCur lensNext : List F) (s0 : SegState F) (kind : Nat → PieceKind F)
    (h1 : lensCur.length ≤ angsCur.length) (h2 : lensCur.length ≤ angsNext.length) (h3 : lensCur.length ≤ lensNext.length)
    (h0 : s0.distance = T.inf) (h0n : s0.newDistance = T.inf)
    (hp : ∀ k, k < lensCur.length → MixedPiece T dm fr angsCur angsNext lensCur lensNext k
      (@segStates F (fieldScalar T) dm op sr fr q angsCur angsNext lensCur lensNext s0 k) q (kind k)) :
    (∃ s, @segmentLoop F (fieldScalar T) dm op sr fr q angsCur angsNext lensCur lensNext (lensCur.length + 1) 0 s0 = .ok s ∧
      s.out = mwSpec T op sr s0.endSeg q kind s0.totalLength s0.out lensCur.length ∧
      s.endSeg = mixVertex T s0.endSeg kind lensCur.length ∧
      s.totalLength = s0.totalLength + walkCum (mwLen kind) lensCur.length) ∧
    (mwSel T s0.endSeg q kind lensCur.length = none ↔ ∀ j, j < lensCur.length → ¬ mwAcc T s0.endSeg q kind j) ∧
    (∀ k, mwSel T s0.endSeg q kind lensCur.length = some k ↔
      IsFirstMin (mwAcc T s0.endSeg q kind) (mwKey T s0.endSeg q kind) lensCur.length k) ∧
    ((∀ j, j < lensCur.length → ¬ mwAcc T s0.endSeg q kind j) →
      mwSpec T op sr s0.endSeg q kind s0.totalLength s0.out lensCur.length = s0.out) ∧
    (∀ k, IsFirstMin (mwAcc T s0.endSeg q kind) (mwKey T s0.endSeg q kind) lensCur.length k →
      mwSpec T op sr s0.endSeg q kind s0.totalLength s0.out lensCur.length =
        ⟨if op then |mwNd T s0.endSeg q kind k| else mwNd T s0.endSeg q kind k,
         mwNa T s0.endSeg q kind k + (s0.totalLength + walkCum (mwLen kind) k),
         mwNa T s0.endSeg q kind k / mwLen kind k, mwNdr T sr s0.endSeg q kind k, k, true⟩) := by
  obtain ⟨w1, w2, w3⟩ := segStates_mixed_walk T L dm op sr fr q angsCur angsNext lensCur lensNext s0 kind lensCur.length h0 h0n hp
    lensCur.length le_rfl
  refine ⟨⟨_, @segmentLoop_states F (fieldScalar T) dm op sr fr q angsCur angsNext lensCur lensNext s0 h1 h2 h3
      (lensCur.length + 1) 0 (Nat.zero_le _) (by omega), w3, w1, w2⟩,
    selFirstMin_none _ _ _, fun k => selFirstMin_eq_some_iff _ _ _ k, fun hn => ?_, fun k hk => ?_⟩
  · show mixOutOf _ _ _ _ _ _ _ (mwSel T s0.endSeg q kind lensCur.length) = _
    rw [show mwSel T s0.endSeg q kind lensCur.length = none from (selFirstMin_none _ _ _).2 hn]
    rfl
  · show mixOutOf _ _ _ _ _ _ _ (mwSel T s0.endSeg q kind lensCur.length) = _
    rw [show mwSel T s0.endSeg q kind lensCur.length = some k from (selFirstMin_eq_some_iff _ _ _ k).2 hk]
    rfl

/-- **C06** the numbers of the selected piece of a mixed walk.  Let `k` be the piece the specification selects.  Then the loop
returns `segment = k`, `found`, `distanceAlongPlane = Σ_{j<k} len_j + pkA_k` (plus the initial running length, 0) where `pkA_k` is
`⟨q − b_k, t_k⟩` on a straight piece and the arc length `radius·|ψ − θ|` from the start of the arc to the foot on a circular one,
`fractionOfSegment = pkA_k / len_k ≤ 1`, `≥ −1e-10/len_k`, and `≥ 0` when `pkA_k ≥ 0` (an arc takes points up to `1e-12` rad before
its top dip: a tiny negative fraction), `distanceFromPlane = pkD_k` (or its absolute value), the reference depth `pkR_k`. -/
theorem C06_walk_along_eq_mixed (T : Transc F) (L : ArcLaws T) (dm : DepthMethod) (op : Bool) (sr fr : F) (q : P2 F)
    (angsCur angsNext : List (P2 F)) (lensCur lensNext : List F) (s0 : SegState F) (kind : Nat → PieceKind F)
    (h1 : lensCur.length ≤ angsCur.length) (h2 : lensCur.length ≤ angsNext.length) (h3 : lensCur.length ≤ lensNext.length)
    (h0 : s0.distance = T.inf) (h0n : s0.newDistance = T.inf)
    (hp : ∀ k, k < lensCur.length → MixedPiece T dm fr angsCur angsNext lensCur lensNext k
      (@segStates F (fieldScalar T) dm op sr fr q angsCur angsNext lensCur lensNext s0 k) q (kind k))
    (k : Nat) (hk : IsFirstMin (mwAcc T s0.endSeg q kind) (mwKey T s0.endSeg q kind) lensCur.length k) :
    let b := mixVertex T s0.endSeg kind k
    ∃ s, @segmentLoop F (fieldScalar T) dm op sr fr q angsCur angsNext lensCur lensNext (lensCur.length + 1) 0 s0 = .ok s ∧
      s.segment = k ∧ s.found = true ∧ pkIn T b q (kind k) ∧
      s.along = s0.totalLength + walkCum (mwLen kind) k + pkA T b q (kind k) ∧
      s.segmentFraction = pkA T b q (kind k) / pkLen (kind k) ∧
      -(1 / 10 ^ 10) / pkLen (kind k) ≤ s.segmentFraction ∧ s.segmentFraction ≤ 1 ∧
      (0 ≤ pkA T b q (kind k) → 0 ≤ s.segmentFraction) ∧
      s.distance = (if op then |pkD T b q (kind k)| else pkD T b q (kind k)) ∧
      s.depthRef = pkR T sr b q (kind k) := by
  intro b
  obtain ⟨⟨s, hs, ho, _⟩, _, _, _, hsel⟩ := C06_walk_selects_min_mixed T L dm op sr fr q angsCur angsNext lensCur lensNext s0 kind h1 h2 h3 h0 h0n hp
  rw [hsel k hk] at ho
  obtain ⟨hin, hw1, hw2, _⟩ := (C06_walk_accept_iff T s0.endSeg q kind k).1 hk.2.1
  have hlen14 := (mixedAt_len T _ _ _ _ _ _ (hp k hk.1)).2
  have hlenpos : 0 < pkLen (kind k) := lt_of_lt_of_le (by positivity) hlen14
  have hnd : mwNd T s0.endSeg q kind k = pkD T b q (kind k) := by unfold mwNd pkNd; rw [if_pos hin]
  have hna : mwNa T s0.endSeg q kind k = pkA T b q (kind k) := by unfold mwNa pkNa; rw [if_pos hin]
  have hndr : mwNdr T sr s0.endSeg q kind k = pkR T sr b q (kind k) := by unfold mwNdr pkNdr; rw [if_pos hin]
  rw [hnd, hna, hndr] at ho
  have hfr : s.segmentFraction = pkA T b q (kind k) / pkLen (kind k) := congrArg WalkOut.fraction ho
  rw [abs_of_pos hlenpos] at hw2
  refine ⟨s, hs, congrArg WalkOut.segment ho, congrArg WalkOut.found ho, hin, ?_, hfr, ?_, ?_, ?_, congrArg WalkOut.distance ho,
    congrArg WalkOut.depthRef ho⟩
  · have := congrArg WalkOut.along ho
    rw [show s.out.along = s.along from rfl] at this
    rw [this]
    show pkA T b q (kind k) + (s0.totalLength + walkCum (mwLen kind) k) = _
    ring
  · rw [hfr]; exact div_le_div_of_nonneg_right hw1 hlenpos.le
  · rw [hfr, div_le_one hlenpos]; exact hw2
  · intro hpos; rw [hfr]; exact div_nonneg hpos hlenpos.le

/-! ### joints where the dip is continuous -/

/-- **C06** a straight piece followed by a circular piece that starts with the same dip (`arcUp`: the surface steepens; `arcDown`: it
flattens).  Take the point `q = P + d·n(θ)` on the normal through the joint `P` (`d` its signed distance, `d < radius` resp.
`−radius < d`: not beyond the centre).  Seen from the arc, `q` is at the polar position `(radius ∓ d, θ)` — the polar equation of
`MixedAt` holds with `ψ = θ` —, BOTH pieces attribute it (no gap), with the same distance `d`, the local along-values `len₁`
(straight) and `0` (arc) — the same total along-value —, and the same reference depth (no jump). -/
theorem C06_walk_joint_straight_arc (T : Transc F) (L : PlaneLaws T) (sr : F) (b : P2 F) (θ β len1 len2 d : F) (hl1 : 0 ≤ len1) :
    let P := pkEnd T b (.straight θ len1)
    let q : P2 F := ⟨P.x - d * T.sin θ, P.y - d * T.cos θ⟩
    let up : PieceKind F := .arcUp θ β len2 (len2 / (β - θ) - d) θ
    let down : PieceKind F := .arcDown θ β len2 (len2 / (θ - β) + d) θ
    pkIn T b q (.straight θ len1) ∧ pkA T b q (.straight θ len1) = len1 ∧ pkD T b q (.straight θ len1) = d ∧
    q = ⟨P.x - len2 / (β - θ) * T.sin θ + (len2 / (β - θ) - d) * T.sin θ, P.y - len2 / (β - θ) * T.cos θ + (len2 / (β - θ) - d) * T.cos θ⟩ ∧
    (θ ≤ β → pkIn T P q up) ∧ pkA T P q up = 0 ∧ pkD T P q up = d ∧ pkR T sr P q up = pkR T sr b q (.straight θ len1) ∧
    q = ⟨P.x + len2 / (θ - β) * T.sin θ - (len2 / (θ - β) + d) * T.sin θ, P.y + len2 / (θ - β) * T.cos θ - (len2 / (θ - β) + d) * T.cos θ⟩ ∧
    (β ≤ θ → pkIn T P q down) ∧ pkA T P q down = 0 ∧ pkD T P q down = d ∧ pkR T sr P q down = pkR T sr b q (.straight θ len1) := by
  intro P q up down
  have hsq := L.sin_sq_add_cos_sq θ
  have hA : alongDip T b q θ = len1 := by
    show T.cos θ * (b.x + len1 * T.cos θ - d * T.sin θ - b.x) - T.sin θ * (b.y - len1 * T.sin θ - d * T.cos θ - b.y) = len1
    linear_combination len1 * hsq
  have hD : belowDip T b q θ = d := by
    show -T.sin θ * (b.x + len1 * T.cos θ - d * T.sin θ - b.x) - T.cos θ * (b.y - len1 * T.sin θ - d * T.cos θ - b.y) = d
    linear_combination d * hsq
  have hpos12 : (0 : F) < 1 / 10 ^ 12 := by positivity
  refine ⟨?_, hA, hD, ?_, fun h => ?_, ?_, ?_, ?_, ?_, fun h => ?_, ?_, ?_, ?_⟩
  · show 0 ≤ alongDip T b q θ ∧ alongDip T b q θ ≤ len1
    rw [hA]; exact ⟨hl1, le_rfl⟩
  · show (⟨_, _⟩ : P2 F) = ⟨_, _⟩
    congr 1 <;> ring
  · exact ⟨Or.inl le_rfl, Or.inl h⟩
  · show len2 / (β - θ) * (θ - θ) = 0
    ring
  · show len2 / (β - θ) - (len2 / (β - θ) - d) = d
    ring
  · show sr - (P.y - len2 / (β - θ) * T.cos θ + len2 / (β - θ) * T.cos θ) = sr - (b.y - alongDip T b q θ * T.sin θ)
    rw [hA]
    show sr - (b.y - len1 * T.sin θ - len2 / (β - θ) * T.cos θ + len2 / (β - θ) * T.cos θ) = _
    ring
  · show (⟨_, _⟩ : P2 F) = ⟨_, _⟩
    congr 1 <;> ring
  · exact ⟨Or.inl le_rfl, Or.inl h⟩
  · show len2 / (θ - β) * (θ - θ) = 0
    ring
  · show len2 / (θ - β) + d - len2 / (θ - β) = d
    ring
  · show sr - (P.y + len2 / (θ - β) * T.cos θ - len2 / (θ - β) * T.cos θ) = sr - (b.y - alongDip T b q θ * T.sin θ)
    rw [hA]
    show sr - (b.y - len1 * T.sin θ + len2 / (θ - β) * T.cos θ - len2 / (θ - β) * T.cos θ) = _
    ring

/-- **C06** two circular pieces with increasing dip, the second starting with the dip `β₁` the first ends with (`θ₁ < β₁ ≤ β₂`).
The point at polar position `(ρ, β₁)` about the first centre — on the common normal through the joint — is at polar position
`(ρ − r₁ + r₂, β₁)` about the second centre; both pieces attribute it; the distance `r₁ − ρ = r₂ − (ρ − r₁ + r₂)` is the same, the local
along-values are `len₁` and `0`, the reference depth is the same. -/
theorem C06_walk_joint_arc_arc (T : Transc F) (sr : F) (b : P2 F) (θ1 β1 β2 len1 len2 ρ : F) (h1 : θ1 < β1) (h2 : β1 ≤ β2) :
    let k1 : PieceKind F := .arcUp θ1 β1 len1 ρ β1
    let P := pkEnd T b k1
    let q : P2 F := ⟨b.x - len1 / (β1 - θ1) * T.sin θ1 + ρ * T.sin β1, b.y - len1 / (β1 - θ1) * T.cos θ1 + ρ * T.cos β1⟩
    let k2 : PieceKind F := .arcUp β1 β2 len2 (ρ - len1 / (β1 - θ1) + len2 / (β2 - β1)) β1
    pkIn T b q k1 ∧ pkA T b q k1 = len1 ∧
    q = ⟨P.x - len2 / (β2 - β1) * T.sin β1 + (ρ - len1 / (β1 - θ1) + len2 / (β2 - β1)) * T.sin β1,
         P.y - len2 / (β2 - β1) * T.cos β1 + (ρ - len1 / (β1 - θ1) + len2 / (β2 - β1)) * T.cos β1⟩ ∧
    pkIn T P q k2 ∧ pkA T P q k2 = 0 ∧ pkD T P q k2 = pkD T b q k1 ∧ pkR T sr P q k2 = pkR T sr b q k1 := by
  intro k1 P q k2
  have hne : β1 - θ1 ≠ 0 := by intro h; linarith
  refine ⟨⟨Or.inl h1.le, Or.inl le_rfl⟩, ?_, ?_, ⟨Or.inl le_rfl, Or.inl h2⟩, ?_, ?_, ?_⟩
  · show len1 / (β1 - θ1) * (β1 - θ1) = len1
    field_simp
  · show (⟨_, _⟩ : P2 F) = (⟨b.x - len1 / (β1 - θ1) * T.sin θ1 + len1 / (β1 - θ1) * T.sin β1 - len2 / (β2 - β1) * T.sin β1 + _,
               b.y - len1 / (β1 - θ1) * T.cos θ1 + len1 / (β1 - θ1) * T.cos β1 - len2 / (β2 - β1) * T.cos β1 + _⟩ : P2 F)
    congr 1 <;> ring
  · show len2 / (β2 - β1) * (β1 - β1) = 0
    ring
  · show len2 / (β2 - β1) - (ρ - len1 / (β1 - θ1) + len2 / (β2 - β1)) = len1 / (β1 - θ1) - ρ
    ring
  · show sr - (b.y - len1 / (β1 - θ1) * T.cos θ1 + len1 / (β1 - θ1) * T.cos β1 - len2 / (β2 - β1) * T.cos β1 + len2 / (β2 - β1) * T.cos β1) =
      sr - (b.y - len1 / (β1 - θ1) * T.cos θ1 + len1 / (β1 - θ1) * T.cos β1)
    ring

/-! ### the original step (before the repair), abstractly -/

/-- **C06, finding (original step)** the stale acceptance.  `GenStep … s r s.newDistance s.newAlong s.newDepthRef` describes an
iteration whose geometry phase wrote nothing (a circular piece rejecting the point, in the original code).  If the pending triple —
written by an EARLIER piece — has `−1e-10 ≤ newAlong ≤ |len k|` and `|newDistance| < |distance|` (possible only when `newAlong`
exceeded the length of the piece that wrote it), piece `k` records the earlier piece's numbers as its own: `segment = k`,
`fraction = newAlong / len k`, `along = newAlong + totalLength` where `totalLength` already contains the earlier piece's length. -/
theorem C06_walk_stale_value_old_step (op : Bool) (k : Nat) (l : F) (s r : SegState F)
    (h : GenStep op k l s r s.newDistance s.newAlong s.newDepthRef)
    (h1 : -(1 / 10 ^ 10) ≤ s.newAlong) (h2 : s.newAlong ≤ |l|) (h3 : |s.newDistance| < |s.distance|) :
    r.segment = k ∧ r.found = true ∧ r.along = s.newAlong + s.totalLength ∧ r.segmentFraction = s.newAlong / l ∧
    r.distance = (if op then |s.newDistance| else s.newDistance) ∧ r.depthRef = s.newDepthRef :=
  stale_step op k l s r h h1 h2 h3

/-- **C06 (original step)** if no fresh triple that could win exceeds the length of its own piece (`NoOvershoot`), a chain of
iterations in which a piece may leave the pending triple untouched (`¬ fresh k`) still computes `mixSpec`: the stale triple can never
pass the test (invariant `Pending`: `newAlong < −1e-10 ∨ |distance| ≤ |newDistance|`). -/
theorem C06_walk_old_step_safe (T : Transc F) (fresh : Nat → Prop) [DecidablePred fresh] (nd na ndr len : Nat → F)
    (op : Bool) (st : Nat → SegState F) (n : Nat)
    (h0 : (st 0).distance = T.inf) (h0n : (st 0).newDistance = T.inf)
    (hno : ∀ k, k < n → NoOvershoot T fresh nd na len k)
    (hstep : ∀ k, k < n →
      (fresh k → GenStep op k (len k) (st k) (st (k + 1)) (nd k) (na k) (ndr k)) ∧
      (¬ fresh k → GenStep op k (len k) (st k) (st (k + 1)) (st k).newDistance (st k).newAlong (st k).newDepthRef)) :
    (st n).out = mixSpec T fresh nd na ndr len op (st 0).totalLength (st 0).out n :=
  (mixed_chain T fresh nd na ndr len op st n h0 h0n (Or.inr hno) hstep n le_rfl).2.1

end field

/-! ### non-vacuity -/

/-- `ArcLaws` is satisfiable and `MixedAt` is satisfiable for each kind of piece (real functions): a straight piece of dip 1 rad,
100 km; an arc `0.5 → 1 rad` over 100 km with the point at `(1, 0.75)`; an arc `0.5 → 0.25 rad` with the point at `(1, 0.375)` -/
example (b : P2 ℝ) : ArcLaws realArcTransc ∧
    MixedAt realArcTransc 1 1 100000 b b (.straight 1 100000) ∧
    MixedAt realArcTransc (1 / 2) 1 100000 b
      ⟨b.x - 100000 / (1 - 1 / 2) * realArcTransc.sin (1 / 2) + 1 * realArcTransc.sin (3 / 4),
       b.y - 100000 / (1 - 1 / 2) * realArcTransc.cos (1 / 2) + 1 * realArcTransc.cos (3 / 4)⟩ (.arcUp (1 / 2) 1 100000 1 (3 / 4)) ∧
    MixedAt realArcTransc (1 / 2) (1 / 4) 100000 b
      ⟨b.x + 100000 / (1 / 2 - 1 / 4) * realArcTransc.sin (1 / 2) - 1 * realArcTransc.sin (3 / 8),
       b.y + 100000 / (1 / 2 - 1 / 4) * realArcTransc.cos (1 / 2) - 1 * realArcTransc.cos (3 / 8)⟩ (.arcDown (1 / 2) (1 / 4) 100000 1 (3 / 8)) := by
  have hp : (2 : ℝ) ≤ Real.pi := Real.two_le_pi
  have hpi : realArcTransc.pi = Real.pi := rfl
  refine ⟨real_arcLaws, ⟨rfl, by norm_num, rfl, by norm_num [realArcTransc, realTransc], by norm_num⟩,
    ⟨rfl, rfl, rfl, real_dipOK_half, by norm_num, by norm_num [abs_lt], by norm_num, by norm_num, by norm_num [realArcTransc, realTransc],
      by norm_num, ?_, rfl⟩,
    ⟨rfl, rfl, rfl, real_dipOK_half, by norm_num, by norm_num [abs_lt], by norm_num, by norm_num, by norm_num [realArcTransc, realTransc],
      ?_, ?_, rfl⟩⟩
  · rw [hpi]; norm_num; linarith
  · rw [hpi]; linarith
  · rw [hpi]; linarith

/-- the hypotheses of `C06_walk_stale_value_old_step` are satisfiable (numbers of the replayed witness: pending along-value
`100000.0000001` written by a 100 km piece, tested against a 150 km piece) -/
example : ∃ s r : SegState ℚ, GenStep false 1 150000 s r s.newDistance s.newAlong s.newDepthRef ∧
    -(1 / 10 ^ 10) ≤ s.newAlong ∧ s.newAlong ≤ |(150000 : ℚ)| ∧ |s.newDistance| < |s.distance| ∧ r.along = 200000 + 1 / 10 ^ 7 := by
  let s : SegState ℚ :=
    { distance := 10 ^ 30, newDistance := -10000, along := 10 ^ 30, newAlong := 100000 + 1 / 10 ^ 7, newDepthRef := 69905, segment := 0,
      segmentFraction := 0, totalAverageAngle := 0, depthRef := 0, beginSeg := ⟨0, 0⟩, endSeg := ⟨0, 0⟩, totalLength := 100000,
      addAngle := 0, addAngleCorrection := 0, averageAngle := 0, found := false }
  have hc : closestTest s.newAlong s.newDistance (150000 : ℚ) s.distance := by
    refine ⟨?_, ?_, ?_⟩
    · show -(1 / 10 ^ 10) ≤ (100000 + 1 / 10 ^ 7 : ℚ); norm_num
    · show (100000 + 1 / 10 ^ 7 : ℚ) ≤ |(150000 : ℚ)|; norm_num [abs_of_pos]
    · show |(-10000 : ℚ)| < |(10 ^ 30 : ℚ)|; norm_num [abs_of_pos]
  refine ⟨s, { s with distance := -10000, along := 100000 + 1 / 10 ^ 7 + 100000, segment := 1, segmentFraction := (100000 + 1 / 10 ^ 7) / 150000,
                       depthRef := 69905, found := true, totalLength := 100000 + 150000 }, ⟨rfl, rfl, rfl, rfl, ?_⟩, hc.1, hc.2.1, hc.2.2, ?_⟩
  · unfold stepOut
    rw [if_pos hc]
    rfl
  · show (100000 + 1 / 10 ^ 7 + 100000 : ℚ) = _
    norm_num

end Gwb
