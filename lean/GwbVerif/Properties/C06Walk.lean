/-
C06 (continued) — which piece of the walk wins when several straight pieces accept the point; the along-coordinate and the
segment fraction of the selected piece; what happens at a joint.

Vocabulary (`Proofs/WalkSelect.lean`; ordered field `F` through `fieldScalar T`, libm laws `PlaneLaws T`; plane frame of C06:
x horizontal away from the trench, y up, `t_k = (cos θ_k, −sin θ_k)` down dip, `n_k = (−sin θ_k, −cos θ_k)` below the surface):
* `walkVertex T b0 len θ k` = `b_k`, the polyline vertex: `b_0 = b0`, `b_{k+1} = pieceEnd T b_k (θ k) (len k) = b_k + len_k • t_k`;
  `walkCum len k = Σ_{j<k} len_j`;
* `walkA … q k = ⟨q − b_k, t_k⟩` (`alongDip`), `walkD … q k = ⟨q − b_k, n_k⟩` (`belowDip`, positive below the surface);
* `walkAcc … q k` : piece `k` accepts `q`: `0 ≤ walkA k ≤ len k` (both ends included) `∧ |walkD k| < |∞|` (the last clause is an
  artefact of `∞` being an element of the field; `walkAcc_iff_of_lt_inf`); `walkKey … q k = |walkD k|`;
* `selFirstMin acc key n` : left-to-right scan keeping an index, replaced only by an accepted index of STRICTLY smaller key;
  `IsFirstMin acc key n k` : `k < n`, `acc k`, and every accepted `j < n` has `key k < key j`, or `key k = key j ∧ k ≤ j`
  (`selFirstMin_eq_some_iff`, `selFirstMin_none`: the scan returns exactly that index, `none` iff nothing is accepted);
* `walkSel … n = selFirstMin walkAcc walkKey n`, `walkSpec op sr b0 len θ q t0 o0 n` the answer (a `WalkOut`: distance, along,
  fraction, depthRef, segment, found) of the selected piece, the initial answer `o0` if there is none; `SegState.out` reads these
  six members off a loop state;
* `StraightPiece T dm fr tables k s θ len` : iteration `k` entered with state `s` is a straight piece of dip `θ`, length `len`
  (exactly the hypotheses of `C06_line_piece`); for the depth method `none` (Cartesian) it follows from the tables alone
  (`straightPiece_none`), which is how `C06_walk_selects_min_cartesian` is stated;
* `cosTurn T θ1 θ2 = ⟨t_1, t_2⟩`, `sinTurn T θ1 θ2 = ⟨n_1, t_2⟩` (cosine and sine of the change of dip `θ2 − θ1`).

Theorems:
* `C06_walk_selects_min` (+ `_cartesian`)  the loop succeeds and its final `(distance, along, fraction, depthRef, segment, found)`
  is `walkSpec`: those of the accepting piece of smallest `|distance|`, the first on ties; the initial state's if none accepts;
* `C06_walk_along_eq`       for the selected piece `k`: `along = Σ_{j<k} len_j + ⟨q − b_k, t_k⟩`, `fraction = ⟨q − b_k, t_k⟩ / len_k ∈ [0,1]`,
                            `distance = ⟨q − b_k, n_k⟩` (or its absolute value), `depthRef = startRadius − (foot).y`;
* `C06_walk_trench_point`   the trench point itself is attributed to piece 0 at distance 0, along 0 (also: the hypotheses
                            `IsFirstMin …` are satisfiable);
* `C06_walk_joint_continuous`  two consecutive pieces with the same dip give, for EVERY point, the same distance, the same total
                            along-coordinate and the same reference depth; a point whose foot is the joint is accepted by both, and
                            the tie rule gives it to the first (fraction 1), not the second (fraction 0);
* `C06_walk_joint_frames`, `C06_walk_joint_gap`, `C06_walk_joint_gap_side`, `C06_walk_joint_no_gap_same_dip`,
  `C06_walk_joint_overlap`, `C06_walk_joint_overlap_side`  different dips: `lineOutside` of the second piece in the coordinates of
                            the first; the wedge beyond the end of the first piece and before the start of the second is attributed
                            to NO piece (distance `+∞`); it lies on the side the surface turns away from — ABOVE the surface when the
                            dip increases, BELOW it (inside a slab's body) when the dip decreases; with equal dips there is no such
                            region; the region accepted by both lies on the side the surface turns towards;
* `C06_walk_only_positive`  the flag does not take part in the selection: same piece, same along / fraction / depthRef; the
                            distance is replaced by its absolute value.
NOT proved here: circular pieces in the selection (`C06_arc_piece_full` is open), the running average dip of the selected piece,
the gap between real and double arithmetic (at `Float` a point within ~1e-10 m of the normal through a joint of a perfectly
straight two-piece surface can be rejected by both pieces).
-/
import GwbVerif.Proofs.WalkSelect
import GwbVerif.Proofs.LineInstances
namespace Gwb
open Scalar
set_option linter.unusedSectionVars false
set_option linter.unusedVariables false
set_option linter.unusedSimpArgs false

section field
variable {F : Type} [Field F] [LinearOrder F] [IsStrictOrderedRing F]

/-- when `∞` exceeds the distance in absolute value (always, for an infinite `∞`), acceptance is "the foot is on the piece" -/
theorem walkAcc_iff_of_lt_inf (T : Transc F) (b0 : P2 F) (len θ : Nat → F) (q : P2 F) (k : Nat)
    (h : |walkD T b0 len θ q k| < |T.inf|) :
    walkAcc T b0 len θ q k ↔ (0 ≤ walkA T b0 len θ q k ∧ walkA T b0 len θ q k ≤ len k) :=
  ⟨fun ⟨a, b, _⟩ => ⟨a, b⟩, fun ⟨a, b⟩ => ⟨a, b, h⟩⟩

/-- **C06** the piece the walk keeps.  Setting: the segment loop over `n = lensCur.length` pieces, every one of them straight
(`StraightPiece`: interpolated dips at top and bottom within `1e-8` of each other, `θ k` the dip at the top, interpolated length
`len k ≥ 1e-14` and `> ε` — the hypotheses of `C06_line_piece`), started from a state `s0` whose running minimum is `+∞`
(`s0.endSeg = b_0` the trench point, `s0.totalLength` the running length, 0 in the code).  Then the loop succeeds and the six members
`(distance, along, segmentFraction, depthRef, segment, found)` of its final state are `walkSpec`: if no piece accepts the point
they are the initial state's (`+∞, +∞, 0, 0, 0, false` in the code); otherwise they are those of the piece `k` returned by the scan
`walkSel = selFirstMin walkAcc walkKey`, which is characterised completely: `k` accepts the point, `|⟨q − b_k, n_k⟩|` is minimal
among all accepting pieces, and `k` is the FIRST such piece (`IsFirstMin`); `walkSel = none` iff no piece accepts. -/
theorem C06_walk_selects_min (T : Transc F) (L : PlaneLaws T) (dm : DepthMethod) (op : Bool) (sr fr : F) (q : P2 F)
    (angsCur angsNext : List (P2 F)) (lensCur lensNext : List F) (s0 : SegState F) (len θ : Nat → F)
    (h1 : lensCur.length ≤ angsCur.length) (h2 : lensCur.length ≤ angsNext.length) (h3 : lensCur.length ≤ lensNext.length)
    (h0 : s0.distance = T.inf)
    (hp : ∀ k, k < lensCur.length → StraightPiece T dm fr angsCur angsNext lensCur lensNext k
      (@segStates F (fieldScalar T) dm op sr fr q angsCur angsNext lensCur lensNext s0 k) (θ k) (len k)) :
    (∃ s, @segmentLoop F (fieldScalar T) dm op sr fr q angsCur angsNext lensCur lensNext (lensCur.length + 1) 0 s0 = .ok s ∧
      s.out = walkSpec T op sr s0.endSeg len θ q s0.totalLength s0.out lensCur.length ∧
      s.endSeg = walkVertex T s0.endSeg len θ lensCur.length ∧ s.totalLength = s0.totalLength + walkCum len lensCur.length) ∧
    (walkSel T s0.endSeg len θ q lensCur.length = none ↔ ∀ j, j < lensCur.length → ¬ walkAcc T s0.endSeg len θ q j) ∧
    (∀ k, walkSel T s0.endSeg len θ q lensCur.length = some k ↔
      IsFirstMin (walkAcc T s0.endSeg len θ q) (walkKey T s0.endSeg len θ q) lensCur.length k) ∧
    ((∀ j, j < lensCur.length → ¬ walkAcc T s0.endSeg len θ q j) →
      walkSpec T op sr s0.endSeg len θ q s0.totalLength s0.out lensCur.length = s0.out) ∧
    (∀ k, IsFirstMin (walkAcc T s0.endSeg len θ q) (walkKey T s0.endSeg len θ q) lensCur.length k →
      walkSpec T op sr s0.endSeg len θ q s0.totalLength s0.out lensCur.length =
        walkOutOf T op sr s0.endSeg len θ q s0.totalLength s0.out (some k)) := by
  obtain ⟨w1, w2, w3⟩ := segStates_straight_walk T L dm op sr fr q angsCur angsNext lensCur lensNext s0 len θ lensCur.length h0 hp
    lensCur.length le_rfl
  refine ⟨⟨_, @segmentLoop_states F (fieldScalar T) dm op sr fr q angsCur angsNext lensCur lensNext s0 h1 h2 h3
      (lensCur.length + 1) 0 (Nat.zero_le _) (by omega), w3, w1, w2⟩,
    selFirstMin_none _ _ _, fun k => selFirstMin_eq_some_iff _ _ _ k, fun hn => ?_, fun k hk => ?_⟩
  · unfold walkSpec
    rw [show walkSel T s0.endSeg len θ q lensCur.length = none from (selFirstMin_none _ _ _).2 hn]
    rfl
  · unfold walkSpec
    rw [show walkSel T s0.endSeg len θ q lensCur.length = some k from (selFirstMin_eq_some_iff _ _ _ k).2 hk]

/-- **C06** the same for the depth method `none` (Cartesian systems), stated on the tables: `ac k, an k` the `(top, bottom)` dips of
segment `k` in the two sections around the foot, `lc k, ln k` its lengths, `fr` the section fraction; the piece is straight when
the two interpolated dips agree to `1e-8`; `θ k = ac.x + fr·(an.x − ac.x)`, `len k = lc + fr·(ln − lc)` -/
theorem C06_walk_selects_min_cartesian (T : Transc F) (L : PlaneLaws T) (op : Bool) (sr fr : F) (q : P2 F)
    (angsCur angsNext : List (P2 F)) (lensCur lensNext : List F) (s0 : SegState F) (ac an : Nat → P2 F) (lc ln : Nat → F)
    (h1 : lensCur.length ≤ angsCur.length) (h2 : lensCur.length ≤ angsNext.length) (h3 : lensCur.length ≤ lensNext.length)
    (h0 : s0.distance = T.inf) (ha0 : s0.addAngle = 0)
    (htab : ∀ k, k < lensCur.length →
      angsCur[k]? = some (ac k) ∧ angsNext[k]? = some (an k) ∧ lensCur[k]? = some (lc k) ∧ lensNext[k]? = some (ln k))
    (hst : ∀ k, k < lensCur.length →
      |((ac k).x + fr * ((an k).x - (ac k).x)) - ((ac k).y + fr * ((an k).y - (ac k).y))| < 1 / 10 ^ 8 ∧
      T.eps < |lc k + fr * (ln k - lc k)| ∧ 1 / 10 ^ 14 ≤ lc k + fr * (ln k - lc k)) :
    ∃ s, @segmentLoop F (fieldScalar T) .none op sr fr q angsCur angsNext lensCur lensNext (lensCur.length + 1) 0 s0 = .ok s ∧
      s.out = walkSpec T op sr s0.endSeg (fun k => lc k + fr * (ln k - lc k)) (fun k => (ac k).x + fr * ((an k).x - (ac k).x)) q
        s0.totalLength s0.out lensCur.length := by
  obtain ⟨⟨s, hs, ho, _⟩, _⟩ := C06_walk_selects_min T L .none op sr fr q angsCur angsNext lensCur lensNext s0
    (fun k => lc k + fr * (ln k - lc k)) (fun k => (ac k).x + fr * ((an k).x - (ac k).x)) h1 h2 h3 h0
    (fun k hk => straightPiece_none T op sr fr q angsCur angsNext lensCur lensNext s0 ha0 k (ac k) (an k) (lc k) (ln k)
      (htab k hk).1 (htab k hk).2.1 (htab k hk).2.2.1 (htab k hk).2.2.2 (hst k hk).1 (hst k hk).2.1 (hst k hk).2.2)
  exact ⟨s, hs, ho⟩

/-- the hypotheses of `C06_walk_selects_min_cartesian` (hence, through `straightPiece_none`, those of `C06_walk_selects_min`) are
satisfiable: real functions, two segments of dip 1 rad, 100 and 200 km in one section, 150 and 250 km in the next, half-way -/
example : PlaneLaws realTransc ∧
    ∀ k, k < ([100000, 200000] : List ℝ).length →
      (([⟨1, 1⟩, ⟨1, 1⟩] : List (P2 ℝ))[k]? = some ⟨1, 1⟩ ∧ ([⟨1, 1⟩, ⟨1, 1⟩] : List (P2 ℝ))[k]? = some ⟨1, 1⟩ ∧
        ([100000, 200000] : List ℝ)[k]? = some (100000 * (k + 1)) ∧ ([150000, 250000] : List ℝ)[k]? = some (100000 * (k + 1) + 50000)) ∧
      (|((1 : ℝ) + 1 / 2 * (1 - 1)) - (1 + 1 / 2 * (1 - 1))| < 1 / 10 ^ 8 ∧
        realTransc.eps < |(100000 * (k + 1) : ℝ) + 1 / 2 * (100000 * (k + 1) + 50000 - 100000 * (k + 1))| ∧
        (1 : ℝ) / 10 ^ 14 ≤ 100000 * (k + 1) + 1 / 2 * (100000 * (k + 1) + 50000 - 100000 * (k + 1))) := by
  refine ⟨real_planeLaws, fun k hk => ?_⟩
  have hk' : k = 0 ∨ k = 1 := by simp at hk; omega
  rcases hk' with rfl | rfl
  · refine ⟨⟨rfl, rfl, ?_, ?_⟩, ?_, ?_, ?_⟩ <;> norm_num [realTransc]
  · refine ⟨⟨rfl, rfl, ?_, ?_⟩, ?_, ?_, ?_⟩ <;> norm_num [realTransc]

/-- **C06** the numbers of the selected piece.  Same setting as `C06_walk_selects_min`; let `k` be the piece the specification
selects (`IsFirstMin`: accepting, smallest `|distance|`, first on ties).  Then the loop returns `segment = k`, `found`,
`distanceAlongPlane = (Σ_{j<k} len_j) + ⟨q − b_k, t_k⟩` (plus the initial running length, 0), `fractionOfSegment =
⟨q − b_k, t_k⟩ / len_k`, which lies in `[0, 1]`, `distanceFromPlane = ⟨q − b_k, n_k⟩` (its absolute value with `only_positive`), and the
reference depth `startRadius − (b_k + ⟨q − b_k, t_k⟩ • t_k).y`; `b_k` is the polyline vertex `b_0 + Σ_{j<k} len_j • t_j` (`walkVertex`,
`walkCum`: recursion equations restated in the conclusion). -/
theorem C06_walk_along_eq (T : Transc F) (L : PlaneLaws T) (dm : DepthMethod) (op : Bool) (sr fr : F) (q : P2 F)
    (angsCur angsNext : List (P2 F)) (lensCur lensNext : List F) (s0 : SegState F) (len θ : Nat → F)
    (h1 : lensCur.length ≤ angsCur.length) (h2 : lensCur.length ≤ angsNext.length) (h3 : lensCur.length ≤ lensNext.length)
    (h0 : s0.distance = T.inf)
    (hp : ∀ k, k < lensCur.length → StraightPiece T dm fr angsCur angsNext lensCur lensNext k
      (@segStates F (fieldScalar T) dm op sr fr q angsCur angsNext lensCur lensNext s0 k) (θ k) (len k))
    (k : Nat) (hk : IsFirstMin (walkAcc T s0.endSeg len θ q) (walkKey T s0.endSeg len θ q) lensCur.length k) :
    (∃ s, @segmentLoop F (fieldScalar T) dm op sr fr q angsCur angsNext lensCur lensNext (lensCur.length + 1) 0 s0 = .ok s ∧
      s.segment = k ∧ s.found = true ∧
      s.along = s0.totalLength + walkCum len k + alongDip T (walkVertex T s0.endSeg len θ k) q (θ k) ∧
      s.segmentFraction = alongDip T (walkVertex T s0.endSeg len θ k) q (θ k) / len k ∧
      0 ≤ s.segmentFraction ∧ s.segmentFraction ≤ 1 ∧
      s.distance = (if op then |belowDip T (walkVertex T s0.endSeg len θ k) q (θ k)| else belowDip T (walkVertex T s0.endSeg len θ k) q (θ k)) ∧
      s.depthRef = sr - ((walkVertex T s0.endSeg len θ k).y - alongDip T (walkVertex T s0.endSeg len θ k) q (θ k) * T.sin (θ k))) ∧
    walkVertex T s0.endSeg len θ 0 = s0.endSeg ∧
    (∀ j, walkVertex T s0.endSeg len θ (j + 1) =
      ⟨(walkVertex T s0.endSeg len θ j).x + len j * T.cos (θ j), (walkVertex T s0.endSeg len θ j).y - len j * T.sin (θ j)⟩) ∧
    walkCum len 0 = 0 ∧ (∀ j, walkCum len (j + 1) = walkCum len j + len j) := by
  obtain ⟨⟨s, hs, ho, _⟩, _, _, _, hsel⟩ := C06_walk_selects_min T L dm op sr fr q angsCur angsNext lensCur lensNext s0 len θ h1 h2 h3 h0 hp
  rw [hsel k hk] at ho
  have hlenpos : 0 < len k := lt_of_lt_of_le (by positivity) (hp k hk.1).2.2.2.2
  have hfr : s.segmentFraction = alongDip T (walkVertex T s0.endSeg len θ k) q (θ k) / len k := congrArg WalkOut.fraction ho
  obtain ⟨ha0, ha1, _⟩ := hk.2.1
  refine ⟨⟨s, hs, congrArg WalkOut.segment ho, congrArg WalkOut.found ho, ?_, hfr, ?_, ?_, congrArg WalkOut.distance ho,
    congrArg WalkOut.depthRef ho⟩, rfl, fun _ => rfl, rfl, fun _ => rfl⟩
  · have := congrArg WalkOut.along ho
    rw [show s.out.along = s.along from rfl] at this
    rw [this]
    show walkA T s0.endSeg len θ q k + (s0.totalLength + walkCum len k) = _
    unfold walkA; ring
  · rw [hfr]; exact div_nonneg ha0 hlenpos.le
  · rw [hfr, div_le_one hlenpos]; exact ha1

/-- **C06** the trench point: `q = b_0` is accepted by piece 0 with distance 0 and along-coordinate 0, and nothing can beat it: the
specification selects piece 0 (so the hypothesis `IsFirstMin …` of `C06_walk_along_eq` is satisfiable whenever there is a piece of
nonnegative length and `∞ ≠ 0`) -/
theorem C06_walk_trench_point (T : Transc F) (b0 : P2 F) (len θ : Nat → F) (n : Nat) (hn : 0 < n) (hl : 0 ≤ len 0) (hinf : T.inf ≠ 0) :
    IsFirstMin (walkAcc T b0 len θ b0) (walkKey T b0 len θ b0) n 0 ∧ walkA T b0 len θ b0 0 = 0 ∧ walkD T b0 len θ b0 0 = 0 := by
  have hA : walkA T b0 len θ b0 0 = 0 := by unfold walkA alongDip walkVertex; ring
  have hD : walkD T b0 len θ b0 0 = 0 := by unfold walkD belowDip walkVertex; ring
  refine ⟨⟨hn, ⟨by rw [hA], by rw [hA]; exact hl, by rw [hD, abs_zero]; exact abs_pos.mpr hinf⟩, fun j hj _ => ?_⟩, hA, hD⟩
  have hk0 : walkKey T b0 len θ b0 0 = 0 := by unfold walkKey; rw [hD, abs_zero]
  rw [hk0]
  rcases lt_or_eq_of_le (abs_nonneg (walkD T b0 len θ b0 j)) with h | h
  · exact Or.inl h
  · exact Or.inr ⟨h, Nat.zero_le _⟩

example : (0 : ℕ) < 2 ∧ (0 : ℝ) ≤ 100000 ∧ realTransc.inf ≠ 0 := by
  refine ⟨by norm_num, by norm_num, ?_⟩
  norm_num [realTransc]

/-! ### joints -/

/-- **C06** a joint between two pieces of the SAME dip (a polyline that is actually straight).  For every point `q`, seen from the
second piece (`b_{k+1} = b_k + len_k • t`) the distance from the plane is the same, the along-coordinate is smaller by exactly
`len_k` — so the total along-coordinate `Σ_{j≤k} len_j + a_{k+1} = Σ_{j<k} len_j + a_k` is the same — and the foot, hence the
reference depth, is the same.  So whichever of the two pieces the tie rule keeps, distance, distance along the plane and reference
depth do not change; only `(segment, fraction)` is `(k, 1)` rather than `(k+1, 0)` for a point whose foot is the joint, which both
pieces accept (closed intervals on both sides — over the field no point of the joint's normal falls between the pieces). -/
theorem C06_walk_joint_continuous (T : Transc F) (L : PlaneLaws T) (op : Bool) (sr : F) (b0 : P2 F) (len θ : Nat → F) (q : P2 F)
    (t0 : F) (o0 : WalkOut F) (k : Nat) (hθ : θ (k + 1) = θ k) :
    walkD T b0 len θ q (k + 1) = walkD T b0 len θ q k ∧
    walkA T b0 len θ q (k + 1) = walkA T b0 len θ q k - len k ∧
    (walkOutOf T op sr b0 len θ q t0 o0 (some (k + 1))).distance = (walkOutOf T op sr b0 len θ q t0 o0 (some k)).distance ∧
    (walkOutOf T op sr b0 len θ q t0 o0 (some (k + 1))).along = (walkOutOf T op sr b0 len θ q t0 o0 (some k)).along ∧
    (walkOutOf T op sr b0 len θ q t0 o0 (some (k + 1))).depthRef = (walkOutOf T op sr b0 len θ q t0 o0 (some k)).depthRef ∧
    (walkA T b0 len θ q k = len k → 0 ≤ len k → 0 ≤ len (k + 1) → |walkD T b0 len θ q k| < |T.inf| →
      walkAcc T b0 len θ q k ∧ walkAcc T b0 len θ q (k + 1) ∧ walkKey T b0 len θ q (k + 1) = walkKey T b0 len θ q k ∧
      (0 < len k → (walkOutOf T op sr b0 len θ q t0 o0 (some k)).fraction = 1) ∧
      (walkOutOf T op sr b0 len θ q t0 o0 (some (k + 1))).fraction = 0) := by
  have hD : walkD T b0 len θ q (k + 1) = walkD T b0 len θ q k := by
    unfold walkD
    rw [walkVertex_succ, hθ]
    exact belowDip_joint_same T _ _ _ _
  have hA : walkA T b0 len θ q (k + 1) = walkA T b0 len θ q k - len k := by
    unfold walkA
    rw [walkVertex_succ, hθ]
    exact alongDip_joint_same T L _ _ _ _
  refine ⟨hD, hA, ?_, ?_, ?_, ?_⟩
  · show (if op then |walkD T b0 len θ q (k + 1)| else walkD T b0 len θ q (k + 1)) = (if op then |walkD T b0 len θ q k| else walkD T b0 len θ q k)
    rw [hD]
  · show walkA T b0 len θ q (k + 1) + (t0 + walkCum len (k + 1)) = walkA T b0 len θ q k + (t0 + walkCum len k)
    rw [hA]; show _ + (t0 + (walkCum len k + len k)) = _; ring
  · show sr - ((walkVertex T b0 len θ (k + 1)).y - walkA T b0 len θ q (k + 1) * T.sin (θ (k + 1))) =
      sr - ((walkVertex T b0 len θ k).y - walkA T b0 len θ q k * T.sin (θ k))
    rw [hA, hθ, walkVertex_succ]
    unfold pieceEnd
    ring
  · intro hfoot hl0 hl1 hinf
    refine ⟨⟨by rw [hfoot]; exact hl0, hfoot.le, hinf⟩, ⟨by rw [hA, hfoot, sub_self], by rw [hA, hfoot, sub_self]; exact hl1, by rw [hD]; exact hinf⟩,
      by unfold walkKey; rw [hD], fun hpos => ?_, ?_⟩
    · show walkA T b0 len θ q k / len k = 1
      rw [hfoot, div_self (ne_of_gt hpos)]
    · show walkA T b0 len θ q (k + 1) / len (k + 1) = 0
      rw [hA, hfoot, sub_self, zero_div]

/-- **C06** a joint between two pieces of different dips `θ1`, `θ2`: with `(u, v) = (a₁ − len₁, d₁)` the coordinates of `q` seen from
the joint in the frame `(t_1, n_1)` of the first piece, the second piece sees `a₂ = u·cosTurn + v·sinTurn`,
`d₂ = −u·sinTurn + v·cosTurn` (the frame turned by the change of dip), and the code's tests `lineOutside` for the two pieces are
`¬ (0 ≤ a₁ ≤ len₁)` and `¬ (0 ≤ a₂ ≤ len₂)` -/
theorem C06_walk_joint_frames (T : Transc F) (L : PlaneLaws T) (b q : P2 F) (θ1 θ2 len1 len2 : F) (h1 : 0 < len1) (h2 : 0 < len2) :
    let J := pieceEnd T b θ1 len1
    let a1 := alongDip T b q θ1
    let d1 := belowDip T b q θ1
    alongDip T J q θ2 = (a1 - len1) * cosTurn T θ1 θ2 + d1 * sinTurn T θ1 θ2 ∧
    belowDip T J q θ2 = -(a1 - len1) * sinTurn T θ1 θ2 + d1 * cosTurn T θ1 θ2 ∧
    (@lineOutside F (fieldScalar T) b J q ↔ ¬ (0 ≤ a1 ∧ a1 ≤ len1)) ∧
    (@lineOutside F (fieldScalar T) J (pieceEnd T J θ2 len2) q ↔
      ¬ (0 ≤ (a1 - len1) * cosTurn T θ1 θ2 + d1 * sinTurn T θ1 θ2 ∧ (a1 - len1) * cosTurn T θ1 θ2 + d1 * sinTurn T θ1 θ2 ≤ len2)) :=
  ⟨alongDip_joint T L b q θ1 θ2 len1, belowDip_joint T L b q θ1 θ2 len1, lineOutside_piece T L b q θ1 len1 h1,
   lineOutside_second T L b q θ1 θ2 len1 len2 h2⟩

/-- **C06** the region attributed to NO piece at a joint: a point whose foot on the first line lies beyond the end of the first
piece (`a₁ > len₁`) and whose foot on the second line lies before the start of the second (`a₂ < 0`) is rejected by both tests — the
wedge at the joint between the two normals.  (If no other piece accepts it the result is the `+∞` sentinel: the point is outside the
slab or fault, although its distance from the polyline — the distance to the joint — may be small.) -/
theorem C06_walk_joint_gap (T : Transc F) (L : PlaneLaws T) (b q : P2 F) (θ1 θ2 len1 len2 : F) (h1 : 0 < len1) (h2 : 0 < len2)
    (hbeyond : len1 < alongDip T b q θ1)
    (hbefore : (alongDip T b q θ1 - len1) * cosTurn T θ1 θ2 + belowDip T b q θ1 * sinTurn T θ1 θ2 < 0) :
    @lineOutside F (fieldScalar T) b (pieceEnd T b θ1 len1) q ∧
    @lineOutside F (fieldScalar T) (pieceEnd T b θ1 len1) (pieceEnd T (pieceEnd T b θ1 len1) θ2 len2) q := by
  obtain ⟨_, _, e1, e2⟩ := C06_walk_joint_frames T L b q θ1 θ2 len1 len2 h1 h2
  exact ⟨e1.2 fun h => absurd h.2 (not_le.mpr hbeyond), e2.2 fun h => absurd h.1 (not_le.mpr hbefore)⟩

/-- **C06** on which side the wedge lies (change of dip below a right angle, `cosTurn > 0`): `d₁ · sinTurn < 0`, i.e. ABOVE the
surface (`d₁ < 0`) where the dip increases (`sinTurn > 0`) and BELOW it (`d₁ > 0`, the side of a slab's body) where the dip
decreases; and the wedge is not empty as soon as the dips differ (`sinTurn ≠ 0`): every `(u, v)` with `v·sinTurn < 0` and
`0 < u < −v·sinTurn / cosTurn` is in it -/
theorem C06_walk_joint_gap_side (c s u v : F) (hc : 0 < c) :
    (0 < u → u * c + v * s < 0 → v * s < 0) ∧
    (v * s < 0 → 0 < u → u < -(v * s) / c → u * c + v * s < 0) ∧
    (s ≠ 0 → ∃ u v : F, 0 < u ∧ u * c + v * s < 0) := by
  refine ⟨fun hu h => ?_, fun hv hu hlt => ?_, fun hs => ?_⟩
  · have : 0 < u * c := mul_pos hu hc
    linarith
  · have := (lt_div_iff₀ hc).1 hlt
    linarith
  · refine ⟨1, -(c + 1) / s, one_pos, ?_⟩
    have : -(c + 1) / s * s = -(c + 1) := div_mul_cancel₀ _ hs
    rw [this]; linarith

/-- **C06** with equal dips there is no such region: every point whose foot lies on the union `0 ≤ a₁ ≤ len₁ + len₂` is accepted by
at least one of the two pieces -/
theorem C06_walk_joint_no_gap_same_dip (T : Transc F) (L : PlaneLaws T) (b q : P2 F) (θ len1 len2 : F) (h1 : 0 < len1) (h2 : 0 < len2)
    (hlo : 0 ≤ alongDip T b q θ) (hhi : alongDip T b q θ ≤ len1 + len2) :
    ¬ (@lineOutside F (fieldScalar T) b (pieceEnd T b θ len1) q ∧
       @lineOutside F (fieldScalar T) (pieceEnd T b θ len1) (pieceEnd T (pieceEnd T b θ len1) θ len2) q) := by
  obtain ⟨_, _, e1, e2⟩ := C06_walk_joint_frames T L b q θ θ len1 len2 h1 h2
  rw [cosTurn_self T L, sinTurn_self, mul_one, mul_zero, add_zero] at e2
  rintro ⟨o1, o2⟩
  have n1 := e1.1 o1
  have n2 := e2.1 o2
  by_cases h : alongDip T b q θ ≤ len1
  · exact n1 ⟨hlo, h⟩
  · exact n2 ⟨by linarith [not_le.mp h], by linarith⟩

/-- **C06** the region accepted by BOTH pieces at a joint, exactly: `0 ≤ a₁ ≤ len₁ ∧ 0 ≤ a₂ ≤ len₂` with `a₂` as in
`C06_walk_joint_frames`; there the loop keeps the piece of smaller `|distance|` (`|d₁|` against `|d₂| = |−u·sinTurn + d₁·cosTurn|`),
the first on a tie (`C06_walk_selects_min`) -/
theorem C06_walk_joint_overlap (T : Transc F) (L : PlaneLaws T) (b q : P2 F) (θ1 θ2 len1 len2 : F) (h1 : 0 < len1) (h2 : 0 < len2) :
    (¬ @lineOutside F (fieldScalar T) b (pieceEnd T b θ1 len1) q ∧
     ¬ @lineOutside F (fieldScalar T) (pieceEnd T b θ1 len1) (pieceEnd T (pieceEnd T b θ1 len1) θ2 len2) q) ↔
    ((0 ≤ alongDip T b q θ1 ∧ alongDip T b q θ1 ≤ len1) ∧
     (0 ≤ (alongDip T b q θ1 - len1) * cosTurn T θ1 θ2 + belowDip T b q θ1 * sinTurn T θ1 θ2 ∧
      (alongDip T b q θ1 - len1) * cosTurn T θ1 θ2 + belowDip T b q θ1 * sinTurn T θ1 θ2 ≤ len2)) := by
  obtain ⟨_, _, e1, e2⟩ := C06_walk_joint_frames T L b q θ1 θ2 len1 len2 h1 h2
  rw [e1, e2, not_not, not_not]

/-- **C06** on which side the doubly accepted region lies (`cosTurn > 0`): `d₁ · sinTurn ≥ 0` — below the surface where the dip
increases, above it where the dip decreases (the side the surface turns towards) -/
theorem C06_walk_joint_overlap_side (c s u v : F) (hc : 0 < c) (hu : u ≤ 0) (h : 0 ≤ u * c + v * s) : 0 ≤ v * s := by
  have : u * c ≤ 0 := mul_nonpos_of_nonpos_of_nonneg hu hc.le
  linarith

/-- the hypotheses of the joint theorems are satisfiable: real functions, a vertical piece (dip `π/2`) of 100 km followed by a
horizontal one (dip 0): `cosTurn = 0`, `sinTurn = −1`; the point 10 km beyond the end of the first piece and 5 km below it (`d₁ = 5`)
is in the wedge -/
example : PlaneLaws realTransc ∧ cosTurn realTransc (Real.pi / 2) 0 = 0 ∧ sinTurn realTransc (Real.pi / 2) 0 = -1 ∧
    ((110 : ℝ) - 100) * cosTurn realTransc (Real.pi / 2) 0 + 5 * sinTurn realTransc (Real.pi / 2) 0 < 0 := by
  have hc : cosTurn realTransc (Real.pi / 2) 0 = 0 := by
    show Real.cos (Real.pi / 2) * Real.cos 0 + Real.sin (Real.pi / 2) * Real.sin 0 = 0
    simp
  have hs : sinTurn realTransc (Real.pi / 2) 0 = -1 := by
    show Real.sin 0 * Real.cos (Real.pi / 2) - Real.cos 0 * Real.sin (Real.pi / 2) = -1
    simp
  refine ⟨real_planeLaws, hc, hs, ?_⟩
  rw [hc, hs]; norm_num

example : (0 : ℚ) < 1 / 2 ∧ (0 : ℚ) < 1 ∧ (1 : ℚ) * (1 / 2) + 5 * (-1 / 2) < 0 := by norm_num

/-! ### `only_positive` -/

/-- **C06** `only_positive` (the fault's call) does not take part in the selection: the scan `walkSel` has no such argument, and the
answers of the two calls agree in `along`, `fraction`, `depthRef`, `segment`, `found`; the distance of the `true` call is the
absolute value of that of the `false` call (given this of the initial answers, `|+∞| = +∞`).  In particular the slab's rule
"below the surface only" is applied AFTER the selection (`lineInside`): a point above a nearer piece is not handed to a farther
piece below which it lies. -/
theorem C06_walk_only_positive (T : Transc F) (sr : F) (b0 : P2 F) (len θ : Nat → F) (q : P2 F) (t0 : F) (o0 : WalkOut F) (n : Nat)
    (h0 : o0.distance = |o0.distance|) :
    let A := walkSpec T true sr b0 len θ q t0 o0 n
    let B := walkSpec T false sr b0 len θ q t0 o0 n
    A.distance = |B.distance| ∧ A.along = B.along ∧ A.fraction = B.fraction ∧ A.depthRef = B.depthRef ∧ A.segment = B.segment ∧
    A.found = B.found := by
  intro A B
  show (walkOutOf T true sr b0 len θ q t0 o0 (walkSel T b0 len θ q n)).distance =
      |(walkOutOf T false sr b0 len θ q t0 o0 (walkSel T b0 len θ q n)).distance| ∧
    (walkOutOf T true sr b0 len θ q t0 o0 (walkSel T b0 len θ q n)).along = (walkOutOf T false sr b0 len θ q t0 o0 (walkSel T b0 len θ q n)).along ∧
    (walkOutOf T true sr b0 len θ q t0 o0 (walkSel T b0 len θ q n)).fraction = (walkOutOf T false sr b0 len θ q t0 o0 (walkSel T b0 len θ q n)).fraction ∧
    (walkOutOf T true sr b0 len θ q t0 o0 (walkSel T b0 len θ q n)).depthRef = (walkOutOf T false sr b0 len θ q t0 o0 (walkSel T b0 len θ q n)).depthRef ∧
    (walkOutOf T true sr b0 len θ q t0 o0 (walkSel T b0 len θ q n)).segment = (walkOutOf T false sr b0 len θ q t0 o0 (walkSel T b0 len θ q n)).segment ∧
    (walkOutOf T true sr b0 len θ q t0 o0 (walkSel T b0 len θ q n)).found = (walkOutOf T false sr b0 len θ q t0 o0 (walkSel T b0 len θ q n)).found
  cases walkSel T b0 len θ q n with
  | none => exact ⟨h0, rfl, rfl, rfl, rfl, rfl⟩
  | some k => exact ⟨rfl, rfl, rfl, rfl, rfl, rfl⟩

example : (realTransc.inf : ℝ) = |realTransc.inf| := by
  norm_num [realTransc]

end field

end Gwb
