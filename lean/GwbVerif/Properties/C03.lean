/-
C03 — Outside every feature the background state is returned.

`Spec.background` is written from the property statement; `C03_background` shows that a query at a point that no
feature covers returns it, for every request (every `Scalar R`, no laws).  `C03_adiabat_formula` relates the
code's association `Tp·exp(((α·g)/cp)·d)` to the statement's `Tp·exp(α·g·d/cp)` over any field.
`C03_forced_surface` shows that with `force surface temperature` every temperature block at depth zero is the
configured surface temperature for *every* request and whatever the features paint (true after the `fix:` commit
dc333d22; before it the model — like the code — satisfied it for one-entry requests only).
-/
import GwbVerif.Properties.C02
import GwbVerif.Proofs.FieldScalar
namespace Gwb
open Scalar
set_option linter.unusedSectionVars false

section
variable {R G : Type} [Scalar R] [RandGen G R]

/-- the background state of one request, from the property statement: adiabatic temperature (or the forced
surface temperature at depth zero), zero composition, all-zero grains, tag −1, zero velocity. -/
def Spec.backgroundBlock (ctx : Ctx R) (depth : R) (p : Req) : Option (List R) :=
  match p.code with
  | 1 => some [if forcedSurface ctx depth then ctx.surfaceT
               else ctx.potentialT * exp (((ctx.alpha * ctx.gravity) / ctx.cp) * depth)]
  | 2 => some [0.0]
  | 3 => some (List.replicate (p.k * 10) 0.0)
  | 4 => some [-1]
  | 5 => some [0, 0, 0]
  | _ => none

def Spec.background (ctx : Ctx R) (depth : R) (ps : List Req) : Option (List R) :=
  (ps.mapM (Spec.backgroundBlock ctx depth)).map List.flatten

theorem initBlock_eq_spec (ctx : Ctx R) (depth : R) (p : Req) :
    initBlock ctx ctx.gravity depth p = (match Spec.backgroundBlock ctx depth p with
      | some b => .ok b
      | none => .error .unknownProperty) := by
  obtain ⟨code, n, k⟩ := p
  unfold initBlock Spec.backgroundBlock
  simp only
  split <;> (try split) <;> simp_all [adiabat]

theorem reimposeBlocks_init (ctx : Ctx R) (depth : R) (ps : List Req) (bs : List (List R))
    (h : ps.mapM (initBlock ctx ctx.gravity depth) = .ok bs) : reimposeBlocks ctx depth ps bs = bs := by
  induction ps generalizing bs with
  | nil => simp [List.mapM_nil, pure, Except.pure] at h; subst h; simp [reimposeBlocks]
  | cons p ps ih =>
    rw [List.mapM_cons] at h
    cases hb : initBlock ctx ctx.gravity depth p with
    | error e => simp [hb, bind, Except.bind] at h
    | ok b =>
      cases hbs : ps.mapM (initBlock ctx ctx.gravity depth) with
      | error e => simp [hb, hbs, bind, Except.bind] at h
      | ok bs0 =>
        simp [hb, hbs, bind, Except.bind, pure, Except.pure] at h
        subst h
        simp only [reimposeBlocks, ih bs0 hbs]
        congr 1
        split
        · rename_i hc
          simp only [Bool.and_eq_true, beq_iff_eq] at hc
          obtain ⟨code, n, k⟩ := p
          simp only at hc
          obtain ⟨hf, rfl⟩ := hc
          simp [initBlock, hf] at hb
          exact hb
        · rfl

/-- **C03** at a point not contained in any feature the world returns the background state, for every request -/
theorem C03_background (w : World R) (pt : P3 R) (depth : R) (ps : List Req)
    (hout : ∀ f ∈ w.features, f.covers w.ctx (w.query pt depth) = false) (g : G) :
    w.props3 pt depth ps g = (match Spec.background w.ctx depth ps with
      | some out => .ok (out, g)
      | none => .error .unknownProperty) := by
  rw [C02_filter_covering]
  have hnil : w.features.filter (fun f => f.covers w.ctx (w.query pt depth)) = [] := by
    rw [List.filter_eq_nil_iff]; intro f hf; simp [hout f hf]
  rw [hnil, World.props3_blocks]
  unfold World.props3Blocks featuresBlocks Spec.background
  simp only [List.foldlM_nil, QM.pure_apply]
  -- background loop = spec, block by block
  have hmap : ∀ qs : List Req, qs.mapM (initBlock w.ctx w.ctx.gravity depth) =
      (match qs.mapM (Spec.backgroundBlock w.ctx depth) with
       | some bs => .ok bs
       | none => .error .unknownProperty) := by
    intro qs
    induction qs with
    | nil => rfl
    | cons q qs ih =>
      rw [List.mapM_cons, List.mapM_cons, ih, initBlock_eq_spec]
      cases Spec.backgroundBlock w.ctx depth q with
      | none => rfl
      | some b =>
        cases qs.mapM (Spec.backgroundBlock w.ctx depth) with
        | none => rfl
        | some bs => rfl
  cases hs : ps.mapM (Spec.backgroundBlock w.ctx depth) with
  | none => simp [hmap ps, hs, embedBlocks]
  | some bs =>
    have hinit : ps.mapM (initBlock w.ctx w.ctx.gravity depth) = .ok bs := by rw [hmap ps, hs]
    simp only [hinit, Option.map_some]
    split
    · simp [embedBlocks]
    · simp [embedBlocks, reimposeBlocks_init w.ctx depth ps bs hinit]

/-- **C03** with `force surface temperature`, at depth zero every temperature entry of every request is the
configured surface temperature, whatever the features paint and however the request is batched -/
theorem C03_forced_surface (w : World R) (pt : P3 R) (depth : R) (ps : List Req) (hforce : forcedSurface w.ctx depth = true)
    (g g' : G) (out : List R) (h : w.props3 pt depth ps g = .ok (out, g'))
    (i : Nat) (p : Req) (hp : ps[i]? = some p) (hT : p.code = 1) :
    ∃ e, (entries ps)[i]? = some e ∧ readBlock e 1 out = [w.ctx.surfaceT] := by
  rw [World.props3_blocks] at h
  cases hb : w.props3Blocks pt depth ps g with
  | error e => simp [hb, embedBlocks] at h
  | ok r =>
    obtain ⟨bs, g1⟩ := r
    simp only [hb, embedBlocks, List.nil_append, Except.ok.injEq, Prod.mk.injEq] at h
    obtain ⟨rfl, rfl⟩ := h
    have hf := World.props3Blocks_fits w pt depth ps g bs g1 hb
    -- block i is [surfaceT]
    have hblock : bs[i]? = some [w.ctx.surfaceT] := by
      unfold World.props3Blocks at hb
      cases hinit : ps.mapM (initBlock w.ctx w.ctx.gravity depth) with
      | error e => simp [hinit] at hb
      | ok bs0 =>
        simp only [hinit] at hb
        obtain ⟨b0, hb0, hib⟩ := mapM_nth w.ctx w.ctx.gravity depth ps bs0 hinit i p hp
        have hb0T : b0 = [w.ctx.surfaceT] := by
          obtain ⟨code, n, k⟩ := p
          simp only at hT; subst hT
          simp [initBlock, hforce] at hib
          exact hib.symm
        split at hb
        · simp only [Except.ok.injEq, Prod.mk.injEq] at hb; obtain ⟨rfl, _⟩ := hb
          rw [hb0, hb0T]
        · cases hfb : featuresBlocks w.features w.ctx (w.query pt depth) ps bs0 g with
          | error e => simp [hfb] at hb
          | ok r =>
            obtain ⟨bs1, g2⟩ := r
            simp only [hfb, Except.ok.injEq, Prod.mk.injEq] at hb
            obtain ⟨rfl, _⟩ := hb
            have hf1 := featuresBlocks_fits w.features w.ctx _ ps bs0 (initBlocks_fits _ _ _ _ _ hinit) g bs1 g2 hfb
            have := hf1.nth_exists i p hp
            obtain ⟨b1, hb1⟩ := this
            have := reimposeBlocks_nth w.ctx depth ps bs1 i p b1 hp hb1
            simpa [hforce, hT] using this
    obtain ⟨e, he, hr⟩ := hf.readBlock_nth 0 [] rfl i p [w.ctx.surfaceT] hp hblock
    refine ⟨e, he, ?_⟩
    have hsz : p.size = 1 := by simp [Req.size, Req.size?, hT]
    simpa [hsz] using hr

end

/-- **C03** over any ordered field the code's `Tp·exp(((α·g)/cp)·d)` is the statement's `Tp·exp(α·g·d/cp)` -/
theorem C03_adiabat_formula {F : Type} [Field F] [LinearOrder F] [IsStrictOrderedRing F] (T : Transc F) (tp alpha g cp d : F) :
    @adiabat F (fieldScalar T) tp alpha g cp d = tp * T.exp (alpha * g * d / cp) := by
  unfold adiabat
  show tp * T.exp (alpha * g / cp * d) = tp * T.exp (alpha * g * d / cp)
  congr 2
  ring

end Gwb
