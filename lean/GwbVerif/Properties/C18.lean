/-
C18 — "gwb-grid writes the requested mesh and the library's values at its nodes" (mesh part).

Model: `GwbVerif/Model/Apps/GridMesh.lean` (a loop-by-loop transliteration of the grid generation of `source/gwb-grid/main.cc` for the
grid types `cartesian` (2-D, 3-D), `chunk` (2-D, 3-D), `annulus` (2-D), of the VTK arrays and of `filter_vtu_mesh`).
Helper lemmas: `GwbVerif/Proofs/GridMesh.lean`, `GwbVerif/Proofs/GridFilter.lean`.

What is a theorem here.  Cell counts are arbitrary natural numbers (in particular all counts ≥ 1; most statements also hold for 0,
which the tool rejects); nothing is bounded.

* `C18_counts`  The loops write exactly `n_p` nodes and `n_cell` cells, and `n_p`, `n_cell` are
    cartesian/chunk 2-D `(nx+1)(nz+1)`, `nx·nz`;  cartesian/chunk 3-D `(nx+1)(ny+1)(nz+1)`, `nx·ny·nz`;
    annulus `nt·(nz+1)`, `nt·nz` (`nt = n_cell_t`; one column fewer than cartesian because the annulus closes on itself).
  `C18_vtk_arrays`  `points` has `3·n_p` entries, `connectivity[c·2^dim + a] = grid_connectivity[c][a]`, `offsets[c] = (c+1)·2^dim`,
    `types` has `n_cell` entries.
* `C18_connectivity_in_range`  every cell has `2^dim` entries and every entry is `< n_p` (so no `size_t` subtraction wrapped around).
* `C18_cell_corners`  the cell written in loop iteration `(i, j[, k])` (0-based `ci = i-1` …) sits at the stated `counter` and lists the
    `2^dim` lattice corners in the stated order, the node index of lattice point `(i,j[,k])` being
    cartesian 2-D `j·(nx+1)+i`;  chunk 2-D `(nz+1)·i+j`;  3-D `(ny+1)(nz+1)·i + (nz+1)·j + k`;  annulus `j·nt+i` with the angular
    neighbour of column `nt-1` being column `0`.
* `C18_coordinates`  for ANY scalar type (also IEEE doubles): the node with that index carries exactly the value the code computes, with
    the code's association: `x_min + i * ((x_max - x_min) / n)`, depth `(z_max - z_min) - k * dz`; for chunk/annulus the
    spherical → cartesian conversion applied to `min + (double(i+1) - 1.0) * d`.
  `C18_coordinates_cartesian2_field`, `…cartesian3_field`, `…chunk2_field`, `…chunk3_field`, `…annulus_field`: over a linearly ordered
    field: `depth = z_max - z` (cartesian), `depth = outer_radius - r` with `r` the node's radius (chunk, annulus), the first / last
    lattice point in each direction lies exactly on `min` / `max`, `x² (+ y²) + z² = r²` (given `sin² + cos² = 1`); annulus: the angle is
    `2π·i/nt`, the depth is clipped to `0` where `|depth| < 1e-8`, and is `0` on the outer circle.
  `C18_annulus_nt_ge`  any `nt` whose successor exceeds `annulusQuotient` is `≥ 6·n_cell_z` (given `π ≥ 3`, `0 ≤ inner < outer`), so the
    annulus statements are not vacuous for any `n_cell_z ≥ 1`.  Examples instantiate the libm hypotheses with the real functions.
* `C18_filter`  `filter_vtu_mesh`: for every well-formed input mesh (`connectivity` has `nCells·2^dim` entries, all `<` the number of
    points): output cells = input cells whose highest node tag (`max(-1, tags)`, `highestTag_spec`) is `≥ 0` and selected by
    `include_tag`, in input order; output nodes = the distinct nodes of those cells in order of first use (so: no source node twice,
    and only nodes of kept cells); each output node carries its source node's record; every output connectivity entry is `<` the
    number of output nodes and maps through the output → source table to the corresponding input connectivity entry;
    `offsets[c] = (c+1)·2^dim`.

What is NOT proved / is assumed:
* the dead `!compress_size` branches (the `sphere` grid has its own file: `Properties/C18Sphere.lean`);
* that `n_cell_t` of the annulus is the truncation of `annulusQuotient` (`Scalar` has no double → integer conversion; `nt` is a parameter);
* floating point: the field-level statements (`depth = z_max - z`, endpoints on `max`, …) hold over ordered fields, in doubles only up to
  rounding; the statements of `C18_coordinates` proper are exact for doubles as well because they repeat the code's expression;
* facts about libm (`sin² + cos² = 1`, `sqrt`) are explicit hypotheses;
* the VTU serialisation (vtu11) and the abstraction of the per-node data to one record per node in `filterMesh`
  (the code copies 3 point coordinates, 1 entry of every data set and 3 entries of data set 2);
* `include_tag[highest_tag]` is a `vector<bool>` access in the code, out of bounds if a tag exceeds the number of features; the model
  uses a total function.
Findings (read off the code while transliterating; none affects the theorems):
* lines 595-603 convert degrees for a grid type `"spherical"`, but no such grid type is generated (line 1490 throws; the error text lists
  only cartesian, annulus, chunk, sphere);
* chunk, line 907: `x_min - x_max <= 2π` is vacuous after `x_min <= x_max` (the intended check is `x_max - x_min <= 2π`); line 911 tests
  `y_min <= π/2` under the message "maximum latitude" (`y_max` is never bounded above);
* lines 646-647: the messages for `dx`, `dy` print `dz`.
-/
import GwbVerif.Proofs.GridMesh
import GwbVerif.Proofs.GridFilter
import GwbVerif.Proofs.FieldScalar
import Mathlib.Tactic.NormNum
import Mathlib.Tactic.Push
import Mathlib.Analysis.SpecialFunctions.Trigonometric.Basic
import Mathlib.Analysis.Real.Pi.Bounds
namespace Gwb

/-! ## 1. counts -/

/-- the arrays have the sizes the code resized them to, and these sizes are `np`, `nc` -/
def GridMesh.CountsAre {R : Type} (g : GridMesh R) (np nc : Nat) : Prop :=
  g.nP = np ∧ g.nodes.length = np ∧ g.nCell = nc ∧ g.cells.length = nc

theorem C18_counts {R : Type} [Scalar R] (xmin xmax ymin ymax zmin zmax : R) (nx ny nz nt : Nat) :
    (cartesianGrid2 xmin xmax zmin zmax nx nz).CountsAre ((nx + 1) * (nz + 1)) (nx * nz) ∧
    (cartesianGrid3 xmin xmax ymin ymax zmin zmax nx ny nz).CountsAre ((nx + 1) * (ny + 1) * (nz + 1)) (nx * ny * nz) ∧
    (chunkGrid2 xmin xmax zmin zmax nx nz).CountsAre ((nx + 1) * (nz + 1)) (nx * nz) ∧
    (chunkGrid3 xmin xmax ymin ymax zmin zmax nx ny nz).CountsAre ((nx + 1) * (ny + 1) * (nz + 1)) (nx * ny * nz) ∧
    (annulusGrid2 zmin zmax nt nz).CountsAre (nt * (nz + 1)) (nt * nz) := by
  refine ⟨⟨?_, ?_, ?_, ?_⟩, ⟨?_, ?_, ?_, ?_⟩, ⟨?_, ?_, ?_, ?_⟩, ⟨?_, ?_, ?_, ?_⟩, ⟨?_, ?_, ?_, ?_⟩⟩
  · show cartesianNP2 nx nz = _; unfold cartesianNP2; ring
  · show (cartesianNodes2 xmin xmax zmin zmax nx nz).length = _
    rw [cartesianNodes2_length]; unfold cartesianNP2; ring
  · show cartesianNCell2 nx nz = _; unfold cartesianNCell2; ring
  · show (cartesianCells2 nx nz).length = _
    rw [cartesianCells2_length]; unfold cartesianNCell2; ring
  · show cartesianNP3 nx ny nz = _; unfold cartesianNP3; ring
  · show (cartesianNodes3 xmin xmax ymin ymax zmin zmax nx ny nz).length = _
    rw [cartesianNodes3_length]; unfold cartesianNP3; ring
  · show cartesianNCell3 nx ny nz = _; unfold cartesianNCell3; ring
  · show (cartesianCells3 nx ny nz).length = _
    rw [cartesianCells3_length]; unfold cartesianNCell3; ring
  · show chunkNP2 nx nz = _; unfold chunkNP2; ring
  · show (chunkNodes2 xmin xmax zmin zmax nx nz).length = _
    rw [chunkNodes2_length]; unfold chunkNP2; ring
  · show chunkNCell2 nx nz = _; unfold chunkNCell2; ring
  · show (chunkCells2 nx nz).length = _
    rw [chunkCells2_length]; unfold chunkNCell2; ring
  · show chunkNP3 nx ny nz = _; unfold chunkNP3; ring
  · show (chunkNodes3 xmin xmax ymin ymax zmin zmax nx ny nz).length = _
    rw [chunkNodes3_length]; unfold chunkNP3; ring
  · show chunkNCell3 nx ny nz = _; unfold chunkNCell3; ring
  · show (chunkCells3 nx ny nz).length = _
    rw [chunkCells3_length]; unfold chunkNCell3; ring
  · rfl
  · show (annulusNodes2 zmin zmax nt nz).length = _
    rw [annulusNodes2_length]; rfl
  · rfl
  · show (annulusCells2 nt nz).length = _
    rw [annulusCells2_length]; rfl

example : cartesianNP2 3 2 = 12 ∧ (cartesianCells2 3 2).length = 6 ∧ annulusNP2 7 2 = 21 := by decide

/-! ## 2. connectivity -/

/-- every cell has `2^dim` entries, all of them valid node indices -/
def GridMesh.ConnOk {R : Type} (g : GridMesh R) (dim : Nat) : Prop :=
  ∀ cell ∈ g.cells, cell.length = 2 ^ dim ∧ ∀ e ∈ cell, e < g.nP

theorem C18_connectivity_in_range {R : Type} [Scalar R] (xmin xmax ymin ymax zmin zmax : R) (nx ny nz nt : Nat) :
    (cartesianGrid2 xmin xmax zmin zmax nx nz).ConnOk 2 ∧
    (cartesianGrid3 xmin xmax ymin ymax zmin zmax nx ny nz).ConnOk 3 ∧
    (chunkGrid2 xmin xmax zmin zmax nx nz).ConnOk 2 ∧
    (chunkGrid3 xmin xmax ymin ymax zmin zmax nx ny nz).ConnOk 3 ∧
    (annulusGrid2 zmin zmax nt nz).ConnOk 2 :=
  ⟨cartesianCells2_in_range nx nz,
   by
    show ∀ cell ∈ cartesianCells3 nx ny nz, _
    rw [cartesianCells3_eq]; exact hexCells_in_range nx ny nz,
   chunkCells2_in_range nx nz,
   by
    show ∀ cell ∈ chunkCells3 nx ny nz, _
    rw [chunkCells3_eq]; exact hexCells_in_range nx ny nz,
   annulusCells2_in_range nt nz⟩

/-- `ci`, `cj`, `ck` are the 0-based cell coordinates (`i - 1`, `j - 1`, `k - 1` of the code's connectivity loops); the index on the left
is the value of `counter` in that iteration -/
theorem C18_cell_corners (nx ny nz nt ci cj ck : Nat) :
    -- cartesian 2-D: node `(i, j)` has index `j·(nx+1) + i`; order (i,j), (i+1,j), (i+1,j+1), (i,j+1)
    (ci < nx → cj < nz → (cartesianCells2 nx nz)[cj * nx + ci]? =
      some [cj * (nx + 1) + ci, cj * (nx + 1) + (ci + 1), (cj + 1) * (nx + 1) + (ci + 1), (cj + 1) * (nx + 1) + ci]) ∧
    -- cartesian 3-D: node `(i, j, k)` has index `(ny+1)(nz+1)·i + (nz+1)·j + k`; VTK hexahedron order
    (ci < nx → cj < ny → ck < nz → (cartesianCells3 nx ny nz)[ci * (ny * nz) + (cj * nz + ck)]? =
      some [ (ny + 1) * (nz + 1) * ci + (nz + 1) * cj + ck,
             (ny + 1) * (nz + 1) * (ci + 1) + (nz + 1) * cj + ck,
             (ny + 1) * (nz + 1) * (ci + 1) + (nz + 1) * (cj + 1) + ck,
             (ny + 1) * (nz + 1) * ci + (nz + 1) * (cj + 1) + ck,
             (ny + 1) * (nz + 1) * ci + (nz + 1) * cj + (ck + 1),
             (ny + 1) * (nz + 1) * (ci + 1) + (nz + 1) * cj + (ck + 1),
             (ny + 1) * (nz + 1) * (ci + 1) + (nz + 1) * (cj + 1) + (ck + 1),
             (ny + 1) * (nz + 1) * ci + (nz + 1) * (cj + 1) + (ck + 1) ]) ∧
    -- chunk 2-D: node `(i, j)` (longitude, radius) has index `(nz+1)·i + j`; order (i,j), (i,j+1), (i+1,j+1), (i+1,j)
    (ci < nx → cj < nz → (chunkCells2 nx nz)[ci * nz + cj]? =
      some [(nz + 1) * ci + cj, (nz + 1) * ci + (cj + 1), (nz + 1) * (ci + 1) + (cj + 1), (nz + 1) * (ci + 1) + cj]) ∧
    -- chunk 3-D: as cartesian 3-D
    (ci < nx → cj < ny → ck < nz → (chunkCells3 nx ny nz)[ci * (ny * nz) + (cj * nz + ck)]? =
      some [ (ny + 1) * (nz + 1) * ci + (nz + 1) * cj + ck,
             (ny + 1) * (nz + 1) * (ci + 1) + (nz + 1) * cj + ck,
             (ny + 1) * (nz + 1) * (ci + 1) + (nz + 1) * (cj + 1) + ck,
             (ny + 1) * (nz + 1) * ci + (nz + 1) * (cj + 1) + ck,
             (ny + 1) * (nz + 1) * ci + (nz + 1) * cj + (ck + 1),
             (ny + 1) * (nz + 1) * (ci + 1) + (nz + 1) * cj + (ck + 1),
             (ny + 1) * (nz + 1) * (ci + 1) + (nz + 1) * (cj + 1) + (ck + 1),
             (ny + 1) * (nz + 1) * ci + (nz + 1) * (cj + 1) + (ck + 1) ]) ∧
    -- annulus: node `(i, j)` (angle, radius) has index `j·nt + i`; order (i+1,j), (i,j), (i,j+1), (i+1,j+1) with `i+1` taken mod `nt`
    (ci < nt → cj < nz → (annulusCells2 nt nz)[cj * nt + ci]? =
      some [cj * nt + (ci + 1) % nt, cj * nt + ci, (cj + 1) * nt + ci, (cj + 1) * nt + (ci + 1) % nt]) :=
  ⟨cartesianCells2_get nx nz ci cj,
   fun hi hj hk => by rw [cartesianCells3_eq]; exact hexCells_get nx ny nz ci cj ck hi hj hk,
   chunkCells2_get nx nz ci cj,
   fun hi hj hk => by rw [chunkCells3_eq]; exact hexCells_get nx ny nz ci cj ck hi hj hk,
   annulusCells2_get nt nz ci cj⟩

example : cartesianCells2 2 2 = [[0, 1, 4, 3], [1, 2, 5, 4], [3, 4, 7, 6], [4, 5, 8, 7]] := by decide
example : annulusCells2 4 1 = [[1, 0, 4, 5], [2, 1, 5, 6], [3, 2, 6, 7], [0, 3, 7, 4]] := by decide

/-! ### the VTK arrays -/

theorem C18_vtk_arrays {R : Type} [Scalar R] (g : GridMesh R) (dim np nc : Nat) (hdim : dim = 2 ∨ dim = 3)
    (hcounts : g.CountsAre np nc) (hconn : g.ConnOk dim) :
    (vtkPoints dim g.nodes).length = 3 * np ∧
    (vtkConnectivity g.cells).length = nc * 2 ^ dim ∧
    (∀ c a, a < 2 ^ dim → (vtkConnectivity g.cells)[c * 2 ^ dim + a]? = (g.cells[c]?).bind (fun cell => cell[a]?)) ∧
    (∀ e ∈ vtkConnectivity g.cells, e < np) ∧
    (vtkOffsets dim g.nCell).length = nc ∧
    (∀ c, c < nc → (vtkOffsets dim g.nCell)[c]? = some ((c + 1) * 2 ^ dim)) ∧
    (vtkTypes dim g.nCell).length = nc := by
  obtain ⟨h1, h2, h3, h4⟩ := hcounts
  have hp : pow2dim dim = 2 ^ dim := by rcases hdim with rfl | rfl <;> rfl
  refine ⟨?_, ?_, ?_, ?_, ?_, ?_, ?_⟩
  · unfold vtkPoints
    rw [length_flatMap_uniform_mesh _ _ 3 (by intro n _; split <;> rfl), h2]; ring
  · unfold vtkConnectivity
    rw [← List.flatMap_id, length_flatMap_uniform_mesh g.cells id (2 ^ dim) (fun cell hc => (hconn cell hc).1), h4]
  · intro c a ha
    unfold vtkConnectivity
    rw [← List.flatMap_id, getElem?_flatMap_uniform g.cells id (2 ^ dim) (fun cell hc => (hconn cell hc).1) c a ha]
    rfl
  · intro e he
    unfold vtkConnectivity at he
    obtain ⟨cell, hc, hec⟩ := List.mem_flatten.1 he
    rw [← h1]; exact (hconn cell hc).2 e hec
  · simp [vtkOffsets, h3]
  · intro c hc
    simp [vtkOffsets, h3, hc, hp]
  · simp [vtkTypes, h3]

/-! ## 3. coordinates -/

/-- the value stored for lattice point `(i, j[, k])`, for an arbitrary scalar type, with the code's association -/
theorem C18_coordinates {R : Type} [Scalar R] (xmin xmax ymin ymax zmin zmax : R) (nx ny nz nt i j k : Nat) :
    (i ≤ nx → j ≤ nz → (cartesianNodes2 xmin xmax zmin zmax nx nz)[j * (nx + 1) + i]? =
      some { x := xmin + Scalar.nat i * ((xmax - xmin) / Scalar.nat nx)
             y := 0
             z := zmin + Scalar.nat j * ((zmax - zmin) / Scalar.nat nz)
             depth := (zmax - zmin) - Scalar.nat j * ((zmax - zmin) / Scalar.nat nz) }) ∧
    (i ≤ nx → j ≤ ny → k ≤ nz →
      (cartesianNodes3 xmin xmax ymin ymax zmin zmax nx ny nz)[(ny + 1) * (nz + 1) * i + (nz + 1) * j + k]? =
      some { x := xmin + Scalar.nat i * ((xmax - xmin) / Scalar.nat nx)
             y := ymin + Scalar.nat j * ((ymax - ymin) / Scalar.nat ny)
             z := zmin + Scalar.nat k * ((zmax - zmin) / Scalar.nat nz)
             depth := (zmax - zmin) - Scalar.nat k * ((zmax - zmin) / Scalar.nat nz) }) ∧
    -- chunk: `zmin` = inner radius, `zmax` = outer radius, angles in radians
    (i ≤ nx → j ≤ nz → (chunkNodes2 xmin xmax zmin zmax nx nz)[(nz + 1) * i + j]? =
      some (chunkToCartesian2
        { x := xmin + (Scalar.nat (i + 1) - 1) * ((xmax - xmin) / Scalar.nat nx)
          y := 0
          z := zmin + (Scalar.nat (j + 1) - 1) * ((zmax - zmin) / Scalar.nat nz)
          depth := (zmax - zmin) - (Scalar.nat (j + 1) - 1) * ((zmax - zmin) / Scalar.nat nz) })) ∧
    (i ≤ nx → j ≤ ny → k ≤ nz →
      (chunkNodes3 xmin xmax ymin ymax zmin zmax nx ny nz)[(ny + 1) * (nz + 1) * i + (nz + 1) * j + k]? =
      some (chunkToCartesian3
        { x := xmin + (Scalar.nat (i + 1) - 1) * ((xmax - xmin) / Scalar.nat nx)
          y := ymin + (Scalar.nat (j + 1) - 1) * ((ymax - ymin) / Scalar.nat ny)
          z := zmin + (Scalar.nat (k + 1) - 1) * ((zmax - zmin) / Scalar.nat nz)
          depth := (zmax - zmin) - (Scalar.nat (k + 1) - 1) * ((zmax - zmin) / Scalar.nat nz) })) ∧
    (i < nt → j ≤ nz → (annulusNodes2 zmin zmax nt nz)[j * nt + i]? =
      some (annulusToCartesian zmin zmax
        ((Scalar.nat (i + 1) - 1) * ((2 : R) * Scalar.pi * zmax / Scalar.nat nt),
         Scalar.nat j * ((zmax - zmin) / Scalar.nat nz)))) :=
  ⟨cartesianNodes2_get xmin xmax zmin zmax nx nz i j,
   cartesianNodes3_get xmin xmax ymin ymax zmin zmax nx ny nz i j k,
   chunkNodes2_get xmin xmax zmin zmax nx nz i j,
   chunkNodes3_get xmin xmax ymin ymax zmin zmax nx ny nz i j k,
   annulusNodes2_get zmin zmax nt nz i j⟩

section field
variable {F : Type} [Field F] [LinearOrder F] [IsStrictOrderedRing F]

omit [LinearOrder F] [IsStrictOrderedRing F] in
theorem natSuccSubOne (k : ℕ) : (((k + 1 : ℕ) : F) - ((1 : ℕ) : F)) = (k : F) := by push_cast; ring

theorem lattice_endpoint (a b : F) (n : ℕ) (hn : 0 < n) : a + (n : F) * ((b - a) / (n : F)) = b := by
  have : (n : F) ≠ 0 := Nat.cast_ne_zero.2 (by omega)
  field_simp
  ring

/-- cartesian 2-D over an ordered field: `depth = z_max - z`; the lattice starts on `min` and ends on `max` -/
theorem C18_coordinates_cartesian2_field (T : Transc F) (xmin xmax zmin zmax : F) (nx nz i j : Nat) (hi : i ≤ nx) (hj : j ≤ nz) :
    ∃ n, (@cartesianNodes2 F (fieldScalar T) xmin xmax zmin zmax nx nz)[j * (nx + 1) + i]? = some n ∧
      n.x = xmin + (i : F) * ((xmax - xmin) / (nx : F)) ∧
      n.z = zmin + (j : F) * ((zmax - zmin) / (nz : F)) ∧
      n.depth = zmax - n.z ∧
      (i = 0 → n.x = xmin) ∧ (0 < nx → i = nx → n.x = xmax) ∧
      (j = 0 → n.z = zmin) ∧ (0 < nz → j = nz → n.z = zmax) := by
  refine ⟨_, @cartesianNodes2_get F (fieldScalar T) xmin xmax zmin zmax nx nz i j hi hj, rfl, rfl, ?_, ?_, ?_, ?_, ?_⟩
  · show (zmax - zmin) - (j : F) * ((zmax - zmin) / (nz : F)) = zmax - (zmin + (j : F) * ((zmax - zmin) / (nz : F)))
    ring
  · rintro rfl
    show xmin + ((0 : ℕ) : F) * ((xmax - xmin) / (nx : F)) = xmin
    simp
  · intro hnx hin
    subst hin
    exact lattice_endpoint xmin xmax i hnx
  · rintro rfl
    show zmin + ((0 : ℕ) : F) * ((zmax - zmin) / (nz : F)) = zmin
    simp
  · intro hnz hjn
    subst hjn
    exact lattice_endpoint zmin zmax j hnz

example : ∃ n : GridNode ℚ, (@cartesianNodes2 ℚ (fieldScalar ⟨id, id, id, id, id, id, id, id, id, id, id, id, id, id,
    fun a _ => a, fun a _ => a, fun a _ => a, 3, 0, 0, 0, 0⟩) 0 10 0 4 2 2)[2 * (2 + 1) + 1]? = some n ∧ n.depth = 4 - n.z := by
  obtain ⟨n, h, _, _, hd, _⟩ := C18_coordinates_cartesian2_field (F := ℚ) ⟨id, id, id, id, id, id, id, id, id, id, id, id, id, id,
    fun a _ => a, fun a _ => a, fun a _ => a, 3, 0, 0, 0, 0⟩ 0 10 0 4 2 2 1 2 (by omega) (by omega)
  exact ⟨n, h, hd⟩

/-- cartesian 3-D over an ordered field -/
theorem C18_coordinates_cartesian3_field (T : Transc F) (xmin xmax ymin ymax zmin zmax : F) (nx ny nz i j k : Nat)
    (hi : i ≤ nx) (hj : j ≤ ny) (hk : k ≤ nz) :
    ∃ n, (@cartesianNodes3 F (fieldScalar T) xmin xmax ymin ymax zmin zmax nx ny nz)[(ny + 1) * (nz + 1) * i + (nz + 1) * j + k]?
        = some n ∧
      n.x = xmin + (i : F) * ((xmax - xmin) / (nx : F)) ∧
      n.y = ymin + (j : F) * ((ymax - ymin) / (ny : F)) ∧
      n.z = zmin + (k : F) * ((zmax - zmin) / (nz : F)) ∧
      n.depth = zmax - n.z ∧
      (i = 0 → n.x = xmin) ∧ (0 < nx → i = nx → n.x = xmax) ∧
      (j = 0 → n.y = ymin) ∧ (0 < ny → j = ny → n.y = ymax) ∧
      (k = 0 → n.z = zmin) ∧ (0 < nz → k = nz → n.z = zmax) := by
  refine ⟨_, @cartesianNodes3_get F (fieldScalar T) xmin xmax ymin ymax zmin zmax nx ny nz i j k hi hj hk,
    rfl, rfl, rfl, ?_, ?_, ?_, ?_, ?_, ?_, ?_⟩
  · show (zmax - zmin) - (k : F) * ((zmax - zmin) / (nz : F)) = zmax - (zmin + (k : F) * ((zmax - zmin) / (nz : F)))
    ring
  · rintro rfl
    show xmin + ((0 : ℕ) : F) * ((xmax - xmin) / (nx : F)) = xmin
    simp
  · intro hn he
    subst he
    exact lattice_endpoint xmin xmax i hn
  · rintro rfl
    show ymin + ((0 : ℕ) : F) * ((ymax - ymin) / (ny : F)) = ymin
    simp
  · intro hn he
    subst he
    exact lattice_endpoint ymin ymax j hn
  · rintro rfl
    show zmin + ((0 : ℕ) : F) * ((zmax - zmin) / (nz : F)) = zmin
    simp
  · intro hn he
    subst he
    exact lattice_endpoint zmin zmax k hn

/-- chunk 2-D over an ordered field: longitude and radius are `min + i·(max-min)/n`, `depth = outer radius - r`, and the node lies at
distance `r` from the origin (given `sin² + cos² = 1`) -/
theorem C18_coordinates_chunk2_field (T : Transc F) (hsc : ∀ a : F, T.sin a * T.sin a + T.cos a * T.cos a = 1)
    (xmin xmax inner outer : F) (nx nz i j : Nat) (hi : i ≤ nx) (hj : j ≤ nz) :
    let long := xmin + (i : F) * ((xmax - xmin) / (nx : F))
    let r := inner + (j : F) * ((outer - inner) / (nz : F))
    ∃ n, (@chunkNodes2 F (fieldScalar T) xmin xmax inner outer nx nz)[(nz + 1) * i + j]? = some n ∧
      n.x = r * T.cos long ∧ n.z = r * T.sin long ∧ n.depth = outer - r ∧ n.x * n.x + n.z * n.z = r * r ∧
      (0 < nz → j = nz → r = outer ∧ n.depth = 0) ∧ (j = 0 → r = inner) := by
  intro long r
  have hx : ∀ n : GridNode F, n = (@chunkToCartesian2 F (fieldScalar T)
        { x := xmin + (((i + 1 : ℕ) : F) - ((1 : ℕ) : F)) * ((xmax - xmin) / (nx : F))
          y := ((0 : ℕ) : F)
          z := inner + (((j + 1 : ℕ) : F) - ((1 : ℕ) : F)) * ((outer - inner) / (nz : F))
          depth := (outer - inner) - (((j + 1 : ℕ) : F) - ((1 : ℕ) : F)) * ((outer - inner) / (nz : F)) }) →
      n.x = r * T.cos long ∧ n.z = r * T.sin long ∧ n.depth = outer - r ∧ n.x * n.x + n.z * n.z = r * r := by
    rintro n rfl
    simp only [natSuccSubOne]
    have h1 : ∀ m : GridNode F, m.x = r * T.cos long → m.z = r * T.sin long → m.x * m.x + m.z * m.z = r * r := by
      intro m h1 h2
      rw [h1, h2]
      linear_combination (r * r) * hsc long
    refine ⟨rfl, rfl, ?_, h1 _ rfl rfl⟩
    show (outer - inner) - (j : F) * ((outer - inner) / (nz : F)) = outer - (inner + (j : F) * ((outer - inner) / (nz : F)))
    ring
  obtain ⟨h1, h2, h3, h4⟩ := hx _ rfl
  refine ⟨_, @chunkNodes2_get F (fieldScalar T) xmin xmax inner outer nx nz i j hi hj, h1, h2, h3, h4, ?_, ?_⟩
  · intro hn he
    subst he
    have hr : r = outer := lattice_endpoint inner outer j hn
    exact ⟨hr, h3.trans (by rw [hr, sub_self])⟩
  · rintro rfl
    show inner + ((0 : ℕ) : F) * ((outer - inner) / (nz : F)) = inner
    simp

/-- chunk 3-D over an ordered field -/
theorem C18_coordinates_chunk3_field (T : Transc F) (hsc : ∀ a : F, T.sin a * T.sin a + T.cos a * T.cos a = 1)
    (xmin xmax ymin ymax inner outer : F) (nx ny nz i j k : Nat) (hi : i ≤ nx) (hj : j ≤ ny) (hk : k ≤ nz) :
    let long := xmin + (i : F) * ((xmax - xmin) / (nx : F))
    let lat := ymin + (j : F) * ((ymax - ymin) / (ny : F))
    let r := inner + (k : F) * ((outer - inner) / (nz : F))
    ∃ n, (@chunkNodes3 F (fieldScalar T) xmin xmax ymin ymax inner outer nx ny nz)[(ny + 1) * (nz + 1) * i + (nz + 1) * j + k]?
        = some n ∧
      n.x = r * T.cos lat * T.cos long ∧ n.y = r * T.cos lat * T.sin long ∧ n.z = r * T.sin lat ∧
      n.depth = outer - r ∧ n.x * n.x + n.y * n.y + n.z * n.z = r * r ∧
      (0 < nz → k = nz → r = outer ∧ n.depth = 0) ∧ (k = 0 → r = inner) := by
  intro long lat r
  have hx : ∀ n : GridNode F, n = (@chunkToCartesian3 F (fieldScalar T)
        { x := xmin + (((i + 1 : ℕ) : F) - ((1 : ℕ) : F)) * ((xmax - xmin) / (nx : F))
          y := ymin + (((j + 1 : ℕ) : F) - ((1 : ℕ) : F)) * ((ymax - ymin) / (ny : F))
          z := inner + (((k + 1 : ℕ) : F) - ((1 : ℕ) : F)) * ((outer - inner) / (nz : F))
          depth := (outer - inner) - (((k + 1 : ℕ) : F) - ((1 : ℕ) : F)) * ((outer - inner) / (nz : F)) }) →
      n.x = r * T.cos lat * T.cos long ∧ n.y = r * T.cos lat * T.sin long ∧ n.z = r * T.sin lat ∧
      n.depth = outer - r ∧ n.x * n.x + n.y * n.y + n.z * n.z = r * r := by
    rintro n rfl
    simp only [natSuccSubOne]
    have h1 : ∀ m : GridNode F, m.x = r * T.cos lat * T.cos long → m.y = r * T.cos lat * T.sin long → m.z = r * T.sin lat →
        m.x * m.x + m.y * m.y + m.z * m.z = r * r := by
      intro m h1 h2 h3
      rw [h1, h2, h3]
      linear_combination (r * r * T.cos lat * T.cos lat) * hsc long + (r * r) * hsc lat
    refine ⟨rfl, rfl, rfl, ?_, h1 _ rfl rfl rfl⟩
    show (outer - inner) - (k : F) * ((outer - inner) / (nz : F)) = outer - (inner + (k : F) * ((outer - inner) / (nz : F)))
    ring
  obtain ⟨h1, h2, h3, h4, h5⟩ := hx _ rfl
  refine ⟨_, @chunkNodes3_get F (fieldScalar T) xmin xmax ymin ymax inner outer nx ny nz i j k hi hj hk, h1, h2, h3, h4, h5, ?_, ?_⟩
  · intro hn he
    subst he
    have hr : r = outer := lattice_endpoint inner outer k hn
    exact ⟨hr, h4.trans (by rw [hr, sub_self])⟩
  · rintro rfl
    show inner + ((0 : ℕ) : F) * ((outer - inner) / (nz : F)) = inner
    simp

/-- the clipping at line 869: `std::fabs(d) < 1e-8 ? 0 : d` -/
def annulusClip (d : F) : F := if |d| < ((1e-8 : ℚ) : F) then 0 else d

theorem annulus_depth_aux (T : Transc F) (hsc : ∀ a : F, T.sin a * T.sin a + T.cos a * T.cos a = 1)
    (hsqrt : ∀ x : F, 0 ≤ x → T.sqrt x * T.sqrt x = x ∧ 0 ≤ T.sqrt x) (outer A r : F) (hr : 0 ≤ r) :
    (if (if outer - T.sqrt (T.cos A * r * (T.cos A * r) + T.sin A * r * (T.sin A * r)) < ((0 : ℕ) : F)
          then -(outer - T.sqrt (T.cos A * r * (T.cos A * r) + T.sin A * r * (T.sin A * r)))
          else outer - T.sqrt (T.cos A * r * (T.cos A * r) + T.sin A * r * (T.sin A * r))) < ((1e-8 : ℚ) : F)
      then ((0 : ℕ) : F) else outer - T.sqrt (T.cos A * r * (T.cos A * r) + T.sin A * r * (T.sin A * r)))
      = annulusClip (outer - r) := by
  have hsq : T.sqrt (T.cos A * r * (T.cos A * r) + T.sin A * r * (T.sin A * r)) = r := by
    have e : T.cos A * r * (T.cos A * r) + T.sin A * r * (T.sin A * r) = r * r := by
      linear_combination (r * r) * hsc A
    rw [e]
    obtain ⟨h1, h2⟩ := hsqrt (r * r) (mul_self_nonneg r)
    rcases mul_self_eq_mul_self_iff.1 h1 with h | h
    · exact h
    · have : r = 0 := by linarith
      rw [h, this, neg_zero]
  rw [hsq, Nat.cast_zero]
  have habs : (if outer - r < 0 then -(outer - r) else outer - r) = |outer - r| := by
    split_ifs with h
    · exact (abs_of_neg h).symm
    · exact (abs_of_nonneg (not_lt.1 h)).symm
  rw [habs]
  rfl

/-- annulus over an ordered field: node `(i, j)` lies at angle `2π·i/nt` and radius `r = inner + j·(outer-inner)/nz`; its depth is
`outer - r`, clipped to `0` when smaller than `1e-8` in absolute value; the outermost ring has depth `0` -/
theorem C18_coordinates_annulus_field (T : Transc F) (hsc : ∀ a : F, T.sin a * T.sin a + T.cos a * T.cos a = 1)
    (hsqrt : ∀ x : F, 0 ≤ x → T.sqrt x * T.sqrt x = x ∧ 0 ≤ T.sqrt x) (hpi : T.pi ≠ 0)
    (inner outer : F) (h0 : 0 ≤ inner) (hio : inner ≤ outer) (hout : outer ≠ 0)
    (nt nz i j : Nat) (hi : i < nt) (hj : j ≤ nz) :
    let theta := 2 * T.pi * (i : F) / (nt : F)
    let r := inner + (j : F) * ((outer - inner) / (nz : F))
    ∃ n, (@annulusNodes2 F (fieldScalar T) inner outer nt nz)[j * nt + i]? = some n ∧
      n.x = T.cos theta * r ∧ n.z = T.sin theta * r ∧ n.depth = annulusClip (outer - r) ∧
      (0 < nz → j = nz → n.depth = 0) := by
  intro theta r
  have hnt : (nt : F) ≠ 0 := Nat.cast_ne_zero.2 (by omega)
  have hr : 0 ≤ r := add_nonneg h0 (mul_nonneg (Nat.cast_nonneg j) (div_nonneg (sub_nonneg.2 hio) (Nat.cast_nonneg nz)))
  have hth : (((i + 1 : ℕ) : F) - ((1 : ℕ) : F)) * (((2 : ℕ) : F) * T.pi * outer / (nt : F)) / (((2 : ℕ) : F) * T.pi * outer)
      * ((2 : ℕ) : F) * T.pi = theta := by
    rw [natSuccSubOne]
    show _ = 2 * T.pi * (i : F) / (nt : F)
    push_cast
    field_simp
  have hx : ∀ n : GridNode F, n = (@annulusToCartesian F (fieldScalar T) inner outer
        ((((i + 1 : ℕ) : F) - ((1 : ℕ) : F)) * (((2 : ℕ) : F) * T.pi * outer / (nt : F)),
         (j : F) * ((outer - inner) / (nz : F)))) →
      n.x = T.cos ((((i + 1 : ℕ) : F) - ((1 : ℕ) : F)) * (((2 : ℕ) : F) * T.pi * outer / (nt : F)) / (((2 : ℕ) : F) * T.pi * outer)
        * ((2 : ℕ) : F) * T.pi) * r ∧
      n.z = T.sin ((((i + 1 : ℕ) : F) - ((1 : ℕ) : F)) * (((2 : ℕ) : F) * T.pi * outer / (nt : F)) / (((2 : ℕ) : F) * T.pi * outer)
        * ((2 : ℕ) : F) * T.pi) * r ∧
      n.depth = annulusClip (outer - r) := by
    rintro n rfl
    exact ⟨rfl, rfl, annulus_depth_aux T hsc hsqrt outer _ r hr⟩
  obtain ⟨h1, h2, h3⟩ := hx _ rfl
  rw [hth] at h1 h2
  refine ⟨_, @annulusNodes2_get F (fieldScalar T) inner outer nt nz i j hi hj, h1, h2, h3, ?_⟩
  intro hn he
  subst he
  have hro : r = outer := lattice_endpoint inner outer j hn
  refine h3.trans ?_
  rw [hro, sub_self]
  unfold annulusClip
  split_ifs <;> rfl

/-- `n_cell_t` (the truncation of `annulusQuotient`) is at least `6·n_cell_z` when `π ≥ 3` and `0 ≤ inner < outer`: the hypotheses
`i < nt` of the annulus statements are satisfiable for every `n_cell_z ≥ 1` -/
theorem C18_annulus_nt_ge (T : Transc F) (hpi : 3 ≤ T.pi) (inner outer : F) (h0 : 0 ≤ inner) (hio : inner < outer)
    (nz nt : Nat) (hnz : 0 < nz) (htrunc : @annulusQuotient F (fieldScalar T) inner outer nz < (nt : F) + 1) :
    6 * nz ≤ nt := by
  have hq : @annulusQuotient F (fieldScalar T) inner outer nz = 2 * T.pi * outer / ((outer - inner) / (nz : F)) := by
    show ((2 : ℕ) : F) * T.pi * outer / ((outer - inner) / (nz : F)) = _
    push_cast; rfl
  rw [hq] at htrunc
  have hnzF : (0 : F) < (nz : F) := Nat.cast_pos.2 hnz
  have hlr : 0 < outer - inner := sub_pos.2 hio
  have hdr : 0 < (outer - inner) / (nz : F) := div_pos hlr hnzF
  have hge : (6 : F) * (nz : F) ≤ 2 * T.pi * outer / ((outer - inner) / (nz : F)) := by
    rw [le_div_iff₀ hdr]
    have : (6 : F) * (nz : F) * ((outer - inner) / (nz : F)) = 6 * (outer - inner) := by field_simp
    rw [this]
    have ho : 0 < outer := lt_of_le_of_lt h0 hio
    nlinarith
  have : ((6 * nz : ℕ) : F) < ((nt + 1 : ℕ) : F) := by
    push_cast
    linarith
  have := Nat.cast_lt.1 this
  omega

end field


/-! ### the hypotheses on libm are satisfiable: the real functions -/

/-- `Transc ℝ` with the real `sqrt`, `sin`, `cos`, `π` (the members not used by the grid code are arbitrary) -/
noncomputable def realTranscC18 : Transc ℝ :=
  { sqrt := Real.sqrt, exp := Real.exp, log := Real.log, sin := Real.sin, cos := Real.cos, tan := id, asin := id, acos := id,
    atan := id, tanh := id, erfc := id, floor := id, ceil := id, round := id, atan2 := fun a _ => a, pow := fun a _ => a,
    fmod := fun a _ => a, pi := Real.pi, eps := 0, dblMin := 0, dblMax := 0, inf := 0 }

theorem realTransc_sin_cos (a : ℝ) : realTranscC18.sin a * realTranscC18.sin a + realTranscC18.cos a * realTranscC18.cos a = 1 := by
  have := Real.sin_sq_add_cos_sq a
  simpa [realTranscC18, sq] using this

theorem realTransc_sqrt (x : ℝ) (hx : 0 ≤ x) : realTranscC18.sqrt x * realTranscC18.sqrt x = x ∧ 0 ≤ realTranscC18.sqrt x :=
  ⟨Real.mul_self_sqrt hx, Real.sqrt_nonneg x⟩

/-- an annulus with inner radius 1, outer radius 2, 8 × 2 cells: node (3, 1) -/
example : ∃ n, (@annulusNodes2 ℝ (fieldScalar realTranscC18) 1 2 8 2)[1 * 8 + 3]? = some n ∧
    n.depth = annulusClip (2 - (1 + ((1 : ℕ) : ℝ) * ((2 - 1) / ((2 : ℕ) : ℝ)))) := by
  obtain ⟨n, h, _, _, hd, _⟩ := C18_coordinates_annulus_field realTranscC18 realTransc_sin_cos realTransc_sqrt Real.pi_ne_zero
    1 2 (by norm_num) (by norm_num) (by norm_num) 8 2 3 1 (by omega) (by omega)
  exact ⟨n, h, hd⟩

/-- a 2-D chunk from 0 to 1 rad, radii 1 to 2, 4 × 2 cells: node (4, 2) lies on the outer radius -/
example : ∃ n, (@chunkNodes2 ℝ (fieldScalar realTranscC18) 0 1 1 2 4 2)[(2 + 1) * 4 + 2]? = some n ∧ n.depth = 0 := by
  obtain ⟨n, h, _, _, _, _, hd, _⟩ := C18_coordinates_chunk2_field realTranscC18 realTransc_sin_cos 0 1 1 2 4 2 4 2 (by omega) (by omega)
  exact ⟨n, h, (hd (by omega) rfl).2⟩

/-- with the real `π`, inner radius 1, outer radius 2 and `n_cell_z = 2`: any truncation `nt` of the quotient is at least 12 -/
example (nt : ℕ) (h : @annulusQuotient ℝ (fieldScalar realTranscC18) 1 2 2 < (nt : ℝ) + 1) : 6 * 2 ≤ nt :=
  C18_annulus_nt_ge realTranscC18 (le_of_lt Real.pi_gt_three) 1 2 (by norm_num) (by norm_num) 2 nt (by omega) h

/-! ## 4. `filter_vtu_mesh` -/

/-- which cells are kept (line 106) and what `highest_tag` is (lines 100-105) -/
theorem C18_filter_selection (tag : Nat → Int) (includeTag : Nat → Bool) (cell : List Nat) :
    (cellKept tag includeTag cell = true ↔ 0 ≤ highestTag tag cell ∧ includeTag (highestTag tag cell).toNat = true) ∧
    -1 ≤ highestTag tag cell ∧ (∀ v ∈ cell, tag v ≤ highestTag tag cell) ∧
    (highestTag tag cell = -1 ∨ ∃ v ∈ cell, tag v = highestTag tag cell) :=
  ⟨cellKept_iff tag includeTag cell, highestTag_spec tag cell⟩

/-- `inputCell connectivity nv c` is the `c`-th block of `nv` entries of `connectivity`; `firstSeen l` lists the distinct elements of `l`
in order of first appearance.  `out.nodes[k]` is the input node of which output node `k` is a copy. -/
theorem C18_filter {α : Type} [Inhabited α] (dim : Nat) (includeTag : Nat → Bool) (points : List α)
    (connectivity : List Nat) (nCells : Nat) (tag : Nat → Int)
    (hlen : connectivity.length = nCells * (if dim = 3 then 8 else 4))
    (hrange : ∀ e ∈ connectivity, e < points.length) :
    let nv := if dim = 3 then 8 else 4
    let out := filterMesh dim includeTag points connectivity nCells tag
    let cell := inputCell connectivity nv
    (dim = 2 ∨ dim = 3 → nv = 2 ^ dim) ∧
    -- the output cells are exactly the selected input cells, in input order
    out.cells = (List.range nCells).filter (fun c => cellKept tag includeTag (cell c)) ∧
    -- the output nodes are the nodes of the output cells, each once, in order of first use
    out.nodes = firstSeen (out.cells.flatMap cell) ∧
    out.nodes.Nodup ∧
    (∀ s, s ∈ out.nodes ↔ ∃ c ∈ out.cells, s ∈ cell c) ∧
    (∀ s ∈ out.nodes, s < points.length) ∧
    -- each output node carries its source node's data
    out.points.length = out.nodes.length ∧
    (∀ (k s : Nat), out.nodes[k]? = some s → out.points[k]? = points[s]?) ∧
    -- connectivity: `nv` entries per output cell, all valid output node indices, mapping to the input connectivity
    out.connectivity.length = out.cells.length * nv ∧
    (∀ e ∈ out.connectivity, e < out.nodes.length) ∧
    out.connectivity.map (fun d => out.nodes[d]?) = (out.cells.flatMap cell).map some ∧
    (∀ (k a : Nat), k < out.cells.length → a < nv → ∃ (c d : Nat), out.cells[k]? = some c ∧ out.connectivity[k * nv + a]? = some d ∧
        d < out.nodes.length ∧ out.nodes[d]? = connectivity[c * nv + a]?) ∧
    -- offsets
    out.offsets = (List.range out.cells.length).map (fun k => (k + 1) * nv) := by
  intro nv out cell
  obtain ⟨s1, s2, _, s4, s5⟩ := filterMesh_spec dim includeTag points connectivity nCells tag hlen hrange
  obtain ⟨_, c2, c3, c4, c5, c6, c7, c8, c9⟩ := filterMesh_consequences dim includeTag points connectivity nCells tag hlen hrange
  refine ⟨?_, s1, s2, c2, c3, c4, c5, c6, c7, c8, s4, c9, s5⟩
  rintro (rfl | rfl) <;> rfl

/-- a 2 × 2 cartesian mesh; node 0 has tag 2, node 8 has tag 1, all others -1; every tag is included: the cells 0 and 3 survive -/
example :
    let out := filterMesh 2 (fun _ => true) ["a", "b", "c", "d", "e", "f", "g", "h", "i"] (vtkConnectivity (cartesianCells2 2 2)) 4
      (fun v => if v = 0 then 2 else if v = 8 then 1 else -1)
    out.cells = [0, 3] ∧ out.nodes = [0, 1, 4, 3, 5, 8, 7] ∧ out.points = ["a", "b", "e", "d", "f", "i", "h"] ∧
    out.connectivity = [0, 1, 2, 3, 2, 4, 5, 6] ∧ out.offsets = [4, 8] := by
  decide

/-- the hypotheses of `C18_filter` hold for that mesh -/
example := C18_filter 2 (fun _ => true) ["a", "b", "c", "d", "e", "f", "g", "h", "i"] (vtkConnectivity (cartesianCells2 2 2)) 4
  (fun v => if v = 0 then 2 else if v = 8 then 1 else -1) (by decide) (by decide)


end Gwb
