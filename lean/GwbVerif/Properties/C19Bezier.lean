/-
C19 (trench curve part) — the cubic Bezier pieces of `Objects::BezierCurve` and what `closest_point_on_curve_segment` reports.

Model: `Model/Geometry/Bezier.lean` (bezier_curve.cc).  Helper lemmas and the definitions used below: `Proofs/BezierCurve.lean`.

Ordered field (`fieldScalar T`; no law of any libm member is used unless stated):
* `C19_bezier_endpoints`         the piece built from `p0, p1, c0, c1` passes through its coordinates: value `p0` at parameter 0, `p1` at 1.
* `C19_bezier_bernstein`         the power basis `a t³ + b t² + c t + d` of `cubicOf` is the Bernstein form
                                 `(1−t)³p0 + 3(1−t)²t c0 + 3(1−t)t² c1 + t³ p1` for every `t`.
* `C19_bezier_derivative_point`  `derivative_point` (bezier_curve.cc:338/537) is the derivative of that curve, and so is `3a t² + 2b t + c`.
* `C19_bezier_accept_iff`        the acceptance test as written, in closed form; `C19_bezier_accept_window`: an accepted parameter lies
                                 in `[−1e-8, 1+1e-8]`; `C19_bezier_accept_first_piece`: piece 0 accepts exactly the OPEN interval `(0,1)`;
                                 `C19_bezier_accept_later_piece`: every later piece accepts exactly `[−1e-8, 1+1e-8]`.
                                 Consequence (observation): the very first coordinate of the trench (`t = 0` on piece 0) is never a foot,
                                 the joint between pieces 0 and 1 is a foot only as `t = 0` of piece 1, and on a curve with a single piece
                                 the last coordinate (`t = 1`) is not a foot either, whereas on longer curves the last coordinate is.
Every scalar type (no laws; `Float` included):
* `C19_bezier_closest_on_curve`  if the search returns a closest point `c` then `c.index` is a piece of the curve (its two coordinates
                                 and two control points exist), `c.point` is that cubic evaluated at `c.fraction`, `c.fraction` passed the
                                 acceptance test, `c.distance = sign · sqrt(D)` with `D` the squared distance the branch minimises and
                                 `sign = ±1` from `(derivative_point − point)·(check − point) < 0`, and `c.normal` is `bezierNormal`.
Ordered field:
* `C19_bezier_closest_field`     the same in field vocabulary: the point is the Bernstein form at the reported parameter, the parameter
                                 is in the window (in `(0,1)` on piece 0), `distance = ± sqrt D`, and in Cartesian worlds
                                 `D = |point − check point|²`.
* `C19_bezier_normal_perp`       the reported normal is perpendicular to the vector `a t² + b t + c` it is built from;
  `C19_bezier_normal_vector`     that vector is the derivative minus `2a t² + b t` (it is the derivative only at `t = 0`, or if `a = b = 0`);
  `C19_bezier_normal_witness`    **observation**: for the piece `p0=(0,0)`, `p1=(1,0)`, control points `(0,1/5)`, `(1,1/5)` (0.2·length
                                 away from the coordinates, as `BezierCurve` places them, at angles 90°) the reported "normal" at `t = 1` is
                                 `(0,−1)` while the tangent there is `(0,−3/5)`: the normal is PARALLEL to the curve, so
                                 `(check − foot)·normal = 0` for every check point whose foot is that end — the side test of
                                 `distance_point_from_curved_planes` (utilities.cc, `reference_normal_on_side_of_line`) then answers the
                                 same for points on both sides.  (`sqrt 1 = 1` is the only law used.)
NOT proved: convergence of the damped Newton iteration, i.e. that the reported parameter minimises the distance over the piece, or that
some piece is accepted whenever a foot exists (searched numerically by the oracle of C06/C10).
-/
import GwbVerif.Proofs.BezierCurve
import GwbVerif.Proofs.ModelInstances
namespace Gwb
open Scalar
set_option linter.unusedSectionVars false
set_option linter.unusedVariables false

section generic
variable {R : Type} [Scalar R]

/-- **C19 (trench curve)** every scalar type: the reported closest point is the curve evaluated at the reported parameter of the
reported piece, and the parameter passed the acceptance test -/
theorem C19_bezier_closest_on_curve (bz : Bezier R) (spherical : Bool) (cp : P2 R) (c : ClosestPoint R)
    (h : bz.closestPoint spherical cp = .ok (some c)) :
    ∃ p0 p1 c0 c1, bz.points[c.index]? = some p0 ∧ bz.points[c.index + 1]? = some p1 ∧ bz.control[c.index]? = some (c0, c1) ∧
      c.point = cubicPoint (cubicOf p0 p1 c0 c1) c.fraction ∧ accept c.index c.fraction = true ∧
      c.distance = distanceSign p0 p1 c0 c1 cp c.fraction c.point * sqrt (bezierSqDist spherical cp (cubicOf p0 p1 c0 c1) c.fraction) ∧
      c.normal = bezierNormal (cubicOf p0 p1 c0 c1) c.fraction :=
  Bezier.closestPoint_hit bz spherical cp c h

end generic

section field
variable {F : Type} [Field F] [LinearOrder F] [IsStrictOrderedRing F] (T : Transc F)

/-- **C19 (trench curve)** the curve passes through its coordinates -/
theorem C19_bezier_endpoints (p0 p1 c0 c1 : P2 F) :
    @cubicPoint F (fieldScalar T) (@cubicOf F (fieldScalar T) p0 p1 c0 c1) 0 = p0 ∧
    @cubicPoint F (fieldScalar T) (@cubicOf F (fieldScalar T) p0 p1 c0 c1) 1 = p1 := by
  rw [cubicPoint_bernstein, cubicPoint_bernstein]
  exact ⟨bernstein_zero p0 p1 c0 c1, bernstein_one p0 p1 c0 c1⟩

/-- **C19 (trench curve)** power basis = Bernstein form, for every parameter -/
theorem C19_bezier_bernstein (p0 p1 c0 c1 : P2 F) (t : F) :
    @cubicPoint F (fieldScalar T) (@cubicOf F (fieldScalar T) p0 p1 c0 c1) t =
      ⟨(1 - t) ^ 3 * p0.x + 3 * (1 - t) ^ 2 * t * c0.x + 3 * (1 - t) * t ^ 2 * c1.x + t ^ 3 * p1.x,
       (1 - t) ^ 3 * p0.y + 3 * (1 - t) ^ 2 * t * c0.y + 3 * (1 - t) * t ^ 2 * c1.y + t ^ 3 * p1.y⟩ :=
  cubicPoint_bernstein T p0 p1 c0 c1 t

/-- **C19 (trench curve)** `derivative_point` and `3a t² + 2b t + c` are both the derivative
`3(1−t)²(c0−p0) + 6(1−t)t(c1−c0) + 3t²(p1−c1)` of the Bernstein form -/
theorem C19_bezier_derivative_point (p0 p1 c0 c1 : P2 F) (t : F) :
    @derivativePoint F (fieldScalar T) p0 p1 c0 c1 t = bernsteinDeriv p0 p1 c0 c1 t ∧
    (⟨3 * (@cubicOf F (fieldScalar T) p0 p1 c0 c1).a.x * t ^ 2 + 2 * (@cubicOf F (fieldScalar T) p0 p1 c0 c1).b.x * t
        + (@cubicOf F (fieldScalar T) p0 p1 c0 c1).c.x,
      3 * (@cubicOf F (fieldScalar T) p0 p1 c0 c1).a.y * t ^ 2 + 2 * (@cubicOf F (fieldScalar T) p0 p1 c0 c1).b.y * t
        + (@cubicOf F (fieldScalar T) p0 p1 c0 c1).c.y⟩ : P2 F) = bernsteinDeriv p0 p1 c0 c1 t :=
  ⟨derivativePoint_field T p0 p1 c0 c1 t, powerDeriv_field T p0 p1 c0 c1 t⟩

/-- **C19 (trench curve)** the acceptance test as written: `est ≥ −1e-8 ∧ i + est > 0 ∧ est − 1 ≤ 1e-8 ∧ est − 1 < i` -/
theorem C19_bezier_accept_iff (i : ℕ) (est : F) :
    @accept F (fieldScalar T) i est = true ↔
      -(1 / 100000000) ≤ est ∧ 0 < (i : F) + est ∧ est - 1 ≤ 1 / 100000000 ∧ est - 1 < (i : F) :=
  accept_field T i est

/-- **C19 (trench curve)** an accepted parameter lies in `[−1e-8, 1 + 1e-8]` -/
theorem C19_bezier_accept_window (i : ℕ) (est : F) (h : @accept F (fieldScalar T) i est = true) :
    -(1 / 100000000) ≤ est ∧ est ≤ 1 + 1 / 100000000 :=
  accept_window T i est h

/-- **C19 (trench curve)** piece 0 accepts exactly the open interval `(0, 1)` -/
theorem C19_bezier_accept_first_piece (est : F) : @accept F (fieldScalar T) 0 est = true ↔ 0 < est ∧ est < 1 :=
  accept_zero T est

/-- **C19 (trench curve)** every later piece accepts exactly `[−1e-8, 1 + 1e-8]` -/
theorem C19_bezier_accept_later_piece (i : ℕ) (est : F) :
    @accept F (fieldScalar T) (i + 1) est = true ↔ -(1 / 100000000) ≤ est ∧ est ≤ 1 + 1 / 100000000 :=
  accept_succ T i est

/-- **C19 (trench curve)** the reported closest point, in field vocabulary -/
theorem C19_bezier_closest_field (bz : Bezier F) (spherical : Bool) (cp : P2 F) (c : ClosestPoint F)
    (h : @Bezier.closestPoint F (fieldScalar T) bz spherical cp = .ok (some c)) :
    ∃ p0 p1 c0 c1, bz.points[c.index]? = some p0 ∧ bz.points[c.index + 1]? = some p1 ∧ bz.control[c.index]? = some (c0, c1) ∧
      c.point = bernstein p0 p1 c0 c1 c.fraction ∧
      -(1 / 100000000) ≤ c.fraction ∧ c.fraction ≤ 1 + 1 / 100000000 ∧ (c.index = 0 → 0 < c.fraction ∧ c.fraction < 1) ∧
      (c.distance = T.sqrt (@bezierSqDist F (fieldScalar T) spherical cp (@cubicOf F (fieldScalar T) p0 p1 c0 c1) c.fraction) ∨
        c.distance = -T.sqrt (@bezierSqDist F (fieldScalar T) spherical cp (@cubicOf F (fieldScalar T) p0 p1 c0 c1) c.fraction)) ∧
      (spherical = false →
        @bezierSqDist F (fieldScalar T) spherical cp (@cubicOf F (fieldScalar T) p0 p1 c0 c1) c.fraction =
          (c.point.x - cp.x) ^ 2 + (c.point.y - cp.y) ^ 2) := by
  obtain ⟨p0, p1, c0, c1, h0, h1, hc, hp, hacc, hd, _⟩ := @C19_bezier_closest_on_curve F (fieldScalar T) bz spherical cp c h
  refine ⟨p0, p1, c0, c1, h0, h1, hc, ?_, (accept_window T _ _ hacc).1, (accept_window T _ _ hacc).2, ?_, ?_, ?_⟩
  · rw [hp, cubicPoint_bernstein]
  · intro hi
    rw [hi] at hacc
    exact (accept_zero T _).1 hacc
  · rw [hd]
    rcases distanceSign_field T p0 p1 c0 c1 cp c.fraction c.point with hs | hs
    · left; rw [hs]; sfield; ring
    · right; rw [hs]; sfield; ring
  · intro hs
    subst hs
    unfold bezierSqDist
    simp only [Bool.false_eq_true, if_false]
    rw [sqDistC_field, hp]

/-- **C19 (trench curve)** the reported normal is perpendicular to `a t² + b t + c` -/
theorem C19_bezier_normal_perp (k : Cubic F) (t : F)
    (hpos : 0 < T.sqrt ((@pseudoDerivative F (fieldScalar T) k t).x * (@pseudoDerivative F (fieldScalar T) k t).x +
      (@pseudoDerivative F (fieldScalar T) k t).y * (@pseudoDerivative F (fieldScalar T) k t).y)) :
    (@bezierNormal F (fieldScalar T) k t).x * (@pseudoDerivative F (fieldScalar T) k t).x +
      (@bezierNormal F (fieldScalar T) k t).y * (@pseudoDerivative F (fieldScalar T) k t).y = 0 :=
  bezierNormal_perp T k t hpos

/-- **C19 (trench curve)** … and `a t² + b t + c` is the derivative of the curve minus `2a t² + b t` -/
theorem C19_bezier_normal_vector (p0 p1 c0 c1 : P2 F) (t : F) :
    @pseudoDerivative F (fieldScalar T) (@cubicOf F (fieldScalar T) p0 p1 c0 c1) t =
      ⟨(bernsteinDeriv p0 p1 c0 c1 t).x - (2 * (3 * c0.x - 3 * c1.x + p1.x - p0.x) * t ^ 2 + (3 * p0.x - 6 * c0.x + 3 * c1.x) * t),
       (bernsteinDeriv p0 p1 c0 c1 t).y - (2 * (3 * c0.y - 3 * c1.y + p1.y - p0.y) * t ^ 2 + (3 * p0.y - 6 * c0.y + 3 * c1.y) * t)⟩ :=
  pseudoDerivative_field T p0 p1 c0 c1 t

/-- **C19 (trench curve), observation**: a piece whose reported "normal" at its end is parallel to the curve.
`p0 = (0,0)`, `p1 = (1,0)`, control points `(0,1/5)` and `(1,1/5)`: at `t = 1` the tangent is `(0,−3/5)`, the reported normal `(0,−1)`. -/
theorem C19_bezier_normal_witness (hsqrt : T.sqrt 1 = 1) :
    bernsteinDeriv (⟨0, 0⟩ : P2 F) ⟨1, 0⟩ ⟨0, 1 / 5⟩ ⟨1, 1 / 5⟩ 1 = ⟨0, -(3 / 5)⟩ ∧
    @bezierNormal F (fieldScalar T) (@cubicOf F (fieldScalar T) ⟨0, 0⟩ ⟨1, 0⟩ ⟨0, 1 / 5⟩ ⟨1, 1 / 5⟩) 1 = ⟨0, -1⟩ := by
  constructor
  · unfold bernsteinDeriv
    simp only [P2.mk.injEq]
    constructor <;> norm_num
  · rw [cubicOf_field]
    unfold bezierNormal
    simp only
    have e1 : (3 * (0 : F) - 3 * 1 + 1 - 0) * 1 * 1 + (3 * 0 - 6 * 0 + 3 * 1) * 1 + (-3 * 0 + 3 * 0) = 1 := by norm_num
    have e2 : (3 * ((1 : F) / 5) - 3 * (1 / 5) + 0 - 0) * 1 * 1 + (3 * 0 - 6 * (1 / 5) + 3 * (1 / 5)) * 1 + (-3 * 0 + 3 * (1 / 5)) = 0 := by
      norm_num
    sfield
    rw [e1, e2]
    have e3 : (1 : F) * 1 + 0 * 0 = 1 := by norm_num
    rw [e3, hsqrt, if_pos (by norm_num : (0 : F) < 1)]
    simp

end field

/-! ### non-vacuity -/

/-- a straight piece from `(0,0)` to `(3,0)` with control points at the thirds (uniform parametrisation) -/
def bezierExample : Bezier ℚ := ⟨[⟨0, 0⟩, ⟨3, 0⟩], [(⟨1, 0⟩, ⟨2, 0⟩)], [0, 0]⟩

theorem bezierExample_newton (dm0 dm1 : ℚ) (h0 : dm0 = -(3/2)) (h1 : dm1 = -1) :
    @newtonC ℚ (fieldScalar toyTransc) (@cubicOf ℚ (fieldScalar toyTransc) ⟨0,0⟩ ⟨3,0⟩ ⟨1,0⟩ ⟨2,0⟩) dm0 dm1 150 (1/2) = (1/2, true) := by
  subst h0 h1
  rw [cubicOf_field]
  change @newtonC ℚ (fieldScalar toyTransc) _ _ _ (Nat.succ 149) _ = _
  rw [@newtonC.eq_2 ℚ (fieldScalar toyTransc)]
  simp only [fabs_eq_abs]
  sfield
  simp only [lit_three_dec, lit_six_dec, lit_half_dec, lit_tenth_dec, lit_1_1_dec, lit_1em4_dec]
  norm_num

theorem bezierExample_estimate : @initialEstimate ℚ (fieldScalar toyTransc) ⟨0,0⟩ ⟨3,0⟩ ⟨3/2, 1⟩ = 1/2 := by
  rw [initialEstimate_field]
  norm_num

theorem bezierExample_piece : @pieceC ℚ (fieldScalar toyTransc) ⟨0,0⟩ ⟨3,0⟩ ⟨1,0⟩ ⟨2,0⟩ ⟨3/2, 1⟩ = ((1/2, true), 1) := by
  unfold pieceC
  simp only [bezierExample_estimate]
  have hd : (@cubicOf ℚ (fieldScalar toyTransc) ⟨0,0⟩ ⟨3,0⟩ ⟨1,0⟩ ⟨2,0⟩).d = ⟨0, 0⟩ := rfl
  simp only [hd]
  rw [bezierExample_newton _ _ (by sfield; norm_num) (by sfield; norm_num)]
  rw [cubicOf_field]
  sfield
  norm_num

/-- the hypothesis of `C19_bezier_closest_on_curve` / `C19_bezier_closest_field` is satisfiable: the foot of `(3/2, 1)` is found at
parameter `1/2` of piece 0 (the initial estimate is already the foot; the first Newton update is 0) -/
example : ∃ c, @Bezier.closestPoint ℚ (fieldScalar toyTransc) bezierExample false ⟨3 / 2, 1⟩ = .ok (some c) ∧
    c.index = 0 ∧ c.fraction = 1 / 2 ∧ c.point = ⟨3 / 2, 0⟩ := by
  unfold Bezier.closestPoint
  simp only [Bool.false_eq_true, if_false]
  have hlen : bezierExample.control.length + 1 = 1 + 1 := rfl
  rw [hlen, @closestCartesianLoop_succ ℚ (fieldScalar toyTransc)]
  have h0 : (0 : ℕ) < bezierExample.control.length := by decide
  rw [if_pos h0]
  have e1 : idx bezierExample.points 0 = .ok ⟨0, 0⟩ := rfl
  have e2 : idx bezierExample.points (0 + 1) = .ok ⟨3, 0⟩ := rfl
  have e3 : idx bezierExample.control 0 = .ok (⟨1, 0⟩, ⟨2, 0⟩) := rfl
  rw [e1, e2, e3]
  simp only [bind, Except.bind, bezierExample_piece]
  have hacc : (1 : ℚ) < @Scalar.inf ℚ (fieldScalar toyTransc) ∧ @accept ℚ (fieldScalar toyTransc) 0 (1 / 2) = true :=
    ⟨by show (1 : ℚ) < 1000000000000; norm_num, (accept_zero toyTransc _).2 (by norm_num)⟩
  simp only [Bool.not_true, Bool.false_eq_true, if_false]
  rw [if_pos hacc]
  rw [@closestCartesianLoop_succ ℚ (fieldScalar toyTransc), if_neg (by decide)]
  refine ⟨_, rfl, rfl, rfl, ?_⟩
  show @onCurveC ℚ (fieldScalar toyTransc) _ _ = _
  unfold onCurveC
  rw [cubicOf_field]
  sfield
  norm_num

/-- the hypothesis of `C19_bezier_normal_witness` holds for the real square root (and for the toy one) -/
example : realTransc.sqrt 1 = 1 ∧ toyTransc.sqrt 1 = 1 := ⟨Real.sqrt_one, rfl⟩

/-- accepted parameters exist on both kinds of pieces -/
example : @accept ℚ (fieldScalar toyTransc) 0 (1 / 2) = true ∧ @accept ℚ (fieldScalar toyTransc) 1 1 = true ∧
    @accept ℚ (fieldScalar toyTransc) 0 1 = false := by
  refine ⟨(accept_zero toyTransc _).2 (by norm_num), (accept_succ toyTransc 0 _).2 (by norm_num), ?_⟩
  rw [Bool.eq_false_iff, Ne, accept_zero]
  norm_num

end Gwb
