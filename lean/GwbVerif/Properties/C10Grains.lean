/-
C02 / C10 — grains inside slabs and faults: the blend `mat3_cast(slerp(quat_cast A, quat_cast B, f))` on whole grain blocks
(fault.cc:724-735, subducting_plate.cc; helpers `include/glm/glm.h`; model `linePaintAt` code 3, `quatCast`, `mat3Cast`, `slerp`, `mix`
in `Model/Features/Line.lean`).  Proofs: `Proofs/GrainsBlend.lean` (on top of `Proofs/Quaternion.lean` and `Proofs/LineOps.lean`).

Setting: any ordered field `F` with the libm members `T : Transc F`.  `M3.Rot A`: `A Aᵀ = I`, `det A = 1`.  `qdot`, `qnorm2`: the
4-vector dot product / squared norm of quaternions; `slerpC q1 q2 = |q1·q2|` and `slerpZ q1 q2 = ±q2` (`−q2` iff `q1·q2 < 0`) are the
cosine and the second end point after the sign flip of `slerp`; `selfSlerp a f = mat3Cast (slerp (quatCast a) (quatCast a) f)`;
`blendGrains gc gn f`: sizes pairwise `lerp`, matrices pairwise `mat3Cast (slerp (quatCast a) (quatCast b) f)`.
Assumed laws (all hold for the real functions, `C10_grains_laws_real`):
* `SqrtLaw T`   : `sqrt x · sqrt x = x` for `x ≥ 0`;
* `SlerpLaws T` : `0 < eps`, `sin 0 = 0`, addition formulas of `sin`, `cos`, `sin² + cos² = 1`, `cos (acos c) = c` on `[-1, 1]`;
* `AcosLaws T`  : `acos (cos x) = x` on `[0, pi]` (only for `C10_slerp_geodesic_angle`).

C02 (a slab / fault WITHOUT grains models in either section; complement of the known finding `C02_line_no_grains_models_zero_matrix`):
* `C02_line_no_grains_models_rotation_unchanged` — `selfSlerp a f = a` for every PROPER rotation `a` and every `f`
  (`|quatCast a|² = 1 > 1 − eps` ⇒ linear branch ⇒ `mix q q f = q` ⇒ four-branch round trip).  Needs `SqrtLaw` and `0 < eps` only.
* `C02_line_no_grains_models_rotation_block_unchanged` — `linePaintAt` on a grains block (`e + 10k ≤ |out|`) all of whose matrices are
  proper rotations: the output is UNCHANGED (`= .ok out`).
* `C02_line_no_grains_models_unchanged_iff` — exactly which blocks are changed: the output is unchanged IFF every matrix `a` of the block
  has `selfSlerp a sf = a`.  With the two facts "proper rotation ⇒ fixed" (above) and "all-zero matrix ⇒ identity matrix" (known finding)
  a block of a model-less slab is changed only in its non-rotation matrices.

C10 ('between the two sections', grains clause):
* `C10_slerp_geodesic` — trigonometric branch, unit `q1`, `q2`, `θ = acos |q1·q2|` (so `cos θ = |q1·q2|`): for EVERY `f`
  `slerp q1 q2 f · q1 = cos (f θ)`, `slerp q1 q2 f · (±q2) = cos ((1−f) θ)`, `|slerp q1 q2 f| = 1`: the blend is the point of the great
  circle through `q1` and `±q2` at angle `fθ` from `q1` and `(1−f)θ` from `±q2`; the two angles add up to `θ`.
* `C10_slerp_geodesic_angle` — the same with the angle given: `q1·q2 = cos θ ≥ 0`, `0 ≤ θ ≤ pi`, `0 ≤ f ≤ 1`:
  `slerp q1 q2 f · q1 = cos (f θ)`, `slerp q1 q2 f · q2 = cos ((1−f) θ)`, and `0 ≤ fθ ≤ θ`, `0 ≤ (1−f)θ ≤ θ`.
* `C10_slerp_geodesic_linear` — linear (`mix`) branch (`|q1·q2| > 1 − eps`): `slerp q1 q2 f · q1 = 1 − f (1 − c)`,
  `slerp q1 q2 f · (±q2) = 1 − (1−f)(1 − c)`, `c = |q1·q2|`: the chord, not the arc; both within `eps` of 1 for `0 ≤ f ≤ 1`.
* `C10_grains_blend_between` — `linePaintAt`, code 3, both sections' grains `gc`, `gn` evaluated: the block written is `blendGrains gc gn sf`;
  sizes: pairwise `lerp`, between the two sizes for `0 ≤ sf ≤ 1`; matrices: for proper rotations `a`, `b` in the trigonometric branch the
  matrix written is `mat3Cast q` with `q` a unit quaternion on the great circle through `qa = quatCast a` and `±qb = ±quatCast b`
  (which are sent back to `a` and `b` by `mat3Cast`), at angle `sf·θ` from `qa` and `(1−sf)·θ` from `±qb`; it is a proper rotation.
Non-vacuity: the examples at the end (over `ℝ` with `quatRealTransc`, and over every ordered field for the rotation hypotheses).

Import note: `Proofs/Quaternion.lean` and `Proofs/LineOps.lean` can be imported together; no name clashes.
-/
import GwbVerif.Proofs.GrainsBlend
import GwbVerif.Properties.C10Quaternion
import GwbVerif.Properties.C02Lines
namespace Gwb
open Scalar
set_option linter.unusedSectionVars false
set_option linter.unusedVariables false

section field
variable {F : Type} [Field F] [LinearOrder F] [IsStrictOrderedRing F] (T : Transc F)

/-! ## C02: no grains models -/

/-- **C02** a proper rotation matrix blended with itself comes back as it was, for every section fraction -/
theorem C02_line_no_grains_models_rotation_unchanged (hsq : SqrtLaw T) (heps : 0 < T.eps) (a : M3 F) (ha : a.Rot) (f : F) :
    @selfSlerp F (fieldScalar T) a f = a := selfSlerp_rot T hsq heps a ha f

/-- **C02** exactly which grains blocks a slab / fault without grains models changes: none of those whose matrices are all fixed by the
self blend, and only those -/
theorem C02_line_no_grains_models_unchanged_iff (f : LineFeature F) (ctx : Ctx F) (q : Query F) (h : LineHit F) (p : Req) (e : Nat)
    (out : List F) (hcode : p.code = 3) (hc : h.cur.grains = []) (hn : h.next.grains = []) (hlen : e + p.k * 10 ≤ out.length) :
    @linePaintAt F (fieldScalar T) f ctx q h p e out = .ok out ↔
      ∀ a ∈ (@Grains.ofBlock F (fieldScalar T) p.k (readBlock e (p.k * 10) out)).mats,
        @selfSlerp F (fieldScalar T) a h.pd.fractionOfSection = a := by
  obtain ⟨-, -, hg⟩ := C02_line_no_models_identity T f ctx q h p e out
  rw [hg hcode hc hn]
  have hrl := @readBlock_length F (fieldScalar T) e (p.k * 10) out hlen
  have hwf := @Grains.ofBlock_wf F (fieldScalar T) p.k _ hrl
  generalize hgdef : @Grains.ofBlock F (fieldScalar T) p.k (readBlock e (p.k * 10) out) = g at *
  have hto : @Grains.toBlock F (fieldScalar T) g = readBlock e (p.k * 10) out := by
    rw [← hgdef]; exact @toBlock_ofBlock F (fieldScalar T) p.k _ hrl
  constructor
  · intro hh
    have hh' := Except.ok.inj hh
    have hblk := @writeBlock_eq_self_iff F (fieldScalar T) e (p.k * 10) _ out hlen
      (by
        apply @Grains.toBlock_length F (fieldScalar T) p.k
        exact ⟨hwf.1, by simp only [List.length_map]; exact hwf.2⟩) |>.mp hh'
    rw [← hto] at hblk
    unfold Grains.toBlock at hblk
    simp only at hblk
    have hm := List.append_cancel_left hblk
    have hmm := @flatten_toList_inj F (fieldScalar T) _ _ (by simp) hm
    exact List.map_eq_map_iff.mp (hmm.trans (List.map_id _).symm)
  · intro hh
    have : g.mats.map (fun a => @selfSlerp F (fieldScalar T) a h.pd.fractionOfSection) = g.mats := by
      conv_rhs => rw [← List.map_id g.mats]
      exact List.map_congr_left hh
    rw [this]
    have : (⟨g.sizes, g.mats⟩ : Grains F) = g := rfl
    rw [this, hto, @writeBlock_readBlock F (fieldScalar T) e (p.k * 10) out hlen]

/-- **C02** a grains block all of whose matrices are proper rotations is left exactly as it was by a slab / fault without grains models -/
theorem C02_line_no_grains_models_rotation_block_unchanged (hsq : SqrtLaw T) (heps : 0 < T.eps) (f : LineFeature F) (ctx : Ctx F)
    (q : Query F) (h : LineHit F) (p : Req) (e : Nat) (out : List F) (hcode : p.code = 3) (hc : h.cur.grains = [])
    (hn : h.next.grains = []) (hlen : e + p.k * 10 ≤ out.length)
    (hrot : ∀ a ∈ (@Grains.ofBlock F (fieldScalar T) p.k (readBlock e (p.k * 10) out)).mats, a.Rot) :
    @linePaintAt F (fieldScalar T) f ctx q h p e out = .ok out :=
  (C02_line_no_grains_models_unchanged_iff T f ctx q h p e out hcode hc hn hlen).mpr
    (fun a ha => selfSlerp_rot T hsq heps a (hrot a ha) _)

/-! ## C10: the blend lies on the geodesic between the two sections' orientations -/

/-- **C10** trigonometric branch: the blend of two unit quaternions is the unit quaternion at angle `fθ` from `q1` and `(1−f)θ` from
`±q2` on their great circle, `θ = acos |q1·q2|` -/
theorem C10_slerp_geodesic (L : SlerpLaws T) (q1 q2 : Quat F) (f : F) (h1 : qnorm2 q1 = 1) (h2 : qnorm2 q2 = 1)
    (htrig : ¬ slerpC q1 q2 > 1 - T.eps) :
    T.cos (T.acos (slerpC q1 q2)) = slerpC q1 q2
    ∧ qdot q1 (slerpZ q1 q2) = slerpC q1 q2
    ∧ qdot (@slerp F (fieldScalar T) q1 q2 f) q1 = T.cos (f * T.acos (slerpC q1 q2))
    ∧ qdot (@slerp F (fieldScalar T) q1 q2 f) (slerpZ q1 q2) = T.cos ((1 - f) * T.acos (slerpC q1 q2))
    ∧ qnorm2 (@slerp F (fieldScalar T) q1 q2 f) = 1
    ∧ f * T.acos (slerpC q1 q2) + (1 - f) * T.acos (slerpC q1 q2) = T.acos (slerpC q1 q2) := by
  have hc1 : slerpC q1 q2 ≤ 1 := by have := L.eps_pos; linarith [not_lt.mp htrig]
  exact ⟨L.cos_acos _ (by linarith [slerpC_nonneg q1 q2]) hc1, qdot_slerpZ q1 q2, slerp_trig_dot_left T L q1 q2 f h1 h2 htrig,
    slerp_trig_dot_right T L q1 q2 f h1 h2 htrig, slerp_trig_unit T L q1 q2 f h1 h2 htrig, by ring⟩

/-- **C10** the same with the angle given: `q1·q2 = cos θ ≥ 0`, `0 ≤ θ ≤ pi`, `0 ≤ f ≤ 1` -/
theorem C10_slerp_geodesic_angle (L : SlerpLaws T) (A : AcosLaws T) (q1 q2 : Quat F) (f θ : F) (h1 : qnorm2 q1 = 1) (h2 : qnorm2 q2 = 1)
    (hθ0 : 0 ≤ θ) (hθ1 : θ ≤ T.pi) (hdot : qdot q1 q2 = T.cos θ) (hnn : 0 ≤ qdot q1 q2) (htrig : ¬ qdot q1 q2 > 1 - T.eps)
    (hf0 : 0 ≤ f) (hf1 : f ≤ 1) :
    qdot (@slerp F (fieldScalar T) q1 q2 f) q1 = T.cos (f * θ)
    ∧ qdot (@slerp F (fieldScalar T) q1 q2 f) q2 = T.cos ((1 - f) * θ)
    ∧ qnorm2 (@slerp F (fieldScalar T) q1 q2 f) = 1
    ∧ 0 ≤ f * θ ∧ f * θ ≤ θ ∧ 0 ≤ (1 - f) * θ ∧ (1 - f) * θ ≤ θ := by
  obtain ⟨hC, hZ⟩ := slerpC_of_nonneg q1 q2 hnn
  have htrig' : ¬ slerpC q1 q2 > 1 - T.eps := by rw [hC]; exact htrig
  obtain ⟨-, -, g1, g2, g3, -⟩ := C10_slerp_geodesic T L q1 q2 f h1 h2 htrig'
  have hθ : T.acos (slerpC q1 q2) = θ := by rw [hC, hdot]; exact A.acos_cos θ hθ0 hθ1
  rw [hθ] at g1 g2
  rw [hZ] at g2
  refine ⟨g1, g2, g3, mul_nonneg hf0 hθ0, ?_, mul_nonneg (by linarith) hθ0, ?_⟩
  · nlinarith
  · nlinarith

/-- **C10** linear (`mix`) branch: the chord instead of the arc -/
theorem C10_slerp_geodesic_linear (q1 q2 : Quat F) (f : F) (h1 : qnorm2 q1 = 1) (h2 : qnorm2 q2 = 1)
    (hlin : slerpC q1 q2 > 1 - T.eps) :
    qdot (@slerp F (fieldScalar T) q1 q2 f) q1 = 1 - f * (1 - slerpC q1 q2)
    ∧ qdot (@slerp F (fieldScalar T) q1 q2 f) (slerpZ q1 q2) = 1 - (1 - f) * (1 - slerpC q1 q2) := by
  rw [slerp_field, if_pos hlin]
  have hz := qnorm2_slerpZ q1 q2
  rw [h2] at hz
  have hd := qdot_slerpZ q1 q2
  generalize slerpZ q1 q2 = z at *
  generalize slerpC q1 q2 = c at *
  simp only [qnorm2, qdot] at *
  constructor
  · linear_combination (1 - f) * h1 + f * hd
  · linear_combination (1 - f) * hd + f * hz

/-- **C10** grains, 'between the two sections': what `linePaintAt` writes for a grains request when the two sections' grains are `gc`,
`gn`: sizes between the two sizes; every matrix (proper rotations, trigonometric branch) a proper rotation on the geodesic between the
two sections' orientations -/
theorem C10_grains_blend_between (hsq : SqrtLaw T) (L : SlerpLaws T) (f : LineFeature F) (ctx : Ctx F) (q : Query F) (h : LineHit F)
    (p : Req) (e : Nat) (out : List F) (gc gn : Grains F) (hcode : p.code = 3)
    (hc : @sectionGrains F (fieldScalar T) f.isFault h.pd p.n h.cur
            (@Grains.ofBlock F (fieldScalar T) p.k (readBlock e (p.k * 10) out)) = .ok gc)
    (hn : @sectionGrains F (fieldScalar T) f.isFault h.pd p.n h.next
            (@Grains.ofBlock F (fieldScalar T) p.k (readBlock e (p.k * 10) out)) = .ok gn) :
    let sf := h.pd.fractionOfSection
    let g := @blendGrains F (fieldScalar T) gc gn sf
    @linePaintAt F (fieldScalar T) f ctx q h p e out = .ok (writeBlock e (@Grains.toBlock F (fieldScalar T) g) out)
    ∧ (0 ≤ sf → sf ≤ 1 → ∀ (i : Nat) (a b : F), gc.sizes[i]? = some a → gn.sizes[i]? = some b →
          ∃ v, g.sizes[i]? = some v ∧ v = a + sf * (b - a) ∧ min a b ≤ v ∧ v ≤ max a b)
    ∧ (∀ (i : Nat) (a b : M3 F), gc.mats[i]? = some a → gn.mats[i]? = some b → a.Rot → b.Rot →
          let qa := @quatCast F (fieldScalar T) a
          let qb := @quatCast F (fieldScalar T) b
          ¬ slerpC qa qb > 1 - T.eps →
          ∃ qm : Quat F, g.mats[i]? = some (@mat3Cast F (fieldScalar T) qm) ∧ qm = @slerp F (fieldScalar T) qa qb sf
            ∧ qnorm2 qm = 1 ∧ (@mat3Cast F (fieldScalar T) qm).Rot
            ∧ @mat3Cast F (fieldScalar T) qa = a ∧ @mat3Cast F (fieldScalar T) (slerpZ qa qb) = b
            ∧ qdot qm qa = T.cos (sf * T.acos (slerpC qa qb))
            ∧ qdot qm (slerpZ qa qb) = T.cos ((1 - sf) * T.acos (slerpC qa qb))) := by
  intro sf g
  refine ⟨@linePaintAt_grains F (fieldScalar T) f ctx q h p e out gc gn hcode hc hn, ?_, ?_⟩
  · intro h0 h1 i a b ha hb
    refine ⟨a + sf * (b - a), ?_, rfl, ?_, ?_⟩
    · show (List.zipWith _ gc.sizes gn.sizes)[i]? = _
      rw [List.getElem?_zipWith, ha, hb]
      rfl
    · rcases le_total a b with hab | hab
      · rw [min_eq_left hab]; nlinarith
      · rw [min_eq_right hab]; nlinarith
    · rcases le_total a b with hab | hab
      · rw [max_eq_right hab]; nlinarith
      · rw [max_eq_left hab]; nlinarith
  · intro i a b ha hb hra hrb qa qb htrig
    have ua := quatCast_unit T hsq a hra
    have ub := quatCast_unit T hsq b hrb
    obtain ⟨-, -, g1, g2, g3, -⟩ := C10_slerp_geodesic T L qa qb sf ua ub htrig
    refine ⟨_, ?_, rfl, g3, mat3Cast_rot T _ g3, quat_roundtrip T hsq a hra, ?_, g1, g2⟩
    · show (List.zipWith _ gc.mats gn.mats)[i]? = _
      rw [List.getElem?_zipWith, ha, hb]
    · rw [mat3Cast_slerpZ]; exact quat_roundtrip T hsq b hrb

end field

/-- the assumed laws hold for the real functions -/
theorem C10_grains_laws_real : SqrtLaw quatRealTransc ∧ SlerpLaws quatRealTransc ∧ AcosLaws quatRealTransc :=
  ⟨quatReal_sqrtLaw, quatReal_slerpLaws, quatReal_acosLaws⟩

/-! ## non-vacuity -/

namespace C10GrainsEx

/-- the identity and the half turn about the x axis, as matrices over any ordered field -/
def idM (F : Type) [Field F] : M3 F := ⟨1, 0, 0, 0, 1, 0, 0, 0, 1⟩
def halfX (F : Type) [Field F] : M3 F := ⟨1, 0, 0, 0, -1, 0, 0, 0, -1⟩

theorem idM_rot {F : Type} [Field F] [LinearOrder F] [IsStrictOrderedRing F] : (idM F).Rot := by
  constructor <;> norm_num [idM]
theorem halfX_rot {F : Type} [Field F] [LinearOrder F] [IsStrictOrderedRing F] : (halfX F).Rot := by
  constructor <;> norm_num [halfX]

theorem real_eps_pos : 0 < quatRealTransc.eps := quatReal_slerpLaws.eps_pos

/-- `C02_line_no_grains_models_rotation_unchanged` at work: the half turn about x over `ℝ`, section fraction 1/3 -/
example : @selfSlerp ℝ (fieldScalar quatRealTransc) (halfX ℝ) (1 / 3) = halfX ℝ :=
  C02_line_no_grains_models_rotation_unchanged quatRealTransc quatReal_sqrtLaw real_eps_pos _ halfX_rot _

/-- a geometry result with section fraction 1/3, a segment without any models, a hit between two such segments -/
noncomputable def pd : PlaneDist ℝ :=
  { distanceFromPlane := 0, distanceAlongPlane := 0, fractionOfSection := 1 / 3, fractionOfSegment := 0, sectionIdx := 0, segment := 0,
    averageAngle := 0, depthReferenceSurface := 0, closestTrenchPoint := ⟨0, 0, 0⟩ }
noncomputable def seg : Segment ℝ :=
  { length := 100, thickness := ⟨100, 100⟩, topTruncation := ⟨0, 0⟩, angle := ⟨45, 45⟩, temps := [], comps := [], grains := [], vels := [] }
noncomputable def hit : LineHit ℝ := ⟨pd, seg, seg, ⟨100, 100⟩⟩

/-- a grains block of two grains: sizes 3/10, 7/10, matrices identity and half turn about x -/
noncomputable def blk : List ℝ := [3 / 10, 7 / 10, 1, 0, 0, 0, 1, 0, 0, 0, 1, 1, 0, 0, 0, -1, 0, 0, 0, -1]

theorem blk_mats : (@Grains.ofBlock ℝ (fieldScalar quatRealTransc) (Req.grains 0 2).k (readBlock 0 ((Req.grains 0 2).k * 10) blk)).mats
    = [idM ℝ, halfX ℝ] := rfl

/-- the hypotheses of `C02_line_no_grains_models_rotation_block_unchanged` / `…_unchanged_iff` hold for this block … -/
theorem blk_hyps : (Req.grains 0 2).code = 3 ∧ hit.cur.grains = [] ∧ hit.next.grains = [] ∧ 0 + (Req.grains 0 2).k * 10 ≤ blk.length
    ∧ ∀ a ∈ (@Grains.ofBlock ℝ (fieldScalar quatRealTransc) (Req.grains 0 2).k (readBlock 0 ((Req.grains 0 2).k * 10) blk)).mats, a.Rot := by
  refine ⟨rfl, rfl, rfl, by simp [blk, Req.grains], ?_⟩
  rw [blk_mats]
  intro a ha
  simp only [List.mem_cons, List.not_mem_nil, or_false] at ha
  rcases ha with rfl | rfl
  · exact idM_rot
  · exact halfX_rot

/-- … so whatever the feature, context and query, the block is left alone -/
example (f : LineFeature ℝ) (ctx : Ctx ℝ) (q : Query ℝ) :
    @linePaintAt ℝ (fieldScalar quatRealTransc) f ctx q hit (Req.grains 0 2) 0 blk = .ok blk :=
  C02_line_no_grains_models_rotation_block_unchanged quatRealTransc quatReal_sqrtLaw real_eps_pos f ctx q hit (Req.grains 0 2) 0 blk
    blk_hyps.1 blk_hyps.2.1 blk_hyps.2.2.1 blk_hyps.2.2.2.1 blk_hyps.2.2.2.2

/-- the hypotheses `hc`, `hn` of `C10_grains_blend_between` have an instance (sections without grains models hand the block's grains on) -/
example (f : LineFeature ℝ) : ∃ g,
    @sectionGrains ℝ (fieldScalar quatRealTransc) f.isFault hit.pd (Req.grains 0 2).n hit.cur
      (@Grains.ofBlock ℝ (fieldScalar quatRealTransc) (Req.grains 0 2).k (readBlock 0 ((Req.grains 0 2).k * 10) blk)) = .ok g ∧
    @sectionGrains ℝ (fieldScalar quatRealTransc) f.isFault hit.pd (Req.grains 0 2).n hit.next
      (@Grains.ofBlock ℝ (fieldScalar quatRealTransc) (Req.grains 0 2).k (readBlock 0 ((Req.grains 0 2).k * 10) blk)) = .ok g :=
  ⟨_, @sectionGrains_nil ℝ (fieldScalar quatRealTransc) _ _ _ _ rfl _, @sectionGrains_nil ℝ (fieldScalar quatRealTransc) _ _ _ _ rfl _⟩

/-- two proper rotations whose quaternions are a quarter turn apart on the 3-sphere (`q1·q2 = 0`): the trigonometric branch of
`C10_grains_blend_between` / `C10_slerp_geodesic` is inhabited by matrices -/
theorem trig_pair : (idM ℝ).Rot ∧ (halfX ℝ).Rot ∧
    ¬ slerpC (@quatCast ℝ (fieldScalar quatRealTransc) (idM ℝ)) (@quatCast ℝ (fieldScalar quatRealTransc) (halfX ℝ))
        > 1 - quatRealTransc.eps := by
  refine ⟨idM_rot, halfX_rot, ?_⟩
  have hw : BranchW (idM ℝ) := by unfold BranchW idM; norm_num
  have hx : BranchX (halfX ℝ) := by unfold BranchX halfX; norm_num
  rw [quatCast_w _ _ hw, quatCast_x _ _ hx]
  have h0 : qdot (quatW quatRealTransc (idM ℝ)) (quatX quatRealTransc (halfX ℝ)) = 0 := by
    simp [qdot, quatW, quatX, idM, halfX]
  have hc : slerpC (quatW quatRealTransc (idM ℝ)) (quatX quatRealTransc (halfX ℝ)) = 0 := by
    unfold slerpC; rw [h0]; simp
  rw [hc]
  simp only [quatRealTransc]
  norm_num

/-- `C10_slerp_geodesic_angle` at work: `q1 = 1`, `q2 = i`, `θ = π/2`, `f = 1/3`: the blend is at `π/6` from `q1` and `π/3` from `q2` -/
example :
    qdot (@slerp ℝ (fieldScalar quatRealTransc) ⟨1, 0, 0, 0⟩ ⟨0, 1, 0, 0⟩ (1 / 3)) ⟨1, 0, 0, 0⟩ = Real.cos (1 / 3 * (Real.pi / 2))
    ∧ qdot (@slerp ℝ (fieldScalar quatRealTransc) ⟨1, 0, 0, 0⟩ ⟨0, 1, 0, 0⟩ (1 / 3)) ⟨0, 1, 0, 0⟩ = Real.cos ((1 - 1 / 3) * (Real.pi / 2)) := by
  have hd : qdot (⟨1, 0, 0, 0⟩ : Quat ℝ) ⟨0, 1, 0, 0⟩ = 0 := by simp [qdot]
  have := C10_slerp_geodesic_angle quatRealTransc quatReal_slerpLaws quatReal_acosLaws ⟨1, 0, 0, 0⟩ ⟨0, 1, 0, 0⟩ (1 / 3) (Real.pi / 2)
    (by simp [qnorm2]) (by simp [qnorm2]) (by positivity) (by show Real.pi / 2 ≤ Real.pi; linarith [Real.pi_pos])
    (by rw [hd]; exact Real.cos_pi_div_two.symm) (by rw [hd]) (by rw [hd]; simp only [quatRealTransc]; norm_num) (by norm_num) (by norm_num)
  exact ⟨this.1, this.2.1⟩

/-- the linear branch of `C10_slerp_geodesic_linear` is inhabited (`q1 = q2`) -/
example : qnorm2 (⟨1, 0, 0, 0⟩ : Quat ℝ) = 1 ∧ slerpC (⟨1, 0, 0, 0⟩ : Quat ℝ) ⟨1, 0, 0, 0⟩ > 1 - quatRealTransc.eps := by
  refine ⟨by simp [qnorm2], ?_⟩
  simp only [slerpC, qdot, quatRealTransc]; norm_num

end C10GrainsEx

end Gwb
