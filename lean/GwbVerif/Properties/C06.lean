/-
C06 — Slab and fault geometry equals the elementary construction for straight trenches.

Vocabulary (`Proofs/LineGeometry.lean`): `LineMember f ctx q h` is the readable membership specification (`lineInside` its range
tests, `Segment.thLocal / ttLocal / maxLenLocal` the interpolated thickness, top truncation and total length);
`lerpC a b t = a + t·(b − a)` is the code's interpolation; `segPre / segGeom / segClosest / segFinish` are the phases of one
iteration of the segment loop (`segmentStep_eq`: `segmentStep` is their composition); `lineEnd, lineOutside, lineDistance,
lineAlong` are the pieces of the straight branch, `arcRadius, arcCenter, arcEnd, arcCpa, arcAccept, arcDistance` those of the
circular branch; `segStates … k` is the loop state after `k` iterations; `alongDip b q θ = ⟨q − b, t⟩`, `belowDip b q θ = ⟨q − b, n⟩`
with `t = (cos θ, −sin θ)` (down dip) and `n = (−sin θ, −cos θ)` (below the surface).  Plane frame: x horizontal away from the
trench towards the dip-point side, y up.

Every `Scalar R` (no laws; in particular the `Float` instance that is diffed against the library):
* `C06_membership_iff`          `coversBody = ok (some h)` ⟺ `LineMember f ctx q h`;
  `C06_covers_iff_pretest`, `C06_covers_iff`  with the pre-test: for the un-culled feature `covers` additionally requires
                                `min depth ≤ depth ≤ max depth` and nothing else;
* `C06_distance_to_plane_same`  for a slab the public distance query returns exactly the two numbers of the membership test;
* `C06_segment_start`, `C06_segment_loop`  every piece starts where the previous one ended; the loop visits every segment once.

Ordered field `F` through `fieldScalar T`:
* `C06_only_positive`, `C06_distance_to_plane_fault`  (`0 ≤ T.inf`) the fault's `only_positive = true` call returns the result of the
                                public query's call with the distance replaced by its absolute value, nothing else changed;
* `C06_segment_walk`            (all interpolated lengths ≥ 1e-14) the running length after `k` pieces is the sum of the first `k`
                                interpolated lengths; `C06_equal_sections_constant`  equal tables ⟹ no dependence on the fraction;
* `C06_line_piece`              (`PlaneLaws T`) the straight piece: end point `b + len•t`, foot test `0 ≤ ⟨q−b,t⟩ ≤ len`,
                                `newAlong = ⟨q−b,t⟩`, `newDistance = ⟨q−b,n⟩` (positive below), reference depth;
* `C06_arc_piece_partial`       (`PlaneLaws T`) the circular piece: radius, begin and end point on the circle about `arcCenter`,
                                `|newDistance| = |radius − ‖q − center‖|`; `C06_arc_piece_full` (a `Prop`; refuted and replaced in `C06Arc.lean`) was the missing
                                `acos` bookkeeping;
* `C06_cartesian_frame`         (optional item) Cartesian systems, *assuming* the result of the closest-point routine: the plane
                                point is `(± horizontal distance from the trench, height)`, the walk starts at `(0, startRadius)`.
Satisfiability of every hypothesis set is shown next to the theorem (`Proofs/LineInstances.lean`: `real_planeLaws`,
`real_sqrtLaws`, a concrete straight trench evaluated by the kernel through the computable copy `ratToy` of the toy scalar).

NOT proved here: that the Bézier closest-point search returns the orthogonal foot (it is an input of `C06_cartesian_frame`); the
spherical frame; the gap between real and double arithmetic.  The sector bookkeeping of the circular branch is in `Properties/C06Arc.lean`:
`C06_arc_piece_full` as stated below is FALSE (`C06_arc_piece_full_false`: within ε of the arc's centre the code sets the angle to 0); the corrected
full-strength statements are `C06_arc_increasing_dip`, `C06_arc_decreasing_dip` and `C06_arc_foot_*` (every point of the plane outside the ε-disc and a
1e-14 rad sliver, `C06_arc_polar_exhaustive`).
Which piece wins when several accept the point (smallest `|distance|`, first wins ties) is proved for straight pieces in
`Properties/C06Walk.lean` (`C06_walk_selects_min`, `C06_walk_along_eq`), together with the characterisation of the wedge at a dip
jump that no piece accepts (`C06_walk_joint_gap`: recorded known finding `kink-wedge`).
-/
import GwbVerif.Proofs.LineInstances
namespace Gwb
open Scalar
set_option linter.unusedSectionVars false
set_option linter.unusedVariables false
set_option linter.unusedSimpArgs false

/-! ## every `Scalar` -/
section generic
variable {R : Type} [Scalar R]

/-- **C06** membership: everything after the depth / bounding-box pre-test succeeds with the hit `h` exactly when the geometry
call returned `h.pd`, that result is finite in the sense of the code, the two sections around the foot and their segment
`pd.segment` exist and are `h.cur`, `h.next`, the interpolated thickness is neither zero nor below the interpolated top
truncation, and — slab — `tt ≤ d ≤ th ∧ 0 ≤ a ≤ maxLen`, — fault — `|d| ≤ th/2 ∧ 0 < a ≤ maxLen` (`LineMember`, `lineInside`) -/
theorem C06_membership_iff (f : LineFeature R) (ctx : Ctx R) (q : Query R) (h : LineHit R) :
    f.coversBody ctx q = .ok (some h) ↔ LineMember f ctx q h := by
  cases hg : f.geometry ctx q f.isFault with
  | error e =>
    constructor
    · intro hc
      have hg' := hg
      unfold LineFeature.geometry LineFeature.startRadius at hg'
      unfold LineFeature.coversBody at hc
      simp only [hg', bind, Except.bind] at hc
      cases hc
    · intro hm
      have := hm.geometry
      rw [hg] at this
      cases this
  | ok pd =>
    rw [coversBody_after f ctx q pd h hg]
    constructor
    · exact fun hm => hm.2
    · intro hm
      refine ⟨?_, hm⟩
      have := hm.geometry
      rw [hg] at this
      injection this with this
      exact this.symm

/-- **C06** `covers` is the pre-test followed by the membership -/
theorem C06_covers_iff_pretest (f : LineFeature R) (ctx : Ctx R) (q : Query R) (h : LineHit R) :
    f.covers ctx q = .ok (some h) ↔ (f.preTest ctx q = .ok true ∧ LineMember f ctx q h) := by
  rw [← C06_membership_iff]
  unfold LineFeature.covers
  cases hp : f.preTest ctx q with
  | error e =>
    simp only [bind, Except.bind]
    constructor
    · intro hh; cases hh
    · rintro ⟨hh, _⟩; cases hh
  | ok b =>
    cases b
    · simp only [bind, Except.bind, Bool.not_false, if_true, pure, Except.pure]
      constructor
      · intro hh; cases hh
      · rintro ⟨hh, _⟩; cases hh
    · simp only [bind, Except.bind, Bool.not_true, Bool.false_eq_true, if_false, true_and]

theorem minBy_ok_of_ne_nil (xs : List R) (h : xs ≠ []) : ∃ v, minBy xs = .ok v := by
  cases xs with
  | nil => exact absurd rfl h
  | cons x rest => exact ⟨_, rfl⟩
theorem maxBy_ok_of_ne_nil (xs : List R) (h : xs ≠ []) : ∃ v, maxBy xs = .ok v := by
  cases xs with
  | nil => exact absurd rfl h
  | cons x rest => exact ⟨_, rfl⟩

/-- the bounding box exists as soon as the trench has a coordinate -/
theorem bbox_ok_of_coords (f : LineFeature R) (coord : CoordSys R) (hc : f.coords ≠ []) : ∃ b, f.bbox coord = .ok b := by
  have hx : f.coords.map (·.x) ≠ [] := by simpa using hc
  have hy : f.coords.map (·.y) ≠ [] := by simpa using hc
  obtain ⟨a, ha⟩ := minBy_ok_of_ne_nil _ hx
  obtain ⟨b, hb⟩ := maxBy_ok_of_ne_nil _ hx
  obtain ⟨c, hc'⟩ := minBy_ok_of_ne_nil _ hy
  obtain ⟨d, hd⟩ := maxBy_ok_of_ne_nil _ hy
  unfold LineFeature.bbox
  simp only [ha, hb, hc', hd, bind, Except.bind, pure, Except.pure]
  split <;> exact ⟨_, rfl⟩

/-- **C06** with the culling shortcuts off (`cull = false`, what the `GWB_VERIF` hook produces) a point is covered exactly when
`min depth ≤ depth ≤ max depth` and it is a member (`LineMember`); the trench has at least one coordinate -/
theorem C06_covers_iff (f : LineFeature R) (ctx : Ctx R) (q : Query R) (h : LineHit R) (hcull : f.cull = false) (hc : f.coords ≠ []) :
    f.covers ctx q = .ok (some h) ↔ ((q.depth ≤ f.maxDepth ∧ q.depth ≥ f.minDepth) ∧ LineMember f ctx q h) := by
  rw [C06_covers_iff_pretest]
  obtain ⟨b, hb⟩ := bbox_ok_of_coords f ctx.coord hc
  have hp : f.preTest ctx q = .ok (decide (q.depth ≤ f.maxDepth) && decide (q.depth ≥ f.minDepth)) := by
    unfold LineFeature.preTest
    simp only [hb, hcull, bind, Except.bind, pure, Except.pure, Bool.false_eq_true, if_false]
  rw [hp]
  simp only [Except.ok.injEq, Bool.and_eq_true, decide_eq_true_eq]

/-- **C06** for a slab the public `distance_to_feature_plane` query runs the very geometry call of the membership test (same
function, same arguments) and reports its two distances -/
theorem C06_distance_to_plane_same (f : LineFeature R) (ctx : Ctx R) (q : Query R) (hf : f.isFault = false) :
    f.distanceToPlane ctx q = (f.geometry ctx q f.isFault >>= fun pd => pure (pd.distanceFromPlane, pd.distanceAlongPlane)) ∧
    ∀ h, f.coversBody ctx q = .ok (some h) → f.distanceToPlane ctx q = .ok (h.pd.distanceFromPlane, h.pd.distanceAlongPlane) := by
  have h1 : f.distanceToPlane ctx q = (f.geometry ctx q f.isFault >>= fun pd => pure (pd.distanceFromPlane, pd.distanceAlongPlane)) := by
    rw [hf]; rfl
  refine ⟨h1, fun h hc => ?_⟩
  rw [h1, ((C06_membership_iff f ctx q h).1 hc).geometry]
  rfl

/-- **C06** every iteration of the segment loop starts where the previous one ended: after `segmentStep` the begin point of the
piece is the end point the incoming state carried (every `Scalar`, every branch, skipped segments included) -/
theorem C06_segment_start (dm : DepthMethod) (onlyPositive : Bool) (startRadius fraction : R) (check2d : P2 R)
    (angCur angNext : P2 R) (lenCur lenNext : R) (i : Nat) (s : SegState R) :
    (segmentStep dm onlyPositive startRadius fraction check2d angCur angNext lenCur lenNext i s).beginSeg = s.endSeg :=
  segmentStep_beginSeg dm onlyPositive startRadius fraction check2d angCur angNext lenCur lenNext i s

/-- **C06** the segment loop visits every segment of the current section once, in order: with tables at least as long as the
current section's length table it succeeds with the state `segStates … n` after `n = lensCur.length` iterations; the states are
chained (`segStates … (k+1)` is `segmentStep` number `k` applied to `segStates … k`, by definition) and each piece begins at the
end of the previous one -/
theorem C06_segment_loop (dm : DepthMethod) (onlyPositive : Bool) (startRadius fraction : R) (check2d : P2 R)
    (angsCur angsNext : List (P2 R)) (lensCur lensNext : List R) (s0 : SegState R)
    (h1 : lensCur.length ≤ angsCur.length) (h2 : lensCur.length ≤ angsNext.length) (h3 : lensCur.length ≤ lensNext.length) :
    segmentLoop dm onlyPositive startRadius fraction check2d angsCur angsNext lensCur lensNext (lensCur.length + 1) 0 s0 =
      .ok (segStates dm onlyPositive startRadius fraction check2d angsCur angsNext lensCur lensNext s0 lensCur.length) ∧
    segStates dm onlyPositive startRadius fraction check2d angsCur angsNext lensCur lensNext s0 0 = s0 ∧
    ∀ k, (segStates dm onlyPositive startRadius fraction check2d angsCur angsNext lensCur lensNext s0 (k + 1)).beginSeg =
      (segStates dm onlyPositive startRadius fraction check2d angsCur angsNext lensCur lensNext s0 k).endSeg :=
  ⟨segmentLoop_states dm onlyPositive startRadius fraction check2d angsCur angsNext lensCur lensNext s0 h1 h2 h3
      (lensCur.length + 1) 0 (Nat.zero_le _) (by omega),
   rfl, fun k => segmentStep_beginSeg _ _ _ _ _ _ _ _ _ _ _⟩

example : ([1, 2] : List Nat).length ≤ ([(1, 1), (2, 2)] : List (Nat × Nat)).length := by decide

end generic

/-! ### the hypotheses of the theorems above are satisfiable (concrete straight trench `exLine`, `Proofs/LineInstances.lean`) -/

/-- a member exists: the point on the trench at min depth, for the slab `exLine false` (culling off, two trench coordinates), is
covered — so by `C06_covers_iff` it satisfies the depth test and `LineMember` — and `C06_distance_to_plane_same` applies to it -/
example : ∃ h, (exQ0.depth ≤ (exLine false).maxDepth ∧ exQ0.depth ≥ (exLine false).minDepth) ∧
    @LineMember ℚ ratToy (exLine false) exCtx exQ0 h ∧
    @LineFeature.distanceToPlane ℚ ratToy (exLine false) exCtx exQ0 = .ok (h.pd.distanceFromPlane, h.pd.distanceAlongPlane) := by
  obtain ⟨h, hc, _⟩ := ex_slab_member
  have hm := (@C06_covers_iff ℚ ratToy (exLine false) exCtx exQ0 h rfl (by simp [exLine])).1 hc
  exact ⟨h, hm.1, hm.2,
    (@C06_distance_to_plane_same ℚ ratToy (exLine false) exCtx exQ0 rfl).2 h ((@C06_membership_iff ℚ ratToy _ _ _ h).2 hm.2)⟩

/-! ## ordered fields -/
section field
variable {F : Type} [Field F] [LinearOrder F] [IsStrictOrderedRing F]

/-- **C06** `only_positive`: over an ordered field with `0 ≤ ∞`, the geometry call with `only_positive = true` (the fault's) returns
the result of the call with `false` (the public query's) with the signed distance replaced by its absolute value and *nothing
else* changed — same distance along the surface, section, segment, fractions, average angle, reference depth, trench point; and it
fails exactly when the other fails, with the same error.  (Proof: the two runs of the segment loop stay related by
`SegState.absD`, the "closest so far" test compares `|new|` with `|old|` in both.) -/
theorem C06_only_positive (T : Transc F) (h0 : 0 ≤ T.inf) (f : LineFeature F) (ctx : Ctx F) (q : Query F) :
    @LineFeature.geometry F (fieldScalar T) f ctx q true =
      Except.map PlaneDist.absD (@LineFeature.geometry F (fieldScalar T) f ctx q false) := by
  unfold LineFeature.geometry
  exact dpfcp_absD T h0 _ _ _ _ _ _ _ _ _

/-- **C06** for a fault the two numbers of the public `distance_to_feature_plane` query are the signed version of the ones the
membership test used: same distance along the plane, and the membership distance is the absolute value of the reported one -/
theorem C06_distance_to_plane_fault (T : Transc F) (h0 : 0 ≤ T.inf) (f : LineFeature F) (ctx : Ctx F) (q : Query F) (hf : f.isFault = true)
    (h : LineHit F) (hc : @LineFeature.coversBody F (fieldScalar T) f ctx q = .ok (some h)) :
    ∃ d, @LineFeature.distanceToPlane F (fieldScalar T) f ctx q = .ok (d, h.pd.distanceAlongPlane) ∧ h.pd.distanceFromPlane = |d| := by
  have hg := @LineMember.geometry F (fieldScalar T) _ _ _ _ ((@C06_membership_iff F (fieldScalar T) f ctx q h).1 hc)
  rw [hf, C06_only_positive T h0] at hg
  have h1 : @LineFeature.distanceToPlane F (fieldScalar T) f ctx q =
      (@LineFeature.geometry F (fieldScalar T) f ctx q false >>= fun pd => pure (pd.distanceFromPlane, pd.distanceAlongPlane)) := rfl
  cases hg2 : @LineFeature.geometry F (fieldScalar T) f ctx q false with
  | error e => rw [hg2] at hg; cases hg
  | ok pd =>
    rw [hg2] at hg
    have hpd : pd.absD = h.pd := by
      injection hg
    refine ⟨pd.distanceFromPlane, ?_, ?_⟩
    · rw [h1, hg2, ← hpd]; rfl
    · rw [← hpd]; rfl

/-- the hypotheses of `C06_distance_to_plane_fault` are satisfiable: the fault `exLine true` covers the point straight below its
trench (toy libm over `ℚ`), and the public query then reports a signed distance with that absolute value -/
example : ∃ (h : LineHit ℚ) (d : ℚ), @LineFeature.distanceToPlane ℚ (fieldScalar toyTransc) (exLine true) exCtx exQ1 = .ok (d, h.pd.distanceAlongPlane) ∧
    h.pd.distanceFromPlane = |d| := by
  obtain ⟨h, hc, _⟩ := ex_fault_member
  obtain ⟨d, hd⟩ := C06_distance_to_plane_fault toyTransc (by norm_num [toyTransc]) (exLine true) exCtx exQ1 rfl h hc
  exact ⟨h, d, hd⟩

/-- the hypothesis `0 ≤ ∞` is satisfiable -/
example : (0 : ℚ) ≤ toyTransc.inf ∧ (0 : ℝ) ≤ realTransc.inf := by
  constructor <;> norm_num [toyTransc, realTransc]

/-- **C06** the walk along the surface: when every interpolated segment length `a + fraction·(b − a)` is at least `1e-14` (so no
segment is skipped), after `k` iterations the running length is the initial one (0 in the code) plus the sum of the first `k`
interpolated lengths; in particular after the loop it is the sum of all of them.  Together with `C06_segment_loop` (each piece
starts where the previous ended) and `C06_line_piece` / `C06_arc_piece_partial` (what a piece is) this is the planar
construction "segment after segment" -/
theorem C06_segment_walk (T : Transc F) (dm : DepthMethod) (onlyPositive : Bool) (startRadius fraction : F) (check2d : P2 F)
    (angsCur angsNext : List (P2 F)) (lensCur lensNext : List F) (s0 : SegState F)
    (h1 : lensCur.length ≤ angsCur.length) (h2 : lensCur.length ≤ angsNext.length) (h3 : lensCur.length ≤ lensNext.length)
    (hlen : ∀ l ∈ segLens lensCur lensNext fraction, (1 : F) / 10 ^ 14 ≤ l) :
    (∀ k, k ≤ lensCur.length →
      (@segStates F (fieldScalar T) dm onlyPositive startRadius fraction check2d angsCur angsNext lensCur lensNext s0 k).totalLength =
        s0.totalLength + ((segLens lensCur lensNext fraction).take k).sum) ∧
    ∃ s, @segmentLoop F (fieldScalar T) dm onlyPositive startRadius fraction check2d angsCur angsNext lensCur lensNext
        (lensCur.length + 1) 0 s0 = .ok s ∧
      s.totalLength = s0.totalLength + (segLens lensCur lensNext fraction).sum := by
  refine ⟨fun k hk => segStates_totalLength T dm onlyPositive startRadius fraction check2d angsCur angsNext lensCur lensNext s0 h3 hlen k hk,
    _, (@C06_segment_loop F (fieldScalar T) dm onlyPositive startRadius fraction check2d angsCur angsNext lensCur lensNext s0 h1 h2 h3).1, ?_⟩
  rw [segStates_totalLength T dm onlyPositive startRadius fraction check2d angsCur angsNext lensCur lensNext s0 h3 hlen _ le_rfl]
  congr 2
  apply List.take_of_length_le
  unfold segLens
  rw [List.length_zipWith]
  omega

/-- the hypotheses of `C06_segment_walk` are satisfiable: two segments of 100 and 200 km in one section, 150 and 250 km in the
next, half-way between the sections: interpolated lengths 125 and 225 km -/
example : segLens ([100000, 200000] : List ℚ) [150000, 250000] (1 / 2) = [125000, 225000] ∧
    ∀ l ∈ segLens ([100000, 200000] : List ℚ) [150000, 250000] (1 / 2), (1 : ℚ) / 10 ^ 14 ≤ l := by
  have h : segLens ([100000, 200000] : List ℚ) [150000, 250000] (1 / 2) = [125000, 225000] := by
    simp only [segLens, List.zipWith_cons_cons, List.zipWith_nil_right]
    norm_num
  refine ⟨h, ?_⟩
  rw [h]
  intro l hl
  simp only [List.mem_cons, List.not_mem_nil, or_false] at hl
  rcases hl with rfl | rfl <;> norm_num

/-- **C06** equal sections: when the two sections around the foot carry the same tables (same dips, same lengths, same
thickness and top truncation — the "segments are the same at every coordinate" case), every interpolation
`a + fraction·(b − a)` the geometry and the membership test use returns `a`: one iteration of the loop, hence the whole loop, does
not depend on the section fraction, and the local thickness / top truncation / total length are those of the (one) section -/
theorem C06_equal_sections_constant (T : Transc F) :
    (∀ a t : F, @lerpC F (fieldScalar T) a a t = a) ∧
    (∀ (dm : DepthMethod) (onlyPositive : Bool) (startRadius fr fr' : F) (check2d a : P2 F) (l : F) (i : Nat) (s : SegState F),
      @segmentStep F (fieldScalar T) dm onlyPositive startRadius fr check2d a a l l i s =
        @segmentStep F (fieldScalar T) dm onlyPositive startRadius fr' check2d a a l l i s) ∧
    (∀ (dm : DepthMethod) (onlyPositive : Bool) (startRadius fr fr' : F) (check2d : P2 F) (angs : List (P2 F)) (lens : List F)
        (fuel i : Nat) (s : SegState F),
      @segmentLoop F (fieldScalar T) dm onlyPositive startRadius fr check2d angs angs lens lens fuel i s =
        @segmentLoop F (fieldScalar T) dm onlyPositive startRadius fr' check2d angs angs lens lens fuel i s) ∧
    (∀ (cur : Segment F) (sf gf : F),
      @Segment.thLocal F (fieldScalar T) cur cur sf gf = cur.thickness.x + gf * (cur.thickness.y - cur.thickness.x) ∧
      @Segment.ttLocal F (fieldScalar T) cur cur sf gf = cur.topTruncation.x + gf * (cur.topTruncation.y - cur.topTruncation.x)) ∧
    (∀ (sec : List (Segment F)) (sf : F), @maxLenLocal F (fieldScalar T) sec sec sf = @sectionLength F (fieldScalar T) sec) :=
  ⟨lerpC_self T, segmentStep_equal_sections T, segmentLoop_equal_sections T,
   fun cur sf gf => ⟨thLocal_equal T cur sf gf, ttLocal_equal T cur sf gf⟩, maxLenLocal_equal T⟩

/-! ### the pieces (libm laws: `PlaneLaws`) -/

/-- **C06** the straight piece.  Setting: one iteration of the segment loop whose interpolated dips agree to `1e-8`
(`θ` = dip at the top), whose interpolated length `len` exceeds `ε` and is not skipped; `b` = end of the previous piece
(the incoming `endSeg`), `q = check2d` in the frame "x horizontal away from the trench towards the dip-point side, y up";
`t = (cos θ, −sin θ)` the unit tangent pointing down dip, `n = (−sin θ, −cos θ)` the unit normal pointing *below* the surface
(`t` turned clockwise by a right angle).  Then
* the piece begins at `b` and ends at `b + len • t`;
* the foot test: the code accepts the point iff `0 ≤ ⟨q − b, t⟩ ≤ len` (`alongDip`), otherwise it stores `+∞` three times;
* accepted: `newAlong = ⟨q − b, t⟩`, `newDistance = ⟨q − b, n⟩` (`belowDip`, positive = below the surface — this is the side the
  code's `side` test gives — and equal to the cross product `(q − b) × t`, `belowDip_eq_cross`), and the reference depth is
  `startRadius − (b + ⟨q − b, t⟩ • t).y` -/
theorem C06_line_piece (T : Transc F) (L : PlaneLaws T) (dm : DepthMethod) (onlyPositive : Bool) (startRadius fraction : F) (check2d : P2 F)
    (angCur angNext : P2 F) (lenCur lenNext : F) (i : Nat) (s : SegState F) :
    let s1 := @segPre F (fieldScalar T) dm i s
    let θ := @segAngTop F (fieldScalar T) dm fraction angCur angNext i s1
    let β := @segAngBot F (fieldScalar T) fraction angCur angNext s1
    let len := lenCur + fraction * (lenNext - lenCur)
    let b := s.endSeg
    let r := @segmentStep F (fieldScalar T) dm onlyPositive startRadius fraction check2d angCur angNext lenCur lenNext i s
    |θ - β| < 1 / 10 ^ 8 → T.eps < |len| → 1 / 10 ^ 14 ≤ len →
      r.beginSeg = b ∧ r.endSeg = ⟨b.x + len * T.cos θ, b.y - len * T.sin θ⟩ ∧
      ((0 ≤ alongDip T b check2d θ ∧ alongDip T b check2d θ ≤ len) →
        r.newAlong = alongDip T b check2d θ ∧ r.newDistance = belowDip T b check2d θ ∧
        |r.newDistance| = |(check2d.x - b.x) * (-T.sin θ) - (check2d.y - b.y) * T.cos θ| ∧
        r.newDepthRef = startRadius - (b.y - alongDip T b check2d θ * T.sin θ)) ∧
      (¬ (0 ≤ alongDip T b check2d θ ∧ alongDip T b check2d θ ≤ len) →
        r.newAlong = T.inf ∧ r.newDistance = T.inf ∧ r.newDepthRef = T.inf) := by
  intro s1 θ β len b r hstraight heps hlen
  have hpos : 0 < len := lt_of_lt_of_le (by positivity) hlen
  have hnot : ¬ @LT.lt F (fieldScalar T).toLT (@lerpC F (fieldScalar T) lenCur lenNext fraction)
      (@OfScientific.ofScientific F (@Scalar.instOfScientific F (fieldScalar T)) 1 true 14) := by
    rw [lit_1em14]; exact not_lt.mpr hlen
  obtain ⟨g1, g2, g3, g4, g5⟩ := @segmentStep_geom F (fieldScalar T) dm onlyPositive startRadius fraction check2d angCur angNext lenCur lenNext i s hnot
  have hb : s1.beginSeg = s1.endSeg := by
    show (@segPre F (fieldScalar T) dm i s).beginSeg = (@segPre F (fieldScalar T) dm i s).endSeg
    rw [@segPre_beginSeg F (fieldScalar T), @segPre_endSeg F (fieldScalar T)]
  have he : s1.endSeg = b := @segPre_endSeg F (fieldScalar T) dm i s
  obtain ⟨k1, k2, k3, k4⟩ := segGeom_straight T L startRadius check2d θ β len s1 hb hstraight heps hpos
  rw [he] at k1 k2 k3 k4
  refine ⟨g1.trans k1, g2.trans k2, fun hin => ?_, fun hout => ?_⟩
  · obtain ⟨a1, a2, a3⟩ := k3 hin
    refine ⟨g3.trans a1, g4.trans a2, ?_, g5.trans a3⟩
    rw [g4.trans a2, belowDip_eq_cross]
  · obtain ⟨a1, a2, a3⟩ := k4 hout
    exact ⟨g3.trans a1, g4.trans a2, g5.trans a3⟩

/-- the numeric hypotheses of `C06_line_piece` are satisfiable: first segment, no angle correction, dips 1 rad at the top and the
bottom in both sections, lengths 100 km -/
example (s : SegState ℝ) (h0 : s.addAngle = 0) :
    let s1 := @segPre ℝ (fieldScalar realTransc) .none 0 s
    |@segAngTop ℝ (fieldScalar realTransc) .none (1 / 2) ⟨1, 1⟩ ⟨1, 1⟩ 0 s1 - @segAngBot ℝ (fieldScalar realTransc) (1 / 2) ⟨1, 1⟩ ⟨1, 1⟩ s1|
      < 1 / 10 ^ 8 ∧ realTransc.eps < |(100000 : ℝ) + 1 / 2 * (100000 - 100000)| ∧
      (1 : ℝ) / 10 ^ 14 ≤ 100000 + 1 / 2 * (100000 - 100000) := by
  intro s1
  have ha : s1.addAngle = 0 := h0
  refine ⟨?_, ?_, ?_⟩
  · have : @segAngTop ℝ (fieldScalar realTransc) .none (1 / 2) ⟨1, 1⟩ ⟨1, 1⟩ 0 s1 -
        @segAngBot ℝ (fieldScalar realTransc) (1 / 2) ⟨1, 1⟩ ⟨1, 1⟩ s1 = 0 := by
      show ((1 : ℝ) + 1 / 2 * (1 - 1) + s1.addAngle + ((0 : ℕ) : ℝ)) - (1 + 1 / 2 * (1 - 1) + s1.addAngle) = 0
      rw [ha]; norm_num
    rw [this]; norm_num
  · norm_num [realTransc]
  · norm_num

/-- **C06** the circular piece (partial).  Setting: one iteration whose interpolated dips differ by at least `1e-8`
(`diff = θ − β`), not skipped; `b` = end of the previous piece, `radius = arcRadius len diff`, `center = arcCenter b θ diff radius`.
Then `radius = |len / (θ − β)|`; the piece begins at `b` and ends at `arcEnd b center diff`; both lie on the circle about
`center` with that radius (the end point is the begin point turned about the centre by `diff`); and when the sector test
`arcAccept` passes, the stored distance is `arcDistance` with `|newDistance| = |radius − ‖q − center‖|`; when it fails the stored
distance and along-value are left as they were.  In the generic sub-branch (`θ` not within `1e-8` of `π/2`, `3π/2`) this needs
`cos θ ≠ 0`.
NOT proved (not required by the brief): the `acos` bookkeeping — which angles the sector test accepts, that
`newAlong = radius·(angle travelled)`, the sign convention of `newDistance`, and the reference depth of the circular branch. -/
theorem C06_arc_piece_partial (T : Transc F) (L : PlaneLaws T) (dm : DepthMethod) (onlyPositive : Bool) (startRadius fraction : F) (check2d : P2 F)
    (angCur angNext : P2 F) (lenCur lenNext : F) (i : Nat) (s : SegState F) :
    let s1 := @segPre F (fieldScalar T) dm i s
    let θ := @segAngTop F (fieldScalar T) dm fraction angCur angNext i s1
    let β := @segAngBot F (fieldScalar T) fraction angCur angNext s1
    let len := lenCur + fraction * (lenNext - lenCur)
    let b := s.endSeg
    let radius := @arcRadius F (fieldScalar T) len (θ - β)
    let center := @arcCenter F (fieldScalar T) b θ (θ - β) radius
    let nrm := fun a : P2 F => T.sqrt (a.x * a.x + a.y * a.y)
    let r := @segmentStep F (fieldScalar T) dm onlyPositive startRadius fraction check2d angCur angNext lenCur lenNext i s
    ¬ |θ - β| < 1 / 10 ^ 8 → 1 / 10 ^ 14 ≤ len →
    (¬ |θ - 1 / 2 * T.pi| < 1 / 10 ^ 8 → ¬ |θ - 3 / 2 * T.pi| < 1 / 10 ^ 8 → T.cos θ ≠ 0) →
      radius = |len / (θ - β)| ∧
      r.beginSeg = b ∧ r.endSeg = @arcEnd F (fieldScalar T) b center (θ - β) ∧
      nrm ⟨b.x - center.x, b.y - center.y⟩ = radius ∧
      nrm ⟨r.endSeg.x - center.x, r.endSeg.y - center.y⟩ = radius ∧
      (@arcAccept F (fieldScalar T) (θ - β) (@arcCpa F (fieldScalar T) check2d center radius (θ - β)) θ β →
        r.newDistance = @arcDistance F (fieldScalar T) check2d center radius (θ - β) ∧
        |r.newDistance| = |radius - nrm ⟨check2d.x - center.x, check2d.y - center.y⟩|) ∧
      (¬ @arcAccept F (fieldScalar T) (θ - β) (@arcCpa F (fieldScalar T) check2d center radius (θ - β)) θ β →
        r.newDistance = T.inf ∧ r.newAlong = T.inf) := by
  intro s1 θ β len b radius center nrm r harc hlen hcos
  have hnot : ¬ @LT.lt F (fieldScalar T).toLT (@lerpC F (fieldScalar T) lenCur lenNext fraction)
      (@OfScientific.ofScientific F (@Scalar.instOfScientific F (fieldScalar T)) 1 true 14) := by
    rw [lit_1em14]; exact not_lt.mpr hlen
  obtain ⟨g1, g2, g3, g4, g5⟩ := @segmentStep_geom F (fieldScalar T) dm onlyPositive startRadius fraction check2d angCur angNext lenCur lenNext i s hnot
  have hbs : s1.beginSeg = b := @segPre_beginSeg F (fieldScalar T) dm i s
  have hga := segGeom_arc T startRadius check2d θ β len s1 harc
  have hrad : radius = |len / (θ - β)| := arcRadius_field T len (θ - β)
  have hrad0 : |radius| = radius := by rw [hrad, abs_abs]
  have hend : r.endSeg = @arcEnd F (fieldScalar T) b center (θ - β) := by
    refine g2.trans ?_
    show (@segGeom F (fieldScalar T) startRadius check2d θ β len s1).endSeg = _
    rw [hga, @segArc_endSeg F (fieldScalar T), hbs]
  have hd1 : nrm ⟨b.x - center.x, b.y - center.y⟩ = radius := by
    have := arcCenter_dist T L b θ (θ - β) radius hcos
    rw [hrad0] at this
    exact this
  obtain ⟨q1, q2⟩ := segArc_newDistance T startRadius check2d θ β len s1
  rw [hbs] at q1 q2
  refine ⟨hrad, ?_, hend, hd1, ?_, fun hacc => ?_, fun hrej => ?_⟩
  · refine g1.trans ?_
    show (@segGeom F (fieldScalar T) startRadius check2d θ β len s1).beginSeg = _
    rw [@segGeom_beginSeg F (fieldScalar T), hbs]
  · rw [hend]
    exact (arcEnd_dist T L b center (θ - β)).trans hd1
  · have hnd : r.newDistance = @arcDistance F (fieldScalar T) check2d center radius (θ - β) := by
      refine g4.trans ?_
      show (@segGeom F (fieldScalar T) startRadius check2d θ β len s1).newDistance = _
      rw [hga]; exact q1 hacc
    refine ⟨hnd, ?_⟩
    rw [hnd]
    exact arcDistance_abs T check2d center radius (θ - β)
  · obtain ⟨u1, u2⟩ := q2 hrej
    constructor
    · refine g4.trans ?_
      show (@segGeom F (fieldScalar T) startRadius check2d θ β len s1).newDistance = _
      rw [hga, u1]
    · refine g3.trans ?_
      show (@segGeom F (fieldScalar T) startRadius check2d θ β len s1).newAlong = _
      rw [hga, u2]

/-- **C06** (first full statement for the circular piece; REFUTED in `Properties/C06Arc.lean`, which also proves the corrected statements): when the sector test accepts the point, the stored
along-value `a` is the arc length from the begin point `b` to the foot of `q` on the circle — i.e. turning `b` about the centre
by the angle `(θ − β)·a/len` (the turn that takes `b` to the end point when `a = len`) gives a point `foot` such that `q` lies on
the ray from the centre through `foot` — and the stored distance is `radius − ‖q − center‖` for a dip increasing downwards
(`θ − β < 0`, centre below the surface) and `‖q − center‖ − radius` otherwise (positive = below the surface).  The second half is
`C06_arc_piece_partial` (`arcDistance`); the first half needs laws of `acos` / `cos` that are not assumed here. -/
def C06_arc_piece_full (T : Transc F) : Prop :=
  ∀ (dm : DepthMethod) (onlyPositive : Bool) (startRadius fraction : F) (check2d : P2 F) (angCur angNext : P2 F) (lenCur lenNext : F)
    (i : Nat) (s : SegState F),
    let s1 := @segPre F (fieldScalar T) dm i s
    let θ := @segAngTop F (fieldScalar T) dm fraction angCur angNext i s1
    let β := @segAngBot F (fieldScalar T) fraction angCur angNext s1
    let len := lenCur + fraction * (lenNext - lenCur)
    let b := s.endSeg
    let radius := @arcRadius F (fieldScalar T) len (θ - β)
    let center := @arcCenter F (fieldScalar T) b θ (θ - β) radius
    let r := @segmentStep F (fieldScalar T) dm onlyPositive startRadius fraction check2d angCur angNext lenCur lenNext i s
    ¬ |θ - β| < 1 / 10 ^ 8 → 1 / 10 ^ 14 ≤ len →
    @arcAccept F (fieldScalar T) (θ - β) (@arcCpa F (fieldScalar T) check2d center radius (θ - β)) θ β →
      let φ := (θ - β) * r.newAlong / len
      let foot : P2 F := ⟨T.cos φ * (b.x - center.x) - T.sin φ * (b.y - center.y) + center.x,
                          T.sin φ * (b.x - center.x) + T.cos φ * (b.y - center.y) + center.y⟩
      (∃ μ : F, 0 ≤ μ ∧ check2d.x - center.x = μ * (foot.x - center.x) ∧ check2d.y - center.y = μ * (foot.y - center.y)) ∧
      r.newDistance = (if θ - β < 0 then radius - T.sqrt ((check2d.x - center.x) * (check2d.x - center.x) + (check2d.y - center.y) * (check2d.y - center.y))
                       else T.sqrt ((check2d.x - center.x) * (check2d.x - center.x) + (check2d.y - center.y) * (check2d.y - center.y)) - radius)

/-- the hypotheses of `C06_arc_piece_partial` are satisfiable over `ℝ` with the real functions: dip 0.5 rad at the top, 1 rad at the
bottom (`cos 0.5 ≠ 0`) -/
example : PlaneLaws realTransc ∧ ¬ |(1 / 2 : ℝ) - 1| < 1 / 10 ^ 8 ∧ (1 : ℝ) / 10 ^ 14 ≤ 100000 ∧ realTransc.cos (1 / 2) ≠ 0 := by
  refine ⟨real_planeLaws, by norm_num [abs_lt], by norm_num, ?_⟩
  show Real.cos (1 / 2) ≠ 0
  apply ne_of_gt
  apply Real.cos_pos_of_mem_Ioo
  constructor
  · have := Real.pi_pos; linarith
  · have := Real.two_le_pi; linarith

/-! ### the Cartesian frame (optional item: assuming what the closest-point routine returned) -/

/-- **C06** the vertical plane of the construction, Cartesian systems.  *Assume* the closest-point routine returned `cp` (foot
`cp.point` on the trench, curve normal `cp.normal`, section `cp.index`, fraction `cp.fraction`) — nothing is proved here about
that routine.  Let the check point be `(nat.x, nat.y, z)`, at horizontal distance `dist = ‖(nat.x, nat.y) − cp.point‖ ≥ 2e-14`
from the foot, `startRadius > 0`, and the dip point not at the foot; of `sqrt` only `√(startRadius²) = startRadius` and
`dist·dist = dist²` are used (`hS1`, `hS2`; both follow from `SqrtLaws`, see `SqrtLaws.frame`).  Then the geometry call is the segment loop started at
`begin0 = (0, startRadius)` — on the trench, at the height of the feature's min depth — for the plane point
`check2d = (σ·dist, z)`: horizontal offset from the trench and height above the bottom, where `σ = +1` exactly when "the check
point lies against the curve normal" and "the dip point lies to the right of the trench direction `pLast − pFirst`" are not both
true or both false (for the right-hand normal of the trench direction: exactly when the check point is on the dip-point side) -/
theorem C06_cartesian_frame (T : Transc F) (coord : CoordSys F) (hs : coord.spherical = false) (nat : P3 F) (z : F)
    (reference : P2 F) (pointList : List (P2 F)) (lengths : List (List F)) (angles : List (List (P2 F))) (startRadius : F)
    (onlyPositive : Bool) (bz : Bezier F) (cp : ClosestPoint F)
    (hcp : @Bezier.closestPoint F (fieldScalar T) bz false ⟨nat.x, nat.y⟩ = .ok (some cp))
    (angsCur angsNext : List (P2 F)) (lensCur lensNext : List F) (pFirst pLast : P2 F)
    (h1 : idx angles cp.index = .ok angsCur) (h2 : idx angles (cp.index + 1) = .ok angsNext)
    (h3 : idx lengths cp.index = .ok lensCur) (h4 : idx lengths (cp.index + 1) = .ok lensNext)
    (h5 : idx pointList 0 = .ok pFirst) (h6 : idx pointList (pointList.length - 1) = .ok pLast)
    (hsr : 0 < startRadius) (hS1 : T.sqrt (startRadius * startRadius) = startRadius)
    (hS2 : T.sqrt ((nat.x - cp.point.x) * (nat.x - cp.point.x) + (nat.y - cp.point.y) * (nat.y - cp.point.y)) *
        T.sqrt ((nat.x - cp.point.x) * (nat.x - cp.point.x) + (nat.y - cp.point.y) * (nat.y - cp.point.y)) =
      (nat.x - cp.point.x) * (nat.x - cp.point.x) + (nat.y - cp.point.y) * (nat.y - cp.point.y))
    (hoff : 2 / 10 ^ 14 ≤ T.sqrt ((nat.x - cp.point.x) * (nat.x - cp.point.x) + (nat.y - cp.point.y) * (nat.y - cp.point.y)))
    (hd : 0 < @P2.distanceTo F (fieldScalar T) false cp.point reference) :
    let dist := T.sqrt ((nat.x - cp.point.x) * (nat.x - cp.point.x) + (nat.y - cp.point.y) * (nat.y - cp.point.y))
    let σ : F := if (decide ((nat.x - cp.point.x) * cp.normal.x + (nat.y - cp.point.y) * cp.normal.y < 0) ==
        decide ((pLast.x - pFirst.x) * (reference.y - pFirst.y) - (reference.x - pFirst.x) * (pLast.y - pFirst.y) < 0)) then -1 else 1
    let check2d : P2 F := ⟨σ * dist, z⟩
    let begin0 : P2 F := ⟨0, startRadius⟩
    @distancePointFromCurvedPlanes F (fieldScalar T) coord ⟨nat.x, nat.y, z⟩ nat reference pointList lengths angles startRadius onlyPositive bz =
      (do
        let s ← @segmentLoop F (fieldScalar T) coord.depthMethod onlyPositive startRadius cp.fraction check2d angsCur angsNext lensCur lensNext
          (lensCur.length + 1) 0
          { distance := T.inf, newDistance := T.inf, along := T.inf, newAlong := T.inf, newDepthRef := T.inf,
            segment := 0, segmentFraction := 0, totalAverageAngle := 0, depthRef := 0,
            beginSeg := begin0, endSeg := begin0, totalLength := 0, addAngle := 0, addAngleCorrection := 0, averageAngle := 0, found := false }
        pure { distanceFromPlane := s.distance, distanceAlongPlane := s.along,
               fractionOfSection := if s.found then cp.fraction else 0, fractionOfSegment := s.segmentFraction,
               sectionIdx := if s.found then cp.index else 0, segment := s.segment, averageAngle := s.totalAverageAngle,
               depthReferenceSurface := s.depthRef, closestTrenchPoint := ⟨cp.point.x, cp.point.y, startRadius⟩ }) := by
  intro dist σ check2d begin0
  have hdpos : 0 < dist := lt_of_lt_of_le (by positivity) hoff
  have hoff' : ¬ @LT.lt F (fieldScalar T).toLT (@fabs F (fieldScalar T) (@P3.norm F (fieldScalar T)
      (@HSub.hSub (P3 F) (P3 F) (P3 F) (@instHSub (P3 F) (@P3.instSub F (fieldScalar T))) (⟨nat.x, nat.y, startRadius⟩ : P3 F)
        ⟨cp.point.x, cp.point.y, startRadius⟩)))
      (@OfScientific.ofScientific F (@Scalar.instOfScientific F (fieldScalar T)) 2 true 14) := by
    have hl : @OfScientific.ofScientific F (@Scalar.instOfScientific F (fieldScalar T)) 2 true 14 = (2 : F) / 10 ^ 14 := by
      rw [lit_sci]; norm_num
    rw [fabs_eq_abs, hl]
    show ¬ |T.sqrt ((nat.x - cp.point.x) * (nat.x - cp.point.x) + (nat.y - cp.point.y) * (nat.y - cp.point.y) +
      (startRadius - startRadius) * (startRadius - startRadius))| < _
    have hr : (nat.x - cp.point.x) * (nat.x - cp.point.x) + (nat.y - cp.point.y) * (nat.y - cp.point.y) +
        (startRadius - startRadius) * (startRadius - startRadius) =
        (nat.x - cp.point.x) * (nat.x - cp.point.x) + (nat.y - cp.point.y) * (nat.y - cp.point.y) := by ring
    rw [hr, abs_of_pos hdpos]
    exact not_lt.mpr hoff
  rw [@dpfcp_cartesian F (fieldScalar T) coord hs ⟨nat.x, nat.y, z⟩ nat reference pointList lengths angles startRadius onlyPositive bz cp hcp hoff'
    angsCur angsNext lensCur lensNext pFirst pLast h1 h2 h3 h4 h5 h6]
  obtain ⟨_, _, hb, hc⟩ := cartAxes_field T nat startRadius cp.point
    (@cartSide F (fieldScalar T) reference pFirst pLast cp.point cp.normal ⟨nat.x, nat.y⟩) z hsr hS1 hS2 hdpos
  dsimp only
  rw [hb, hc, cartSide_field T reference pFirst pLast cp.point cp.normal ⟨nat.x, nat.y⟩ hd]
  have hσ : -(if (decide ((nat.x - cp.point.x) * cp.normal.x + (nat.y - cp.point.y) * cp.normal.y < 0) ==
        decide ((pLast.x - pFirst.x) * (reference.y - pFirst.y) - (reference.x - pFirst.x) * (pLast.y - pFirst.y) < 0)) then (1 : F) else -1) = σ := by
    show _ = (if _ then _ else _)
    split <;> simp
  rw [hσ]
  simp only [lit_0_0]
  rfl

/-- the hypotheses of `C06_cartesian_frame` are jointly satisfiable (toy libm over `ℚ`, `sqrt = id`, so unit lengths): the straight
trench of `exLine`, check point `(1, 3/2, 1/2)`, `startRadius = 1` -/
example : ∃ (cp : ClosestPoint ℚ),
    @Bezier.closestPoint ℚ (fieldScalar toyTransc) (exLine false).bezier false ⟨1, 3 / 2⟩ = .ok (some cp) ∧
    idx ([[⟨1, 1⟩], [⟨1, 1⟩]] : List (List (P2 ℚ))) cp.index = .ok [⟨1, 1⟩] ∧
    idx ([[⟨1, 1⟩], [⟨1, 1⟩]] : List (List (P2 ℚ))) (cp.index + 1) = .ok [⟨1, 1⟩] ∧
    idx ([[100], [100]] : List (List ℚ)) cp.index = .ok [100] ∧ idx ([[100], [100]] : List (List ℚ)) (cp.index + 1) = .ok [100] ∧
    idx (exLine false).coords 0 = .ok ⟨0, 0⟩ ∧ idx (exLine false).coords ((exLine false).coords.length - 1) = .ok ⟨0, 3⟩ ∧
    (0 : ℚ) < 1 ∧ toyTransc.sqrt (1 * 1) = 1 ∧
    toyTransc.sqrt ((1 - cp.point.x) * (1 - cp.point.x) + (3 / 2 - cp.point.y) * (3 / 2 - cp.point.y)) *
        toyTransc.sqrt ((1 - cp.point.x) * (1 - cp.point.x) + (3 / 2 - cp.point.y) * (3 / 2 - cp.point.y)) =
      (1 - cp.point.x) * (1 - cp.point.x) + (3 / 2 - cp.point.y) * (3 / 2 - cp.point.y) ∧
    2 / 10 ^ 14 ≤ toyTransc.sqrt ((1 - cp.point.x) * (1 - cp.point.x) + (3 / 2 - cp.point.y) * (3 / 2 - cp.point.y)) ∧
    0 < @P2.distanceTo ℚ (fieldScalar toyTransc) false cp.point ⟨10, 0⟩ := by
  obtain ⟨cp, hcp, hchk⟩ := ex_frame_cp
  simp only [Bool.and_eq_true, decide_eq_true_eq] at hchk
  obtain ⟨⟨hx, hy⟩, hi⟩ := hchk
  refine ⟨cp, hcp, ?_⟩
  rw [hi, hx, hy]
  refine ⟨rfl, rfl, rfl, rfl, rfl, rfl, by norm_num, ?_, ?_, ?_, ?_⟩
  · norm_num [toyTransc]
  · norm_num [toyTransc]
  · norm_num [toyTransc]
  · have : @P2.distanceTo ℚ (fieldScalar toyTransc) false cp.point ⟨10, 0⟩ =
        (cp.point.x - 10) * (cp.point.x - 10) + (cp.point.y - 0) * (cp.point.y - 0) := rfl
    rw [this, hx, hy]; norm_num

/-- `SqrtLaws` is satisfiable, and gives the two `sqrt` facts `C06_cartesian_frame` asks for -/
example : SqrtLaws realTransc ∧ ∀ sr d2 : ℝ, 0 < sr → 0 ≤ d2 →
    realTransc.sqrt (sr * sr) = sr ∧ realTransc.sqrt d2 * realTransc.sqrt d2 = d2 :=
  ⟨real_sqrtLaws, fun sr d2 h1 h2 => real_sqrtLaws.frame realTransc sr d2 h1 h2⟩

end field

end Gwb
