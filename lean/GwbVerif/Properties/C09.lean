/-
C09 — The 2-D cross-section interface equals the 3-D interface along the section.

`World.props2` (Model/World.lean, world.cc:314-398) lifts the 2-D point, calls the 3-D interface and re-walks the
result with its own counter.  Proved for every `Scalar R`: the re-walk visits exactly the 3-D block offsets, so the
2-D answer is the 3-D answer at the lifted point with each velocity block replaced by
`(u·(vx,vy), vz, 0)`; worlds without a cross section refuse every 2-D request.  Over an ordered field with a
square-root law: `u` is the unit vector from the first to the second cross-section point.
-/
import GwbVerif.Properties.C03
namespace Gwb
open Scalar
set_option linter.unusedSectionVars false

section
variable {R G : Type} [Scalar R] [RandGen G R]

/-- **C09** 2-D answer = block-wise projection of the 3-D answer at the lifted point (values and errors alike) -/
theorem C09_2d_is_projected_3d (w : World R) (c0 c1 : P2 R) (hc : w.cross = some (c0, c1)) (pt : P2 R) (depth : R)
    (ps : List Req) (g : G) :
    (∀ out3 g', w.props3 (w.lift2 c0 c1 pt) depth ps g = .ok (out3, g') →
        ∃ bs, Fits ps bs ∧ out3 = bs.flatten ∧
          w.props2 pt depth ps g = .ok ((List.zipWith (projBlock (surfaceCoordConversions c0 c1)) ps bs).flatten, g')) ∧
    (∀ e, w.props3 (w.lift2 c0 c1 pt) depth ps g = .error e → w.props2 pt depth ps g = .error e) := by
  constructor
  · intro out3 g' h3
    rw [World.props3_blocks] at h3
    cases hb : w.props3Blocks (w.lift2 c0 c1 pt) depth ps g with
    | error e => simp [hb, embedBlocks] at h3
    | ok r =>
      obtain ⟨bs, g1⟩ := r
      simp only [hb, embedBlocks, List.nil_append, Except.ok.injEq, Prod.mk.injEq] at h3
      obtain ⟨rfl, rfl⟩ := h3
      refine ⟨bs, World.props3Blocks_fits w _ depth ps g bs g1 hb, rfl, ?_⟩
      rw [World.props2_blocks]
      unfold World.props2Blocks
      simp [hc, hb, embedBlocks]
  · intro e h3
    rw [World.props3_blocks] at h3
    rw [World.props2_blocks]
    unfold World.props2Blocks
    cases hb : w.props3Blocks (w.lift2 c0 c1 pt) depth ps g with
    | error e' =>
      simp only [hb, embedBlocks, Except.error.injEq] at h3
      simp [hc, hb, embedBlocks, h3]
    | ok r => obtain ⟨bs, g1⟩ := r; simp [hb, embedBlocks] at h3

/-- **C09** the projection of a velocity block: in-section horizontal component, vertical component, zero; every other block is unchanged -/
theorem C09_velocity_projection (u : P2 R) (vx vy vz : R) (p : Req) (b : List R) :
    projBlock u Req.velocity [vx, vy, vz] = [u.x * vx + u.y * vy, vz, 0] ∧
    (p.code ≠ 5 → projBlock u p b = b) := by
  constructor
  · rfl
  · intro h; simp [projBlock, h]

/-- **C09** 2-D queries on a world without cross section are refused, for every point, depth and request -/
theorem C09_no_cross_section_refused (w : World R) (h : w.cross = none) (pt : P2 R) (depth : R) (ps : List Req) (g : G) :
    w.props2 pt depth ps g = .error .noCrossSection := by
  unfold World.props2; simp [h, QM.throw_apply]

/-- **C09** the lifted point: Cartesian `(cs₀ + x·u, z)`; spherical `natural_to_cartesian(√(x²+z²), cs₀ + atan2(z,x)·u)` -/
theorem C09_lift (w : World R) (c0 c1 : P2 R) (pt : P2 R) :
    let u := surfaceCoordConversions c0 c1
    (w.ctx.coord.spherical = false → w.lift2 c0 c1 pt = ⟨c0.x + pt.x * u.x, c0.y + pt.x * u.y, pt.y⟩) ∧
    (w.ctx.coord.spherical = true → w.lift2 c0 c1 pt =
        sphericalToCartesian ⟨sqrt (pt.x * pt.x + pt.y * pt.y), c0.x + atan2 pt.y pt.x * u.x, c0.y + atan2 pt.y pt.x * u.y⟩) := by
  intro u
  constructor <;> intro h <;> simp [World.lift2, CoordSys.toCartesian, h, u]

end

/-- **C09** over an ordered field with `sqrt x · sqrt x = x` and `0 < sqrt x` for `x > 0`: the conversion vector is
`(cs₁ − cs₀)/‖cs₁ − cs₀‖`, a unit vector, for distinct cross-section points -/
theorem C09_unit_direction {F : Type} [Field F] [LinearOrder F] [IsStrictOrderedRing F] (T : Transc F)
    (hsqrt : ∀ x : F, 0 < x → T.sqrt x * T.sqrt x = x ∧ 0 < T.sqrt x) (c0 c1 : P2 F) (hne : c0.x ≠ c1.x ∨ c0.y ≠ c1.y) :
    let n := T.sqrt ((c0.x - c1.x) * (c0.x - c1.x) + (c0.y - c1.y) * (c0.y - c1.y))
    let u := @surfaceCoordConversions F (fieldScalar T) c0 c1
    u.x = (c1.x - c0.x) / n ∧ u.y = (c1.y - c0.y) / n ∧ u.x * u.x + u.y * u.y = 1 := by
  intro n u
  have hpos : 0 < (c0.x - c1.x) * (c0.x - c1.x) + (c0.y - c1.y) * (c0.y - c1.y) := by
    rcases hne with h | h
    · have : 0 < (c0.x - c1.x) * (c0.x - c1.x) := mul_self_pos.mpr (sub_ne_zero.mpr h)
      nlinarith [mul_self_nonneg (c0.y - c1.y)]
    · have : 0 < (c0.y - c1.y) * (c0.y - c1.y) := mul_self_pos.mpr (sub_ne_zero.mpr h)
      nlinarith [mul_self_nonneg (c0.x - c1.x)]
  obtain ⟨hsq, hn⟩ := hsqrt _ hpos
  have hn0 : n ≠ 0 := ne_of_gt hn
  have hux : u.x = (c0.x - c1.x) * (-1 / n) := by
    show (c0.x - c1.x) * (-((1 : ℕ) : F) / n) = _
    rw [Nat.cast_one]
  have huy : u.y = (c0.y - c1.y) * (-1 / n) := by
    show (c0.y - c1.y) * (-((1 : ℕ) : F) / n) = _
    rw [Nat.cast_one]
  refine ⟨by rw [hux]; field_simp; ring, by rw [huy]; field_simp; ring, ?_⟩
  rw [hux, huy]
  have hsq' : n * n = (c0.x - c1.x) * (c0.x - c1.x) + (c0.y - c1.y) * (c0.y - c1.y) := hsq
  field_simp
  nlinarith [hsq']

/-- **C09** the Cartesian section is parametrised by distance -/
theorem C09_section_by_distance {F : Type} [Field F] [LinearOrder F] [IsStrictOrderedRing F] (T : Transc F)
    (hsqrt : ∀ x : F, 0 < x → T.sqrt x * T.sqrt x = x ∧ 0 < T.sqrt x) (c0 c1 : P2 F) (hne : c0.x ≠ c1.x ∨ c0.y ≠ c1.y) (x : F) :
    let n := T.sqrt ((c0.x - c1.x) * (c0.x - c1.x) + (c0.y - c1.y) * (c0.y - c1.y))
    let u := @surfaceCoordConversions F (fieldScalar T) c0 c1
    (x * u.x) * (x * u.x) + (x * u.y) * (x * u.y) = x * x ∧
    (c0.x + n * u.x = c1.x ∧ c0.y + n * u.y = c1.y) ∧
    (c0.x + 0 * u.x = c0.x ∧ c0.y + 0 * u.y = c0.y) := by
  intro n u
  obtain ⟨hx, hy, h1⟩ := C09_unit_direction T hsqrt c0 c1 hne
  have hpos : 0 < (c0.x - c1.x) * (c0.x - c1.x) + (c0.y - c1.y) * (c0.y - c1.y) := by
    rcases hne with h | h
    · have : 0 < (c0.x - c1.x) * (c0.x - c1.x) := mul_self_pos.mpr (sub_ne_zero.mpr h)
      nlinarith [mul_self_nonneg (c0.y - c1.y)]
    · have : 0 < (c0.y - c1.y) * (c0.y - c1.y) := mul_self_pos.mpr (sub_ne_zero.mpr h)
      nlinarith [mul_self_nonneg (c0.x - c1.x)]
  have hn0 : n ≠ 0 := ne_of_gt (hsqrt _ hpos).2
  refine ⟨?_, ⟨?_, ?_⟩, by simp⟩
  · have : (x * u.x) * (x * u.x) + (x * u.y) * (x * u.y) = x * x * (u.x * u.x + u.y * u.y) := by ring
    rw [this, h1, mul_one]
  · have hx' : u.x = (c1.x - c0.x) / n := hx
    rw [hx']; field_simp; ring
  · have hy' : u.y = (c1.y - c0.y) / n := hy
    rw [hy']; field_simp; ring

/-- **C09** the in-section velocity component never exceeds the horizontal speed (Cauchy-Schwarz with the unit direction) -/
theorem C09_projection_bounded {F : Type} [Field F] [LinearOrder F] [IsStrictOrderedRing F] (T : Transc F)
    (hsqrt : ∀ x : F, 0 < x → T.sqrt x * T.sqrt x = x ∧ 0 < T.sqrt x) (c0 c1 : P2 F) (hne : c0.x ≠ c1.x ∨ c0.y ≠ c1.y) (vx vy : F) :
    let u := @surfaceCoordConversions F (fieldScalar T) c0 c1
    (u.x * vx + u.y * vy) * (u.x * vx + u.y * vy) ≤ vx * vx + vy * vy ∧
    (u.x * (u.x * vx + u.y * vy) - vx) * u.x + (u.y * (u.x * vx + u.y * vy) - vy) * u.y = 0 := by
  intro u
  obtain ⟨-, -, h1⟩ := C09_unit_direction T hsqrt c0 c1 hne
  have h1' : u.x * u.x + u.y * u.y = 1 := h1
  constructor
  · nlinarith [mul_self_nonneg (u.x * vy - u.y * vx), h1']
  · have : (u.x * (u.x * vx + u.y * vy) - vx) * u.x + (u.y * (u.x * vx + u.y * vy) - vy) * u.y
        = (u.x * vx + u.y * vy) * (u.x * u.x + u.y * u.y - 1) := by ring
    rw [this, h1']; ring

theorem sphericalToCartesian_norm_sq {F : Type} [Field F] [LinearOrder F] [IsStrictOrderedRing F] (T : Transc F)
    (hsc : ∀ a : F, T.sin a * T.sin a + T.cos a * T.cos a = 1) (r lon lat : F) :
    let q := @sphericalToCartesian F (fieldScalar T) ⟨r, lon, lat⟩
    q.x * q.x + q.y * q.y + q.z * q.z = r * r := by
  intro q
  have key : ∀ s c sl cl : F, s * s + c * c = 1 → sl * sl + cl * cl = 1 →
      (r * s * cl) * (r * s * cl) + (r * s * sl) * (r * s * sl) + (r * c) * (r * c) = r * r := by
    intro s c sl cl h1 h2
    linear_combination (r * r * s * s) * h2 + (r * r) * h1
  exact key _ _ _ _ (hsc _) (hsc _)

/-- **C09** spherical sections: the lifted point lies at radius `√(x²+z²)` — its squared norm is `x²+z²` — whatever the
cross-section points are (laws used: `sin²+cos² = 1`, `sqrt y · sqrt y = y` for `y ≥ 0`) -/
theorem C09_lift_radius_spherical {F : Type} [Field F] [LinearOrder F] [IsStrictOrderedRing F] (T : Transc F)
    (hsc : ∀ a : F, T.sin a * T.sin a + T.cos a * T.cos a = 1)
    (hsqrt : ∀ y : F, 0 ≤ y → T.sqrt y * T.sqrt y = y)
    (w : World F) (hs : w.ctx.coord.spherical = true) (c0 c1 pt : P2 F) :
    let p := @World.lift2 F (fieldScalar T) w c0 c1 pt
    p.x * p.x + p.y * p.y + p.z * p.z = pt.x * pt.x + pt.y * pt.y := by
  intro p
  have hl := (@C09_lift F (fieldScalar T) w c0 c1 pt).2 hs
  have hp : p = _ := hl
  rw [hp]
  have hnn : 0 ≤ pt.x * pt.x + pt.y * pt.y := add_nonneg (mul_self_nonneg _) (mul_self_nonneg _)
  have hr : T.sqrt (pt.x * pt.x + pt.y * pt.y) * T.sqrt (pt.x * pt.x + pt.y * pt.y) = _ := hsqrt _ hnn
  exact (sphericalToCartesian_norm_sq T hsc _ _ _).trans hr

end Gwb
