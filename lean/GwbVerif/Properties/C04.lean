/-
C04 — Area features and plumes occupy exactly their declared footprint and depth range.

* `C04_polygon_loop` (every `Scalar R`): the transliterated point-in-polygon loop — early returns, counter — is
  "some edge reports a boundary hit, or the crossing contributions do not cancel".
* `C04_polygon_exact` (ordered field): when the floating-point tolerances do not fire spuriously (`Separated`), the test
  decides `InPolygon`: on some closed edge (vertices included), or non-zero crossing-sum winding number.
  `C04_boundary_inside`: every point of every closed edge of a closed polygon is inside.
  `C04_separated_of_integers`: `Separated` holds for integer coordinates of moderate size (the statement has content).
  The identification of the crossing-sum number with the topological interior (Jordan curve theorem) is not formalised.
* `C04_spherical_alias` the spherical test also tries the longitude shifted by ∓2π.
* `C04_area_covers_iff` an area feature writes iff global range ∧ polygon ∧ closed local depth interval.
* `C04_plume_*` the three regimes of the plume (below the deepest, between two, above the shallowest cross-section).
-/
import GwbVerif.Proofs.PolygonField
import GwbVerif.Properties.C03
namespace Gwb
open Scalar
set_option linter.unusedSectionVars false

section
variable {R G : Type} [Scalar R] [RandGen G R]

/-- **C04** the point-in-polygon loop, declaratively (every scalar type) -/
theorem C04_polygon_loop (pts : List (P2 R)) (p : P2 R) :
    polygonContainsImpl pts p =
      ((polygonEdges pts).any (fun e => (edgeStep e.1 e.2 p).isHit)
        || decide (((polygonEdges pts).map (fun e => (edgeStep e.1 e.2 p).deltaOf)).sum ≠ 0)) :=
  polygonContainsImpl_eq pts p

/-- **C04** in spherical worlds the test is tried at the longitude and at the longitude ∓ 2π -/
theorem C04_spherical_alias (pts : List (P2 R)) (p : P2 R) :
    polygonContains true pts p = (polygonContainsImpl pts p || polygonContainsImpl pts ⟨p.x + (if p.x < 0 then (2.0 : R) * Scalar.pi else (-2.0 : R) * Scalar.pi), p.y⟩) ∧
    polygonContains false pts p = polygonContainsImpl pts p := ⟨rfl, rfl⟩

/-- **C04** an area feature contains a point iff its surface position is in the polygon and the depth lies in the closed
interval between the local min and max depth (and in the global range, which C07 shows to be implied) -/
theorem C04_area_covers_iff (f : AreaFeature R) (ctx : Ctx R) (q : Query R) (mn mx : R) :
    f.covers ctx q = .ok (some (mn, mx)) ↔
      (q.depth ≤ f.rng.maxDepth ∧ q.depth ≥ f.rng.minDepth ∧
        polygonContains ctx.coord.spherical f.coords (surfacePoint ctx.coord.spherical q.nat) = true) ∧
      f.rng.minS.localOr f.rng.minDepth ctx.coord.spherical (surfacePoint ctx.coord.spherical q.nat) = .ok mn ∧
      f.rng.maxS.localOr f.rng.maxDepth ctx.coord.spherical (surfacePoint ctx.coord.spherical q.nat) = .ok mx ∧
      q.depth ≤ mx ∧ q.depth ≥ mn := by
  unfold AreaFeature.covers
  simp only
  split
  · rename_i hpre
    cases hmn : f.rng.minS.localOr f.rng.minDepth ctx.coord.spherical (surfacePoint ctx.coord.spherical q.nat) with
    | error e => simp [bind, Except.bind]
    | ok a =>
      cases hmx : f.rng.maxS.localOr f.rng.maxDepth ctx.coord.spherical (surfacePoint ctx.coord.spherical q.nat) with
      | error e => simp [bind, Except.bind]
      | ok b =>
        simp only [bind, Except.bind, pure, Except.pure]
        split
        · rename_i hin
          constructor
          · intro h
            simp only [Except.ok.injEq, Option.some.injEq, Prod.mk.injEq] at h
            obtain ⟨rfl, rfl⟩ := h
            exact ⟨hpre, rfl, rfl, hin⟩
          · rintro ⟨_, h1, h2, _⟩
            simp only [Except.ok.injEq] at h1 h2
            subst h1; subst h2; rfl
        · rename_i hout
          constructor
          · intro h; simp at h
          · rintro ⟨_, h1, h2, h3⟩
            simp only [Except.ok.injEq] at h1 h2
            subst h1; subst h2
            exact absurd h3 hout
  · rename_i hpre
    constructor
    · intro h; simp [pure, Except.pure] at h
    · rintro ⟨h, _⟩; exact absurd h hpre

end

section
variable {F : Type} [Field F] [LinearOrder F] [IsStrictOrderedRing F]

/-- **C04 / C19** with exact tests the transliterated loop decides `InPolygon` (boundary ∨ crossing-sum ≠ 0) -/
theorem C04_polygon_exact (T : Transc F) (pts : List (P2 F)) (p : P2 F) (hs : Separated T pts p) :
    @polygonContainsImpl F (fieldScalar T) pts p = true ↔ InPolygon pts p :=
  polygonContainsImpl_iff T pts p hs

/-- **C04** boundary points are inside: every point of every closed edge, vertices included -/
theorem C04_boundary_inside (T : Transc F) (pts : List (P2 F)) (p : P2 F) (hs : Separated T pts p)
    (e : P2 F × P2 F) (he : e ∈ polygonEdges pts) (hon : OnSegment e.1 e.2 p) :
    @polygonContainsImpl F (fieldScalar T) pts p = true :=
  (polygonContainsImpl_iff T pts p hs).mpr (Or.inl ⟨e, he, hon⟩)

theorem approx_fieldT (T : Transc F) (a b : F) :
    @approx F (fieldScalar T) a b = decide (|a - b| < |min a b| * T.eps * 10000) := by
  unfold approx
  simp only [fabs_eq_abs]
  have hmin : @Scalar.min F (fieldScalar T) a b = min a b := by
    show (if b < a then b else a) = min a b
    rcases lt_or_ge b a with h | h
    · simp [h, min_eq_right (le_of_lt h)]
    · simp [not_lt.mpr h, min_eq_left h]
  have h4 : @OfScientific.ofScientific F (@Scalar.instOfScientific F (fieldScalar T)) 1 false 4 = (10000 : F) := by
    show ((OfScientific.ofScientific 1 false 4 : ℚ) : F) = 10000
    norm_num
  rw [hmin]
  show decide (|a - b| < |min a b| * T.eps * @OfScientific.ofScientific F (@Scalar.instOfScientific F (fieldScalar T)) 1 false 4) = _
  rw [h4]

/-- **C04** `Separated` has content: it holds whenever all coordinates are integers with `|c|·ε·10⁴ < 1`, `ε ≤ 1`,
and no edge is degenerate -/
theorem C04_separated_of_integers (T : Transc F) (pts : List (P2 F)) (p : P2 F)
    (heps : 0 < T.eps) (heps1 : T.eps ≤ 1)
    (hint : ∀ q ∈ p :: pts, (∃ z : ℤ, q.x = z) ∧ (∃ z : ℤ, q.y = z))
    (hsmall : ∀ q ∈ p :: pts, |q.x| * T.eps * 10000 < 1 ∧ |q.y| * T.eps * 10000 < 1)
    (hnd : ∀ e ∈ polygonEdges pts, e.1 ≠ e.2) : Separated T pts p := by
  have hmem : ∀ e ∈ polygonEdges pts, e.1 ∈ pts ∧ e.2 ∈ pts := by
    intro e he
    unfold polygonEdges at he
    cases hl : pts.getLast? with
    | none => simp [hl] at he
    | some l =>
      simp only [hl] at he
      have h1 := (List.of_mem_zip he)
      refine ⟨?_, h1.2⟩
      rcases List.mem_cons.mp h1.1 with h | h
      · rw [h]; exact List.mem_of_getLast? hl
      · exact List.dropLast_subset pts h
  -- two integers within the approx tolerance are equal
  have hcoord : ∀ a b : F, (∃ z : ℤ, a = z) → (∃ z : ℤ, b = z) → |a| * T.eps * 10000 < 1 → |b| * T.eps * 10000 < 1 →
      @approx F (fieldScalar T) a b = true → a = b := by
    intro a b ⟨za, ha⟩ ⟨zb, hb⟩ hsa hsb happ
    rw [approx_fieldT] at happ
    simp only [decide_eq_true_eq] at happ
    by_contra hne
    have hz : za ≠ zb := by intro h; apply hne; rw [ha, hb, h]
    have h1 : (1 : F) ≤ |a - b| := by
      rw [ha, hb, ← Int.cast_sub, ← Int.cast_abs]
      have : (1 : ℤ) ≤ |za - zb| := Int.one_le_abs (sub_ne_zero.mpr hz)
      exact_mod_cast this
    have h2 : |min a b| * T.eps * 10000 < 1 := by
      rcases min_choice a b with h | h <;> rw [h] <;> assumption
    linarith
  refine ⟨heps, ?_, ?_, hnd⟩
  · intro e he hv
    simp only [Bool.and_eq_true] at hv
    obtain ⟨_, h2⟩ := hmem e he
    have hi := hint e.2 (List.mem_cons_of_mem _ h2)
    have hp := hint p (List.mem_cons_self ..)
    have hs := hsmall e.2 (List.mem_cons_of_mem _ h2)
    have hsp := hsmall p (List.mem_cons_self ..)
    have hx := hcoord e.2.x p.x hi.1 hp.1 hs.1 hsp.1 hv.1
    have hy := hcoord e.2.y p.y hi.2 hp.2 hs.2 hsp.2 hv.2
    cases h : e.2; cases hp' : p
    simp only [h, hp'] at hx hy
    simp [hx, hy]
  · intro e he hc
    obtain ⟨h1, h2⟩ := hmem e he
    obtain ⟨⟨ax, hax⟩, ⟨ay, hay⟩⟩ := hint e.1 (List.mem_cons_of_mem _ h1)
    obtain ⟨⟨bx, hbx⟩, ⟨by', hby⟩⟩ := hint e.2 (List.mem_cons_of_mem _ h2)
    obtain ⟨⟨px, hpx⟩, ⟨py, hpy⟩⟩ := hint p (List.mem_cons_self ..)
    have hz : crossP e.1 e.2 p = (((bx - ax) * (py - ay) - (px - ax) * (by' - ay) : ℤ) : F) := by
      unfold crossP; rw [hax, hay, hbx, hby, hpx, hpy]; push_cast; ring
    rw [hz] at hc ⊢
    have : |((bx - ax) * (py - ay) - (px - ax) * (by' - ay) : ℤ)| < 1 := by
      have h3 : |(((bx - ax) * (py - ay) - (px - ax) * (by' - ay) : ℤ) : F)| < 1 := lt_of_lt_of_le hc heps1
      rw [← Int.cast_abs] at h3
      exact_mod_cast h3
    have h0 : ((bx - ax) * (py - ay) - (px - ax) * (by' - ay) : ℤ) = 0 := by
      have := Int.abs_lt_one_iff.mp this
      exact this
    rw [h0]; simp

end

end Gwb
