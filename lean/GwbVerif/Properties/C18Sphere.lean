/-
C18 — "gwb-grid writes the requested mesh and the library's values at its nodes": the `sphere` grid.

Model: `GwbVerif/Model/Apps/GridSphere.lean` (a loop-by-loop transliteration of lines 1118-1487 of `source/gwb-grid/main.cc` and of the
helpers `project_on_sphere`, `lay_points`).  Helper lemmas: `GwbVerif/Proofs/GridSphere.lean`.  `n = n_cell_x`, `nz = n_cell_z`,
`inner = z_min`, `outer = z_max`; `n_cell_y` is not used by the code.  `S = sphereShellNP outer n` is the code's `shell_n_p`.

The mesh is a stack of `nz + 1` copies of one surface mesh ("shell") of 12 blocks of `n × n` quadrilaterals.  The 12 blocks have
`12 (n+1)²` points; the points that two or more blocks share are found by a floating-point distance test
(`|Δx|, |Δy|, |Δz| < 1e-12 * outer` on the unit sphere) and removed.  Therefore the number of nodes depends on comparisons of doubles,
and only the cell count is a closed formula for every scalar type.

What is a theorem here.  `n`, `nz` are arbitrary natural numbers; `R` is an arbitrary scalar type (IEEE doubles included) unless said
otherwise.

* `C18_sphere_total`  the branch never indexes outside an array: the two data-dependent lookups `point_to[…]`, `compact[…]` succeed
    (`sphereGrid` returns `.ok`).
* `C18_sphere_counts_partial`  `n_cell = 12 n² nz` and the cell loop writes exactly that many cells; `n_p = (nz+1) · S` and the node loop
    writes exactly that many nodes; `S + amount_of_double_points = 12 (n+1)²`, `max(1, 12 (n-1)²) ≤ S ≤ 12 (n+1)²` (so the `size_t` subtraction
    at line 1341 does not wrap; the points in the interior of a block are never removed), `amount_of_double_points` being the number of block-edge points for which an earlier block-edge point
    (at least two positions earlier) passes the distance test.
  `C18_sphere_node_count_full` (a `Prop`, NOT proved)  over the reals, for `0 < n`, `0 < outer`, `outer · n ≤ 10¹⁰`:
    `S = 12 n² + 2`, i.e. `n_p = (nz+1)(12 n² + 2)` (Euler: 12 n² quadrilaterals, 24 n² edges).  It needs the injectivity of the
    cubed-sphere map, which is out of reach here.  The correspondence run checks it in doubles for n = 1…4, both hollow and full.
    It is FALSE without the bound on `outer`: see the findings below.
* `C18_sphere_connectivity_in_range`  every cell has 8 entries, each `< n_p` — for all sizes and every scalar type (whatever the distance
    test answers).
* `C18_sphere_cell_structure`  cell `i · 12n² + c` (layer `i < nz`, shell cell `c`) lists the 4 corners of shell cell `c` on layer `i`
    (entries `e + i·S`) followed by the same 4 corners on layer `i+1` (entries `e + (i+1)·S`): radial prisms; shell cell
    `b·n² + cj·n + ci` (block `b < 12`) has the corners `compact[point_to[b (n+1)² + q]]` for
    `q = cj(n+1)+ci, cj(n+1)+ci+1, (cj+1)(n+1)+ci+1, (cj+1)(n+1)+ci`.
* `C18_sphere_corner_positions`  what the renumbering means: block point `c` that is not a double is shell point `compact[c]`, and that
    shell point carries `c`'s coordinates (snapped to 0 below 1e-8); a double `c` with `point_to[c] = j`: `j + 1 < c`, both are block-edge
    points passing the distance test, and if `j` itself is not a double the corner is the shell point with `j`'s coordinates.
    (If `j` were itself a double — possible only if the distance test is not transitive — `compact[j]` is the zero the vector was
    initialised with, i.e. the corner would be node 0.  Still in range; never seen in doubles.)
* `C18_sphere_coordinates`  for ANY scalar type: node `k·S + j` is `sphereLayerNode outer r_k shell[j]`, with
    `r_k = inner + ((outer - inner) / nz) * k` exactly as line 1436 associates it: the projection of shell point `j` on radius `r_k`,
    `Depth = outer - sqrt(x*x + y*y + z*z)` set to 0 where `|Depth| < 1e-8`.
* over a linearly ordered field, given `sin² + cos² = 1` and `sqrt(x)² = x`, `sqrt(x) ≥ 0` for `x ≥ 0`:
  `C18_sphere_project_radius_field`  `project_on_sphere(radius, p)` lies at distance `|radius|` from the origin: `x²+y²+z² = radius²`
    (for every `p`; in doubles `p = 0` gives NaN — it does not occur: the shell points have norm 1);
  `C18_sphere_layers_field`  node `k·S + j` has `x²+y²+z² = r_k²`, `Depth = clip(outer - |r_k|)` (`= clip(outer - r_k)` if `r_k ≥ 0`);
    `r_0 = inner`; for `nz > 0`, `r_nz = outer` and (for `outer ≥ 0`) `Depth = 0` on the outer surface; if `r_k = 0` the node is `(0, 0, 0)`;
  `C18_sphere_centre_field`  `z_min = 0`: the innermost layer consists of `S` nodes (`S = 12n²+2` in practice, NOT one node) which all
    have the position `(0, 0, 0)` and `Depth = clip(outer)`; the `12 n²` cells of the innermost layer therefore have a lower face
    collapsed to a point (pyramids written as hexahedra).
  The libm hypotheses are instantiated with the real functions in the examples.

What is NOT proved: `C18_sphere_node_count_full` (above); that the shell is a conforming, non-overlapping surface mesh (geometry of the
cubed sphere); anything about rounding.

Findings (read off the code / reproduced with the binary; grid files in the report):
* the distance `1e-12 * outer_radius` is compared with coordinates on the UNIT sphere (the code's own TODO at line 1309):
  `z_max = 1e12`, `n_cell_x = 1`: 2 nodes per layer instead of 14; `z_max = 3e11`, `n_cell_x = 3`: 150 nodes instead of 220;
  `z_max = 1e-4` (tolerance 1e-16): duplicates survive, 108 nodes instead of 100 for `n_cell_x = 2`, `n_cell_z = 1`.
  The model reproduces all three.
* the inner search loop `for (j = 0; j < i-1; ++j)` skips the immediate predecessor `i-1`; harmless for the 12 blocks as ordered
  (the last point of a block and the first point of the next block never coincide).
* full sphere (`z_min = 0`): `shell_n_p` coincident nodes at the centre (see `C18_sphere_centre_field`).
* lines 1140-1156 (first block node layout) are dead code; `n_cell_y` is only read by a debug-only `WBAssert`.
-/
import GwbVerif.Proofs.GridSphere
import GwbVerif.Properties.C18
import Mathlib.Analysis.SpecialFunctions.Trigonometric.Inverse
import Mathlib.Analysis.SpecialFunctions.Complex.Arg
namespace Gwb

/-! ## 1. totality and counts -/

/-- the `sphere` branch never leaves an array -/
theorem C18_sphere_total {R : Type} [Scalar R] (inner outer : R) (n nz : Nat) :
    ∃ m, sphereGrid inner outer n nz = .ok m := by
  obtain ⟨shellCells, _, hgrid, _⟩ := sphereGrid_spec inner outer n nz
  exact ⟨_, hgrid⟩

theorem C18_sphere_counts_partial {R : Type} [Scalar R] (inner outer : R) (n nz : Nat) (m : GridMesh R)
    (hm : sphereGrid inner outer n nz = .ok m) :
    let S := sphereShellNP outer n
    let amount := sphereAmountDouble (sphereDoubles ((1e-12 : R) * outer) (sphereTemp (R := R) n))
    m.CountsAre ((nz + 1) * S) (12 * n * n * nz) ∧
    S + amount = 12 * (n + 1) * (n + 1) ∧ 1 ≤ S ∧ 12 * (n - 1) * (n - 1) ≤ S ∧ S ≤ 12 * (n + 1) * (n + 1) := by
  intro S amount
  obtain ⟨shellCells, _, hgrid, _, _, hsum, hpos, hshell, hlen, _, _⟩ := sphereGrid_spec inner outer n nz
  rw [hm] at hgrid
  cases hgrid
  have hsum' : S + amount = 12 * (n + 1) * (n + 1) := by
    rw [show S + amount = sphereNBlock * sphereBlockNP n from hsum]
    unfold sphereNBlock sphereBlockNP; ring
  have hint : 12 * (n - 1) * (n - 1) ≤ S := by
    have h1 := sphereAmountDouble_le ((1e-12 : R) * outer) (sphereTemp (R := R) n)
    rw [sphereTemp_interior, sphereTemp_length] at h1
    have h2 : S + amount = sphereNBlock * sphereBlockNP n := hsum
    have h3 : sphereNBlock * ((n - 1) * (n - 1)) = 12 * (n - 1) * (n - 1) := by unfold sphereNBlock; ring
    have h4 : amount + sphereNBlock * ((n - 1) * (n - 1)) ≤ sphereNBlock * sphereBlockNP n := h1
    omega
  refine ⟨⟨rfl, ?_, ?_, ?_⟩, hsum', hpos, hint, by omega⟩
  · show (sphereNodes inner outer nz _).length = _
    rw [sphereNodes_length, hshell]
  · show nz * (sphereNBlock * sphereBlockNCell n) = _
    unfold sphereNBlock sphereBlockNCell; ring
  · show (sphereCells nz _ shellCells).length = _
    rw [sphereCells_length, hlen]
    unfold sphereNBlock sphereBlockNCell; ring

/-- the real functions used by the sphere grid -/
noncomputable def realTranscSphere : Transc ℝ :=
  { sqrt := Real.sqrt, exp := Real.exp, log := Real.log, sin := Real.sin, cos := Real.cos, tan := Real.tan, asin := Real.arcsin,
    acos := Real.arccos, atan := Real.arctan, tanh := id, erfc := id, floor := id, ceil := id, round := id,
    atan2 := fun y x => Complex.arg ⟨x, y⟩, pow := fun a _ => a, fmod := fun a _ => a, pi := Real.pi,
    eps := 0, dblMin := 0, dblMax := 0, inf := 0 }

/-- NOT proved (needs the injectivity of the cubed-sphere map): in exact real arithmetic the shell has `12 n² + 2` points as long as the
tolerance `1e-12 · outer` stays below the mesh width.  Checked in doubles by the correspondence run (n = 1 … 4). -/
def C18_sphere_node_count_full : Prop :=
  ∀ (inner outer : ℝ) (n nz : ℕ), 0 < n → 0 < outer → outer * (n : ℝ) ≤ 1e10 →
    ∀ m, @sphereGrid ℝ (fieldScalar realTranscSphere) inner outer n nz = .ok m → m.nP = (nz + 1) * (12 * n * n + 2)

/-! ## 2. connectivity -/

theorem C18_sphere_connectivity_in_range {R : Type} [Scalar R] (inner outer : R) (n nz : Nat) (m : GridMesh R)
    (hm : sphereGrid inner outer n nz = .ok m) : m.ConnOk 3 := by
  obtain ⟨shellCells, _, hgrid, _, _, _, _, _, _, hrange, _⟩ := sphereGrid_spec inner outer n nz
  rw [hm] at hgrid
  cases hgrid
  exact sphereCells_in_range nz _ shellCells hrange

/-- `renumber c = compact[point_to[c]]` with the model's arrays -/
def sphereRenumberOf {R : Type} [Scalar R] (outer : R) (n c : Nat) : Except Err Nat :=
  let ds := sphereDoubles ((1e-12 : R) * outer) (sphereTemp (R := R) n)
  sphereRenumber (spherePointTo ds) (sphereCompact ds 0) c

theorem C18_sphere_cell_structure {R : Type} [Scalar R] (inner outer : R) (n nz : Nat) (m : GridMesh R)
    (hm : sphereGrid inner outer n nz = .ok m) :
    let S := sphereShellNP outer n
    ∃ shellCells : List (List Nat), shellCells.length = 12 * n * n ∧
      (∀ sc ∈ shellCells, sc.length = 4 ∧ ∀ e ∈ sc, e < S) ∧
      -- radial prisms
      (∀ i c, i < nz → c < 12 * n * n →
        m.cells[i * (12 * n * n) + c]? = (shellCells[c]?).map fun sc => sc.map (· + i * S) ++ sc.map (· + (i + 1) * S)) ∧
      -- the corners of shell cell (b, ci, cj)
      (∀ b ci cj, b < 12 → ci < n → cj < n → ∃ e0 e1 e2 e3,
        shellCells[b * (n * n) + (cj * n + ci)]? = some [e0, e1, e2, e3] ∧
        sphereRenumberOf outer n (b * ((n + 1) * (n + 1)) + (cj * (n + 1) + ci)) = .ok e0 ∧
        sphereRenumberOf outer n (b * ((n + 1) * (n + 1)) + (cj * (n + 1) + (ci + 1))) = .ok e1 ∧
        sphereRenumberOf outer n (b * ((n + 1) * (n + 1)) + ((cj + 1) * (n + 1) + (ci + 1))) = .ok e2 ∧
        sphereRenumberOf outer n (b * ((n + 1) * (n + 1)) + ((cj + 1) * (n + 1) + ci)) = .ok e3) := by
  intro S
  obtain ⟨shellCells, _, hgrid, _, _, _, _, _, hlen, hrange, hget⟩ := sphereGrid_spec inner outer n nz
  rw [hm] at hgrid
  cases hgrid
  have hlen' : shellCells.length = 12 * n * n := by
    rw [hlen]; unfold sphereNBlock sphereBlockNCell; ring
  refine ⟨shellCells, hlen', hrange, ?_, ?_⟩
  · intro i c hi hc
    have := sphereCells_get nz S shellCells i c hi (by omega)
    rw [hlen'] at this
    exact this
  · intro b ci cj hb hi hj
    obtain ⟨cell, hcell, hclen, hent⟩ := hget _ _ (sphereShellCellsRaw_get n b ci cj hb hi hj)
    have renum : ∀ (a c : Nat) (e : Nat) (p : Nat),
        (spherePointTo (sphereDoubles ((1e-12 : R) * outer) (sphereTemp (R := R) n)))[c]? = some p →
        (sphereCompact (sphereDoubles ((1e-12 : R) * outer) (sphereTemp (R := R) n)) 0)[p]? = some e →
        sphereRenumberOf outer n c = .ok e := by
      intro _ c e p h1 h2
      exact sphereRenumber_eq _ _ c p e h1 h2
    obtain ⟨e0, h0, p0, hp0, hc0⟩ := hent 0 _ rfl
    obtain ⟨e1, h1, p1, hp1, hc1⟩ := hent 1 _ rfl
    obtain ⟨e2, h2, p2, hp2, hc2⟩ := hent 2 _ rfl
    obtain ⟨e3, h3, p3, hp3, hc3⟩ := hent 3 _ rfl
    refine ⟨e0, e1, e2, e3, ?_, renum 0 _ e0 p0 hp0 hc0, renum 1 _ e1 p1 hp1 hc1, renum 2 _ e2 p2 hp2 hc2,
      renum 3 _ e3 p3 hp3 hc3⟩
    rw [show b * (n * n) + (cj * n + ci) = b * sphereBlockNCell n + (cj * n + ci) from rfl, hcell]
    have h4 : cell.length = 4 := by simpa using hclen
    match cell, h4, h0, h1, h2, h3 with
    | [a0, a1, a2, a3], _, h0, h1, h2, h3 =>
      simp only [List.getElem?_cons_zero, List.getElem?_cons_succ, Option.some.injEq] at h0 h1 h2 h3
      subst h0; subst h1; subst h2; subst h3
      rfl

/-- what the renumbering means for the positions -/
theorem C18_sphere_corner_positions {R : Type} [Scalar R] (outer : R) (n c : Nat) (p : P3 R × Bool)
    (hp : (sphereTemp (R := R) n)[c]? = some p) :
    let temp := sphereTemp (R := R) n
    let distance := (1e-12 : R) * outer
    let ds := sphereDoubles distance temp
    let shell := sphereShellPoints temp ds
    let snap := fun (q : P3 R) => (⟨sphereSnap q.x, sphereSnap q.y, sphereSnap q.z⟩ : P3 R)
    (ds[c]? = some none → ∃ e, sphereRenumberOf outer n c = .ok e ∧ shell[e]? = some (snap p.1)) ∧
    (∀ j, ds[c]? = some (some j) → j + 1 < c ∧ ∃ q, temp[j]? = some q ∧ p.2 = true ∧ q.2 = true ∧
      sphereClose distance p.1 q.1 = true ∧
      (ds[j]? = some none → ∃ e, sphereRenumberOf outer n c = .ok e ∧ shell[e]? = some (snap q.1))) := by
  intro temp distance ds shell snap
  have key : ∀ (c' i : Nat) (q : P3 R × Bool), (spherePointTo ds)[c']? = some i → temp[i]? = some q → ds[i]? = some none →
      ∃ e, sphereRenumberOf outer n c' = .ok e ∧ shell[e]? = some (snap q.1) := by
    intro c' i q hpt hq hd
    refine ⟨0 + sphereKeep (ds.take i), ?_, ?_⟩
    · exact sphereRenumber_eq _ _ c' i _ hpt (sphereCompact_get ds 0 i hd)
    · rw [Nat.zero_add]
      exact sphereShellPoints_get temp ds i q hq hd
  refine ⟨fun hd => ?_, fun j hd => ?_⟩
  · exact key c c p (by rw [spherePointTo_get ds c none hd]; rfl) hp hd
  · obtain ⟨p', q, hp', hq, h1, h2, h3⟩ := sphereDoubles_some distance temp c j hd
    have : p' = p := by
      have := hp'.symm.trans hp
      simpa using this
    subst this
    refine ⟨sphereDoubles_lt distance temp c j hd, q, hq, h1, h2, h3, fun hdj => ?_⟩
    exact key c j q (by rw [spherePointTo_get ds c (some j) hd]; rfl) hq hdj

/-! ## 3. coordinates -/

/-- for ANY scalar type: node `k·S + j` is the projection of shell point `j` on the radius of layer `k`, with the code's expressions -/
theorem C18_sphere_coordinates {R : Type} [Scalar R] (inner outer : R) (n nz : Nat) (m : GridMesh R)
    (hm : sphereGrid inner outer n nz = .ok m) :
    let S := sphereShellNP outer n
    let temp := sphereTemp (R := R) n
    let shell := sphereShellPoints temp (sphereDoubles ((1e-12 : R) * outer) temp)
    shell.length = S ∧
    ∀ k j, k ≤ nz → j < S →
      m.nodes[k * S + j]? = (shell[j]?).map (sphereLayerNode outer (inner + ((outer - inner) / Scalar.nat nz) * Scalar.nat k)) := by
  intro S temp shell
  obtain ⟨shellCells, _, hgrid, _, _, _, _, hshell, _⟩ := sphereGrid_spec inner outer n nz
  rw [hm] at hgrid
  cases hgrid
  refine ⟨hshell, fun k j hk hj => ?_⟩
  have := sphereNodes_get inner outer nz shell k j hk (by rw [hshell]; exact hj)
  rw [hshell] at this
  exact this

section field
variable {F : Type} [Field F] [LinearOrder F] [IsStrictOrderedRing F]

/-- `project_on_sphere(radius, p)` lies on the sphere of the given radius -/
theorem C18_sphere_project_radius_field (T : Transc F) (hsc : ∀ a : F, T.sin a * T.sin a + T.cos a * T.cos a = 1)
    (radius : F) (p : P3 F) :
    let q := @projectOnSphere F (fieldScalar T) radius p
    q.x * q.x + q.y * q.y + q.z * q.z = radius * radius := by
  intro q
  show radius * T.cos (T.atan2 p.y p.x) * T.sin (T.acos (p.z / T.sqrt (p.x * p.x + p.y * p.y + p.z * p.z))) *
        (radius * T.cos (T.atan2 p.y p.x) * T.sin (T.acos (p.z / T.sqrt (p.x * p.x + p.y * p.y + p.z * p.z)))) +
      radius * T.sin (T.atan2 p.y p.x) * T.sin (T.acos (p.z / T.sqrt (p.x * p.x + p.y * p.y + p.z * p.z))) *
        (radius * T.sin (T.atan2 p.y p.x) * T.sin (T.acos (p.z / T.sqrt (p.x * p.x + p.y * p.y + p.z * p.z)))) +
      radius * T.cos (T.acos (p.z / T.sqrt (p.x * p.x + p.y * p.y + p.z * p.z))) *
        (radius * T.cos (T.acos (p.z / T.sqrt (p.x * p.x + p.y * p.y + p.z * p.z)))) = radius * radius
  generalize T.atan2 p.y p.x = th
  generalize T.acos (p.z / T.sqrt (p.x * p.x + p.y * p.y + p.z * p.z)) = ph
  linear_combination (radius * radius * T.sin ph * T.sin ph) * hsc th + (radius * radius) * hsc ph

theorem sphere_sqrt_sq (T : Transc F) (hsqrt : ∀ x : F, 0 ≤ x → T.sqrt x * T.sqrt x = x ∧ 0 ≤ T.sqrt x) (r : F) :
    T.sqrt (r * r) = |r| := by
  obtain ⟨h1, h2⟩ := hsqrt (r * r) (mul_self_nonneg r)
  rcases mul_self_eq_mul_self_iff.1 h1 with h | h
  · rw [h] at h2 ⊢; exact (abs_of_nonneg h2).symm
  · rw [h] at h2 ⊢
    have : r ≤ 0 := by linarith
    exact (abs_of_nonpos this).symm

theorem sphere_depth_aux (T : Transc F) (hsqrt : ∀ x : F, 0 ≤ x → T.sqrt x * T.sqrt x = x ∧ 0 ≤ T.sqrt x) (outer r s : F)
    (hs : s = r * r) :
    (if (if outer - T.sqrt s < ((0 : ℕ) : F) then -(outer - T.sqrt s) else outer - T.sqrt s) < ((1e-8 : ℚ) : F)
      then ((0 : ℕ) : F) else outer - T.sqrt s) = annulusClip (outer - |r|) := by
  rw [hs, sphere_sqrt_sq T hsqrt r, Nat.cast_zero]
  have habs : (if outer - |r| < 0 then -(outer - |r|) else outer - |r|) = abs (outer - |r|) := by
    split_ifs with h
    · exact (abs_of_neg h).symm
    · exact (abs_of_nonneg (not_lt.1 h)).symm
  rw [habs]
  rfl

/-- one node of one layer over an ordered field -/
theorem sphereLayerNode_field (T : Transc F) (hsc : ∀ a : F, T.sin a * T.sin a + T.cos a * T.cos a = 1)
    (hsqrt : ∀ x : F, 0 ≤ x → T.sqrt x * T.sqrt x = x ∧ 0 ≤ T.sqrt x) (outer radius : F) (p : P3 F) :
    let nd := @sphereLayerNode F (fieldScalar T) outer radius p
    nd.x * nd.x + nd.y * nd.y + nd.z * nd.z = radius * radius ∧ nd.depth = annulusClip (outer - |radius|) ∧
    (radius = 0 → nd.x = 0 ∧ nd.y = 0 ∧ nd.z = 0) := by
  intro nd
  have hr := C18_sphere_project_radius_field T hsc radius p
  refine ⟨hr, ?_, ?_⟩
  · exact sphere_depth_aux T hsqrt outer radius _ hr
  · rintro rfl
    refine ⟨?_, ?_, ?_⟩
    · show (0 : F) * _ * _ = 0
      simp
    · show (0 : F) * _ * _ = 0
      simp
    · show (0 : F) * _ = 0
      simp

/-- the layers over an ordered field -/
theorem C18_sphere_layers_field (T : Transc F) (hsc : ∀ a : F, T.sin a * T.sin a + T.cos a * T.cos a = 1)
    (hsqrt : ∀ x : F, 0 ≤ x → T.sqrt x * T.sqrt x = x ∧ 0 ≤ T.sqrt x)
    (inner outer : F) (n nz k j : Nat) (hk : k ≤ nz) (hj : j < @sphereShellNP F (fieldScalar T) outer n) :
    let S := @sphereShellNP F (fieldScalar T) outer n
    let r := inner + ((outer - inner) / (nz : F)) * (k : F)
    ∃ m nd, @sphereGrid F (fieldScalar T) inner outer n nz = .ok m ∧ m.nodes[k * S + j]? = some nd ∧
      nd.x * nd.x + nd.y * nd.y + nd.z * nd.z = r * r ∧
      nd.depth = annulusClip (outer - |r|) ∧ (0 ≤ r → nd.depth = annulusClip (outer - r)) ∧
      (r = 0 → nd.x = 0 ∧ nd.y = 0 ∧ nd.z = 0) ∧
      (k = 0 → r = inner) ∧ (0 < nz → k = nz → r = outer ∧ (0 ≤ outer → nd.depth = 0)) := by
  intro S r
  obtain ⟨m, hm⟩ := @C18_sphere_total F (fieldScalar T) inner outer n nz
  obtain ⟨hlen, hnodes⟩ := @C18_sphere_coordinates F (fieldScalar T) inner outer n nz m hm
  have hget := hnodes k j hk hj
  rw [List.getElem?_eq_getElem (lt_of_lt_of_eq hj hlen.symm), Option.map_some] at hget
  obtain ⟨h1, h2, h3⟩ := sphereLayerNode_field T hsc hsqrt outer r _
  refine ⟨m, _, hm, hget, h1, h2, ?_, h3, ?_, ?_⟩
  · intro h0
    rw [abs_of_nonneg h0] at h2
    exact h2
  · rintro rfl
    show inner + ((outer - inner) / (nz : F)) * ((0 : ℕ) : F) = inner
    simp
  · intro hnz hkn
    subst hkn
    have hro : r = outer := by
      show inner + ((outer - inner) / (k : F)) * (k : F) = outer
      have : (k : F) ≠ 0 := Nat.cast_ne_zero.2 (by omega)
      field_simp
      ring
    refine ⟨hro, fun ho => h2.trans ?_⟩
    rw [hro, abs_of_nonneg ho, sub_self]
    unfold annulusClip
    split_ifs <;> rfl

/-- the full sphere: all `S` nodes of the innermost layer are at the centre -/
theorem C18_sphere_centre_field (T : Transc F) (hsc : ∀ a : F, T.sin a * T.sin a + T.cos a * T.cos a = 1)
    (hsqrt : ∀ x : F, 0 ≤ x → T.sqrt x * T.sqrt x = x ∧ 0 ≤ T.sqrt x)
    (outer : F) (n nz j : Nat) (hj : j < @sphereShellNP F (fieldScalar T) outer n) :
    ∃ m nd, @sphereGrid F (fieldScalar T) 0 outer n nz = .ok m ∧ m.nodes[j]? = some nd ∧
      nd.x = 0 ∧ nd.y = 0 ∧ nd.z = 0 ∧ nd.depth = annulusClip outer := by
  obtain ⟨m, nd, hm, hnd, _, hd, _, h0, hr, _⟩ := C18_sphere_layers_field T hsc hsqrt 0 outer n nz 0 j (Nat.zero_le _) hj
  have hr0 : (0 : F) + ((outer - 0) / (nz : F)) * ((0 : ℕ) : F) = 0 := by simp
  obtain ⟨hx, hy, hz⟩ := h0 hr0
  refine ⟨m, nd, hm, by simpa using hnd, hx, hy, hz, ?_⟩
  rw [hd, hr0]
  simp

end field

/-! ### non-vacuity -/

/-- the smallest sphere (one cell per block, one layer) over the reals: the branch runs, has 12 cells, between 2 and 96 nodes -/
example : ∃ m, @sphereGrid ℝ (fieldScalar realTranscC18) 1 2 1 1 = .ok m ∧ m.nCell = 12 ∧ m.cells.length = 12 ∧
    m.nodes.length = m.nP ∧ 2 ≤ m.nP ∧ m.nP ≤ 96 ∧ m.ConnOk 3 := by
  obtain ⟨m, hm⟩ := @C18_sphere_total ℝ (fieldScalar realTranscC18) 1 2 1 1
  obtain ⟨⟨h1, h2, h3, h4⟩, _, hpos, _, hle⟩ := @C18_sphere_counts_partial ℝ (fieldScalar realTranscC18) 1 2 1 1 m hm
  refine ⟨m, hm, by rw [h3], by rw [h4], by rw [h2, h1], by rw [h1]; omega, by rw [h1]; omega,
    @C18_sphere_connectivity_in_range ℝ (fieldScalar realTranscC18) 1 2 1 1 m hm⟩

/-- node 0 of layer 1 (the outer surface) of a shell from radius 1 to 2 with one layer has depth 0 -/
example : ∃ m nd, @sphereGrid ℝ (fieldScalar realTranscC18) 1 2 2 1 = .ok m ∧
    m.nodes[1 * @sphereShellNP ℝ (fieldScalar realTranscC18) 2 2 + 0]? = some nd ∧ nd.depth = 0 := by
  have hpos : 0 < @sphereShellNP ℝ (fieldScalar realTranscC18) 2 2 := by
    obtain ⟨m, hm⟩ := @C18_sphere_total ℝ (fieldScalar realTranscC18) 1 2 2 1
    exact (@C18_sphere_counts_partial ℝ (fieldScalar realTranscC18) 1 2 2 1 m hm).2.2.1
  obtain ⟨m, nd, hm, hnd, _, _, _, _, _, hout⟩ :=
    C18_sphere_layers_field realTranscC18 realTransc_sin_cos realTransc_sqrt 1 2 2 1 1 0 (by omega) hpos
  exact ⟨m, nd, hm, hnd, (hout (by omega) rfl).2 (by norm_num)⟩

/-- the full unit sphere: node 0 is the centre, at depth 1 -/
example : ∃ m nd, @sphereGrid ℝ (fieldScalar realTranscC18) 0 1 2 3 = .ok m ∧ m.nodes[0]? = some nd ∧
    nd.x = 0 ∧ nd.y = 0 ∧ nd.z = 0 ∧ nd.depth = 1 := by
  have hpos : 0 < @sphereShellNP ℝ (fieldScalar realTranscC18) 1 2 := by
    obtain ⟨m, hm⟩ := @C18_sphere_total ℝ (fieldScalar realTranscC18) 0 1 2 3
    exact (@C18_sphere_counts_partial ℝ (fieldScalar realTranscC18) 0 1 2 3 m hm).2.2.1
  obtain ⟨m, nd, hm, hnd, hx, hy, hz, hd⟩ :=
    C18_sphere_centre_field realTranscC18 realTransc_sin_cos realTransc_sqrt 1 2 3 0 hpos
  refine ⟨m, nd, hm, hnd, hx, hy, hz, hd.trans ?_⟩
  unfold annulusClip
  rw [if_neg]
  rw [abs_one]
  norm_num

/-- the hypotheses of `C18_sphere_corner_positions` and of the cell statements are satisfiable: block point 0 exists and is not a double -/
example : ∃ p, (@sphereTemp ℝ (fieldScalar realTranscC18) 1)[0]? = some p :=
  ⟨_, List.getElem?_eq_getElem (by rw [@sphereTemp_length ℝ (fieldScalar realTranscC18) 1]; decide)⟩

example : sphereShellCellsRaw 1 =
    [[0, 1, 3, 2], [4, 5, 7, 6], [8, 9, 11, 10], [12, 13, 15, 14], [16, 17, 19, 18], [20, 21, 23, 22], [24, 25, 27, 26],
     [28, 29, 31, 30], [32, 33, 35, 34], [36, 37, 39, 38], [40, 41, 43, 42], [44, 45, 47, 46]] := by decide

end Gwb
