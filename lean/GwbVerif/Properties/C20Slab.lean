/-
C20 (slab half) — the mass-conserving slab temperature stays inside its envelope, as far as it is a two-line order argument.

`Model/Models/SlabTemp.lean` transliterates `subducting_plate_models/temperature/mass_conserving.cc` (and `plate_model.cc`); the theorems below
are about `MassConserving.analytic` (`get_temperature_analytic`), the function both depth regimes end in, over an ordered field with the
`ErfcLaws` of `Properties/C20.lean` as hypotheses (exhibited over ℝ in `Proofs/SlabTemp.lean`).

* `C20_mass_conserving_bottom_envelope`   bottom side (adjusted distance ≥ 0), half-space reference: between the minimum temperature the model
                                          computed and the background temperature, and equal to the minimum temperature at adjusted distance 0
* `C20_mass_conserving_bottom_monotone`   … and warming monotonically away from the coldest surface
* `C20_mass_conserving_top_no_heating`    top side (adjusted distance < 0) with the incoming temperature not below the minimum temperature and a
                                          non-positive top heat content: the result does not exceed the incoming temperature
* `C20_mass_conserving_outside_identity`  outside its distance range the model returns the incoming temperature (every scalar type)
* `C20_slab_plate_model_outside_identity` the same for the slab `plate model`
Not theorems (explored by the profile oracle and the correspondence): the taper above the coupling depth, the spline, the plate-model reference
inside the slab, the truncated 500-term series of the slab `plate model`.
-/
import GwbVerif.Proofs.SlabTemp
namespace Gwb
open Scalar
set_option linter.unusedSectionVars false

section generic
variable {R : Type} [Scalar R]

/-- **C20** outside its distance range the mass-conserving model leaves the temperature as it was -/
theorem C20_mass_conserving_outside_identity (m : MassConserving R) (ctx : Ctx R) (depth g : R) (pd : PlaneDist R) (ap : AdditionalParams R) (old : R)
    (h : ¬ (pd.distanceFromPlane ≤ m.mx ∧ pd.distanceFromPlane ≥ m.mn)) : m.get ctx depth g pd ap old = .ok old :=
  MassConserving.get_outside m ctx depth g pd ap old h

/-- **C20** outside its distance range the slab plate model leaves the temperature as it was -/
theorem C20_slab_plate_model_outside_identity (m : SlabPlateModel R) (depth g : R) (pd : PlaneDist R) (ap : AdditionalParams R) (old : R)
    (h : ¬ (pd.distanceFromPlane ≤ m.mx ∧ pd.distanceFromPlane ≥ m.mn)) : m.get depth g pd ap old = old :=
  SlabPlateModel.get_outside m depth g pd ap old h

end generic

section field
variable {F : Type} [Field F] [LinearOrder F] [IsStrictOrderedRing F]

/-- **C20** bottom side of the mass-conserving slab (half-space reference): `T_min ≤ T ≤ T_background`, `T = T_min` at adjusted distance 0 -/
theorem C20_mass_conserving_bottom_envelope (T : Transc F) (L : ErfcLaws T) (m : MassConserving F) (hp : m.plateRef = false)
    (thc minT bg old v epa adj : F) (hk : 0 < m.kappa) (ht : 0 < epa) (hadj : 0 ≤ adj) (hT : minT ≤ bg) :
    minT ≤ @MassConserving.analytic F (fieldScalar T) m thc minT bg old v epa adj ∧
    @MassConserving.analytic F (fieldScalar T) m thc minT bg old v epa adj ≤ bg ∧
    (adj = 0 → @MassConserving.analytic F (fieldScalar T) m thc minT bg old v epa adj = minT) :=
  MassConserving.analytic_halfspace_between T L m hp thc minT bg old v epa adj hk ht hadj hT

/-- **C20** … and monotone in the adjusted distance -/
theorem C20_mass_conserving_bottom_monotone (T : Transc F) (L : ErfcLaws T) (m : MassConserving F) (hp : m.plateRef = false)
    (thc minT bg old v epa a1 a2 : F) (hk : 0 < m.kappa) (ht : 0 < epa) (h0 : 0 ≤ a1) (h12 : a1 ≤ a2) (hT : minT ≤ bg) :
    @MassConserving.analytic F (fieldScalar T) m thc minT bg old v epa a1 ≤
      @MassConserving.analytic F (fieldScalar T) m thc minT bg old v epa a2 :=
  MassConserving.analytic_halfspace_mono T L m hp thc minT bg old v epa a1 a2 hk ht h0 h12 hT

/-- **C20** top side: with a non-positive top heat content the slab is never hotter than the incoming temperature -/
theorem C20_mass_conserving_top_no_heating (T : Transc F) (L : ErfcLaws T) (hexp : ∀ x, 0 < T.exp x) (hpow : ∀ x, 0 ≤ T.pow x 2)
    (hpi : 0 < T.pi) (m : MassConserving F) (thc minT bg old v epa adj : F)
    (hk : 0 < m.kappa) (hrho : 0 < m.density) (hcp : 0 < m.cp) (hadj : adj < 0) (hold : ¬ old < minT) (hthc : thc ≤ 0) :
    @MassConserving.analytic F (fieldScalar T) m thc minT bg old v epa adj ≤ old :=
  MassConserving.analytic_top_no_heating T L hexp hpow hpi m thc minT bg old v epa adj hk hrho hcp hadj hold hthc

end field
end Gwb
