/-
C10 / C15 — the quaternion round trip that blends grain orientations between the two sections of a slab or fault:
`mat3_cast(slerp(quat_cast A, quat_cast B, f))` (fault.cc:724-735, subducting_plate.cc; helpers `include/glm/glm.h`;
model `quatCast`, `mat3Cast`, `slerp`, `mix` in `Model/Features/Line.lean`).  Proofs: `Proofs/Quaternion.lean`.

Setting: any ordered field `F` with the libm members `T : Transc F`.  `M3.Rot A` says `A Aᵀ = I`, `det A = 1`.
Assumed laws (all satisfied by the real functions, `C10_quat_laws_real`):
* `SqrtLaw T`   : `sqrt x · sqrt x = x` for `x ≥ 0`;
* `SlerpLaws T` : `0 < eps`, `sin 0 = 0`, the addition formulas of `sin` and `cos`, `sin² + cos² = 1`, `cos (acos c) = c` on `[-1, 1]`.

C10 (at a trench coordinate the section's own value holds):
* `C10_quat_branch_cases`  — `quatCast` takes exactly the branch of the FIRST biggest of `4w²−1, 4x²−1, 4y²−1, 4z²−1`
                              (`BranchW/X/Y/Z`), and returns the explicit quaternion `quatW/X/Y/Z`.
* `C10_quat_roundtrip_w/x/y/z` — in EACH of the four branches `mat3Cast (quatCast A) = A` for a proper rotation `A`
                              (the index and sign conventions of `quat_cast` and `mat3_cast` agree in all four branches).
* `C10_quat_roundtrip`      — hence `mat3Cast (quatCast A) = A` for every proper rotation.
* `C10_quat_unit`           — `quatCast A` is a unit quaternion.
* `C10_slerp_endpoints`     — `slerp q1 q2 0 = q1`, `slerp q1 q2 1 = ±q2` (`−q2` iff `q1·q2 < 0`), in the linear and in the trigonometric
                              branch, for ALL quaternions; `C10_slerp_neg_same_rotation`: `mat3Cast (−q) = mat3Cast q`.
* `C10_slerp_blend_endpoints` — the blend of two proper rotations `A`, `B` is exactly `A` at `f = 0` and exactly `B` at `f = 1`.

C15 (returned matrices are proper rotations):
* `C15_blend_is_rotation`   — in the trigonometric branch (`|q1·q2| ≤ 1 − eps`) the blend of two proper rotations is a proper rotation, for every `f`.
* `C15_blend_linear_norm`   — in the linear (`mix`) branch the result is NOT renormalised: `|q|² = 1 − 2f(1−f)(1−c)` exactly, so
                              `1 − eps/2 < |q|² ≤ 1` for `0 ≤ f ≤ 1`.
* `C15_blend_orthonormal_iff` — `mat3Cast q` has unit rows iff `|q| = 1` or `q` is real; the exact defect is `M Mᵀ − I = 4(|q|²−1)(|v|² I − v vᵀ)`
                              (`C15_blend_defect_exact`).
* `C15_blend_linear_defect` — hence in the linear branch every entry of `M Mᵀ − I` and `det M − 1` is at most `2·eps` in absolute value
                              (`4.4e-16` with the code's threshold `1 − DBL_EPSILON`): harmless, no finding.
-/
import GwbVerif.Proofs.Quaternion
namespace Gwb
open Scalar
set_option linter.unusedSectionVars false
set_option linter.unusedVariables false

section field
variable {F : Type} [Field F] [LinearOrder F] [IsStrictOrderedRing F] (T : Transc F)

/-- which branch `quat_cast` takes, and what it returns there -/
theorem C10_quat_branch_cases (m : M3 F) :
    (BranchW m ∧ @quatCast F (fieldScalar T) m = quatW T m) ∨ (BranchX m ∧ @quatCast F (fieldScalar T) m = quatX T m)
      ∨ (BranchY m ∧ @quatCast F (fieldScalar T) m = quatY T m) ∨ (BranchZ m ∧ @quatCast F (fieldScalar T) m = quatZ T m) := by
  rcases branch_cases m with hb | hb | hb | hb
  · exact Or.inl ⟨hb, quatCast_w T m hb⟩
  · exact Or.inr (Or.inl ⟨hb, quatCast_x T m hb⟩)
  · exact Or.inr (Or.inr (Or.inl ⟨hb, quatCast_y T m hb⟩))
  · exact Or.inr (Or.inr (Or.inr ⟨hb, quatCast_z T m hb⟩))

/-- trace branch (`biggestIndex = 0`, rotations by less than 120°..180° depending on the axis) -/
theorem C10_quat_roundtrip_w (hsq : SqrtLaw T) (A : M3 F) (hA : A.Rot) (hb : BranchW A) :
    @quatCast F (fieldScalar T) A = quatW T A ∧ @mat3Cast F (fieldScalar T) (@quatCast F (fieldScalar T) A) = A := by
  rw [quatCast_w T A hb]; exact ⟨rfl, quat_roundtrip_w T hsq A hA hb⟩
/-- `biggestIndex = 1` (x component biggest) -/
theorem C10_quat_roundtrip_x (hsq : SqrtLaw T) (A : M3 F) (hA : A.Rot) (hb : BranchX A) :
    @quatCast F (fieldScalar T) A = quatX T A ∧ @mat3Cast F (fieldScalar T) (@quatCast F (fieldScalar T) A) = A := by
  rw [quatCast_x T A hb]; exact ⟨rfl, quat_roundtrip_x T hsq A hA hb⟩
/-- `biggestIndex = 2` (y component biggest) -/
theorem C10_quat_roundtrip_y (hsq : SqrtLaw T) (A : M3 F) (hA : A.Rot) (hb : BranchY A) :
    @quatCast F (fieldScalar T) A = quatY T A ∧ @mat3Cast F (fieldScalar T) (@quatCast F (fieldScalar T) A) = A := by
  rw [quatCast_y T A hb]; exact ⟨rfl, quat_roundtrip_y T hsq A hA hb⟩
/-- `biggestIndex = 3` (z component biggest) -/
theorem C10_quat_roundtrip_z (hsq : SqrtLaw T) (A : M3 F) (hA : A.Rot) (hb : BranchZ A) :
    @quatCast F (fieldScalar T) A = quatZ T A ∧ @mat3Cast F (fieldScalar T) (@quatCast F (fieldScalar T) A) = A := by
  rw [quatCast_z T A hb]; exact ⟨rfl, quat_roundtrip_z T hsq A hA hb⟩

/-- `mat3_cast(quat_cast(A)) = A` for every proper rotation -/
theorem C10_quat_roundtrip (hsq : SqrtLaw T) (A : M3 F) (hA : A.Rot) :
    @mat3Cast F (fieldScalar T) (@quatCast F (fieldScalar T) A) = A := quat_roundtrip T hsq A hA

/-- `quat_cast` of a proper rotation is a unit quaternion -/
theorem C10_quat_unit (hsq : SqrtLaw T) (A : M3 F) (hA : A.Rot) : qnorm2 (@quatCast F (fieldScalar T) A) = 1 :=
  quatCast_unit T hsq A hA

/-- the end points of `slerp`, for all quaternions and in both branches -/
theorem C10_slerp_endpoints (L : SlerpLaws T) (q1 q2 : Quat F) :
    @slerp F (fieldScalar T) q1 q2 0 = q1
    ∧ @slerp F (fieldScalar T) q1 q2 1 = (if qdot q1 q2 < 0 then qneg q2 else q2)
    ∧ @mat3Cast F (fieldScalar T) (@slerp F (fieldScalar T) q1 q2 1) = @mat3Cast F (fieldScalar T) q2 := by
  refine ⟨slerp_zero T L q1 q2, slerp_one T L q1 q2, ?_⟩
  rw [slerp_one T L q1 q2]; exact mat3Cast_slerpZ T q1 q2

/-- `q` and `−q` are the same rotation -/
theorem C10_slerp_neg_same_rotation (q : Quat F) : @mat3Cast F (fieldScalar T) (qneg q) = @mat3Cast F (fieldScalar T) q :=
  mat3Cast_neg T q

/-- the blend at `f = 0` / `f = 1` is exactly section A's / section B's matrix -/
theorem C10_slerp_blend_endpoints (hsq : SqrtLaw T) (L : SlerpLaws T) (A B : M3 F) (hA : A.Rot) (hB : B.Rot) :
    @mat3Cast F (fieldScalar T) (@slerp F (fieldScalar T) (@quatCast F (fieldScalar T) A) (@quatCast F (fieldScalar T) B) 0) = A
    ∧ @mat3Cast F (fieldScalar T) (@slerp F (fieldScalar T) (@quatCast F (fieldScalar T) A) (@quatCast F (fieldScalar T) B) 1) = B := by
  obtain ⟨h0, _, h1⟩ := C10_slerp_endpoints T L (@quatCast F (fieldScalar T) A) (@quatCast F (fieldScalar T) B)
  rw [h0, h1]
  exact ⟨quat_roundtrip T hsq A hA, quat_roundtrip T hsq B hB⟩

/-- trigonometric branch: the blend of two proper rotations is a proper rotation, for every section fraction -/
theorem C15_blend_is_rotation (hsq : SqrtLaw T) (L : SlerpLaws T) (A B : M3 F) (hA : A.Rot) (hB : B.Rot) (f : F)
    (htrig : ¬ slerpC (@quatCast F (fieldScalar T) A) (@quatCast F (fieldScalar T) B) > 1 - T.eps) :
    (@mat3Cast F (fieldScalar T) (@slerp F (fieldScalar T) (@quatCast F (fieldScalar T) A) (@quatCast F (fieldScalar T) B) f)).Rot :=
  mat3Cast_rot T _ (slerp_trig_unit T L _ _ f (quatCast_unit T hsq A hA) (quatCast_unit T hsq B hB) htrig)

/-- the same for any two unit quaternions -/
theorem C15_blend_is_rotation_quat (L : SlerpLaws T) (q1 q2 : Quat F) (f : F) (h1 : qnorm2 q1 = 1) (h2 : qnorm2 q2 = 1)
    (htrig : ¬ slerpC q1 q2 > 1 - T.eps) :
    qnorm2 (@slerp F (fieldScalar T) q1 q2 f) = 1 ∧ (@mat3Cast F (fieldScalar T) (@slerp F (fieldScalar T) q1 q2 f)).Rot :=
  ⟨slerp_trig_unit T L q1 q2 f h1 h2 htrig, mat3Cast_rot T _ (slerp_trig_unit T L q1 q2 f h1 h2 htrig)⟩

/-- linear branch: not renormalised; the exact squared norm and its bounds -/
theorem C15_blend_linear_norm (q1 q2 : Quat F) (f : F) (h1 : qnorm2 q1 = 1) (h2 : qnorm2 q2 = 1) (hlin : slerpC q1 q2 > 1 - T.eps) :
    qnorm2 (@slerp F (fieldScalar T) q1 q2 f) = 1 - 2 * f * (1 - f) * (1 - slerpC q1 q2)
    ∧ (0 ≤ f → f ≤ 1 → 1 - T.eps / 2 < qnorm2 (@slerp F (fieldScalar T) q1 q2 f) ∧ qnorm2 (@slerp F (fieldScalar T) q1 q2 f) ≤ 1) :=
  ⟨slerp_linear_norm T q1 q2 f h1 h2 hlin, fun h0 h1' => slerp_linear_bounds T q1 q2 f h1 h2 hlin h0 h1'⟩

/-- the exact orthogonality defect of `mat3_cast q` for any `q` -/
theorem C15_blend_defect_exact (q : Quat F) :
    let M := @mat3Cast F (fieldScalar T) q
    M.a00 * M.a00 + M.a01 * M.a01 + M.a02 * M.a02 - 1 = 4 * (qnorm2 q - 1) * (q.y * q.y + q.z * q.z)
    ∧ M.a00 * M.a10 + M.a01 * M.a11 + M.a02 * M.a12 = 4 * (qnorm2 q - 1) * (-(q.x * q.y))
    ∧ M.a00 * M.a20 + M.a01 * M.a21 + M.a02 * M.a22 = 4 * (qnorm2 q - 1) * (-(q.x * q.z))
    ∧ M.a10 * M.a10 + M.a11 * M.a11 + M.a12 * M.a12 - 1 = 4 * (qnorm2 q - 1) * (q.x * q.x + q.z * q.z)
    ∧ M.a10 * M.a20 + M.a11 * M.a21 + M.a12 * M.a22 = 4 * (qnorm2 q - 1) * (-(q.y * q.z))
    ∧ M.a20 * M.a20 + M.a21 * M.a21 + M.a22 * M.a22 - 1 = 4 * (qnorm2 q - 1) * (q.x * q.x + q.y * q.y)
    ∧ M.a00 * (M.a11 * M.a22 - M.a12 * M.a21) - M.a01 * (M.a10 * M.a22 - M.a12 * M.a20)
        + M.a02 * (M.a10 * M.a21 - M.a11 * M.a20) - 1 = 4 * (qnorm2 q - 1) * (q.x * q.x + q.y * q.y + q.z * q.z) :=
  mat3Cast_defect T q

/-- `mat3_cast q` has unit rows iff `q` is a unit or a real quaternion -/
theorem C15_blend_orthonormal_iff (q : Quat F) :
    (let M := @mat3Cast F (fieldScalar T) q
     M.a00 * M.a00 + M.a01 * M.a01 + M.a02 * M.a02 = 1 ∧ M.a10 * M.a10 + M.a11 * M.a11 + M.a12 * M.a12 = 1
      ∧ M.a20 * M.a20 + M.a21 * M.a21 + M.a22 * M.a22 = 1)
    ↔ (qnorm2 q = 1 ∨ (q.x = 0 ∧ q.y = 0 ∧ q.z = 0)) := mat3Cast_orthonormal_iff T q

/-- linear branch, `0 ≤ f ≤ 1`: every entry of `M Mᵀ − I` and `det M − 1` is at most `2·eps` in absolute value -/
theorem C15_blend_linear_defect (q1 q2 : Quat F) (f : F) (h1 : qnorm2 q1 = 1) (h2 : qnorm2 q2 = 1) (hlin : slerpC q1 q2 > 1 - T.eps)
    (hf0 : 0 ≤ f) (hf1 : f ≤ 1) :
    let M := @mat3Cast F (fieldScalar T) (@slerp F (fieldScalar T) q1 q2 f)
    |M.a00 * M.a00 + M.a01 * M.a01 + M.a02 * M.a02 - 1| ≤ 2 * T.eps
    ∧ |M.a00 * M.a10 + M.a01 * M.a11 + M.a02 * M.a12| ≤ 2 * T.eps
    ∧ |M.a00 * M.a20 + M.a01 * M.a21 + M.a02 * M.a22| ≤ 2 * T.eps
    ∧ |M.a10 * M.a10 + M.a11 * M.a11 + M.a12 * M.a12 - 1| ≤ 2 * T.eps
    ∧ |M.a10 * M.a20 + M.a11 * M.a21 + M.a12 * M.a22| ≤ 2 * T.eps
    ∧ |M.a20 * M.a20 + M.a21 * M.a21 + M.a22 * M.a22 - 1| ≤ 2 * T.eps
    ∧ |M.a00 * (M.a11 * M.a22 - M.a12 * M.a21) - M.a01 * (M.a10 * M.a22 - M.a12 * M.a20)
        + M.a02 * (M.a10 * M.a21 - M.a11 * M.a20) - 1| ≤ 2 * T.eps :=
  slerp_linear_defect T q1 q2 f h1 h2 hlin hf0 hf1

/-! ### non-vacuity: each branch is inhabited by a proper rotation (identity and the three half turns about the axes) -/

example : (⟨1, 0, 0, 0, 1, 0, 0, 0, 1⟩ : M3 F).Rot ∧ BranchW (⟨1, 0, 0, 0, 1, 0, 0, 0, 1⟩ : M3 F) := by
  refine ⟨by constructor <;> norm_num, ?_⟩; unfold BranchW; norm_num
example : (⟨1, 0, 0, 0, -1, 0, 0, 0, -1⟩ : M3 F).Rot ∧ BranchX (⟨1, 0, 0, 0, -1, 0, 0, 0, -1⟩ : M3 F) := by
  refine ⟨by constructor <;> norm_num, ?_⟩; unfold BranchX; norm_num
example : (⟨-1, 0, 0, 0, 1, 0, 0, 0, -1⟩ : M3 F).Rot ∧ BranchY (⟨-1, 0, 0, 0, 1, 0, 0, 0, -1⟩ : M3 F) := by
  refine ⟨by constructor <;> norm_num, ?_⟩; unfold BranchY; norm_num
example : (⟨-1, 0, 0, 0, -1, 0, 0, 0, 1⟩ : M3 F).Rot ∧ BranchZ (⟨-1, 0, 0, 0, -1, 0, 0, 0, 1⟩ : M3 F) := by
  refine ⟨by constructor <;> norm_num, ?_⟩; unfold BranchZ; norm_num

end field

/-- the assumed laws hold for the real functions (`Real.sqrt`, `Real.sin`, `Real.cos`, `Real.arccos`, `eps = 2⁻⁵²`) -/
theorem C10_quat_laws_real : SqrtLaw quatRealTransc ∧ SlerpLaws quatRealTransc := ⟨quatReal_sqrtLaw, quatReal_slerpLaws⟩

/-- both `slerp` branches are inhabited by unit quaternions: `q1 = q2` is linear, a quarter turn apart (`q1·q2 = 0`) is trigonometric -/
example : qnorm2 (⟨1, 0, 0, 0⟩ : Quat ℝ) = 1 ∧ slerpC (⟨1, 0, 0, 0⟩ : Quat ℝ) ⟨1, 0, 0, 0⟩ > 1 - quatRealTransc.eps := by
  refine ⟨by simp [qnorm2], ?_⟩
  simp only [slerpC, qdot, quatRealTransc]; norm_num
example : qnorm2 (⟨0, 1, 0, 0⟩ : Quat ℝ) = 1 ∧ ¬ slerpC (⟨1, 0, 0, 0⟩ : Quat ℝ) ⟨0, 1, 0, 0⟩ > 1 - quatRealTransc.eps := by
  refine ⟨by simp [qnorm2], ?_⟩
  simp only [slerpC, qdot, quatRealTransc]; norm_num

end Gwb
