/-
C01 — order and grouping inside a batched request are irrelevant (corollary of `C01_block_eq_single`).

If the same request entry `p` occurs at position `i` of one batched request and at position `j` of another — a
permutation, a regrouping, a superset, a request with duplicates — then, in a world without random models, the two
answers carry identical blocks for `p`, whatever the engine states the two calls started from.
-/
import GwbVerif.Properties.C01
namespace Gwb
open Scalar
set_option linter.unusedSectionVars false
variable {R G : Type} [Scalar R] [RandGen G R]

/-- **C01** the block answered for an entry does not depend on the request it is batched in, nor on its position there -/
theorem C01_order_and_grouping_irrelevant (w : World R) (hnr : w.NoRandom) (pt : P3 R) (depth : R) (ps qs : List Req)
    (g₁ g₁' g₂ g₂' : G) (out₁ out₂ : List R)
    (h₁ : w.props3 pt depth ps g₁ = .ok (out₁, g₁')) (h₂ : w.props3 pt depth qs g₂ = .ok (out₂, g₂'))
    (i j : Nat) (p : Req) (hi : ps[i]? = some p) (hj : qs[j]? = some p) :
    ∃ e₁ e₂, (entries ps)[i]? = some e₁ ∧ (entries qs)[j]? = some e₂ ∧
      readBlock e₁ p.size out₁ = readBlock e₂ p.size out₂ := by
  obtain ⟨_, e₁, he₁, hs₁⟩ := C01_block_eq_single w hnr pt depth ps g₁ g₁' out₁ h₁ i p hi
  obtain ⟨_, e₂, he₂, hs₂⟩ := C01_block_eq_single w hnr pt depth qs g₂ g₂' out₂ h₂ j p hj
  refine ⟨e₁, e₂, he₁, he₂, ?_⟩
  have := (hs₁ g₁).symm.trans (hs₂ g₁)
  simp only [Except.ok.injEq, Prod.mk.injEq, and_true] at this
  exact this

/-- **C01** in particular a request with a duplicated entry answers the same block twice -/
theorem C01_duplicate_entries_agree (w : World R) (hnr : w.NoRandom) (pt : P3 R) (depth : R) (ps : List Req)
    (g g' : G) (out : List R) (h : w.props3 pt depth ps g = .ok (out, g'))
    (i j : Nat) (p : Req) (hi : ps[i]? = some p) (hj : ps[j]? = some p) :
    ∃ e₁ e₂, (entries ps)[i]? = some e₁ ∧ (entries ps)[j]? = some e₂ ∧
      readBlock e₁ p.size out = readBlock e₂ p.size out :=
  C01_order_and_grouping_irrelevant w hnr pt depth ps ps g g' g g' out out h h i j p hi hj

/-- **C01 (2-D)** the same through the cross-section interface -/
theorem C01_order_and_grouping_irrelevant_2d (w : World R) (hnr : w.NoRandom) (pt : P2 R) (depth : R) (ps qs : List Req)
    (g₁ g₁' g₂ g₂' : G) (out₁ out₂ : List R)
    (h₁ : w.props2 pt depth ps g₁ = .ok (out₁, g₁')) (h₂ : w.props2 pt depth qs g₂ = .ok (out₂, g₂'))
    (i j : Nat) (p : Req) (hi : ps[i]? = some p) (hj : qs[j]? = some p) :
    ∃ e₁ e₂, (entries ps)[i]? = some e₁ ∧ (entries qs)[j]? = some e₂ ∧
      readBlock e₁ p.size out₁ = readBlock e₂ p.size out₂ := by
  obtain ⟨_, e₁, he₁, hs₁⟩ := C01_block_eq_single_2d w hnr pt depth ps g₁ g₁' out₁ h₁ i p hi
  obtain ⟨_, e₂, he₂, hs₂⟩ := C01_block_eq_single_2d w hnr pt depth qs g₂ g₂' out₂ h₂ j p hj
  refine ⟨e₁, e₂, he₁, he₂, ?_⟩
  have := (hs₁ g₁).symm.trans (hs₂ g₁)
  simp only [Except.ok.injEq, Prod.mk.injEq, and_true] at this
  exact this

/-- **C01.1 (2-D)** a batched request through the cross-section interface returns exactly the announced number of values -/
theorem C01_output_size_2d (w : World R) (pt : P2 R) (depth : R) (ps : List Req) :
    Post (G := G) (w.props2 pt depth ps) (fun out => out.length = outputSize ps ∧ outputSize? ps = .ok (outputSize ps)) := by
  intro g out g' h
  rw [World.props2_blocks] at h
  cases hb : w.props2Blocks pt depth ps g with
  | error e => simp [hb, embedBlocks] at h
  | ok r =>
    obtain ⟨bs, g1⟩ := r
    simp only [hb, embedBlocks, List.nil_append, Except.ok.injEq, Prod.mk.injEq] at h
    obtain ⟨rfl, _⟩ := h
    have hf := World.props2Blocks_fits w pt depth ps g bs g1 hb
    exact ⟨hf.flatten_length, outputSize?_eq ps hf.valid⟩

end Gwb
