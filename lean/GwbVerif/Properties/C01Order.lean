/-
C01 — order and grouping inside a batched request are irrelevant (corollary of `C01_block_eq_single`).

If the same request entry `p` occurs at position `i` of one batched request and at position `j` of another — a
permutation, a regrouping, a superset, a request with duplicates — then, in a world without random models, the two
answers carry identical blocks for `p`, whatever the engine states the two calls started from.
-/
import GwbVerif.Properties.C01
import GwbVerif.Properties.C09
namespace Gwb
open Scalar
set_option linter.unusedSectionVars false
variable {R G : Type} [Scalar R] [RandGen G R]

/-- **C01** the block answered for an entry does not depend on the request it is batched in, nor on its position there -/
theorem C01_order_and_grouping_irrelevant (w : World R) (hnr : w.NoRandom) (pt : P3 R) (depth : R) (ps qs : List Req)
    (g₁ g₁' g₂ g₂' : G) (out₁ out₂ : List R)
    (h₁ : w.props3 pt depth ps g₁ = .ok (out₁, g₁')) (h₂ : w.props3 pt depth qs g₂ = .ok (out₂, g₂'))
    (i j : Nat) (p : Req) (hi : ps[i]? = some p) (hj : qs[j]? = some p) :
    ∃ e₁ e₂, (entries ps)[i]? = some e₁ ∧ (entries qs)[j]? = some e₂ ∧
      readBlock e₁ p.size out₁ = readBlock e₂ p.size out₂ := by
  obtain ⟨_, e₁, he₁, hs₁⟩ := C01_block_eq_single w hnr pt depth ps g₁ g₁' out₁ h₁ i p hi
  obtain ⟨_, e₂, he₂, hs₂⟩ := C01_block_eq_single w hnr pt depth qs g₂ g₂' out₂ h₂ j p hj
  refine ⟨e₁, e₂, he₁, he₂, ?_⟩
  have := (hs₁ g₁).symm.trans (hs₂ g₁)
  simp only [Except.ok.injEq, Prod.mk.injEq, and_true] at this
  exact this

/-- **C01** in particular a request with a duplicated entry answers the same block twice -/
theorem C01_duplicate_entries_agree (w : World R) (hnr : w.NoRandom) (pt : P3 R) (depth : R) (ps : List Req)
    (g g' : G) (out : List R) (h : w.props3 pt depth ps g = .ok (out, g'))
    (i j : Nat) (p : Req) (hi : ps[i]? = some p) (hj : ps[j]? = some p) :
    ∃ e₁ e₂, (entries ps)[i]? = some e₁ ∧ (entries ps)[j]? = some e₂ ∧
      readBlock e₁ p.size out = readBlock e₂ p.size out :=
  C01_order_and_grouping_irrelevant w hnr pt depth ps ps g g' g g' out out h h i j p hi hj

/-- **C01 (2-D)** the same through the cross-section interface -/
theorem C01_order_and_grouping_irrelevant_2d (w : World R) (hnr : w.NoRandom) (pt : P2 R) (depth : R) (ps qs : List Req)
    (g₁ g₁' g₂ g₂' : G) (out₁ out₂ : List R)
    (h₁ : w.props2 pt depth ps g₁ = .ok (out₁, g₁')) (h₂ : w.props2 pt depth qs g₂ = .ok (out₂, g₂'))
    (i j : Nat) (p : Req) (hi : ps[i]? = some p) (hj : qs[j]? = some p) :
    ∃ e₁ e₂, (entries ps)[i]? = some e₁ ∧ (entries qs)[j]? = some e₂ ∧
      readBlock e₁ p.size out₁ = readBlock e₂ p.size out₂ := by
  obtain ⟨_, e₁, he₁, hs₁⟩ := C01_block_eq_single_2d w hnr pt depth ps g₁ g₁' out₁ h₁ i p hi
  obtain ⟨_, e₂, he₂, hs₂⟩ := C01_block_eq_single_2d w hnr pt depth qs g₂ g₂' out₂ h₂ j p hj
  refine ⟨e₁, e₂, he₁, he₂, ?_⟩
  have := (hs₁ g₁).symm.trans (hs₂ g₁)
  simp only [Except.ok.injEq, Prod.mk.injEq, and_true] at this
  exact this

/-- **C01.1 (2-D)** a batched request through the cross-section interface returns exactly the announced number of values -/
theorem C01_output_size_2d (w : World R) (pt : P2 R) (depth : R) (ps : List Req) :
    Post (G := G) (w.props2 pt depth ps) (fun out => out.length = outputSize ps ∧ outputSize? ps = .ok (outputSize ps)) := by
  intro g out g' h
  rw [World.props2_blocks] at h
  cases hb : w.props2Blocks pt depth ps g with
  | error e => simp [hb, embedBlocks] at h
  | ok r =>
    obtain ⟨bs, g1⟩ := r
    simp only [hb, embedBlocks, List.nil_append, Except.ok.injEq, Prod.mk.injEq] at h
    obtain ⟨rfl, _⟩ := h
    have hf := World.props2Blocks_fits w pt depth ps g bs g1 hb
    exact ⟨hf.flatten_length, outputSize?_eq ps hf.valid⟩

theorem Fits.flatten_inj {ps : List Req} {bs bs' : List (List R)} (h : Fits ps bs) (h' : Fits ps bs')
    (hfl : bs.flatten = bs'.flatten) : bs = bs' := by
  induction ps generalizing bs bs' with
  | nil => cases bs <;> cases bs' <;> simp_all [Fits]
  | cons p ps ih =>
    cases bs with
    | nil => simp [Fits] at h
    | cons b bs =>
      cases bs' with
      | nil => simp [Fits] at h'
      | cons b' bs' =>
        simp only [Fits] at h h'
        have hlen : b.length = b'.length := by
          have := h.1.symm.trans h'.1
          simpa using this
        simp only [List.flatten_cons] at hfl
        obtain ⟨hb, hrest⟩ := List.append_inj hfl hlen
        rw [hb, ih h.2 h'.2 hrest]

/-- **C01 (2-D)** a 2-D query on a world without random models leaves the engine unchanged and does not depend on it -/
theorem C01_no_hidden_state_2d (w : World R) (hnr : w.NoRandom) (pt : P2 R) (depth : R) (ps : List Req)
    (g g' : G) (out : List R) (h : w.props2 pt depth ps g = .ok (out, g')) :
    g' = g ∧ ∀ g₂ : G, w.props2 pt depth ps g₂ = .ok (out, g₂) := by
  cases hc : w.cross with
  | none => rw [C09_no_cross_section_refused w hc] at h; cases h
  | some c =>
    obtain ⟨c0, c1⟩ := c
    obtain ⟨hok, herr⟩ := C09_2d_is_projected_3d w c0 c1 hc pt depth ps g
    cases h3 : w.props3 (w.lift2 c0 c1 pt) depth ps g with
    | error e => rw [herr e h3] at h; cases h
    | ok r =>
      obtain ⟨out3, g3⟩ := r
      obtain ⟨bs, hf, rfl, h2⟩ := hok _ g3 h3
      rw [h2] at h
      simp only [Except.ok.injEq, Prod.mk.injEq] at h
      obtain ⟨rfl, rfl⟩ := h
      obtain ⟨hg, hall⟩ := C01_no_hidden_state w hnr _ depth ps g g3 _ h3
      refine ⟨hg, fun g₂ => ?_⟩
      obtain ⟨bs', hf', hfl, h2'⟩ := (C09_2d_is_projected_3d w c0 c1 hc pt depth ps g₂).1 _ g₂ (hall g₂)
      rw [h2', Fits.flatten_inj hf hf' hfl]

end Gwb
