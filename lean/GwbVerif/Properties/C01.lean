/-
C01 — Query answers are a pure function of the input file and the query; batching is transparent.

Model: `World.props3` / `World.props2` (Model/World.lean), transliterated from world.cc:314-480.
All theorems hold for every scalar type `R` with a `Scalar R` instance and *no laws* — in particular for the
`Float` instance that the correspondence check runs against the C++ library.

What is proved here
* `C01_output_size`      a batched request returns exactly the announced number of values;
* `C01_layout`           blocks are laid out in request order at the prefix sums of their sizes (disjoint);
* `C01_block_eq_single`  for worlds without random models, block `i` of a batched answer is *equal* to the
                         answer of the stand-alone request `[ps[i]]`, from any engine state (3-D);
* `C01_block_eq_single_2d` the same through the 2-D interface;
* `C01_single_entry_points` `temperature` / `composition` are the one-entry requests;
* `C01_no_hidden_state`  a non-random query does not change the only state a query can touch (the engine).
History / other-worlds independence of the *C++* (no hidden statics) cannot be a theorem about the model, in
which a query is a function of `(world, point, depth, request, engine state)` by construction; it is what the
correspondence check compares (interleaved query histories over several live worlds, DESIGN §6 C01.6).
-/
import GwbVerif.Proofs.TwoD
namespace Gwb
open Scalar
set_option linter.unusedSectionVars false
variable {R G : Type} [Scalar R] [RandGen G R]

/-- **C01.1** a batched request returns exactly the announced number of values -/
theorem C01_output_size (w : World R) (pt : P3 R) (depth : R) (ps : List Req) :
    Post (G := G) (w.props3 pt depth ps) (fun out => out.length = outputSize ps ∧ outputSize? ps = .ok (outputSize ps)) := by
  intro g out g' h
  rw [World.props3_blocks] at h
  cases hb : w.props3Blocks pt depth ps g with
  | error e => simp [hb, embedBlocks] at h
  | ok r =>
    obtain ⟨bs, g1⟩ := r
    simp only [hb, embedBlocks, List.nil_append, Except.ok.injEq, Prod.mk.injEq] at h
    obtain ⟨rfl, _⟩ := h
    have hf := World.props3Blocks_fits w pt depth ps g bs g1 hb
    exact ⟨hf.flatten_length, outputSize?_eq ps hf.valid⟩

/-- **C01.2** blocks are laid out in request order: block `i+1` starts where block `i` ends -/
theorem C01_layout (ps : List Req) (i : Nat) (h : i + 1 < ps.length) :
    (entries ps)[i + 1]'(by unfold entries; rw [entriesFrom_length]; exact h)
      = (entries ps)[i]'(by unfold entries; rw [entriesFrom_length]; omega) + (ps[i]'(by omega)).size :=
  entries_step ps i h

/-- **C01.4** batching is transparent (3-D): in a world without random models, if the batched request `ps`
answers `out`, then the stand-alone request `[p]` for its `i`-th entry answers exactly the `i`-th block of `out`
(the `p.size` values at offset `entries ps [i]`) — from *any* engine state, leaving it unchanged. -/
theorem C01_block_eq_single (w : World R) (hnr : w.NoRandom) (pt : P3 R) (depth : R) (ps : List Req)
    (g g' : G) (out : List R) (h : w.props3 pt depth ps g = .ok (out, g'))
    (i : Nat) (p : Req) (hp : ps[i]? = some p) :
    g' = g ∧ ∃ e, (entries ps)[i]? = some e ∧
      ∀ g₂ : G, w.props3 pt depth [p] g₂ = .ok (readBlock e p.size out, g₂) := by
  rw [World.props3_blocks] at h
  cases hb : w.props3Blocks pt depth ps g with
  | error e => simp [hb, embedBlocks] at h
  | ok r =>
    obtain ⟨bs, g1⟩ := r
    simp only [hb, embedBlocks, List.nil_append, Except.ok.injEq, Prod.mk.injEq] at h
    obtain ⟨rfl, rfl⟩ := h
    have hf := World.props3Blocks_fits w pt depth ps g bs g1 hb
    obtain ⟨hg, b, hbi, hall⟩ := World.props3Blocks_nth w hnr pt depth ps bs g g1 hb i p hp
    obtain ⟨e, he, hr⟩ := hf.readBlock_nth 0 [] rfl i p b hp hbi
    refine ⟨hg, e, he, fun g₂ => ?_⟩
    rw [World.props3_blocks, hall g₂]
    simp only [embedBlocks, List.nil_append, List.flatten_cons, List.flatten_nil, List.append_nil]
    simp only [List.nil_append] at hr
    rw [hr]

/-- **C01.4 (2-D)** the same through the cross-section interface -/
theorem C01_block_eq_single_2d (w : World R) (hnr : w.NoRandom) (pt : P2 R) (depth : R) (ps : List Req)
    (g g' : G) (out : List R) (h : w.props2 pt depth ps g = .ok (out, g'))
    (i : Nat) (p : Req) (hp : ps[i]? = some p) :
    g' = g ∧ ∃ e, (entries ps)[i]? = some e ∧
      ∀ g₂ : G, w.props2 pt depth [p] g₂ = .ok (readBlock e p.size out, g₂) := by
  rw [World.props2_blocks] at h
  cases hb : w.props2Blocks pt depth ps g with
  | error e => simp [hb, embedBlocks] at h
  | ok r =>
    obtain ⟨bs, g1⟩ := r
    simp only [hb, embedBlocks, List.nil_append, Except.ok.injEq, Prod.mk.injEq] at h
    obtain ⟨rfl, rfl⟩ := h
    obtain ⟨hg, b, hbi, hall⟩ := World.props2Blocks_nth w hnr pt depth ps bs g g1 hb i p hp
    have hf : Fits ps bs := World.props2Blocks_fits w pt depth ps g bs g1 hb
    obtain ⟨e, he, hr⟩ := hf.readBlock_nth 0 [] rfl i p b hp hbi
    refine ⟨hg, e, he, fun g₂ => ?_⟩
    rw [World.props2_blocks, hall g₂]
    simp only [embedBlocks, List.nil_append, List.flatten_cons, List.flatten_nil, List.append_nil]
    simp only [List.nil_append] at hr
    rw [hr]

/-- **C01** the single-property entry points are the one-entry requests (world.cc:484-560) -/
theorem C01_single_entry_points (w : World R) (pt : P3 R) (depth : R) (n : Nat) :
    (w.temperature3 pt depth : QM G R) = (do let r ← w.props3 pt depth [Req.temperature]; liftE (idx r 0)) ∧
    (w.composition3 pt depth n : QM G R) = (do let r ← w.props3 pt depth [Req.composition n]; liftE (idx r 0)) :=
  ⟨rfl, rfl⟩

/-- **C01** a query on a world without random models leaves the random-number engine — the only state a query
can touch in the model — unchanged, and its answer does not depend on it. -/
theorem C01_no_hidden_state (w : World R) (hnr : w.NoRandom) (pt : P3 R) (depth : R) (ps : List Req)
    (g g' : G) (out : List R) (h : w.props3 pt depth ps g = .ok (out, g')) :
    g' = g ∧ ∀ g₂ : G, w.props3 pt depth ps g₂ = .ok (out, g₂) := by
  rw [World.props3_blocks] at h
  cases hb : w.props3Blocks pt depth ps g with
  | error e => simp [hb, embedBlocks] at h
  | ok r =>
    obtain ⟨bs, g1⟩ := r
    simp only [hb, embedBlocks, List.nil_append, Except.ok.injEq, Prod.mk.injEq] at h
    obtain ⟨rfl, rfl⟩ := h
    -- state independence of the block-wise computation
    have hsi : StateIndep (G := G) (w.props3Blocks pt depth ps) := by
      unfold World.props3Blocks
      cases hinit : ps.mapM (initBlock w.ctx w.ctx.gravity depth) with
      | error e => exact ⟨.error e, by funext g; simp [liftE_error]⟩
      | ok bs0 =>
        by_cases he : earlyReturn w.ctx depth ps = true
        · exact ⟨.ok bs0, by funext g; simp [he, liftE_ok]⟩
        · have hfs : StateIndep (G := G) (featuresBlocks w.features w.ctx (w.query pt depth) ps bs0) := by
            unfold featuresBlocks
            refine foldlM_stateIndep_mem _ _ (fun b f hf => ?_) _
            unfold Feature.applyBlocks
            cases hc : f.cover w.ctx (w.query pt depth) with
            | error e => exact ⟨.error e, by funext g; simp [liftE_error]⟩
            | ok o =>
              cases o with
              | none => exact ⟨.ok b, by funext g; simp [liftE_ok]⟩
              | some hit =>
                obtain ⟨res, hres⟩ := paintBlocks_stateIndep (G := G) hit (Feature.cover_noRandom f (hnr f hf) _ _ hit hc) w.ctx (w.query pt depth) ps b
                exact ⟨res, by funext g; simp [hres]⟩
          obtain ⟨res, hres⟩ := hfs
          cases res with
          | error e => exact ⟨.error e, by funext g; simp [he, hres, liftE_error]⟩
          | ok bs1 => exact ⟨.ok (reimposeBlocks w.ctx depth ps bs1), by funext g; simp [he, hres, liftE_ok]⟩
    obtain ⟨hg, hall⟩ := hsi.ok_any hb
    refine ⟨hg, fun g₂ => ?_⟩
    rw [World.props3_blocks, hall g₂]; rfl

end Gwb
