/-
C11 — Depth surfaces given at points are honoured, affine-exact and bounded.

Model: `Tri.precompute`, `inTriangle`, `Surface.localValue`, `minMax`, `Surface.build` (Model/Geometry/Surface.lean, from
objects/surface.cc) and the nodal merge `mergePoint` (Model/Parse/Json.lean, from parameters.cc:640-668).
Helper vocabulary (Proofs/Surface.lean): `Tri.c6 t`, `Tri.sNum t p`, `Tri.tNum t p` are `precomputed[6]`, `s_no_area`,
`t_no_area`; `Tri.interp t p` is the value `inTriangle` returns when its test accepts `p`; `Tri.Accepts t p` is that test;
`inTriangle t t.precompute p = if t.Accepts p then some (t.interp p) else none` (`inTriangle_precompute`, every `Scalar R`).
Over an ordered field `c6 = (p2−p0)×(p1−p0)`, `s = (p2−p0)×(p−p0)`, `t = (p0−p1)×(p−p1)`, `c6−s−t = (p1−p2)×(p−p2)`
(`Tri.c6_field` …): `c6` is MINUS twice the usual signed area, positive when `p0 p1 p2` run clockwise.

What is proved (ordered field `F` through `fieldScalar T` unless said otherwise):

* `C11_vertex_reproduction`  — `c6 ≠ 0`: the interpolation formula returns `p_i.z` at vertex `i` (i = 0, 1, 2).
  `C11_vertex_accepted`      — `c6 > 0`, `ε ≥ 0`: the test accepts the three vertices, so `inTriangle` returns `some p_i.z` there.
* `C11_bounded`              — `c6 > 0`, exact containment `0 ≤ s`, `0 ≤ t`, `s + t ≤ c6`: the value lies between the least and the
  greatest of the three nodal values.  `C11_accepts_of_contained`: such points are accepted by the tolerant test (`ε ≥ 0`).
* Orientation.  The test `s ≥ −tol ∧ t ≥ −tol ∧ s+t−c6 ≤ c6·tol` (tol = 1e4·ε) accepts triangles with `c6 > 0`, i.e. the CLOCKWISE
  ones (negative usual signed area).  For `c6 < 0` the exact conditions `0 ≤ s, 0 ≤ t, s+t ≤ c6` are contradictory
  (`C11_bounded_neg_vacuous`), and the tolerant test rejects EVERY point as soon as `c6·(1+tol) < −2·tol`
  (`C11_negative_orientation_rejected`); only triangles with `|c6| ≲ 2e4·ε` escape, for those nothing is claimed.
* `C11_bounded_tolerant`     — what the tolerant test really guarantees (`c6 > 0`, `ε ≥ 0`): whenever `inTriangle` returns `some v`,
  `lo − (hi−lo)·δ ≤ v ≤ hi + (hi−lo)·δ` with `δ = 1e4·ε·(c6+2)/c6` for any bounds `lo ≤ z_i ≤ hi`.  The slack is real:
  `C11_tolerance_overshoot` exhibits a triangle and an accepted point whose value exceeds the largest nodal value.
* `C11_affine_exact`         — `c6 ≠ 0`, nodal values `a + b·x_i + c·y_i`: the formula gives `a + b·x + c·y` at every point (no containment).
  `C11_affine_any_triangulation_gen` — a non-constant surface whose stored constants are `Tri.precompute` of its triangles
  (`Surface.PreOk`, which `Surface.build` establishes: `C11_build_preOk`), all triangles non-degenerate and carrying values of one
  affine `f`: `localValue spherical p = ok v` implies `v = f p`, or `spherical` and `v = f (otherPoint p)`.
  `C11_affine_any_triangulation` is the Cartesian case (`v = f p`), `C11_affine_any_triangulation_spherical` the spherical one.
  Nothing about the triangulation or the kd-tree order is assumed (they are inputs of the model).  This rests on
  `Surface.localValue_produces` (every `Scalar R`): the returned value was produced by `inTriangle` on a stored triangle.
* `C11_minmax`               — `minMax v0 vs` is (least, greatest) element of `v0 :: vs`.
  `C11_build_minmax`         — for a built surface `minimum`/`maximum` are nodal values and `minimum ≤ v ≤ maximum` for every nodal value `v`.
  `C11_surface_bounded_tolerant` — built surface, all triangles `c6 > 0`, `ε ≥ 0`: `localValue = ok v` implies, for the triangle `t` that
  produced it, `minimum − (maximum−minimum)·δ_t ≤ v ≤ maximum + (maximum−minimum)·δ_t`, `δ_t = 1e4·ε·(c6_t+2)/c6_t`.
  The slack-free statement `C11_surface_bounded` is kept as a `def … : Prop`; it is NOT proved (and by `C11_tolerance_overshoot`
  it cannot hold triangle by triangle): a point within the tolerance outside a triangle is accepted and extrapolated.
* Nodal merge, every `Scalar R` (`nodeMatches c0 c1 q := approx q.x c0 && approx q.y c1`):
  `C11_merge_closed_form` — `mergePoint` = "first matching node gets the value, no node added; else append";
  `C11_merge_replace`, `C11_merge_append`, `C11_merge_keep` (a non-matching node keeps value and position),
  `C11_merge_listed` (some node, the point itself or one `approx`-equal to it, carries the listed value afterwards),
  `C11_unlisted_corner_keeps_default` (through a whole sequence of merges, starting from `corners.map (fun _ => d)`).
* `approx` over `F`: `C11_approx_self_iff` — `0 < ε`: `approx a a = true ↔ a ≠ 0`;  `C11_approx_zero_false` — `approx 0 0 = false`
  (RECORDED DEFECT of the code: `|a−b| < |min a b|·ε·1e4` is `0 < 0` at zero);  `C11_approx_zero_never` — with `1e4·ε ≤ 1` nothing at
  all is `approx`-equal to `0`, so a node with a zero coordinate can never be matched:
  `C11_axis_node_never_replaced` (its value survives every merge) and the full statement `C11_corner_replaced` is FALSE
  (`C11_corner_replaced_false`: listing the corner `(0,0)` appends a duplicate node instead of replacing the default).
  `C11_corner_replaced_partial` — a listed point equal to corner `i`, both coordinates non-zero, no earlier corner matching:
  the default at corner `i` is replaced and no node is added.

What is NOT proved / not covered:
* Theorems on the formula (`C11_vertex_reproduction`, `C11_bounded`, `C11_affine_exact`) are about `Tri.interp`; the acceptance test
  of `inTriangle` has an ABSOLUTE tolerance `1e4·ε` on the un-normalised numbers, which these theorems do not cover — only
  `C11_bounded_tolerant`, `C11_negative_orientation_rejected`, `C11_vertex_accepted`, `C11_accepts_of_contained` speak about it.
* Everything is exact field arithmetic; rounding of the doubles is not modelled here.
* That `localValue` succeeds (finds a triangle) for a point of the polygon: depends on the Delaunay triangulation and kd-tree, which
  are inputs.  That every polygon corner/listed point is a vertex of some triangle is likewise a property of the triangulation
  (`Surface.build` only checks the converse, `vertexKnown`).
* The JSON walk of `Cur.getValueAtPoints` around `mergePoint` (parsing, the "no points" overwrite branch) is not connected to
  `mergeList`; the merge theorems are about `mergePoint` and its iteration.
-/
import GwbVerif.Proofs.Surface
namespace Gwb
open Scalar
set_option linter.unusedSectionVars false

section field
variable {F : Type} [Field F] [LinearOrder F] [IsStrictOrderedRing F] (T : Transc F)

/-! ### 1. vertex reproduction -/

/-- **C11** the interpolation formula reproduces the nodal value at each of the three vertices (`c6 ≠ 0`) -/
theorem C11_vertex_reproduction (t : Tri F) (h6 : @Tri.c6 F (fieldScalar T) t ≠ 0) :
    @Tri.interp F (fieldScalar T) t ⟨t.p0.x, t.p0.y⟩ = t.p0.z ∧
    @Tri.interp F (fieldScalar T) t ⟨t.p1.x, t.p1.y⟩ = t.p1.z ∧
    @Tri.interp F (fieldScalar T) t ⟨t.p2.x, t.p2.y⟩ = t.p2.z := by
  have h6' := h6
  rw [Tri.c6_field] at h6'
  refine ⟨?_, ?_, ?_⟩
  all_goals
    rw [Tri.interp_field T t _ h6, div_eq_iff h6, Tri.c6_field, Tri.sNum_field, Tri.tNum_field]
    unfold crossP P3.xy
    simp only
    ring

/-- **C11** with `c6 > 0` and `ε ≥ 0` the test accepts the vertices: `inTriangle` returns the nodal value there -/
theorem C11_vertex_accepted (t : Tri F) (h6 : 0 < @Tri.c6 F (fieldScalar T) t) (heps : 0 ≤ T.eps) :
    @inTriangle F (fieldScalar T) t (@Tri.precompute F (fieldScalar T) t) ⟨t.p0.x, t.p0.y⟩ = some t.p0.z ∧
    @inTriangle F (fieldScalar T) t (@Tri.precompute F (fieldScalar T) t) ⟨t.p1.x, t.p1.y⟩ = some t.p1.z ∧
    @inTriangle F (fieldScalar T) t (@Tri.precompute F (fieldScalar T) t) ⟨t.p2.x, t.p2.y⟩ = some t.p2.z := by
  obtain ⟨v0, v1, v2⟩ := C11_vertex_reproduction T t (ne_of_gt h6)
  have h6' := h6
  rw [Tri.c6_field] at h6'
  unfold crossP P3.xy at h6'
  simp only at h6'
  have hpos : 0 ≤ @Tri.c6 F (fieldScalar T) t * 10000 * T.eps := by positivity
  have hpos' : 0 ≤ 10000 * T.eps := by positivity
  refine ⟨?_, ?_, ?_⟩
  · rw [@inTriangle_precompute F (fieldScalar T), if_pos, v0]
    rw [Tri.accepts_field]
    have hs : @Tri.sNum F (fieldScalar T) t ⟨t.p0.x, t.p0.y⟩ = 0 := by
      rw [Tri.sNum_field]; unfold crossP P3.xy; simp only; ring
    have ht : @Tri.tNum F (fieldScalar T) t ⟨t.p0.x, t.p0.y⟩ = 0 := by
      rw [Tri.tNum_field]; unfold crossP P3.xy; simp only; ring
    rw [hs, ht]
    refine ⟨by linarith, by linarith, by linarith⟩
  · rw [@inTriangle_precompute F (fieldScalar T), if_pos, v1]
    rw [Tri.accepts_field]
    have hs : @Tri.sNum F (fieldScalar T) t ⟨t.p1.x, t.p1.y⟩ = @Tri.c6 F (fieldScalar T) t := by
      rw [Tri.sNum_field, Tri.c6_field]; rfl
    have ht : @Tri.tNum F (fieldScalar T) t ⟨t.p1.x, t.p1.y⟩ = 0 := by
      rw [Tri.tNum_field]; unfold crossP P3.xy; simp only; ring
    rw [hs, ht]
    refine ⟨by linarith, by linarith, by linarith⟩
  · rw [@inTriangle_precompute F (fieldScalar T), if_pos, v2]
    rw [Tri.accepts_field]
    have hs : @Tri.sNum F (fieldScalar T) t ⟨t.p2.x, t.p2.y⟩ = 0 := by
      rw [Tri.sNum_field]; unfold crossP P3.xy; simp only; ring
    have ht : @Tri.tNum F (fieldScalar T) t ⟨t.p2.x, t.p2.y⟩ = @Tri.c6 F (fieldScalar T) t := by
      rw [Tri.tNum_field, Tri.c6_field]; unfold crossP P3.xy; simp only; ring
    rw [hs, ht]
    refine ⟨by linarith, by linarith, by linarith⟩

/-! ### 2. bounds -/

/-- **C11** exact containment in a triangle of the accepted orientation (`c6 > 0`): the value lies between the least and the
greatest of the three nodal values -/
theorem C11_bounded (t : Tri F) (p : P2 F) (h6 : 0 < @Tri.c6 F (fieldScalar T) t)
    (hs : 0 ≤ @Tri.sNum F (fieldScalar T) t p) (ht : 0 ≤ @Tri.tNum F (fieldScalar T) t p)
    (hst : @Tri.sNum F (fieldScalar T) t p + @Tri.tNum F (fieldScalar T) t p ≤ @Tri.c6 F (fieldScalar T) t) :
    min t.p0.z (min t.p1.z t.p2.z) ≤ @Tri.interp F (fieldScalar T) t p ∧
    @Tri.interp F (fieldScalar T) t p ≤ max t.p0.z (max t.p1.z t.p2.z) := by
  have := Tri.interp_bounds T t p (min t.p0.z (min t.p1.z t.p2.z)) (max t.p0.z (max t.p1.z t.p2.z)) 0 0 0 h6
    (min_le_left _ _) (le_trans (min_le_right _ _) (min_le_left _ _)) (le_trans (min_le_right _ _) (min_le_right _ _))
    (le_max_left _ _) (le_trans (le_max_left _ _) (le_max_right _ _)) (le_trans (le_max_right _ _) (le_max_right _ _))
    (by linarith) (by linarith) (by linarith) le_rfl le_rfl le_rfl
  simpa using this

/-- **C11** for `c6 < 0` the exact containment conditions of the code's sign convention cannot hold: the statement is vacuous there -/
theorem C11_bounded_neg_vacuous (t : Tri F) (p : P2 F) (h6 : @Tri.c6 F (fieldScalar T) t < 0)
    (hs : 0 ≤ @Tri.sNum F (fieldScalar T) t p) (ht : 0 ≤ @Tri.tNum F (fieldScalar T) t p)
    (hst : @Tri.sNum F (fieldScalar T) t p + @Tri.tNum F (fieldScalar T) t p ≤ @Tri.c6 F (fieldScalar T) t) : False := by
  linarith

/-- **C11** points exactly inside a `c6 > 0` triangle pass the tolerant test -/
theorem C11_accepts_of_contained (t : Tri F) (p : P2 F) (h6 : 0 < @Tri.c6 F (fieldScalar T) t) (heps : 0 ≤ T.eps)
    (hs : 0 ≤ @Tri.sNum F (fieldScalar T) t p) (ht : 0 ≤ @Tri.tNum F (fieldScalar T) t p)
    (hst : @Tri.sNum F (fieldScalar T) t p + @Tri.tNum F (fieldScalar T) t p ≤ @Tri.c6 F (fieldScalar T) t) :
    @inTriangle F (fieldScalar T) t (@Tri.precompute F (fieldScalar T) t) p = some (@Tri.interp F (fieldScalar T) t p) := by
  rw [@inTriangle_precompute F (fieldScalar T), if_pos]
  rw [Tri.accepts_field]
  have hpos : 0 ≤ @Tri.c6 F (fieldScalar T) t * 10000 * T.eps := by positivity
  have hpos' : 0 ≤ 10000 * T.eps := by positivity
  exact ⟨by linarith, by linarith, by linarith⟩

/-- **C11** orientation: a triangle with `c6·(1 + 1e4ε) < −2e4ε` (counter-clockwise in the usual convention, not tiny) is rejected
at every point -/
theorem C11_negative_orientation_rejected (t : Tri F) (p : P2 F)
    (h6 : @Tri.c6 F (fieldScalar T) t * (1 + 10000 * T.eps) < -(2 * (10000 * T.eps))) :
    @inTriangle F (fieldScalar T) t (@Tri.precompute F (fieldScalar T) t) p = none := by
  rw [@inTriangle_precompute F (fieldScalar T), if_neg]
  rw [Tri.accepts_field]
  rintro ⟨h1, h2, h3⟩
  linarith

/-- **C11** what acceptance by the tolerant test guarantees (`c6 > 0`): the value is within
`(hi − lo)·1e4ε·(c6 + 2)/c6` of the interval `[lo, hi]` spanned by the nodal values -/
theorem C11_bounded_tolerant (t : Tri F) (p : P2 F) (v lo hi : F) (h6 : 0 < @Tri.c6 F (fieldScalar T) t) (heps : 0 ≤ T.eps)
    (l0 : lo ≤ t.p0.z) (l1 : lo ≤ t.p1.z) (l2 : lo ≤ t.p2.z) (u0 : t.p0.z ≤ hi) (u1 : t.p1.z ≤ hi) (u2 : t.p2.z ≤ hi)
    (h : @inTriangle F (fieldScalar T) t (@Tri.precompute F (fieldScalar T) t) p = some v) :
    lo - (hi - lo) * (10000 * T.eps * (@Tri.c6 F (fieldScalar T) t + 2) / @Tri.c6 F (fieldScalar T) t) ≤ v ∧
    v ≤ hi + (hi - lo) * (10000 * T.eps * (@Tri.c6 F (fieldScalar T) t + 2) / @Tri.c6 F (fieldScalar T) t) := by
  obtain ⟨hacc, rfl⟩ := @inTriangle_some F (fieldScalar T) _ _ _ h
  rw [Tri.accepts_field] at hacc
  obtain ⟨h1, h2, h3⟩ := hacc
  have hpos : 0 ≤ @Tri.c6 F (fieldScalar T) t * 10000 * T.eps := by positivity
  have hpos' : 0 ≤ 10000 * T.eps := by positivity
  have := Tri.interp_bounds T t p lo hi (@Tri.c6 F (fieldScalar T) t * 10000 * T.eps) (10000 * T.eps) (10000 * T.eps) h6
    l0 l1 l2 u0 u1 u2 (by linarith) h1 h2 hpos hpos' hpos'
  have e : @Tri.c6 F (fieldScalar T) t * 10000 * T.eps + 10000 * T.eps + 10000 * T.eps
      = 10000 * T.eps * (@Tri.c6 F (fieldScalar T) t + 2) := by ring
  rw [e] at this
  exact this

/-! ### 3. affine exactness -/

/-- **C11** nodal values sampled from one affine function: the formula returns that function at every point (`c6 ≠ 0`, no containment) -/
theorem C11_affine_exact (t : Tri F) (a b c : F) (h6 : @Tri.c6 F (fieldScalar T) t ≠ 0)
    (h0 : t.p0.z = a + b * t.p0.x + c * t.p0.y) (h1 : t.p1.z = a + b * t.p1.x + c * t.p1.y)
    (h2 : t.p2.z = a + b * t.p2.x + c * t.p2.y) (p : P2 F) :
    @Tri.interp F (fieldScalar T) t p = a + b * p.x + c * p.y := by
  rw [Tri.interp_field T t _ h6, div_eq_iff h6, Tri.c6_field, Tri.sNum_field, Tri.tNum_field, h0, h1, h2]
  unfold crossP P3.xy
  simp only
  ring

/-- all triangles of `s` are non-degenerate and carry samples of `f(x,y) = a + b·x + c·y` -/
def Surface.AffineData (s : Surface F) (a b c : F) : Prop :=
  ∀ t ∈ s.triangles, @Tri.c6 F (fieldScalar T) t ≠ 0 ∧ t.p0.z = a + b * t.p0.x + c * t.p0.y ∧
    t.p1.z = a + b * t.p1.x + c * t.p1.y ∧ t.p2.z = a + b * t.p2.x + c * t.p2.y

/-- **C11** whatever the triangulation and the kd-tree order: a value returned for a non-constant affine surface is the affine
function at the query point, or (spherical only) at its `±2π` alias -/
theorem C11_affine_any_triangulation_gen (s : Surface F) (a b c : F) (hc : s.constant = false)
    (hpre : @Surface.PreOk F (fieldScalar T) s) (haff : Surface.AffineData T s a b c) (spherical : Bool) (p : P2 F) (v : F)
    (h : @Surface.localValue F (fieldScalar T) s spherical p = .ok v) :
    v = a + b * p.x + c * p.y ∨
      (spherical = true ∧ v = a + b * (@otherPoint F (fieldScalar T) p).x + c * (@otherPoint F (fieldScalar T) p).y) := by
  rcases @Surface.localValue_produces F (fieldScalar T) s spherical p v hc h with hp | ⟨hsph, hp⟩
  · obtain ⟨t, ht, _, rfl⟩ := @Surface.produces_preOk F (fieldScalar T) s hpre _ _ hp
    obtain ⟨h6, h0, h1, h2⟩ := haff t ht
    exact Or.inl (C11_affine_exact T t a b c h6 h0 h1 h2 p)
  · obtain ⟨t, ht, _, rfl⟩ := @Surface.produces_preOk F (fieldScalar T) s hpre _ _ hp
    obtain ⟨h6, h0, h1, h2⟩ := haff t ht
    exact Or.inr ⟨hsph, C11_affine_exact T t a b c h6 h0 h1 h2 _⟩

/-- **C11** Cartesian case -/
theorem C11_affine_any_triangulation (s : Surface F) (a b c : F) (hc : s.constant = false)
    (hpre : @Surface.PreOk F (fieldScalar T) s) (haff : Surface.AffineData T s a b c) (p : P2 F) (v : F)
    (h : @Surface.localValue F (fieldScalar T) s false p = .ok v) : v = a + b * p.x + c * p.y := by
  rcases C11_affine_any_triangulation_gen T s a b c hc hpre haff false p v h with h | ⟨h, _⟩
  · exact h
  · cases h

/-- **C11** spherical case: the affine function at the point or at its alias `otherPoint p` (longitude `∓ 2π`) -/
theorem C11_affine_any_triangulation_spherical (s : Surface F) (a b c : F) (hc : s.constant = false)
    (hpre : @Surface.PreOk F (fieldScalar T) s) (haff : Surface.AffineData T s a b c) (p : P2 F) (v : F)
    (h : @Surface.localValue F (fieldScalar T) s true p = .ok v) :
    v = a + b * p.x + c * p.y ∨
      v = a + b * (@otherPoint F (fieldScalar T) p).x + c * (@otherPoint F (fieldScalar T) p).y := by
  rcases C11_affine_any_triangulation_gen T s a b c hc hpre haff true p v h with h | ⟨_, h⟩
  · exact Or.inl h
  · exact Or.inr h

/-- **C11** `Surface.build` stores `Tri.precompute` of the triangles it stores (hypothesis `hpre` above) -/
theorem C11_build_preOk (values : List F) (pts : List (P2 F)) (aux : Option (SurfaceAux F)) (s : Surface F)
    (h : @Surface.build F (fieldScalar T) values pts aux = .ok s) : @Surface.PreOk F (fieldScalar T) s := by
  obtain ⟨_, _, _, _, _, _, hp, _⟩ := @Surface.build_ok F (fieldScalar T) values pts aux s h
  exact hp

/-! ### 4. minimum / maximum -/

/-- **C11** `minMax v0 vs` = (least, greatest) element of `v0 :: vs` -/
theorem C11_minmax (v0 : F) (vs : List F) :
    ((@minMax F (fieldScalar T) v0 vs).1 ∈ v0 :: vs ∧ ∀ x ∈ v0 :: vs, (@minMax F (fieldScalar T) v0 vs).1 ≤ x) ∧
    ((@minMax F (fieldScalar T) v0 vs).2 ∈ v0 :: vs ∧ ∀ x ∈ v0 :: vs, x ≤ (@minMax F (fieldScalar T) v0 vs).2) :=
  minMax_spec T v0 vs

/-- **C11** for a built surface: `minimum`, `maximum` are nodal values and bracket every nodal value -/
theorem C11_build_minmax (values : List F) (pts : List (P2 F)) (aux : Option (SurfaceAux F)) (s : Surface F)
    (h : @Surface.build F (fieldScalar T) values pts aux = .ok s) :
    s.minimum ∈ values ∧ s.maximum ∈ values ∧ ∀ v ∈ values, s.minimum ≤ v ∧ v ≤ s.maximum := by
  obtain ⟨v0, rest, hv, hmn, hmx, _, _, _⟩ := @Surface.build_ok F (fieldScalar T) values pts aux s h
  obtain ⟨⟨m1, m2⟩, ⟨x1, x2⟩⟩ := minMax_spec T v0 values
  rw [← hmn] at m1 m2
  rw [← hmx] at x1 x2
  have hsub : ∀ x ∈ v0 :: values, x ∈ values := by
    intro x hx
    rcases List.mem_cons.mp hx with hx | hx
    · rw [hx, hv]; exact List.mem_cons_self
    · exact hx
  exact ⟨hsub _ m1, hsub _ x1, fun v hv' => ⟨m2 v (List.mem_cons_of_mem _ hv'), x2 v (List.mem_cons_of_mem _ hv')⟩⟩

/-- a dumped vertex that passed `vertexKnown` carries one of the nodal values -/
theorem vertexKnown_value (values : List F) (pts : List (P2 F)) (q : P3 F)
    (h : @vertexKnown F (fieldScalar T) values pts q = true) : q.z ∈ values := by
  unfold vertexKnown at h
  rw [List.any_eq_true] at h
  obtain ⟨⟨v, p⟩, hmem, hcond⟩ := h
  simp only [Bool.and_eq_true] at hcond
  have hz : v = q.z := of_decide_eq_true hcond.2
  rw [← hz]
  exact (List.of_mem_zip hmem).1

/-- the slack-free statement (NOT proved; see `C11_tolerance_overshoot` and the header) -/
def C11_surface_bounded : Prop :=
  ∀ (values : List F) (pts : List (P2 F)) (aux : Option (SurfaceAux F)) (s : Surface F),
    @Surface.build F (fieldScalar T) values pts aux = .ok s →
    ∀ (spherical : Bool) (p : P2 F) (v : F), @Surface.localValue F (fieldScalar T) s spherical p = .ok v →
      s.minimum ≤ v ∧ v ≤ s.maximum

/-- **C11** built surface, all triangles of the accepted orientation: the value returned lies in `[minimum, maximum]` up to the
slack `(maximum − minimum)·1e4ε·(c6+2)/c6` of the triangle that produced it -/
theorem C11_surface_bounded_tolerant (values : List F) (pts : List (P2 F)) (aux : Option (SurfaceAux F)) (s : Surface F)
    (hb : @Surface.build F (fieldScalar T) values pts aux = .ok s) (heps : 0 ≤ T.eps)
    (hor : ∀ t ∈ s.triangles, 0 < @Tri.c6 F (fieldScalar T) t)
    (spherical : Bool) (p : P2 F) (v : F) (h : @Surface.localValue F (fieldScalar T) s spherical p = .ok v) :
    (s.constant = true ∧ v = s.minimum) ∨
    ∃ t ∈ s.triangles,
      s.minimum - (s.maximum - s.minimum) * (10000 * T.eps * (@Tri.c6 F (fieldScalar T) t + 2) / @Tri.c6 F (fieldScalar T) t) ≤ v ∧
      v ≤ s.maximum + (s.maximum - s.minimum) * (10000 * T.eps * (@Tri.c6 F (fieldScalar T) t + 2) / @Tri.c6 F (fieldScalar T) t) := by
  cases hc : s.constant with
  | true =>
    left
    refine ⟨rfl, ?_⟩
    unfold Surface.localValue at h
    simp only [hc, if_true, bind, Except.bind, pure, Except.pure, Except.ok.injEq] at h
    exact h.symm
  | false =>
    right
    obtain ⟨_, hmx, hall⟩ := C11_build_minmax T values pts aux s hb
    obtain ⟨_, _, _, _, _, _, hpre, hknown⟩ := @Surface.build_ok F (fieldScalar T) values pts aux s hb
    have key : ∀ q, @Surface.Produces F (fieldScalar T) s q v → ∃ t ∈ s.triangles,
        s.minimum - (s.maximum - s.minimum) * (10000 * T.eps * (@Tri.c6 F (fieldScalar T) t + 2) / @Tri.c6 F (fieldScalar T) t) ≤ v ∧
        v ≤ s.maximum + (s.maximum - s.minimum) * (10000 * T.eps * (@Tri.c6 F (fieldScalar T) t + 2) / @Tri.c6 F (fieldScalar T) t) := by
      intro q hq
      obtain ⟨t, ht, hacc, hv⟩ := @Surface.produces_preOk F (fieldScalar T) s hpre _ _ hq
      obtain ⟨k0, k1, k2⟩ := hknown t ht
      have z0 := hall _ (vertexKnown_value T values pts _ k0)
      have z1 := hall _ (vertexKnown_value T values pts _ k1)
      have z2 := hall _ (vertexKnown_value T values pts _ k2)
      refine ⟨t, ht, C11_bounded_tolerant T t q v s.minimum s.maximum (hor t ht) heps z0.1 z1.1 z2.1 z0.2 z1.2 z2.2 ?_⟩
      rw [@inTriangle_precompute F (fieldScalar T), if_pos hacc, hv]
    rcases @Surface.localValue_produces F (fieldScalar T) s spherical p v hc h with hp | ⟨_, hp⟩
    · exact key _ hp
    · exact key _ hp

/-! ### 5. `approx` and the corner replacement -/

/-- **C11** `approx a a` holds exactly for `a ≠ 0` -/
theorem C11_approx_self_iff (heps : 0 < T.eps) (a : F) : @approx F (fieldScalar T) a a = true ↔ a ≠ 0 :=
  approx_self_iff T heps a

/-- **C11** (recorded defect) zero is not `approx`-equal to itself, whatever `ε` -/
theorem C11_approx_zero_false : @approx F (fieldScalar T) 0 0 = false := approx_zero_zero T

/-- **C11** (recorded defect, stronger) with `1e4·ε ≤ 1` nothing is `approx`-equal to zero -/
theorem C11_approx_zero_never (hsmall : T.eps * 10000 ≤ 1) (c : F) :
    @approx F (fieldScalar T) 0 c = false ∧ @approx F (fieldScalar T) c 0 = false := approx_zero T hsmall c

/-- a node with a zero coordinate matches no listed point -/
theorem nodeMatches_axis (hsmall : T.eps * 10000 ≤ 1) (c0 c1 : F) (q : P2 F) (hq : q.x = 0 ∨ q.y = 0) :
    @nodeMatches F (fieldScalar T) c0 c1 q = false := by
  unfold nodeMatches
  rcases hq with hq | hq
  · rw [hq, (approx_zero T hsmall c0).1, Bool.false_and]
  · rw [hq, (approx_zero T hsmall c1).1, Bool.and_false]

/-- **C11** (consequence of the defect) the value of a node with a zero coordinate survives every sequence of merges: a default at
such a corner can never be replaced -/
theorem C11_axis_node_never_replaced (hsmall : T.eps * 10000 ≤ 1) (items : List (F × F × F)) (acc : List F × List (P2 F))
    (hlen : acc.1.length = acc.2.length) (j : Nat) (hj : j < acc.2.length) (hq : acc.2[j].x = 0 ∨ acc.2[j].y = 0) :
    (@mergeList F (fieldScalar T) items acc).1[j]? = acc.1[j]? ∧ (@mergeList F (fieldScalar T) items acc).2[j]? = acc.2[j]? :=
  @mergeList_keep F (fieldScalar T) items acc hlen j hj (fun _ _ => nodeMatches_axis T hsmall _ _ _ hq)

/-- the full statement: a value listed for a point that coincides with polygon corner `i` (no earlier corner matching) replaces that
corner's default and adds no node.  FALSE for the code, see `C11_corner_replaced_false`. -/
def C11_corner_replaced : Prop :=
  ∀ (corners : List (P2 F)) (d value : F) (i : Nat) (hi : i < corners.length),
    (∀ j (hj : j < i), @nodeMatches F (fieldScalar T) corners[i].x corners[i].y (corners[j]'(Nat.lt_trans hj hi)) = false) →
    @mergePoint F (fieldScalar T) value corners[i].x corners[i].y (corners.map (fun _ => d)) corners
      = ((corners.map (fun _ => d)).set i value, corners)

/-- **C11** the part that holds: both coordinates of the corner non-zero -/
theorem C11_corner_replaced_partial (heps : 0 < T.eps) (corners : List (P2 F)) (d value : F) (i : Nat) (hi : i < corners.length)
    (hx : corners[i].x ≠ 0) (hy : corners[i].y ≠ 0)
    (hfirst : ∀ j (hj : j < i), @nodeMatches F (fieldScalar T) corners[i].x corners[i].y (corners[j]'(Nat.lt_trans hj hi)) = false) :
    @mergePoint F (fieldScalar T) value corners[i].x corners[i].y (corners.map (fun _ => d)) corners
      = ((corners.map (fun _ => d)).set i value, corners) := by
  apply @mergePoint_replace F (fieldScalar T) value _ _ _ corners (by simp) i hi _ hfirst
  unfold nodeMatches
  rw [(approx_self_iff T heps _).mpr hx, (approx_self_iff T heps _).mpr hy]
  rfl

/-- **C11** (negative result) the full statement fails: listing the corner `(0,0)` appends a second node `(0,0)` -/
theorem C11_corner_replaced_false : ¬ C11_corner_replaced T := by
  intro h
  have := h [⟨0, 0⟩] 0 1 0 (by simp) (by intro j hj; omega)
  have hno : @mergePoint F (fieldScalar T) 1 0 0 [0] [⟨0, 0⟩] = ([0] ++ [1], [⟨0, 0⟩] ++ [⟨0, 0⟩]) := by
    apply @mergePoint_append F (fieldScalar T) 1 0 0 [0] [⟨0, 0⟩] rfl
    intro q hq
    rw [List.mem_singleton] at hq
    subst hq
    unfold nodeMatches
    rw [approx_zero_zero]
    rfl
  simp only [List.map_cons, List.map_nil, List.getElem_cons_zero] at this
  rw [hno] at this
  have hl := congrArg (fun r => r.2.length) this
  simp at hl

end field

/-! ### 5'. the nodal merge, every `Scalar R` -/
section generic
variable {R : Type} [Scalar R]

/-- **C11** closed form of the merge of one listed point -/
theorem C11_merge_closed_form (value c0 c1 : R) (vs : List R) (ps : List (P2 R)) (hlen : vs.length = ps.length) :
    mergePoint value c0 c1 vs ps =
      match ps.findIdx? (nodeMatches c0 c1) with
      | some i => (vs.set i value, ps)
      | none => (vs ++ [value], ps ++ [⟨c0, c1⟩]) := mergePoint_eq value c0 c1 vs ps hlen

/-- **C11** a listed point `approx`-equal (both coordinates) to node `i`, and to no earlier node, replaces that node's value; no node is added -/
theorem C11_merge_replace (value c0 c1 : R) (vs : List R) (ps : List (P2 R)) (hlen : vs.length = ps.length)
    (i : Nat) (hi : i < ps.length) (hm : (approx ps[i].x c0 && approx ps[i].y c1) = true)
    (hfirst : ∀ j (hj : j < i), (approx (ps[j]'(Nat.lt_trans hj hi)).x c0 && approx (ps[j]'(Nat.lt_trans hj hi)).y c1) = false) :
    mergePoint value c0 c1 vs ps = (vs.set i value, ps) :=
  mergePoint_replace value c0 c1 vs ps hlen i hi hm hfirst

/-- **C11** a listed point matching no node is appended with its value -/
theorem C11_merge_append (value c0 c1 : R) (vs : List R) (ps : List (P2 R)) (hlen : vs.length = ps.length)
    (hno : ∀ q ∈ ps, (approx q.x c0 && approx q.y c1) = false) :
    mergePoint value c0 c1 vs ps = (vs ++ [value], ps ++ [⟨c0, c1⟩]) :=
  mergePoint_append value c0 c1 vs ps hlen hno

/-- **C11** a node not matched by the listed point keeps its value and its position -/
theorem C11_merge_keep (value c0 c1 : R) (vs : List R) (ps : List (P2 R)) (hlen : vs.length = ps.length)
    (j : Nat) (hj : j < ps.length) (hnm : (approx ps[j].x c0 && approx ps[j].y c1) = false) :
    (mergePoint value c0 c1 vs ps).1[j]? = vs[j]? ∧ (mergePoint value c0 c1 vs ps).2[j]? = ps[j]? :=
  mergePoint_keep value c0 c1 vs ps hlen j hj hnm

/-- **C11** after the merge the listed value sits at a node that is the listed point or `approx`-equal to it -/
theorem C11_merge_listed (value c0 c1 : R) (vs : List R) (ps : List (P2 R)) (hlen : vs.length = ps.length) :
    ∃ (k : Nat) (q : P2 R), (mergePoint value c0 c1 vs ps).1[k]? = some value ∧ (mergePoint value c0 c1 vs ps).2[k]? = some q ∧
      (q = ⟨c0, c1⟩ ∨ (approx q.x c0 && approx q.y c1) = true) :=
  mergePoint_listed value c0 c1 vs ps hlen

/-- **C11** a polygon corner matched by none of the listed points keeps the documented default `d` through the whole merge -/
theorem C11_unlisted_corner_keeps_default (corners : List (P2 R)) (d : R) (items : List (R × R × R))
    (j : Nat) (hj : j < corners.length)
    (hnm : ∀ it ∈ items, (approx corners[j].x it.2.1 && approx corners[j].y it.2.2) = false) :
    (mergeList items (corners.map (fun _ => d), corners)).1[j]? = some d ∧
    (mergeList items (corners.map (fun _ => d), corners)).2[j]? = some corners[j] := by
  have := mergeList_keep items (corners.map (fun _ => d), corners) (by simp) j hj hnm
  rw [this.1, this.2]
  simp [hj]

end generic

/-! ### examples: the hypotheses are satisfiable -/
section examples

/-- the clockwise triangle `(0,0,z0) (0,1,z1) (1,0,z2)` has `c6 = 1`; the formula is `z0 + (z1−z0)·y + (z2−z0)·x` -/
def exTri (z0 z1 z2 : ℚ) : Tri ℚ := ⟨⟨0, 0, z0⟩, ⟨0, 1, z1⟩, ⟨1, 0, z2⟩⟩

example (e : ℚ) (z0 z1 z2 : ℚ) : @Tri.c6 ℚ (fieldScalar (c11Transc e)) (exTri z0 z1 z2) = 1 := by
  rw [Tri.c6_field]; unfold crossP P3.xy exTri; norm_num

/-- hypotheses of `C11_bounded` at the centroid-like point `(1/4, 1/4)` -/
example (e : ℚ) (z0 z1 z2 : ℚ) :
    0 < @Tri.c6 ℚ (fieldScalar (c11Transc e)) (exTri z0 z1 z2) ∧
    0 ≤ @Tri.sNum ℚ (fieldScalar (c11Transc e)) (exTri z0 z1 z2) ⟨1/4, 1/4⟩ ∧
    0 ≤ @Tri.tNum ℚ (fieldScalar (c11Transc e)) (exTri z0 z1 z2) ⟨1/4, 1/4⟩ ∧
    @Tri.sNum ℚ (fieldScalar (c11Transc e)) (exTri z0 z1 z2) ⟨1/4, 1/4⟩ + @Tri.tNum ℚ (fieldScalar (c11Transc e)) (exTri z0 z1 z2) ⟨1/4, 1/4⟩
      ≤ @Tri.c6 ℚ (fieldScalar (c11Transc e)) (exTri z0 z1 z2) := by
  rw [Tri.c6_field, Tri.sNum_field, Tri.tNum_field]; unfold crossP P3.xy exTri; norm_num

/-- hypotheses of `C11_affine_exact` with `f = 3 + 2x − 5y` -/
example : (exTri 3 (-2) 5).p0.z = 3 + 2 * (exTri 3 (-2) 5).p0.x + (-5) * (exTri 3 (-2) 5).p0.y ∧
    (exTri 3 (-2) 5).p1.z = 3 + 2 * (exTri 3 (-2) 5).p1.x + (-5) * (exTri 3 (-2) 5).p1.y ∧
    (exTri 3 (-2) 5).p2.z = 3 + 2 * (exTri 3 (-2) 5).p2.x + (-5) * (exTri 3 (-2) 5).p2.y := by
  unfold exTri; norm_num

/-- **C11** the tolerance is observable: with `ε = 2⁻⁵²` the point `(1 + 1e4ε, 0)` outside the triangle is accepted and the returned
value `1 + 1e4ε` exceeds the largest nodal value `1` -/
theorem C11_tolerance_overshoot :
    let e : ℚ := 1 / 2 ^ 52
    @inTriangle ℚ (fieldScalar (c11Transc e)) (exTri 0 0 1) (@Tri.precompute ℚ (fieldScalar (c11Transc e)) (exTri 0 0 1)) ⟨1 + 10000 * e, 0⟩
      = some (1 + 10000 * e) ∧ max (0 : ℚ) (max 0 1) < 1 + 10000 * e := by
  intro e
  constructor
  · rw [@inTriangle_precompute ℚ (fieldScalar (c11Transc e)), if_pos]
    · rw [Tri.interp_field _ _ _ (by rw [Tri.c6_field]; unfold crossP P3.xy exTri; norm_num)]
      rw [Tri.c6_field, Tri.sNum_field, Tri.tNum_field]; unfold crossP P3.xy exTri; norm_num
    · rw [Tri.accepts_field, Tri.c6_field, Tri.sNum_field, Tri.tNum_field]; unfold crossP P3.xy exTri c11Transc
      norm_num [e]
  · norm_num [e]

/-- hypotheses of `C11_corner_replaced_partial`: the unit square shifted to `(1,1)…(2,2)`, corner 2 -/
example (e : ℚ) (he : 0 < e) (he' : e * 10000 < 1 / 2) :
    let corners : List (P2 ℚ) := [⟨1, 1⟩, ⟨2, 1⟩, ⟨2, 2⟩, ⟨1, 2⟩]
    ∀ j (hj : j < 2), @nodeMatches ℚ (fieldScalar (c11Transc e)) 2 2 (corners[j]'(by simp [corners]; omega)) = false := by
  intro corners j hj
  have h12 : @approx ℚ (fieldScalar (c11Transc e)) 1 2 = false := by
    rw [Bool.eq_false_iff, ne_eq, approx_field]
    show ¬ (|(1 : ℚ) - 2| < |min 1 2| * e * 10000)
    norm_num
    linarith
  rcases j with _ | _ | j
  · show (@approx ℚ (fieldScalar (c11Transc e)) 1 2 && @approx ℚ (fieldScalar (c11Transc e)) 1 2) = false
    rw [h12]; rfl
  · show (@approx ℚ (fieldScalar (c11Transc e)) 2 2 && @approx ℚ (fieldScalar (c11Transc e)) 1 2) = false
    rw [h12, Bool.and_false]
  · omega

end examples

end Gwb
