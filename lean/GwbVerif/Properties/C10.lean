/-
C10 — Segment models are inherited and sections interpolate only between neighbours.

Model: `resolveModels`, `parseSegment`, `parseSegments`, `parseLine`, `parseWorld` (Model/Parse/Json.lean, from parameters.cc:1221-1366 /
1460-1606 and features/subducting_plate.cc:197-331), `LineFeature.coversBody`, `covers`, `linePaintAt`, `apply` (Model/Features/Line.lean,
from subducting_plate.cc:556-594, 644, 689, 727-739 and fault.cc) and `distancePointFromCurvedPlanes` (Model/Geometry/Dpfcp.lean).
Helper vocabulary (Proofs/Sections.lean; all of it is DEFINED there from the model's own code and tied to it by a `rfl`/unfolding theorem):
`lerp a b f = a + f*(b−a)`; `Segment.secThUp/secThDown/secThLocal/secTtUp/secTtDown/secTtLocal`, `sectionsMaxLen` (the interpolated quantities of
`coversBody`); `coversDecide`, `readAndDecide` (`coversBody = geometry >>= readAndDecide`, `coversBody_eq`); `sectionTemp/Comp/Grains/Vel`
(what one section's models make of the old value); `inheritedJson anc key` (value of `key` in the first ancestor that has it);
`parseModelList`; `sectionCoordinate`, `sectionStep`, `parseLineSections` (the pieces of `parseLine`, `parseLine_eq` by `rfl`);
`featureStep` (the body of the feature fold of `parseWorld`, `parseWorld_eq` by `rfl`); `LineFeature.setSection f k sec'`.

1. INHERITANCE (every `Scalar R`, no laws; JSON objects enter only through `getObjVal?`/`Cur.val?` hypotheses).
 (a) `C10_resolve_own` — a segment with its own `key` ignores the ancestors.  `C10_resolve_inherit_nearest` — without the key it gets the
     value of the NEAREST ancestor that has it.  `C10_resolve_nowhere` — none anywhere: no models.  `C10_resolve_section_then_feature` —
     the chain `[section entry, feature]` of `parseLine`: entry first, then feature, else nothing.
 (b) `C10_explicit_models` — `seg'` = `seg` with the inherited JSON of the four kinds written out (and `seg` had none): same `Segment`.
     `C10_explicit_models_ancestor_free` — a segment with all four kinds of its own does not depend on the chain.
     `C10_explicit_models_any_chain` — both together.  `C10_explicit_models_feature` — feature level (`FeatureExplicit`: every
     default segment and every segment of every `sections` entry made explicit, kind by kind "untouched or absent→inherited"):
     same `LineFeature` and tag table.
 (c) `C10_parseLine_factor` names the pieces (including the two early exits `coords.length < 2` and `defaultSegs.length == 0`; the
     theorems below need no extra hypothesis for them: both sides fail alike there).  `C10_repeat_default_segments`, `C10_repeat_default_section` (one entry: `List.set` with the
     same element), `C10_repeat_default_sections` (any list, by induction), `C10_repeat_default_feature` (the parsed feature is equal).
     The hypothesis that the section-segment schema equals the feature-segment schema is explicit (`hseg`, `hsss`).
     `C10_section_entry_sets_one` — ANY entry overrides exactly one coordinate (`acc.set k segs`, `k < n`).
 World level: `C10_world_indistinguishable` — documents agreeing on the scalar top-level entries whose `features` are element-wise
     equal or `FeatureJsonEquiv` (slab/fault, same `model`, equal `parseLine` under the selected schema) give EQUAL `parseWorld`
     (world, tags, seed, consumption of surface dumps).  `C10_explicit_models_equiv`, `C10_repeat_default_equiv` supply `FeatureJsonEquiv`
     from (b) and (c).  Area features and plumes are only covered by the "equal JSON" alternative.

2. CONVEXITY (ordered field `F`, `fieldScalar T`, no libm laws).  `C10_lerp` — the lemma, once: convex form, value at 0 and 1, bounds
   for `0 ≤ f ≤ 1`.  `C10_named_quantities`, `C10_coversBody_factor` — the named terms ARE the model's.  `C10_geometry_convex`,
   `C10_geometry_at_coordinate` (`thUp, thDown, ttUp, ttDown, maxLen`), `C10_local_thickness_convex` (after the second interpolation along
   the segment), `C10_slab_hit_envelope` (an accepted slab point lies within the envelope of the two adjacent sections).
   `C10_temperature_convex`, `C10_composition_convex`, `C10_velocity_convex` (codes 1, 2, 5), `C10_grain_sizes_convex` (code 3, sizes only;
   the rotation matrices go through quaternion `slerp`, nothing is claimed).  The velocity start value `(o0, o1, o0 + 2)` is the code's
   (KNOWN_FINDINGS: line velocity z); it is the same for both sections and does not affect the statement.
   `C10_lerp_extrapolates` — the bounds need `0 ≤ f ≤ 1`.

3. LOCALITY (every `Scalar R`).  `C10_geometry_reads_two_sections` / `C10_geometry_reads_nothing` — `distancePointFromCurvedPlanes` reads
   `lengths`, `angles` only at `cp.index`, `cp.index + 1` (`cp` = result of `bz.closestPoint`), or not at all.  `C10_hit_adjacent_sections`
   — a hit carries segment `pd.segment` of sections `pd.sectionIdx`, `pd.sectionIdx + 1`.  `C10_locality_coversBody` — `k ∉ {cp.index,
   cp.index+1}`: `f.setSection k sec'` has the same `coversBody`; `C10_locality_no_closest_point` — the `none` case;
   `C10_locality_covers`, `C10_locality_apply` — with `cull = false` the whole `covers` / `apply` (hit AND painted values) are unchanged.
   With culling on the pre-test depends on maxima over all sections: `C10_locality_covers_culled` needs C07's premise "culled ⇒ non-member"
   for both features.  `C10_setSection_keeps_curve` — the Bezier curve is a field built from the coordinates only.
   `InfLaw R` (`¬ fabs inf < inf`, `¬ inf < inf`): when no segment is found the geometry reports section 0 and only the sentinel test keeps
   `coversBody` from reading sections 0 and 1; the laws hold for doubles and every ordered field (`C10_infLaw_field`); without them
   `C10_locality_coversBody_no_laws` needs `k ∉ {0, 1}` in addition.  The proof uses the loop invariant `SegState.Sentinel`
   ("not found ⇒ distance and along are still `+∞`", `segmentLoop_sentinel`).

4. FINDING.  `C10_fraction_passthrough` + `C10_fraction_in_unit_interval_false`: the fraction between two sections is NOT clamped to
   `[0,1]`; the closest-point search accepts `1 + 5e-9` on the last piece for a point `5e-9` beyond the last trench coordinate (witness
   `exBz2`, `exP`, exact rational arithmetic), so interpolated quantities are extrapolated by up to `1e-8·|b − a|` near the joints.
   `C10_geometry_convex_full` (the clause without the premise `0 ≤ sf ≤ 1`) is kept as a `def`, not proved.

NOT covered: that the closest-point search returns the piece between the two NEAREST coordinates (Newton convergence, C06); rounding;
the spherical closest-point branch in the examples (theorems do not depend on the branch); documents that fail schema validation.
Non-vacuity: namespace `C10Ex` (concrete JSON, a concrete slab hit over `ℚ`, a concrete run of the closest-point search).
-/
import GwbVerif.Proofs.Sections
import GwbVerif.Proofs.ModelInstances
namespace Gwb
open Scalar
set_option linter.unusedSectionVars false

/-! ## 1. Inheritance of segment models (every `Scalar R`, no laws) -/

section inheritance
variable {R : Type} [Scalar R]
open Lean

/-- **C10** 1(a) a segment with its own `key` ignores the ancestors: the result is its own list parsed under the segment schema,
whatever the ancestor chain -/
theorem C10_resolve_own (seg : Cur) (key : String) (v : Json) (h : seg.val? key = some v) (ancestors ancestors' : List Json) :
    resolveModels seg ancestors key = parseModelList seg.schema key v ∧
    resolveModels seg ancestors key = resolveModels seg ancestors' key := by
  rw [resolveModels_own seg ancestors key v h, resolveModels_own seg ancestors' key v h]
  exact ⟨rfl, rfl⟩

/-- **C10** 1(a) a segment without `key` resolves to the NEAREST ancestor that has it: if the ancestors `pre` in front of `a` lack the
key and `a` has it with value `v`, the result is `v` parsed under the segment's schema; the ancestors behind `a` are not looked at -/
theorem C10_resolve_inherit_nearest (seg : Cur) (key : String) (hown : seg.val? key = none)
    (pre post : List Json) (a v : Json)
    (hpre : ∀ b ∈ pre, (b.getObjVal? key).toOption = none) (ha : (a.getObjVal? key).toOption = some v) :
    resolveModels seg (pre ++ a :: post) key = parseModelList seg.schema key v := by
  rw [resolveModels_inherit seg _ key hown, inheritedJson_nearest pre post a key v hpre ha]

/-- **C10** 1(a) no models of that kind anywhere: the segment has none -/
theorem C10_resolve_nowhere (seg : Cur) (key : String) (hown : seg.val? key = none) (ancestors : List Json)
    (hanc : ∀ b ∈ ancestors, (b.getObjVal? key).toOption = none) :
    resolveModels seg ancestors key = .ok [] := by
  rw [resolveModels_inherit seg _ key hown, inheritedJson_none ancestors key hanc]

/-- **C10** 1(a) for the chain `[section entry, feature]` that `parseLine` passes for the segments of a `sections` entry:
the section entry first, then the feature, else nothing -/
theorem C10_resolve_section_then_feature (seg : Cur) (key : String) (hown : seg.val? key = none) (sec feat : Json) :
    (∀ v, (sec.getObjVal? key).toOption = some v → resolveModels seg [sec, feat] key = parseModelList seg.schema key v) ∧
    (∀ v, (sec.getObjVal? key).toOption = none → (feat.getObjVal? key).toOption = some v →
        resolveModels seg [sec, feat] key = parseModelList seg.schema key v) ∧
    ((sec.getObjVal? key).toOption = none → (feat.getObjVal? key).toOption = none → resolveModels seg [sec, feat] key = .ok []) := by
  refine ⟨fun v hs => ?_, fun v hs hf => ?_, fun hs hf => ?_⟩
  · exact C10_resolve_inherit_nearest seg key hown [] [feat] sec v (by simp) hs
  · exact C10_resolve_inherit_nearest seg key hown [sec] [] feat v (by simpa using hs) hf
  · exact C10_resolve_nowhere seg key hown [sec, feat] (by simpa using ⟨hs, hf⟩)

/-- **C10** 1(b) writing the inherited models explicitly into a segment builds the same segment: if `seg'` agrees with `seg` on
`length / thickness / top truncation / angle` (and is read under the same schema), `seg` declares none of the four model kinds, and
`seg'` carries for each kind exactly the JSON that `seg` inherits from the chain (`inheritedJson ancestors k`; nothing where nothing is
inherited), then the two parse to the same `Segment` -/
theorem C10_explicit_models (ctx : Ctx R) (isFault : Bool) (seg seg' : Cur) (ancestors : List Json)
    (hschema : seg'.schema = seg.schema)
    (hlen : seg'.val? "length" = seg.val? "length") (hth : seg'.val? "thickness" = seg.val? "thickness")
    (htt : seg'.val? "top truncation" = seg.val? "top truncation") (hang : seg'.val? "angle" = seg.val? "angle")
    (hnone : ∀ k ∈ segmentModelKeys, seg.val? k = none)
    (hexplicit : ∀ k ∈ segmentModelKeys, seg'.val? k = inheritedJson ancestors k) :
    parseSegment ctx isFault seg' ancestors = parseSegment ctx isFault seg ancestors := by
  have key : ∀ k ∈ segmentModelKeys, resolveModels seg' ancestors k = resolveModels seg ancestors k := by
    intro k hk
    apply resolveModels_congr seg seg' ancestors ancestors k hschema
    rw [hnone k hk, hexplicit k hk]
    cases inheritedJson ancestors k <;> rfl
  exact parseSegment_congr ctx isFault seg seg' ancestors ancestors hlen hth htt hang
    (key _ (by simp [segmentModelKeys])) (key _ (by simp [segmentModelKeys]))
    (key _ (by simp [segmentModelKeys])) (key _ (by simp [segmentModelKeys]))

/-- **C10** 1(b) a segment that declares all four model kinds itself does not depend on the ancestors any more -/
theorem C10_explicit_models_ancestor_free (ctx : Ctx R) (isFault : Bool) (seg' : Cur) (ancestors ancestors' : List Json)
    (hall : ∀ k ∈ segmentModelKeys, (seg'.val? k).isSome) :
    parseSegment ctx isFault seg' ancestors' = parseSegment ctx isFault seg' ancestors := by
  have key : ∀ k ∈ segmentModelKeys, resolveModels seg' ancestors' k = resolveModels seg' ancestors k := by
    intro k hk
    obtain ⟨v, hv⟩ := Option.isSome_iff_exists.mp (hall k hk)
    exact (C10_resolve_own seg' k v hv ancestors' ancestors).2
  exact parseSegment_congr ctx isFault seg' seg' ancestors ancestors' rfl rfl rfl rfl
    (key _ (by simp [segmentModelKeys])) (key _ (by simp [segmentModelKeys]))
    (key _ (by simp [segmentModelKeys])) (key _ (by simp [segmentModelKeys]))

/-- **C10** 1(b) both together: with every kind inherited from somewhere and written out explicitly, the explicit segment parses to the
segment the original chain gave, under ANY ancestor chain -/
theorem C10_explicit_models_any_chain (ctx : Ctx R) (isFault : Bool) (seg seg' : Cur) (ancestors ancestors' : List Json)
    (hschema : seg'.schema = seg.schema)
    (hlen : seg'.val? "length" = seg.val? "length") (hth : seg'.val? "thickness" = seg.val? "thickness")
    (htt : seg'.val? "top truncation" = seg.val? "top truncation") (hang : seg'.val? "angle" = seg.val? "angle")
    (hnone : ∀ k ∈ segmentModelKeys, seg.val? k = none)
    (hexplicit : ∀ k ∈ segmentModelKeys, seg'.val? k = inheritedJson ancestors k)
    (hfound : ∀ k ∈ segmentModelKeys, (inheritedJson ancestors k).isSome) :
    parseSegment ctx isFault seg' ancestors' = parseSegment ctx isFault seg ancestors := by
  rw [C10_explicit_models_ancestor_free ctx isFault seg' ancestors ancestors' (fun k hk => by rw [hexplicit k hk]; exact hfound k hk)]
  exact C10_explicit_models ctx isFault seg seg' ancestors hschema hlen hth htt hang hnone hexplicit

/-- **C10** 1(c) `parseLine` = the scalar entries, the default segments, then `parseLineSections` (the fold of `sectionStep` over the
`sections` array, starting from `coords.length` copies of the default segments).  This only names the pieces of the model's code. -/
theorem C10_parseLine_factor (ctx : Ctx R) (isFault : Bool) (c : Cur) (tags : List String) (cull : Bool) :
    parseLine ctx isFault c tags cull = (do
      let sph := ctx.coord.spherical
      let name ← c.getStr "name"
      let tag ← c.getStr "tag"
      let (tags, ti) := addTag tags (if tag == "" then (if isFault then "fault" else "subducting plate") else tag)
      let coords ← getCoordinates c sph
      if coords.length < 2 then .error .other
      let bz ← Bezier.build coords
      let minD : R ← c.getNum "min depth"
      let maxD : R ← c.getNum "max depth"
      let dip : P2 R ← (match c.val? "dip point" with
        | some v => jpoint2 v
        | none => .error .other)
      let dip : P2 R := if sph then ⟨dip.x * (Scalar.pi / 180.0), dip.y * (Scalar.pi / 180.0)⟩ else dip
      let segSchema ← schemaAt c.schema ["segments", "items", "properties"]
      let defaultSegs ← parseSegments ctx isFault c.obj segSchema [c.obj]
      if defaultSegs.length == 0 then .error .other
      let secs ← parseLineSections ctx isFault c coords.length defaultSegs
      return ({ name := name, tag := ti, isFault := isFault, coords := coords, reference := dip, minDepth := minD, maxDepth := maxD,
                sections := secs, bezier := bz, cull := cull }, tags)) := parseLine_eq ctx isFault c tags cull

/-- **C10** 1(c) the segments of a `sections` entry that repeats the feature's `segments` array and declares no models of its own
parse — under the chain `[entry, feature]` and the same segment schema — to the feature's default segments -/
theorem C10_repeat_default_segments (ctx : Ctx R) (isFault : Bool) (c : Cur) (segSchema sj : Json)
    (hseg : (sj.getObjVal? "segments").toOption = (c.obj.getObjVal? "segments").toOption)
    (hno : ∀ key ∈ segmentModelKeys, (sj.getObjVal? key).toOption = none) :
    parseSegments ctx isFault sj segSchema [sj, c.obj] = parseSegments ctx isFault c.obj segSchema [c.obj] :=
  parseSegments_congr ctx isFault c.obj sj segSchema [c.obj] [sj, c.obj] hseg
    (fun key hkey => inheritedJson_skip sj [c.obj] key (hno key hkey))

/-- **C10** 1(c) one `sections` entry that repeats the default (`RepeatsDefault`: valid coordinate number, the feature's `segments`
array, no model keys) leaves the per-coordinate list of sections unchanged.  `segSchema` is BOTH the feature-segment schema (under which
the default segments were parsed) and the section-segment schema handed to the step: that the two declarations coincide is run-time
data and appears as the hypotheses `hseg`/`hsss` of `C10_repeat_default_feature` -/
theorem C10_repeat_default_section (ctx : Ctx R) (isFault : Bool) (c : Cur) (n : Nat) (defaultSegs : List (Segment R))
    (segSchema secProps sj : Json) (hdef : parseSegments ctx isFault c.obj segSchema [c.obj] = .ok defaultSegs)
    (hrep : RepeatsDefault c n secProps sj) :
    sectionStep ctx isFault c n defaultSegs segSchema secProps (List.replicate n defaultSegs) sj = .ok (List.replicate n defaultSegs) :=
  sectionStep_repeat ctx isFault c n defaultSegs segSchema secProps sj hdef hrep

/-- **C10** 1(c) by induction: any list of such entries leaves the sections unchanged -/
theorem C10_repeat_default_sections (ctx : Ctx R) (isFault : Bool) (c : Cur) (n : Nat) (defaultSegs : List (Segment R))
    (segSchema secProps : Json) (entries : Array Json)
    (hsec : c.val? "sections" = some (.arr entries))
    (hsss : schemaAt c.schema ["sections", "items", "properties", "segments", "items", "properties"] = .ok segSchema)
    (hsp : schemaAt c.schema ["sections", "items", "properties"] = .ok secProps)
    (hdef : parseSegments ctx isFault c.obj segSchema [c.obj] = .ok defaultSegs)
    (hall : ∀ sj ∈ entries.toList, RepeatsDefault c n secProps sj) :
    parseLineSections ctx isFault c n defaultSegs = .ok (List.replicate n defaultSegs) :=
  parseLineSections_repeat ctx isFault c n defaultSegs segSchema secProps entries hsec hsss hsp hdef hall

/-- **C10** 1(c) hence the parsed `LineFeature` is equal: a slab/fault `c` whose `sections` array consists only of entries repeating the
default parses to the same feature (and tag table) as `c0`, the same object without `sections` (`c0` agrees with `c` on the eleven other
keys `lineFeatureKeys` that `parseLine` reads).  Hypotheses `hseg`, `hsss`: the feature-segment and the section-segment schema are the same JSON `segSchema` -/
theorem C10_repeat_default_feature (ctx : Ctx R) (isFault : Bool) (c c0 : Cur) (tags : List String) (cull : Bool)
    (entries : Array Json) (segSchema secProps : Json)
    (hschema : c0.schema = c.schema)
    (hobj : ∀ key ∈ lineFeatureKeys, c0.val? key = c.val? key)
    (h0 : c0.val? "sections" = none)
    (hsec : c.val? "sections" = some (.arr entries))
    (hseg : schemaAt c.schema ["segments", "items", "properties"] = .ok segSchema)
    (hsss : schemaAt c.schema ["sections", "items", "properties", "segments", "items", "properties"] = .ok segSchema)
    (hsp : schemaAt c.schema ["sections", "items", "properties"] = .ok secProps)
    (hall : ∀ coords : List (P2 R), getCoordinates c ctx.coord.spherical = .ok coords →
      ∀ sj ∈ entries.toList, RepeatsDefault c coords.length secProps sj) :
    parseLine ctx isFault c tags cull = parseLine ctx isFault c0 tags cull :=
  parseLine_repeat_default ctx isFault c c0 tags cull entries segSchema secProps hschema hobj h0 hsec hseg hsss hsp hall

/-- **C10** 1(c) whatever a `sections` entry contains, it overrides exactly ONE coordinate: the new list of sections is the old one with
position `k` (the entry's coordinate number, `k < n`) replaced — the parse-level counterpart of `LineFeature.setSection` used in the
locality theorems below -/
theorem C10_section_entry_sets_one (ctx : Ctx R) (isFault : Bool) (c : Cur) (n : Nat) (defaultSegs : List (Segment R))
    (secSegSchema secProps sj : Json) (acc acc' : List (List (Segment R)))
    (h : sectionStep ctx isFault c n defaultSegs secSegSchema secProps acc sj = .ok acc') :
    ∃ k segs, sectionCoordinate secProps sj = .ok k ∧ k < n ∧
      parseSegments ctx isFault sj secSegSchema [sj, c.obj] = .ok segs ∧ acc' = acc.set k segs := by
  unfold sectionStep at h
  simp only [bind, Except.bind, pure, Except.pure] at h
  split at h
  · exact absurd h (by simp)
  rename_i k hk
  split at h
  · exact absurd h (by simp)
  rename_i hkn
  split at h
  · exact absurd h (by simp)
  rename_i segs hsegs
  split at h
  · exact absurd h (by simp)
  exact ⟨k, segs, hk, by omega, hsegs, (Except.ok.inj h).symm⟩

/-! ### from equal segments to an indistinguishable world -/

/-- **C10** 1(b), feature level: writing the inherited models explicitly into EVERY segment (default segments and the segments of the
`sections` entries; `FeatureExplicit c c'`: scalar entries, feature- and entry-level model lists and coordinate numbers untouched, each
segment `SegmentExplicit`: geometry untouched, each model kind either untouched or absent and replaced by what the chain gives)
builds the same `LineFeature` and tag table -/
theorem C10_explicit_models_feature (ctx : Ctx R) (isFault : Bool) (c c' : Cur) (tags : List String) (cull : Bool)
    (h : FeatureExplicit c c') :
    parseLine ctx isFault c' tags cull = parseLine ctx isFault c tags cull :=
  parseLine_explicit ctx isFault c c' tags cull h

/-- **C10** world level: two documents that agree on the eleven scalar top-level entries `worldScalarKeys` and whose `features` arrays
are, element by element, equal or equivalent slabs / faults (`FeatureJsonEquiv`: same `model` entry, equal `parseLine` under the schema
the plugin lookup selects) build an indistinguishable world: the same `World`, tag table and seed, the same consumption of the surface
dumps (equality of the parser-monad values) -/
theorem C10_world_indistinguishable (decl : Json) (version : String) (doc doc' : Json) (cull : Bool)
    (hkeys : ∀ key ∈ worldScalarKeys, (doc'.getObjVal? key).toOption = (doc.getObjVal? key).toOption)
    (hfeat : ((doc.getObjVal? "features").toOption = none ∧ (doc'.getObjVal? "features").toOption = none) ∨
      ∃ fs fs' : Array Json, (doc.getObjVal? "features").toOption = some (.arr fs) ∧
        (doc'.getObjVal? "features").toOption = some (.arr fs') ∧
        ∀ props alts, schemaAt decl ["properties"] = .ok props → schemaAt props ["features", "items", "oneOf"] = .ok alts →
          List.Forall₂ (FeatureJsonEquiv R alts) fs.toList fs'.toList) :
    (parseWorld decl version doc' cull : PM R (Parsed R)) = parseWorld decl version doc cull :=
  parseWorld_congr decl version doc doc' cull hkeys hfeat

/-- **C10** 1(b) ⇒ world: a slab / fault object with the inherited models written out in every segment is `FeatureJsonEquiv` to the
original (to be used as an element of the `Forall₂` of `C10_world_indistinguishable`) -/
theorem C10_explicit_models_equiv (alts fj fj' : Json)
    (hline : (fj.getObjVal? "model").toOption = some (.str "subducting plate") ∨ (fj.getObjVal? "model").toOption = some (.str "fault"))
    (hmodel : (fj'.getObjVal? "model").toOption = (fj.getObjVal? "model").toOption)
    (h : ∀ schema, FeatureExplicit ⟨fj, schema⟩ ⟨fj', schema⟩) : FeatureJsonEquiv R alts fj fj' :=
  .inr ⟨hline, hmodel, fun _ schema _ ctx isFault tags cull => parseLine_explicit ctx isFault ⟨fj, schema⟩ ⟨fj', schema⟩ tags cull (h schema)⟩

/-- **C10** 1(c) ⇒ world: a slab / fault object `fj` whose `sections` array only repeats the default is `FeatureJsonEquiv` to the same
object `fj0` without `sections`; `hdata`: under the schema the plugin lookup selects, the feature-segment and section-segment schemas
coincide (`segSchema`) and every entry `RepeatsDefault` -/
theorem C10_repeat_default_equiv (alts fj fj0 : Json) (entries : Array Json)
    (hline : (fj.getObjVal? "model").toOption = some (.str "subducting plate") ∨ (fj.getObjVal? "model").toOption = some (.str "fault"))
    (hmodel : (fj0.getObjVal? "model").toOption = (fj.getObjVal? "model").toOption)
    (hobj : ∀ key ∈ lineFeatureKeys, (fj0.getObjVal? key).toOption = (fj.getObjVal? key).toOption)
    (h0 : (fj0.getObjVal? "sections").toOption = none)
    (hsec : (fj.getObjVal? "sections").toOption = some (.arr entries))
    (hdata : ∀ m schema, pluginCursor alts fj = .ok (m, ⟨fj, schema⟩) → ∃ segSchema secProps,
      schemaAt schema ["segments", "items", "properties"] = .ok segSchema ∧
      schemaAt schema ["sections", "items", "properties", "segments", "items", "properties"] = .ok segSchema ∧
      schemaAt schema ["sections", "items", "properties"] = .ok secProps ∧
      ∀ (sph : Bool) (coords : List (P2 R)), getCoordinates ⟨fj, schema⟩ sph = .ok coords →
        ∀ sj ∈ entries.toList, RepeatsDefault ⟨fj, schema⟩ coords.length secProps sj) :
    FeatureJsonEquiv R alts fj fj0 := by
  refine .inr ⟨hline, hmodel, fun m schema hpc ctx isFault tags cull => ?_⟩
  obtain ⟨segSchema, secProps, hseg, hsss, hsp, hall⟩ := hdata m schema hpc
  exact (parseLine_repeat_default ctx isFault ⟨fj, schema⟩ ⟨fj0, schema⟩ tags cull entries segSchema secProps rfl hobj h0 hsec
    hseg hsss hsp (fun coords hc => hall ctx.coord.spherical coords hc)).symm

end inheritance

/-! ## 2. Convexity -/

section convexity
variable {F : Type} [Field F] [LinearOrder F] [IsStrictOrderedRing F] (T : Transc F)

/-- **C10** the interpolation lemma, stated once: `lerp a b f = a + f·(b−a) = (1−f)·a + f·b`; it is `a` at `f = 0`, `b` at `f = 1`,
and for `0 ≤ f ≤ 1` it lies between `a` and `b` -/
theorem C10_lerp (a b f : F) :
    @lerp F (fieldScalar T) a b f = (1 - f) * a + f * b ∧
    @lerp F (fieldScalar T) a b 0 = a ∧
    @lerp F (fieldScalar T) a b 1 = b ∧
    (0 ≤ f → f ≤ 1 → min a b ≤ @lerp F (fieldScalar T) a b f ∧ @lerp F (fieldScalar T) a b f ≤ max a b) :=
  ⟨lerp_convex_form T a b f, lerp_at_zero T a b, lerp_at_one T a b, fun h0 h1 => lerp_within T a b f h0 h1⟩

/-- **C10** the bound needs `0 ≤ f ≤ 1`: for `a < b` and `f > 1` the value exceeds both end values (the code does not clamp the fraction) -/
theorem C10_lerp_extrapolates (a b f : F) (hab : a < b) (hf : 1 < f) : max a b < @lerp F (fieldScalar T) a b f := by
  rw [max_eq_right (le_of_lt hab)]
  exact lerp_extrapolates T a b f hab hf

/-- **C10** `coversBody` (every `Scalar R`): after the geometry it reads the two adjacent sections and decides with `coversDecide`, whose
thickness / top truncation / maximal length are the named `lerp`s `Segment.secThUp … sectionsMaxLen` of those two sections -/
theorem C10_coversBody_factor {R : Type} [Scalar R] (f : LineFeature R) (ctx : Ctx R) (q : Query R) :
    f.coversBody ctx q =
      (distancePointFromCurvedPlanes ctx.coord q.pt q.nat f.reference f.coords f.lengths f.anglesRad
        (depthCoordinate ctx.coord.spherical q.nat + q.depth - f.minDepth) f.isFault f.bezier) >>=
      readAndDecide f.sections f.isFault := coversBody_eq f ctx q

/-- **C10** the named quantities of `coversBody` are the model's own terms (every `Scalar R`) -/
theorem C10_named_quantities {R : Type} [Scalar R] (cur next : Segment R) (secCur secNext : List (Segment R)) (sf gf : R) :
    Segment.secThUp cur next sf = cur.thickness.x + sf * (next.thickness.x - cur.thickness.x) ∧
    Segment.secThDown cur next sf = cur.thickness.y + sf * (next.thickness.y - cur.thickness.y) ∧
    Segment.secTtUp cur next sf = cur.topTruncation.x + sf * (next.topTruncation.x - cur.topTruncation.x) ∧
    Segment.secTtDown cur next sf = cur.topTruncation.y + sf * (next.topTruncation.y - cur.topTruncation.y) ∧
    sectionsMaxLen secCur secNext sf = sectionLength secCur + sf * (sectionLength secNext - sectionLength secCur) ∧
    Segment.secThLocal cur next sf gf = Segment.secThUp cur next sf + gf * (Segment.secThDown cur next sf - Segment.secThUp cur next sf) ∧
    Segment.secTtLocal cur next sf gf = Segment.secTtUp cur next sf + gf * (Segment.secTtDown cur next sf - Segment.secTtUp cur next sf) :=
  ⟨rfl, rfl, rfl, rfl, rfl, rfl, rfl⟩

/-- **C10** thickness, top truncation and maximal length between two trench coordinates are convex combinations of what the two adjacent
sections specify (`0 ≤ sf ≤ 1`) -/
theorem C10_geometry_convex (cur next : Segment F) (secCur secNext : List (Segment F)) (sf : F) (h0 : 0 ≤ sf) (h1 : sf ≤ 1) :
    (min cur.thickness.x next.thickness.x ≤ @Segment.secThUp F (fieldScalar T) cur next sf ∧
      @Segment.secThUp F (fieldScalar T) cur next sf ≤ max cur.thickness.x next.thickness.x) ∧
    (min cur.thickness.y next.thickness.y ≤ @Segment.secThDown F (fieldScalar T) cur next sf ∧
      @Segment.secThDown F (fieldScalar T) cur next sf ≤ max cur.thickness.y next.thickness.y) ∧
    (min cur.topTruncation.x next.topTruncation.x ≤ @Segment.secTtUp F (fieldScalar T) cur next sf ∧
      @Segment.secTtUp F (fieldScalar T) cur next sf ≤ max cur.topTruncation.x next.topTruncation.x) ∧
    (min cur.topTruncation.y next.topTruncation.y ≤ @Segment.secTtDown F (fieldScalar T) cur next sf ∧
      @Segment.secTtDown F (fieldScalar T) cur next sf ≤ max cur.topTruncation.y next.topTruncation.y) ∧
    (min (@sectionLength F (fieldScalar T) secCur) (@sectionLength F (fieldScalar T) secNext)
        ≤ @sectionsMaxLen F (fieldScalar T) secCur secNext sf ∧
      @sectionsMaxLen F (fieldScalar T) secCur secNext sf
        ≤ max (@sectionLength F (fieldScalar T) secCur) (@sectionLength F (fieldScalar T) secNext)) :=
  ⟨lerp_within T _ _ sf h0 h1, lerp_within T _ _ sf h0 h1, lerp_within T _ _ sf h0 h1, lerp_within T _ _ sf h0 h1,
   lerp_within T _ _ sf h0 h1⟩

/-- **C10** at a section's own coordinate (`sf = 0`: the current section; `sf = 1`: the next one) the interpolated geometry is that
section's own -/
theorem C10_geometry_at_coordinate (cur next : Segment F) (secCur secNext : List (Segment F)) :
    (@Segment.secThUp F (fieldScalar T) cur next 0 = cur.thickness.x ∧ @Segment.secThDown F (fieldScalar T) cur next 0 = cur.thickness.y ∧
     @Segment.secTtUp F (fieldScalar T) cur next 0 = cur.topTruncation.x ∧ @Segment.secTtDown F (fieldScalar T) cur next 0 = cur.topTruncation.y ∧
     @sectionsMaxLen F (fieldScalar T) secCur secNext 0 = @sectionLength F (fieldScalar T) secCur) ∧
    (@Segment.secThUp F (fieldScalar T) cur next 1 = next.thickness.x ∧ @Segment.secThDown F (fieldScalar T) cur next 1 = next.thickness.y ∧
     @Segment.secTtUp F (fieldScalar T) cur next 1 = next.topTruncation.x ∧ @Segment.secTtDown F (fieldScalar T) cur next 1 = next.topTruncation.y ∧
     @sectionsMaxLen F (fieldScalar T) secCur secNext 1 = @sectionLength F (fieldScalar T) secNext) :=
  ⟨⟨lerp_at_zero T _ _, lerp_at_zero T _ _, lerp_at_zero T _ _, lerp_at_zero T _ _, lerp_at_zero T _ _⟩,
   ⟨lerp_at_one T _ _, lerp_at_one T _ _, lerp_at_one T _ _, lerp_at_one T _ _, lerp_at_one T _ _⟩⟩

/-- **C10** the local thickness and top truncation (interpolated between the sections, then along the segment) stay within the four
values the two adjacent sections give for that segment (`0 ≤ sf ≤ 1`, `0 ≤ gf ≤ 1`) -/
theorem C10_local_thickness_convex (cur next : Segment F) (sf gf : F) (h0 : 0 ≤ sf) (h1 : sf ≤ 1) (g0 : 0 ≤ gf) (g1 : gf ≤ 1) :
    (min (min cur.thickness.x next.thickness.x) (min cur.thickness.y next.thickness.y) ≤ @Segment.secThLocal F (fieldScalar T) cur next sf gf ∧
      @Segment.secThLocal F (fieldScalar T) cur next sf gf ≤ max (max cur.thickness.x next.thickness.x) (max cur.thickness.y next.thickness.y)) ∧
    (min (min cur.topTruncation.x next.topTruncation.x) (min cur.topTruncation.y next.topTruncation.y)
        ≤ @Segment.secTtLocal F (fieldScalar T) cur next sf gf ∧
      @Segment.secTtLocal F (fieldScalar T) cur next sf gf
        ≤ max (max cur.topTruncation.x next.topTruncation.x) (max cur.topTruncation.y next.topTruncation.y)) := by
  obtain ⟨⟨a1, a2⟩, ⟨b1, b2⟩, ⟨c1, c2⟩, ⟨d1, d2⟩, -⟩ := C10_geometry_convex T cur next [] [] sf h0 h1
  have hth := lerp_within T (@Segment.secThUp F (fieldScalar T) cur next sf) (@Segment.secThDown F (fieldScalar T) cur next sf) gf g0 g1
  have htt := lerp_within T (@Segment.secTtUp F (fieldScalar T) cur next sf) (@Segment.secTtDown F (fieldScalar T) cur next sf) gf g0 g1
  refine ⟨⟨le_trans (min_le_min a1 b1) hth.1, le_trans hth.2 (max_le_max a2 b2)⟩,
          ⟨le_trans (min_le_min c1 d1) htt.1, le_trans htt.2 (max_le_max c2 d2)⟩⟩

/-- **C10** a slab hit between two trench coordinates respects the envelope of the two adjacent sections: if `coversDecide` accepts
(`0 ≤ sf ≤ 1`, `0 ≤ gf ≤ 1`) then the hit carries exactly those two sections' segments, the distance from the plane lies between the
least top truncation and the greatest thickness the two sections give for that segment, and the distance along the plane is at most the
longer of the two sections -/
theorem C10_slab_hit_envelope (pd : PlaneDist F) (secCur secNext : List (Segment F)) (cur next : Segment F) (hit : LineHit F)
    (h0 : 0 ≤ pd.fractionOfSection) (h1 : pd.fractionOfSection ≤ 1) (g0 : 0 ≤ pd.fractionOfSegment) (g1 : pd.fractionOfSegment ≤ 1)
    (hhit : @coversDecide F (fieldScalar T) false pd secCur secNext cur next = some hit) :
    hit = @hitOf F (fieldScalar T) pd secCur secNext cur next ∧
    min (min cur.topTruncation.x next.topTruncation.x) (min cur.topTruncation.y next.topTruncation.y) ≤ pd.distanceFromPlane ∧
    pd.distanceFromPlane ≤ max (max cur.thickness.x next.thickness.x) (max cur.thickness.y next.thickness.y) ∧
    0 ≤ pd.distanceAlongPlane ∧
    pd.distanceAlongPlane ≤ max (@sectionLength F (fieldScalar T) secCur) (@sectionLength F (fieldScalar T) secNext) := by
  obtain ⟨⟨_, t2⟩, ⟨u1, _⟩⟩ := C10_local_thickness_convex T cur next _ _ h0 h1 g0 g1
  obtain ⟨-, -, -, -, ⟨_, l2⟩⟩ := C10_geometry_convex T cur next secCur secNext _ h0 h1
  unfold coversDecide at hhit
  simp only [Bool.false_eq_true, if_false] at hhit
  split at hhit
  · exact absurd hhit (by simp)
  · split at hhit
    · exact absurd hhit (by simp)
    · split at hhit
      · rename_i hin
        simp only [Bool.and_eq_true, decide_eq_true_eq, ge_iff_le] at hin
        obtain ⟨⟨⟨d1, d2⟩, a1⟩, a2⟩ := hin
        refine ⟨(Option.some.inj hhit).symm, le_trans u1 d1, le_trans d2 t2, ?_, le_trans a2 l2⟩
        rw [lit_0 T] at a1
        exact a1
      · exact absurd hhit (by simp)

/-- **C10** temperature (`linePaintAt`, code 1): the value written is the `lerp` of what the temperature models of the two adjacent
sections' segments give (`tc`, `tn`; the slab-only models `plate model` / `mass conserving` may throw, so the two section values are
named by hypotheses as for the composition); it lies between them for `0 ≤ sf ≤ 1` and is a section's own value at its coordinate -/
theorem C10_temperature_convex (f : LineFeature F) (ctx : Ctx F) (q : Query F) (h : LineHit F) (p : Req) (e : Nat) (out : List F)
    (old tc tn : F) (hcode : p.code = 1) (hold : idx out e = .ok old)
    (hc : @sectionTemp F (fieldScalar T) f.isFault ctx q h.pd h.ap h.cur old = .ok tc)
    (hn : @sectionTemp F (fieldScalar T) f.isFault ctx q h.pd h.ap h.next old = .ok tn) :
    ∃ v : F, @linePaintAt F (fieldScalar T) f ctx q h p e out = .ok (writeBlock e [v] out) ∧
      v = @lerp F (fieldScalar T) tc tn h.pd.fractionOfSection ∧
      (0 ≤ h.pd.fractionOfSection → h.pd.fractionOfSection ≤ 1 → min tc tn ≤ v ∧ v ≤ max tc tn) ∧
      (h.pd.fractionOfSection = 0 → v = tc) ∧ (h.pd.fractionOfSection = 1 → v = tn) := by
  refine ⟨_, @linePaintAt_temperature F (fieldScalar T) f ctx q h p e out old tc tn hcode hold hc hn, rfl,
    fun h0 h1 => lerp_within T _ _ _ h0 h1, ?_, ?_⟩
  · intro hz; rw [hz]; exact lerp_at_zero T _ _
  · intro hz; rw [hz]; exact lerp_at_one T _ _

/-- **C10** temperature, segments without slab-only models (every model one of `uniform`, `linear`, `adiabatic`): no hypothesis about the
section values is needed, they are the plain folds of `LineTemp.get` — the statement as it read before `plate model` and `mass conserving`
were modelled -/
theorem C10_temperature_convex_basic (f : LineFeature F) (ctx : Ctx F) (q : Query F) (h : LineHit F) (p : Req) (e : Nat) (out : List F)
    (old : F) (mc mn : List (LineTemp F)) (hcode : p.code = 1) (hold : idx out e = .ok old)
    (hmc : h.cur.temps = mc.map SegTemp.basic) (hmn : h.next.temps = mn.map SegTemp.basic) :
    let tc := mc.foldl (fun t m => @LineTemp.get F (fieldScalar T) m f.isFault ctx q.depth q.gravityNorm h.pd t) old
    let tn := mn.foldl (fun t m => @LineTemp.get F (fieldScalar T) m f.isFault ctx q.depth q.gravityNorm h.pd t) old
    ∃ v : F, @linePaintAt F (fieldScalar T) f ctx q h p e out = .ok (writeBlock e [v] out) ∧
      v = @lerp F (fieldScalar T) tc tn h.pd.fractionOfSection ∧
      (0 ≤ h.pd.fractionOfSection → h.pd.fractionOfSection ≤ 1 → min tc tn ≤ v ∧ v ≤ max tc tn) ∧
      (h.pd.fractionOfSection = 0 → v = tc) ∧ (h.pd.fractionOfSection = 1 → v = tn) :=
  C10_temperature_convex T f ctx q h p e out old _ _ hcode hold
    (@sectionTemp_basic F (fieldScalar T) f.isFault ctx q h.pd h.ap h.cur mc hmc old)
    (@sectionTemp_basic F (fieldScalar T) f.isFault ctx q h.pd h.ap h.next mn hmn old)

/-- **C10** composition (`linePaintAt`, code 2): as for temperature, with the two sections' composition values `cc`, `cn` -/
theorem C10_composition_convex (f : LineFeature F) (ctx : Ctx F) (q : Query F) (h : LineHit F) (p : Req) (e : Nat) (out : List F)
    (old cc cn : F) (hcode : p.code = 2) (hold : idx out e = .ok old)
    (hc : @sectionComp F (fieldScalar T) f.isFault h.pd p.n h.cur old = .ok cc)
    (hn : @sectionComp F (fieldScalar T) f.isFault h.pd p.n h.next old = .ok cn) :
    ∃ v : F, @linePaintAt F (fieldScalar T) f ctx q h p e out = .ok (writeBlock e [v] out) ∧
      v = @lerp F (fieldScalar T) cc cn h.pd.fractionOfSection ∧
      (0 ≤ h.pd.fractionOfSection → h.pd.fractionOfSection ≤ 1 → min cc cn ≤ v ∧ v ≤ max cc cn) ∧
      (h.pd.fractionOfSection = 0 → v = cc) ∧ (h.pd.fractionOfSection = 1 → v = cn) := by
  refine ⟨_, @linePaintAt_composition F (fieldScalar T) f ctx q h p e out old cc cn hcode hold hc hn, rfl,
    fun h0 h1 => lerp_within T _ _ _ h0 h1, ?_, ?_⟩
  · intro hz; rw [hz]; exact lerp_at_zero T _ _
  · intro hz; rw [hz]; exact lerp_at_one T _ _

/-- **C10** velocity (`linePaintAt`, code 5): each of the three components written is the `lerp` of the two sections' components
(`vc`, `vn`: what the velocity models of the two sections' segments make of the start value `(o0, o1, o0 + 2)` the code builds) -/
theorem C10_velocity_convex (f : LineFeature F) (ctx : Ctx F) (q : Query F) (h : LineHit F) (p : Req) (e : Nat) (out : List F)
    (o0 o1 : F) (hcode : p.code = 5) (h0 : idx out e = .ok o0) (h1 : idx out (e + 1) = .ok o1) :
    ∃ vc vn v : P3 F,
      vc = @sectionVel F (fieldScalar T) f.isFault h.pd h.cur ⟨o0, o1, o0 + 2⟩ ∧
      vn = @sectionVel F (fieldScalar T) f.isFault h.pd h.next ⟨o0, o1, o0 + 2⟩ ∧
      @linePaintAt F (fieldScalar T) f ctx q h p e out = .ok (writeBlock e [v.x, v.y, v.z] out) ∧
      v.x = @lerp F (fieldScalar T) vc.x vn.x h.pd.fractionOfSection ∧
      v.y = @lerp F (fieldScalar T) vc.y vn.y h.pd.fractionOfSection ∧
      v.z = @lerp F (fieldScalar T) vc.z vn.z h.pd.fractionOfSection ∧
      (0 ≤ h.pd.fractionOfSection → h.pd.fractionOfSection ≤ 1 →
        (min vc.x vn.x ≤ v.x ∧ v.x ≤ max vc.x vn.x) ∧ (min vc.y vn.y ≤ v.y ∧ v.y ≤ max vc.y vn.y) ∧
        (min vc.z vn.z ≤ v.z ∧ v.z ≤ max vc.z vn.z)) ∧
      (h.pd.fractionOfSection = 0 → v = vc) ∧ (h.pd.fractionOfSection = 1 → v = vn) := by
  refine ⟨@sectionVel F (fieldScalar T) f.isFault h.pd h.cur ⟨o0, o1, o0 + 2⟩,
    @sectionVel F (fieldScalar T) f.isFault h.pd h.next ⟨o0, o1, o0 + 2⟩,
    ⟨@lerp F (fieldScalar T) (@sectionVel F (fieldScalar T) f.isFault h.pd h.cur ⟨o0, o1, o0 + 2⟩).x
        (@sectionVel F (fieldScalar T) f.isFault h.pd h.next ⟨o0, o1, o0 + 2⟩).x h.pd.fractionOfSection,
     @lerp F (fieldScalar T) (@sectionVel F (fieldScalar T) f.isFault h.pd h.cur ⟨o0, o1, o0 + 2⟩).y
        (@sectionVel F (fieldScalar T) f.isFault h.pd h.next ⟨o0, o1, o0 + 2⟩).y h.pd.fractionOfSection,
     @lerp F (fieldScalar T) (@sectionVel F (fieldScalar T) f.isFault h.pd h.cur ⟨o0, o1, o0 + 2⟩).z
        (@sectionVel F (fieldScalar T) f.isFault h.pd h.next ⟨o0, o1, o0 + 2⟩).z h.pd.fractionOfSection⟩,
    rfl, rfl, ?_, rfl, rfl, rfl,
    fun a b => ⟨lerp_within T _ _ _ a b, lerp_within T _ _ _ a b, lerp_within T _ _ _ a b⟩, ?_, ?_⟩
  · rw [@linePaintAt_velocity F (fieldScalar T) f ctx q h p e out o0 o1 hcode h0 h1]
  · intro hz; rw [hz]; simp only [lerp_at_zero T]
  · intro hz; rw [hz]; simp only [lerp_at_one T]

/-- **C10** grain sizes (`linePaintAt`, code 3): the sizes written are, pairwise, the `lerp` of the two sections' grain sizes
(`gc`, `gn`), hence each lies between the corresponding two sizes for `0 ≤ sf ≤ 1`.  (The rotation matrices are interpolated by
`slerp` on quaternions, which is not a convex combination; nothing is claimed about them.) -/
theorem C10_grain_sizes_convex (f : LineFeature F) (ctx : Ctx F) (q : Query F) (h : LineHit F) (p : Req) (e : Nat) (out : List F)
    (gc gn : Grains F) (hcode : p.code = 3)
    (hc : @sectionGrains F (fieldScalar T) f.isFault h.pd p.n h.cur
            (@Grains.ofBlock F (fieldScalar T) p.k (readBlock e (p.k * 10) out)) = .ok gc)
    (hn : @sectionGrains F (fieldScalar T) f.isFault h.pd p.n h.next
            (@Grains.ofBlock F (fieldScalar T) p.k (readBlock e (p.k * 10) out)) = .ok gn) :
    ∃ g : Grains F, @linePaintAt F (fieldScalar T) f ctx q h p e out = .ok (writeBlock e (@Grains.toBlock F (fieldScalar T) g) out) ∧
      g.sizes = List.zipWith (fun a b => @lerp F (fieldScalar T) a b h.pd.fractionOfSection) gc.sizes gn.sizes ∧
      (0 ≤ h.pd.fractionOfSection → h.pd.fractionOfSection ≤ 1 →
        ∀ (i : Nat) (a b : F), gc.sizes[i]? = some a → gn.sizes[i]? = some b →
          ∃ v, g.sizes[i]? = some v ∧ min a b ≤ v ∧ v ≤ max a b) := by
  refine ⟨_, @linePaintAt_grains F (fieldScalar T) f ctx q h p e out gc gn hcode hc hn, rfl, ?_⟩
  intro h0 h1 i a b ha hb
  refine ⟨@lerp F (fieldScalar T) a b h.pd.fractionOfSection, ?_, lerp_within T _ _ _ h0 h1⟩
  simp only [List.getElem?_zipWith, ha, hb]

end convexity

/-! ## 3. Locality (every `Scalar R`) -/

section locality
variable {R : Type} [Scalar R]

/-- **C10** the sentinel laws `InfLaw` hold in every ordered field, whatever value `inf` has (they are facts about `<` and `fabs`) -/
theorem C10_infLaw_field {F : Type} [Field F] [LinearOrder F] [IsStrictOrderedRing F] (T : Transc F) : @InfLaw F (fieldScalar T) := by
  refine @InfLaw.mk F (fieldScalar T) ?_ (lt_irrefl T.inf)
  show ¬ (@Scalar.fabs F (fieldScalar T) T.inf < T.inf)
  unfold Scalar.fabs
  rw [lit_0 T]
  split
  · rename_i h
    have h' : T.inf < 0 := h
    intro h2
    have h2' : -T.inf < T.inf := h2
    linarith
  · exact lt_irrefl T.inf

/-- **C10** replacing one section leaves the trench curve alone: the Bezier curve, the coordinates, the dip point, the depth range,
the kind, the tag and the culling flag are those of `f` (in `parseLine` the curve is `Bezier.build coords`: it depends on the
coordinates only) -/
theorem C10_setSection_keeps_curve (f : LineFeature R) (k : Nat) (sec' : List (Segment R)) :
    (f.setSection k sec').bezier = f.bezier ∧ (f.setSection k sec').coords = f.coords ∧
    (f.setSection k sec').reference = f.reference ∧ (f.setSection k sec').minDepth = f.minDepth ∧
    (f.setSection k sec').maxDepth = f.maxDepth ∧ (f.setSection k sec').isFault = f.isFault ∧
    (f.setSection k sec').tag = f.tag ∧ (f.setSection k sec').cull = f.cull ∧
    (f.setSection k sec').sections = f.sections.set k sec' := ⟨rfl, rfl, rfl, rfl, rfl, rfl, rfl, rfl, rfl⟩

/-- **C10** the geometry reads the per-section lengths and angles only at the index `cp.index` of the closest point on the trench
curve and at `cp.index + 1` -/
theorem C10_geometry_reads_two_sections (coord : CoordSys R) (checkPoint nat : P3 R) (reference : P2 R) (pointList : List (P2 R))
    (lengths lengths' : List (List R)) (angles angles' : List (List (P2 R))) (startRadius : R) (onlyPositive : Bool) (bz : Bezier R)
    (cp : ClosestPoint R)
    (hcp : bz.closestPoint coord.spherical (surfacePoint coord.spherical nat) = .ok (some cp))
    (hl0 : idx lengths' cp.index = idx lengths cp.index) (hl1 : idx lengths' (cp.index + 1) = idx lengths (cp.index + 1))
    (ha0 : idx angles' cp.index = idx angles cp.index) (ha1 : idx angles' (cp.index + 1) = idx angles (cp.index + 1)) :
    distancePointFromCurvedPlanes coord checkPoint nat reference pointList lengths' angles' startRadius onlyPositive bz =
    distancePointFromCurvedPlanes coord checkPoint nat reference pointList lengths angles startRadius onlyPositive bz :=
  dpfcp_congr coord checkPoint nat reference pointList lengths lengths' angles angles' startRadius onlyPositive bz cp hcp hl0 hl1 ha0 ha1

/-- **C10** without a closest point (the NaN result `none`, or a failed search) the geometry reads no lengths and no angles -/
theorem C10_geometry_reads_nothing (coord : CoordSys R) (checkPoint nat : P3 R) (reference : P2 R) (pointList : List (P2 R))
    (lengths lengths' : List (List R)) (angles angles' : List (List (P2 R))) (startRadius : R) (onlyPositive : Bool) (bz : Bezier R)
    (hcp : ∀ cp, bz.closestPoint coord.spherical (surfacePoint coord.spherical nat) ≠ .ok (some cp)) :
    distancePointFromCurvedPlanes coord checkPoint nat reference pointList lengths' angles' startRadius onlyPositive bz =
    distancePointFromCurvedPlanes coord checkPoint nat reference pointList lengths angles startRadius onlyPositive bz :=
  dpfcp_congr_no_closest coord checkPoint nat reference pointList lengths lengths' angles angles' startRadius onlyPositive bz hcp

/-- **C10** the fraction between the two sections that the geometry reports is the parametric fraction of the closest point on the trench
curve, handed on unchanged (or `0.0` when no segment was found): nothing clamps it to `[0, 1]` -/
theorem C10_fraction_passthrough (coord : CoordSys R) (checkPoint nat : P3 R) (reference : P2 R) (pointList : List (P2 R))
    (lengths : List (List R)) (angles : List (List (P2 R))) (startRadius : R) (onlyPositive : Bool) (bz : Bezier R)
    (cp : ClosestPoint R) (pd : PlaneDist R)
    (hcp : bz.closestPoint coord.spherical (surfacePoint coord.spherical nat) = .ok (some cp))
    (h : distancePointFromCurvedPlanes coord checkPoint nat reference pointList lengths angles startRadius onlyPositive bz = .ok pd) :
    pd.fractionOfSection = cp.fraction ∨ pd.fractionOfSection = 0.0 :=
  dpfcp_fraction coord checkPoint nat reference pointList lengths angles startRadius onlyPositive bz cp pd hcp h

/-- **C10** locality of the membership test: if the closest point on the trench curve lies on piece `cp.index` and `k` is neither
`cp.index` nor `cp.index + 1`, then overriding section `k` changes nothing in `coversBody` — neither whether the point is hit, nor the
geometry result, nor the two segments handed to the models (sentinel laws `InfLaw R` assumed; they hold for doubles and ordered fields) -/
theorem C10_locality_coversBody (hinf : InfLaw R) (f : LineFeature R) (ctx : Ctx R) (q : Query R) (k : Nat) (sec' : List (Segment R))
    (cp : ClosestPoint R)
    (hcp : f.bezier.closestPoint ctx.coord.spherical (surfacePoint ctx.coord.spherical q.nat) = .ok (some cp))
    (hk0 : cp.index ≠ k) (hk1 : cp.index + 1 ≠ k) :
    (f.setSection k sec').coversBody ctx q = f.coversBody ctx q :=
  coversBody_setSection f ctx q k sec' cp hcp hk0 hk1 (.inl hinf)

/-- **C10** the same for a law-less `Scalar R`: when no segment is found the geometry reports section index 0 and the sentinel test is
the only thing that keeps `coversBody` from reading sections 0 and 1, so without `InfLaw` the replaced index must also avoid 0 and 1 -/
theorem C10_locality_coversBody_no_laws (f : LineFeature R) (ctx : Ctx R) (q : Query R) (k : Nat) (sec' : List (Segment R))
    (cp : ClosestPoint R)
    (hcp : f.bezier.closestPoint ctx.coord.spherical (surfacePoint ctx.coord.spherical q.nat) = .ok (some cp))
    (hk0 : cp.index ≠ k) (hk1 : cp.index + 1 ≠ k) (h0 : k ≠ 0) (h1 : k ≠ 1) :
    (f.setSection k sec').coversBody ctx q = f.coversBody ctx q :=
  coversBody_setSection f ctx q k sec' cp hcp hk0 hk1 (.inr ⟨h0, h1⟩)

/-- **C10** no closest point on the trench curve (`none`, or the search failed): overriding ANY section changes nothing -/
theorem C10_locality_no_closest_point (hinf : InfLaw R) (f : LineFeature R) (ctx : Ctx R) (q : Query R) (k : Nat)
    (sec' : List (Segment R))
    (hcp : ∀ cp, f.bezier.closestPoint ctx.coord.spherical (surfacePoint ctx.coord.spherical q.nat) ≠ .ok (some cp)) :
    (f.setSection k sec').coversBody ctx q = f.coversBody ctx q :=
  coversBody_setSection_no_closest f ctx q k sec' hcp (.inl hinf)

/-- **C10** a hit carries segment `pd.segment` of exactly the two adjacent sections `pd.sectionIdx`, `pd.sectionIdx + 1`: these two
segments are all a painted value can depend on (`linePaintAt` reads the hit, `isFault` and `tag` only) -/
theorem C10_hit_adjacent_sections (f : LineFeature R) (ctx : Ctx R) (q : Query R) (hit : LineHit R)
    (h : f.coversBody ctx q = .ok (some hit)) :
    ∃ secCur secNext, idx f.sections hit.pd.sectionIdx = .ok secCur ∧ idx f.sections (hit.pd.sectionIdx + 1) = .ok secNext ∧
      idx secCur hit.pd.segment = .ok hit.cur ∧ idx secNext hit.pd.segment = .ok hit.next := by
  rw [coversBody_eq] at h
  cases hpd : distancePointFromCurvedPlanes ctx.coord q.pt q.nat f.reference f.coords f.lengths f.anglesRad
        (depthCoordinate ctx.coord.spherical q.nat + q.depth - f.minDepth) f.isFault f.bezier with
  | error e => rw [hpd] at h; exact absurd h (by simp [bind, Except.bind])
  | ok pd =>
    rw [hpd] at h
    obtain ⟨secCur, secNext, cur, next, h0, h1, h2, h3, -, hh⟩ := readAndDecide_some f.sections f.isFault pd hit h
    subst hh
    exact ⟨secCur, secNext, h0, h1, h2, h3⟩

/-- **C10** locality of the whole feature test with the culling shortcuts off (`cull = false`, what the `GWB_VERIF` hook produces):
`covers` is unchanged, closest point found -/
theorem C10_locality_covers (hinf : InfLaw R) (f : LineFeature R) (ctx : Ctx R) (q : Query R) (k : Nat) (sec' : List (Segment R))
    (cp : ClosestPoint R) (hcull : f.cull = false)
    (hcp : f.bezier.closestPoint ctx.coord.spherical (surfacePoint ctx.coord.spherical q.nat) = .ok (some cp))
    (hk0 : cp.index ≠ k) (hk1 : cp.index + 1 ≠ k) :
    (f.setSection k sec').covers ctx q = f.covers ctx q := by
  unfold LineFeature.covers
  rw [preTest_setSection_nocull f ctx q k sec' hcull, C10_locality_coversBody hinf f ctx q k sec' cp hcp hk0 hk1]

/-- **C10** … and so is everything the feature writes: `apply` (hit test + all painted values) is unchanged -/
theorem C10_locality_apply {G : Type} [RandGen G R] (hinf : InfLaw R) (f : LineFeature R) (ctx : Ctx R) (q : Query R) (k : Nat)
    (sec' : List (Segment R)) (cp : ClosestPoint R) (hcull : f.cull = false)
    (hcp : f.bezier.closestPoint ctx.coord.spherical (surfacePoint ctx.coord.spherical q.nat) = .ok (some cp))
    (hk0 : cp.index ≠ k) (hk1 : cp.index + 1 ≠ k) (pes : List (Req × Nat)) (out : List R) :
    (f.setSection k sec').apply (G := G) ctx q pes out = f.apply ctx q pes out := by
  unfold LineFeature.apply
  rw [C10_locality_covers hinf f ctx q k sec' cp hcull hcp hk0 hk1]
  rfl

/-- **C10** with the culling shortcuts ON the pre-test looks at maxima over ALL sections (bounding-box buffer, depth cut-off), so
locality holds under C07's premise "a culled point is not a member", for the feature before and after the override -/
theorem C10_locality_covers_culled (hinf : InfLaw R) (f : LineFeature R) (ctx : Ctx R) (q : Query R) (k : Nat) (sec' : List (Segment R))
    (cp : ClosestPoint R)
    (hcp : f.bezier.closestPoint ctx.coord.spherical (surfacePoint ctx.coord.spherical q.nat) = .ok (some cp))
    (hk0 : cp.index ≠ k) (hk1 : cp.index + 1 ≠ k) (pre pre' : Bool)
    (hpre : f.preTest ctx q = .ok pre) (hpre' : (f.setSection k sec').preTest ctx q = .ok pre')
    (hdiscard : pre = false → f.coversBody ctx q = .ok none)
    (hdiscard' : pre' = false → (f.setSection k sec').coversBody ctx q = .ok none) :
    (f.setSection k sec').covers ctx q = f.covers ctx q := by
  have hb := C10_locality_coversBody hinf f ctx q k sec' cp hcp hk0 hk1
  unfold LineFeature.covers
  rw [hpre, hpre']
  cases pre <;> cases pre'
  · rfl
  · rw [hb, hdiscard rfl]; rfl
  · rw [← hb, hdiscard' rfl]; rfl
  · rw [hb]

end locality

/-! ## Non-vacuity: concrete instances satisfying the hypotheses of the theorems above -/

namespace C10Ex
open Lean

/-! ### JSON: a segment without models, a section entry and a feature that declare models -/

def exSegSchema : Json := Json.mkObj []
def exSecProps : Json :=
  Json.mkObj [("segments", Json.mkObj [("items", Json.mkObj [("properties", exSegSchema)])]),
              ("coordinate", Json.mkObj [("default value", (0 : Nat))])]
/-- a miniature declarations document in which the feature-segment and the section-segment schema coincide -/
def exSchema : Json :=
  -- `enum` is given as an object with key "0" instead of an array: `schemaAt` then needs no `String.toNat?` (which does not reduce
  -- in the kernel); the plugin lookup `schemaAt a ["properties", "model", "enum", "0"]` finds the same string
  Json.mkObj [("model", Json.mkObj [("enum", Json.mkObj [("0", "subducting plate")])]),
              ("segments", Json.mkObj [("items", Json.mkObj [("properties", exSegSchema)])]),
              ("sections", Json.mkObj [("items", Json.mkObj [("properties", exSecProps)])])]
def exTemps : Json := Json.arr #[Json.mkObj [("model", "uniform"), ("temperature", (600 : Nat))]]
def exComps : Json := Json.arr #[Json.mkObj [("model", "uniform"), ("compositions", Json.arr #[(0 : Nat)])]]
/-- a segment that declares no models -/
def exSeg : Json := Json.mkObj [("length", (100 : Nat)), ("thickness", Json.arr #[(10 : Nat)]), ("angle", Json.arr #[(45 : Nat)])]
/-- the same segment with the models it inherits from `[exSecT, exFeat]` written out -/
def exSegExplicit : Json :=
  Json.mkObj [("length", (100 : Nat)), ("thickness", Json.arr #[(10 : Nat)]), ("angle", Json.arr #[(45 : Nat)]),
              ("temperature models", exTemps), ("composition models", exComps), ("grains models", Json.arr #[]),
              ("velocity models", Json.arr #[])]
/-- a section entry with temperature models of its own -/
def exSecT : Json := Json.mkObj [("coordinate", (1 : Nat)), ("segments", Json.arr #[exSeg]), ("temperature models", exTemps)]
/-- a section entry that only repeats the feature's segments -/
def exSecRepeat (k : Nat) : Json := Json.mkObj [("coordinate", k), ("segments", Json.arr #[exSeg])]
/-- a feature with all four kinds of models, two coordinates, and two repeating section entries -/
def exFeat : Json :=
  Json.mkObj [("model", "subducting plate"), ("segments", Json.arr #[exSeg]), ("sections", Json.arr #[exSecRepeat 1, exSecRepeat 0]),
              ("coordinates", Json.arr #[Json.arr #[(0 : Nat), (0 : Nat)], Json.arr #[(1 : Nat), (0 : Nat)]]),
              ("temperature models", Json.arr #[]), ("composition models", exComps), ("grains models", Json.arr #[]),
              ("velocity models", Json.arr #[])]
/-- the same feature without `sections` -/
def exFeat0 : Json :=
  Json.mkObj [("model", "subducting plate"), ("segments", Json.arr #[exSeg]),
              ("coordinates", Json.arr #[Json.arr #[(0 : Nat), (0 : Nat)], Json.arr #[(1 : Nat), (0 : Nat)]]),
              ("temperature models", Json.arr #[]), ("composition models", exComps), ("grains models", Json.arr #[]),
              ("velocity models", Json.arr #[])]

/-- hypotheses of `C10_resolve_own` (own key), `C10_resolve_inherit_nearest` (section entry in front of the feature; and the feature
behind a section entry without the key), `C10_resolve_nowhere` -/
example :
    (Cur.mk exSegExplicit exSegSchema).val? "temperature models" = some exTemps ∧
    ((Cur.mk exSeg exSegSchema).val? "temperature models" = none ∧
      (∀ b ∈ ([] : List Json), (b.getObjVal? "temperature models").toOption = none) ∧
      (exSecT.getObjVal? "temperature models").toOption = some exTemps) ∧
    ((Cur.mk exSeg exSegSchema).val? "composition models" = none ∧
      (∀ b ∈ [exSecT], (b.getObjVal? "composition models").toOption = none) ∧
      (exFeat.getObjVal? "composition models").toOption = some exComps) ∧
    (∀ b ∈ [exSecRepeat 1, exSeg], (b.getObjVal? "grains models").toOption = none) := by
  refine ⟨rfl, ⟨rfl, by simp, rfl⟩, ⟨rfl, ?_, rfl⟩, ?_⟩
  · intro b hb; simp at hb; subst hb; rfl
  · intro b hb; simp at hb; rcases hb with rfl | rfl <;> rfl

/-- the inherited JSON of `exSeg` under the chain `[exSecT, exFeat]`: temperature from the section entry, the rest from the feature -/
theorem ex_inherited :
    inheritedJson [exSecT, exFeat] "temperature models" = some exTemps ∧
    inheritedJson [exSecT, exFeat] "composition models" = some exComps ∧
    inheritedJson [exSecT, exFeat] "grains models" = some (Json.arr #[]) ∧
    inheritedJson [exSecT, exFeat] "velocity models" = some (Json.arr #[]) := ⟨rfl, rfl, rfl, rfl⟩

/-- hypotheses of `C10_explicit_models`, `C10_explicit_models_ancestor_free`, `C10_explicit_models_any_chain` are satisfied by
`seg = exSeg`, `seg' = exSegExplicit`, chain `[exSecT, exFeat]`; hence (every `Scalar R`) the two parse alike under any chain -/
example {R : Type} [Scalar R] (ctx : Ctx R) (isFault : Bool) (ancestors' : List Json) :
    parseSegment ctx isFault ⟨exSegExplicit, exSegSchema⟩ ancestors' = parseSegment ctx isFault ⟨exSeg, exSegSchema⟩ [exSecT, exFeat] := by
  apply C10_explicit_models_any_chain ctx isFault ⟨exSeg, exSegSchema⟩ ⟨exSegExplicit, exSegSchema⟩ [exSecT, exFeat] ancestors'
    rfl rfl rfl rfl rfl
  · intro k hk; simp [segmentModelKeys] at hk; rcases hk with rfl | rfl | rfl | rfl <;> rfl
  · intro k hk; simp [segmentModelKeys] at hk; rcases hk with rfl | rfl | rfl | rfl <;> rfl
  · intro k hk; simp [segmentModelKeys] at hk; rcases hk with rfl | rfl | rfl | rfl <;> rfl

/-- `RepeatsDefault` is satisfiable: both section entries of `exFeat` repeat the default -/
theorem ex_repeats (k : Nat) (hk : k < 2) : RepeatsDefault ⟨exFeat, exSchema⟩ 2 exSecProps (exSecRepeat k) := by
  have h01 : k = 0 ∨ k = 1 := by omega
  refine ⟨⟨k, ?_, hk⟩, ?_, ?_⟩
  · rcases h01 with rfl | rfl <;> rfl
  · rcases h01 with rfl | rfl <;> rfl
  · intro key hkey
    simp [segmentModelKeys] at hkey
    rcases h01 with rfl | rfl <;> rcases hkey with rfl | rfl | rfl | rfl <;> rfl

/-- two coordinates in the JSON give two coordinates in the model, whatever the scalar type -/
theorem ex_coords_length {R : Type} [Scalar R] (sph : Bool) (coords : List (P2 R))
    (h : getCoordinates ⟨exFeat, exSchema⟩ sph = .ok coords) : coords.length = 2 := by
  unfold getCoordinates Cur.getPoint2Vec at h
  have hv : (Cur.mk exFeat exSchema).val? "coordinates" =
      some (Json.arr #[Json.arr #[(0 : Nat), (0 : Nat)], Json.arr #[(1 : Nat), (0 : Nat)]]) := rfl
  rw [hv] at h
  simp only [jarr, bind, Except.bind, pure, Except.pure, List.mapM_cons, List.mapM_nil] at h
  cases h0 : (jpoint2 (Json.arr #[(0 : Nat), (0 : Nat)]) : Except Err (P2 R)) with
  | error e => rw [h0] at h; exact absurd h (by simp)
  | ok a =>
    cases h1 : (jpoint2 (Json.arr #[(1 : Nat), (0 : Nat)]) : Except Err (P2 R)) with
    | error e => rw [h0, h1] at h; exact absurd h (by simp)
    | ok b =>
      rw [h0, h1] at h
      cases sph
      · simp only [Bool.false_eq_true, if_false] at h
        rw [← Except.ok.inj h]; rfl
      · simp only [if_true] at h
        rw [← Except.ok.inj h]; rfl

/-- all hypotheses of `C10_repeat_default_feature` (hence of `C10_repeat_default_sections`, `C10_repeat_default_section`) hold for
`exFeat` / `exFeat0` under `exSchema`, for every `Scalar R`: the feature with two repeating section entries parses to the feature
without `sections` -/
example {R : Type} [Scalar R] (ctx : Ctx R) (isFault : Bool) (tags : List String) (cull : Bool) :
    parseLine ctx isFault ⟨exFeat, exSchema⟩ tags cull = parseLine ctx isFault ⟨exFeat0, exSchema⟩ tags cull := by
  apply C10_repeat_default_feature ctx isFault ⟨exFeat, exSchema⟩ ⟨exFeat0, exSchema⟩ tags cull
    #[exSecRepeat 1, exSecRepeat 0] exSegSchema exSecProps rfl ?_ rfl rfl rfl rfl rfl ?_
  · intro key hkey
    simp [lineFeatureKeys, segmentModelKeys] at hkey
    rcases hkey with rfl | rfl | rfl | rfl | rfl | rfl | rfl | rfl | rfl | rfl | rfl <;> rfl
  · intro coords hc sj hsj
    rw [ex_coords_length _ coords hc]
    simp at hsj
    rcases hsj with rfl | rfl
    · exact ex_repeats 1 (by omega)
    · exact ex_repeats 0 (by omega)

/-- the segment `exSeg` with the four model lists of the feature `exFeat0` written out -/
def exSegX : Json :=
  Json.mkObj [("length", (100 : Nat)), ("thickness", Json.arr #[(10 : Nat)]), ("angle", Json.arr #[(45 : Nat)]),
              ("temperature models", Json.arr #[]), ("composition models", exComps), ("grains models", Json.arr #[]),
              ("velocity models", Json.arr #[])]
/-- `exFeat0` with that explicit segment -/
def exFeat0X : Json :=
  Json.mkObj [("model", "subducting plate"), ("segments", Json.arr #[exSegX]),
              ("coordinates", Json.arr #[Json.arr #[(0 : Nat), (0 : Nat)], Json.arr #[(1 : Nat), (0 : Nat)]]),
              ("temperature models", Json.arr #[]), ("composition models", exComps), ("grains models", Json.arr #[]),
              ("velocity models", Json.arr #[])]

/-- `FeatureExplicit` (hypothesis of `C10_explicit_models_feature`, `C10_explicit_models_equiv`) is satisfiable -/
theorem ex_featureExplicit (schema : Json) : FeatureExplicit ⟨exFeat0, schema⟩ ⟨exFeat0X, schema⟩ where
  schema := rfl
  scalars := by
    intro key hkey
    simp [lineScalarKeys] at hkey
    rcases hkey with rfl | rfl | rfl | rfl | rfl | rfl <;> rfl
  models := by
    intro k hk
    simp [segmentModelKeys] at hk
    rcases hk with rfl | rfl | rfl | rfl <;> rfl
  segments := by
    refine ⟨#[exSeg], #[exSegX], rfl, rfl, List.Forall₂.cons ⟨rfl, rfl, rfl, rfl, ?_⟩ List.Forall₂.nil⟩
    intro k hk
    simp [segmentModelKeys] at hk
    rcases hk with rfl | rfl | rfl | rfl <;> exact .inr ⟨rfl, rfl⟩
  sections := .inl ⟨rfl, rfl⟩

example {R : Type} [Scalar R] (ctx : Ctx R) (isFault : Bool) (tags : List String) (cull : Bool) (schema : Json) :
    parseLine ctx isFault ⟨exFeat0X, schema⟩ tags cull = parseLine ctx isFault ⟨exFeat0, schema⟩ tags cull :=
  C10_explicit_models_feature ctx isFault _ _ tags cull (ex_featureExplicit schema)

example {R : Type} [Scalar R] (alts : Json) : FeatureJsonEquiv R alts exFeat0 exFeat0X :=
  C10_explicit_models_equiv alts exFeat0 exFeat0X (.inl rfl) rfl ex_featureExplicit

/-! ### world level: a miniature declarations document and two documents -/

def exAlts : Json := Json.arr #[Json.mkObj [("properties", exSchema)]]
def exProps : Json := Json.mkObj [("features", Json.mkObj [("items", Json.mkObj [("oneOf", exAlts)])])]
def exDecl : Json := Json.mkObj [("properties", exProps)]
/-- a document with the slab `exFeat` (two repeating `sections` entries) … -/
def exDoc : Json := Json.mkObj [("version", "1.1"), ("features", Json.arr #[exFeat])]
/-- … and the same document with the slab without `sections` -/
def exDoc0 : Json := Json.mkObj [("version", "1.1"), ("features", Json.arr #[exFeat0])]

theorem ex_pluginCursor : pluginCursor exAlts exFeat = .ok ("subducting plate", ⟨exFeat, exSchema⟩) := by rfl

/-- all hypotheses of `C10_repeat_default_equiv` and `C10_world_indistinguishable` hold for `exDecl`, `exDoc`, `exDoc0`: the two
documents build the same world (every `Scalar R`) -/
example {R : Type} [Scalar R] (cull : Bool) :
    (parseWorld exDecl "1.1" exDoc0 cull : PM R (Parsed R)) = parseWorld exDecl "1.1" exDoc cull := by
  apply C10_world_indistinguishable exDecl "1.1" exDoc exDoc0 cull
  · intro key hkey
    simp [worldScalarKeys] at hkey
    rcases hkey with rfl | rfl | rfl | rfl | rfl | rfl | rfl | rfl | rfl | rfl | rfl <;> rfl
  · refine .inr ⟨#[exFeat], #[exFeat0], rfl, rfl, fun props alts hp ha => ?_⟩
    have hp' : schemaAt exDecl ["properties"] = .ok exProps := rfl
    rw [hp'] at hp
    cases hp
    have ha' : schemaAt exProps ["features", "items", "oneOf"] = .ok exAlts := rfl
    rw [ha'] at ha
    cases ha
    refine List.Forall₂.cons ?_ List.Forall₂.nil
    apply C10_repeat_default_equiv exAlts exFeat exFeat0 #[exSecRepeat 1, exSecRepeat 0] (.inl rfl) rfl ?_ rfl rfl
    · intro m schema hpc
      rw [ex_pluginCursor] at hpc
      cases hpc
      refine ⟨exSegSchema, exSecProps, rfl, rfl, rfl, fun sph coords hc sj hsj => ?_⟩
      rw [ex_coords_length sph coords hc]
      simp at hsj
      rcases hsj with rfl | rfl
      · exact ex_repeats 1 (by omega)
      · exact ex_repeats 0 (by omega)
    · intro key hkey
      simp [lineFeatureKeys, segmentModelKeys] at hkey
      rcases hkey with rfl | rfl | rfl | rfl | rfl | rfl | rfl | rfl | rfl | rfl | rfl <;> rfl

/-! ### convexity: a concrete slab hit over `ℚ` -/

/-- a segment 100 long, 10 thick, no top truncation, no models -/
def exSegment : Segment ℚ :=
  { length := 100, thickness := ⟨10, 10⟩, topTruncation := ⟨0, 0⟩, angle := ⟨45, 45⟩, temps := [], comps := [], grains := [], vels := [] }
/-- a thicker and longer neighbour -/
def exSegment' : Segment ℚ :=
  { length := 200, thickness := ⟨20, 30⟩, topTruncation := ⟨0, 2⟩, angle := ⟨45, 45⟩, temps := [], comps := [], grains := [], vels := [] }
/-- a geometry result half way between two trench coordinates, half way along the first segment, 5 below the top, 50 along the plane -/
def exPd : PlaneDist ℚ :=
  { distanceFromPlane := 5, distanceAlongPlane := 50, fractionOfSection := 1 / 2, fractionOfSegment := 1 / 2, sectionIdx := 0, segment := 0,
    averageAngle := 0, depthReferenceSurface := 0, closestTrenchPoint := ⟨0, 0, 0⟩ }
noncomputable def exHit : LineHit ℚ := @hitOf ℚ (fieldScalar toyTransc) exPd [exSegment] [exSegment'] exSegment exSegment'

/-- hypotheses of `C10_lerp`, `C10_geometry_convex`, `C10_local_thickness_convex`: fractions in `[0, 1]`; and of `C10_lerp_extrapolates` -/
example : (0 : ℚ) ≤ exPd.fractionOfSection ∧ exPd.fractionOfSection ≤ 1 ∧ (0 : ℚ) ≤ exPd.fractionOfSegment ∧ exPd.fractionOfSegment ≤ 1 ∧
    ((10 : ℚ) < 20 ∧ (1 : ℚ) < 3 / 2) := by
  norm_num [exPd]

/-- the thickness at the top of the segment half way between `exSegment` (10) and `exSegment'` (20) is 15 -/
example : @Segment.secThUp ℚ (fieldScalar toyTransc) exSegment exSegment' (1 / 2) = 15 := by
  show (10 : ℚ) + 1 / 2 * (20 - 10) = 15
  norm_num

/-- hypotheses of `C10_slab_hit_envelope`: `coversDecide` accepts `exPd` between `exSegment` and `exSegment'` -/
theorem ex_slab_hit :
    @coversDecide ℚ (fieldScalar toyTransc) false exPd [exSegment] [exSegment'] exSegment exSegment' = some exHit := by
  unfold coversDecide Segment.secThLocal Segment.secTtLocal Segment.secThUp Segment.secThDown Segment.secTtUp Segment.secTtDown sectionsMaxLen
    sectionLength lerp Scalar.fabs
  simp only [s_add, s_sub, s_mul, s_lt, s_le, s_eps, s_neg, lit_0, exPd, exSegment, exSegment', toyTransc, List.foldl]
  norm_num
  unfold exHit hitOf Segment.secThLocal Segment.secThUp Segment.secThDown sectionsMaxLen sectionLength lerp
  simp only [s_add, s_sub, s_mul, lit_0, exPd, exSegment, exSegment', List.foldl]
  norm_num

/-- … and the conclusion of `C10_slab_hit_envelope` for it: `0 ≤ 5 ≤ 30`, `0 ≤ 50 ≤ 200` -/
example :
    exHit = @hitOf ℚ (fieldScalar toyTransc) exPd [exSegment] [exSegment'] exSegment exSegment' ∧
    min (min exSegment.topTruncation.x exSegment'.topTruncation.x) (min exSegment.topTruncation.y exSegment'.topTruncation.y)
      ≤ exPd.distanceFromPlane ∧
    exPd.distanceFromPlane ≤ max (max exSegment.thickness.x exSegment'.thickness.x) (max exSegment.thickness.y exSegment'.thickness.y) ∧
    0 ≤ exPd.distanceAlongPlane ∧
    exPd.distanceAlongPlane ≤ max (@sectionLength ℚ (fieldScalar toyTransc) [exSegment]) (@sectionLength ℚ (fieldScalar toyTransc) [exSegment']) :=
  C10_slab_hit_envelope toyTransc exPd [exSegment] [exSegment'] exSegment exSegment' exHit
    (by norm_num [exPd]) (by norm_num [exPd]) (by norm_num [exPd]) (by norm_num [exPd]) ex_slab_hit

/-- a slab whose trench curve is the straight piece from (0,0) to (1,0), with three sections -/
def exBz : Bezier ℚ := ⟨[⟨0, 0⟩, ⟨1, 0⟩], [(⟨1 / 3, 0⟩, ⟨2 / 3, 0⟩)], []⟩
def exFeature : LineFeature ℚ :=
  { name := "slab", tag := 0, isFault := false, coords := [⟨0, 0⟩, ⟨1, 0⟩], reference := ⟨0, 1⟩, minDepth := 0, maxDepth := 1000,
    sections := [[exSegment], [exSegment'], [exSegment]], bezier := exBz, cull := false }
def exCtx : Ctx ℚ :=
  { coord := ⟨false, .none, 1000000000000⟩, potentialT := 1600, surfaceT := 293, forceSurfaceT := false, alpha := 0, cp := 1, kappa := 1,
    gravity := 10 }
/-- a query point above the middle of the trench piece -/
def exQuery : Query ℚ := { pt := ⟨1 / 2, 0, 0⟩, nat := ⟨1 / 2, 0, 0⟩, depth := 10, gravityNorm := 10 }

/-- hypotheses of `C10_temperature_convex`, `C10_composition_convex`, `C10_velocity_convex`, `C10_grain_sizes_convex`:
request codes, readable output entries, and section values that evaluate -/
example :
    (Req.temperature.code = 1 ∧ idx [(300 : ℚ)] 0 = .ok 300 ∧
      @sectionTemp ℚ (fieldScalar toyTransc) exFeature.isFault exCtx exQuery exHit.pd exHit.ap exHit.cur 300 = .ok 300 ∧
      @sectionTemp ℚ (fieldScalar toyTransc) exFeature.isFault exCtx exQuery exHit.pd exHit.ap exHit.next 300 = .ok 300) ∧
    ((Req.composition 0).code = 2 ∧ idx [(0 : ℚ)] 0 = .ok 0 ∧
      @sectionComp ℚ (fieldScalar toyTransc) exFeature.isFault exHit.pd 0 exHit.cur 0 = .ok 0 ∧
      @sectionComp ℚ (fieldScalar toyTransc) exFeature.isFault exHit.pd 0 exHit.next 0 = .ok 0) ∧
    ((⟨5, 0, 0⟩ : Req).code = 5 ∧ idx [(1 : ℚ), 2, 3] 0 = .ok 1 ∧ idx [(1 : ℚ), 2, 3] (0 + 1) = .ok 2) ∧
    ((⟨3, 0, 0⟩ : Req).code = 3 ∧
      ∃ g, @sectionGrains ℚ (fieldScalar toyTransc) exFeature.isFault exHit.pd 0 exHit.cur
            (@Grains.ofBlock ℚ (fieldScalar toyTransc) 0 (readBlock 0 (0 * 10) ([] : List ℚ))) = .ok g ∧
           @sectionGrains ℚ (fieldScalar toyTransc) exFeature.isFault exHit.pd 0 exHit.next
            (@Grains.ofBlock ℚ (fieldScalar toyTransc) 0 (readBlock 0 (0 * 10) ([] : List ℚ))) = .ok g) :=
  ⟨⟨rfl, rfl, rfl, rfl⟩, ⟨rfl, rfl, rfl, rfl⟩, ⟨rfl, rfl, rfl⟩, ⟨rfl, _, rfl, rfl⟩⟩

/-! ### locality: a concrete closest point -/

theorem ex_cubic : @cubicOf ℚ (fieldScalar toyTransc) ⟨0, 0⟩ ⟨1, 0⟩ ⟨1 / 3, 0⟩ ⟨2 / 3, 0⟩ = ⟨⟨0, 0⟩, ⟨0, 0⟩, ⟨1, 0⟩, ⟨0, 0⟩⟩ := by
  unfold cubicOf
  norm_num

theorem ex_p2_sub_x {R : Type} [Scalar R] (a b : P2 R) : (a - b).x = a.x - b.x := rfl
theorem ex_p2_sub_y {R : Type} [Scalar R] (a b : P2 R) : (a - b).y = a.y - b.y := rfl

theorem ex_est : @initialEstimate ℚ (fieldScalar toyTransc) ⟨0, 0⟩ ⟨1, 0⟩ ⟨1 / 2, 0⟩ = 1 / 2 := by
  unfold initialEstimate P2.dot
  simp only [smax_eq, smin_eq, ex_p2_sub_x, ex_p2_sub_y]
  norm_num

theorem ex_newton (n : Nat) :
    @newtonC ℚ (fieldScalar toyTransc) ⟨⟨0, 0⟩, ⟨0, 0⟩, ⟨1, 0⟩, ⟨0, 0⟩⟩ (0 - 1 / 2) (0 - 0) (n + 1) (1 / 2) = (1 / 2, true) := by
  unfold newtonC
  simp only [smax_eq, smin_eq]
  norm_num [Scalar.fabs]

theorem ex_accept : @accept ℚ (fieldScalar toyTransc) 0 (1 / 2) = true := by
  unfold accept
  norm_num [lit_nat']

theorem ex_loop_end (m : ℚ) (b : Option (ClosestPoint ℚ)) :
    @closestCartesianLoop ℚ (fieldScalar toyTransc) exBz ⟨1 / 2, 0⟩ 1 (0 + 1) m b = .ok b := by
  unfold closestCartesianLoop
  have hlen : exBz.control.length = 1 := rfl
  simp [hlen]

/-- the closest-point search of the model, run on the example: it finds a point on piece 0 -/
theorem ex_closest :
    ∃ cp, @Bezier.closestPoint ℚ (fieldScalar toyTransc) exBz false ⟨1 / 2, 0⟩ = .ok (some cp) ∧ cp.index = 0 := by
  unfold Bezier.closestPoint
  simp only [Bool.false_eq_true, if_false]
  show ∃ cp, @closestCartesianLoop ℚ (fieldScalar toyTransc) exBz ⟨1 / 2, 0⟩ (1 + 1) 0 _ none = _ ∧ _
  unfold closestCartesianLoop
  have hlen : exBz.control.length = 1 := rfl
  have h0 : idx exBz.points 0 = .ok ⟨0, 0⟩ := rfl
  have h1 : idx exBz.points (0 + 1) = .ok ⟨1, 0⟩ := rfl
  have h2 : idx exBz.control 0 = .ok (⟨1 / 3, 0⟩, ⟨2 / 3, 0⟩) := rfl
  simp only [hlen, Nat.lt_one_iff, if_true, h0, h1, h2, bind, Except.bind, ex_cubic, ex_est, ex_newton 149]
  rw [if_neg (by simp), if_pos ⟨by norm_num [toyTransc, s_lt]; rfl, ex_accept⟩, ex_loop_end]
  exact ⟨_, rfl, rfl⟩

/-- all hypotheses of `C10_locality_coversBody`, `C10_locality_covers`, `C10_locality_apply` hold for `exFeature`, `exCtx`, `exQuery`
and the override of section 2 (the closest point lies on piece 0, which reads sections 0 and 1): the override changes nothing -/
example (sec' : List (Segment ℚ)) (pes : List (Req × Nat)) (out : List ℚ) (G : Type) (rg : RandGen G ℚ) :
    @LineFeature.apply ℚ (fieldScalar toyTransc) G rg (LineFeature.setSection exFeature 2 sec') exCtx exQuery pes out =
    @LineFeature.apply ℚ (fieldScalar toyTransc) G rg exFeature exCtx exQuery pes out := by
  obtain ⟨cp, hcp, hidx⟩ := ex_closest
  exact @C10_locality_apply ℚ (fieldScalar toyTransc) G rg (C10_infLaw_field toyTransc) exFeature exCtx exQuery 2 sec' cp rfl hcp
    (by omega) (by omega) pes out

/-- … and the hypothesis of `C10_locality_no_closest_point` holds for a feature whose curve has no piece at all -/
example (cp : ClosestPoint ℚ) :
    @Bezier.closestPoint ℚ (fieldScalar toyTransc) ⟨[], [], []⟩ false ⟨1 / 2, 0⟩ ≠ .ok (some cp) := by
  unfold Bezier.closestPoint
  simp [closestCartesianLoop]

end C10Ex

/-! ## 4. Finding: the section fraction is not clamped to `[0, 1]`

The convexity theorems of part 2 assume `0 ≤ sf ≤ 1`.  The model (as the code) does not guarantee it: the acceptance window of the
closest-point search (`accept i est`, bezier_curve.cc) is `est ≥ -1e-8 ∧ i + est > 0 ∧ est - 1 ≤ 1e-8 ∧ est - 1 < i`: on piece 0 it is
`0 < est < 1`, on every later piece `-1e-8 ≤ est ≤ 1 + 1e-8`; `distancePointFromCurvedPlanes` hands the accepted fraction on
unchanged (`C10_fraction_passthrough`).  Witness over `ℚ` (exact arithmetic,
`toyTransc`; `sqrt` only enters the distance and the normal, not the fraction): straight trench `(0,0) – (1,0) – (2,0)`, query point
`(2 + 5e-9, 0)`: the search returns piece 1 with fraction `1 + 5e-9`. -/

section finding

namespace C10Ex

/-- a straight trench with three coordinates (two pieces) -/
def exBz2 : Bezier ℚ := ⟨[⟨0, 0⟩, ⟨1, 0⟩, ⟨2, 0⟩], [(⟨1 / 3, 0⟩, ⟨2 / 3, 0⟩), (⟨4 / 3, 0⟩, ⟨5 / 3, 0⟩)], []⟩
/-- `5e-9` -/
def exDelta : ℚ := 1 / 200000000
/-- a point `5e-9` beyond the last trench coordinate -/
def exP : P2 ℚ := ⟨2 + exDelta, 0⟩

theorem ex2_cubic1 : @cubicOf ℚ (fieldScalar toyTransc) ⟨1, 0⟩ ⟨2, 0⟩ ⟨4 / 3, 0⟩ ⟨5 / 3, 0⟩ = ⟨⟨0, 0⟩, ⟨0, 0⟩, ⟨1, 0⟩, ⟨1, 0⟩⟩ := by
  unfold cubicOf
  norm_num

theorem ex2_est0 : @initialEstimate ℚ (fieldScalar toyTransc) ⟨0, 0⟩ ⟨1, 0⟩ exP = 1 := by
  unfold initialEstimate P2.dot exP exDelta
  simp only [smax_eq, smin_eq, ex_p2_sub_x, ex_p2_sub_y]
  norm_num

theorem ex2_est1 : @initialEstimate ℚ (fieldScalar toyTransc) ⟨1, 0⟩ ⟨2, 0⟩ exP = 1 := by
  unfold initialEstimate P2.dot exP exDelta
  simp only [smax_eq, smin_eq, ex_p2_sub_x, ex_p2_sub_y]
  norm_num

theorem ex2_newton1 (n : Nat) :
    @newtonC ℚ (fieldScalar toyTransc) ⟨⟨0, 0⟩, ⟨0, 0⟩, ⟨1, 0⟩, ⟨1, 0⟩⟩ (1 - exP.x) (0 - exP.y) (n + 1) 1 = (1 + exDelta, true) := by
  unfold newtonC exP exDelta
  simp only [smax_eq, smin_eq]
  norm_num [Scalar.fabs]

theorem ex2_cubic0 : @cubicOf ℚ (fieldScalar toyTransc) ⟨0, 0⟩ ⟨1, 0⟩ ⟨1 / 3, 0⟩ ⟨2 / 3, 0⟩ = ⟨⟨0, 0⟩, ⟨0, 0⟩, ⟨1, 0⟩, ⟨0, 0⟩⟩ := by
  unfold cubicOf
  norm_num

theorem ex2_lineSearch :
    @lineSearchC ℚ (fieldScalar toyTransc) ⟨⟨0, 0⟩, ⟨0, 0⟩, ⟨1, 0⟩, ⟨0, 0⟩⟩ (-(400000001 / 200000000)) 0 1 (-(1 / 2))
      (40000000400000001 / 40000000000000000) 10 0 1 (40000000400000001 / 40000000000000000) = 1 := by
  unfold lineSearchC
  simp only [Nat.lt_irrefl, false_and, if_false, gt_iff_lt]
  unfold lineSearchC
  unfold evalC
  norm_num

theorem ex2_newton0 (n : Nat) :
    @newtonC ℚ (fieldScalar toyTransc) ⟨⟨0, 0⟩, ⟨0, 0⟩, ⟨1, 0⟩, ⟨0, 0⟩⟩ (0 - exP.x) (0 - exP.y) (n + 1) 1 = (3 / 2, true) := by
  unfold newtonC
  simp only [smax_eq, smin_eq]
  unfold exP exDelta
  norm_num [Scalar.fabs, ex2_lineSearch]

theorem ex2_accept0 : @accept ℚ (fieldScalar toyTransc) 0 (3 / 2) = false := by
  unfold accept
  norm_num [lit_nat']

theorem ex2_accept1 : @accept ℚ (fieldScalar toyTransc) 1 (1 + exDelta) = true := by
  unfold accept exDelta
  norm_num [lit_nat']

theorem ex2_loop_end (m : ℚ) (b : Option (ClosestPoint ℚ)) :
    @closestCartesianLoop ℚ (fieldScalar toyTransc) exBz2 exP 1 (0 + 1 + 1) m b = .ok b := by
  unfold closestCartesianLoop
  have hlen : exBz2.control.length = 2 := rfl
  simp [hlen]



theorem ex2_step0 (m : ℚ) :
    @closestCartesianLoop ℚ (fieldScalar toyTransc) exBz2 exP (2 + 1) 0 m none =
    @closestCartesianLoop ℚ (fieldScalar toyTransc) exBz2 exP 2 (0 + 1) m none := by
  rw [@closestCartesianLoop_step ℚ (fieldScalar toyTransc) exBz2 exP 2 0 m none ⟨0, 0⟩ ⟨1, 0⟩ ⟨1 / 3, 0⟩ ⟨2 / 3, 0⟩ (3 / 2)
    (by decide) rfl rfl rfl (by rw [ex2_cubic0, ex2_est0]; exact ex2_newton0 149)]
  simp only [ex2_accept0, Bool.false_eq_true, and_false, if_false]

theorem ex2_step1 (m : ℚ) (hm : 0 < m) :
    ∃ cp, @closestCartesianLoop ℚ (fieldScalar toyTransc) exBz2 exP (1 + 1) (0 + 1) m none = .ok (some cp) ∧
      cp.index = 1 ∧ cp.fraction = 1 + exDelta := by
  rw [@closestCartesianLoop_step ℚ (fieldScalar toyTransc) exBz2 exP 1 (0 + 1) m none ⟨1, 0⟩ ⟨2, 0⟩ ⟨4 / 3, 0⟩ ⟨5 / 3, 0⟩ (1 + exDelta)
    (by decide) rfl rfl rfl (by rw [ex2_cubic1, ex2_est1]; exact ex2_newton1 149)]
  dsimp only
  rw [if_pos ⟨by rw [ex2_cubic1]; unfold exP; norm_num [s_lt]; (have e : (1 + exDelta + (1 - (2 + exDelta))) * (1 + exDelta + (1 - (2 + exDelta))) = (0 : ℚ) := by ring); rw [e]; exact hm, ex2_accept1⟩]
  · rw [@closestCartesianLoop_end ℚ (fieldScalar toyTransc) exBz2 exP 0 (0 + 1 + 1) _ _ (by decide)]
    exact ⟨_, rfl, rfl, rfl⟩

/-- the closest-point search of the model accepts a parametric fraction `1 + 5e-9 > 1` at the far end of the last piece -/
theorem ex2_closest :
    ∃ cp, @Bezier.closestPoint ℚ (fieldScalar toyTransc) exBz2 false exP = .ok (some cp) ∧ cp.index = 1 ∧ cp.fraction = 1 + exDelta := by
  unfold Bezier.closestPoint
  rw [if_neg (by simp)]
  show ∃ cp, @closestCartesianLoop ℚ (fieldScalar toyTransc) exBz2 exP (2 + 1) 0 _ none = _ ∧ _
  rw [ex2_step0]
  exact ex2_step1 _ (by show (0 : ℚ) < 1000000000000; norm_num)


end C10Ex
open C10Ex

/-- the full-strength premise of the convexity statement: every parametric fraction the closest-point search returns lies in `[0, 1]` -/
def C10_fraction_in_unit_interval_full : Prop :=
  ∀ (F : Type) [Field F] [LinearOrder F] [IsStrictOrderedRing F] (T : Transc F) (bz : Bezier F) (p : P2 F) (cp : ClosestPoint F),
    @Bezier.closestPoint F (fieldScalar T) bz false p = .ok (some cp) → 0 ≤ cp.fraction ∧ cp.fraction ≤ 1

/-- **C10** (finding) that premise is FALSE of the model: the fraction is not clamped, `1 + 5e-9` is returned for a point `5e-9` beyond
the last trench coordinate; interpolated quantities there are extrapolated (`C10_lerp_extrapolates`) by `5e-9·(b − a)` -/
theorem C10_fraction_in_unit_interval_false : ¬ C10_fraction_in_unit_interval_full := by
  intro h
  obtain ⟨cp, hcp, -, hfrac⟩ := ex2_closest
  have := (h ℚ toyTransc exBz2 exP cp hcp).2
  rw [hfrac] at this
  unfold exDelta at this
  norm_num at this

/-- the convex-combination clause of C10 at full strength, for the membership geometry: NOT proved.  By `C10_fraction_in_unit_interval_false`
and `C10_fraction_passthrough` it can only hold up to the `1e-8` slack of the acceptance window (no complete geometry evaluation of a
counterexample is carried out here) -/
def C10_geometry_convex_full : Prop :=
  ∀ (F : Type) [Field F] [LinearOrder F] [IsStrictOrderedRing F] (T : Transc F) (f : LineFeature F) (ctx : Ctx F) (q : Query F)
    (hit : LineHit F), @LineFeature.coversBody F (fieldScalar T) f ctx q = .ok (some hit) →
    0 ≤ hit.pd.fractionOfSection ∧ hit.pd.fractionOfSection ≤ 1

end finding

end Gwb
