/-
C08 at the level of slabs and faults (`LineFeature`): a trench re-described `k` full turns away answers the same.

Setting.  Spherical world, ordered field `F`, `fieldScalar T`.  The query `q` is FIXED (canonical longitude, `World.query`).  The feature is
re-described: `LineFeature.lonShiftGeom T k f` adds `lonTurns T k = ⟨2πk, 0⟩` to every trench coordinate, to every point and control point of
the trench curve (`Bezier.shift`; that is what `Bezier.build` makes of the shifted coordinates, `C08_bezier_build_translation`) and to the dip
point; `LineFeature.lonShift2 T kT kD f` writes the trench `kT` and the dip point `kD` turns away.  Laws used: `0 < T.pi`;
`HalfTurnLaws T` (`sin (x+π) = −sin x`, `cos (x+π) = −cos x`: Bezier kernel; it implies `PeriodLaws T`, used for
`natural_to_cartesian_coordinates`).  Everything composes the kernel theorems of Properties/C08.lean with `d := 2πk`, `p' := p`, `j := −k`
(`C08_bbox_lon_offset_general`, `C08_bezier_closest_lon_offset_partial`, `C08_dpfcp_on_trench_lon_offset`, `C08_dpfcp_alias_choice`).

Hypotheses (all inherited from the kernels, at the fixed query)
  `LineFeature.BoxAliasOk T f ctx q k`  canonical query longitude; the tolerance-enlarged longitude bounds of the feature's bounding box lie in
                                        `(−3π, 3π]` in both descriptions (`C08_bbox_lon_offset_general`).  Only asked when `f.cull`.
  `DpfcpAliasOk T coord pt nat pts bz sr k` (`LineFeature.GeomAliasOk` for a feature):
      `trench`, `curve`   `TrenchReach`: every trench coordinate / curve point at most `3π` from the query longitude in both descriptions, no
                          description of the query exactly `π` away (`EstReach` of the Bezier kernel; the same serves `dpfcpAlias`).
      `foot`              the same for the foot point the Bezier kernel returns (it lies on the curve; not derived from the vertex ranges).
      `offTrench`         `¬ DpfcpBelowTrench`: the query is not vertically below the trench curve (aligned on-trench test passes AND the query
                          is more than `2e-14` from the foot point).  See REMARK below.

Theorems
* `C08_line_bbox_lon_alias`        the bounding box (trench coordinates + control points + buffer) of the re-described feature is the box moved
                                   by `2πkT` in longitude; latitude bounds, buffer, `1/cos` factors unchanged.
* `C08_line_pretest_lon_alias`     `LineFeature.preTest` (depth window, reach, bounding box; both `cull` settings): same verdict, same error —
                                   whatever the description of the dip point (`kD` free).
* `C08_line_dpfcp_lon_alias`       `distance_point_from_curved_planes` with trench coordinates, trench curve and dip point `k` turns away: the SAME
                                   `PlaneDist` (distance from plane, along plane, section, segment, both fractions, average angle, depth reference,
                                   closest trench point), same error.  Stages: closest point on the curve (same piece, fraction, normal; foot point
                                   `k` turns away, the same Cartesian point), aligned on-trench test, description of the query for the side test
                                   (`dpfcpAlias`), haversine distance to the dip point, the two side tests (`dpfcpRefNormalSide`,
                                   `dpfcpRefPointSide`: differences of coordinates written in the same alias), then literally the same walk.
* `C08_line_geometry_lon_alias`    the geometry call of the membership test for the re-described feature (`only_positive` arbitrary);
  `C08_line_coversBody_lon_alias`  `LineFeature.coversBody` (membership + the `LineHit` handed to the models);
  `C08_line_covers_lon_alias`      `LineFeature.covers`;  `C08_line_applyTemp_lon_alias`  the temperature entry;
  `C08_line_apply_lon_alias`       every property, random draws included.
* `C08_line_side_tests_follow`     the two side tests only see differences of coordinates written in the same alias.

CANDIDATE DEFECT (replayed on the library, see below)
* `C08_line_dip_point_alias_full_false`
      "The dip point may be written in any alias" is FALSE: `dpfcpRefPointSide`
      `(last.x − first.x)·(dip.y − first.y) − (dip.x − first.x)·(last.y − first.y) < 0` (utilities.cc, `reference_point_side`) is a cross product
      in the (lon, lat) PLANE between trench coordinates and the dip point as written.  Witness (`π := 3`): trench from `(19/6, −1/6)` to
      `(10/3, 1/6)`, dip point `(11/3, 0)`: `true`; the same dip point one turn to the west `(11/3 − 2π, 0)`: `false` — the slab dips the other
      way.  In degrees: `"coordinates":[[190,-10],[196,0],[200,10]]`, `"dip point":[220,0]` against `"dip point":[-140,0]`.
      REPLAY (gwb-dat, /repo 7d5ade92, build 2bffa760a8df649f; worlds /tmp/wk_MK/replay/world_A2.wb, world_B2.wb, points scan2.dat): spherical,
      one segment 450 km, thickness 100 km, dip 45°, linear temperature 300–900 K over 100 km.  Query lon −165.5 lat 3 depth 275 km (WEST of the
      trench): dip `[220,0]` 1725.54 K (mantle), dip `[-140,0]` 303.625 K (slab); lon −164.5 lat −6 depth 275 km (EAST): 303.886 K against
      1725.54 K; 331 of 2320 scanned points differ, the slab is mirrored about the trench.  The trench written `[-170..-160]` with either dip
      point, and dip `[580,0]`, agree with the first world everywhere (the cross product keeps its sign there): the defect needs the dip point to
      be on the other side of the trench IN THE PLANE, i.e. trench and dip point written in different turns.  All longitudes are within the
      documented `[−360°, 360°]`.  The haversine distance `dref` and `dpfcpRefNormalSide` are alias-proof; only this cross product is not.
      (With the exactly collinear trench `[[190,-10],[195,0],[200,10]]` the replay additionally shows differences between the trench written
      at `190..200` and at `−170..−160` at the latitude of the middle vertex — known finding `collinear-trench-*`, not an alias effect: they vanish
      for the bent trench above, where the two descriptions agree at all 2320 points.)

REMARK (hypothesis `offTrench`; formal, not observable)
  In the branch "query vertically below the trench" the frame is built from `max(‖closest_point‖, 1)·1e-8` (a step along the trench whose
  length depends on the distance of the foot point from the ORIGIN of the (lon, lat) plane) and from
  `(normal − closest_point)·100 + closest_point` (direction minus position).  Both change when the trench is written a turn away, so the
  exact-arithmetic statement is not provable there; the effect on the frame is of relative order `1e-8` squared (the tangent changes by
  `~3e-8 rad` towards the vertical, which enters the plane coordinates quadratically).  Already listed under "What is NOT proved" in C08.lean.

What is NOT proved
* The ridge of the `mass conserving` slab temperature re-described independently (`C08_ridge_lon_offset` is available; not composed here), and
  worlds containing slabs / faults (`FeatureAlias` of C08Features.lean has no `line` case yet).
* `foot` from vertex ranges (needs "the foot point lies in the hull of the control points").
-/
import GwbVerif.Proofs.MotionLonLines
import GwbVerif.Properties.C08Features
namespace Gwb
open Scalar
set_option linter.unusedSectionVars false

section field
variable {F : Type} [Field F] [LinearOrder F] [IsStrictOrderedRing F] (T : Transc F)

/-- **C08** the bounding box of a slab / fault follows its trench -/
theorem C08_line_bbox_lon_alias (kT kD : ℤ) (f : LineFeature F) (coord : CoordSys F) (hsph : coord.spherical = true) :
    @LineFeature.bbox F (fieldScalar T) (f.lonShift2 T kT kD) coord =
      Except.map (BBox.shift (lonTurns T kT)) (@LineFeature.bbox F (fieldScalar T) f coord) :=
  LineFeature.bbox_lon_shift T kT kD f coord hsph

/-- **C08** the culling pre-test: trench `kT` turns away, dip point anywhere -/
theorem C08_line_pretest_lon_alias (hπ : 0 < T.pi) (kT kD : ℤ) (f : LineFeature F) (ctx : Ctx F) (q : Query F)
    (hsph : ctx.coord.spherical = true) (h : f.cull = true → f.BoxAliasOk T ctx q kT) :
    @LineFeature.preTest F (fieldScalar T) (f.lonShift2 T kT kD) ctx q = @LineFeature.preTest F (fieldScalar T) f ctx q :=
  LineFeature.preTest_lon_alias T hπ kT kD f ctx q hsph h

/-- **C08** `distance_point_from_curved_planes`: trench, curve and dip point `k` turns away, same query: same `PlaneDist` -/
theorem C08_line_dpfcp_lon_alias (hπ : 0 < T.pi) (hH : HalfTurnLaws T) (coord : CoordSys F) (hsph : coord.spherical = true)
    (pt nat : P3 F) (reference : P2 F) (pts : List (P2 F)) (lengths : List (List F)) (angles : List (List (P2 F)))
    (sr : F) (op : Bool) (bz : Bezier F) (k : ℤ) (h : DpfcpAliasOk T coord pt nat pts bz sr k) :
    @distancePointFromCurvedPlanes F (fieldScalar T) coord pt nat (P2.shift (lonTurns T k) reference) (pts.map (P2.shift (lonTurns T k)))
        lengths angles sr op (bz.shift (lonTurns T k)) =
      @distancePointFromCurvedPlanes F (fieldScalar T) coord pt nat reference pts lengths angles sr op bz :=
  dpfcp_lon_alias T hπ hH coord hsph pt nat reference pts lengths angles sr op bz k h

/-- **C08** the geometry call of the membership test of the re-described feature -/
theorem C08_line_geometry_lon_alias (hπ : 0 < T.pi) (hH : HalfTurnLaws T) (f : LineFeature F) (ctx : Ctx F) (q : Query F) (k : ℤ)
    (hsph : ctx.coord.spherical = true) (h : f.GeomAliasOk T ctx q k) (op : Bool) :
    @distancePointFromCurvedPlanes F (fieldScalar T) ctx.coord q.pt q.nat (f.lonShiftGeom T k).reference (f.lonShiftGeom T k).coords
        (f.lonShiftGeom T k).lengths (@LineFeature.anglesRad F (fieldScalar T) (f.lonShiftGeom T k))
        (@depthCoordinate F ctx.coord.spherical q.nat + q.depth - (f.lonShiftGeom T k).minDepth) op (f.lonShiftGeom T k).bezier =
      @distancePointFromCurvedPlanes F (fieldScalar T) ctx.coord q.pt q.nat f.reference f.coords f.lengths
        (@LineFeature.anglesRad F (fieldScalar T) f) (@depthCoordinate F ctx.coord.spherical q.nat + q.depth - f.minDepth) op f.bezier :=
  LineFeature.geometry_lon_alias T hπ hH f ctx q k hsph h op

/-- **C08** geometry and membership, the `LineHit` handed to the models included -/
theorem C08_line_coversBody_lon_alias (hπ : 0 < T.pi) (hH : HalfTurnLaws T) (f : LineFeature F) (ctx : Ctx F) (q : Query F) (k : ℤ)
    (hsph : ctx.coord.spherical = true) (h : f.GeomAliasOk T ctx q k) :
    @LineFeature.coversBody F (fieldScalar T) (f.lonShiftGeom T k) ctx q = @LineFeature.coversBody F (fieldScalar T) f ctx q :=
  LineFeature.coversBody_lon_alias T hπ hH f ctx q k hsph h

/-- **C08** the guards of `SubductingPlate::properties` / `Fault::properties` -/
theorem C08_line_covers_lon_alias (hπ : 0 < T.pi) (hH : HalfTurnLaws T) (f : LineFeature F) (ctx : Ctx F) (q : Query F) (k : ℤ)
    (hsph : ctx.coord.spherical = true) (h : f.AliasOk T ctx q k) :
    @LineFeature.covers F (fieldScalar T) (f.lonShiftGeom T k) ctx q = @LineFeature.covers F (fieldScalar T) f ctx q :=
  LineFeature.covers_lon_alias T hπ hH f ctx q k hsph h

/-- **C08** the temperature entry of a slab / fault -/
theorem C08_line_applyTemp_lon_alias (hπ : 0 < T.pi) (hH : HalfTurnLaws T) (f : LineFeature F) (ctx : Ctx F) (q : Query F) (k : ℤ)
    (hsph : ctx.coord.spherical = true) (h : f.AliasOk T ctx q k) (old : F) :
    @LineFeature.applyTemp F (fieldScalar T) (f.lonShiftGeom T k) ctx q old = @LineFeature.applyTemp F (fieldScalar T) f ctx q old :=
  LineFeature.applyTemp_lon_alias T hπ hH f ctx q k hsph h old

/-- **C08** every property of a slab / fault, random draws included -/
theorem C08_line_apply_lon_alias {G : Type} [@RandGen G F] (hπ : 0 < T.pi) (hH : HalfTurnLaws T) (f : LineFeature F) (ctx : Ctx F)
    (q : Query F) (k : ℤ) (hsph : ctx.coord.spherical = true) (h : f.AliasOk T ctx q k) (pes : List (Req × Nat)) (out : List F) :
    @LineFeature.apply F (fieldScalar T) G _ (f.lonShiftGeom T k) ctx q pes out = @LineFeature.apply F (fieldScalar T) G _ f ctx q pes out :=
  LineFeature.apply_lon_alias T hπ hH f ctx q k hsph h pes out

/-- **C08** the two side tests of the frame only see differences of coordinates written in the same alias -/
theorem C08_line_side_tests_follow (v a c n r p0 p1 : P2 F) (dref : F) :
    @dpfcpRefNormalSide F (fieldScalar T) (P2.shift v a) (P2.shift v c) n dref = @dpfcpRefNormalSide F (fieldScalar T) a c n dref ∧
    @dpfcpRefPointSide F (fieldScalar T) (P2.shift v r) (P2.shift v p0) (P2.shift v p1) = @dpfcpRefPointSide F (fieldScalar T) r p0 p1 :=
  ⟨dpfcpRefNormalSide_shift T v a c n dref, dpfcpRefPointSide_shift T v r p0 p1⟩

/-- the full statement: the dip point may be written any number of turns away from the trench's description (FALSE) -/
def C08_line_dip_point_alias_full : Prop :=
  ∀ (k : ℤ) (reference pFirst pLast : P2 F),
    @dpfcpRefPointSide F (fieldScalar T) (P2.shift (lonTurns T k) reference) pFirst pLast =
      @dpfcpRefPointSide F (fieldScalar T) reference pFirst pLast

end field

/-- **C08** (candidate defect, replayed) the dip point written one turn away from the trench turns the slab round -/
theorem C08_line_dip_point_alias_full_false : ¬ C08_line_dip_point_alias_full c08Transc := by
  intro h
  have := h (-1) ⟨11 / 3, 0⟩ ⟨19 / 6, -1 / 6⟩ ⟨10 / 3, 1 / 6⟩
  rw [dipPoint_alias_witness.1, dipPoint_alias_witness.2] at this
  cases this

/-! ### non-vacuity -/

/-- the laws: `c08Half` (`π := 3`) satisfies `HalfTurnLaws`, and so do the real functions (`c08Real_halfTurnLaws`, Properties/C08.lean) -/
example : HalfTurnLaws c08Half ∧ 0 < c08Half.pi := ⟨c08Half_halfTurnLaws, by show (0 : ℚ) < 3; norm_num⟩

/-- the hypotheses of `C08_line_dpfcp_lon_alias` hold for the curve along latitude `1` from longitude `1` to `2`, the query
`(3/2, 2)`, one turn to the west -/
example (pt : P3 ℚ) : DpfcpAliasOk c08Half ⟨true, .none, 1⟩ pt ⟨1, 3 / 2, 2⟩ (c08HLine 1).points (c08HLine 1) 1 (-1) :=
  c08HLine_dpfcpAliasOk pt 1

/-- a slab with that trench, culling shortcuts off (`cull := false`: the box hypothesis is not asked): `LineFeature.AliasOk` holds -/
example (pt : P3 ℚ) :
    LineFeature.AliasOk c08Half
      ({ name := "s", tag := 0, isFault := false, coords := (c08HLine 1).points, reference := ⟨3 / 2, 3⟩, minDepth := 0, maxDepth := 1,
         sections := [], bezier := c08HLine 1, cull := false } : LineFeature ℚ)
      (⟨⟨true, .none, 1⟩, 1600, 293, true, 0, 1, 1, 10⟩ : Ctx ℚ)
      ({ pt := pt, nat := ⟨1, 3 / 2, 2⟩, depth := 0, gravityNorm := 10 } : Query ℚ) (-1) :=
  ⟨fun h => (by cases h), c08HLine_dpfcpAliasOk pt _⟩

end Gwb
