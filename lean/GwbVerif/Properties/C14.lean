/-
C14 — Concurrent queries are race-free and gwb-grid output does not depend on -j.

What is a theorem here (natural numbers / an abstract store; no bound on sizes, thread counts or schedules):
* `C14_partition`        for all `start ≤ end` and every pool size ≥ 1 the ranges `ThreadPool::parallel_for` hands to its
                         threads enumerate `start … end-1` exactly once, in order, in at most `pool` ranges (also when there
                         are more threads than indices, or the range is not divisible by the thread count);
* `C14_node_writes_disjoint`  node `i` writes `T[i], V[3i..3i+2], Tag[i], C_c[i]`; distinct nodes write disjoint cells;
* `C14_interleaving_irrelevant`  steps with pairwise disjoint write sets that read only immutable data: every interleaving
                         of the threads' step lists ends in the store of the sequential order;
* `C14_output_independent_of_threads`  combined: for any two thread counts and any two schedules the arrays handed to the
                         VTU writer are equal.
What is *assumed* (named, not proved): a library query performs no write to shared memory and `std::thread` start / join give the
usual happens-before — the model cannot exhibit a data race.  That half of C14 is explored with ThreadSanitizer and by comparing
concurrent with single-threaded answers (tools/props/prop_C14.py) and is labelled exploration there.
`pool.size() = 0` divides by zero in the code (`n / pool.size()`); it is outside the quantifier of the property (thread counts 1..40).
-/
import GwbVerif.Proofs.ParallelFor
namespace Gwb

theorem C14_partition (start stop pool : Nat) (h : start ≤ stop) (hp : 0 < pool) :
    rangesIndices (parallelForSlices start stop pool) = List.range' start (stop - start) ∧
    (parallelForSlices start stop pool).length ≤ pool :=
  parallelFor_partition start stop pool h hp

theorem C14_node_writes_disjoint (compositions i j : Nat) (hij : i ≠ j) :
    ∀ c ∈ nodeWrites compositions i, c ∉ nodeWrites compositions j :=
  nodeWrites_disjoint compositions i j hij

theorem C14_interleaving_irrelevant (sched : List Step) (progs : List (List Step)) (h : IsInterleaving sched progs)
    (hd : DisjointWrites progs.flatten) (m : Store) : exec sched m = exec progs.flatten m :=
  interleaving_irrelevant sched progs h hd m

/-- the steps node `i` performs: one write per cell of `nodeWrites`, the value being a function of the node (the library's answer) -/
def nodeSteps (compositions : Nat) (answer : Nat → Nat × Nat → Int) (i : Nat) : List Step :=
  (nodeWrites compositions i).map (fun c => ⟨c, answer i c⟩)

/-- the step lists of the threads launched by `parallel_for(start, end, …)` with `pool` threads -/
def threadPrograms (compositions : Nat) (answer : Nat → Nat × Nat → Int) (start stop pool : Nat) : List (List Step) :=
  (parallelForSlices start stop pool).map (fun r => (List.range' r.1 (r.2 - r.1)).flatMap (nodeSteps compositions answer))

theorem threadPrograms_flatten (compositions : Nat) (answer : Nat → Nat × Nat → Int) (start stop pool : Nat)
    (h : start ≤ stop) (hp : 0 < pool) :
    (threadPrograms compositions answer start stop pool).flatten
      = (List.range' start (stop - start)).flatMap (nodeSteps compositions answer) := by
  have := (parallelFor_partition start stop pool h hp).1
  unfold rangesIndices at this
  unfold threadPrograms
  rw [← this]
  induction parallelForSlices start stop pool with
  | nil => simp
  | cons r rs ih => simp [List.flatMap_append, ih]

theorem nodeWrites_nodup (compositions i : Nat) : (nodeWrites compositions i).Nodup := by
  unfold nodeWrites
  rw [List.nodup_append]
  refine ⟨?_, ?_, ?_⟩
  · simp only [List.nodup_cons, List.mem_cons, Prod.mk.injEq, List.not_mem_nil, or_false, List.nodup_nil, and_true]
    simp
  · refine List.Pairwise.map (fun c => (4 + c, i)) ?_ List.nodup_range
    intro a b hab h
    simp only [Prod.mk.injEq] at h
    omega
  · intro a ha b hb hab
    simp only [List.mem_cons, List.not_mem_nil, or_false, List.mem_map, List.mem_range] at ha hb
    obtain ⟨c, _, rfl⟩ := hb
    rcases ha with rfl | rfl | rfl | rfl | rfl <;> simp only [Prod.mk.injEq] at hab <;> omega

theorem steps_disjoint (compositions : Nat) (answer : Nat → Nat × Nat → Int) (is : List Nat) (hn : is.Nodup) :
    DisjointWrites (is.flatMap (nodeSteps compositions answer)) := by
  unfold DisjointWrites
  induction is with
  | nil => simp
  | cons i is ih =>
    simp only [List.nodup_cons] at hn
    obtain ⟨hi, his⟩ := hn
    simp only [List.flatMap_cons, List.map_append]
    rw [List.nodup_append]
    refine ⟨?_, ih his, ?_⟩
    · have : (nodeSteps compositions answer i).map (·.cell) = nodeWrites compositions i := by
        simp only [nodeSteps, List.map_map]
        induction nodeWrites compositions i with
        | nil => rfl
        | cons a l ih => simp [ih]
      rw [this]; exact nodeWrites_nodup compositions i
    · intro a ha b hb hab
      subst hab
      simp only [nodeSteps, List.map_map, List.mem_map, List.mem_flatMap, Function.comp] at ha hb
      obtain ⟨c, hc, rfl⟩ := ha
      obtain ⟨s, ⟨j, hj, hs⟩, hsc⟩ := hb
      obtain ⟨c', hc', rfl⟩ := hs
      simp only at hsc
      subst hsc
      have hij : i ≠ j := by intro h; subst h; exact hi hj
      exact nodeWrites_disjoint compositions i j hij _ hc hc'

/-- **C14** the arrays written by `gwb-grid`'s property loop do not depend on the number of threads nor on how the
threads' steps interleave -/
theorem C14_output_independent_of_threads (compositions : Nat) (answer : Nat → Nat × Nat → Int) (start stop : Nat) (h : start ≤ stop)
    (pool₁ pool₂ : Nat) (h₁ : 0 < pool₁) (h₂ : 0 < pool₂) (sched₁ sched₂ : List Step)
    (hs₁ : IsInterleaving sched₁ (threadPrograms compositions answer start stop pool₁))
    (hs₂ : IsInterleaving sched₂ (threadPrograms compositions answer start stop pool₂)) (m : Store) :
    exec sched₁ m = exec sched₂ m := by
  have hd : DisjointWrites ((List.range' start (stop - start)).flatMap (nodeSteps compositions answer)) :=
    steps_disjoint compositions answer _ (List.nodup_range')
  have e1 := interleaving_irrelevant sched₁ _ hs₁ (by rw [threadPrograms_flatten _ _ _ _ _ h h₁]; exact hd) m
  have e2 := interleaving_irrelevant sched₂ _ hs₂ (by rw [threadPrograms_flatten _ _ _ _ _ h h₂]; exact hd) m
  rw [e1, e2, threadPrograms_flatten _ _ _ _ _ h h₁, threadPrograms_flatten _ _ _ _ _ h h₂]

/-- non-vacuity: 7 indices on 3 threads give the ranges [0,2) [2,4) [4,7); 2 indices on 5 threads give [0,1) [1,2) -/
example : parallelForSlices 0 7 3 = [(0, 2), (2, 4), (4, 7)] ∧ parallelForSlices 0 2 5 = [(0, 1), (1, 2)] := by decide

end Gwb
