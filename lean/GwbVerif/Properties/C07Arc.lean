/-
C07 (continued) — the depth cut-off `depth − min_depth ≤ maximum_total_slab_length + maximum_slab_thickness` and the surface bounding
box (buffer `maximum_slab_thickness + maximum_total_slab_length`) never discard a member when the walk of
`distance_point_from_curved_planes` contains CIRCULAR pieces (dip varying along a segment).  Extends `Properties/C07Depth.lean` and
`Properties/C07Box.lean`, which cover walks of straight pieces (`StraightWalk`), using the sector bookkeeping of `Properties/C06Arc.lean`.

Argument (`Proofs/CullArc.lean`): chord ≤ arc.  A circular piece of length `len`, dips `θ → β`, is an arc of radius
`r = len/|β − θ|`; its end point is `r(cos θ − cos β)` lower and `r(sin β − sin θ)` further than its begin point, and `cos`, `sin` are
1-Lipschitz, so both are at most `r|β − θ| = len`.  A point `center ± ρ(sin ψ, cos ψ)` attributed to the piece with along-value
`a = r|ψ − θ| ≥ 0` and distance `d = ±(r − ρ)` lies `±(r cos θ − ρ cos ψ) ≤ a + |d|` below its begin point, and `≤ a + |d|`
horizontally from it.  NO restriction on the dips is needed: overturned slabs (dips above 90°), `|β − θ| ≥ π`, negative dips and a
radius smaller than the thickness are all covered.

Ordered field; `ChordLaws T` = `ArcLaws T` (`Proofs/ArcPiece.lean`) and `|sin x| ≤ |x|`; satisfied by the real functions with
`acos = Real.arccos` (`real_chordLaws`).
* `C07_arc_chord_le_arc`          the plane-geometry core: `|r cos x − ρ cos y|, |r sin x − ρ sin y| ≤ r|x − y| + |r − ρ|`.
* `C07_depth_arc_piece_geometry`  one non-skipped iteration that is `PieceOK` (straight, or circular with the check point at a polar
                                  position `(ρ, ψ)` about the centre, `ρ ≥ ε`, `ψ` in the range where the code's angle is exact):
                                  the piece ends at most `len` below and at most `len` horizontally from its begin point `b`; and the
                                  members `newAlong / newDistance / newDepthRef` are afterwards (i) untouched — straight piece with
                                  `|len| ≤ ε` only —, or (ii) `+∞` (point rejected), or (iii) an
                                  attribution with, if `newAlong ≥ 0`: `b.y − c.y ≤ newAlong + |newDistance|`,
                                  `|c.x − b.x| ≤ newAlong + |newDistance|`, `newDepthRef ≤ sr − b.y + newAlong`.
* `C07_depth_arc_piece_invariant` the analogue of `C07_depth_piece_invariant` / `C07_box_piece_invariant`: one iteration — skipped,
                                  straight or circular — preserves `WalkInv x0 y0 sr c` (end of the walk at most `totalLength` below
                                  `y0` and from `x0`; `fresh`: what `newAlong / newDistance / newDepthRef` hold is a sound attribution
                                  with respect to the accumulated length; `hit`: a recorded foot with `segmentFraction ≥ 0` has
                                  `y0 − c.y ≤ along + |distance|`, `|c.x − x0| ≤ along + |distance|`, `depthRef ≤ sr − y0 + along`).
* `C07_arc_walk_bound`            the model's `segmentLoop` over an `ArcWalk`, started as the code starts it (`found = false`,
                                  `totalLength = 0`, `newAlong = +∞`): the three bounds of `hit` for the final state.
* `C07_depth_cutoff_sound_arcs`   with the membership ranges `lineInside`: the depth conjunct of the culling pre-test is true
                                  (extends `C07_depth_cutoff_sound_partial`; `C07_straight_is_arc_walk`: every `StraightWalk` is an
                                  `ArcWalk`).
* `C07_bbox_cutoff_sound_arcs`    the same for the bounding-box conjunct (extends `C07_bbox_cutoff_sound_partial`).

Hypotheses a user would not expect, all at the scale of the code's tolerances (none is a defect of the buffers):
1. `0 ≤ s.segmentFraction` for the recorded foot.  The sector test of the circular branch has a tolerance of `1e-12 rad` and the
   "closest so far" block accepts `newAlong ≥ −1e-10`, so a foot can be recorded up to `1e-10 m` BEFORE the begin point of a circular
   piece; the point is then up to `2e-10 m` further than `along + |distance|`.  (The straight branch never stores a negative
   `newAlong`.)  `C07_depth_cutoff_sound_partial` already assumes `0 ≤ gf` for the fraction of the segment; here it is tied to the state.
2. `PieceOK` for a circular piece: `DipOK` (inside the two `1e-8` windows where the centre is computed for a vertical dip, the dip IS
   vertical), and the check point not within `ε` of the centre nor in the sliver `2π − 1e-14 < ψ < 2π` where the code snaps its
   angle to `0` (`C06_arc_polar_exhaustive`: over `ℝ` every other point has the polar position asked for).
3. `¬ s0.newAlong < +∞` in the start state (utilities.cc initialises it with `+∞`).  Needed only for a straight piece with
   `1e-14 ≤ len` and `|len| ≤ ε`, for which the code does nothing and the "closest so far" block tests the STALE
   `newAlong / newDistance / newDepthRef` of an earlier iteration against the length of that piece (clause `fresh` of `WalkInv`: a stale
   attribution is still sound for the cut-offs).  With the library's `ε = 2.2e-16 < 1e-14` no such piece exists; `T.eps` is abstract here.
   History: an earlier revision of the library left these three members stale also when the sector test of a CIRCULAR piece rejected
   the point; that was a genuine defect (wrong `along`; C06), repaired upstream ('a rejected circular piece stores +∞', as the
   straight branch does); the model follows, and case (i) of `C07_depth_arc_piece_geometry` no longer arises for circular pieces.

Still MISSING for `C07_depth_cutoff_sound_full` / `C07_bbox_cutoff_sound_full`: items 2 and 3 of the header of `Properties/C07Depth.lean`
(the frame hypothesis `hframe`, and that the numbers tested by the membership are those of the loop), the three tolerance slivers
above, and real-vs-double arithmetic.
-/
import GwbVerif.Proofs.CullArc
import GwbVerif.Properties.C07Box
import GwbVerif.Properties.C06Arc
namespace Gwb
open Scalar
set_option linter.unusedSectionVars false
set_option linter.unusedVariables false

section field
variable {F : Type} [Field F] [LinearOrder F] [IsStrictOrderedRing F]

/-- **C07 (arcs)** chord ≤ arc, with a radial offset: the coordinates of the point at radius `ρ`, angle `y` about a centre and of the
point at radius `r`, angle `x` differ by at most `r|x − y| + |r − ρ|` -/
theorem C07_arc_chord_le_arc (T : Transc F) (L : ChordLaws T) (r ρ x y : F) (hr : 0 ≤ r) :
    |r * T.cos x - ρ * T.cos y| ≤ r * |x - y| + |r - ρ| ∧ |r * T.sin x - ρ * T.sin y| ≤ r * |x - y| + |r - ρ| :=
  arc_coord_bound L r ρ x y hr

/-- **C07 (arcs)** what one non-skipped, `PieceOK` iteration does to the end point and to the stored attribution (`GeomOK`, unfolded):
the piece ends at most `len` below / from its begin point `b = s.endSeg`; `newAlong / newDistance / newDepthRef` are untouched, or
`newAlong` is `+∞`, or (for `newAlong ≥ 0`) the check point is at most `newAlong + |newDistance|` below / from `b` and
`newDepthRef ≤ sr − b.y + newAlong` -/
theorem C07_depth_arc_piece_geometry (T : Transc F) (L : ChordLaws T) (dm : DepthMethod) (onlyPositive : Bool) (sr fraction : F) (c : P2 F)
    (angCur angNext : P2 F) (lenCur lenNext : F) (i : Nat) (s : SegState F)
    (hlen : 1 / 10 ^ 14 ≤ lenCur + fraction * (lenNext - lenCur))
    (hok : PieceOK T s.endSeg c
      (@segAngTop F (fieldScalar T) dm fraction angCur angNext i (@segPre F (fieldScalar T) dm i s))
      (@segAngBot F (fieldScalar T) fraction angCur angNext (@segPre F (fieldScalar T) dm i s))
      (lenCur + fraction * (lenNext - lenCur))) :
    let len := lenCur + fraction * (lenNext - lenCur)
    let r := @segmentStep F (fieldScalar T) dm onlyPositive sr fraction c angCur angNext lenCur lenNext i s
    s.endSeg.y - len ≤ r.endSeg.y ∧ |r.endSeg.x - s.endSeg.x| ≤ len ∧
    ((r.newAlong = s.newAlong ∧ r.newDistance = s.newDistance ∧ r.newDepthRef = s.newDepthRef) ∨
     ¬ r.newAlong < T.inf ∨
     (0 ≤ r.newAlong → s.endSeg.y - c.y ≤ r.newAlong + |r.newDistance| ∧ |c.x - s.endSeg.x| ≤ r.newAlong + |r.newDistance| ∧
        r.newDepthRef ≤ sr - s.endSeg.y + r.newAlong)) :=
  segmentStep_geomOK T L dm onlyPositive sr fraction c angCur angNext lenCur lenNext i s hlen hok

/-- **C07 (arcs)** one iteration of the segment loop — skipped, straight or circular — preserves the invariant `WalkInv` -/
theorem C07_depth_arc_piece_invariant (T : Transc F) (L : ChordLaws T) (dm : DepthMethod) (onlyPositive : Bool) (sr fraction : F) (c : P2 F)
    (angCur angNext : P2 F) (lenCur lenNext : F) (i : Nat) (s : SegState F) (x0 y0 : F) (hinv : WalkInv T x0 y0 sr c s)
    (hok : PieceOK T s.endSeg c
      (@segAngTop F (fieldScalar T) dm fraction angCur angNext i (@segPre F (fieldScalar T) dm i s))
      (@segAngBot F (fieldScalar T) fraction angCur angNext (@segPre F (fieldScalar T) dm i s))
      (lenCur + fraction * (lenNext - lenCur))) :
    WalkInv T x0 y0 sr c (@segmentStep F (fieldScalar T) dm onlyPositive sr fraction c angCur angNext lenCur lenNext i s) :=
  segmentStep_walkInv T L dm onlyPositive sr fraction c angCur angNext lenCur lenNext i s x0 y0 hinv hok

/-- **C07 (arcs)** every walk of straight pieces is an `ArcWalk`: the theorems below extend those of `C07Depth` / `C07Box` -/
theorem C07_straight_is_arc_walk (T : Transc F) (dm : DepthMethod) (onlyPositive : Bool) (sr fraction : F) (c : P2 F)
    (angsCur angsNext : List (P2 F)) (lensCur lensNext : List F) (s0 : SegState F) (n : Nat)
    (hw : StraightWalk T dm onlyPositive sr fraction c angsCur angsNext lensCur lensNext s0 n) :
    ArcWalk T dm onlyPositive sr fraction c angsCur angsNext lensCur lensNext s0 n :=
  StraightWalk.arcWalk T dm onlyPositive sr fraction c angsCur angsNext lensCur lensNext s0 n hw

/-- **C07 (arcs)** the segment loop over straight and circular pieces: a recorded foot (with `segmentFraction ≥ 0`) is at most
`along + |distance|` below and at most that far horizontally from the start of the walk, and its own depth below the start is at most
`along` -/
theorem C07_arc_walk_bound (T : Transc F) (L : ChordLaws T) (dm : DepthMethod) (onlyPositive : Bool) (sr fraction : F) (c : P2 F)
    (angsCur angsNext : List (P2 F)) (lensCur lensNext : List F) (s0 s : SegState F)
    (h1 : lensCur.length ≤ angsCur.length) (h2 : lensCur.length ≤ angsNext.length) (h3 : lensCur.length ≤ lensNext.length)
    (hf : s0.found = false) (ht : s0.totalLength = 0) (hn : ¬ s0.newAlong < T.inf)
    (hw : ArcWalk T dm onlyPositive sr fraction c angsCur angsNext lensCur lensNext s0 lensCur.length)
    (hs : @segmentLoop F (fieldScalar T) dm onlyPositive sr fraction c angsCur angsNext lensCur lensNext (lensCur.length + 1) 0 s0 = .ok s)
    (hfound : s.found = true) (hfr : 0 ≤ s.segmentFraction) :
    s0.endSeg.y - c.y ≤ s.along + |s.distance| ∧ |c.x - s0.endSeg.x| ≤ s.along + |s.distance| ∧
    s.depthRef ≤ sr - s0.endSeg.y + s.along :=
  segmentLoop_arc_bound T L dm onlyPositive sr fraction c angsCur angsNext lensCur lensNext s0 s h1 h2 h3 hf ht hn hw hs hfound hfr

/-- **C07 (depth, arcs)**: a point that the walk — straight and circular pieces — places at `(s.distance, s.along)` with
`segmentFraction ≥ 0` and that passes the membership ranges for these two numbers satisfies the depth half of the culling pre-test —
provided the walk started at the trench surface with `start height − check height = depth − min depth` (`hframe`).  Slabs and faults. -/
theorem C07_depth_cutoff_sound_arcs (T : Transc F) (L : ChordLaws T) (f : LineFeature F) (q : Query F)
    (dm : DepthMethod) (sr fraction : F) (c : P2 F)
    (angsCur angsNext : List (P2 F)) (lensCur lensNext : List F) (s0 s : SegState F)
    (h1 : lensCur.length ≤ angsCur.length) (h2 : lensCur.length ≤ angsNext.length) (h3 : lensCur.length ≤ lensNext.length)
    (hf : s0.found = false) (ht : s0.totalLength = 0) (hn : ¬ s0.newAlong < T.inf)
    (hw : ArcWalk T dm f.isFault sr fraction c angsCur angsNext lensCur lensNext s0 lensCur.length)
    (hs : @segmentLoop F (fieldScalar T) dm f.isFault sr fraction c angsCur angsNext lensCur lensNext (lensCur.length + 1) 0 s0 = .ok s)
    (hfound : s.found = true) (hfr : 0 ≤ s.segmentFraction)
    (hframe : s0.endSeg.y - c.y = q.depth - f.minDepth)
    (secCur secNext : List (Segment F)) (cur next : Segment F) (sf gf : F)
    (hm1 : secCur ∈ f.sections) (hm2 : secNext ∈ f.sections) (hc : cur ∈ secCur) (hn' : next ∈ secNext)
    (hs0 : 0 ≤ sf) (hs1 : sf ≤ 1) (hg0 : 0 ≤ gf) (hg1 : gf ≤ 1)
    (hin : @lineInside F (fieldScalar T) f.isFault s.distance s.along (@Segment.thLocal F (fieldScalar T) cur next sf gf)
      (@Segment.ttLocal F (fieldScalar T) cur next sf gf) (@maxLenLocal F (fieldScalar T) secCur secNext sf)) :
    q.depth - f.minDepth ≤ @LineFeature.maxTotalLength F (fieldScalar T) f + @LineFeature.maxThickness F (fieldScalar T) f ∧
    @decide (q.depth - f.minDepth ≤ @LineFeature.maxTotalLength F (fieldScalar T) f + @LineFeature.maxThickness F (fieldScalar T) f)
      (@Scalar.decLe F (fieldScalar T) _ _) = true := by
  obtain ⟨hb, _, _⟩ := C07_arc_walk_bound T L dm f.isFault sr fraction c angsCur angsNext lensCur lensNext s0 s h1 h2 h3 hf ht hn hw hs
    hfound hfr
  obtain ⟨_, k1, k2⟩ := lineInside_le_maxima T f s.distance s.along secCur secNext cur next sf gf hm1 hm2 hc hn' hs0 hs1 hg0 hg1 hin
  have hfinal : q.depth - f.minDepth ≤ @LineFeature.maxTotalLength F (fieldScalar T) f + @LineFeature.maxThickness F (fieldScalar T) f := by
    rw [← hframe]; linarith
  exact ⟨hfinal, decide_eq_true hfinal⟩

/-- **C07 (box, arcs)**: the closest trench point on a Bezier piece of the feature (`0 ≤ t ≤ 1`); a point that the walk — straight and
circular pieces — places at `(s.distance, s.along)` with `segmentFraction ≥ 0` and that passes the membership ranges for these two
numbers passes the bounding-box conjunct of the culling pre-test — provided (`hframe`) the plane abscissa of the check point counted
from the start of the walk bounds the two coordinate differences between the query's surface point and the closest trench point
(`C07_box_frame`).  Slabs and faults. -/
theorem C07_bbox_cutoff_sound_arcs (T : Transc F) (L : ChordLaws T) (heps : 0 ≤ T.eps) (f : LineFeature F) (coord : CoordSys F)
    (hsph : coord.spherical = false) (box : BBox F) (hbox : @LineFeature.bbox F (fieldScalar T) f coord = .ok box)
    (dm : DepthMethod) (sr fraction : F) (c : P2 F)
    (angsCur angsNext : List (P2 F)) (lensCur lensNext : List F) (s0 s : SegState F)
    (h1 : lensCur.length ≤ angsCur.length) (h2 : lensCur.length ≤ angsNext.length) (h3 : lensCur.length ≤ lensNext.length)
    (hf : s0.found = false) (ht : s0.totalLength = 0) (hn : ¬ s0.newAlong < T.inf)
    (hw : ArcWalk T dm f.isFault sr fraction c angsCur angsNext lensCur lensNext s0 lensCur.length)
    (hs : @segmentLoop F (fieldScalar T) dm f.isFault sr fraction c angsCur angsNext lensCur lensNext (lensCur.length + 1) 0 s0 = .ok s)
    (hfound : s.found = true) (hfr : 0 ≤ s.segmentFraction)
    (p0 p1 c0 c1 q2d : P2 F) (t : F) (ht0 : 0 ≤ t) (ht1 : t ≤ 1) (hp0 : p0 ∈ f.coords) (hp1 : p1 ∈ f.coords)
    (hctrl : (c0, c1) ∈ f.bezier.control)
    (hframe : |q2d.x - (@cubicPoint F (fieldScalar T) (@cubicOf F (fieldScalar T) p0 p1 c0 c1) t).x| ≤ |c.x - s0.endSeg.x| ∧
      |q2d.y - (@cubicPoint F (fieldScalar T) (@cubicOf F (fieldScalar T) p0 p1 c0 c1) t).y| ≤ |c.x - s0.endSeg.x|)
    (secCur secNext : List (Segment F)) (cur next : Segment F) (sf gf : F)
    (hm1 : secCur ∈ f.sections) (hm2 : secNext ∈ f.sections) (hc : cur ∈ secCur) (hn' : next ∈ secNext)
    (hs0 : 0 ≤ sf) (hs1 : sf ≤ 1) (hg0 : 0 ≤ gf) (hg1 : gf ≤ 1)
    (hin : @lineInside F (fieldScalar T) f.isFault s.distance s.along (@Segment.thLocal F (fieldScalar T) cur next sf gf)
      (@Segment.ttLocal F (fieldScalar T) cur next sf gf) (@maxLenLocal F (fieldScalar T) secCur secNext sf)) :
    @BBox.inside F (fieldScalar T) box false q2d = true := by
  obtain ⟨_, hb, _⟩ := C07_arc_walk_bound T L dm f.isFault sr fraction c angsCur angsNext lensCur lensNext s0 s h1 h2 h3 hf ht hn hw hs
    hfound hfr
  obtain ⟨minX, maxX, minY, maxY, hall, rfl⟩ := bbox_cartesian T f coord hsph box hbox
  obtain ⟨g1, g2, g3, g4⟩ := bezier_foot_in_boxPoints T f p0 p1 c0 c1 t ht0 ht1 hp0 hp1 hctrl minX maxX minY maxY hall
  obtain ⟨_, k1, k2⟩ := lineInside_le_maxima T f s.distance s.along secCur secNext cur next sf gf hm1 hm2 hc hn' hs0 hs1 hg0 hg1 hin
  obtain ⟨q1, q2⟩ := hframe
  obtain ⟨q1a, q1b⟩ := abs_le.1 (le_trans q1 hb)
  obtain ⟨q2a, q2b⟩ := abs_le.1 (le_trans q2 hb)
  apply bbox_inside_of_between T heps
  · show minX - _ ≤ q2d.x; linarith
  · show q2d.x ≤ maxX + _; linarith
  · show minY - _ ≤ q2d.y; linarith
  · show q2d.y ≤ maxY + _; linarith

end field

/-! ### non-vacuity -/

/-- the laws are those of the real functions (`acos = Real.arccos`) -/
example : ChordLaws realArcTransc := real_chordLaws

/-- the state the code starts the walk from, at `begin0 = (0, sr)` -/
noncomputable def arcWalkStart (sr : ℝ) : SegState ℝ :=
  { distance := realArcTransc.inf, newDistance := realArcTransc.inf, along := realArcTransc.inf, newAlong := realArcTransc.inf,
    newDepthRef := realArcTransc.inf, segment := 0, segmentFraction := 0, totalAverageAngle := 0, depthRef := 0,
    beginSeg := ⟨0, sr⟩, endSeg := ⟨0, sr⟩, totalLength := 0, addAngle := 0, addAngleCorrection := 0, averageAngle := 0, found := false }

/-- the start state satisfies the invariant -/
example (sr : ℝ) (c : P2 ℝ) : WalkInv realArcTransc (arcWalkStart sr).endSeg.x (arcWalkStart sr).endSeg.y sr c (arcWalkStart sr) :=
  walkInv_start realArcTransc sr c (arcWalkStart sr) rfl rfl (lt_irrefl _)

/-- `ArcWalk` is satisfiable WITH A CIRCULAR PIECE: one segment whose dip goes from `0.5 rad` to `1 rad` over `100 km` (radius
`200 km`), no angle correction, the real functions; the check point at polar position `(150 km, 0.75 rad)` about the centre — in the
sector, `50 km` below the slab surface -/
example (sr : ℝ) :
    ArcWalk realArcTransc .none false sr 0
      ⟨0 - 100000 / (1 - 1 / 2) * Real.sin (1 / 2) + 150000 * Real.sin (3 / 4),
       sr - 100000 / (1 - 1 / 2) * Real.cos (1 / 2) + 150000 * Real.cos (3 / 4)⟩
      [⟨1 / 2, 1⟩] [⟨1 / 2, 1⟩] [100000] [100000] (arcWalkStart sr) 1 := by
  intro k hk
  have hk0 : k = 0 := by omega
  subst hk0
  have hlen : walkLen realArcTransc [100000] [100000] (0 : ℝ) 0 = 100000 := by
    unfold walkLen
    simp
  rw [hlen]
  obtain ⟨hθ, hβ⟩ := ex_arc_angles (arcWalkStart sr) rfl ⟨1 / 2, 1⟩
  show PieceOK realArcTransc (arcWalkStart sr).endSeg _
    (@segAngTop ℝ (fieldScalar realArcTransc) .none 0 ⟨1 / 2, 1⟩ ⟨1 / 2, 1⟩ 0 (@segPre ℝ (fieldScalar realArcTransc) .none 0 (arcWalkStart sr)))
    (@segAngBot ℝ (fieldScalar realArcTransc) 0 ⟨1 / 2, 1⟩ ⟨1 / 2, 1⟩ (@segPre ℝ (fieldScalar realArcTransc) .none 0 (arcWalkStart sr)))
    100000
  rw [hθ, hβ]
  have hp : (2 : ℝ) ≤ Real.pi := Real.two_le_pi
  refine Or.inr ⟨by norm_num, by norm_num [realArcTransc, realTransc], Or.inr ⟨by norm_num [abs_lt], real_dipOK_half,
    Or.inl ⟨by norm_num, 150000, 3 / 4, by norm_num, by norm_num [realArcTransc, realTransc], by norm_num, ?_, rfl⟩⟩⟩
  show (3 / 4 : ℝ) ≤ 2 * Real.pi - 1 / 10 ^ 14
  norm_num
  linarith

end Gwb
