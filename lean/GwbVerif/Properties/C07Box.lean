/-
C07 (surface bounding box part) — the culling test `surface_bounding_box.point_inside(surface point)` (subducting_plate.cc:519,
fault.cc:493; fourth conjunct of `LineFeature.preTest`), Cartesian worlds.  The box (`LineFeature.bbox`) contains the trench
coordinates AND the inner control points of the Bezier pieces of the trench curve, and is extended on every side by
`maximum_slab_thickness + maximum_total_slab_length`.

**History / FINDING.**  Up to /repo 2db42b53 the box was the box of the trench COORDINATES alone (`LineFeature.bboxOld`,
`Proofs/CullBox.lean`).  The trench is not the polygon through its coordinates but a chain of cubic Bezier pieces whose inner control
points sit `0.2·chord` away from the end points along the averaged direction (`Model/Geometry/Bezier.lean`, `ctrlAt`); a piece leaves
the box of its two end points by up to `3/4·0.2·chord = 0.15·chord` (`C07_bezier_bulge`, `C07_ctrl_near`), and the buffer contained
nothing for that: a slab or fault shorter and thinner than the bulge had members whose surface point the box discarded.  Found while
checking the last step of this proof against the code; replayed on the library (hook `inflate_culling_bounds` on/off, dip 45°, trench
`(0,0), (1000 km,0), (1280 km,960 km)`, length 20 km, thickness 10 km): queries `(714074.074074074, −53333.3333333, depth 1 km or 5 km)`
and `(714074.074, −50000, depth 5 km)` had composition 1 with the shortcuts off and 0 with them on; same code in fault.cc.  Repaired
upstream ('fix: bounding box of slabs and faults ignored the bulge of the trench curve', /repo 2fc12091: the box covers the control
points as well); the model follows.  The old rule is kept here as a documented witness:
* `C07_bbox_cutoff_sound_old_false`  the geometric statement for the OLD box ("a point within `a + |d|` of a point of the trench
                              curve, `(d, a)` in the membership ranges, passes the box") is refuted over `ℚ`: slab `bxLine` on the trench
                              above; the control points of piece 0 are `(200 km, 0)` and `(840 km, −120 km)` (3-4-5 numbers; printed
                              from the library: identical); the point of the curve at `t = 2/3` is `(19280000/27, −160000/3) ≈
                              (714074.07, −53333.33)`, the old box is `[−30 km, 1310 km] × [−30 km, 990 km]`; the member `d = 0, a = 0`
                              at that point is discarded.
* `C07_bbox_old_discards_member`     inside the model (kernel evaluation over `ℚ`): the query on the trench curve at `t = 10/23`
                              (`(10000000/23, −468000000/12167) ≈ (434782.61, −38464.70)`, the parameter at which the Newton search
                              starts and stops at once) at the feature's min depth is a member (`LineFeature.covers` with the shortcuts
                              ON, i.e. the repaired box keeps it: `d = 0, a = 0`, section fraction `10/23`), while the old box does not
                              contain its surface point.  The toy libm plays no role in this evaluation (`sqrt` is only applied to `0`).

What is proved for the box as it is now (ordered field, `PlaneLaws T`; straight walks only, exactly as in `C07Depth`):
* `C07_box_piece_invariant`   one straight, non-skipped iteration of the segment loop preserves `HorizInv x0 c`: (i) the end of the
                              walk is horizontally at most the accumulated length away from `x0`; (ii) if a foot has been recorded,
                              `|c.x − x0| ≤ along + |distance|`.
* `C07_box_walk_bound`        for the model's `segmentLoop` over straight pieces started as the code starts it: a recorded foot implies
                              `|check2d.x − begin0.x| ≤ along + |distance|`.
* `C07_box_frame`             Cartesian frame (`cartAxes`): `|check2d.x − begin0.x|` is the horizontal distance between the query's
                              surface point and the closest trench point, which bounds both coordinate differences (`SqrtLaws T`).
* `C07_bezier_hull`           convex hull: a point of a piece (`0 ≤ t ≤ 1`) lies in every axis-parallel box containing its four
                              control points.
* `C07_bezier_bulge`, `C07_ctrl_near`  (the size of the old defect) inner control points within `r` per coordinate of the end points:
                              the piece stays in the box of its end points extended by `3/4·r`; the constructor has `r = chord/5`.
* `C07_bbox_core`             arithmetic core: foot within `β` of the box of `f.boxPoints` (coordinates and control points), surface
                              point within `h ≤ a + |d|` of the foot, `(d, a)` in the membership ranges ⇒ the surface point passes the
                              feature's box extended by `β`.
* `C07_bbox_cutoff_sound_partial`  the walk bound, the hull and the core (`β = 0`): the foot on a Bezier piece of the feature
                              (`p0, p1 ∈ coords`, `(c0, c1) ∈ bezier.control`, parameter `0 ≤ t ≤ 1`), a member found by a straight walk
                              whose plane abscissa bounds the coordinate differences to the foot (`hframe`): the surface point passes
                              `BBox.inside (f.bbox coord) false`.
* `C07_bbox_cutoff_sound_closest`  the same with the foot produced by the model's `Bezier.closestPoint` (`BezierHit`) and the frame
                              the Cartesian branch of `distance_point_from_curved_planes` builds (`cartAxes`, `cartCheck2d`,
                              `cartBegin0`; `C07_box_frame` discharges `hframe`): closest point with parameter in `[0,1]`, surface point off
                              the trench, walk started at `begin0` ⇒ the surface point passes the box.

What is MISSING for `C07_bbox_cutoff_sound_full` (a `Prop`, not proved):
1. circular pieces (`StraightWalk` excludes them), as in `C07Depth`;
2. the acceptance window: `Bezier.closestPoint` accepts parameters in `[−1e-8, 1 + 1e-8]` (`accept_window`), the theorems need
   `0 ≤ t ≤ 1` (explicit hypothesis).  Outside `[0,1]` the foot may leave the hull by `≈ 3·0.2·chord·1e-8` (6 mm for a 1000 km chord),
   the box has no slack for that beyond its `ε·width` tolerance; `C07_bbox_core` says what is needed (`β`).  A member at exactly
   `a + |d| = buffer` horizontally from such a foot is outside: the full statement is, strictly, still false by that margin;
3. that the numbers tested by the membership are those of the loop and that the two fractions lie in `[0,1]`, as in `C07Depth`
   (`dpfcp_cartesian` gives the former for the Cartesian branch off the trench);
4. the on-trench branch of the frame (surface point within `2e-14` of the foot): the surface point is the foot up to `2e-14`, the
   core applies with `h = 2e-14 ≤ a + |d|` only if the member is not exactly `a = d = 0`; then `β`-slack again;
5. spherical worlds (longitude/latitude buffer `2π·buffer/R·1/cos(lat)`), not treated here.
-/
import GwbVerif.Proofs.CullBox
import GwbVerif.Properties.C07Depth
namespace Gwb
open Scalar
set_option linter.unusedSectionVars false
set_option linter.unusedVariables false

section field
variable {F : Type} [Field F] [LinearOrder F] [IsStrictOrderedRing F]

/-- **C07 (box)** one straight piece preserves the horizontal unit-speed invariant -/
theorem C07_box_piece_invariant (T : Transc F) (L : PlaneLaws T) (dm : DepthMethod) (onlyPositive : Bool) (sr fraction : F) (c : P2 F)
    (angCur angNext : P2 F) (lenCur lenNext : F) (i : Nat) (s : SegState F) (x0 : F) (hinv : HorizInv x0 c s)
    (hstraight : |@segAngTop F (fieldScalar T) dm fraction angCur angNext i (@segPre F (fieldScalar T) dm i s) -
        @segAngBot F (fieldScalar T) fraction angCur angNext (@segPre F (fieldScalar T) dm i s)| < 1 / 10 ^ 8)
    (heps : T.eps < |lenCur + fraction * (lenNext - lenCur)|) (hlen : 1 / 10 ^ 14 ≤ lenCur + fraction * (lenNext - lenCur))
    (hinf : lenCur + fraction * (lenNext - lenCur) < T.inf) :
    HorizInv x0 c (@segmentStep F (fieldScalar T) dm onlyPositive sr fraction c angCur angNext lenCur lenNext i s) :=
  segmentStep_horizInv T L dm onlyPositive sr fraction c angCur angNext lenCur lenNext i s x0 hinv hstraight heps hlen hinf

/-- **C07 (box)** the segment loop over straight pieces: a recorded foot is horizontally at most `along + |distance|` away from the
start of the walk -/
theorem C07_box_walk_bound (T : Transc F) (L : PlaneLaws T) (dm : DepthMethod) (onlyPositive : Bool) (sr fraction : F) (c : P2 F)
    (angsCur angsNext : List (P2 F)) (lensCur lensNext : List F) (s0 s : SegState F)
    (h1 : lensCur.length ≤ angsCur.length) (h2 : lensCur.length ≤ angsNext.length) (h3 : lensCur.length ≤ lensNext.length)
    (hf : s0.found = false) (ht : s0.totalLength = 0)
    (hw : StraightWalk T dm onlyPositive sr fraction c angsCur angsNext lensCur lensNext s0 lensCur.length)
    (hs : @segmentLoop F (fieldScalar T) dm onlyPositive sr fraction c angsCur angsNext lensCur lensNext (lensCur.length + 1) 0 s0 = .ok s)
    (hfound : s.found = true) :
    |c.x - s0.endSeg.x| ≤ s.along + |s.distance| :=
  segmentLoop_horiz_bound T L dm onlyPositive sr fraction c angsCur angsNext lensCur lensNext s0 s h1 h2 h3 hf ht hw hs hfound

/-- **C07 (box)** the Cartesian frame: the plane abscissa of the check point, counted from the start of the walk, is (up to sign) the
horizontal distance between the surface point `(nat.x, nat.y)` and the closest trench point `cl2d`; both coordinate differences are
bounded by it -/
theorem C07_box_frame (T : Transc F) (L : SqrtLaws T) (nat : P3 F) (startRadius : F) (cl2d : P2 F) (side z : F) (hsr : 0 < startRadius)
    (hside : side = 1 ∨ side = -1)
    (hdpos : 0 < T.sqrt ((nat.x - cl2d.x) * (nat.x - cl2d.x) + (nat.y - cl2d.y) * (nat.y - cl2d.y))) :
    let ax := @cartAxes F (fieldScalar T) nat startRadius cl2d side
    let begin0 := @cartBegin0 F (fieldScalar T) ax startRadius cl2d
    let check2d := @cartCheck2d F (fieldScalar T) ax ⟨nat.x, nat.y, z⟩ cl2d
    |nat.x - cl2d.x| ≤ |check2d.x - begin0.x| ∧ |nat.y - cl2d.y| ≤ |check2d.x - begin0.x| := by
  intro ax begin0 check2d
  have hd2 : 0 ≤ (nat.x - cl2d.x) * (nat.x - cl2d.x) + (nat.y - cl2d.y) * (nat.y - cl2d.y) :=
    add_nonneg (mul_self_nonneg _) (mul_self_nonneg _)
  obtain ⟨hS1, hS2⟩ := L.frame T startRadius _ hsr hd2
  obtain ⟨_, _, hb, hc⟩ := cartAxes_field T nat startRadius cl2d side z hsr hS1 hS2 hdpos
  have e : |check2d.x - begin0.x| = T.sqrt ((nat.x - cl2d.x) * (nat.x - cl2d.x) + (nat.y - cl2d.y) * (nat.y - cl2d.y)) := by
    show |(@cartCheck2d F (fieldScalar T) ax ⟨nat.x, nat.y, z⟩ cl2d).x - (@cartBegin0 F (fieldScalar T) ax startRadius cl2d).x| = _
    rw [hb, hc]
    show |-side * _ - 0| = _
    rw [sub_zero, abs_mul, abs_neg, abs_of_pos hdpos]
    rcases hside with h | h <;> rw [h] <;> simp
  rw [e]
  exact abs_le_sqrt_sumsq T L _ _

/-- **C07 (box)** convex hull: a point of a Bezier piece of the trench (`0 ≤ t ≤ 1`), as the model evaluates it
(`cubicPoint (cubicOf …)`), lies in every axis-parallel box that contains the two end points and the two inner control points -/
theorem C07_bezier_hull (T : Transc F) (p0 p1 c0 c1 lo hi : P2 F) (t : F) (h0 : 0 ≤ t) (h1 : t ≤ 1)
    (hp0 : lo.x ≤ p0.x ∧ p0.x ≤ hi.x ∧ lo.y ≤ p0.y ∧ p0.y ≤ hi.y) (hc0 : lo.x ≤ c0.x ∧ c0.x ≤ hi.x ∧ lo.y ≤ c0.y ∧ c0.y ≤ hi.y)
    (hc1 : lo.x ≤ c1.x ∧ c1.x ≤ hi.x ∧ lo.y ≤ c1.y ∧ c1.y ≤ hi.y) (hp1 : lo.x ≤ p1.x ∧ p1.x ≤ hi.x ∧ lo.y ≤ p1.y ∧ p1.y ≤ hi.y) :
    lo.x ≤ (@cubicPoint F (fieldScalar T) (@cubicOf F (fieldScalar T) p0 p1 c0 c1) t).x ∧
    (@cubicPoint F (fieldScalar T) (@cubicOf F (fieldScalar T) p0 p1 c0 c1) t).x ≤ hi.x ∧
    lo.y ≤ (@cubicPoint F (fieldScalar T) (@cubicOf F (fieldScalar T) p0 p1 c0 c1) t).y ∧
    (@cubicPoint F (fieldScalar T) (@cubicOf F (fieldScalar T) p0 p1 c0 c1) t).y ≤ hi.y := by
  rw [cubicPoint_bernstein]
  exact bernstein_between p0 p1 c0 c1 lo hi t h0 h1 hp0 hc0 hc1 hp1

/-- **C07 (box)** the bulge: if the inner control points are (per coordinate) within `r` of the end points, a point of the piece
lies in the box of the two end points extended by `3/4·r` -/
theorem C07_bezier_bulge (T : Transc F) (p0 p1 c0 c1 lo hi : P2 F) (r t : F) (h0 : 0 ≤ t) (h1 : t ≤ 1)
    (hp0 : lo.x ≤ p0.x ∧ p0.x ≤ hi.x ∧ lo.y ≤ p0.y ∧ p0.y ≤ hi.y) (hp1 : lo.x ≤ p1.x ∧ p1.x ≤ hi.x ∧ lo.y ≤ p1.y ∧ p1.y ≤ hi.y)
    (hc0 : |c0.x - p0.x| ≤ r ∧ |c0.y - p0.y| ≤ r) (hc1 : |c1.x - p1.x| ≤ r ∧ |c1.y - p1.y| ≤ r) :
    lo.x - 3 / 4 * r ≤ (@cubicPoint F (fieldScalar T) (@cubicOf F (fieldScalar T) p0 p1 c0 c1) t).x ∧
    (@cubicPoint F (fieldScalar T) (@cubicOf F (fieldScalar T) p0 p1 c0 c1) t).x ≤ hi.x + 3 / 4 * r ∧
    lo.y - 3 / 4 * r ≤ (@cubicPoint F (fieldScalar T) (@cubicOf F (fieldScalar T) p0 p1 c0 c1) t).y ∧
    (@cubicPoint F (fieldScalar T) (@cubicOf F (fieldScalar T) p0 p1 c0 c1) t).y ≤ hi.y + 3 / 4 * r := by
  rw [cubicPoint_bernstein]
  obtain ⟨x1, x2⟩ := bernstein_coord_bulge p0.x c0.x c1.x p1.x lo.x hi.x r t h0 h1 hp0.1 hp1.1 hp0.2.1 hp1.2.1 hc0.1 hc1.1
  obtain ⟨y1, y2⟩ := bernstein_coord_bulge p0.y c0.y c1.y p1.y lo.y hi.y r t h0 h1 hp0.2.2.1 hp1.2.2.1 hp0.2.2.2 hp1.2.2.2 hc0.2 hc1.2
  exact ⟨x1, x2, y1, y2⟩

/-- **C07 (box)** the control points the constructor makes (`cos(angle)·length·0.2 + p`) are per coordinate within `length/5` of
their end point -/
theorem C07_ctrl_near (T : Transc F) (L : PlaneLaws T) (angle len : F) (p : P2 F) (hlen : 0 ≤ len) :
    |(@ctrlAt F (fieldScalar T) angle len p).x - p.x| ≤ len / 5 ∧ |(@ctrlAt F (fieldScalar T) angle len p).y - p.y| ≤ len / 5 := by
  have e : @OfScientific.ofScientific F (@Scalar.instOfScientific F (fieldScalar T)) 2 true 1 = (1 / 5 : F) := by
    rw [lit_sci]; norm_num
  have hx : (@ctrlAt F (fieldScalar T) angle len p).x - p.x = T.cos angle * (len / 5) := by
    show T.cos angle * len * @OfScientific.ofScientific F (@Scalar.instOfScientific F (fieldScalar T)) 2 true 1 + p.x - p.x = _
    rw [e]; ring
  have hy : (@ctrlAt F (fieldScalar T) angle len p).y - p.y = T.sin angle * (len / 5) := by
    show T.sin angle * len * @OfScientific.ofScientific F (@Scalar.instOfScientific F (fieldScalar T)) 2 true 1 + p.y - p.y = _
    rw [e]; ring
  have h5 : 0 ≤ len / 5 := by positivity
  rw [hx, hy, abs_mul, abs_mul, abs_of_nonneg h5]
  constructor
  · have := mul_le_mul_of_nonneg_right (planeLaws_abs_cos_le_one T L angle) h5
    rwa [one_mul] at this
  · have := mul_le_mul_of_nonneg_right (planeLaws_abs_sin_le_one T L angle) h5
    rwa [one_mul] at this

/-- **C07 (box), arithmetic core**: the closest trench point `cl` within `β` of the box of the points the feature's box is built
from (trench coordinates and control points, `f.boxPoints`), the surface point `q2d` within `h ≤ a + |d|` of `cl` (per coordinate),
`(d, a)` in the membership ranges: `q2d` passes the feature's box extended by `β` -/
theorem C07_bbox_core (T : Transc F) (heps : 0 ≤ T.eps) (f : LineFeature F) (coord : CoordSys F) (hsph : coord.spherical = false)
    (box : BBox F) (hbox : @LineFeature.bbox F (fieldScalar T) f coord = .ok box) (cl q2d : P2 F) (β h d a : F)
    (hfoot : ∃ pa ∈ f.boxPoints, ∃ pb ∈ f.boxPoints, ∃ pc ∈ f.boxPoints, ∃ pd ∈ f.boxPoints,
      pa.x - β ≤ cl.x ∧ cl.x ≤ pb.x + β ∧ pc.y - β ≤ cl.y ∧ cl.y ≤ pd.y + β)
    (hq : |q2d.x - cl.x| ≤ h ∧ |q2d.y - cl.y| ≤ h) (hh : h ≤ a + |d|)
    (secCur secNext : List (Segment F)) (cur next : Segment F) (sf gf : F)
    (hm1 : secCur ∈ f.sections) (hm2 : secNext ∈ f.sections) (hc : cur ∈ secCur) (hn : next ∈ secNext)
    (hs0 : 0 ≤ sf) (hs1 : sf ≤ 1) (hg0 : 0 ≤ gf) (hg1 : gf ≤ 1)
    (hin : @lineInside F (fieldScalar T) f.isFault d a (@Segment.thLocal F (fieldScalar T) cur next sf gf)
      (@Segment.ttLocal F (fieldScalar T) cur next sf gf) (@maxLenLocal F (fieldScalar T) secCur secNext sf)) :
    @BBox.inside F (fieldScalar T) ⟨⟨box.lo.x - β, box.lo.y - β⟩, ⟨box.hi.x + β, box.hi.y + β⟩⟩ false q2d = true := by
  obtain ⟨minX, maxX, minY, maxY, hall, rfl⟩ := bbox_cartesian T f coord hsph box hbox
  obtain ⟨_, k1, k2⟩ := lineInside_le_maxima T f d a secCur secNext cur next sf gf hm1 hm2 hc hn hs0 hs1 hg0 hg1 hin
  obtain ⟨pa, ha, pb, hb, pc, hc', pd, hd, f1, f2, f3, f4⟩ := hfoot
  obtain ⟨q1, q2⟩ := hq
  obtain ⟨q1a, q1b⟩ := abs_le.1 q1
  obtain ⟨q2a, q2b⟩ := abs_le.1 q2
  have b1 := (hall pa ha).1
  have b2 := (hall pb hb).2.1
  have b3 := (hall pc hc').2.2.1
  have b4 := (hall pd hd).2.2.2
  apply bbox_inside_of_between T heps
  · show minX - _ - β ≤ q2d.x; linarith
  · show q2d.x ≤ maxX + _ + β; linarith
  · show minY - _ - β ≤ q2d.y; linarith
  · show q2d.y ≤ maxY + _ + β; linarith

/-- a point of a Bezier piece of the feature (`0 ≤ t ≤ 1`) lies in every box that contains `f.boxPoints`: the `hfoot` of the core
with `β = 0`, in the form `bbox_cartesian` provides the box -/
theorem bezier_foot_in_boxPoints (T : Transc F) (f : LineFeature F) (p0 p1 c0 c1 : P2 F) (t : F) (ht0 : 0 ≤ t) (ht1 : t ≤ 1)
    (hp0 : p0 ∈ f.coords) (hp1 : p1 ∈ f.coords) (hctrl : (c0, c1) ∈ f.bezier.control) (minX maxX minY maxY : F)
    (hall : ∀ p ∈ f.boxPoints, minX ≤ p.x ∧ p.x ≤ maxX ∧ minY ≤ p.y ∧ p.y ≤ maxY) :
    minX ≤ (@cubicPoint F (fieldScalar T) (@cubicOf F (fieldScalar T) p0 p1 c0 c1) t).x ∧
    (@cubicPoint F (fieldScalar T) (@cubicOf F (fieldScalar T) p0 p1 c0 c1) t).x ≤ maxX ∧
    minY ≤ (@cubicPoint F (fieldScalar T) (@cubicOf F (fieldScalar T) p0 p1 c0 c1) t).y ∧
    (@cubicPoint F (fieldScalar T) (@cubicOf F (fieldScalar T) p0 p1 c0 c1) t).y ≤ maxY :=
  C07_bezier_hull T p0 p1 c0 c1 ⟨minX, minY⟩ ⟨maxX, maxY⟩ t ht0 ht1 (hall p0 (mem_boxPoints_coord f p0 hp0))
    (hall c0 (mem_boxPoints_ctrl f (c0, c1) hctrl).1) (hall c1 (mem_boxPoints_ctrl f (c0, c1) hctrl).2)
    (hall p1 (mem_boxPoints_coord f p1 hp1))

/-- **C07 (box), partial**: the closest trench point on a Bezier piece of the feature (`0 ≤ t ≤ 1`); a point that the straight-piece
walk places at `(s.distance, s.along)` and that passes the membership ranges for these two numbers passes the bounding-box conjunct of
the culling pre-test — provided (`hframe`) the plane abscissa of the check point counted from the start of the walk bounds the two
coordinate differences between the query's surface point and the closest trench point (`C07_box_frame`).  Slabs and faults alike. -/
theorem C07_bbox_cutoff_sound_partial (T : Transc F) (L : PlaneLaws T) (heps : 0 ≤ T.eps) (f : LineFeature F) (coord : CoordSys F)
    (hsph : coord.spherical = false) (box : BBox F) (hbox : @LineFeature.bbox F (fieldScalar T) f coord = .ok box)
    (dm : DepthMethod) (sr fraction : F) (c : P2 F)
    (angsCur angsNext : List (P2 F)) (lensCur lensNext : List F) (s0 s : SegState F)
    (h1 : lensCur.length ≤ angsCur.length) (h2 : lensCur.length ≤ angsNext.length) (h3 : lensCur.length ≤ lensNext.length)
    (hf : s0.found = false) (ht : s0.totalLength = 0)
    (hw : StraightWalk T dm f.isFault sr fraction c angsCur angsNext lensCur lensNext s0 lensCur.length)
    (hs : @segmentLoop F (fieldScalar T) dm f.isFault sr fraction c angsCur angsNext lensCur lensNext (lensCur.length + 1) 0 s0 = .ok s)
    (hfound : s.found = true)
    (p0 p1 c0 c1 q2d : P2 F) (t : F) (ht0 : 0 ≤ t) (ht1 : t ≤ 1) (hp0 : p0 ∈ f.coords) (hp1 : p1 ∈ f.coords)
    (hctrl : (c0, c1) ∈ f.bezier.control)
    (hframe : |q2d.x - (@cubicPoint F (fieldScalar T) (@cubicOf F (fieldScalar T) p0 p1 c0 c1) t).x| ≤ |c.x - s0.endSeg.x| ∧
      |q2d.y - (@cubicPoint F (fieldScalar T) (@cubicOf F (fieldScalar T) p0 p1 c0 c1) t).y| ≤ |c.x - s0.endSeg.x|)
    (secCur secNext : List (Segment F)) (cur next : Segment F) (sf gf : F)
    (hm1 : secCur ∈ f.sections) (hm2 : secNext ∈ f.sections) (hc : cur ∈ secCur) (hn : next ∈ secNext)
    (hs0 : 0 ≤ sf) (hs1 : sf ≤ 1) (hg0 : 0 ≤ gf) (hg1 : gf ≤ 1)
    (hin : @lineInside F (fieldScalar T) f.isFault s.distance s.along (@Segment.thLocal F (fieldScalar T) cur next sf gf)
      (@Segment.ttLocal F (fieldScalar T) cur next sf gf) (@maxLenLocal F (fieldScalar T) secCur secNext sf)) :
    @BBox.inside F (fieldScalar T) box false q2d = true := by
  have hb := C07_box_walk_bound T L dm f.isFault sr fraction c angsCur angsNext lensCur lensNext s0 s h1 h2 h3 hf ht hw hs hfound
  obtain ⟨minX, maxX, minY, maxY, hall, rfl⟩ := bbox_cartesian T f coord hsph box hbox
  obtain ⟨g1, g2, g3, g4⟩ := bezier_foot_in_boxPoints T f p0 p1 c0 c1 t ht0 ht1 hp0 hp1 hctrl minX maxX minY maxY hall
  obtain ⟨_, k1, k2⟩ := lineInside_le_maxima T f s.distance s.along secCur secNext cur next sf gf hm1 hm2 hc hn hs0 hs1 hg0 hg1 hin
  obtain ⟨q1, q2⟩ := hframe
  obtain ⟨q1a, q1b⟩ := abs_le.1 (le_trans q1 hb)
  obtain ⟨q2a, q2b⟩ := abs_le.1 (le_trans q2 hb)
  apply bbox_inside_of_between T heps
  · show minX - _ ≤ q2d.x; linarith
  · show q2d.x ≤ maxX + _; linarith
  · show minY - _ ≤ q2d.y; linarith
  · show q2d.y ≤ maxY + _; linarith

/-- **C07 (box), with the model's closest point and Cartesian frame**: `Bezier.closestPoint` of the feature's trench curve (whose
points are the trench coordinates) returned `cp` for the surface point `(nat.x, nat.y)`, with parameter in `[0, 1]`; the surface point
is off the trench (`hdpos`); the walk is started at `begin0` of the frame `cartAxes` with the check point `cartCheck2d` (as
`dpfcp_cartesian` shows the code does); a member found by the straight-piece walk passes the bounding box. -/
theorem C07_bbox_cutoff_sound_closest (T : Transc F) (L : PlaneLaws T) (LS : SqrtLaws T) (heps : 0 ≤ T.eps) (f : LineFeature F)
    (coord : CoordSys F) (hsph : coord.spherical = false) (box : BBox F) (hbox : @LineFeature.bbox F (fieldScalar T) f coord = .ok box)
    (nat : P3 F) (z sr side : F) (hsr : 0 < sr) (hside : side = 1 ∨ side = -1)
    (cp : ClosestPoint F) (hcp : @Bezier.closestPoint F (fieldScalar T) f.bezier false ⟨nat.x, nat.y⟩ = .ok (some cp))
    (hpts : f.bezier.points = f.coords) (ht0 : 0 ≤ cp.fraction) (ht1 : cp.fraction ≤ 1)
    (hdpos : 0 < T.sqrt ((nat.x - cp.point.x) * (nat.x - cp.point.x) + (nat.y - cp.point.y) * (nat.y - cp.point.y)))
    (dm : DepthMethod) (angsCur angsNext : List (P2 F)) (lensCur lensNext : List F) (s0 s : SegState F)
    (h1 : lensCur.length ≤ angsCur.length) (h2 : lensCur.length ≤ angsNext.length) (h3 : lensCur.length ≤ lensNext.length)
    (hf : s0.found = false) (ht : s0.totalLength = 0)
    (hstart : s0.endSeg = @cartBegin0 F (fieldScalar T) (@cartAxes F (fieldScalar T) nat sr cp.point side) sr cp.point)
    (hw : StraightWalk T dm f.isFault sr cp.fraction
      (@cartCheck2d F (fieldScalar T) (@cartAxes F (fieldScalar T) nat sr cp.point side) ⟨nat.x, nat.y, z⟩ cp.point)
      angsCur angsNext lensCur lensNext s0 lensCur.length)
    (hs : @segmentLoop F (fieldScalar T) dm f.isFault sr cp.fraction
      (@cartCheck2d F (fieldScalar T) (@cartAxes F (fieldScalar T) nat sr cp.point side) ⟨nat.x, nat.y, z⟩ cp.point)
      angsCur angsNext lensCur lensNext (lensCur.length + 1) 0 s0 = .ok s)
    (hfound : s.found = true)
    (secCur secNext : List (Segment F)) (cur next : Segment F) (sf gf : F)
    (hm1 : secCur ∈ f.sections) (hm2 : secNext ∈ f.sections) (hc : cur ∈ secCur) (hn : next ∈ secNext)
    (hs0 : 0 ≤ sf) (hs1 : sf ≤ 1) (hg0 : 0 ≤ gf) (hg1 : gf ≤ 1)
    (hin : @lineInside F (fieldScalar T) f.isFault s.distance s.along (@Segment.thLocal F (fieldScalar T) cur next sf gf)
      (@Segment.ttLocal F (fieldScalar T) cur next sf gf) (@maxLenLocal F (fieldScalar T) secCur secNext sf)) :
    @BBox.inside F (fieldScalar T) box false ⟨nat.x, nat.y⟩ = true := by
  obtain ⟨p0, p1, c0, c1, e0, e1, e2, epoint, _, _, _⟩ := @Bezier.closestPoint_hit F (fieldScalar T) f.bezier false ⟨nat.x, nat.y⟩ cp hcp
  rw [hpts] at e0 e1
  have hp0 : p0 ∈ f.coords := List.mem_of_getElem? e0
  have hp1 : p1 ∈ f.coords := List.mem_of_getElem? e1
  have hctrl : (c0, c1) ∈ f.bezier.control := List.mem_of_getElem? e2
  have hfr := C07_box_frame T LS nat sr cp.point side z hsr hside hdpos
  simp only at hfr
  rw [← hstart] at hfr
  exact C07_bbox_cutoff_sound_partial T L heps f coord hsph box hbox dm sr cp.fraction _ angsCur angsNext lensCur lensNext s0 s
    h1 h2 h3 hf ht hw hs hfound p0 p1 c0 c1 ⟨nat.x, nat.y⟩ cp.fraction ht0 ht1 hp0 hp1 hctrl (by rw [← epoint]; exact hfr)
    secCur secNext cur next sf gf hm1 hm2 hc hn hs0 hs1 hg0 hg1 hin

/-- **C07 (box), the geometric statement for the OLD box** (the box of the trench coordinates alone, `LineFeature.bboxOld`): for a
Cartesian feature whose Bezier pieces hang between consecutive trench coordinates with inner control points at `chord/5` from their
end points, a surface point within `a + |d|` (per coordinate) of a point of the curve, with `(d, a)` in the membership ranges,
passes the box.  FALSE: `C07_bbox_cutoff_sound_old_false`. -/
def C07_bbox_cutoff_sound_old_geom (T : Transc F) : Prop :=
  ∀ (f : LineFeature F) (coord : CoordSys F) (box : BBox F), coord.spherical = false →
    @LineFeature.bboxOld F (fieldScalar T) f coord = .ok box → f.bezier.points = f.coords →
    ∀ (i : Nat) (p0 p1 c0 c1 : P2 F) (t : F), f.coords[i]? = some p0 → f.coords[i + 1]? = some p1 →
      f.bezier.control[i]? = some (c0, c1) →
      (c0.x - p0.x) ^ 2 + (c0.y - p0.y) ^ 2 = (1 / 5) ^ 2 * ((p1.x - p0.x) ^ 2 + (p1.y - p0.y) ^ 2) →
      (c1.x - p1.x) ^ 2 + (c1.y - p1.y) ^ 2 = (1 / 5) ^ 2 * ((p1.x - p0.x) ^ 2 + (p1.y - p0.y) ^ 2) →
      0 < t → t < 1 →
      ∀ (q2d : P2 F) (d a : F) (secCur secNext : List (Segment F)) (cur next : Segment F) (sf gf : F),
        secCur ∈ f.sections → secNext ∈ f.sections → cur ∈ secCur → next ∈ secNext → 0 ≤ sf → sf ≤ 1 → 0 ≤ gf → gf ≤ 1 →
        @lineInside F (fieldScalar T) f.isFault d a (@Segment.thLocal F (fieldScalar T) cur next sf gf)
          (@Segment.ttLocal F (fieldScalar T) cur next sf gf) (@maxLenLocal F (fieldScalar T) secCur secNext sf) →
        |q2d.x - (@cubicPoint F (fieldScalar T) (@cubicOf F (fieldScalar T) p0 p1 c0 c1) t).x| ≤ a + |d| →
        |q2d.y - (@cubicPoint F (fieldScalar T) (@cubicOf F (fieldScalar T) p0 p1 c0 c1) t).y| ≤ a + |d| →
        @BBox.inside F (fieldScalar T) box false q2d = true

end field

/-! ### the witness -/

/-- one segment: length 20 km, thickness 10 km, no top truncation, dip 90° (metres) -/
def bxSeg : Segment ℚ :=
  { length := 20000, thickness := ⟨10000, 10000⟩, topTruncation := ⟨0, 0⟩, angle := ⟨90, 90⟩, temps := [], comps := [], grains := [], vels := [] }

/-- a slab on the trench `(0,0) — (1000 km, 0) — (1280 km, 960 km)` with the control points the library's constructor computes for
these coordinates (angle at the middle point `atan(3/4)`: `(200 km,0), (840 km,−120 km)` and `(1160 km,120 km), (1224 km,768 km)`),
three equal sections of one segment, min depth 0 -/
def bxLine (cull : Bool) : LineFeature ℚ :=
  { name := "slab", tag := 0, isFault := false, coords := [⟨0, 0⟩, ⟨1000000, 0⟩, ⟨1280000, 960000⟩], reference := ⟨500000, -1000000⟩,
    minDepth := 0, maxDepth := 1000000, sections := [[bxSeg], [bxSeg], [bxSeg]],
    bezier := ⟨[⟨0, 0⟩, ⟨1000000, 0⟩, ⟨1280000, 960000⟩],
      [(⟨200000, 0⟩, ⟨840000, -120000⟩), (⟨1160000, 120000⟩, ⟨1224000, 768000⟩)], [0, 0, 0]⟩, cull := cull }

/-- the query on the trench curve at parameter `10/23` of piece 0, `depth` below the surface at `z = 1000 km` -/
def bxQ (depth : ℚ) : Query ℚ :=
  { pt := ⟨10000000 / 23, -468000000 / 12167, 1000000 - depth⟩, nat := ⟨10000000 / 23, -468000000 / 12167, 1000000 - depth⟩,
    depth := depth, gravityNorm := 10 }

theorem exists_of_check_ok {α : Type} (x : Except Err α) (p : α → Bool)
    (h : (match x with | .ok v => p v | _ => false) = true) : ∃ v, x = .ok v ∧ p v = true := by
  match x, h with
  | .ok v, h => exact ⟨v, rfl, h⟩

/-- the OLD box of the witness: `[−30 km, 1310 km] × [−30 km, 990 km]` -/
theorem bxLine_boxOld : ∃ b, @LineFeature.bboxOld ℚ (fieldScalar toyTransc) (bxLine true) exCtx.coord = .ok b ∧
    (decide (b.lo.x = -30000) && decide (b.lo.y = -30000) && decide (b.hi.x = 1310000) && decide (b.hi.y = 990000)) = true := by
  rw [ratToy_eq]
  apply exists_of_check_ok
  decide +kernel

/-- the box of the witness as it is now: `[−30 km, 1310 km] × [−150 km, 990 km]` (the control point `(840 km, −120 km)` counts) -/
theorem bxLine_box : ∃ b, @LineFeature.bbox ℚ (fieldScalar toyTransc) (bxLine true) exCtx.coord = .ok b ∧
    (decide (b.lo.x = -30000) && decide (b.lo.y = -150000) && decide (b.hi.x = 1310000) && decide (b.hi.y = 990000)) = true := by
  rw [ratToy_eq]
  apply exists_of_check_ok
  decide +kernel

/-- **C07 (box), FINDING (old rule)**: the geometric statement for the box of the trench coordinates alone is false.  Witness (metres): the slab `bxLine`; piece 0 of its trench,
`t = 2/3`: the point `(19280000/27, −160000/3)` of the curve lies 23.3 km south of the box `y ≥ −30 km`; the member `d = 0`, `a = 0`
there is discarded by the old box.  (No libm member enters: box and curve are rational arithmetic; `ε = 1e-6` widens the box by 1 m.) -/
theorem C07_bbox_cutoff_sound_old_false : ¬ C07_bbox_cutoff_sound_old_geom toyTransc := by
  intro H
  obtain ⟨b, hb, hchk⟩ := bxLine_boxOld
  simp only [Bool.and_eq_true, decide_eq_true_eq] at hchk
  obtain ⟨⟨⟨e1, e2⟩, e3⟩, e4⟩ := hchk
  have hin : @lineInside ℚ (fieldScalar toyTransc) (bxLine true).isFault 0 0
      (@Segment.thLocal ℚ (fieldScalar toyTransc) bxSeg bxSeg (2 / 3) 0)
      (@Segment.ttLocal ℚ (fieldScalar toyTransc) bxSeg bxSeg (2 / 3) 0)
      (@maxLenLocal ℚ (fieldScalar toyTransc) [bxSeg] [bxSeg] (2 / 3)) := by
    unfold lineInside Segment.thLocal Segment.ttLocal maxLenLocal sectionLength
    simp only [bxLine, bxSeg, Bool.false_eq_true, if_false, lerpC_field, List.foldl_cons, List.foldl_nil]
    sfield
    norm_num
  have h := H (bxLine true) exCtx.coord b rfl hb rfl 0 ⟨0, 0⟩ ⟨1000000, 0⟩ ⟨200000, 0⟩ ⟨840000, -120000⟩ (2 / 3) rfl rfl rfl
    (by norm_num) (by norm_num) (by norm_num) (by norm_num)
    (@cubicPoint ℚ (fieldScalar toyTransc) (@cubicOf ℚ (fieldScalar toyTransc) ⟨0, 0⟩ ⟨1000000, 0⟩ ⟨200000, 0⟩ ⟨840000, -120000⟩) (2 / 3))
    0 0 [bxSeg] [bxSeg] bxSeg bxSeg (2 / 3) 0 (by simp [bxLine]) (by simp [bxLine]) (by simp) (by simp)
    (by norm_num) (by norm_num) le_rfl (by norm_num) hin (by simp) (by simp)
  rw [bbox_inside_cartesian] at h
  have hy := h.2.1
  rw [cubicPoint_bernstein, e2, e4] at hy
  have hv : (bernstein (⟨0, 0⟩ : P2 ℚ) ⟨1000000, 0⟩ ⟨200000, 0⟩ ⟨840000, -120000⟩ (2 / 3)).y = -160000 / 3 := by
    unfold bernstein; norm_num
  rw [hv] at hy
  have he : toyTransc.eps = 1 / 1000000 := rfl
  rw [he] at hy
  norm_num at hy

/-- **C07 (box), the old defect inside the model**: the slab `bxLine`, the query on its trench curve at parameter `10/23` of piece 0
(`≈ (434782.61, −38464.70)`) at the feature's min depth: it is a member, and `LineFeature.covers` with the shortcuts ON keeps it
(`d = 0`, `a = 0`, section fraction `10/23`) — while the OLD box (`y ≥ −30 km`) did not contain its surface point, 8.46 km south of it. -/
theorem C07_bbox_old_discards_member :
    (∃ h, @LineFeature.covers ℚ (fieldScalar toyTransc) (bxLine true) exCtx (bxQ 0) = .ok (some h) ∧
      (decide (h.pd.distanceFromPlane = 0) && decide (h.pd.distanceAlongPlane = 0) && decide (h.pd.fractionOfSection = 10 / 23)) = true) ∧
    (∃ b, @LineFeature.bboxOld ℚ (fieldScalar toyTransc) (bxLine true) exCtx.coord = .ok b ∧
      @BBox.inside ℚ (fieldScalar toyTransc) b false (surfacePoint false (bxQ 0).nat) = false) := by
  rw [ratToy_eq]
  constructor
  · apply exists_of_check
    decide +kernel
  · have h := exists_of_check_ok (@LineFeature.bboxOld ℚ ratToy (bxLine true) exCtx.coord)
      (fun b => !(@BBox.inside ℚ ratToy b false (surfacePoint false (bxQ 0).nat))) (by decide +kernel)
    obtain ⟨b, hb, hc⟩ := h
    exact ⟨b, hb, by simpa using hc⟩

/-- **C07 (box), full statement — NOT proved** (and, strictly, false by the `≈ 6e-9·chord` margin of the acceptance window, see item 2
of the header): over the reals with the real `sqrt, sin, cos, tan, acos, π` (and `ε > 0`, `+∞` above every
segment length), for a well-formed slab or fault in a Cartesian world, every member of the un-culled feature passes the bounding box. -/
def C07_bbox_cutoff_sound_full : Prop :=
  ∀ (T : Transc ℝ), T.sqrt = Real.sqrt → T.sin = Real.sin → T.cos = Real.cos → T.tan = Real.tan → T.acos = Real.arccos →
    T.pi = Real.pi → 0 < T.eps →
    ∀ (f : LineFeature ℝ) (ctx : Ctx ℝ) (q : Query ℝ) (h : LineHit ℝ) (box : BBox ℝ),
      @LineFeature.WellFormed ℝ (fieldScalar T) f → ctx.coord.spherical = false →
      (∀ sec ∈ f.sections, ∀ s ∈ sec, s.length < T.inf) →
      @LineFeature.bbox ℝ (fieldScalar T) f ctx.coord = .ok box →
      @LineFeature.coversBody ℝ (fieldScalar T) f ctx q = .ok (some h) →
      @BBox.inside ℝ (fieldScalar T) box false (surfacePoint false q.nat) = true

/-! ### non-vacuity -/

/-- the walk hypotheses (`StraightWalk`, the start state) are those of `C07Depth`, shown satisfiable there; the start state satisfies
the horizontal invariant -/
example (sr : ℝ) (c : P2 ℝ) : HorizInv (walkStart sr).endSeg.x c (walkStart sr) := horizInv_start c (walkStart sr) rfl rfl

/-- the laws are those of the real functions -/
example : PlaneLaws realTransc ∧ SqrtLaws realTransc := ⟨real_planeLaws, real_sqrtLaws⟩

/-- `C07_bbox_cutoff_sound_closest`: the closest-point hypotheses are satisfiable — the straight trench of `exLine` (Bezier points =
trench coordinates), surface point `(1, 3/2)`: a closest point with parameter in `[0, 1]` -/
example : (exLine false).bezier.points = (exLine false).coords ∧
    ∃ cp, @Bezier.closestPoint ℚ (fieldScalar toyTransc) (exLine false).bezier false ⟨1, 3 / 2⟩ = .ok (some cp) ∧
      (decide (0 ≤ cp.fraction) && decide (cp.fraction ≤ 1)) = true := by
  refine ⟨rfl, ?_⟩
  rw [ratToy_eq]
  apply exists_of_check
  decide +kernel

/-- `C07_box_frame`: surface point `(3, 4)`, closest trench point `(0, 0)`: horizontal distance `sqrt 25 > 0` -/
example : 0 < realTransc.sqrt (((⟨3, 4, 0⟩ : P3 ℝ).x - (⟨0, 0⟩ : P2 ℝ).x) * ((⟨3, 4, 0⟩ : P3 ℝ).x - (⟨0, 0⟩ : P2 ℝ).x) +
    ((⟨3, 4, 0⟩ : P3 ℝ).y - (⟨0, 0⟩ : P2 ℝ).y) * ((⟨3, 4, 0⟩ : P3 ℝ).y - (⟨0, 0⟩ : P2 ℝ).y)) := by
  show 0 < Real.sqrt _
  apply Real.sqrt_pos.mpr
  norm_num

/-- `C07_bezier_bulge` on piece 0 of the witness (`r = chord/5 = 200 km`): it gives `−150 km ≤ y`; the true minimum of the curve is
`−53.3 km` -/
example : (-150000 : ℚ) ≤ (@cubicPoint ℚ (fieldScalar toyTransc)
    (@cubicOf ℚ (fieldScalar toyTransc) ⟨0, 0⟩ ⟨1000000, 0⟩ ⟨200000, 0⟩ ⟨840000, -120000⟩) (2 / 3)).y := by
  have h := (C07_bezier_bulge toyTransc (⟨0, 0⟩ : P2 ℚ) ⟨1000000, 0⟩ ⟨200000, 0⟩ ⟨840000, -120000⟩ ⟨0, 0⟩ ⟨1000000, 0⟩ 200000 (2 / 3)
    (by norm_num) (by norm_num) (by norm_num) (by norm_num) (by norm_num) (by norm_num)).2.2.1
  norm_num at h ⊢
  linarith

/-- `C07_bbox_core` on the witness feature, for the member `d = 0, a = 0` at
the first trench coordinate: all hypotheses hold, the point passes the box -/
example : ∃ b, @LineFeature.bbox ℚ (fieldScalar toyTransc) (bxLine true) exCtx.coord = .ok b ∧
    @BBox.inside ℚ (fieldScalar toyTransc) ⟨⟨b.lo.x - 0, b.lo.y - 0⟩, ⟨b.hi.x + 0, b.hi.y + 0⟩⟩ false ⟨0, 0⟩ = true := by
  obtain ⟨b, hb, _⟩ := bxLine_box
  refine ⟨b, hb, ?_⟩
  have hin : @lineInside ℚ (fieldScalar toyTransc) (bxLine true).isFault 0 0
      (@Segment.thLocal ℚ (fieldScalar toyTransc) bxSeg bxSeg 0 0)
      (@Segment.ttLocal ℚ (fieldScalar toyTransc) bxSeg bxSeg 0 0)
      (@maxLenLocal ℚ (fieldScalar toyTransc) [bxSeg] [bxSeg] 0) := by
    unfold lineInside Segment.thLocal Segment.ttLocal maxLenLocal sectionLength
    simp only [bxLine, bxSeg, Bool.false_eq_true, if_false, lerpC_field, List.foldl_cons, List.foldl_nil]
    sfield
    norm_num
  exact C07_bbox_core toyTransc (by norm_num [toyTransc]) (bxLine true) exCtx.coord rfl b hb ⟨0, 0⟩ ⟨0, 0⟩ 0 0 0 0
    ⟨⟨0, 0⟩, by simp [bxLine, LineFeature.boxPoints], ⟨0, 0⟩, by simp [bxLine, LineFeature.boxPoints], ⟨0, 0⟩, by simp [bxLine, LineFeature.boxPoints], ⟨0, 0⟩, by simp [bxLine, LineFeature.boxPoints],
      by norm_num, by norm_num, by norm_num, by norm_num⟩
    (by simp) (by simp) [bxSeg] [bxSeg] bxSeg bxSeg 0 0 (by simp [bxLine]) (by simp [bxLine]) (by simp) (by simp)
    le_rfl (by norm_num) le_rfl (by norm_num) hin

end Gwb
