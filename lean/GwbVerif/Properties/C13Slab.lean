/-
C13 (slab temperature models) — division and domain audit of `mass conserving` and the slab `plate model`
(`MassConserving.get`, `SlabPlateModel.get` in `Model/Models/SlabTemp.lean`; mass_conserving.cc:303-637, plate_model.cc:130-207,
utilities.cc:1510-1536).  `Types::Double` has no range in the schema, so every member below can be any double, `0` included;
`-1` for `specific heat` / `thermal expansion coefficient` / `thermal diffusivity` falls back to the world value, which has no range either.

### Every division / `sqrt` / `pow` and its divisor (ρ density, k conductivity, κ diffusivity, cp, Zc coupling depth, L taper distance,
### mx/mn max/min distance slab top, N spline points, sv/sub spreading/subducting velocity in m/yr, dr distance to the ridge, a along, d from plane)
mass conserving
  M1  `c1/c`, `c2/c` (ridge segment projection)              c = |s1−s0|²; reached only past `0 < c1 < c`            safe (code guard)
  M2  `…/seconds_in_year` (four places)                       constant                                                 safe
  M3  `(dr + a)/sv`                                           sv = spreading velocity                                  UNGUARDED  (`sv_ne`)
  M4  `a/sub`                                                 sub; code tests `sub ≥ 0` only                           UNGUARDED  (`sub_pos`); IEEE: −inf/NaN age → documented throw
  M5  `k/κ`, `…/2/κ`, `…/4/κ/κ` (plate-model heat content)    κ                                                        UNGUARDED  (`kappa_pos`)
  M6  `sqrt(sv²mx²/4/κ² + n²π²)`                              ≥ n²π² > 0                                               safe given κ ≠ 0
  M7  `… * tail / mx` (plate-model heat content), `adj/mx`    mx                                                       UNGUARDED  (`mx_pos`)
  M8  `sqrt(age_sec/(κπ))` (initial and bottom heat content)   κπ; age ≥ 0 by the `age_at_trench ≥ 0` throw             UNGUARDED in κ (`kappa_pos`)
  M9  `α g z / cp`                                            cp                                                       UNGUARDED  (`cp_ne`)
  M10 `(Zc − z_ref)/(subfact·Zc)`                             subfact ≥ 0.5 (clamps); Zc                               UNGUARDED  (`coupling_ne_zero`)
  M11 `(Zc − z)/(subfact·(660e3 − Zc))` (two places)          660e3 − Zc                                               UNGUARDED  (`coupling_ne_660`)
  M12 `(a − start)/L`                                         L                                                        UNGUARDED  (`taper_ne`)
  M13 `1.0/N`, `(x + 1)/(1/N)`                                N ≥ 1 by the parser                                      safe (parser guard)
  M14 `2 m0 m1/(m0 + m1)` (monotone spline)                   past `m0·m1 ≤ 0`                                         safe (code guard)
  M15 `1/(πκ)`                                                κ                                                        UNGUARDED  (`kappa_pos`)
  M16 `2·top/(2ρ cp (Tmin − T_old + 1e-16))`                  ρ, cp, and `T_old = Tmin + 1e-16` exactly               UNGUARDED  (`density_ne`, `cp_ne`; hypothesis `hold`)
  M17 `pow(…, 2)`                                             integer exponent: any base is in the domain              safe
  M18 `sqrt(πκ t)`, `/(2ρ cp sqrt(πκ t))`, `/(4κ t)`          t = (1/(πκ))·pow² + 1e-16 > 0 for κ > 0                  safe given κ > 0, ρ, cp ≠ 0
  M19 plate reference: `adj/mx`, `(iπ adj)/mx`, `/(2κ)`, `/(4κ²)`, `(sv·age)/mx`, `2/(iπ)`   inside `0 ≤ adj < mx` so mx > 0; i ≥ 1   safe given κ ≠ 0
  M20 `adj/(2 sqrt(κ·age_eff))`                               age_eff = (dr + a)/sv·erfc(…) = 0 for a trench on the ridge at a = 0   UNGUARDED (`off_ridge`)
slab plate model
  P1  `v/(365.25·24·60·60)`                                   constant                                                 safe
  P2  `ρ cp v' t/(2k)`                                        k                                                        UNGUARDED  (`conductivity_ne`)
  P3  `d/t_local`, `a/t_local`, t_local = min(local thickness, mx)   guarded only against d, a ≈ 0, not against t_local = 0   UNGUARDED (`mx_pos`, `thickness_pos`)
  P4  `α g z/cp`                                              cp                                                       UNGUARDED  (`cp_ne`)
  P5  `pow(−1, i)`, `pow(R² + i²π², 0.5)`, `…/(iπ)`           integer exponent; base ≥ π²; i ≥ 1                       safe

### Candidates replayed against the library (Cartesian, trench x = 0, slab dipping 45° towards +x, one segment 400 km × 100 km,
### top truncation −100 km, ridge x = −2000 km parallel to the trench; point (150 km, 0, depth 140 km) has d = −7071 m, a = 205 km)
NaN returned by `World::temperature` (release build, `WBAssert` compiled out):
  mass conserving: `"thermal diffusivity": 0` (model, or world value with the sentinel) — every point of the slab;
                   `"specific heat": 0` with `"adiabatic heating": false` (model or world);  `"density": 0`;
                   `"max distance slab top": 0` with `"apply spline": true` (points with d ≤ 0).
  plate model:     `"thermal conductivity": 0`;  `"specific heat": 0` (model or world);  `"max distance slab top": 0` or negative with a
                   negative `min distance slab top` (points with d < 0);  segment `"thickness": [-50e3]` (d = −80 km);
                   `"plate velocity": 1e306` (R overflows: `inf − inf`).
Divisions by zero that do NOT surface as NaN in IEEE arithmetic (absorbed by `erfc(±inf)`, by `NaN < x` being false, or by
`std::min(x, NaN) = x`): spreading velocity 0, coupling depth 0 / 660e3, taper distance 0, specific heat 0 with adiabatic heating,
thermal conductivity 0, negative world diffusivity; subducting velocity 0 throws the documented `age_at_trench >= 0`.
With `"reference model name": "plate model"` and the default (unbounded) `max distance slab top` the heat contents are NaN
(`−inf·0`), silently replaced by `max_top_heat_content` through `std::min`: finite but meaningless output.

### Theorems (ordered field `F`, `fieldScalar T`, laws `SlabDivLaws T` — satisfiable over ℝ: `real_slabDivLaws`, over ℚ: `toy_slabDivLaws`)
* `C13_mass_conserving_divisors`   under `MassConserving.SafeParams m`, `MassConserving.SafeQuery sv sub dr a` every divisor M3–M20 is
                                   non-zero and every `sqrt` argument is in the domain.
* `C13_mass_conserving_spline_divisor`  M14 from the code's own test.
* `C13_slab_plate_model_divisors`  under `SlabPlateModel.SafeParams m t` every divisor P1–P5 is non-zero, the `pow` base positive.
* `C13_slab_seconds_in_year`       the two constants are `31557600` (M2, P1).
The expressions are transcribed from the model (the theorems are about the divisor expressions, not about a run of `get`);
`thickness_local` is the model's own `Scalar.min`.
-/
import GwbVerif.Proofs.SlabDivisors
namespace Gwb
open Scalar
set_option linter.unusedSectionVars false
variable {F : Type} [Field F] [LinearOrder F] [IsStrictOrderedRing F]

/-- **C13** M2 / P1: the constant divisors -/
theorem C13_slab_seconds_in_year (T : Transc F) :
    @secondsInYear F (fieldScalar T) = 31557600 ∧ (31557600 : F) ≠ 0 :=
  ⟨secondsInYear_field T, by norm_num⟩

/-- **C13** every divisor and `sqrt` argument of `MassConserving.get` (M3–M13, M15–M20).
`vs`, `af`: the unclamped velocity / age factors; `e`: the taper factor `erfc(1.5·0.8·θ)` or `1`; `x`: the argument of `pow(·, 2)`;
`hold`: the query's incoming temperature is not exactly `Tmin + 1e-16`. -/
theorem C13_mass_conserving_divisors (T : Transc F) (L : SlabDivLaws T) (m : MassConserving F) (hm : m.SafeParams)
    (sv sub dr along : F) (hq : MassConserving.SafeQuery sv sub dr along)
    (vs af e x minT old adj : F) (he : e = 1 ∨ ∃ y, e = T.erfc y) (hold : minT - old + 1 / 10 ^ 16 ≠ 0) :
    let effAge := (dr + along) / sv
    let ageAtTrench := effAge - along / sub
    let subfact := 3 / 10 + min (max vs (1 / 10)) (35 / 100) + min (max af (1 / 10)) 1
    let effAgeSec := effAge * 31557600 * e
    let t := (1 / (T.pi * m.kappa)) * T.pow x 2 + 1 / 10 ^ 16
    -- M3, M4
    sv ≠ 0 ∧ sub ≠ 0 ∧
    -- M5, M6 (n = 2i+1 ≥ 1), M7
    m.kappa ≠ 0 ∧ m.mx ≠ 0 ∧
    (∀ n : ℕ, 1 ≤ n → 0 < (sub / 31557600) * (sub / 31557600) * m.mx * m.mx / 4 / m.kappa / m.kappa + (n : F) * (n : F) * T.pi * T.pi) ∧
    -- M8
    m.kappa * T.pi ≠ 0 ∧ 0 ≤ ageAtTrench * 31557600 / (m.kappa * T.pi) ∧ 0 ≤ effAgeSec / (m.kappa * T.pi) ∧
    -- M9
    m.cp ≠ 0 ∧
    -- M10, M11, M12
    subfact * m.couplingDepth ≠ 0 ∧ subfact * (660000 - m.couplingDepth) ≠ 0 ∧ m.taperDistance ≠ 0 ∧
    -- M13
    ((m.splineNPoints : ℕ) : F) ≠ 0 ∧ (1 : F) / ((m.splineNPoints : ℕ) : F) ≠ 0 ∧
    -- M15, M16, M18
    (T.pi * m.kappa ≠ 0 ∧ 2 * m.density * m.cp * (minT - old + 1 / 10 ^ 16) ≠ 0 ∧
      0 < T.pi * m.kappa * t ∧ 2 * m.density * m.cp * T.sqrt (T.pi * m.kappa * t) ≠ 0 ∧ 4 * m.kappa * t ≠ 0) ∧
    -- M19
    (0 ≤ adj → adj < m.mx → ∀ i : ℕ, 1 ≤ i →
      m.mx ≠ 0 ∧ (i : F) * T.pi ≠ 0 ∧ 2 * m.kappa ≠ 0 ∧ 4 * m.kappa * m.kappa ≠ 0 ∧
      0 < ((sv / 31557600) * (sv / 31557600) * m.mx * m.mx) / (4 * m.kappa * m.kappa) + (i : F) * (i : F) * T.pi * T.pi) ∧
    -- M20
    (0 < m.kappa * effAgeSec ∧ 2 * T.sqrt (m.kappa * effAgeSec) ≠ 0) := by
  intro effAge ageAtTrench subfact effAgeSec t
  have hκ := hm.kappa_pos
  have heff : 0 < effAge := mc_effAge_pos hq
  have hepos : 0 < e := by
    rcases he with rfl | ⟨y, rfl⟩
    · exact one_pos
    · exact L.erfc_pos y
  have heffSec : 0 < effAgeSec := by positivity
  have hsub : (1 : F) / 2 ≤ subfact := mc_subfact_pos vs af
  have hsub' : subfact ≠ 0 := by intro h; rw [h] at hsub; linarith
  have hN : ((m.splineNPoints : ℕ) : F) ≠ 0 := by exact_mod_cast (Nat.pos_iff_ne_zero.1 hm.npoints_pos)
  have hM8 := mc_halfspace_sqrt_arg_nonneg T L (ageAtTrench * 31557600) m.kappa hκ (mul_nonneg hq.age_guard (by norm_num))
  refine ⟨hq.sv_ne, ne_of_gt hq.sub_pos, ne_of_gt hκ, ne_of_gt hm.mx_pos, ?_, hM8.1, hM8.2, ?_, hm.cp_ne, ?_, ?_, hm.taper_ne,
    hN, one_div_ne_zero hN, ?_, ?_, ?_⟩
  · intro n hn
    exact mc_series_sqrt_arg_pos T L _ m.mx m.kappa hκ n hn
  · exact (mc_halfspace_sqrt_arg_nonneg T L effAgeSec m.kappa hκ heffSec.le).2
  · exact mul_ne_zero hsub' hm.coupling_ne_zero
  · exact mul_ne_zero hsub' (sub_ne_zero.2 (Ne.symm hm.coupling_ne_660))
  · exact mc_analytic_top T L m.density m.cp m.kappa minT old t hm.density_ne hm.cp_ne hκ hold (mc_timeTop_pos T L m.kappa x hκ)
  · intro h0 h1 i hi
    exact mc_analytic_plate T L _ m.mx m.kappa adj hκ h0 h1 i hi
  · exact mc_analytic_halfspace T L m.kappa effAgeSec hκ heffSec

/-- **C13** M14: the monotone spline divides by `m0 + m1` only when the two slopes have the same strict sign -/
theorem C13_mass_conserving_spline_divisor (m0 m1 : F) (h : ¬ m0 * m1 ≤ 0) : m0 + m1 ≠ 0 := spline_tangent_den_ne m0 m1 h

/-- **C13** every divisor of `SlabPlateModel.get` (P1–P5); `thickness_local` is the model's `std::min` -/
theorem C13_slab_plate_model_divisors (T : Transc F) (L : SlabDivLaws T) (m : SlabPlateModel F) (lt : F) (hm : m.SafeParams lt) (r : F) :
    (31557600 : F) ≠ 0 ∧ 2 * m.conductivity ≠ 0 ∧ @Scalar.min F (fieldScalar T) lt m.mx ≠ 0 ∧ m.cp ≠ 0 ∧
      ∀ i : ℕ, 1 ≤ i → (i : F) * T.pi ≠ 0 ∧ 0 < r * r + ((i * i : ℕ) : F) * T.pi * T.pi := by
  refine ⟨by norm_num, mul_ne_zero two_ne_zero hm.conductivity_ne, ne_of_gt (pm_thickness_pos T lt m.mx hm.thickness_pos hm.mx_pos),
    hm.cp_ne, fun i hi => ⟨?_, pm_pow_base_pos T L r i hi⟩⟩
  have hi' : (0 : F) < (i : F) := by exact_mod_cast hi
  exact ne_of_gt (mul_pos hi' L.pi_pos)

/-! ### non-vacuity -/

/-- the reference slab of the header (κ = 10⁻⁶, cp = 1000, ρ = 3300, mx = 150 km, Zc = 80 km, L = 100 km, N = 5) -/
def c13SlabMC : MassConserving ℚ :=
  { mn := -100000, mx := 150000, op := .replace, density := 3300, conductivity := 33 / 10, couplingDepth := 80000,
    forearcCoolingFactor := 1, taperDistance := 100000, alpha := 31 / 1000000, cp := 1000, kappa := 1 / 1000000,
    adiabaticHeating := true, potentialT := 1600, surfaceT := 273,
    ridge := ⟨[[⟨-2000000, -500000⟩, ⟨-2000000, 500000⟩]], [[5 / 100, 5 / 100]]⟩, subVel := [[5 / 100]], migrationTimes := [0],
    plateRef := false, applySpline := false, splineNPoints := 5 }

theorem c13SlabMC_safe : c13SlabMC.SafeParams := by
  constructor <;> norm_num [c13SlabMC]

/-- sv = sub = 5 cm/yr, ridge 2000 km away, 205 km down the slab -/
theorem c13SlabQuery_safe : MassConserving.SafeQuery (5 / 100 : ℚ) (5 / 100) 2000000 205000 := by
  constructor <;> norm_num

def c13SlabPM : SlabPlateModel ℚ :=
  { mn := -100000, mx := 150000, op := .replace, density := 3300, plateVelocity := 5 / 100, conductivity := 33 / 10,
    alpha := 31 / 1000000, cp := 1000, adiabaticHeating := true, potentialT := 1600 }

theorem c13SlabPM_safe : c13SlabPM.SafeParams 100000 := by
  constructor <;> norm_num [c13SlabPM]

/-- the hypotheses of `C13_mass_conserving_divisors` are jointly satisfiable (ℚ, toy libm) -/
example : SlabDivLaws toyTransc ∧ c13SlabMC.SafeParams ∧ MassConserving.SafeQuery (5 / 100 : ℚ) (5 / 100) 2000000 205000 ∧
    ((1 : ℚ) = 1 ∨ ∃ y, (1 : ℚ) = toyTransc.erfc y) ∧ ((1000 : ℚ) - 1600 + 1 / 10 ^ 16 ≠ 0) :=
  ⟨toy_slabDivLaws, c13SlabMC_safe, c13SlabQuery_safe, Or.inl rfl, by norm_num⟩

/-- … and the laws hold for the real functions -/
example : SlabDivLaws realTransc := real_slabDivLaws

/-- the guard of `C13_mass_conserving_spline_divisor` holds for two rising slopes -/
example : ¬ (1 : ℚ) * 2 ≤ 0 := by norm_num

/-- each clause of `SafeParams` is necessary for the statement: with `κ = 0` the divisor `κ·π` of M8 is zero -/
example : ({ c13SlabMC with kappa := 0 } : MassConserving ℚ).kappa * toyTransc.pi = 0 := by norm_num

end Gwb
