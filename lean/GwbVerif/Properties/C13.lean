/-
C13 — On any successfully constructed world, a query at any finite point and depth terminates, performs no undefined
behaviour, and returns only finite numbers or throws a standard exception; it never crashes.

What a theorem about the model can say: **the validation logic suffices for the indexing logic**.  In the model every
array access of the C++ is `idx xs i` (`Err.internal` when `i` is out of range — the model-level meaning of an
out-of-bounds access), `.front()` / `.back()` are `idx xs 0` / `idx xs (len-1)`, the kd-tree, triangle and Bezier
look-ups go through `[i]?`.  `…WellFormed` (`Spec/WellFormed.lean`) collects the relations between list lengths that the
parser establishes (C12, `Properties/C12.lean`); the theorems below show that under them **no query ever returns
`Err.internal`** — for every `Scalar R` (so also for IEEE doubles with NaNs: no arithmetic law is used), every point, every
depth, every request list, every state of the random-number engine.

* `C13_upperBound_le`            `std::upper_bound` (as a binary search with fuel) on any list returns an offset `≤ size`,
                                 never indexing out of range.
* `C13_upperBound_bracket`       … and what it has tested on return: `¬ val < xs[k-1]`, `val < xs[k]` (sorted list or not).
* `C13_plume_no_internal`        plume: the cross-section look-up (`covers`) and the painting of any fitting output vector.
* `C13_area_models_no_internal`  every temperature / composition / grains / velocity model of the area features and the plume
                                 (incl. `gaussian`, the kd-guided triangle look-up of depth surfaces, the ridge search of
                                 `half space model` / `plate model`).
* `C13_area_no_internal`         continental plate / oceanic plate / mantle layer.
* `C13_bezier_index_in_range`    `closest_point_on_curve_segment` reports the index of an existing cubic piece
                                 (`cp.index + 1 < points.size()`), proved from the model of the search loop, both branches.
* `C13_curved_planes_in_range`   `distance_point_from_curved_planes` indexes in range and reports an existing section
                                 (`section + 1 < #coordinates`) and segment (`segment < #segments`).
* `C13_line_no_internal`         slab / fault: guards, geometry, membership (`coversBody`, `covers`) and the per-request
                                 switch (`apply`), at full strength (no hypothesis besides `WellFormed`).
* `C13_world_no_internal`        the three query entry points of a well-formed world — `properties` 3-D, `properties` 2-D
                                 (with the re-walk of the result vector), `distance_to_plane` — never return `internal`.
  Corollary with C12: a world produced by `parsePlume` / `parseLine` (…) is well-formed, hence safe to query.

### Termination
Every model function is total in Lean: structural recursion or explicit fuel, no `partial def`.  Fuel-bounded loops and
the C++ bound they carry:
* `newtonC` / `newtonS` 150 iterations (bezier_curve.cc `while … < 150`), `lineSearchC` / `lineSearchS` 10 steps inside each;
  a search that exhausts the 150 iterations is `Err.newton` (`WBAssertThrow`), not a hang;
* `closestCartesianLoop` / `closestSphericalLoop`: one iteration per cubic piece (`control.length + 1` fuel);
* `segmentLoop`: one iteration per segment (`lensCur.length + 1` fuel);
* `upperBound`: `len` halves each step, fuel `size + 1` ≥ ⌈log₂ size⌉ + 1 (`upperBound_ok`: the fuel never runs out before `len = 0`);
* `relevantRidge` / `ridgeSegments`: one iteration per ridge / ridge point; `bezierControlRest`: one per piece;
* `kdSearch`: well-founded on `right + 1 − left`; `plateSeries`: 100 terms; polygon loop, surface scans: structural on lists.

### Division guards (ordered field `F`, `fieldScalar T`; `Proofs/Guards.lean`)
Proved non-zero under the test the code places in front:
* `C13_table_fraction_divisor_pos`  plume cross sections and gaussian tables, interior branch `fraction = (depth − d[k−1])/(d[k] − d[k−1])`:
                                    `d[k−1] ≤ depth < d[k]` follows from what `upper_bound` tested — no sortedness needed (the parser
                                    nevertheless rejects non-ascending plume depths since the `fix:`; the gaussian `depths` are not checked);
* `C13_plume_tip_divisor_pos`       plume head: `depths.front() − min_depth > 0` (divisor of `fraction`, `y/a`, `z²/c²`);
* `C13_segment_divisors`            `segmentStep`: `len > 0` past `len < 1e-14`; `c2 = len² > 0` for `c1/c2` (needs `sin²+cos² = 1`);
                                    `diff ≠ 0` and `radius > 0` in the arc branch; `CPCR_norm·radius ≠ 0` past the `ε` test (needs `ε > 0`);
* `C13_initialEstimate_divisor`     `initialEstimate`: `d > 0`.
Unguarded divisions found (degenerate input that hits them) — `NaN`/`±∞` results rather than crashes.
Repaired upstream while this file was written (the model follows):
* gaussian `exp(−r/(2σ²))` with `σ = 0`: `NaN` on the plume axis — the parser now rejects a zero sigma;
* slab/fault `linear` temperature `(d − min)·((T₁−T₀)/(max − min))` with `min = max`: `NaN` exactly on that surface — now guarded with
  `max − min < 10ε` like the area-feature copy;
* `fraction_from_ellipse_center` *was* guarded, by `return false` = 0.0 = "at the centre": a zero-width cross section (semi-major axis 0 or
  eccentricity 1) contained every point below the plume head — now `+∞` ("outside").
Still open (candidate findings):
* plume head `x²/a² + y²/b²` with `a = semi-major axis` = 0 or `b = a·√(1−e²)` = 0 (eccentricity 1): `0/0`; the comparison `≤ 1` is then false;
* slab/fault `smooth` composition `/ side` with `side = |max − min| = 0`; `chapman` `/ k` (conductivity 0); `plate model` `/ max depth`;
  grains `normalize` `1/total` with a zero total; `half space model` `distance / spreading` with spreading velocity 0;
* `segmentStep`: `inner = (b·e)/(‖b‖‖e‖)` (begin/end point at the frame origin, i.e. start radius 0, spherical `begin segment` methods only),
  `taa / (total_length + new_along)` (only guarded by `|taa| < ε`; zero for sub-nanometre segments with `new_along = −total_length`).
-/
import GwbVerif.Proofs.WellFormed
import GwbVerif.Proofs.Guards
import GwbVerif.Proofs.ModelInstances
import GwbVerif.Properties.C01
namespace Gwb
open Scalar
set_option linter.unusedSectionVars false
variable {R G : Type} [Scalar R] [RandGen G R]

/-! ### `std::upper_bound` -/

/-- **C13** the binary search never indexes out of range and returns an offset `≤ size` -/
theorem C13_upperBound_le (xs : List R) (v : R) :
    upperBound xs v (xs.length + 1) 0 xs.length ≠ .error .internal ∧
      ∀ k, upperBound xs v (xs.length + 1) 0 xs.length = .ok k → k ≤ xs.length :=
  ⟨upperBound_noInt xs v, fun k h => upperBound_le xs v k h⟩

/-- **C13** what the search has tested on return (any list, any `<`) -/
theorem C13_upperBound_bracket (xs : List R) (v : R) (k : Nat) (hk : upperBound xs v (xs.length + 1) 0 xs.length = .ok k) :
    (∀ a, 0 < k → xs[k - 1]? = some a → ¬ v < a) ∧ (∀ b, xs[k]? = some b → v < b) :=
  upperBound_bracket xs v k hk

/-! ### plume -/

/-- **C13** a well-formed plume never indexes out of range: neither in the cross-section look-up nor when painting.
(`hq`: the query's call-back into `World::properties`, which the `tian water content` models use, does not either; the world's
entry points hand the features such a query, `C13_world_query_no_internal`.) -/
theorem C13_plume_no_internal (f : PlumeFeature R) (hf : f.WellFormed) (ctx : Ctx R) (q : Query R)
    (hq : q.worldT () ≠ .error .internal) :
    f.covers ctx q ≠ .error .internal ∧
      ∀ (ps : List Req) (bs : List (List R)), Fits ps bs → ∀ g : G,
        f.apply ctx q (ps.zip (entries ps)) bs.flatten g ≠ .error .internal :=
  ⟨f.covers_noInt ctx q hf.1, fun ps bs hfit g => (Feature.plume f).apply_noInt hf ctx q hq ps bs hfit g⟩

/-- the cross-section look-up alone needs the list lengths only -/
theorem C13_plume_covers_no_internal (f : PlumeFeature R) (hf : f.ListsOk) (ctx : Ctx R) (q : Query R) :
    f.covers ctx q ≠ .error .internal := f.covers_noInt ctx q hf

/-! ### models of the area features and the plume -/

/-- **C13** no model of an area feature / plume indexes out of range (`hq`: see `C13_plume_no_internal`; only the
`tian water content` composition model uses it) -/
theorem C13_area_models_no_internal (ctx : Ctx R) (q : Query R) (hq : q.worldT () ≠ .error .internal) :
    (∀ (m : TempModel R), m.WellFormed → ∀ old fMin fMax rel, m.get ctx q old fMin fMax rel ≠ .error .internal) ∧
    (∀ (m : CompModel R), m.WellFormed → ∀ n old (g : G), m.get ctx q n old g ≠ .error .internal) ∧
    (∀ (m : GrainsModel R), m.WellFormed → ∀ n old (g : G), m.get ctx q n old g ≠ .error .internal) ∧
    (∀ (m : VelModel R), m.WellFormed → ∀ old, m.get ctx q old ≠ .error .internal) :=
  ⟨fun m hm old a b r => m.get_noInt hm ctx q old a b r,
   fun m hm n old g => m.get_noInt hm ctx q hq n old g,
   fun m hm n old g => m.get_noInt hm ctx q n old g,
   fun m hm old => m.get_noInt hm ctx q old⟩

/-- **C13** depth surfaces: the kd-guided triangle look-up stays inside the node, triangle and precomputed tables -/
theorem C13_surface_no_internal (s : Surface R) (hs : s.WellFormed) (spherical : Bool) (p : P2 R) :
    s.localValue spherical p ≠ .error .internal := s.localValue_noInt hs spherical p

/-- **C13** continental plate, oceanic plate, mantle layer -/
theorem C13_area_no_internal (f : AreaFeature R) (hf : f.IndexSafe) (ctx : Ctx R) (q : Query R)
    (hq : q.worldT () ≠ .error .internal) :
    f.covers ctx q ≠ .error .internal ∧
      ∀ (ps : List Req) (bs : List (List R)), Fits ps bs → ∀ g : G,
        f.apply ctx q (ps.zip (entries ps)) bs.flatten g ≠ .error .internal :=
  ⟨f.covers_noInt hf.1 ctx q, fun ps bs hfit g => (Feature.area f).apply_noInt hf ctx q hq ps bs hfit g⟩

/-! ### slabs and faults -/

/-- **C13** the Bezier search reports an existing piece: `index + 1 < points.size()` for a curve with one cubic per pair of points -/
theorem C13_bezier_index_in_range (bz : Bezier R) (hbz : bz.control.length + 1 = bz.points.length) (spherical : Bool) (cp : P2 R) :
    bz.closestPoint spherical cp ≠ .error .internal ∧
      ∀ c, bz.closestPoint spherical cp = .ok (some c) → c.index + 1 < bz.points.length := by
  have h := bz.closestPoint_safe (by omega) spherical cp
  exact ⟨h.noInt, fun c hc => by have := h.post hc c rfl; omega⟩

/-- **C13** `distance_point_from_curved_planes` on consistent tables: no out-of-range access, and the reported section and
segment exist -/
theorem C13_curved_planes_in_range (f : LineFeature R) (hf : f.WellFormed) (coord : CoordSys R) (pt nat : P3 R) (sr : R) (op : Bool) :
    distancePointFromCurvedPlanes coord pt nat f.reference f.coords f.lengths f.anglesRad sr op f.bezier ≠ .error .internal ∧
      ∀ pd, distancePointFromCurvedPlanes coord pt nat f.reference f.coords f.lengths f.anglesRad sr op f.bezier = .ok pd →
        pd.sectionIdx + 1 < f.sections.length ∧ ∀ sec ∈ f.sections, pd.segment < sec.length := by
  obtain ⟨hn, hsec, ⟨k, hk, hsk⟩, ⟨hbp, hbc, hba⟩, hseg⟩ := hf
  have hl : ∀ l ∈ f.lengths, l.length = k := by
    intro l hl
    simp only [LineFeature.lengths, List.mem_map] at hl
    obtain ⟨sec, hsec', rfl⟩ := hl
    simpa using hsk sec hsec'
  have ha : ∀ a ∈ f.anglesRad, a.length = k := by
    intro a ha
    simp only [LineFeature.anglesRad, List.mem_map] at ha
    obtain ⟨sec, hsec', rfl⟩ := ha
    simpa using hsk sec hsec'
  have h := distancePointFromCurvedPlanes_safe coord pt nat f.reference f.coords f.lengths f.anglesRad sr op f.bezier hn
    (by rw [hbp]) (by omega) (by simp [LineFeature.lengths, hsec]) (by simp [LineFeature.anglesRad, hsec]) k hk hl ha
  refine ⟨h.noInt, fun pd hpd => ?_⟩
  have := h.post hpd
  exact ⟨by omega, fun sec hs => by rw [hsk sec hs]; exact this.2⟩

/-- **C13** a well-formed slab / fault never indexes out of range: guards, geometry, membership and painting -/
theorem C13_line_no_internal (f : LineFeature R) (hf : f.WellFormed) (ctx : Ctx R) (q : Query R)
    (hq : q.worldT () ≠ .error .internal) :
    f.coversBody ctx q ≠ .error .internal ∧ f.covers ctx q ≠ .error .internal ∧
      (∀ (ps : List Req) (bs : List (List R)), Fits ps bs → ∀ g : G,
        f.apply ctx q (ps.zip (entries ps)) bs.flatten g ≠ .error .internal) ∧
      f.distanceToPlane ctx q ≠ .error .internal :=
  ⟨(f.coversBody_safe hf ctx q).noInt, (f.covers_safe hf ctx q).noInt,
   fun ps bs hfit g => (Feature.line f).apply_noInt hf ctx q hq ps bs hfit g,
   f.distanceToPlane_noInt hf ctx q⟩

/-! ### the world -/

/-- **C13** the query a well-formed world hands to its features satisfies the side condition of the feature-level statements:
the world temperature the water-content models ask for (`World.temperaturePure`) never indexes out of range -/
theorem C13_world_query_no_internal (w : World R) (hw : w.WellFormed) (pt : P3 R) (depth : R) :
    w.temperaturePure pt depth ≠ .error .internal ∧ (w.query pt depth).worldT () ≠ .error .internal :=
  ⟨w.temperaturePure_noInt hw pt depth, w.query_noInt hw pt depth⟩

/-- **C13** no query entry point of a well-formed world returns the model's "indexed out of range" error:
`properties` (3-D), `properties` (2-D, including the re-walk of the result), `distance_to_plane` -/
theorem C13_world_no_internal (w : World R) (hw : w.WellFormed) (depth : R) (ps : List Req) (g : G) :
    (∀ pt : P3 R, w.props3 pt depth ps g ≠ .error .internal) ∧
    (∀ pt : P2 R, w.props2 pt depth ps g ≠ .error .internal) ∧
    (∀ (pt : P3 R) (name : String), w.distanceToPlane pt depth name ≠ .error .internal) := by
  refine ⟨fun pt => w.props3_noInt hw pt depth ps g, fun pt => ?_, fun pt name => w.distanceToPlane_noInt hw pt depth name⟩
  unfold World.props2
  cases hc : w.cross with
  | none => simp [QM.throw_apply]
  | some cc =>
    obtain ⟨c0, c1⟩ := cc
    simp only
    rw [QM.bind_apply]
    cases h3 : w.props3 (w.lift2 c0 c1 pt) depth ps g with
    | error e =>
      have := w.props3_noInt hw (w.lift2 c0 c1 pt) depth ps g
      rw [h3] at this
      simpa using this
    | ok r =>
      obtain ⟨res, g'⟩ := r
      have hlen := (C01_output_size (G := G) w (w.lift2 c0 c1 pt) depth ps g res g' h3).1
      exact QNoInt.liftE (rewalk2_noInt _ ps 0 res (by omega)) g'

/-- single-property entry points -/
theorem C13_world_temperature_no_internal (w : World R) (hw : w.WellFormed) (pt : P3 R) (depth : R) (g : G) :
    w.temperature3 pt depth g ≠ .error .internal := by
  unfold World.temperature3
  rw [QM.bind_apply]
  cases h3 : w.props3 pt depth [Req.temperature] g with
  | error e =>
    have := w.props3_noInt hw pt depth [Req.temperature] g
    rw [h3] at this
    simpa using this
  | ok r =>
    obtain ⟨res, g'⟩ := r
    have hlen := (C01_output_size (G := G) w pt depth [Req.temperature] g res g' h3).1
    exact QNoInt.liftE (idx_noInt _ _ (by rw [hlen]; decide)) g'

/-! ### division guards over an ordered field -/
section field
variable {F : Type} [Field F] [LinearOrder F] [IsStrictOrderedRing F]

/-- **C13** interior branch of the plume cross sections and of the gaussian tables: the divisor of `fraction` is positive and
`0 ≤ depth − d[k−1] < d[k] − d[k−1]` — from the binary search alone -/
theorem C13_table_fraction_divisor_pos (T : Transc F) (xs : List F) (v : F) (k : Nat)
    (hk : @upperBound F (fieldScalar T) xs v (xs.length + 1) 0 xs.length = .ok k) (hpos : 0 < k)
    (dl dh : F) (hl : xs[k - 1]? = some dl) (hh : xs[k]? = some dh) :
    dl ≤ v ∧ v < dh ∧ 0 < dh - dl := table_fraction_den_pos T xs v k hk hpos dl dh hl hh

/-- **C13** plume head: `depths.front() − min_depth > 0` in the branch `upper == begin` once `depth < min_depth` has returned -/
theorem C13_plume_tip_divisor_pos (T : Transc F) (xs : List F) (v minDepth d0 : F)
    (hk : @upperBound F (fieldScalar T) xs v (xs.length + 1) 0 xs.length = .ok 0)
    (hd0 : xs[0]? = some d0) (hmin : ¬ v < minDepth) : 0 < d0 - minDepth := plume_tip_den_pos T xs v minDepth d0 hk hd0 hmin

/-- **C13** the divisions of one iteration of the segment loop, under the tests in front of them -/
theorem C13_segment_divisors (T : Transc F) (hsc : ∀ x, T.sin x * T.sin x + T.cos x * T.cos x = 1) (heps : 0 < T.eps)
    (b : P2 F) (len ang diff n total : F)
    (hlen : ¬ @LT.lt F (fieldScalar T).toLT len (@OfScientific.ofScientific F (@Scalar.instOfScientific F (fieldScalar T)) 1 true 14)) :
    0 < len ∧
    0 < @P2.dot F (fieldScalar T)
      (@P2.sub F (fieldScalar T) ⟨b.x + len * T.sin ang, b.y - len * T.cos ang⟩ b)
      (@P2.sub F (fieldScalar T) ⟨b.x + len * T.sin ang, b.y - len * T.cos ang⟩ b) ∧
    (¬ @LT.lt F (fieldScalar T).toLT (@Scalar.fabs F (fieldScalar T) diff)
          (@OfScientific.ofScientific F (@Scalar.instOfScientific F (fieldScalar T)) 1 true 8) →
      diff ≠ 0 ∧ 0 < @Scalar.fabs F (fieldScalar T) (len / diff) ∧
      (¬ @LT.lt F (fieldScalar T).toLT (@Scalar.fabs F (fieldScalar T) n) (@Scalar.eps F (fieldScalar T)) →
        n * @Scalar.fabs F (fieldScalar T) (len / diff) ≠ 0)) ∧
    (0 ≤ total → 0 < total + len) := by
  have hl := segmentStep_len_pos T len hlen
  refine ⟨hl, segmentStep_straight_den_pos T hsc b len ang hl, fun hd => ?_, fun ht => segmentStep_average_den_pos total len ht hl⟩
  have hd' := segmentStep_arc_diff_ne T diff hd
  have hr := segmentStep_arc_radius_pos T len diff hl hd'
  exact ⟨hd', hr, fun hn => segmentStep_arc_acos_den_ne T heps n _ hr hn⟩

/-- **C13** `initialEstimate` divides only by a positive `d` (and is the clamped projection there, `1` for coinciding points) -/
theorem C13_initialEstimate_divisor (T : Transc F) (p1 p2 cp : P2 F) :
    @initialEstimate F (fieldScalar T) p1 p2 cp =
      (if 0 < (p2.x - p1.x) * (p2.x - p1.x) + (p2.y - p1.y) * (p2.y - p1.y) then
        min 1 (max 0 (((cp.x - p1.x) * (p2.x - p1.x) + (cp.y - p1.y) * (p2.y - p1.y)) /
          ((p2.x - p1.x) * (p2.x - p1.x) + (p2.y - p1.y) * (p2.y - p1.y))))
       else 1) := initialEstimate_field T p1 p2 cp

end field

/-! ### non-vacuity: concrete well-formed features (every `R`) and a law bundle (`ℚ`) -/

/-- a one-cross-section plume with a gaussian and a uniform model -/
def c13Plume : PlumeFeature R :=
  { name := "p", tag := 0, coords := [⟨0, 0⟩], minDepth := 0, maxDepth := 1, depths := [0], semiMajor := [1], ecc := [0], rot := [0]
    models := { temps := [.gaussian .replace [0] [1] [1]],
                comps := [.uniform ⟨Surface.constantOf 0, Surface.constantOf 1⟩ .replace [0] [1]] } }

theorem c13Plume_wf : (c13Plume : PlumeFeature R).WellFormed := by
  refine ⟨⟨Nat.zero_lt_one, rfl, rfl, rfl, rfl⟩, ?_, ?_, ?_, ?_⟩
  · intro m hm
    simp only [c13Plume, List.mem_singleton] at hm
    subst hm
    exact ⟨⟨rfl, rfl⟩, Nat.zero_lt_one⟩
  · intro m hm; simp [c13Plume] at hm
  · intro m hm
    simp only [c13Plume, List.mem_singleton] at hm
    subst hm
    exact ⟨⟨Or.inl rfl, Or.inl rfl⟩, rfl⟩
  · intro m hm; simp [c13Plume] at hm

def c13Segment : Segment R :=
  { length := 1, thickness := ⟨1, 1⟩, topTruncation := ⟨0, 0⟩, angle := ⟨90, 90⟩, temps := [],
    comps := [.uniform 0 1 .replace [0] [1], .smooth 0 1 1 .replace [0] [1] [0]], grains := [], vels := [] }

/-- a two-coordinate fault with one segment per section -/
def c13Line : LineFeature R :=
  { name := "f", tag := 0, isFault := true, coords := [⟨0, 0⟩, ⟨0, 1⟩], reference := ⟨1, 0⟩, minDepth := 0, maxDepth := 1,
    sections := [[c13Segment], [c13Segment]], bezier := ⟨[⟨0, 0⟩, ⟨0, 1⟩], [(⟨0, 0⟩, ⟨0, 0⟩)], [0, 0]⟩ }

theorem c13Line_wf : (c13Line : LineFeature R).WellFormed := by
  refine ⟨Nat.le_refl 2, rfl, ⟨1, Nat.zero_lt_one, ?_⟩, ⟨rfl, rfl, rfl⟩, ?_⟩
  · intro sec hs
    simp only [c13Line, List.mem_cons, List.not_mem_nil, or_false, or_self] at hs
    subst hs; rfl
  · intro sec hs s hmem
    simp only [c13Line, List.mem_cons, List.not_mem_nil, or_false, or_self] at hs
    subst hs
    simp only [List.mem_singleton] at hmem
    subst hmem
    refine ⟨?_, fun m hm => by simp [c13Segment] at hm, fun m hm => by simp [c13Segment] at hm⟩
    intro m hm
    simp only [c13Segment, List.mem_cons, List.not_mem_nil, or_false] at hm
    rcases hm with rfl | rfl
    · exact rfl
    · exact ⟨rfl, rfl⟩

/-- a triangle with constant depth bounds -/
def c13Area : AreaFeature R :=
  { name := "a", tag := 0, coords := [⟨0, 0⟩, ⟨1, 0⟩, ⟨0, 1⟩], rng := ⟨Surface.constantOf 0, Surface.constantOf 1⟩, models := {} }

theorem c13Area_wf : (c13Area : AreaFeature R).WellFormed :=
  ⟨Nat.le_refl 3, ⟨Or.inl rfl, Or.inl rfl⟩, ⟨fun _ h => by simp [c13Area] at h, fun _ h => by simp [c13Area] at h,
    fun _ h => by simp [c13Area] at h, fun _ h => by simp [c13Area] at h⟩⟩

/-- the hypotheses of `C13_world_no_internal` are satisfiable by a world with one feature of each kind -/
example (ctx : Ctx R) : (⟨ctx, none, [.area c13Area, .plume c13Plume, .line c13Line]⟩ : World R).WellFormed := by
  intro f hf
  simp only [List.mem_cons, List.not_mem_nil, or_false] at hf
  rcases hf with rfl | rfl | rfl
  · exact c13Area_wf.2
  · exact c13Plume_wf
  · exact c13Line_wf

/-- a non-constant depth surface with one triangle and a one-node kd-tree satisfies the hypothesis of `C13_surface_no_internal` -/
example (t : Tri R) : (⟨false, 0, 1, #[t], #[t.precompute], #[⟨0, 0, 0⟩]⟩ : Surface R).WellFormed :=
  Or.inr ⟨Nat.zero_lt_one, rfl, fun i h => by
    have : i = 0 := by simpa using h
    subst this
    exact Nat.zero_lt_one⟩

/-- the curve of `c13Line` satisfies the hypothesis of `C13_bezier_index_in_range` -/
example : (c13Line : LineFeature R).bezier.control.length + 1 = (c13Line : LineFeature R).bezier.points.length := rfl

/-- the plume-head branch of `C13_plume_tip_divisor_pos` is reachable: `upper_bound [2] 1 = 0`, `min depth = 0 ≤ 1` -/
example : @upperBound ℚ (fieldScalar toyTransc) [2] 1 2 0 1 = .ok 0 ∧ ¬ (1 : ℚ) < 0 := by
  refine ⟨?_, by norm_num⟩
  simp [upperBound, idx, bind, Except.bind]

/-- the guard of `C13_segment_divisors` (`¬ len < 1e-14`) holds for a segment of length 1 -/
example : ¬ @LT.lt ℚ (fieldScalar toyTransc).toLT 1
    (@OfScientific.ofScientific ℚ (@Scalar.instOfScientific ℚ (fieldScalar toyTransc)) 1 true 14) := by
  rw [lit_sci]; norm_num

/-- the laws assumed by `C13_segment_divisors` hold for the toy bundle over `ℚ` -/
example : (∀ x, toyTransc.sin x * toyTransc.sin x + toyTransc.cos x * toyTransc.cos x = 1) ∧ 0 < toyTransc.eps := by
  refine ⟨fun x => by simp [toyTransc], by norm_num [toyTransc]⟩

/-- … and the interior branch of `C13_table_fraction_divisor_pos` is reachable: `upper_bound [0, 2] 1 = 1` -/
example : @upperBound ℚ (fieldScalar toyTransc) [0, 2] 1 3 0 2 = .ok 1 := by
  simp [upperBound, idx, bind, Except.bind]

end Gwb
