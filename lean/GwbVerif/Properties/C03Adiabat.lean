/-
C03 — the background adiabat over an ordered field: surface value and monotonicity.

`adiabat` (Model, world.cc) is `Tp·exp(((α·g)/cp)·d)`.  With the two laws of `exp` that libm guarantees on the
relevant range (`exp 0 = 1`, monotone) as explicit hypotheses: at depth zero the background temperature is the
potential temperature, below the surface it is never colder than the potential temperature, and it increases
monotonically with depth — for non-negative `Tp` and non-negative `α·g/cp` (what the schema's defaults and every
physically meaningful file give; the signs are hypotheses, not assumptions of the model).
-/
import GwbVerif.Properties.C03
namespace Gwb
open Scalar

/-- **C03** background adiabat: `T(0) = Tp`; `Tp ≤ T(d)` for `d ≥ 0`; `d₁ ≤ d₂ → T(d₁) ≤ T(d₂)` -/
theorem C03_adiabat_surface_and_monotone {F : Type} [Field F] [LinearOrder F] [IsStrictOrderedRing F] (T : Transc F)
    (hexp0 : T.exp 0 = 1) (hmono : ∀ a b : F, a ≤ b → T.exp a ≤ T.exp b)
    (tp alpha g cp : F) (htp : 0 ≤ tp) (hk : 0 ≤ alpha * g / cp) :
    @adiabat F (fieldScalar T) tp alpha g cp 0 = tp ∧
    (∀ d : F, 0 ≤ d → tp ≤ @adiabat F (fieldScalar T) tp alpha g cp d) ∧
    (∀ d1 d2 : F, d1 ≤ d2 → @adiabat F (fieldScalar T) tp alpha g cp d1 ≤ @adiabat F (fieldScalar T) tp alpha g cp d2) := by
  have hform : ∀ d : F, @adiabat F (fieldScalar T) tp alpha g cp d = tp * T.exp (alpha * g / cp * d) := by
    intro d; unfold adiabat; rfl
  refine ⟨?_, ?_, ?_⟩
  · rw [hform, mul_zero, hexp0, mul_one]
  · intro d hd
    rw [hform]
    have h1 : (1 : F) ≤ T.exp (alpha * g / cp * d) := by
      rw [← hexp0]; exact hmono _ _ (mul_nonneg hk hd)
    calc tp = tp * 1 := (mul_one tp).symm
      _ ≤ tp * T.exp (alpha * g / cp * d) := mul_le_mul_of_nonneg_left h1 htp
  · intro d1 d2 h
    rw [hform, hform]
    exact mul_le_mul_of_nonneg_left (hmono _ _ (mul_le_mul_of_nonneg_left h hk)) htp

/-- the hypotheses of `C03_adiabat_surface_and_monotone` are satisfiable (ℚ with the constant-one "exp" is enough to
show non-vacuity of the sign hypotheses; the laws themselves are met by the real exponential) -/
example : (0 : ℚ) ≤ 1600 ∧ (0 : ℚ) ≤ (35 / 10 ^ 6 : ℚ) * (981 / 100) / 1250 := by norm_num

end Gwb
