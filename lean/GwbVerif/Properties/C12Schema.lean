/-
C12 (schema part) — Files that violate the published schema are rejected.

The library validates every world-builder file with rapidjson's `SchemaValidator` against the declarations it generates
(parameters.cc:139-194).  `Model/Parse/Schema.lean` models that validator (`Gwb.Schema.validate`, driver entry `Gwb.validateDoc`) for the
keyword subset the declarations use; `Proofs/Schema.lean` states what "valid against a schema" means (`Gwb.Schema.Satisfies`, written
keyword by keyword from JSON-Schema draft-04 as rapidjson reads it, sharing only the member accessors with the validator).

* `C12_validate_sound_complete`  for every schema and document, with fuel above the nesting depth of the *schema*, the validator accepts
                                 exactly the documents the specification calls valid.
* `C12_validateJ_iff`            the same for the wrapper that chooses the fuel (`validateJ`, what `validateDoc` runs after the glue).
* `C12_unknown_key_rejected`     `additionalProperties: false` + a member whose name is neither in `properties` nor in `required`.
* `C12_missing_required_rejected` a name listed in `required` that is not a member (and whose schema has no `default` string).
* `C12_wrong_type_rejected`      `type: "<name>"` (or an array of names) and a value of none of the named types.
* `C12_enum_rejected`            `enum: [...]` (unsupported option value) and a value that is not listed.
   Each of the four holds for every schema and document of that shape, for *every* fuel (so also for `validateJ`), and is also stated
   on the specification (`¬ Satisfies`).
* `C12_rejected_in_property`, `C12_rejected_in_item`   a violation below a declared property / below `items` rejects the enclosing
                                 document, so the four rejections apply at any depth reachable through `properties` and `items`.
* `C12_undeclared_required_key_accepted`  (deviation of the shipped rapidjson from draft-04, reproduced by the model) the full-strength
                                 statement "a member whose name is not in `properties` is rejected under `additionalProperties: false`"
                                 is FALSE: a name that is listed in `required` counts as declared (schema.h:580-605).
* `C12_default_excuses_required` (world-builder patch, schema.h:1106) "a missing required member is rejected" is FALSE when the member's
                                 schema carries a non-empty string `default`.  The declarations never use the key `default`.

Not covered here: the glue `Lean.Json → J` (`ofJson`; number-literal classes, duplicate keys — see the header of the model file),
equality of numbers inside `enum`/`uniqueItems: true` (rapidjson compares hashes of the `double` value; the model compares the
literals; the declarations only have string enums and `uniqueItems: false`), and the keywords the declarations do not use
(`Gwb.schemaUnsupported` lists them for a given schema so that the driver can refuse to speak for such a schema).
-/
import GwbVerif.Proofs.Schema
namespace Gwb
open Gwb.Schema Lean

/-- **C12** the validator accepts exactly the valid documents, given fuel above the nesting depth of the schema -/
theorem C12_validate_sound_complete (fuel : Nat) (s d : J) (hfuel : s.depth < fuel) :
    validate fuel s d = true ↔ Satisfies s d :=
  validate_iff_satisfies fuel s d hfuel

/-- **C12** the fuel-choosing wrapper is sound and complete without any side condition -/
theorem C12_validateJ_iff (s d : J) : validateJ s d = true ↔ Satisfies s d :=
  validate_iff_satisfies _ s d (Nat.lt_succ_self _)

/-- **C12** unknown key: under `additionalProperties: false` a member whose name is neither declared in `properties` nor listed in
`required` makes the object invalid — for every such schema and object, whatever else they contain -/
theorem C12_unknown_key_rejected (s : J) (ms : List (String × J)) (k : String) (v : J)
    (hclosed : s.get? "additionalProperties" = some (.bool false))
    (hmember : (k, v) ∈ ms)
    (hundeclared : propertySchema? s k = none)
    (hnotrequired : ¬ IsRequired s k) :
    (∀ fuel, validate fuel s (.obj ms) = false) ∧ validateJ s (.obj ms) = false ∧ ¬ Satisfies s (.obj ms) := by
  have key : ∀ fuel, validate fuel s (.obj ms) = false := by
    intro fuel
    obtain ⟨kvs, rfl⟩ := isObj_of_get? hclosed
    cases hv : validate fuel (.obj kvs) (.obj ms) with
    | false => rfl
    | true =>
      obtain ⟨_, _, hobj, _⟩ := validate_true_parts hv
      obtain ⟨ok, _, hm, _⟩ := hobj ms rfl
      have := (membersOK_iff _ ok (fun p v => ok p v = true) ms (fun _ _ _ _ => Iff.rfl)).1 hm k v hmember
      exact absurd (this.2 hundeclared hclosed) hnotrequired
  refine ⟨key, key _, fun hsat => ?_⟩
  rw [← C12_validateJ_iff] at hsat
  rw [show validateJ s (.obj ms) = false from key _] at hsat
  cases hsat

/-- **C12** missing required entry: a name listed in `required` that is not a member of the object (and is not excused by a `default`
string in its schema, which the declarations never have) makes the object invalid -/
theorem C12_missing_required_rejected (s : J) (ms : List (String × J)) (k : String)
    (hrequired : IsRequired s k)
    (habsent : ∀ v, (k, v) ∉ ms)
    (hnodefault : ¬ HasDefault s k) :
    (∀ fuel, validate fuel s (.obj ms) = false) ∧ validateJ s (.obj ms) = false ∧ ¬ Satisfies s (.obj ms) := by
  have key : ∀ fuel, validate fuel s (.obj ms) = false := by
    intro fuel
    obtain ⟨names, hreq, _⟩ := hrequired
    obtain ⟨kvs, rfl⟩ := isObj_of_get? hreq
    cases hv : validate fuel (.obj kvs) (.obj ms) with
    | false => rfl
    | true =>
      obtain ⟨_, _, hobj, _⟩ := validate_true_parts hv
      obtain ⟨ok, hr, _, _⟩ := hobj ms rfl
      rcases (requiredOK_iff _ _).1 hr k ⟨names, hreq, ‹_›⟩ with ⟨v, hv⟩ | hd
      · exact absurd hv (habsent v)
      · exact absurd hd hnodefault
  refine ⟨key, key _, fun hsat => ?_⟩
  rw [← C12_validateJ_iff] at hsat
  rw [show validateJ s (.obj ms) = false from key _] at hsat
  cases hsat

/-- **C12** wrong type: a schema with a `type` keyword rejects every value that has none of the named types (`type` a string, an array
of strings, or — malformed — anything else, which admits nothing) -/
theorem C12_wrong_type_rejected (s d t : J)
    (htype : s.get? "type" = some t)
    (hwrong : ∀ name, (t = .str name ∨ ∃ ts, t = .arr ts ∧ J.str name ∈ ts) → ¬ HasType name d) :
    (∀ fuel, validate fuel s d = false) ∧ validateJ s d = false ∧ ¬ Satisfies s d := by
  have key : ∀ fuel, validate fuel s d = false := by
    intro fuel
    obtain ⟨kvs, rfl⟩ := isObj_of_get? htype
    cases hv : validate fuel (.obj kvs) d with
    | false => rfl
    | true =>
      obtain ⟨hty, _⟩ := validate_true_parts hv
      obtain ⟨name, hhas, hname⟩ := hty t htype
      exact absurd hhas (hwrong name hname)
  refine ⟨key, key _, fun hsat => ?_⟩
  rw [← C12_validateJ_iff] at hsat
  rw [show validateJ s d = false from key _] at hsat
  cases hsat

/-- **C12** unsupported option value: a schema with a non-empty `enum` rejects every value that is not listed -/
theorem C12_enum_rejected (s d : J) (vs : List J)
    (henum : s.get? "enum" = some (.arr vs))
    (hnonempty : vs ≠ [])
    (hunlisted : d ∉ vs) :
    (∀ fuel, validate fuel s d = false) ∧ validateJ s d = false ∧ ¬ Satisfies s d := by
  have key : ∀ fuel, validate fuel s d = false := by
    intro fuel
    obtain ⟨kvs, rfl⟩ := isObj_of_get? henum
    cases hv : validate fuel (.obj kvs) d with
    | false => rfl
    | true =>
      obtain ⟨_, hen, _⟩ := validate_true_parts hv
      exact absurd (hen vs henum hnonempty) hunlisted
  refine ⟨key, key _, fun hsat => ?_⟩
  rw [← C12_validateJ_iff] at hsat
  rw [show validateJ s d = false from key _] at hsat
  cases hsat

/-- **C12** a member that violates the schema declared for it in `properties` makes the enclosing object invalid -/
theorem C12_rejected_in_property (s p : J) (ms : List (String × J)) (k : String) (v : J)
    (hdeclared : propertySchema? s k = some p)
    (hmember : (k, v) ∈ ms)
    (hbad : ¬ Satisfies p v) :
    validateJ s (.obj ms) = false ∧ ¬ Satisfies s (.obj ms) := by
  have hns : ¬ Satisfies s (.obj ms) := by
    intro hsat
    rw [Satisfies] at hsat
    exact hbad ((hsat.2.2.2.2.1 ms rfl).2 k v hmember |>.1 p hdeclared)
  refine ⟨?_, hns⟩
  cases hv : validateJ s (.obj ms) with
  | false => rfl
  | true => exact absurd ((C12_validateJ_iff _ _).1 hv) hns

/-- **C12** an element that violates the `items` schema makes the enclosing array invalid -/
theorem C12_rejected_in_item (s : J) (it : List (String × J)) (xs : List J) (x : J)
    (hitems : s.get? "items" = some (.obj it))
    (hmember : x ∈ xs)
    (hbad : ¬ Satisfies (.obj it) x) :
    validateJ s (.arr xs) = false ∧ ¬ Satisfies s (.arr xs) := by
  have hns : ¬ Satisfies s (.arr xs) := by
    intro hsat
    rw [Satisfies] at hsat
    exact hbad ((hsat.2.2.2.2.2 xs rfl).1 it hitems x hmember)
  refine ⟨?_, hns⟩
  cases hv : validateJ s (.arr xs) with
  | false => rfl
  | true => exact absurd ((C12_validateJ_iff _ _).1 hv) hns

/-! ### the two full-strength statements that are false (of the model and of the shipped rapidjson) -/

/-- full-strength "unknown key" statement: under `additionalProperties: false` every member not declared in `properties` is rejected -/
def C12_unknown_key_rejected_full : Prop :=
  ∀ (s : J) (ms : List (String × J)) (k : String) (v : J),
    s.get? "additionalProperties" = some (.bool false) → (k, v) ∈ ms → propertySchema? s k = none → validateJ s (.obj ms) = false

/-- witness: `{"type":"object","additionalProperties":false,"required":["x"]}` accepts `{"x":1}` -/
def quirkRequiredSchema : J := .obj [("type", .str "object"), ("additionalProperties", .bool false), ("required", .arr [.str "x"])]

/-- **C12 (finding, reproduces rapidjson)** a name that is only listed in `required` is accepted as a member although
`additionalProperties` is `false` and `properties` does not declare it -/
theorem C12_undeclared_required_key_accepted :
    validateJ quirkRequiredSchema (.obj [("x", .num 1)]) = true ∧ Satisfies quirkRequiredSchema (.obj [("x", .num 1)]) ∧
    ¬ C12_unknown_key_rejected_full := by
  have h : validateJ quirkRequiredSchema (.obj [("x", .num 1)]) = true := by decide
  refine ⟨h, (C12_validateJ_iff _ _).1 h, fun hfull => ?_⟩
  have := hfull quirkRequiredSchema [("x", .num 1)] "x" (.num 1) rfl (by simp) rfl
  rw [h] at this; cases this

/-- full-strength "missing required" statement: a name listed in `required` that is not a member is rejected -/
def C12_missing_required_rejected_full : Prop :=
  ∀ (s : J) (ms : List (String × J)) (k : String), IsRequired s k → (∀ v, (k, v) ∉ ms) → validateJ s (.obj ms) = false

/-- witness: `{"type":"object","required":["x"],"properties":{"x":{"type":"number","default":"1"}}}` accepts `{}` -/
def quirkDefaultSchema : J :=
  .obj [("type", .str "object"), ("required", .arr [.str "x"]),
        ("properties", .obj [("x", .obj [("type", .str "number"), ("default", .str "1")])])]

/-- **C12 (finding, reproduces the world-builder patch of rapidjson)** a required member whose schema has a non-empty string `default`
may be missing -/
theorem C12_default_excuses_required :
    validateJ quirkDefaultSchema (.obj []) = true ∧ Satisfies quirkDefaultSchema (.obj []) ∧
    ¬ C12_missing_required_rejected_full := by
  have h : validateJ quirkDefaultSchema (.obj []) = true := by decide
  refine ⟨h, (C12_validateJ_iff _ _).1 h, fun hfull => ?_⟩
  have := hfull quirkDefaultSchema [] "x" ⟨_, rfl, by simp⟩ (by simp)
  rw [h] at this; cases this

/-! ### literal schemas: accepted and rejected documents; the hypotheses of the corollaries are satisfiable -/

/-- ```
{"type":"object","additionalProperties":false,"required":["version","features"],
 "properties":{"version":{"type":"string"},
               "interpolation":{"type":"string","enum":["none","linear","monotone spline"]},
               "max depth":{"type":"number"},
               "count":{"type":"integer"},
               "features":{"type":"array","minItems":1,"maxItems":2,"uniqueItems":false,
                           "items":{"oneOf":[{"type":"object","additionalProperties":false,"required":["model"],
                                              "properties":{"model":{"type":"string","enum":["plate"]},"depth":{"type":"number"}}},
                                             {"type":"object","additionalProperties":false,"required":["model"],
                                              "properties":{"model":{"type":"string","enum":["slab"]},
                                                            "dip":{"anyOf":[{"type":"number"},{"type":"array","items":{"type":"number"}}]}}}]}}}}
``` -/
def exSchema : J :=
  .obj [("type", .str "object"), ("additionalProperties", .bool false), ("required", .arr [.str "version", .str "features"]),
    ("properties", .obj [
      ("version", .obj [("type", .str "string")]),
      ("interpolation", .obj [("type", .str "string"), ("enum", .arr [.str "none", .str "linear", .str "monotone spline"])]),
      ("max depth", .obj [("type", .str "number")]),
      ("count", .obj [("type", .str "integer")]),
      ("features", .obj [("type", .str "array"), ("minItems", .num 1), ("maxItems", .num 2), ("uniqueItems", .bool false),
        ("items", .obj [("oneOf", .arr [
          .obj [("type", .str "object"), ("additionalProperties", .bool false), ("required", .arr [.str "model"]),
                ("properties", .obj [("model", .obj [("type", .str "string"), ("enum", .arr [.str "plate"])]),
                                     ("depth", .obj [("type", .str "number")])])],
          .obj [("type", .str "object"), ("additionalProperties", .bool false), ("required", .arr [.str "model"]),
                ("properties", .obj [("model", .obj [("type", .str "string"), ("enum", .arr [.str "slab"])]),
                                     ("dip", .obj [("anyOf", .arr [.obj [("type", .str "number")],
                                        .obj [("type", .str "array"), ("items", .obj [("type", .str "number")])]])])])]])])])])]

def plate : J := .obj [("model", .str "plate"), ("depth", .num ⟨1005, 1⟩)]
def slab : J := .obj [("model", .str "slab"), ("dip", .arr [.num 30, .num ⟨455, 1⟩])]

-- accepted: `{"version":"1.1","features":[plate,slab],"count":3,"max depth":3,"interpolation":"linear"}` (an integer literal is a number)
example : validateJ exSchema (.obj [("version", .str "1.1"), ("features", .arr [plate, slab]), ("count", .num 3), ("max depth", .num 3),
    ("interpolation", .str "linear")]) = true := by decide
example : Satisfies exSchema (.obj [("version", .str "1.1"), ("features", .arr [plate])]) :=
  (C12_validateJ_iff _ _).1 (by decide)
-- rejected: unknown key at the top level
example : validateJ exSchema (.obj [("version", .str "1.1"), ("features", .arr [plate]), ("colour", .str "red")]) = false := by decide
-- rejected: unknown key inside a feature (no `oneOf` entry matches)
example : validateJ exSchema (.obj [("version", .str "1.1"), ("features", .arr [.obj [("model", .str "plate"), ("dip", .num 1)]])]) = false := by
  decide
-- rejected: missing required entry (`features`; `model` inside a feature)
example : validateJ exSchema (.obj [("version", .str "1.1")]) = false := by decide
example : validateJ exSchema (.obj [("version", .str "1.1"), ("features", .arr [.obj [("depth", .num 1)]])]) = false := by decide
-- rejected: wrong type (`version` a number; `count` the literal `3.0`; `dip` a string; the file an array)
example : validateJ exSchema (.obj [("version", .num ⟨11, 1⟩), ("features", .arr [plate])]) = false := by decide
example : validateJ exSchema (.obj [("version", .str "1.1"), ("features", .arr [plate]), ("count", .num ⟨30, 1⟩)]) = false := by decide
example : validateJ exSchema (.obj [("version", .str "1.1"), ("features", .arr [.obj [("model", .str "slab"), ("dip", .str "steep")]])]) = false := by
  decide
example : validateJ exSchema (.arr []) = false := by decide
-- rejected: unsupported option value
example : validateJ exSchema (.obj [("version", .str "1.1"), ("features", .arr [plate]), ("interpolation", .str "cubic")]) = false := by decide
example : validateJ exSchema (.obj [("version", .str "1.1"), ("features", .arr [.obj [("model", .str "plume")]])]) = false := by decide
-- rejected: too few / too many items
example : validateJ exSchema (.obj [("version", .str "1.1"), ("features", .arr [])]) = false := by decide
example : validateJ exSchema (.obj [("version", .str "1.1"), ("features", .arr [plate, slab, plate])]) = false := by decide
-- `oneOf` counts entries: a value matching two entries is rejected; `uniqueItems: true`
example : validateJ (.obj [("oneOf", .arr [.obj [("type", .str "number")], .obj [("type", .str "integer")]])]) (.num 1) = false := by decide
example : validateJ (.obj [("oneOf", .arr [.obj [("type", .str "number")], .obj [("type", .str "integer")]])]) (.num ⟨15, 1⟩) = true := by decide
example : validateJ (.obj [("uniqueItems", .bool true)]) (.arr [.str "a", .str "a"]) = false := by decide
-- without fuel nothing is accepted, and the fuel bound of `C12_validate_sound_complete` is what `validateJ` uses
example : validate 0 exSchema (.obj []) = false := rfl
example : exSchema.depth = 11 := by decide
example : validate 12 exSchema (.obj [("version", .str "1.1"), ("features", .arr [slab])]) = true ↔
    Satisfies exSchema (.obj [("version", .str "1.1"), ("features", .arr [slab])]) :=
  C12_validate_sound_complete 12 _ _ (by decide)
-- the bound matters: with too little fuel a valid document is refused
example : validate 12 exSchema (.obj [("version", .str "1.1"), ("features", .arr [slab])]) = true := by decide
example : validate 5 exSchema (.obj [("version", .str "1.1"), ("features", .arr [slab])]) = false := by decide

-- the hypotheses of the four rejection theorems are satisfiable (instances on `exSchema`)
example : (validateJ exSchema (.obj [("version", .str "1.1"), ("features", .arr [plate]), ("colour", .str "red")]) = false) :=
  (C12_unknown_key_rejected exSchema _ "colour" (.str "red") rfl (by simp) rfl
    (by rintro ⟨names, h, hm⟩; revert hm; cases h; simp)).2.1
example : validateJ exSchema (.obj [("version", .str "1.1")]) = false :=
  (C12_missing_required_rejected exSchema _ "features" ⟨_, rfl, by simp⟩ (by simp)
    (by rintro ⟨p, t, hp, hd, _⟩; cases hp; cases hd)).2.1
example : validateJ (.obj [("type", .str "string")]) (.num 1) = false :=
  (C12_wrong_type_rejected _ _ (.str "string") rfl
    (by rintro name (h | ⟨ts, h, _⟩) <;> cases h; exact not_hasType_of (by decide))).2.1
example : validateJ (.obj [("enum", .arr [.str "none", .str "linear"])]) (.str "cubic") = false :=
  (C12_enum_rejected _ _ _ rfl (by simp) (by simp)).2.1
example : validateJ exSchema (.obj [("version", .num 1)]) = false :=
  (C12_rejected_in_property exSchema (.obj [("type", .str "string")]) _ "version" (.num 1) rfl (by simp)
    (C12_wrong_type_rejected _ _ (.str "string") rfl (by rintro name (h | ⟨ts, h, _⟩) <;> cases h; exact not_hasType_of (by decide))).2.2).1
example : validateJ (.obj [("items", .obj [("type", .str "string")])]) (.arr [.str "a", .num 1]) = false :=
  (C12_rejected_in_item _ _ _ (.num 1) rfl (by simp)
    (C12_wrong_type_rejected _ _ (.str "string") rfl (by rintro name (h | ⟨ts, h, _⟩) <;> cases h; exact not_hasType_of (by decide))).2.2).1

end Gwb
