/-
C07 (depth cut-off part) — the culling test `depth − min_depth ≤ maximum_total_slab_length + maximum_slab_thickness`
(subducting_plate.cc:519, fault.cc:493; third conjunct of `LineFeature.preTest`) never discards a member.

Unit-speed argument, on the model's segment walk (`Model/Geometry/Dpfcp.lean`, `segmentStep` / `segmentLoop`; phases and plane
vocabulary from `Proofs/LineGeometry.lean`, the invariant `DepthInv` and the hypothesis `StraightWalk` from `Proofs/CullDepth.lean`):
plane frame x horizontal, y up; a straight piece of length `len` and dip `θ` ends `len·sin θ ≤ len` below its start; a point
with foot at along-piece coordinate `a ∈ [0,len]` and normal distance `d` lies `a·sin θ + d·cos θ ≤ a + |d|` below the start of the piece.

Ordered field, `PlaneLaws T` (`sin² + cos² = 1`, the two co-function laws, `sqrt(x²) = |x|`; satisfied by the real functions:
`real_planeLaws`):
* `C07_depth_piece_invariant`   one straight, non-skipped iteration of the segment loop preserves `DepthInv y0 sr c`:
                                (i) the end of the walk is at most the accumulated length below `y0`; (ii) if a foot has been recorded
                                (`found`) then `y0 − c.y ≤ along + |distance|` and `depthRef ≤ sr − y0 + along`.
* `C07_depth_walk_bound`        for the model's `segmentLoop` over straight pieces started as the code starts it (`found = false`,
                                `totalLength = 0`): a recorded foot implies `begin0.y − check2d.y ≤ along + |distance|` and
                                `depthRef ≤ (sr − begin0.y) + along` (the foot's depth is at most its along-distance).
* `C07_local_le_maxima`         for sections / segments of the feature and fractions in `[0,1]`: the interpolated total length is
                                `≤ maximum_total_slab_length`, the interpolated thickness `≤ maximum_slab_thickness`, which is `≥ 0`,
                                and — slabs — the interpolated top truncation is `≥ −maximum_slab_thickness`
                                (`maximum_slab_thickness` takes the negated top truncations into account since the upstream repair
                                'depth cut-off ignored material above the slab surface').
* `C07_depth_cutoff_sound_partial`  the two combined with the membership ranges `lineInside` (slab `tt ≤ d ≤ th ∧ 0 ≤ a ≤ maxLen`,
                                fault `|d| ≤ th/2 ∧ 0 < a ≤ maxLen`): the third conjunct of the culling pre-test is true
                                (slabs and faults; no hypothesis on the top truncation any more).

What is MISSING for `C07_depth_cutoff_sound_full` (a `Prop`, not proved):
1. circular pieces (dip varying along a segment; `StraightWalk` excludes them) — the same argument with the arc length, needs the
   `acos` bookkeeping that `C06_arc_piece_full` also leaves open;
2. the frame: that `distance_point_from_curved_planes` starts the walk at height `start radius` and that `start radius − check2d.y`
   is `depth − min depth` (hypothesis `hframe`; for Cartesian worlds this is `C06_cartesian_frame`, which assumes the closest-point
   result; in spherical worlds `check2d.y` is the projection on the local vertical, `≤` the point's radius, so the true depth is
   smaller still);
3. that the numbers tested by the membership are those of the loop (`pd.distanceFromPlane = s.distance`, `pd.distanceAlongPlane =
   s.along`: the last lines of `distancePointFromCurvedPlanes`), and `fractionOfSection, fractionOfSegment ∈ [0,1]` (the Bezier
   acceptance window allows `1e-8` beyond both ends: `C19_bezier_accept_window`);
History: an earlier revision needed the hypothesis `htt` (slab top truncation not below `−maximum_slab_thickness`) and recorded a
plane-geometry counterexample without it (overturned slab, dip 135°, length 300 km, thickness 100 km, top truncation −300 km: the
member `a = 300 km`, `d = −300 km` lies ≈ 424 km > 400 km below the trench surface).  Replayed on the library it was a genuine defect
(members at 405–423 km discarded by the cut-off); it was repaired upstream (`maximum_slab_thickness` now also takes the negated top
truncations of a slab), the model follows, and `htt` is now the theorem `neg_maxThickness_le_ttLocal` (last part of
`C07_local_le_maxima`).  Faults need nothing: `|d| ≤ th/2` does not involve the top truncation.
-/
import GwbVerif.Proofs.CullDepth
import GwbVerif.Proofs.LineInstances
import GwbVerif.Spec.WellFormed
import Mathlib.Analysis.SpecialFunctions.Trigonometric.Inverse
namespace Gwb
open Scalar
set_option linter.unusedSectionVars false
set_option linter.unusedVariables false

section field
variable {F : Type} [Field F] [LinearOrder F] [IsStrictOrderedRing F]

/-- **C07 (depth)** one straight piece preserves the unit-speed invariant -/
theorem C07_depth_piece_invariant (T : Transc F) (L : PlaneLaws T) (dm : DepthMethod) (onlyPositive : Bool) (sr fraction : F) (c : P2 F)
    (angCur angNext : P2 F) (lenCur lenNext : F) (i : Nat) (s : SegState F) (y0 : F) (hinv : DepthInv y0 sr c s)
    (hstraight : |@segAngTop F (fieldScalar T) dm fraction angCur angNext i (@segPre F (fieldScalar T) dm i s) -
        @segAngBot F (fieldScalar T) fraction angCur angNext (@segPre F (fieldScalar T) dm i s)| < 1 / 10 ^ 8)
    (heps : T.eps < |lenCur + fraction * (lenNext - lenCur)|) (hlen : 1 / 10 ^ 14 ≤ lenCur + fraction * (lenNext - lenCur))
    (hinf : lenCur + fraction * (lenNext - lenCur) < T.inf) :
    DepthInv y0 sr c (@segmentStep F (fieldScalar T) dm onlyPositive sr fraction c angCur angNext lenCur lenNext i s) :=
  segmentStep_depthInv T L dm onlyPositive sr fraction c angCur angNext lenCur lenNext i s y0 hinv hstraight heps hlen hinf

/-- **C07 (depth)** the segment loop over straight pieces: a recorded foot is at most `along + |distance|` below the start of the
walk, and its own depth below the start is at most `along` -/
theorem C07_depth_walk_bound (T : Transc F) (L : PlaneLaws T) (dm : DepthMethod) (onlyPositive : Bool) (sr fraction : F) (c : P2 F)
    (angsCur angsNext : List (P2 F)) (lensCur lensNext : List F) (s0 s : SegState F)
    (h1 : lensCur.length ≤ angsCur.length) (h2 : lensCur.length ≤ angsNext.length) (h3 : lensCur.length ≤ lensNext.length)
    (hf : s0.found = false) (ht : s0.totalLength = 0)
    (hw : StraightWalk T dm onlyPositive sr fraction c angsCur angsNext lensCur lensNext s0 lensCur.length)
    (hs : @segmentLoop F (fieldScalar T) dm onlyPositive sr fraction c angsCur angsNext lensCur lensNext (lensCur.length + 1) 0 s0 = .ok s)
    (hfound : s.found = true) :
    s0.endSeg.y - c.y ≤ s.along + |s.distance| ∧ s.depthRef ≤ sr - s0.endSeg.y + s.along :=
  segmentLoop_depth_bound T L dm onlyPositive sr fraction c angsCur angsNext lensCur lensNext s0 s h1 h2 h3 hf ht hw hs hfound

/-- **C07 (depth)** the feature-wide maxima bound the local (interpolated) total length and thickness, and for slabs the negated
local top truncation -/
theorem C07_local_le_maxima (T : Transc F) (f : LineFeature F) (secCur secNext : List (Segment F)) (cur next : Segment F) (sf gf : F)
    (h1 : secCur ∈ f.sections) (h2 : secNext ∈ f.sections) (hc : cur ∈ secCur) (hn : next ∈ secNext)
    (hs0 : 0 ≤ sf) (hs1 : sf ≤ 1) (hg0 : 0 ≤ gf) (hg1 : gf ≤ 1) :
    @maxLenLocal F (fieldScalar T) secCur secNext sf ≤ @LineFeature.maxTotalLength F (fieldScalar T) f ∧
    @Segment.thLocal F (fieldScalar T) cur next sf gf ≤ @LineFeature.maxThickness F (fieldScalar T) f ∧
    0 ≤ @LineFeature.maxThickness F (fieldScalar T) f ∧
    (f.isFault = false → -@LineFeature.maxThickness F (fieldScalar T) f ≤ @Segment.ttLocal F (fieldScalar T) cur next sf gf) :=
  ⟨maxLenLocal_le T f secCur secNext sf h1 h2 hs0 hs1, thLocal_le T f secCur secNext cur next sf gf h1 h2 hc hn hs0 hs1 hg0 hg1,
    maxThickness_nonneg T f,
    fun hf => neg_maxThickness_le_ttLocal T f hf secCur secNext cur next sf gf h1 h2 hc hn hs0 hs1 hg0 hg1⟩

/-- **C07 (depth), partial**: a point that the straight-piece walk places at `(s.distance, s.along)` and that passes the membership
ranges for these two numbers satisfies the depth half of the culling pre-test — provided the walk started at the trench surface with
`start height − check height = depth − min depth` (`hframe`).  Slabs and faults alike; no hypothesis on the top truncation. -/
theorem C07_depth_cutoff_sound_partial (T : Transc F) (L : PlaneLaws T) (f : LineFeature F) (q : Query F)
    (dm : DepthMethod) (sr fraction : F) (c : P2 F)
    (angsCur angsNext : List (P2 F)) (lensCur lensNext : List F) (s0 s : SegState F)
    (h1 : lensCur.length ≤ angsCur.length) (h2 : lensCur.length ≤ angsNext.length) (h3 : lensCur.length ≤ lensNext.length)
    (hf : s0.found = false) (ht : s0.totalLength = 0)
    (hw : StraightWalk T dm f.isFault sr fraction c angsCur angsNext lensCur lensNext s0 lensCur.length)
    (hs : @segmentLoop F (fieldScalar T) dm f.isFault sr fraction c angsCur angsNext lensCur lensNext (lensCur.length + 1) 0 s0 = .ok s)
    (hfound : s.found = true)
    (hframe : s0.endSeg.y - c.y = q.depth - f.minDepth)
    (secCur secNext : List (Segment F)) (cur next : Segment F) (sf gf : F)
    (hm1 : secCur ∈ f.sections) (hm2 : secNext ∈ f.sections) (hc : cur ∈ secCur) (hn : next ∈ secNext)
    (hs0 : 0 ≤ sf) (hs1 : sf ≤ 1) (hg0 : 0 ≤ gf) (hg1 : gf ≤ 1)
    (hin : @lineInside F (fieldScalar T) f.isFault s.distance s.along (@Segment.thLocal F (fieldScalar T) cur next sf gf)
      (@Segment.ttLocal F (fieldScalar T) cur next sf gf) (@maxLenLocal F (fieldScalar T) secCur secNext sf)) :
    q.depth - f.minDepth ≤ @LineFeature.maxTotalLength F (fieldScalar T) f + @LineFeature.maxThickness F (fieldScalar T) f ∧
    @decide (q.depth - f.minDepth ≤ @LineFeature.maxTotalLength F (fieldScalar T) f + @LineFeature.maxThickness F (fieldScalar T) f)
      (@Scalar.decLe F (fieldScalar T) _ _) = true := by
  obtain ⟨hb, _⟩ := C07_depth_walk_bound T L dm f.isFault sr fraction c angsCur angsNext lensCur lensNext s0 s h1 h2 h3 hf ht hw hs hfound
  obtain ⟨m1, m2, m3, htt⟩ := C07_local_le_maxima T f secCur secNext cur next sf gf hm1 hm2 hc hn hs0 hs1 hg0 hg1
  have key : s.along ≤ @LineFeature.maxTotalLength F (fieldScalar T) f ∧ |s.distance| ≤ @LineFeature.maxThickness F (fieldScalar T) f := by
    unfold lineInside at hin
    cases hfault : f.isFault with
    | true =>
      rw [hfault] at hin
      simp only [if_true] at hin
      obtain ⟨i1, _, i3⟩ := hin
      have i1' : |s.distance| ≤ @Segment.thLocal F (fieldScalar T) cur next sf gf * (1 / 2) := by
        have := i1
        rw [fabs_eq_abs] at this
        have e : @HMul.hMul F F F (@instHMul F (fieldScalar T).toMul) (@Segment.thLocal F (fieldScalar T) cur next sf gf)
            (@OfScientific.ofScientific F (@Scalar.instOfScientific F (fieldScalar T)) 5 true 1) =
            @Segment.thLocal F (fieldScalar T) cur next sf gf * (1 / 2) := by
          rw [lit_0_5]
        rw [e] at this
        exact this
      refine ⟨le_trans i3 m1, ?_⟩
      have : @Segment.thLocal F (fieldScalar T) cur next sf gf * (1 / 2) ≤ @LineFeature.maxThickness F (fieldScalar T) f := by
        rcases le_total 0 (@Segment.thLocal F (fieldScalar T) cur next sf gf) with hp | hn'
        · linarith
        · linarith
      exact le_trans i1' this
    | false =>
      rw [hfault] at hin
      simp only [Bool.false_eq_true, if_false] at hin
      obtain ⟨i1, i2, _, i4⟩ := hin
      have i1' : @Segment.ttLocal F (fieldScalar T) cur next sf gf ≤ s.distance := i1
      have i2' : s.distance ≤ @Segment.thLocal F (fieldScalar T) cur next sf gf := i2
      refine ⟨le_trans i4 m1, ?_⟩
      rw [abs_le]
      exact ⟨le_trans (htt hfault) i1', le_trans i2' m2⟩
  have hfinal : q.depth - f.minDepth ≤ @LineFeature.maxTotalLength F (fieldScalar T) f + @LineFeature.maxThickness F (fieldScalar T) f := by
    rw [← hframe]; linarith [key.1, key.2]
  exact ⟨hfinal, decide_eq_true hfinal⟩

end field

/-- **C07 (depth), full statement — NOT proved**: over the reals with the real `sqrt, sin, cos, tan, acos, π` (and `ε > 0`, `+∞` above
every segment length), for a well-formed slab or fault, every member of the un-culled feature satisfies the depth half of the
culling pre-test.  See the header for the three missing pieces. -/
def C07_depth_cutoff_sound_full : Prop :=
  ∀ (T : Transc ℝ), T.sqrt = Real.sqrt → T.sin = Real.sin → T.cos = Real.cos → T.tan = Real.tan → T.acos = Real.arccos →
    T.pi = Real.pi → 0 < T.eps →
    ∀ (f : LineFeature ℝ) (ctx : Ctx ℝ) (q : Query ℝ) (h : LineHit ℝ),
      @LineFeature.WellFormed ℝ (fieldScalar T) f →
      (∀ sec ∈ f.sections, ∀ s ∈ sec, s.length < T.inf) →
      @LineFeature.coversBody ℝ (fieldScalar T) f ctx q = .ok (some h) →
      q.depth - f.minDepth ≤ @LineFeature.maxTotalLength ℝ (fieldScalar T) f + @LineFeature.maxThickness ℝ (fieldScalar T) f

/-! ### non-vacuity -/

/-- the state the code starts the walk from, at `begin0 = (0, sr)` -/
noncomputable def walkStart (sr : ℝ) : SegState ℝ :=
  { distance := realTransc.inf, newDistance := realTransc.inf, along := realTransc.inf, newAlong := realTransc.inf,
    newDepthRef := realTransc.inf, segment := 0, segmentFraction := 0, totalAverageAngle := 0, depthRef := 0,
    beginSeg := ⟨0, sr⟩, endSeg := ⟨0, sr⟩, totalLength := 0, addAngle := 0, addAngleCorrection := 0, averageAngle := 0, found := false }

/-- `StraightWalk` is satisfiable: one segment, dip 1 rad at the top and the bottom in both sections, length 100 km, no angle
correction (`DepthMethod.none`), the real functions -/
example (sr : ℝ) (c : P2 ℝ) :
    StraightWalk realTransc .none false sr (1 / 2) c [⟨1, 1⟩] [⟨1, 1⟩] [100000] [100000] (walkStart sr) 1 := by
  intro k hk
  have hk0 : k = 0 := by omega
  subst hk0
  have hlen : walkLen realTransc [100000] [100000] (1 / 2 : ℝ) 0 = 100000 := by
    unfold walkLen
    simp
  rw [hlen]
  refine ⟨?_, ?_, ?_, ?_⟩
  · have e : @segAngTop ℝ (fieldScalar realTransc) .none (1 / 2) ⟨1, 1⟩ ⟨1, 1⟩ 0
          (@segPre ℝ (fieldScalar realTransc) .none 0 (walkStart sr)) -
        @segAngBot ℝ (fieldScalar realTransc) (1 / 2) ⟨1, 1⟩ ⟨1, 1⟩ (@segPre ℝ (fieldScalar realTransc) .none 0 (walkStart sr)) = 0 := by
      have ha : (@segPre ℝ (fieldScalar realTransc) .none 0 (walkStart sr)).addAngle = 0 := rfl
      show ((1 : ℝ) + 1 / 2 * (1 - 1) + (@segPre ℝ (fieldScalar realTransc) .none 0 (walkStart sr)).addAngle + ((0 : ℕ) : ℝ)) -
        (1 + 1 / 2 * (1 - 1) + (@segPre ℝ (fieldScalar realTransc) .none 0 (walkStart sr)).addAngle) = 0
      rw [ha]; norm_num
    show |@segAngTop ℝ (fieldScalar realTransc) .none (1 / 2) ⟨1, 1⟩ ⟨1, 1⟩ 0
          (@segPre ℝ (fieldScalar realTransc) .none 0 (walkStart sr)) -
        @segAngBot ℝ (fieldScalar realTransc) (1 / 2) ⟨1, 1⟩ ⟨1, 1⟩ (@segPre ℝ (fieldScalar realTransc) .none 0 (walkStart sr))| < 1 / 10 ^ 8
    rw [e]; norm_num
  · norm_num [realTransc]
  · norm_num
  · norm_num [realTransc]

/-- the laws are those of the real functions -/
example : PlaneLaws realTransc := real_planeLaws

end Gwb
