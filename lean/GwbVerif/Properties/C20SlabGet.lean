/-
C20 (slab envelopes, end to end) — `MassConserving.get` (`MassConserving::get_temperature`, mass_conserving.cc:288-637) itself, not only its formulas.

`Model/Models/SlabQuery.lean` names the intermediate quantities of `get_temperature` (record `McQuery`: model, geometry result, additional
parameters, depth, gravity, the ridge parameters `rp` and the two ages): `background`, `minT0` (the three depth regimes of `mcRegime`),
`minT = minT0 + adiabatic gradient + T_surface`, `offset`, `adjustedDistance = distance − offset`, `initialHeat`, `bottomHeat`,
`topHeat = min(−1e9·f·T_bg, initial − bottom)·[erfc(0.8θ) in the taper]`, `effAgeSec`, `analyticT old` (`get_temperature_analytic` of these).

* `C20_mass_conserving_get_eq`            EVERY `Scalar R` (also the Float instance diffed against the C++), no laws: inside the distance range,
                                          ridge search `= ok rp`, `calculate_effective_trench_and_plate_ages = ok (a, e)`, no spline:
                                          `get = ok (applyOp op old (if minT < background then analyticT old else old))`.
                                          Both reference models (half-space and plate model) — the heat contents keep their `if`.
* `C20_mass_conserving_min_temperature_lower`  ordered field, `SlabLaws`: `T_surface + adiabatic gradient ≤ minT` in ALL THREE regimes, under
                                          `coupling depth < 660 km`, `taper distance > 0`, `T_p ≥ 0` and `TaperStartsBelowCoupling` (the point
                                          `depth − Δ·sin(average angle·π/180)` from which the taper's start temperature is computed is not above
                                          the coupling depth; without it the start value can be as low as `T_coup − T_min660 < 0`).
                                          `subfact ∈ [0.5, 1.65]` holds for ANY velocity and age (the clamps): no hypothesis on the ridge results.
* `C20_mass_conserving_get_envelope`      `operation = replace`, no spline, half-space reference, `κ, ρ, c_p > 0`, `forearc cooling factor ≥ 0`
                                          + the above: the call returns `ok t` with
                                            – `¬ minT < background`: `t = T_old`;
                                            – top side (`adjusted distance < 0`): `min(T_old, minT − 1e-16) ≤ t ≤ T_old` (needs `minT − T_old + 1e-16 ≠ 0`, the
                                              C++ divides by it);
                                            – bottom side: `minT ≤ t ≤ background`, `t = minT` at adjusted distance 0 (needs `effective_plate_age_sec > 0`;
                                              outside the taper that is `effective_plate_age > 0`: `C20_mass_conserving_eff_age_no_taper`; inside the
                                              taper it is multiplied by `erfc(1.2θ)`, positive for the real `erfc` but not by the laws assumed).
* `C20_mass_conserving_envelope_partial`  the property's wording: with `T_old ≥ T_surface` and a non-negative adiabatic gradient,
                                          `T_surface − 1e-16 ≤ t ≤ max(T_old, background)` — the LOWER BOUND IS THE SURFACE TEMPERATURE
                                          (`minT ≥ T_surface + adiabatic gradient`, reached only as `T_coup·erfc θ → 0` far above the coupling depth),
                                          the upper bound the larger of the incoming (ambient) temperature and the adiabat.
                                          `1e-16` is the regulariser of the top-side amplitude (below double resolution at 293 K).
* `C20_mass_conserving_envelope_full`     (a `def … : Prop`, NOT proved) the same for every parameter set, spline and plate-model reference
                                          included.  Missing: the spline (list machinery of `splineSetPoints`/`splineEval`; outside the sample
                                          table it extrapolates), the plate-model reference (49-term sine series, overshoots: `C20SlabEnvelope`),
                                          `coupling depth ≥ 660 km` (false there: `C20_mass_conserving_min_temperature_below_coupling_drops`).
Float evaluation (`scratch/MWEval.lean`, the named quantities on the Float instance; `get` at `distance = offset` returns `minT` to the last digit
in all three regimes): over coupling depth 80–120 km, trench ages 10–150 Myr, velocities 1–15 cm/yr, dips 15–90°, slab lengths 200–800 km,
taper 100–500 km, depths 0–660 km the smallest `minT` is 293.52 K (surface 293.15 K): it does not fall below the surface temperature.
Note on `TaperStartsBelowCoupling`: `average_angle` arrives in RADIANS (subducting_plate.cc:436 converts the segment angles, utilities.cc:1029 averages
them) and mass_conserving.cc:461 multiplies it by `π/180` again, so `sin(…) ≤ sin(π²/360) = 0.027`: the "depth at the start of the taper" is the
current depth minus at most 2.7 % of the distance into the taper.  With that the hypothesis can fail only within 2.7 km·(taper/100 km) below the
coupling depth, and `minT0` stays ≥ 31 K there (Float scan, `depth − coupling depth` 0–20 km, taper 100–1500 km); with the angle in degrees
as the formula expects the same scan gives `minT0 ≥ 11.7 K` (taper 1500 km, 90°).
-/
import GwbVerif.Proofs.SlabGet
namespace Gwb
open Scalar
set_option linter.unusedSectionVars false
set_option linter.unusedVariables false

section generic
variable {R : Type} [Scalar R]

/-- **C20** `MassConserving.get` is the operation applied to the analytic profile of the named quantities (every scalar type, no laws) -/
theorem C20_mass_conserving_get_eq (m : MassConserving R) (ctx : Ctx R) (depth g : R) (pd : PlaneDist R) (ap : AdditionalParams R) (old : R)
    (rp : RidgeParams R) (a e : R)
    (hr : pd.distanceFromPlane ≤ m.mx ∧ pd.distanceFromPlane ≥ m.mn)
    (hridge : ridgeDistanceAndSpreading ctx.coord.spherical m.ridge.ridges m.ridge.vels (ctx.coord.toNatural pd.closestTrenchPoint)
      m.subVel m.migrationTimes = .ok rp)
    (hages : effectiveTrenchAndPlateAges rp pd.distanceAlongPlane = .ok (a, e))
    (hs : m.applySpline = false) :
    m.get ctx depth g pd ap old =
      .ok (applyOp m.op old
        (let q : McQuery R := ⟨m, pd, ap, depth, g, rp, a, e⟩
         if q.minT < q.background then q.analyticT old else old)) :=
  MassConserving.get_eq m ctx depth g pd ap old rp a e hr hridge hages hs

end generic

section field
variable {F : Type} [Field F] [LinearOrder F] [IsStrictOrderedRing F]

/-- **C20** the minimum temperature of the slab is at least the surface temperature plus the adiabatic gradient, in all three regimes -/
theorem C20_mass_conserving_min_temperature_lower (T : Transc F) (L : SlabLaws T) (q : McQuery F)
    (hcd : q.m.couplingDepth < 660000) (htd : 0 < q.m.taperDistance) (hTp : 0 ≤ q.m.potentialT)
    (htaper : q.TaperStartsBelowCoupling T) :
    q.m.surfaceT + @mcAdiabaticGradient F (fieldScalar T) q.m q.gravityNorm q.depth ≤ @McQuery.minT F (fieldScalar T) q :=
  McQuery.minT_lower T L q hcd htd hTp htaper

/-- **C20** outside the taper the effective plate age handed to the profile is `effective_plate_age` in seconds, positive with it -/
theorem C20_mass_conserving_eff_age_no_taper (T : Transc F) (q : McQuery F)
    (hno : q.pd.depthReferenceSurface < q.m.couplingDepth ∨ q.pd.distanceAlongPlane < @mcStartTaper F (fieldScalar T) q.m q.ap) :
    @McQuery.effAgeSec F (fieldScalar T) q = q.effAge * @secondsInYear F (fieldScalar T) ∧
    (0 < q.effAge → 0 < @McQuery.effAgeSec F (fieldScalar T) q) :=
  McQuery.effAgeSec_no_taper T q hno

/-- **C20** the envelope of `MassConserving.get` (`replace`, no spline, half-space reference), regime by regime -/
theorem C20_mass_conserving_get_envelope (T : Transc F) (L : SlabLaws T) (q : McQuery F) (ctx : Ctx F) (old : F)
    (hr : q.pd.distanceFromPlane ≤ q.m.mx ∧ q.m.mn ≤ q.pd.distanceFromPlane)
    (hridge : @ridgeDistanceAndSpreading F (fieldScalar T) ctx.coord.spherical q.m.ridge.ridges q.m.ridge.vels
      (@CoordSys.toNatural F (fieldScalar T) ctx.coord q.pd.closestTrenchPoint) q.m.subVel q.m.migrationTimes = .ok q.rp)
    (hages : @effectiveTrenchAndPlateAges F (fieldScalar T) q.rp q.pd.distanceAlongPlane = .ok (q.ageAtTrench, q.effAge))
    (hs : q.m.applySpline = false) (hp : q.m.plateRef = false) (hop : q.m.op = .replace)
    (hk : 0 < q.m.kappa) (hrho : 0 < q.m.density) (hcp : 0 < q.m.cp) (hfc : 0 ≤ q.m.forearcCoolingFactor)
    (hcd : q.m.couplingDepth < 660000) (htd : 0 < q.m.taperDistance) (hTp : 0 ≤ q.m.potentialT)
    (htaper : q.TaperStartsBelowCoupling T) :
    ∃ t, @MassConserving.get F (fieldScalar T) q.m ctx q.depth q.gravityNorm q.pd q.ap old = .ok t ∧
      q.m.surfaceT + @mcAdiabaticGradient F (fieldScalar T) q.m q.gravityNorm q.depth ≤ @McQuery.minT F (fieldScalar T) q ∧
      (¬ @McQuery.minT F (fieldScalar T) q < @McQuery.background F (fieldScalar T) q → t = old) ∧
      (@McQuery.minT F (fieldScalar T) q < @McQuery.background F (fieldScalar T) q →
        @McQuery.adjustedDistance F (fieldScalar T) q < 0 →
        @McQuery.minT F (fieldScalar T) q - old + ((OfScientific.ofScientific 1 true 16 : ℚ) : F) ≠ 0 →
        min old (@McQuery.minT F (fieldScalar T) q - ((OfScientific.ofScientific 1 true 16 : ℚ) : F)) ≤ t ∧ t ≤ old) ∧
      (@McQuery.minT F (fieldScalar T) q < @McQuery.background F (fieldScalar T) q →
        0 ≤ @McQuery.adjustedDistance F (fieldScalar T) q → 0 < @McQuery.effAgeSec F (fieldScalar T) q →
        @McQuery.minT F (fieldScalar T) q ≤ t ∧ t ≤ @McQuery.background F (fieldScalar T) q ∧
        (@McQuery.adjustedDistance F (fieldScalar T) q = 0 → t = @McQuery.minT F (fieldScalar T) q)) :=
  MassConserving.get_envelope T L q ctx old hr hridge hages hs hp hop hk hrho hcp hfc hcd htd hTp htaper

/-- **C20** (partial: no spline, half-space reference, coupling depth < 660 km) the mass conserving slab temperature lies between the
surface temperature (minus the regulariser `1e-16`) and the larger of the incoming temperature and the background adiabat -/
theorem C20_mass_conserving_envelope_partial (T : Transc F) (L : SlabLaws T) (q : McQuery F) (ctx : Ctx F) (old : F)
    (hr : q.pd.distanceFromPlane ≤ q.m.mx ∧ q.m.mn ≤ q.pd.distanceFromPlane)
    (hridge : @ridgeDistanceAndSpreading F (fieldScalar T) ctx.coord.spherical q.m.ridge.ridges q.m.ridge.vels
      (@CoordSys.toNatural F (fieldScalar T) ctx.coord q.pd.closestTrenchPoint) q.m.subVel q.m.migrationTimes = .ok q.rp)
    (hages : @effectiveTrenchAndPlateAges F (fieldScalar T) q.rp q.pd.distanceAlongPlane = .ok (q.ageAtTrench, q.effAge))
    (hs : q.m.applySpline = false) (hp : q.m.plateRef = false) (hop : q.m.op = .replace)
    (hk : 0 < q.m.kappa) (hrho : 0 < q.m.density) (hcp : 0 < q.m.cp) (hfc : 0 ≤ q.m.forearcCoolingFactor)
    (hcd : q.m.couplingDepth < 660000) (htd : 0 < q.m.taperDistance) (hTp : 0 ≤ q.m.potentialT)
    (htaper : q.TaperStartsBelowCoupling T)
    (hag : 0 ≤ @mcAdiabaticGradient F (fieldScalar T) q.m q.gravityNorm q.depth) (hold : q.m.surfaceT ≤ old)
    (hne : @McQuery.adjustedDistance F (fieldScalar T) q < 0 →
      @McQuery.minT F (fieldScalar T) q - old + ((OfScientific.ofScientific 1 true 16 : ℚ) : F) ≠ 0)
    (hepa : 0 ≤ @McQuery.adjustedDistance F (fieldScalar T) q → 0 < @McQuery.effAgeSec F (fieldScalar T) q) :
    ∃ t, @MassConserving.get F (fieldScalar T) q.m ctx q.depth q.gravityNorm q.pd q.ap old = .ok t ∧
      q.m.surfaceT - ((OfScientific.ofScientific 1 true 16 : ℚ) : F) ≤ t ∧ t ≤ max old (@McQuery.background F (fieldScalar T) q) := by
  obtain ⟨t, hget, hmin, hwarm, htop, hbot⟩ :=
    MassConserving.get_envelope T L q ctx old hr hridge hages hs hp hop hk hrho hcp hfc hcd htd hTp htaper
  have heps : (0 : F) < ((OfScientific.ofScientific 1 true 16 : ℚ) : F) := by
    have : (0 : ℚ) < OfScientific.ofScientific 1 true 16 := by norm_num
    exact_mod_cast this
  refine ⟨t, hget, ?_⟩
  by_cases hlt : @McQuery.minT F (fieldScalar T) q < @McQuery.background F (fieldScalar T) q
  · rcases lt_or_ge (@McQuery.adjustedDistance F (fieldScalar T) q) 0 with hadj | hadj
    · obtain ⟨h1, h2⟩ := htop hlt hadj (hne hadj)
      refine ⟨le_trans (le_min ?_ ?_) h1, le_trans h2 (le_max_left _ _)⟩ <;> linarith
    · obtain ⟨h1, h2, _⟩ := hbot hlt hadj (hepa hadj)
      exact ⟨by linarith, le_trans h2 (le_max_right _ _)⟩
  · rw [hwarm hlt]
    exact ⟨by linarith, le_max_left _ _⟩

/-- the full envelope (NOT proved; see the header for what is missing and where it is false) -/
def C20_mass_conserving_envelope_full (T : Transc F) : Prop :=
  ∀ (m : MassConserving F) (ctx : Ctx F) (depth g : F) (pd : PlaneDist F) (ap : AdditionalParams F) (old t : F),
    m.op = .replace → m.surfaceT ≤ old → 0 ≤ @mcAdiabaticGradient F (fieldScalar T) m g depth →
    @MassConserving.get F (fieldScalar T) m ctx depth g pd ap old = .ok t →
    m.surfaceT ≤ t ∧ t ≤ max old (@mcBackground F (fieldScalar T) m g depth)

/-- **C20** the adiabatic gradient is non-negative when `T_p ≥ 0` and `α g z / c_p ≥ 0` (with `exp ≥ 1` right of the origin) -/
theorem C20_mass_conserving_adiabatic_gradient_nonneg (T : Transc F) (hexp : ∀ x, 0 ≤ x → 1 ≤ T.exp x) (m : MassConserving F) (g depth : F)
    (hTp : 0 ≤ m.potentialT) (harg : 0 ≤ m.alpha * g * depth / m.cp) :
    0 ≤ @mcAdiabaticGradient F (fieldScalar T) m g depth :=
  mcAdiabaticGradient_nonneg T hexp m g depth hTp harg

end field
/-! ### non-vacuity -/

theorem secondsInYear_eq_real : @secondsInYear ℝ (fieldScalar realTransc) = 31557600 := by
  unfold secondsInYear
  rw [lit_sci realTransc 600 true 1, lit_sci realTransc 240 true 1, lit_sci realTransc 36525 true 2]
  norm_num

/-- a cartesian ridge search over ℝ that succeeds: ridge `(0,0)–(0,1)`, trench point `(3,0,0)`: distance 3, both velocities 1 m/s -/
theorem mcExRidge_ok :
    @ridgeDistanceAndSpreading ℝ (fieldScalar realTransc) false [[⟨0, 0⟩, ⟨0, 1⟩]] [[31557600, 31557600]] ⟨3, 0, 0⟩ [[31557600]] [0] =
      .ok ⟨1, 3, 1, 0⟩ := by
  have hsy := secondsInYear_eq_real
  have h9 : Real.sqrt 9 = 3 := by
    rw [show (9 : ℝ) = 3 * 3 by norm_num]; exact Real.sqrt_mul_self (by norm_num)
  simp [ridgeDistanceAndSpreading, ridgeSegments, ridgeSegment, relevantRidge, idx, surfacePoint, depthCoordinate, distanceSameDepth,
    bind, Except.bind, pure, Except.pure, HSub.hSub, Sub.sub, P2.sub, hsy]
  simp only [lit_0 realTransc, le_refl, if_true, s_sqrt realTransc, realTransc]
  norm_num [h9]

/-- the query of the instance: at the trench (`distance along the slab = 0`, slab surface at depth 0), 20 km below the slab top -/
noncomputable def mcExQuery : McQuery ℝ :=
  { m := { exMassConserving with ridge := ⟨[[⟨0, 0⟩, ⟨0, 1⟩]], [[31557600, 31557600]]⟩, subVel := [[31557600]] },
    pd := ⟨20000, 0, 0, 0, 0, 0, 45, 0, ⟨3, 0, 0⟩⟩, ap := ⟨300000, 100000⟩, depth := 20000, gravityNorm := 10,
    rp := ⟨1, 3, 1, 0⟩, ageAtTrench := 3 / 31557600, effAge := 3 / 31557600 }

def mcExCtx : Ctx ℝ := ⟨⟨false, .none, 0⟩, 1600, 293, false, 0, 1250, 1, 10⟩

theorem mcExQuery_ages :
    @effectiveTrenchAndPlateAges ℝ (fieldScalar realTransc) mcExQuery.rp mcExQuery.pd.distanceAlongPlane = .ok (mcExQuery.ageAtTrench, mcExQuery.effAge) := by
  have hsy := secondsInYear_eq_real
  simp [effectiveTrenchAndPlateAges, mcExQuery, hsy]
  simp only [lit_0 realTransc]
  rw [if_pos (by norm_num), if_pos (by norm_num)]

/-- every hypothesis of `C20_mass_conserving_envelope_partial` holds of this instance (over ℝ with `realTransc`), so its conclusion does -/
theorem C20_mass_conserving_envelope_instance :
    ∃ old t : ℝ, @MassConserving.get ℝ (fieldScalar realTransc) mcExQuery.m mcExCtx mcExQuery.depth mcExQuery.gravityNorm mcExQuery.pd mcExQuery.ap old = .ok t ∧
      mcExQuery.m.surfaceT - ((OfScientific.ofScientific 1 true 16 : ℚ) : ℝ) ≤ t ∧
      t ≤ max old (@McQuery.background ℝ (fieldScalar realTransc) mcExQuery) := by
  refine ⟨max mcExQuery.m.surfaceT (@McQuery.minT ℝ (fieldScalar realTransc) mcExQuery + 1), ?_⟩
  have heps : ((OfScientific.ofScientific 1 true 16 : ℚ) : ℝ) < 1 := by
    have : (OfScientific.ofScientific 1 true 16 : ℚ) < 1 := by norm_num
    exact_mod_cast this
  refine C20_mass_conserving_envelope_partial realTransc real_slabLaws mcExQuery mcExCtx _ ?_ mcExRidge_ok mcExQuery_ages rfl rfl rfl
    ?_ ?_ ?_ ?_ ?_ ?_ ?_ ?_ ?_ (le_max_left _ _) ?_ ?_
  · norm_num [mcExQuery, exMassConserving]
  · norm_num [mcExQuery, exMassConserving]
  · norm_num [mcExQuery, exMassConserving]
  · norm_num [mcExQuery, exMassConserving]
  · norm_num [mcExQuery, exMassConserving]
  · norm_num [mcExQuery, exMassConserving]
  · norm_num [mcExQuery, exMassConserving]
  · norm_num [mcExQuery, exMassConserving]
  · intro h
    exact absurd h (by norm_num [mcExQuery, exMassConserving])
  · unfold mcAdiabaticGradient
    simp [mcExQuery, exMassConserving, lit_0 realTransc]
  · intro _
    have := le_max_right mcExQuery.m.surfaceT (@McQuery.minT ℝ (fieldScalar realTransc) mcExQuery + 1)
    intro h0
    linarith
  · intro _
    exact (McQuery.effAgeSec_no_taper realTransc mcExQuery (Or.inl (by norm_num [mcExQuery, exMassConserving]))).2
      (by norm_num [mcExQuery])

/-- the unfolding theorem instantiated on the same query -/
example (old : ℝ) :
    @MassConserving.get ℝ (fieldScalar realTransc) mcExQuery.m mcExCtx mcExQuery.depth mcExQuery.gravityNorm mcExQuery.pd mcExQuery.ap old =
      .ok (@applyOp ℝ (fieldScalar realTransc) mcExQuery.m.op old
        (if @McQuery.minT ℝ (fieldScalar realTransc) mcExQuery < @McQuery.background ℝ (fieldScalar realTransc) mcExQuery
         then @McQuery.analyticT ℝ (fieldScalar realTransc) mcExQuery old else old)) :=
  @C20_mass_conserving_get_eq ℝ (fieldScalar realTransc) mcExQuery.m mcExCtx mcExQuery.depth mcExQuery.gravityNorm mcExQuery.pd mcExQuery.ap old
    mcExQuery.rp mcExQuery.ageAtTrench mcExQuery.effAge (by norm_num [mcExQuery, exMassConserving]) mcExRidge_ok mcExQuery_ages rfl

/-- `TaperStartsBelowCoupling` holds non-vacuously: a query 50 km into the taper with the slab surface at 300 km
(coupling depth 100 km): `300 km − 50 km·sin(…) ≥ 250 km` -/
example : ∃ q : McQuery ℝ, q.m.couplingDepth ≤ q.pd.depthReferenceSurface ∧
    @mcStartTaper ℝ (fieldScalar realTransc) q.m q.ap ≤ q.pd.distanceAlongPlane ∧ q.TaperStartsBelowCoupling realTransc ∧
    q.m.couplingDepth < 660000 ∧ 0 < q.m.taperDistance ∧ 0 ≤ q.m.potentialT := by
  refine ⟨{ mcExQuery with pd := ⟨20000, 250000, 0, 0, 0, 0, 45, 300000, ⟨3, 0, 0⟩⟩ }, ?_, ?_, ?_, ?_, ?_, ?_⟩
  · norm_num [mcExQuery, exMassConserving]
  · show (300000 : ℝ) - 100000 ≤ 250000
    norm_num
  · intro _ _
    show (100000 : ℝ) ≤ 300000 - (250000 - (300000 - 100000)) * Real.sin (45 * Real.pi / 180)
    have := Real.sin_le_one (45 * Real.pi / 180)
    nlinarith
  · norm_num [mcExQuery, exMassConserving]
  · norm_num [mcExQuery, exMassConserving]
  · norm_num [mcExQuery, exMassConserving]

example : SlabLaws realTransc := real_slabLaws
example : ∀ x : ℝ, 0 ≤ x → 1 ≤ realTransc.exp x := fun x hx => Real.one_le_exp hx

end Gwb
