/-
C02 inside slabs and faults — operations across the two sections, and features without models of a kind.

Model: `linePaintAt` (Model/Features/Line.lean; subducting_plate.cc:600-846, fault.cc:570-815): inside a slab / fault the model lists of
the segment of the CURRENT section and of the NEXT section are both evaluated and the two results are blended with the section fraction
`sf = h.pd.fractionOfSection`: `lerp a b sf = a + sf*(b − a)` (Proofs/Sections.lean).  Vocabulary (Proofs/Sections.lean, Proofs/LineOps.lean):
`sectionTemp/Comp/Grains/Vel` = what one section's list makes of a start value (plain `foldlM`/`foldl` of the models' `get`);
`inLineRange isFault pd mn mx` = the models' range test `mn ≤ d ≤ mx` (`d` = distance from the plane, `|d|` for faults);
`blendGrains gc gn sf` = sizes pairwise `lerp`, matrices pairwise `mat3Cast (slerp (quatCast a) (quatCast b) sf)`;
`selfSlerp a sf = mat3Cast (slerp (quatCast a) (quatCast a) sf)`.

1. GENERAL FORM (every `Scalar R`, no laws, no hypothesis on success — equalities of `Except` values):
   `C02_line_temperature_same_start`, `C02_line_composition_same_start`, `C02_line_velocity_same_start`, `C02_line_grains_same_start`:
   the entry is read ONCE (`old`), the current section's list is folded from `old`, the next section's list is folded from THE SAME
   `old`, and `lerp (fold cur old) (fold next old) sf` is written.  (A copy/paste slip that starts the second loop from the first
   loop's result breaks these: `C02_line_same_start_matters` shows the two readings differ for an `add` model.)
   Velocity: the start value is `(o0, o1, o0 + 2)` — the code reads `output[entry]+2` where `output[entry+2]` is meant
   (KNOWN_FINDINGS: line-velocity-old-z-read-as-x-plus-2); it is the same vector for both sections.

2. THE SAME UNIFORM MODEL IN BOTH SECTIONS.
   Every `Scalar R`: `C02_line_uniform_both_sections_temperature` / `_composition` — the value written is the expression
   `x + sf*(x − x)` with `x = applyOp op old M`; this is what the double code computes (`x − x = 0` and `sf*0 = 0` for finite `x`, `sf`,
   so `x` again; `NaN` for an infinite `x` or a non-finite `sf`).
   Ordered field: `C02_line_add_offset` (temperature), `C02_line_add_offset_composition` (a composition listed in both sections with
   fraction `M`): the painted value is `applyOp op old M` whatever the section fraction: `add` → `old + M`, `subtract` → `old − M`,
   `replace` and `replace defined only` → `M`.  `C02_line_unlisted_composition`: a composition listed in neither section's uniform model
   is cleared (`0`) by `replace` and left at `old` (the output is unchanged) by `replace defined only`, `add`, `subtract`.

3. NO MODELS OF A KIND (the hit covers the point; both sections' lists of that kind are empty).
   `C02_line_no_models_written` (every `Scalar R`): what is written — temperature / composition `lerp old old sf`; grains: every size
   `lerp a a sf`, every matrix `selfSlerp a sf`; velocity `(lerp o0 o0 sf, lerp o1 o1 sf, lerp (o0+2) (o0+2) sf)`.
   `C02_line_no_models_identity` (ordered field): temperature and composition: the output is UNCHANGED; grains: the sizes are unchanged.
   FINDINGS (the clause "a feature without models of a kind leaves that value as it was" is FALSE for two kinds):
   * velocity: `C02_line_no_velocity_models_written_field` — the three entries become `(o0, o1, o0 + 2)`;
     `C02_line_no_velocity_models_identity_iff` — unchanged iff the old z entry already was `o0 + 2`;
     `C02_line_no_velocity_models_identity_false` — `C02_line_no_velocity_models_identity_full` is false (background `[0,0,0]` → `[0,0,2]`);
     `C02_line_world_velocity_witness` — a whole world (Cartesian, one slab with two coordinates and NO models at all), velocity request on
     the trench: `World.props3` answers `[0, 0, 2]`.
   * grains: `C02_line_no_grains_models_zero_matrix` — the all-zero matrix of a background grains block comes back as the IDENTITY matrix
     (`selfSlerp_zero`: `quat_cast(0) = (sqrt(1)/2, 0, 0, 0)`, both `slerp` branches keep the vector part 0, `mat3_cast (w,0,0,0) = I` for
     every `w`; no libm laws needed); `C02_line_no_grains_models_identity_false` — `…_identity_full` is false (block `[0]·10` →
     `[0, 1,0,0, 0,1,0, 0,0,1]`); `C02_line_world_grains_witness` — the same world, grains request `{3, 0, 1}`: `[0, 1,0,0, 0,1,0, 0,0,1]`,
     while outside the slab (and inside an area feature without grains models, `C02_empty_model_list_identity`) the block stays `[0]·10`.
   NOT proved: `selfSlerp a sf = a` for a proper rotation matrix `a` (needs `sqrt` laws and the four-branch round trip
   `mat3Cast (quatCast a) = a`); only the `slerp` half is shown (`slerp_self_of_near_unit`, Proofs/LineOps.lean).

4. MIXED (one section with models of a kind, the other without): `C02_line_mixed_sections` (every `Scalar R`) — the section without
   models contributes `old` (not `0`, not the other section's value): the result is `lerp tc old sf` resp. `lerp old tn sf`.
   `C02_line_mixed_add_offset` (ordered field): a single `add M` model in the current section only paints `old + (1 − sf)·M`, in the
   next section only `old + sf·M`.  (For grains the section without models contributes the grains in place, which for a background
   block are all-zero matrices: KNOWN_FINDINGS line-grains-blended-with-section-without-grains.)

5. FROM THE PAINTING CODE TO THE FEATURE (every `Scalar R`).  All statements above are about `linePaintAt`, the pure painting code.
   `C02_line_paintM_is_paint`: the step in front of it (`LineHit.prepare`: `tian water content` models evaluated for a composition
   request, random grains drawn for a grains request) is the identity for temperature / tag / velocity requests whatever the models, and
   for composition / grains requests when neither section has models of that kind, so `linePaintAtM = liftE (linePaintAt …)` there.
   `C02_line_apply_covering`: `LineFeature.apply` of a covering feature is the fold of `linePaintAtM` over the requests with ONE shared hit.
   (For a composition / grains request with models, `prepare` replaces models one-for-one and never adds or removes any: C15.)
Non-vacuity: namespace `C02LinesEx` (a concrete hit over `ℚ` with `sf = 1/2`, segments with `add` models; `exLine` of
Proofs/LineInstances.lean evaluated by the kernel for the world-level witnesses).
-/
import GwbVerif.Proofs.LineOps
import GwbVerif.Model.World
namespace Gwb
open Scalar
set_option linter.unusedSectionVars false
set_option linter.unusedVariables false

/-! ## 1. General form: both folds start from the same old value (every `Scalar R`) -/

section general
variable {R : Type} [Scalar R]

/-- **C02** temperature inside a slab / fault: `lerp (fold cur old) (fold next old) sf`, both folds from the same `old` -/
theorem C02_line_temperature_same_start (f : LineFeature R) (ctx : Ctx R) (q : Query R) (h : LineHit R) (p : Req) (e : Nat) (out : List R)
    (hcode : p.code = 1) :
    linePaintAt f ctx q h p e out = (do
      let old ← idx out e
      let tc ← h.cur.temps.foldlM (fun t m => m.get f.isFault ctx q.depth q.gravityNorm h.pd h.ap t) old
      let tn ← h.next.temps.foldlM (fun t m => m.get f.isFault ctx q.depth q.gravityNorm h.pd h.ap t) old
      return writeBlock e [lerp tc tn h.pd.fractionOfSection] out) :=
  linePaintAt_temperature_eq f ctx q h p e out hcode

/-- **C02** composition inside a slab / fault -/
theorem C02_line_composition_same_start (f : LineFeature R) (ctx : Ctx R) (q : Query R) (h : LineHit R) (p : Req) (e : Nat) (out : List R)
    (hcode : p.code = 2) :
    linePaintAt f ctx q h p e out = (do
      let old ← idx out e
      let cc ← h.cur.comps.foldlM (fun c m => m.get f.isFault h.pd p.n c) old
      let cn ← h.next.comps.foldlM (fun c m => m.get f.isFault h.pd p.n c) old
      return writeBlock e [lerp cc cn h.pd.fractionOfSection] out) :=
  linePaintAt_composition_eq f ctx q h p e out hcode

/-- **C02** velocity inside a slab / fault: both folds start from the same vector `(o0, o1, o0 + 2)` (as written in the code) -/
theorem C02_line_velocity_same_start (f : LineFeature R) (ctx : Ctx R) (q : Query R) (h : LineHit R) (p : Req) (e : Nat) (out : List R)
    (hcode : p.code = 5) :
    linePaintAt f ctx q h p e out = (do
      let o0 ← idx out e
      let o1 ← idx out (e + 1)
      let v0 : P3 R := ⟨o0, o1, o0 + (2 : R)⟩
      let vc := h.cur.vels.foldl (fun v m => m.get f.isFault h.pd v) v0
      let vn := h.next.vels.foldl (fun v m => m.get f.isFault h.pd v) v0
      return writeBlock e [lerp vc.x vn.x h.pd.fractionOfSection, lerp vc.y vn.y h.pd.fractionOfSection,
                           lerp vc.z vn.z h.pd.fractionOfSection] out) :=
  linePaintAt_velocity_eq f ctx q h p e out hcode

/-- **C02** grains inside a slab / fault: both folds start from the grains `g` read from the output; sizes `lerp`, matrices `slerp` -/
theorem C02_line_grains_same_start (f : LineFeature R) (ctx : Ctx R) (q : Query R) (h : LineHit R) (p : Req) (e : Nat) (out : List R)
    (hcode : p.code = 3) :
    linePaintAt f ctx q h p e out = (do
      let g := Grains.ofBlock p.k (readBlock e (p.k * 10) out)
      let gc ← h.cur.grains.foldlM (fun g m => m.get f.isFault h.pd p.n g) g
      let gn ← h.next.grains.foldlM (fun g m => m.get f.isFault h.pd p.n g) g
      return writeBlock e (blendGrains gc gn h.pd.fractionOfSection).toBlock out) ∧
    (∀ gc gn : Grains R, (blendGrains gc gn h.pd.fractionOfSection).sizes =
        List.zipWith (fun a b => lerp a b h.pd.fractionOfSection) gc.sizes gn.sizes) :=
  ⟨linePaintAt_grains_eq f ctx q h p e out hcode, fun _ _ => rfl⟩

/-! ## 2. the same uniform model in both sections (every `Scalar R`: the expression) -/

/-- **C02** both sections carry a single uniform temperature model with the same operation and value `M`, the point within both
ranges: the value written is `x + sf*(x − x)` with `x = applyOp op old M` -/
theorem C02_line_uniform_both_sections_temperature (f : LineFeature R) (ctx : Ctx R) (q : Query R) (h : LineHit R) (p : Req) (e : Nat)
    (out : List R) (old M mn mx mn' mx' : R) (op : Op) (hcode : p.code = 1) (hold : idx out e = .ok old)
    (hc : h.cur.temps = [.basic (.uniform mn mx op M)]) (hn : h.next.temps = [.basic (.uniform mn' mx' op M)])
    (hinc : inLineRange f.isFault h.pd mn mx) (hinn : inLineRange f.isFault h.pd mn' mx') :
    linePaintAt f ctx q h p e out =
      .ok (writeBlock e [applyOp op old M + h.pd.fractionOfSection * (applyOp op old M - applyOp op old M)] out) :=
  linePaintAt_temperature f ctx q h p e out old _ _ hcode hold
    (sectionTemp_single_uniform f.isFault ctx q h.pd h.ap h.cur mn mx op M hc hinc old)
    (sectionTemp_single_uniform f.isFault ctx q h.pd h.ap h.next mn' mx' op M hn hinn old)

/-- **C02** the same for a composition listed in both sections' uniform models with the same fraction `M` -/
theorem C02_line_uniform_both_sections_composition (f : LineFeature R) (ctx : Ctx R) (q : Query R) (h : LineHit R) (p : Req) (e : Nat)
    (out : List R) (old M mn mx mn' mx' : R) (op : Op) (comps comps' : List Nat) (fr fr' : List R) (i i' : Nat)
    (hcode : p.code = 2) (hold : idx out e = .ok old)
    (hc : h.cur.comps = [.uniform mn mx op comps fr]) (hn : h.next.comps = [.uniform mn' mx' op comps' fr'])
    (hinc : inLineRange f.isFault h.pd mn mx) (hinn : inLineRange f.isFault h.pd mn' mx')
    (hi : findComposition comps p.n = some i) (hi' : findComposition comps' p.n = some i')
    (hf : fr[i]? = some M) (hf' : fr'[i']? = some M) :
    linePaintAt f ctx q h p e out =
      .ok (writeBlock e [applyOp op old M + h.pd.fractionOfSection * (applyOp op old M - applyOp op old M)] out) :=
  linePaintAt_composition f ctx q h p e out old _ _ hcode hold
    (sectionComp_single_uniform_listed f.isFault h.pd p.n h.cur mn mx op comps fr i M hc hinc hi hf old)
    (sectionComp_single_uniform_listed f.isFault h.pd p.n h.next mn' mx' op comps' fr' i' M hn hinn hi' hf' old)

/-! ## 3. no models of a kind: what is written (every `Scalar R`) -/

/-- **C02** a slab / fault that covers the point and has no models of a kind in either section writes: temperature / composition
`lerp old old sf`; grains: every size `lerp a a sf` and every matrix `selfSlerp a sf`; velocity
`(lerp o0 o0 sf, lerp o1 o1 sf, lerp (o0+2) (o0+2) sf)` — the third velocity entry is NOT read -/
theorem C02_line_no_models_written (f : LineFeature R) (ctx : Ctx R) (q : Query R) (h : LineHit R) (p : Req) (e : Nat) (out : List R) :
    (p.code = 1 → h.cur.temps = [] → h.next.temps = [] → ∀ old, idx out e = .ok old →
      linePaintAt f ctx q h p e out = .ok (writeBlock e [lerp old old h.pd.fractionOfSection] out)) ∧
    (p.code = 2 → h.cur.comps = [] → h.next.comps = [] → ∀ old, idx out e = .ok old →
      linePaintAt f ctx q h p e out = .ok (writeBlock e [lerp old old h.pd.fractionOfSection] out)) ∧
    (p.code = 3 → h.cur.grains = [] → h.next.grains = [] →
      linePaintAt f ctx q h p e out = .ok (writeBlock e
        ({ sizes := (Grains.ofBlock p.k (readBlock e (p.k * 10) out)).sizes.map (fun a => lerp a a h.pd.fractionOfSection),
           mats := (Grains.ofBlock p.k (readBlock e (p.k * 10) out)).mats.map (fun a => selfSlerp a h.pd.fractionOfSection) }
          : Grains R).toBlock out)) ∧
    (p.code = 5 → h.cur.vels = [] → h.next.vels = [] → ∀ o0 o1, idx out e = .ok o0 → idx out (e + 1) = .ok o1 →
      linePaintAt f ctx q h p e out = .ok (writeBlock e [lerp o0 o0 h.pd.fractionOfSection, lerp o1 o1 h.pd.fractionOfSection,
        lerp (o0 + (2 : R)) (o0 + (2 : R)) h.pd.fractionOfSection] out)) := by
  refine ⟨fun hcode hc hn old hold => ?_, fun hcode hc hn old hold => ?_, fun hcode hc hn => ?_, fun hcode hc hn o0 o1 h0 h1 => ?_⟩
  · exact linePaintAt_temperature f ctx q h p e out old old old hcode hold
      (sectionTemp_nil _ _ _ _ _ _ hc old) (sectionTemp_nil _ _ _ _ _ _ hn old)
  · exact linePaintAt_composition f ctx q h p e out old old old hcode hold
      (sectionComp_nil _ _ _ _ hc old) (sectionComp_nil _ _ _ _ hn old)
  · rw [linePaintAt_grains f ctx q h p e out _ _ hcode (sectionGrains_nil _ _ _ _ hc _) (sectionGrains_nil _ _ _ _ hn _)]
    have := blendGrains_self (Grains.ofBlock p.k (readBlock e (p.k * 10) out)) h.pd.fractionOfSection
    unfold blendGrains at this
    rw [this]
  · rw [linePaintAt_velocity f ctx q h p e out o0 o1 hcode h0 h1]
    simp only [sectionVel_nil _ _ _ hc, sectionVel_nil _ _ _ hn]

/-! ## 4. mixed: one section with models, the other without (every `Scalar R`) -/

/-- **C02** the section without models of the kind contributes the OLD value: with an empty list in the next section the result is
`lerp tc old sf`, with an empty list in the current section `lerp old tn sf` (temperature and composition) -/
theorem C02_line_mixed_sections (f : LineFeature R) (ctx : Ctx R) (q : Query R) (h : LineHit R) (p : Req) (e : Nat) (out : List R)
    (old : R) (hold : idx out e = .ok old) :
    (p.code = 1 → h.next.temps = [] → ∀ tc, sectionTemp f.isFault ctx q h.pd h.ap h.cur old = .ok tc →
      linePaintAt f ctx q h p e out = .ok (writeBlock e [lerp tc old h.pd.fractionOfSection] out)) ∧
    (p.code = 1 → h.cur.temps = [] → ∀ tn, sectionTemp f.isFault ctx q h.pd h.ap h.next old = .ok tn →
      linePaintAt f ctx q h p e out = .ok (writeBlock e [lerp old tn h.pd.fractionOfSection] out)) ∧
    (p.code = 2 → h.next.comps = [] → ∀ cc, sectionComp f.isFault h.pd p.n h.cur old = .ok cc →
      linePaintAt f ctx q h p e out = .ok (writeBlock e [lerp cc old h.pd.fractionOfSection] out)) ∧
    (p.code = 2 → h.cur.comps = [] → ∀ cn, sectionComp f.isFault h.pd p.n h.next old = .ok cn →
      linePaintAt f ctx q h p e out = .ok (writeBlock e [lerp old cn h.pd.fractionOfSection] out)) := by
  refine ⟨fun hcode hn tc hc => ?_, fun hcode hc tn hn => ?_, fun hcode hn cc hc => ?_, fun hcode hc cn hn => ?_⟩
  · exact linePaintAt_temperature f ctx q h p e out old tc old hcode hold hc (sectionTemp_nil _ _ _ _ _ _ hn old)
  · exact linePaintAt_temperature f ctx q h p e out old old tn hcode hold (sectionTemp_nil _ _ _ _ _ _ hc old) hn
  · exact linePaintAt_composition f ctx q h p e out old cc old hcode hold hc (sectionComp_nil _ _ _ _ hn old)
  · exact linePaintAt_composition f ctx q h p e out old old cn hcode hold (sectionComp_nil _ _ _ _ hc old) hn

/-! ### from the painting code to the feature -/

section feature
variable {G : Type} [RandGen G R]

/-- **C02** the step in front of the painting code (`LineHit.prepare`: water-content models evaluated, random grains drawn) is the
identity — `linePaintAtM = linePaintAt` — for a temperature, tag or velocity request whatever the models, and for a composition /
grains request when neither section has models of that kind: all statements above then hold for `linePaintAtM` -/
theorem C02_line_paintM_is_paint (f : LineFeature R) (ctx : Ctx R) (q : Query R) (h : LineHit R) (p : Req) (e : Nat) (out : List R)
    (hp : (p.code ≠ 2 ∧ p.code ≠ 3) ∨ (p.code = 2 ∧ h.cur.comps = [] ∧ h.next.comps = []) ∨
          (p.code = 3 ∧ h.cur.grains = [] ∧ h.next.grains = [])) :
    (linePaintAtM f ctx q h p e out : QM G (List R)) = liftE (linePaintAt f ctx q h p e out) := by
  rcases hp with ⟨h2, h3⟩ | ⟨h2, hc, hn⟩ | ⟨h3, hc, hn⟩
  · exact linePaintAtM_of_prepare_id f ctx q h p e out (fun g0 => Segment.prepare_other _ _ _ _ _ g0 h2 h3)
      (fun g0 => Segment.prepare_other _ _ _ _ _ g0 h2 h3)
  · exact linePaintAtM_of_prepare_id f ctx q h p e out (fun g0 => Segment.prepare_no_comps _ _ _ _ _ g0 h2 hc)
      (fun g0 => Segment.prepare_no_comps _ _ _ _ _ g0 h2 hn)
  · exact linePaintAtM_of_prepare_id f ctx q h p e out (fun g0 => Segment.prepare_no_grains _ _ _ _ _ g0 h3 hc)
      (fun g0 => Segment.prepare_no_grains _ _ _ _ _ g0 h3 hn)

/-- **C02** the feature: a slab / fault whose membership test accepts the point with hit `h` paints the requests one after the other
with `linePaintAtM` (the hit — geometry result, the two sections' segments — is computed once and shared by all requests) -/
theorem C02_line_apply_covering (f : LineFeature R) (ctx : Ctx R) (q : Query R) (h : LineHit R) (hcov : f.covers ctx q = .ok (some h))
    (pes : List (Req × Nat)) (out : List R) :
    (f.apply ctx q pes out : QM G (List R)) = pes.foldlM (fun out (pe : Req × Nat) => linePaintAtM f ctx q h pe.1 pe.2 out) out := by
  unfold LineFeature.apply
  rw [hcov]
  funext g
  simp only [QM.bind_apply, liftE_ok]

end feature

end general

/-! ## 5. ordered fields: the blended value itself -/

section field
variable {F : Type} [Field F] [LinearOrder F] [IsStrictOrderedRing F] (T : Transc F)

/-- **C02** `add` / `subtract` / `replace` across the two sections, temperature: both sections carry a single uniform model with the
same operation and value `M` (ranges may differ; the point lies within both): the painted value is `applyOp op old M` whatever the
section fraction — `old + M`, `old − M`, `M`, `M` -/
theorem C02_line_add_offset (f : LineFeature F) (ctx : Ctx F) (q : Query F) (h : LineHit F) (p : Req) (e : Nat)
    (out : List F) (old M mn mx mn' mx' : F) (op : Op) (hcode : p.code = 1) (hold : idx out e = .ok old)
    (hc : h.cur.temps = [.basic (.uniform mn mx op M)]) (hn : h.next.temps = [.basic (.uniform mn' mx' op M)])
    (hinc : @inLineRange F (fieldScalar T) f.isFault h.pd mn mx) (hinn : @inLineRange F (fieldScalar T) f.isFault h.pd mn' mx') :
    @linePaintAt F (fieldScalar T) f ctx q h p e out = .ok (writeBlock e [@applyOp F (fieldScalar T) op old M] out) ∧
    (op = .add → @linePaintAt F (fieldScalar T) f ctx q h p e out = .ok (writeBlock e [old + M] out)) ∧
    (op = .subtract → @linePaintAt F (fieldScalar T) f ctx q h p e out = .ok (writeBlock e [old - M] out)) ∧
    (op = .replace ∨ op = .replaceDefinedOnly → @linePaintAt F (fieldScalar T) f ctx q h p e out = .ok (writeBlock e [M] out)) := by
  have key : @linePaintAt F (fieldScalar T) f ctx q h p e out = .ok (writeBlock e [@applyOp F (fieldScalar T) op old M] out) := by
    rw [@C02_line_uniform_both_sections_temperature F (fieldScalar T) f ctx q h p e out old M mn mx mn' mx' op hcode hold hc hn hinc hinn]
    congr 3
    ring
  refine ⟨key, fun ho => ?_, fun ho => ?_, fun ho => ?_⟩
  · rw [key, ho]; rfl
  · rw [key, ho]; rfl
  · rcases ho with ho | ho <;> (rw [key, ho]; rfl)

/-- **C02** the same for a composition listed, with fraction `M`, in the uniform model of both sections -/
theorem C02_line_add_offset_composition (f : LineFeature F) (ctx : Ctx F) (q : Query F) (h : LineHit F) (p : Req) (e : Nat)
    (out : List F) (old M mn mx mn' mx' : F) (op : Op) (comps comps' : List Nat) (fr fr' : List F) (i i' : Nat)
    (hcode : p.code = 2) (hold : idx out e = .ok old)
    (hc : h.cur.comps = [.uniform mn mx op comps fr]) (hn : h.next.comps = [.uniform mn' mx' op comps' fr'])
    (hinc : @inLineRange F (fieldScalar T) f.isFault h.pd mn mx) (hinn : @inLineRange F (fieldScalar T) f.isFault h.pd mn' mx')
    (hi : findComposition comps p.n = some i) (hi' : findComposition comps' p.n = some i')
    (hf : fr[i]? = some M) (hf' : fr'[i']? = some M) :
    @linePaintAt F (fieldScalar T) f ctx q h p e out = .ok (writeBlock e [@applyOp F (fieldScalar T) op old M] out) ∧
    (op = .add → @linePaintAt F (fieldScalar T) f ctx q h p e out = .ok (writeBlock e [old + M] out)) ∧
    (op = .subtract → @linePaintAt F (fieldScalar T) f ctx q h p e out = .ok (writeBlock e [old - M] out)) ∧
    (op = .replace ∨ op = .replaceDefinedOnly → @linePaintAt F (fieldScalar T) f ctx q h p e out = .ok (writeBlock e [M] out)) := by
  have key : @linePaintAt F (fieldScalar T) f ctx q h p e out = .ok (writeBlock e [@applyOp F (fieldScalar T) op old M] out) := by
    rw [@C02_line_uniform_both_sections_composition F (fieldScalar T) f ctx q h p e out old M mn mx mn' mx' op comps comps' fr fr' i i'
      hcode hold hc hn hinc hinn hi hi' hf hf']
    congr 3
    ring
  refine ⟨key, fun ho => ?_, fun ho => ?_, fun ho => ?_⟩
  · rw [key, ho]; rfl
  · rw [key, ho]; rfl
  · rcases ho with ho | ho <;> (rw [key, ho]; rfl)

/-- **C02** a composition that neither section's uniform model lists: `replace` clears it, `replace defined only` (and `add`,
`subtract`) leave the output as it was -/
theorem C02_line_unlisted_composition (f : LineFeature F) (ctx : Ctx F) (q : Query F) (h : LineHit F) (p : Req) (e : Nat)
    (out : List F) (old mn mx mn' mx' : F) (op : Op) (comps comps' : List Nat) (fr fr' : List F)
    (hcode : p.code = 2) (hold : idx out e = .ok old)
    (hc : h.cur.comps = [.uniform mn mx op comps fr]) (hn : h.next.comps = [.uniform mn' mx' op comps' fr'])
    (hinc : @inLineRange F (fieldScalar T) f.isFault h.pd mn mx) (hinn : @inLineRange F (fieldScalar T) f.isFault h.pd mn' mx')
    (hi : findComposition comps p.n = none) (hi' : findComposition comps' p.n = none) :
    (op = .replace → @linePaintAt F (fieldScalar T) f ctx q h p e out = .ok (writeBlock e [0] out)) ∧
    (op ≠ .replace → @linePaintAt F (fieldScalar T) f ctx q h p e out = .ok out) := by
  have key := @linePaintAt_composition F (fieldScalar T) f ctx q h p e out old _ _ hcode hold
    (@sectionComp_single_uniform_unlisted F (fieldScalar T) f.isFault h.pd p.n h.cur mn mx op comps fr hc hinc hi old)
    (@sectionComp_single_uniform_unlisted F (fieldScalar T) f.isFault h.pd p.n h.next mn' mx' op comps' fr' hn hinn hi' old)
  constructor
  · intro ho
    rw [key, if_pos ho, lerp_same T, lit_0_0 T]
  · intro ho
    rw [key, if_neg ho, lerp_same T, @writeBlock_self1 F (fieldScalar T) e out old hold]

/-- **C02** no models of a kind in either section, ordered field: temperature and composition — the output is UNCHANGED; grains — the
sizes are unchanged (the matrices become `selfSlerp a sf`, see `C02_line_no_grains_models_zero_matrix`) -/
theorem C02_line_no_models_identity (f : LineFeature F) (ctx : Ctx F) (q : Query F) (h : LineHit F) (p : Req) (e : Nat) (out : List F) :
    (p.code = 1 → h.cur.temps = [] → h.next.temps = [] → ∀ old, idx out e = .ok old →
      @linePaintAt F (fieldScalar T) f ctx q h p e out = .ok out) ∧
    (p.code = 2 → h.cur.comps = [] → h.next.comps = [] → ∀ old, idx out e = .ok old →
      @linePaintAt F (fieldScalar T) f ctx q h p e out = .ok out) ∧
    (p.code = 3 → h.cur.grains = [] → h.next.grains = [] →
      @linePaintAt F (fieldScalar T) f ctx q h p e out = .ok (writeBlock e
        (@Grains.toBlock F (fieldScalar T)
          { sizes := (@Grains.ofBlock F (fieldScalar T) p.k (readBlock e (p.k * 10) out)).sizes,
            mats := (@Grains.ofBlock F (fieldScalar T) p.k (readBlock e (p.k * 10) out)).mats.map
              (fun a => @selfSlerp F (fieldScalar T) a h.pd.fractionOfSection) }) out)) := by
  obtain ⟨ht, hcm, hg, -⟩ := @C02_line_no_models_written F (fieldScalar T) f ctx q h p e out
  refine ⟨fun hcode hc hn old hold => ?_, fun hcode hc hn old hold => ?_, fun hcode hc hn => ?_⟩
  · rw [ht hcode hc hn old hold, lerp_same T, @writeBlock_self1 F (fieldScalar T) e out old hold]
  · rw [hcm hcode hc hn old hold, lerp_same T, @writeBlock_self1 F (fieldScalar T) e out old hold]
  · rw [hg hcode hc hn, map_lerp_self T]

/-- **C02** no velocity models in either section, ordered field: the three entries become `(o0, o1, o0 + 2)` -/
theorem C02_line_no_velocity_models_written_field (f : LineFeature F) (ctx : Ctx F) (q : Query F) (h : LineHit F) (p : Req) (e : Nat)
    (out : List F) (o0 o1 : F) (hcode : p.code = 5) (hc : h.cur.vels = []) (hn : h.next.vels = [])
    (h0 : idx out e = .ok o0) (h1 : idx out (e + 1) = .ok o1) :
    @linePaintAt F (fieldScalar T) f ctx q h p e out = .ok (writeBlock e [o0, o1, o0 + 2] out) := by
  obtain ⟨-, -, -, hv⟩ := @C02_line_no_models_written F (fieldScalar T) f ctx q h p e out
  rw [hv hcode hc hn o0 o1 h0 h1, lerp_same T, lerp_same T, lerp_same T, lit_2 T]

/-- **C02** velocity block at offset 0: a slab / fault without velocity models leaves `[o0, o1, o2]` unchanged iff `o2 = o0 + 2` -/
theorem C02_line_no_velocity_models_identity_iff (f : LineFeature F) (ctx : Ctx F) (q : Query F) (h : LineHit F) (p : Req)
    (o0 o1 o2 : F) (hcode : p.code = 5) (hc : h.cur.vels = []) (hn : h.next.vels = []) :
    @linePaintAt F (fieldScalar T) f ctx q h p 0 [o0, o1, o2] = .ok [o0, o1, o0 + 2] ∧
    (@linePaintAt F (fieldScalar T) f ctx q h p 0 [o0, o1, o2] = .ok [o0, o1, o2] ↔ o2 = o0 + 2) := by
  have key : @linePaintAt F (fieldScalar T) f ctx q h p 0 [o0, o1, o2] = .ok [o0, o1, o0 + 2] := by
    rw [C02_line_no_velocity_models_written_field T f ctx q h p 0 [o0, o1, o2] o0 o1 hcode hc hn rfl rfl]
    rfl
  refine ⟨key, ?_⟩
  rw [key]
  constructor
  · intro hh
    have := Except.ok.inj hh
    simp only [List.cons.injEq, and_true, true_and] at this
    exact this.symm
  · intro hh; rw [hh]

/-- the clause of C02 for velocity inside slabs and faults, at full strength: without velocity models the block is left as it was -/
def C02_line_no_velocity_models_identity_full (F : Type) [Field F] [LinearOrder F] [IsStrictOrderedRing F] (T : Transc F) : Prop :=
  ∀ (f : LineFeature F) (ctx : Ctx F) (q : Query F) (h : LineHit F) (p : Req) (blk : List F),
    p.code = 5 → blk.length = 3 → h.cur.vels = [] → h.next.vels = [] →
    @linePaintAt F (fieldScalar T) f ctx q h p 0 blk = .ok blk

/-- the clause for grains: without grains models the block is left as it was -/
def C02_line_no_grains_models_identity_full (F : Type) [Field F] [LinearOrder F] [IsStrictOrderedRing F] (T : Transc F) : Prop :=
  ∀ (f : LineFeature F) (ctx : Ctx F) (q : Query F) (h : LineHit F) (p : Req) (blk : List F),
    p.code = 3 → blk.length = p.k * 10 → h.cur.grains = [] → h.next.grains = [] →
    @linePaintAt F (fieldScalar T) f ctx q h p 0 blk = .ok blk

/-- **C02** FINDING: the velocity clause is false in every ordered field: the background block `[0, 0, 0]` becomes `[0, 0, 2]` -/
theorem C02_line_no_velocity_models_identity_false (f : LineFeature F) (ctx : Ctx F) (q : Query F) (h : LineHit F)
    (hc : h.cur.vels = []) (hn : h.next.vels = []) : ¬ C02_line_no_velocity_models_identity_full F T := by
  intro hfull
  have h1 := hfull f ctx q h Req.velocity [0, 0, 0] rfl rfl hc hn
  have h2 := ((C02_line_no_velocity_models_identity_iff T f ctx q h Req.velocity 0 0 0 rfl hc hn).2).mp h1
  norm_num at h2

/-- **C02** FINDING: one grain, background block: the all-zero matrix comes back as the identity matrix (size 0 stays 0) -/
theorem C02_line_no_grains_models_zero_matrix (f : LineFeature F) (ctx : Ctx F) (q : Query F) (h : LineHit F) (n : Nat)
    (hc : h.cur.grains = []) (hn : h.next.grains = []) :
    @linePaintAt F (fieldScalar T) f ctx q h (Req.grains n 1) 0 [0, 0, 0, 0, 0, 0, 0, 0, 0, 0] =
      .ok [0, 1, 0, 0, 0, 1, 0, 0, 0, 1] := by
  obtain ⟨-, -, hg⟩ := C02_line_no_models_identity T f ctx q h (Req.grains n 1) 0 [0, 0, 0, 0, 0, 0, 0, 0, 0, 0]
  rw [hg rfl hc hn]
  have hblk : @Grains.ofBlock F (fieldScalar T) (Req.grains n 1).k (readBlock 0 ((Req.grains n 1).k * 10) [0, 0, 0, 0, 0, 0, 0, 0, 0, 0]) =
      ⟨[0], [⟨0, 0, 0, 0, 0, 0, 0, 0, 0⟩]⟩ := rfl
  rw [hblk]
  simp only [List.map_cons, List.map_nil, selfSlerp_zero T]
  rfl

/-- **C02** FINDING: the grains clause is false in every ordered field -/
theorem C02_line_no_grains_models_identity_false (f : LineFeature F) (ctx : Ctx F) (q : Query F) (h : LineHit F)
    (hc : h.cur.grains = []) (hn : h.next.grains = []) : ¬ C02_line_no_grains_models_identity_full F T := by
  intro hfull
  have h1 := hfull f ctx q h (Req.grains 0 1) [0, 0, 0, 0, 0, 0, 0, 0, 0, 0] rfl rfl hc hn
  rw [C02_line_no_grains_models_zero_matrix T f ctx q h 0 hc hn] at h1
  have := Except.ok.inj h1
  simp at this

/-- **C02** mixed sections, ordered field: a single uniform `add M` temperature model in ONE section only offsets the old value by the
share of that section: `old + (1 − sf)·M` (current section only), `old + sf·M` (next section only) -/
theorem C02_line_mixed_add_offset (f : LineFeature F) (ctx : Ctx F) (q : Query F) (h : LineHit F) (p : Req) (e : Nat)
    (out : List F) (old M mn mx : F) (hcode : p.code = 1) (hold : idx out e = .ok old) :
    (h.cur.temps = [.basic (.uniform mn mx .add M)] → h.next.temps = [] → @inLineRange F (fieldScalar T) f.isFault h.pd mn mx →
      @linePaintAt F (fieldScalar T) f ctx q h p e out = .ok (writeBlock e [old + (1 - h.pd.fractionOfSection) * M] out)) ∧
    (h.cur.temps = [] → h.next.temps = [.basic (.uniform mn mx .add M)] → @inLineRange F (fieldScalar T) f.isFault h.pd mn mx →
      @linePaintAt F (fieldScalar T) f ctx q h p e out = .ok (writeBlock e [old + h.pd.fractionOfSection * M] out)) := by
  obtain ⟨m1, m2, -, -⟩ := @C02_line_mixed_sections F (fieldScalar T) f ctx q h p e out old hold
  constructor
  · intro hc hn hin
    rw [m1 hcode hn _ (@sectionTemp_single_uniform F (fieldScalar T) f.isFault ctx q h.pd h.ap h.cur mn mx .add M hc hin old)]
    congr 3
    show old + M + h.pd.fractionOfSection * (old - (old + M)) = _
    ring
  · intro hc hn hin
    rw [m2 hcode hc _ (@sectionTemp_single_uniform F (fieldScalar T) f.isFault ctx q h.pd h.ap h.next mn mx .add M hn hin old)]
    congr 3
    show old + h.pd.fractionOfSection * (old + M - old) = _
    ring

/-- **C02** why "the same `old`" matters: had the second loop started from the first loop's result (a copy/paste slip between the two
sibling loops), an `add M` model in both sections would paint `old + M + sf·M` instead of `old + M` -/
theorem C02_line_same_start_matters (old M sf : F) (hM : M ≠ 0) (hsf : sf ≠ 0) :
    @lerp F (fieldScalar T) (@applyOp F (fieldScalar T) .add old M) (@applyOp F (fieldScalar T) .add old M) sf = old + M ∧
    @lerp F (fieldScalar T) (@applyOp F (fieldScalar T) .add old M)
      (@applyOp F (fieldScalar T) .add (@applyOp F (fieldScalar T) .add old M) M) sf = old + M + sf * M ∧
    old + M + sf * M ≠ old + M := by
  refine ⟨lerp_same T _ _, ?_, ?_⟩
  · show old + M + sf * (old + M + M - (old + M)) = _
    ring
  · intro hh
    have : sf * M = 0 := by linarith
    rcases mul_eq_zero.mp this with h | h
    · exact hsf h
    · exact hM h

end field

/-! ## 6. non-vacuity and the world-level witnesses -/

namespace C02LinesEx

/-- a geometry result on the plane, half-way between the two sections -/
def pd : PlaneDist ℚ :=
  { distanceFromPlane := 0, distanceAlongPlane := 0, fractionOfSection := 1 / 2, fractionOfSegment := 0, sectionIdx := 0, segment := 0,
    averageAngle := 0, depthReferenceSurface := 0, closestTrenchPoint := ⟨0, 0, 0⟩ }

/-- a segment with one uniform temperature model and one uniform composition model (composition 0), both with operation `op`, value `M` -/
def opSeg (op : Op) (M : ℚ) : Segment ℚ :=
  { exSeg with temps := [.basic (.uniform (-1) 1 op M)], comps := [.uniform (-1) 1 op [0] [M]] }

def hitBoth (op : Op) : LineHit ℚ := ⟨pd, opSeg op 5, opSeg op 5, ⟨100, 100⟩⟩
def hitNone : LineHit ℚ := ⟨pd, exSeg, exSeg, ⟨100, 100⟩⟩
def hitCurOnly : LineHit ℚ := ⟨pd, opSeg .add 5, exSeg, ⟨100, 100⟩⟩

theorem inRange (isFault : Bool) : @inLineRange ℚ (fieldScalar toyTransc) isFault pd (-1) 1 := by
  unfold inLineRange lineDist
  cases isFault
  · show ((0 : ℚ) ≤ 1 ∧ (0 : ℚ) ≥ -1); norm_num
  · simp only [if_true]
    show (@Scalar.fabs ℚ (fieldScalar toyTransc) 0 ≤ 1 ∧ @Scalar.fabs ℚ (fieldScalar toyTransc) 0 ≥ -1)
    have : @Scalar.fabs ℚ (fieldScalar toyTransc) 0 = 0 := by
      unfold Scalar.fabs; split <;> simp
    rw [this]; norm_num

/-- `add 5` in both sections: `100 ↦ 105` (not `107.5`) whatever the fraction -/
example : @linePaintAt ℚ (fieldScalar toyTransc) (exLine false) exCtx exQ0 (hitBoth .add) Req.temperature 0 [100] = .ok [105] := by
  have := (C02_line_add_offset toyTransc (exLine false) exCtx exQ0 (hitBoth .add) Req.temperature 0 [100] 100 5 (-1) 1 (-1) 1 .add
    rfl rfl rfl rfl (inRange false) (inRange false)).2.1 rfl
  rw [this]; norm_num [writeBlock]
/-- `subtract 5` in both sections of a fault: `100 ↦ 95` -/
example : @linePaintAt ℚ (fieldScalar toyTransc) (exLine true) exCtx exQ0 (hitBoth .subtract) Req.temperature 0 [100] = .ok [95] := by
  have := (C02_line_add_offset toyTransc (exLine true) exCtx exQ0 (hitBoth .subtract) Req.temperature 0 [100] 100 5 (-1) 1 (-1) 1 .subtract
    rfl rfl rfl rfl (inRange true) (inRange true)).2.2.1 rfl
  rw [this]; norm_num [writeBlock]
/-- composition 0 with `add 5`: `1 ↦ 6` -/
example : @linePaintAt ℚ (fieldScalar toyTransc) (exLine false) exCtx exQ0 (hitBoth .add) (Req.composition 0) 0 [1] = .ok [6] := by
  have := (C02_line_add_offset_composition toyTransc (exLine false) exCtx exQ0 (hitBoth .add) (Req.composition 0) 0 [1] 1 5 (-1) 1 (-1) 1
    .add [0] [0] [5] [5] 0 0 rfl rfl rfl rfl (inRange false) (inRange false) rfl rfl rfl rfl).2.1 rfl
  rw [this]; norm_num [writeBlock]
/-- composition 1 is not listed: `replace defined only` leaves it, `replace` clears it -/
example : @linePaintAt ℚ (fieldScalar toyTransc) (exLine false) exCtx exQ0 (hitBoth .replaceDefinedOnly) (Req.composition 1) 0 [7] = .ok [7] :=
  (C02_line_unlisted_composition toyTransc (exLine false) exCtx exQ0 (hitBoth .replaceDefinedOnly) (Req.composition 1) 0 [7] 7 (-1) 1 (-1) 1
    .replaceDefinedOnly [0] [0] [5] [5] rfl rfl rfl rfl (inRange false) (inRange false) rfl rfl).2 (by decide)
example : @linePaintAt ℚ (fieldScalar toyTransc) (exLine false) exCtx exQ0 (hitBoth .replace) (Req.composition 1) 0 [7] = .ok [0] :=
  (C02_line_unlisted_composition toyTransc (exLine false) exCtx exQ0 (hitBoth .replace) (Req.composition 1) 0 [7] 7 (-1) 1 (-1) 1
    .replace [0] [0] [5] [5] rfl rfl rfl rfl (inRange false) (inRange false) rfl rfl).1 rfl
/-- no temperature models: `[100]` stays -/
example : @linePaintAt ℚ (fieldScalar toyTransc) (exLine false) exCtx exQ0 hitNone Req.temperature 0 [100] = .ok [100] :=
  (C02_line_no_models_identity toyTransc (exLine false) exCtx exQ0 hitNone Req.temperature 0 [100]).1 rfl rfl rfl 100 rfl
/-- no velocity models: `[3, 4, 5] ↦ [3, 4, 3 + 2]` -/
example : @linePaintAt ℚ (fieldScalar toyTransc) (exLine false) exCtx exQ0 hitNone Req.velocity 0 [3, 4, 5] = .ok [3, 4, 3 + 2] :=
  (C02_line_no_velocity_models_identity_iff toyTransc (exLine false) exCtx exQ0 hitNone Req.velocity 3 4 5 rfl rfl rfl).1
/-- the two negations have instances -/
example : ¬ C02_line_no_velocity_models_identity_full ℚ toyTransc :=
  C02_line_no_velocity_models_identity_false toyTransc (exLine false) exCtx exQ0 hitNone rfl rfl
example : ¬ C02_line_no_grains_models_identity_full ℚ toyTransc :=
  C02_line_no_grains_models_identity_false toyTransc (exLine false) exCtx exQ0 hitNone rfl rfl
/-- `add 5` in the current section only, `sf = 1/2`: `100 ↦ 100 + (1 − 1/2)·5` -/
example : @linePaintAt ℚ (fieldScalar toyTransc) (exLine false) exCtx exQ0 hitCurOnly Req.temperature 0 [100] = .ok [100 + (1 - 1 / 2) * 5] :=
  (C02_line_mixed_add_offset toyTransc (exLine false) exCtx exQ0 hitCurOnly Req.temperature 0 [100] 100 5 (-1) 1 rfl rfl).1 rfl rfl (inRange false)
example : (5 : ℚ) ≠ 0 ∧ (1 / 2 : ℚ) ≠ 0 := by norm_num

/-- the hypotheses of `C02_line_paintM_is_paint` and `C02_line_apply_covering` have instances -/
example : (@linePaintAtM ℚ (fieldScalar toyTransc) Unit ⟨fun _ => (1 / 2, ())⟩ (exLine false) exCtx exQ0 hitNone Req.velocity 0 [3, 4, 5]) =
    @liftE Unit _ (@linePaintAt ℚ (fieldScalar toyTransc) (exLine false) exCtx exQ0 hitNone Req.velocity 0 [3, 4, 5]) :=
  @C02_line_paintM_is_paint ℚ (fieldScalar toyTransc) Unit ⟨fun _ => (1 / 2, ())⟩ (exLine false) exCtx exQ0 hitNone Req.velocity 0 [3, 4, 5]
    (.inl ⟨by decide, by decide⟩)
example : ∃ h, @LineFeature.covers ℚ (fieldScalar toyTransc) (exLine false) exCtx exQ0 = .ok (some h) := by
  rw [ratToy_eq]
  obtain ⟨h, hh, _⟩ := ex_slab_member
  exact ⟨h, hh⟩

/-! ### a whole world: Cartesian, one slab with two coordinates and two sections, NO models of any kind -/

/-- the world: `exCtx` (Cartesian), the slab `exLine false` of Proofs/LineInstances.lean — trench `(0,0) → (0,3)`, two equal sections of one
segment (length 100, thickness 100, dip 45°), no temperature, composition, grains or velocity models anywhere -/
def world : World ℚ := { ctx := exCtx, cross := none, features := [.line (exLine false)] }

@[reducible] def unitGen : RandGen Unit ℚ := ⟨fun _ => (1 / 2, ())⟩

theorem ok_of_check (x : Except Err (List ℚ × Unit)) (v : List ℚ)
    (h : (match x with | .ok (l, _) => decide (l = v) | _ => false) = true) : x = .ok (v, ()) := by
  match x, h with
  | .ok (l, ()), h => simp only [decide_eq_true_eq] at h; rw [h]

/-- **C02** FINDING, world level: velocity asked on the trench of a slab without velocity models — `(0, 0, 2)`; the background is `(0, 0, 0)` -/
theorem C02_line_world_velocity_witness :
    @World.props3 ℚ (fieldScalar toyTransc) Unit unitGen world ⟨0, 3 / 2, 100⟩ 0 [Req.velocity] () = .ok ([0, 0, 2], ()) := by
  rw [ratToy_eq]
  apply ok_of_check
  decide +kernel

/-- **C02** FINDING, world level: one grain of composition 0 asked at the same point of the slab without grains models — size 0 and the
IDENTITY matrix; the background is ten zeros -/
theorem C02_line_world_grains_witness :
    @World.props3 ℚ (fieldScalar toyTransc) Unit unitGen world ⟨0, 3 / 2, 100⟩ 0 [Req.grains 0 1] () =
      .ok ([0, 1, 0, 0, 0, 1, 0, 0, 0, 1], ()) := by
  rw [ratToy_eq]
  apply ok_of_check
  decide +kernel

/-- the same world: temperature and composition ARE left alone (background adiabat with `alpha = 0`: 1600; composition 0) -/
theorem C02_line_world_temperature_composition_unchanged :
    @World.props3 ℚ (fieldScalar toyTransc) Unit unitGen world ⟨0, 3 / 2, 100⟩ 0 [Req.temperature, Req.composition 0] () =
      .ok ([1600, 0], ()) := by
  rw [ratToy_eq]
  apply ok_of_check
  decide +kernel

end C02LinesEx

end Gwb
