/-
C17 — gwb-dat prints exactly the library's values under its column headers.

Objects (Model/Apps/Dat.lean, a transliteration of source/gwb-dat/main.cc:160-340; natural numbers and lists only):
`datProps cfg` the property list handed to `World::properties`; `datHeader cfg` the names on the header line AS WRITTEN;
`datRowSlots cfg` for every printed column of a data row the index `s` of `output[s]` AS WRITTEN (`none` = echoed input token);
`slotNames cfg` the LIBRARY's name of every slot of `output` for `datProps cfg`; `Aligned nIn header slots names`: as many names as
columns, the first `nIn` columns are the echoed inputs named `input 0 …`, and every column printing `output[s]` stands under
the library's name of slot `s`.  All statements are for EVERY configuration (no bound on compositions / grains).

Theorems
* `C17_slotNames_layout`     `slotNames` is tied to Model/Layout.lean: it has `outputSize (datProps cfg)` entries and the names of
                             request `i` fill exactly the block `[entries[i], entries[i] + size_i)`.
* `C17_3d_aligned_without_g` dim 3, every cfg: with the name `g` removed from the header every value is printed under the
                             right name (T, vx vy vz, c_i, gs/gm of every grain — including the interleaving of sizes and
                             matrices —, tag).
* `C17_3d_header_extra_column`  dim 3, every cfg, as written: the header has one name more than a row has columns
                             (`# x y z d g T …` — no row prints a `g`), so from column 5 on every value stands one
                             column to the left of its name.
* `C17_aligned_full` (def) / `C17_aligned_full_false`  the full property "for all cfg with dim ∈ {2,3} header and rows are
                             aligned as written" is FALSE; witness: the default configuration (dim 3).  It is also false
                             restricted to dim 2 (`C17_aligned_2d_full_false`).
* `C17_2d_aligned_no_compositions`  dim 2, no compositions, no grain compositions: aligned as written.
* `C17_2d_misaligned_witness`  dim 2, compositions ≥ 1 (in particular = 1): the column named `c0` prints `output[3]`, which the
                             library names `v 2` (the third, zero, velocity entry); hence not aligned.
* `C17_2d_aligned_iff`       dim 2: aligned ⇔ compositions = 0 ∧ (grain compositions = 0 ∨ number of grains = 0).
* `C17_2d_off_by_one`        dim 2, every cfg: each composition / grain column prints the slot BEFORE the one its header names
                             (the row reads from `3 + …` where the library layout needs `4 + …`); `T vx vz` and `tag` are right.
                             Consequence visible in the output: `c0` shows 0, `c_{i+1}` shows composition i, `gs` of grain 0
                             shows the last composition, the last matrix entry `gm…[2:2]` of the last grain is never printed.
* `C17_options_*`            the option scan: one iteration of the five `if`s equals one edit `lineEdit line` (`_step_eq`); lines that are not one of the five option lines never change the configuration
                             (`_nonoption_ignored`, `_filter`); an option line can be moved across non-option lines and
                             non-option lines can be inserted anywhere (`_position_independent`, `_insert`); option lines for
                             different variables commute (`_swap`); every numeric variable ends with the value of the LAST
                             line that sets it, else the default 3 / 0 / 0 / 0 (`_last_wins_*`); `convert spherical` is true
                             iff some line sets it (`_spherical`); data rows are never option lines (`_data_rows`).
* `C17_bare_hash_out_of_range`  a line consisting of `#` only (or `# dim =`) makes the C++ read `line_i[1]` (`line_i[3]`)
                             past the end of the token vector: undefined behaviour.  The model reads `line[i]?`;
                             `datLineDefined` is false for exactly such lines and true for all data rows.

NOT proved / outside the model
* the numerical VALUES: that `output[s]` is what the library computes for slot `s` is the layout statement of C01/C02
  (`World.properties` writes request `i` at `entries[i]`); here only names and positions are compared.  The name `v 0 / v 1 / v 2`
  of the 2-D velocity block stands for `(v_in_section, v_z, 0)`; that the header's `vx vz` are these two is a convention.
* text formatting (`operator<<` precision 6 by default, the double blank before the 2-D tag) and `string_to_unsigned_int` beyond
  plain digit strings (`parseUInt?`): the option theorems hold for ANY number parser since they only use the fold structure.
* 3-D completeness "every slot is printed exactly once" is not stated (it is visible in `datRowSlots`; the driver can check it).
* other values of dim print an error message and no table (`datHeader = datRowSlots = []`).
-/
import GwbVerif.Proofs.Dat
namespace Gwb

/-! ### 1. slot names versus the library layout -/

theorem C17_slotNames_layout (cfg : DatCfg) :
    (slotNames cfg).length = outputSize (datProps cfg) ∧
    ∀ (i : Nat) (h : i < (datProps cfg).length),
      ((slotNames cfg).drop ((entries (datProps cfg))[i]'(by unfold entries; rw [entriesFrom_length]; exact h))).take
          ((datProps cfg)[i]'h).size
        = reqNames ((datProps cfg)[i]'h) :=
  ⟨propNames_length _, fun i h => propNames_block (datProps cfg) i h⟩

/-- the same for an arbitrary property list -/
theorem C17_propNames_layout (ps : List Req) :
    (propNames ps).length = outputSize ps ∧
    ∀ (i : Nat) (h : i < ps.length),
      ((propNames ps).drop ((entries ps)[i]'(by unfold entries; rw [entriesFrom_length]; exact h))).take (ps[i]'h).size
        = reqNames (ps[i]'h) :=
  ⟨propNames_length _, fun i h => propNames_block ps i h⟩

/-- explicit size: `output.size() = 4 + compositions + grain_compositions * n_grains * 10 + 1` -/
theorem C17_output_size (cfg : DatCfg) :
    outputSize (datProps cfg) = 4 + cfg.compositions + cfg.grainCompositions * (cfg.nGrains * 10) + 1 :=
  outputSize_datProps cfg

example : slotNames { compositions := 1, grainCompositions := 1, nGrains := 1 }
    = [.T, .v 0, .v 1, .v 2, .c 0, .gs 0 0, .gm 0 0 0 0, .gm 0 0 0 1, .gm 0 0 0 2, .gm 0 0 1 0, .gm 0 0 1 1, .gm 0 0 1 2,
       .gm 0 0 2 0, .gm 0 0 2 1, .gm 0 0 2 2, .tag] := by decide

/-! ### 2./3. the 3-D case -/

theorem C17_3d_aligned_without_g (cfg : DatCfg) (h : cfg.dim = 3) :
    Aligned 4 (datHeaderWithoutG cfg) (datRowSlots cfg) (slotNames cfg) :=
  aligned_3d_without_g cfg h

theorem C17_3d_header_extra_column (cfg : DatCfg) (h : cfg.dim = 3) :
    (datHeader cfg).length = (datRowSlots cfg).length + 1 ∧ (datHeader cfg)[4]? = some .g := by
  refine ⟨datHeader_extra_3d cfg h, ?_⟩
  unfold datHeader
  rw [if_neg (by omega), if_pos h]
  rfl

/-- independent check of `C17_3d_aligned_without_g` on a concrete configuration through the executable `alignedB` -/
example : Aligned 4 (datHeaderWithoutG { dim := 3, compositions := 2, grainCompositions := 2, nGrains := 2 })
    (datRowSlots { dim := 3, compositions := 2, grainCompositions := 2, nGrains := 2 })
    (slotNames { dim := 3, compositions := 2, grainCompositions := 2, nGrains := 2 }) :=
  (alignedB_iff _ _ _ _).mp (by decide)

/-- The full property as one would like to state it: for every configuration gwb-dat accepts, header and rows are aligned
as written.  FALSE, see `C17_aligned_full_false`. -/
def C17_aligned_full : Prop :=
  ∀ cfg : DatCfg, cfg.dim = 2 ∨ cfg.dim = 3 →
    Aligned (cfg.dim + 1) (datHeader cfg) (datRowSlots cfg) (slotNames cfg)

theorem C17_aligned_full_false : ¬ C17_aligned_full := by
  intro hfull
  have h := (hfull {} (Or.inr rfl)).1
  have h' := (C17_3d_header_extra_column {} rfl).1
  omega

/-- the property restricted to the 2-D case is false as well -/
def C17_aligned_2d_full : Prop :=
  ∀ cfg : DatCfg, cfg.dim = 2 → Aligned 3 (datHeader cfg) (datRowSlots cfg) (slotNames cfg)

/-! ### 4. the 2-D case -/

theorem C17_2d_aligned_no_compositions (cfg : DatCfg) (h : cfg.dim = 2) (hc : cfg.compositions = 0)
    (hg : cfg.grainCompositions = 0) : Aligned 3 (datHeader cfg) (datRowSlots cfg) (slotNames cfg) :=
  aligned_2d_of cfg h hc (Or.inl hg)

example : Aligned 3 (datHeader { dim := 2 }) (datRowSlots { dim := 2 }) (slotNames { dim := 2 }) :=
  C17_2d_aligned_no_compositions _ rfl rfl rfl

theorem C17_2d_misaligned_witness (cfg : DatCfg) (h : cfg.dim = 2) (hc : 1 ≤ cfg.compositions) :
    ((datHeader cfg)[6]? = some (.c 0) ∧ (datRowSlots cfg)[6]? = some (some 3) ∧ (slotNames cfg)[3]? = some (.v 2)) ∧
    ¬ Aligned 3 (datHeader cfg) (datRowSlots cfg) (slotNames cfg) := by
  have w := misaligned_2d_comp cfg h (by omega)
  refine ⟨w, ?_⟩
  obtain ⟨a, b, c⟩ := w
  exact not_aligned_of_witness _ _ _ _ 6 3 _ _ a b c (by intro e; cases e)

/-- the instance `compositions = 1` of the task statement -/
example (cfg : DatCfg) (h : cfg.dim = 2) (hc : cfg.compositions = 1) :
    (datHeader cfg)[6]? = some (.c 0) ∧ (datRowSlots cfg)[6]? = some (some 3) ∧ (slotNames cfg)[3]? = some (.v 2) :=
  (C17_2d_misaligned_witness cfg h (by omega)).1

theorem C17_aligned_2d_full_false : ¬ C17_aligned_2d_full := fun hfull =>
  (C17_2d_misaligned_witness { dim := 2, compositions := 1 } rfl (Nat.le_refl 1)).2
    (hfull { dim := 2, compositions := 1 } rfl)

theorem C17_2d_aligned_iff (cfg : DatCfg) (h : cfg.dim = 2) :
    Aligned 3 (datHeader cfg) (datRowSlots cfg) (slotNames cfg)
      ↔ cfg.compositions = 0 ∧ (cfg.grainCompositions = 0 ∨ cfg.nGrains = 0) :=
  aligned_2d_iff cfg h

/-- dim 2, every configuration: the three input columns, `T vx vz` and `tag` are right, and every column in between
(columns 6 … length-2) that prints `output[s]` stands under the library's name of slot `s + 1`. -/
theorem C17_2d_off_by_one (cfg : DatCfg) (h : cfg.dim = 2) :
    (datHeader cfg).length = (datRowSlots cfg).length ∧
    (∀ j : Nat, j < 3 → (datRowSlots cfg)[j]? = some none ∧ (datHeader cfg)[j]? = some (.input j)) ∧
    ((datHeader cfg)[3]? = some .T ∧ (datRowSlots cfg)[3]? = some (some 0) ∧ (slotNames cfg)[0]? = some .T) ∧
    ((datHeader cfg)[4]? = some (.v 0) ∧ (datRowSlots cfg)[4]? = some (some 1) ∧ (slotNames cfg)[1]? = some (.v 0)) ∧
    ((datHeader cfg)[5]? = some (.v 1) ∧ (datRowSlots cfg)[5]? = some (some 2) ∧ (slotNames cfg)[2]? = some (.v 1)) ∧
    (∀ j s : Nat, 6 ≤ j → j + 1 < (datRowSlots cfg).length → (datRowSlots cfg)[j]? = some (some s) →
        ∃ n, (datHeader cfg)[j]? = some n ∧ (slotNames cfg)[s + 1]? = some n) ∧
    ((datHeader cfg)[(datRowSlots cfg).length - 1]? = some .tag ∧
      (datRowSlots cfg)[(datRowSlots cfg).length - 1]? = some (some (outputSize (datProps cfg) - 1)) ∧
      (slotNames cfg)[outputSize (datProps cfg) - 1]? = some .tag) := by
  obtain ⟨h0, h1, h2, _⟩ := slotNames_head cfg
  have hlen : (datHeader cfg).length = (datRowSlots cfg).length := by
    rw [datHeader_2d cfg h, datRowSlots_2d cfg h]
    simp only [List.length_append, List.length_map, List.length_range, List.length_replicate, List.length_cons,
      List.length_nil, datRowMiddle_length, datHeaderMiddle_length]
  have key : ∀ {α : Type} (l : List α) (a : α), (l ++ [a])[(l ++ [a]).length - 1]? = some a := by
    intro α l a; simp
  refine ⟨hlen, ?_, ⟨?_, ?_, h0⟩, ⟨?_, ?_, h1⟩, ⟨?_, ?_, h2⟩, fun j s h6 hj hs => shift_2d cfg h j s h6 hj hs,
    ?_, ?_, slotNames_last cfg⟩
  · intro j hj
    rw [datHeader_2d cfg h, datRowSlots_2d cfg h]
    constructor
    · rw [List.getElem?_append_left (by simpa using hj), List.getElem?_replicate, if_pos hj]
    · rw [List.getElem?_append_left (by simpa using hj)]; simp [List.getElem?_range hj]
  · rw [datHeader_2d cfg h]; rfl
  · rw [datRowSlots_2d cfg h]; rfl
  · rw [datHeader_2d cfg h]; rfl
  · rw [datRowSlots_2d cfg h]; rfl
  · rw [datHeader_2d cfg h]; rfl
  · rw [datRowSlots_2d cfg h]; rfl
  · rw [← hlen, datHeader_2d cfg h, ← List.append_assoc, ← List.append_assoc]
    exact key _ _
  · rw [datRowSlots_2d cfg h, ← List.append_assoc, ← List.append_assoc]
    exact key _ _

/-- what the 2-D rows show for one composition: the column `c0` prints the zero velocity slot (`alignedB`-style executable listing) -/
example : misalignedColumns (datHeader { dim := 2, compositions := 1 }) (datRowSlots { dim := 2, compositions := 1 })
    (slotNames { dim := 2, compositions := 1 }) = [(6, some (.c 0), 3, some (.v 2))] := by decide

/-! ### 5. option lines -/

/-- one loop iteration = the single edit `lineEdit line` (Proofs/Dat.lean) selected by the keyword prefix of the line:
at most one of the five `if`s fires because the second tokens `dim / compositions / grain / number / convert` differ -/
theorem C17_options_step_eq (cfg : DatCfg) (line : List String) : datOptStep cfg line = (lineEdit line).apply cfg :=
  datOptStep_eq cfg line

theorem C17_options_nonoption_ignored (cfg : DatCfg) (line : List String) (h : isOptLine line = false) :
    datOptStep cfg line = cfg :=
  datOptStep_of_not_opt cfg line h

theorem C17_options_filter (lines : List (List String)) : datOptions (lines.filter isOptLine) = datOptions lines :=
  datOptions_filter lines

theorem C17_options_position_independent (xs ns ys : List (List String)) (opt : List String)
    (h : ∀ l ∈ ns, isOptLine l = false) :
    datOptions (xs ++ [opt] ++ ns ++ ys) = datOptions (xs ++ ns ++ [opt] ++ ys) :=
  datOptions_move xs ns ys opt h

theorem C17_options_insert (xs ns ys : List (List String)) (h : ∀ l ∈ ns, isOptLine l = false) :
    datOptions (xs ++ ns ++ ys) = datOptions (xs ++ ys) :=
  datOptions_insert xs ns ys h

theorem C17_options_swap (xs ys : List (List String)) (a b : List String)
    (h : (lineEdit a).field ≠ (lineEdit b).field) :
    datOptions (xs ++ [a, b] ++ ys) = datOptions (xs ++ [b, a] ++ ys) :=
  datOptions_swap xs ys a b h

theorem C17_options_last_wins_dim (lines : List (List String)) :
    (datOptions lines).dim = ((lines.filterMap (fun l => (lineEdit l).val? 0)).getLast?).getD 3 :=
  foldl_datOptStep_fieldVal 0 {} lines

theorem C17_options_last_wins_compositions (lines : List (List String)) :
    (datOptions lines).compositions = ((lines.filterMap (fun l => (lineEdit l).val? 1)).getLast?).getD 0 :=
  foldl_datOptStep_fieldVal 1 {} lines

theorem C17_options_last_wins_grain_compositions (lines : List (List String)) :
    (datOptions lines).grainCompositions = ((lines.filterMap (fun l => (lineEdit l).val? 2)).getLast?).getD 0 :=
  foldl_datOptStep_fieldVal 2 {} lines

theorem C17_options_last_wins_n_grains (lines : List (List String)) :
    (datOptions lines).nGrains = ((lines.filterMap (fun l => (lineEdit l).val? 3)).getLast?).getD 0 :=
  foldl_datOptStep_fieldVal 3 {} lines

theorem C17_options_spherical (lines : List (List String)) :
    (datOptions lines).convertSpherical = lines.any (fun l => decide (lineEdit l = .spherical)) := by
  have := foldl_datOptStep_spherical {} lines
  unfold datOptions
  simpa using this

theorem C17_options_data_rows (lines : List (List String)) :
    (∀ l ∈ datRows lines, isOptLine l = false ∧ datLineDefined l = true) ∧ datOptions (datRows lines) = {} := by
  refine ⟨fun l hl => ?_, datOptions_datRows lines⟩
  have hd : isDataRow l = true := (List.mem_filter.mp hl).2
  exact ⟨isOptLine_of_isDataRow l hd, datLineDefined_of_isDataRow l hd⟩

/-- the scan really interprets the five lines, wherever they stand, and later lines override earlier ones -/
example : datOptions ([ "# dim = 3", "1 2 3", "# compositions = 4", "# dim = 2", "", "# grain compositions = 1",
      "5, 6, 7", "# number of grains = 7", "# convert spherical = true", "# something else" ].map datTokens)
    = { dim := 2, compositions := 4, grainCompositions := 1, nGrains := 7, convertSpherical := true } := by decide

/-- Lines on which the C++ indexes past the end of the token vector (`line_i[1]`, `line_i[3]`, `line_i[2]`):
a bare `#`, `# dim =`, `# grain`.  Harmless lines: `# x y z`, a data row, the empty line, a complete option line. -/
theorem C17_bare_hash_out_of_range :
    datLineDefined ["#"] = false ∧ datLineDefined ["#", "dim", "="] = false ∧ datLineDefined ["#", "grain"] = false ∧
    datLineDefined ["#", "x", "y", "z"] = true ∧ datLineDefined ["1", "2", "3"] = true ∧ datLineDefined [] = true ∧
    datLineDefined ["#", "dim", "=", "2"] = true := by decide

end Gwb
