/-
C16 — The C and C++ wrappers are transparent.

`GwbVerif/Generated/Wrapper.lean` is produced by the translator `tools/gen_wrapper_model.py` from
/repo/source/world_builder/wrapper_c.cc and wrapper_cpp.cc on every run of the check; `GwbVerif/Model/Wrapper.lean`
gives the generated plumbing its meaning on top of the native `World` model.  The theorems below are therefore re-checked
against what the two source files say now: a change of argument order, of the copy loops, of the null handling or of the
`output_dir` assignment changes the generated definitions and breaks the corresponding proof.

* `C16_fully_translated` — the translator recognised every statement of the two files (`Gen.untranslated = []`).
* `C16_create_world_arguments` — for non-null arguments `create_world` hands (file, has_output_dir, output_dir, seed) to `World::World`
  unchanged; `C16_create_world_null` — a null `has_output_dir` means `false`, a null `output_dir` means `""`.
  (Before the upstream commit 'fix: create_world passed only the first character of the output directory' the source read
  `output_dir = *output_dir_;`, the translator emitted `String.singleton s.front`, and this theorem was false; witness: "/tmp/out/" ↦ "/".)
* `C16_cpp_constructor` — the C++ wrapper's constructor passes its four arguments unchanged.
* `C16_triple_copy` — the property-triple copy of `properties_2d/3d` and `properties_output_size` is the identity on triples.
* `C16_properties_3d`, `C16_properties_2d` — the C function runs exactly the native query on `(x, y, z)` resp. `(x, z)`, `depth` and the same
  request list, writes the native answer into the first `ret.length` slots of `values` and leaves the rest untouched;
  `C16_properties_3d_fits` — with `values` of length `properties_output_size` nothing is written out of bounds and `values` becomes exactly the native
  answer (uses C01_output_size).
* `C16_output_size` — `properties_output_size` is the native `properties_output_size`.
* `C16_temperature_*`, `C16_composition_*` — the eight scalar entry points (C and C++) are the native calls with the arguments in order.

NOT proved: anything about `reinterpret_cast`, `new`/`delete`, exceptions crossing the C boundary, `std::string` construction from `char*`
(the harness harness/wrappers.cc exercises those against the real library in one process).
-/
import GwbVerif.Model.Wrapper
import GwbVerif.Properties.C01
namespace Gwb
open Scalar
set_option linter.unusedSectionVars false
variable {R G : Type} [Scalar R] [RandGen G R]

theorem C16_fully_translated : Gen.untranslated = [] := rfl

theorem C16_create_world_arguments (file dir : String) (b : Bool) (seed : Nat) :
    Gen.createWorld ⟨file, some b, some dir, seed⟩ = ⟨file, b, dir, seed⟩ := rfl

theorem C16_create_world_null (file : String) (seed : Nat) :
    Gen.createWorld ⟨file, none, none, seed⟩ = ⟨file, false, "", seed⟩ := rfl

example : Gen.createWorld ⟨"w.wb", some true, some "/tmp/out/", 7⟩ = ⟨"w.wb", true, "/tmp/out/", 7⟩ := by decide

theorem C16_cpp_constructor (a : Gen.WorldArgs) : Gen.cppCreate a = a := rfl

theorem C16_triple_copy (t : Nat × Nat × Nat) :
    copyTriple Gen.c_properties_3d_tripleCopy t = ⟨t.1, t.2.1, t.2.2⟩ ∧
    copyTriple Gen.c_properties_2d_tripleCopy t = ⟨t.1, t.2.1, t.2.2⟩ ∧
    copyTriple Gen.c_properties_output_size_tripleCopy t = ⟨t.1, t.2.1, t.2.2⟩ := ⟨rfl, rfl, rfl⟩

theorem map_copyTriple (m : List (Nat × Nat)) (hm : ∀ t, copyTriple m t = ⟨t.1, t.2.1, t.2.2⟩) (props : List (Nat × Nat × Nat)) :
    props.map (copyTriple m) = props.map (fun t => (⟨t.1, t.2.1, t.2.2⟩ : Req)) := by
  apply List.map_congr_left; intro t _; exact hm t

/-- the request list the native world sees -/
def reqs (props : List (Nat × Nat × Nat)) : List Req := props.map (fun t => ⟨t.1, t.2.1, t.2.2⟩)

theorem C16_properties_3d (w : World R) (x y z depth : R) (props : List (Nat × Nat × Nat)) (values : List R) :
    cProperties3d (G := G) w x y z depth props values =
      (do let ret ← w.props3 ⟨x, y, z⟩ depth (reqs props)
          return (if ret.length ≤ values.length then some (ret ++ values.drop ret.length) else none)) := by
  unfold cProperties3d reqs
  rw [map_copyTriple _ (fun t => (C16_triple_copy t).1)]
  rfl

theorem C16_properties_2d (w : World R) (x z depth : R) (props : List (Nat × Nat × Nat)) (values : List R) :
    cProperties2d (G := G) w x z depth props values =
      (do let ret ← w.props2 ⟨x, z⟩ depth (reqs props)
          return (if ret.length ≤ values.length then some (ret ++ values.drop ret.length) else none)) := by
  unfold cProperties2d reqs
  rw [map_copyTriple _ (fun t => (C16_triple_copy t).2.1)]
  rfl

theorem C16_output_size (props : List (Nat × Nat × Nat)) : cOutputSize props = outputSize? (reqs props) := by
  unfold cOutputSize reqs
  rw [map_copyTriple _ (fun t => (C16_triple_copy t).2.2)]

/-- with a `values` array of `properties_output_size` entries the C call stores exactly the native answer -/
theorem C16_properties_3d_fits (w : World R) (x y z depth : R) (props : List (Nat × Nat × Nat)) (values : List R) (n : Nat)
    (hn : cOutputSize props = .ok n) (hv : values.length = n) (g g' : G) (r : Option (List R))
    (h : cProperties3d w x y z depth props values g = .ok (r, g')) :
    ∃ ret, w.props3 ⟨x, y, z⟩ depth (reqs props) g = .ok (ret, g') ∧ r = some ret := by
  rw [C16_properties_3d] at h
  simp only [QM.bind_apply] at h
  cases hq : w.props3 ⟨x, y, z⟩ depth (reqs props) g with
  | error e => simp [hq] at h
  | ok p =>
    obtain ⟨ret, g1⟩ := p
    simp only [hq, QM.pure_apply, Except.ok.injEq, Prod.mk.injEq] at h
    obtain ⟨hr, hg⟩ := h
    have hlen := C01_output_size w ⟨x, y, z⟩ depth (reqs props) g ret g1 hq
    rw [C16_output_size, hlen.2] at hn
    have hn' : outputSize (reqs props) = n := by injection hn
    have hl : ret.length = values.length := by rw [hlen.1, hn', hv]
    refine ⟨ret, by rw [← hg], ?_⟩
    rw [← hr, if_pos (Nat.le_of_eq hl), hl, List.drop_length, List.append_nil]

theorem C16_temperature_3d (w : World R) (x y z depth : R) :
    wTemperature3d (G := G) Gen.c_temperature_3d_position Gen.c_temperature_3d_method Gen.c_temperature_3d_depthArg Gen.c_temperature_3d_extraArgs w x y z depth
      = (do return some (← w.temperature3 ⟨x, y, z⟩ depth)) ∧
    wTemperature3d (G := G) Gen.cpp_temperature_3d_position Gen.cpp_temperature_3d_method Gen.cpp_temperature_3d_depthArg Gen.cpp_temperature_3d_extraArgs w x y z depth
      = (do return some (← w.temperature3 ⟨x, y, z⟩ depth)) := ⟨rfl, rfl⟩

theorem C16_temperature_2d (w : World R) (x z depth : R) :
    wTemperature2d (G := G) Gen.c_temperature_2d_position Gen.c_temperature_2d_method Gen.c_temperature_2d_depthArg Gen.c_temperature_2d_extraArgs w x z depth
      = (do return some (← w.temperature2 ⟨x, z⟩ depth)) ∧
    wTemperature2d (G := G) Gen.cpp_temperature_2d_position Gen.cpp_temperature_2d_method Gen.cpp_temperature_2d_depthArg Gen.cpp_temperature_2d_extraArgs w x z depth
      = (do return some (← w.temperature2 ⟨x, z⟩ depth)) := ⟨rfl, rfl⟩

theorem C16_composition_3d (w : World R) (x y z depth : R) (n : Nat) :
    wComposition3d (G := G) Gen.c_composition_3d_position Gen.c_composition_3d_method Gen.c_composition_3d_depthArg Gen.c_composition_3d_extraArgs w x y z depth n
      = (do return some (← w.composition3 ⟨x, y, z⟩ depth n)) ∧
    wComposition3d (G := G) Gen.cpp_composition_3d_position Gen.cpp_composition_3d_method Gen.cpp_composition_3d_depthArg Gen.cpp_composition_3d_extraArgs w x y z depth n
      = (do return some (← w.composition3 ⟨x, y, z⟩ depth n)) := ⟨rfl, rfl⟩

theorem C16_composition_2d (w : World R) (x z depth : R) (n : Nat) :
    wComposition2d (G := G) Gen.c_composition_2d_position Gen.c_composition_2d_method Gen.c_composition_2d_depthArg Gen.c_composition_2d_extraArgs w x z depth n
      = (do return some (← w.composition2 ⟨x, z⟩ depth n)) ∧
    wComposition2d (G := G) Gen.cpp_composition_2d_position Gen.cpp_composition_2d_method Gen.cpp_composition_2d_depthArg Gen.cpp_composition_2d_extraArgs w x z depth n
      = (do return some (← w.composition2 ⟨x, z⟩ depth n)) := ⟨rfl, rfl⟩

end Gwb
