/-
C03 — the background through the 2-D (cross-section) interface, from `C03_background` and `C09_2d_is_projected_3d`.
-/
import GwbVerif.Properties.C09
namespace Gwb
open Scalar
set_option linter.unusedSectionVars false
variable {R G : Type} [Scalar R] [RandGen G R]

theorem zipWith_projBlock_id (u : P2 R) (ps : List Req) (bs : List (List R)) (hf : Fits ps bs)
    (hnv : ∀ p ∈ ps, p.code ≠ 5) : List.zipWith (projBlock u) ps bs = bs := by
  induction ps generalizing bs with
  | nil => cases bs <;> simp_all [Fits]
  | cons p ps ih =>
    cases bs with
    | nil => simp [Fits] at hf
    | cons b bs =>
      simp only [Fits] at hf
      simp only [List.zipWith_cons_cons]
      rw [(C09_velocity_projection u 0 0 0 p b).2 (hnv p (by simp)), ih bs hf.2 (fun q hq => hnv q (by simp [hq]))]

/-- **C03 (2-D, partial: requests without a velocity entry)** outside every feature the cross-section interface returns the
background state too.  (A velocity entry is answered `(u·(0,0), 0, 0)`, which is `(0, 0, 0)` only with the ring law
`a·0 + b·0 = 0`; that case is left to the ordered-field level.) -/
theorem C03_background_2d_partial (w : World R) (c0 c1 : P2 R) (hc : w.cross = some (c0, c1)) (pt : P2 R) (depth : R)
    (ps : List Req) (hnv : ∀ p ∈ ps, p.code ≠ 5)
    (hout : ∀ f ∈ w.features, f.covers w.ctx (w.query (w.lift2 c0 c1 pt) depth) = false) (g : G) :
    w.props2 pt depth ps g = (match Spec.background w.ctx depth ps with
      | some out => .ok (out, g)
      | none => .error .unknownProperty) := by
  have h3 := C03_background w (w.lift2 c0 c1 pt) depth ps hout g
  obtain ⟨hok, herr⟩ := C09_2d_is_projected_3d w c0 c1 hc pt depth ps g
  cases hb : Spec.background w.ctx depth ps with
  | none =>
    rw [hb] at h3
    exact herr _ h3
  | some out =>
    rw [hb] at h3
    obtain ⟨bs, hf, rfl, h2⟩ := hok _ g h3
    rw [h2, zipWith_projBlock_id _ ps bs hf hnv]

end Gwb
