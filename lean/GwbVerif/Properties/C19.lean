/-
C19 — Geometric kernels agree with their brute-force definitions (kd-tree, coordinate conversions, great circle).

Models: `Model/Geometry/KdTree.lean` (kd_tree.cc), `Model/Geometry/Coords.lean` (utilities.cc:254-282,
coordinate_systems/spherical.cc:109-131).  Helper lemmas: `Proofs/KdTree.lean`, `Proofs/KdBuild.lean`, `Proofs/Coords.lean`.

**kd-tree** (any linearly ordered field `F`, `fieldScalar T`).  Assumed about `sqrt` (as explicit hypotheses; nothing is postulated):
`SqrtMono T` (`0 ≤ x ≤ y → T.sqrt x ≤ T.sqrt y`) and `SqrtSq T` (`T.sqrt (x*x) = |x|`); from these `0 ≤ T.sqrt x` (`x ≥ 0`) and
`|d| ≤ T.sqrt (d*d + e*e)` are derived.  Nothing else about libm is used.
* `C19_kdtree_nearest`: for a non-empty node array satisfying `KdInv nodes 0 (size-1) false` (what `create_tree`'s
  `nth_element` establishes: left of the median `≤`, right of the median `≥`, recursively with the axis flipped) and
  `T.dblMax` strictly above every node distance, `kdFindClosestPoints` succeeds and its state has `minIndex < size`,
  `minDistance = kdDistance nodes[minIndex] p`, `minDistance ≤ kdDistance nodes[i] p` for **every** `i < size` (= brute force),
  every entry of `vector` is `(i, kdDistance nodes[i] p)` with `i < size`, and `(minIndex, minDistance)` occurs in `vector`.
* `C19_kdtree_nearest_search_inv`: the same under the weaker `KdInvSearch` (only "right of the median `≥`").  The left half needs no
  ordering because in the branch `¬ p[ax] < node[ax]` the code tests `node[ax] - p[ax] < best` — the same (there non-positive)
  expression as in the other branch rather than `p[ax] - node[ax]` (kd_tree.cc:126 and :206) — so the left subtree is skipped only when `best ≤ 0`
  (`kd_prune_left`).  This costs pruning efficiency, not correctness.
* `C19_buildMedian_inv`: the model's own build `buildMedian fuel ns ax` (sort, median at `(len-1)/2`, recurse with the axis flipped) yields an
  array satisfying `KdInv` on its whole range, for non-empty `ns` and `ns.length ≤ fuel + 1` (uses only the order of `F`).
  `C19_buildMedian_nearest`: hence searching the tree built by `buildMedian _ ns false` returns the brute-force minimum.
* NOT proved: which index is returned among equidistant nodes (tie-breaking); that `vector` has no duplicates / lists the visited nodes in
  walk order; any bound on the number of visited nodes (efficiency).  That libstdc++ `nth_element` establishes `KdInv` is outside the
  model (the node array dumped from the library is an input; `KdInv` is a hypothesis about it).

**Conversions** (over `ℝ`; `IsRealLibm T`: `T.sqrt/sin/cos/acos/atan2/pi` are `Real.sqrt/sin/cos/arccos`, `(y,x) ↦ Complex.arg ⟨x,y⟩`, `Real.pi`, and `T.dblMin > 0`).
* `C19_spherical_roundtrip`: `sphericalToCartesian (cartesianToSpherical p) = p` whenever `‖p‖ > dblMin`.
* `C19_spherical_roundtrip_inv`: `cartesianToSpherical (sphericalToCartesian (r,lon,lat)) = (r,lon,lat)` for `r > dblMin`, `lon ∈ (-π,π]`,
  `lat ∈ [-π/2,π/2]` and `lon = 0` at the poles (where the longitude is not determined; the code returns `atan2(0,0) = 0`).
  For `‖p‖ ≤ dblMin` the code returns latitude 0 and the round trip is not the identity in general (not covered).

**Great circle** (same assumptions).  `greatCircle R lon₁ lat₁ lon₂ lat₂ = R · arccos ⟨u₁,u₂⟩`, `u_i` the unit vectors (`unitVec_norm`).
* `C19_great_circle_model`: for equal radius `R > 0` the model returns `R · arccos (min 1 (max (-1) ⟨u₁,u₂⟩))` (clamp as written, spherical.cc:130).
* `C19_great_circle`: for ANY two points of equal radius `R > 0` (all longitudes/latitudes) the model returns the great-circle distance
  `R · arccos ⟨u₁,u₂⟩`: by Cauchy–Schwarz `⟨u₁,u₂⟩ ∈ [-1,1]` (`unitVec_dot_bounds`), so the clamp is the identity.
* `C19_great_circle_equator`: regression instance — equatorial points at longitudes `0` and `lon ∈ [0,π]` are `R·lon` apart (antipodal: `R·π`).
* History: the code formerly clamped the cosine to `[0,1]` (`max(0., …)`), returning `R·π/2` for every pair more than 90° apart; an earlier revision
  of this file proved that defect (`C19_great_circle_clamp_witness`, `¬ C19_great_circle_full`).  It was fixed upstream (commit
  'fix: same-depth distance on the sphere clamped the cosine to [0,1]'); the model follows the fixed code and those theorems, now false, were removed.
* NOT covered: points of different radii (the code uses the radius of the first point and asserts near-equality in debug builds only).

Floating-point rounding is outside all of the above (exact real semantics of the transliterated formulas).
Newton closest-point convergence on Bezier curves and the polygon test are not part of this file: see the C06 and C04 property files.
-/
import GwbVerif.Proofs.KdTree
import GwbVerif.Proofs.KdBuild
import GwbVerif.Proofs.Coords
namespace Gwb
open Scalar

/-! ## kd-tree -/

section kd
variable {F : Type} [Field F] [LinearOrder F] [IsStrictOrderedRing F]

/-- **C19** nearest-neighbour search = brute-force minimum, under the part of the invariant the search uses -/
theorem C19_kdtree_nearest_search_inv (T : Transc F) (hm : SqrtMono T) (hs : SqrtSq T)
    (nodes : Array (KdNode F)) (p : P2 F) (hpos : 0 < nodes.size)
    (hinv : @KdInvSearch F (fieldScalar T) nodes 0 (nodes.size - 1) false)
    (hmax : ∀ (i : Nat) (h : i < nodes.size), @kdDistance F (fieldScalar T) nodes[i] p < T.dblMax) :
    ∃ s, @kdFindClosestPoints F (fieldScalar T) nodes p = .ok s ∧
      (∃ h : s.minIndex < nodes.size, s.minDistance = @kdDistance F (fieldScalar T) nodes[s.minIndex] p) ∧
      (∀ (i : Nat) (h : i < nodes.size), s.minDistance ≤ @kdDistance F (fieldScalar T) nodes[i] p) ∧
      (∀ e ∈ s.vector, ∃ h : e.index < nodes.size, e.distance = @kdDistance F (fieldScalar T) nodes[e.index] p) ∧
      (∃ e ∈ s.vector, e.index = s.minIndex ∧ e.distance = s.minDistance) := by
  have hmax' : ∀ (j : Nat) n, nodes[j]? = some n → @kdDistance F (fieldScalar T) n p < T.dblMax := by
    intro j n hj
    obtain ⟨h, rfl⟩ := Array.getElem?_eq_some_iff.1 hj
    exact hmax j h
  obtain ⟨s, hs1, hg, hcov, hne⟩ := kdFindClosestPoints_spec hm hs nodes p hpos hinv hmax'
  have hentry : ∀ e ∈ s.visited, ∃ h : e.index < nodes.size,
      e.distance = @kdDistance F (fieldScalar T) nodes[e.index] p := by
    intro e he
    obtain ⟨n, hn, hd⟩ := hg.entries e he
    obtain ⟨h, rfl⟩ := Array.getElem?_eq_some_iff.1 hn
    exact ⟨h, hd⟩
  have hatt : ∃ e ∈ s.visited, e.index = s.minIndex ∧ e.distance = s.minDistance := by
    rcases hg.attained with ⟨h, _⟩ | h
    · exact absurd h hne
    · exact h
  refine ⟨s, hs1, ?_, ?_, ?_, ?_⟩
  · obtain ⟨e, he, h1, h2⟩ := hatt
    obtain ⟨h, hd⟩ := hentry e he
    rw [← h2]
    simp only [← h1]
    exact ⟨h, hd⟩
  · intro i h
    exact hcov i nodes[i] (Nat.zero_le _) (by omega) (Array.getElem?_eq_getElem h)
  · intro e he
    exact hentry e (List.mem_reverse.1 he)
  · obtain ⟨e, he, h⟩ := hatt
    exact ⟨e, List.mem_reverse.2 he, h⟩

/-- **C19** nearest-neighbour search = brute-force minimum, for a tree satisfying the `create_tree` invariant -/
theorem C19_kdtree_nearest (T : Transc F) (hm : SqrtMono T) (hs : SqrtSq T)
    (nodes : Array (KdNode F)) (p : P2 F) (hpos : 0 < nodes.size)
    (hinv : @KdInv F (fieldScalar T) nodes 0 (nodes.size - 1) false)
    (hmax : ∀ (i : Nat) (h : i < nodes.size), @kdDistance F (fieldScalar T) nodes[i] p < T.dblMax) :
    ∃ s, @kdFindClosestPoints F (fieldScalar T) nodes p = .ok s ∧
      (∃ h : s.minIndex < nodes.size, s.minDistance = @kdDistance F (fieldScalar T) nodes[s.minIndex] p) ∧
      (∀ (i : Nat) (h : i < nodes.size), s.minDistance ≤ @kdDistance F (fieldScalar T) nodes[i] p) ∧
      (∀ e ∈ s.vector, ∃ h : e.index < nodes.size, e.distance = @kdDistance F (fieldScalar T) nodes[e.index] p) ∧
      (∃ e ∈ s.vector, e.index = s.minIndex ∧ e.distance = s.minDistance) :=
  C19_kdtree_nearest_search_inv T hm hs nodes p hpos hinv.toSearch hmax

/-- **C19** the model's own tree build establishes the invariant -/
theorem C19_buildMedian_inv (T : Transc F) (fuel : Nat) (ns : List (KdNode F)) (ax : Bool) (hne : ns ≠ [])
    (hf : ns.length ≤ fuel + 1) :
    @KdInv F (fieldScalar T) (@buildMedian F (fieldScalar T) fuel ns ax).toArray 0
      ((@buildMedian F (fieldScalar T) fuel ns ax).toArray.size - 1) ax :=
  buildMedian_inv_whole T fuel ns ax hne hf

/-- **C19** build + search = brute-force minimum over the built array -/
theorem C19_buildMedian_nearest (T : Transc F) (hm : SqrtMono T) (hs : SqrtSq T) (fuel : Nat) (ns : List (KdNode F)) (p : P2 F)
    (hne : ns ≠ []) (hf : ns.length ≤ fuel + 1)
    (hmax : ∀ n ∈ ns, @kdDistance F (fieldScalar T) n p < T.dblMax) :
    let nodes := (@buildMedian F (fieldScalar T) fuel ns false).toArray
    ∃ s, @kdFindClosestPoints F (fieldScalar T) nodes p = .ok s ∧
      (∃ h : s.minIndex < nodes.size, s.minDistance = @kdDistance F (fieldScalar T) nodes[s.minIndex] p) ∧
      (∀ n ∈ ns, s.minDistance ≤ @kdDistance F (fieldScalar T) n p) := by
  intro nodes
  have hperm := buildMedian_perm T fuel ns false
  have hsize : nodes.size = ns.length := by simp [nodes, buildMedian_length]
  have hpos : 0 < nodes.size := by
    rw [hsize]; exact List.length_pos_of_ne_nil hne
  obtain ⟨s, h1, h2, h3, _⟩ := C19_kdtree_nearest T hm hs nodes p hpos (C19_buildMedian_inv T fuel ns false hne hf)
    (fun i h => hmax _ (hperm.mem_iff.1 (by simp [nodes])))
  refine ⟨s, h1, h2, ?_⟩
  intro n hn
  obtain ⟨i, hi, rfl⟩ := List.getElem_of_mem (hperm.mem_iff.2 hn)
  have := h3 i (by simpa [nodes] using hi)
  simpa [nodes] using this

end kd

/-- `Real.sqrt` satisfies the two square-root hypotheses -/
theorem realTransc_sqrt (a b : ℝ) : SqrtMono (realLibmTransc a b) ∧ SqrtSq (realLibmTransc a b) :=
  ⟨fun _ _ _ h => Real.sqrt_le_sqrt h, fun x => Real.sqrt_mul_self_eq_abs x⟩


/-! a concrete instance of the hypotheses of `C19_kdtree_nearest`: three nodes over `ℝ` with `Real.sqrt`, `dblMax = 100` -/

/-- a three-node tree `(0,0) (1,1) (2,0)`, median-split on `x` -/
noncomputable def C19_exNodes : Array (KdNode ℝ) := #[⟨0, 0, 0⟩, ⟨1, 1, 1⟩, ⟨2, 2, 0⟩]

theorem C19_exNodes_inv : @KdInv ℝ (fieldScalar (realLibmTransc 1 100)) C19_exNodes 0 (C19_exNodes.size - 1) false := by
  let _i : Scalar ℝ := fieldScalar (realLibmTransc 1 100)
  have hsz : C19_exNodes.size = 3 := rfl
  rw [hsz]
  refine .node 0 2 false ?_ ?_ (fun _ => .node 0 0 true ?_ ?_ ?_ ?_) (fun _ => .node 2 2 true ?_ ?_ ?_ ?_)
  · intro j nj nm hm hj h1 h2
    obtain rfl : j = 0 := by omega
    simp [C19_exNodes] at hm hj
    subst hm hj
    simp [KdNode.get]
  · intro j nj nm hm hj h1 h2
    obtain rfl : j = 2 := by omega
    simp [C19_exNodes] at hm hj
    subst hm hj
    simp [KdNode.get]
  all_goals first | (intro j _ _ _ _ h1 h2; omega) | (intro h; omega)

theorem C19_exNodes_max : ∀ (i : Nat) (h : i < C19_exNodes.size),
    @kdDistance ℝ (fieldScalar (realLibmTransc 1 100)) C19_exNodes[i] ⟨1, 0⟩ < (realLibmTransc 1 100).dblMax := by
  intro i h
  have hsz : C19_exNodes.size = 3 := rfl
  rw [kdDistance_eq]
  show Real.sqrt _ < (100 : ℝ)
  rw [Real.sqrt_lt' (by norm_num)]
  rw [hsz] at h
  rcases i with _ | _ | _ | i
  all_goals first | omega | (simp [C19_exNodes]; done) | (simp [C19_exNodes]; norm_num)

example : ∃ s, @kdFindClosestPoints ℝ (fieldScalar (realLibmTransc 1 100)) C19_exNodes ⟨1, 0⟩ = .ok s ∧
    ∀ (i : Nat) (h : i < C19_exNodes.size),
      s.minDistance ≤ @kdDistance ℝ (fieldScalar (realLibmTransc 1 100)) C19_exNodes[i] ⟨1, 0⟩ := by
  obtain ⟨s, h1, _, h2, _⟩ := C19_kdtree_nearest (realLibmTransc 1 100) (realTransc_sqrt 1 100).1 (realTransc_sqrt 1 100).2
    C19_exNodes ⟨1, 0⟩ (by decide) C19_exNodes_inv C19_exNodes_max
  exact ⟨s, h1, h2⟩

/-! ## coordinate conversions -/

/-- **C19** cartesian → spherical → cartesian is the identity for `‖p‖ > dblMin` -/
theorem C19_spherical_roundtrip (T : Transc ℝ) (hT : IsRealLibm T) (p : P3 ℝ)
    (hr : T.dblMin < Real.sqrt (p.x * p.x + p.y * p.y + p.z * p.z)) :
    @sphericalToCartesian ℝ (fieldScalar T) (@cartesianToSpherical ℝ (fieldScalar T) p) = p :=
  roundtrip_cart hT p hr

/-- **C19** spherical → cartesian → spherical is the identity on the principal domain -/
theorem C19_spherical_roundtrip_inv (T : Transc ℝ) (hT : IsRealLibm T) (r lon lat : ℝ) (hr : T.dblMin < r)
    (hlon1 : -Real.pi < lon) (hlon2 : lon ≤ Real.pi) (hlat1 : -(Real.pi / 2) ≤ lat) (hlat2 : lat ≤ Real.pi / 2)
    (hpole : Real.cos lat = 0 → lon = 0) :
    @cartesianToSpherical ℝ (fieldScalar T) (@sphericalToCartesian ℝ (fieldScalar T) ⟨r, lon, lat⟩) = ⟨r, lon, lat⟩ :=
  roundtrip_sph hT r lon lat hr ⟨hlon1, hlon2⟩ hlat1 hlat2 hpole

example : ∃ T : Transc ℝ, IsRealLibm T ∧ T.dblMin < Real.sqrt ((1 : ℝ) * 1 + 2 * 2 + 2 * 2) := by
  refine ⟨realLibmTransc 1 10, realLibmTransc_isRealLibm one_pos, ?_⟩
  show (1 : ℝ) < _
  rw [Real.lt_sqrt (by norm_num)]; norm_num

/-! ## great-circle distance -/

/-- **C19** what the model computes for two points of equal radius (clamp as written) -/
theorem C19_great_circle_model (T : Transc ℝ) (hT : IsRealLibm T) (R lon1 lat1 lon2 lat2 : ℝ) (hR : 0 < R) :
    @distanceSameDepth ℝ (fieldScalar T) true ⟨R, lon1, lat1⟩ ⟨R, lon2, lat2⟩ =
      R * Real.arccos (min 1 (max (-1) (rdot (unitVec lon1 lat1) (unitVec lon2 lat2)))) :=
  distanceSameDepth_eq hT R lon1 lat1 lon2 lat2 hR

/-- **C19** the model returns the great-circle distance `R · arccos ⟨u₁,u₂⟩` for every pair of points of equal radius `R > 0` -/
theorem C19_great_circle (T : Transc ℝ) (hT : IsRealLibm T) (R lon1 lat1 lon2 lat2 : ℝ) (hR : 0 < R) :
    @distanceSameDepth ℝ (fieldScalar T) true ⟨R, lon1, lat1⟩ ⟨R, lon2, lat2⟩ =
      R * Real.arccos (rdot (unitVec lon1 lat1) (unitVec lon2 lat2)) :=
  distanceSameDepth_greatCircle hT R lon1 lat1 lon2 lat2 hR

/-- **C19** regression instance for the former clamp defect: equatorial points `lon ∈ [0, π]` apart are at distance `R·lon`
(in particular antipodal points at `R·π`, where the unfixed code returned `R·π/2`) -/
theorem C19_great_circle_equator (T : Transc ℝ) (hT : IsRealLibm T) (R lon : ℝ) (hR : 0 < R) (h0 : 0 ≤ lon) (h1 : lon ≤ Real.pi) :
    @distanceSameDepth ℝ (fieldScalar T) true ⟨R, 0, 0⟩ ⟨R, lon, 0⟩ = R * lon := by
  rw [distanceSameDepth_greatCircle hT R 0 0 lon 0 hR]
  exact (greatCircle_equator R lon h0 h1).1

example : ∃ T : Transc ℝ, IsRealLibm T ∧
    @distanceSameDepth ℝ (fieldScalar T) true ⟨1, 0, 0⟩ ⟨1, Real.pi, 0⟩ = 1 * Real.pi :=
  ⟨realLibmTransc 1 2, realLibmTransc_isRealLibm one_pos,
    C19_great_circle_equator _ (realLibmTransc_isRealLibm one_pos) 1 Real.pi one_pos Real.pi_pos.le le_rfl⟩

end Gwb
