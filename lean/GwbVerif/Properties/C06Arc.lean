/-
C06 (continued) — the circular (curved-segment) piece of the slab / fault walk: the sector bookkeeping.

Planar construction (plane frame of `Properties/C06.lean`: x horizontal away from the trench, y up; `b` = end of the previous
piece; `t(ψ) = (cos ψ, −sin ψ)` the unit tangent of a surface of dip `ψ`, `n(ψ) = (−sin ψ, −cos ψ)` the unit normal pointing below
it).  A segment of length `len` whose dip goes from `θ` (top) to `β` (bottom) is the arc of the circle of radius
`radius = len / |θ − β|` through `b` that is tangent there to the direction `t(θ)`:
* dip increasing (`θ < β`): centre *below* the surface, `center = b + radius·n(θ)`; the point of the circle where the dip is `ψ` is
  `P(ψ) = center + radius·(sin ψ, cos ψ)` (`P(θ) = b`, `P'(ψ) = radius·t(ψ)`: unit speed `radius`, direction `t(ψ)`), the piece is
  `P([θ, β])`, arc length from the start `radius·(ψ − θ)`;
* dip decreasing (`θ > β`): centre *above* the surface, `center = b − radius·n(θ)`, `P(ψ) = center − radius·(sin ψ, cos ψ)`,
  the piece is `P([β, θ])` walked from `θ` down to `β`, arc length from the start `radius·(θ − ψ)`.
A point `q ≠ center` is `center ± ρ·(sin ψ, cos ψ)` (`+` increasing, `−` decreasing) for some `ρ > 0` and an angle `ψ` — the dip at
the foot `P(ψ)` of its perpendicular on the circle; it is attributed to the piece when `ψ` lies between `θ` and `β`; the distance
from the surface, positive below, is `radius − ρ` (centre below) resp. `ρ − radius` (centre above).

Proved (ordered field `F`, libm laws `ArcLaws T` — satisfied by the real functions with `acos = Real.arccos`, `real_arcLaws`;
`DipOK T θ`: in the two windows of width `1e-8` where the code snaps the dip to the vertical it is exactly vertical, outside
`cos θ ≠ 0`), for ONE iteration `segmentStep` of the loop, not skipped (`len ≥ 1e-14`), in the circular branch (`|θ − β| ≥ 1e-8`):
* `C06_arc_increasing_dip`   `θ < β`, the point at polar position `(ρ, ψ)`, `ρ ≥ ε`, `0 ≤ ψ ≤ 2π − 1e-14`: radius, centre, end point
                             `P(β)`; the code attributes the point to the piece **iff** `θ ≤ ψ ≤ β` up to the tolerance `1e-12`
                             (in radians); then `newAlong = radius·(ψ − θ)`, `newDistance = radius − ρ`,
                             `newDepthRef = startRadius − P(ψ).y`; otherwise the three `new…` values are left **as the previous
                             iteration left them** (not set to `+∞` as the straight branch does);
* `C06_arc_decreasing_dip`   `θ > β`, the point `center − ρ(sin ψ, cos ψ)`, `−π < ψ ≤ π`: the same with `β ≤ ψ ≤ θ`,
                             `newAlong = radius·(θ − ψ)`, `newDistance = ρ − radius`;
* `C06_arc_foot_increasing`, `C06_arc_foot_decreasing`   the formulation of `C06_arc_piece_full` (`Properties/C06.lean`): turning `b`
                             about the centre by `(θ − β)·newAlong/len` gives the foot `P(ψ)`, and `q − center = (ρ/radius)·(foot − center)`;
* `C06_arc_polar_exhaustive` (over `ℝ`) every point other than the centre has a polar position, so the two theorems above speak about
                             every point of the plane except the disc `ρ < ε` about the centre and the sliver
                             `2π − 1e-14 < ψ < 2π` (increasing dip), where the code snaps the angle to `0`;
* `C06_arc_negative_dip_rejected`, `C06_arc_dip_above_pi_rejected`   **findings**: the angle the code computes lives in `[0, 2π)`
                             for increasing and in `(−π, π]` for decreasing dip.  A piece with increasing dip that starts with a
                             *negative* dip (`θ ≤ ψ < 0`), and a piece with decreasing dip that starts with a dip *above 180°*
                             (`π < ψ ≤ θ`), lose the part of the arc outside that range: points whose foot lies there are in the
                             sector of the planar construction but are NOT attributed (witnesses in the report).
* `C06_arc_piece_full_false`   `C06_arc_piece_full` of `Properties/C06.lean` is FALSE of the model as stated (`¬ C06_arc_piece_full
                             realArcTransc`, witness: dips `0 → 1 rad`, length 1, begin `(0,1)`, check point `(1e-7, 0)`).
`C06_arc_piece_full` is mis-stated for three reasons, each excluded in the theorems above by a hypothesis: (1) it lacks `DipOK`
(inside the `1e-8` windows the centre is computed for a vertical dip while the along-value uses `θ`; and over a field `tan θ` is
unconstrained when `cos θ = 0`); (2) within `ε` of the centre the code sets the angle to `0` whatever the direction (the witness
of `C06_arc_piece_full_false`); (3) in the sliver `2π − 1e-14 < ψ < 2π` the angle is snapped to `0`.  Its content — foot and ray,
distance with the sign "positive below" — is `C06_arc_increasing_dip / _decreasing_dip` + `C06_arc_foot_increasing / _decreasing`.

NOT proved: which piece wins when several accept the point (`segClosest`), the spherical angle correction (it only shifts `θ`, `β`),
real-vs-double arithmetic.
-/
import GwbVerif.Proofs.ArcPiece
import GwbVerif.Properties.C06
namespace Gwb
open Scalar
set_option linter.unusedSectionVars false
set_option linter.unusedVariables false
set_option linter.unusedSimpArgs false

section field
variable {F : Type} [Field F] [LinearOrder F] [IsStrictOrderedRing F]

/-- **C06** the circular piece, dip increasing downwards (`θ < β`; this includes slabs that overturn, `β > π/2`).  For the point `q`
at polar position `(ρ, ψ)` about the centre (`ρ ≥ ε`, `0 ≤ ψ ≤ 2π − 1e-14`; `ψ` = clockwise angle from the upward vertical = dip of
the circle at the foot of `q`): the radius is `len/(β − θ)` (so the arc from dip `θ` to dip `β` has length `len`); the centre is
`b + radius·n(θ)`; the piece begins at `b = P(θ)` and ends at `P(β)`; the code accepts `q` iff `θ ≤ ψ ≤ β` (tolerance `1e-12` rad), and
then stores the arc length `radius·(ψ − θ)`, the distance `radius − ρ` (positive below the surface) and the reference depth
`startRadius − P(ψ).y`; when it rejects `q` it stores `∞` in `newAlong`, `newDistance`, `newDepthRef` (since the upstream repair `7e53c3e5`; before, the previous iteration's values stayed). -/
theorem C06_arc_increasing_dip (T : Transc F) (L : ArcLaws T) (dm : DepthMethod) (onlyPositive : Bool) (startRadius fraction : F)
    (angCur angNext : P2 F) (lenCur lenNext : F) (i : Nat) (s : SegState F) (ρ ψ : F) :
    let s1 := @segPre F (fieldScalar T) dm i s
    let θ := @segAngTop F (fieldScalar T) dm fraction angCur angNext i s1
    let β := @segAngBot F (fieldScalar T) fraction angCur angNext s1
    let len := lenCur + fraction * (lenNext - lenCur)
    let b := s.endSeg
    let radius := len / (β - θ)
    let center : P2 F := ⟨b.x - radius * T.sin θ, b.y - radius * T.cos θ⟩
    let q : P2 F := ⟨center.x + ρ * T.sin ψ, center.y + ρ * T.cos ψ⟩
    let r := @segmentStep F (fieldScalar T) dm onlyPositive startRadius fraction q angCur angNext lenCur lenNext i s
    let inSector := (θ ≤ ψ ∨ |ψ - θ| < 1 / 10 ^ 12) ∧ (ψ ≤ β ∨ |ψ - β| < 1 / 10 ^ 12)
    DipOK T θ → θ < β → ¬ |θ - β| < 1 / 10 ^ 8 → 1 / 10 ^ 14 ≤ len → 0 < ρ → ¬ ρ < T.eps → 0 ≤ ψ → ψ ≤ 2 * T.pi - 1 / 10 ^ 14 →
      0 < radius ∧ radius * (β - θ) = len ∧
      r.beginSeg = b ∧ r.endSeg = ⟨center.x + radius * T.sin β, center.y + radius * T.cos β⟩ ∧
      (inSector → r.newAlong = radius * (ψ - θ) ∧ r.newDistance = radius - ρ ∧
        r.newDepthRef = startRadius - (center.y + radius * T.cos ψ)) ∧
      (¬ inSector → r.newAlong = T.inf ∧ r.newDistance = T.inf ∧ r.newDepthRef = T.inf) := by
  intro s1 θ β len b radius center q r inSector hθ hlt harc hlen hρ hε h0 h1
  have hd : θ - β < 0 := by linarith
  have hpos : 0 < len := lt_of_lt_of_le (by positivity) hlen
  have hnot : ¬ @LT.lt F (fieldScalar T).toLT (@lerpC F (fieldScalar T) lenCur lenNext fraction)
      (@OfScientific.ofScientific F (@Scalar.instOfScientific F (fieldScalar T)) 1 true 14) := by
    rw [lit_1em14]; exact not_lt.mpr hlen
  obtain ⟨g1, g2, g3, g4, g5⟩ := @segmentStep_geom F (fieldScalar T) dm onlyPositive startRadius fraction q angCur angNext lenCur lenNext i s hnot
  have hbs : s1.beginSeg = b := @segPre_beginSeg F (fieldScalar T) dm i s
  have hga := segGeom_arc T startRadius q θ β len s1 harc
  have hs1d : s1.newDistance = s.newDistance := by
    show (@segPre F (fieldScalar T) dm i s).newDistance = _
    unfold segPre; dsimp only; split <;> rfl
  have hs1a : s1.newAlong = s.newAlong := by
    show (@segPre F (fieldScalar T) dm i s).newAlong = _
    unfold segPre; dsimp only; split <;> rfl
  have key := segArc_incr L startRadius θ β len s1 hθ hd hpos ρ ψ hρ hε h0 h1
  rw [hbs] at key
  obtain ⟨k1, k2, k3, k4, k5, k6, k7⟩ := key
  have hge : ∀ (f : SegState F → F), f (@segGeom F (fieldScalar T) startRadius q θ β len s1) = f (@segArc F (fieldScalar T) startRadius q θ β len s1) := by
    intro f; rw [hga]
  refine ⟨k2, ?_, ?_, ?_, fun hin => ?_, fun hout => ?_⟩
  · show len / (β - θ) * (β - θ) = len
    have : β - θ ≠ 0 := by intro h; linarith
    field_simp
  · refine g1.trans ?_
    show (@segGeom F (fieldScalar T) startRadius q θ β len s1).beginSeg = _
    rw [@segGeom_beginSeg F (fieldScalar T), hbs]
  · refine g2.trans ?_
    show (@segGeom F (fieldScalar T) startRadius q θ β len s1).endSeg = _
    rw [hga]; exact k4
  · obtain ⟨a1, a2, a3⟩ := k6 (k5.2 hin)
    exact ⟨g3.trans ((hge (·.newAlong)).trans a1), g4.trans ((hge (·.newDistance)).trans a2), g5.trans ((hge (·.newDepthRef)).trans a3)⟩
  · obtain ⟨a1, a2, a3⟩ := k7 (fun h => hout (k5.1 h))
    exact ⟨g3.trans ((hge (·.newAlong)).trans a1), g4.trans ((hge (·.newDistance)).trans a2), g5.trans ((hge (·.newDepthRef)).trans a3)⟩

/-- **C06** the circular piece, dip decreasing downwards (`θ > β`).  For the point `q = center − ρ(sin ψ, cos ψ)` (`ρ ≥ ε`, `−π < ψ ≤ π`;
`ψ` = dip of the circle at the foot of `q`): the radius is `len/(θ − β)`; the centre is `b − radius·n(θ)` (above the surface); the piece
begins at `b = P(θ)` and ends at `P(β)`, `P(ψ) = center − radius(sin ψ, cos ψ)`; the code accepts `q` iff `β ≤ ψ ≤ θ` (tolerance
`1e-12` rad), and then stores the arc length `radius·(θ − ψ)`, the distance `ρ − radius` (positive below the surface: the centre is
above) and the reference depth `startRadius − P(ψ).y`; when it rejects `q` it stores `∞` in `newAlong`, `newDistance`, `newDepthRef` (since the upstream repair `7e53c3e5`; before, the previous iteration's values stayed). -/
theorem C06_arc_decreasing_dip (T : Transc F) (L : ArcLaws T) (dm : DepthMethod) (onlyPositive : Bool) (startRadius fraction : F)
    (angCur angNext : P2 F) (lenCur lenNext : F) (i : Nat) (s : SegState F) (ρ ψ : F) :
    let s1 := @segPre F (fieldScalar T) dm i s
    let θ := @segAngTop F (fieldScalar T) dm fraction angCur angNext i s1
    let β := @segAngBot F (fieldScalar T) fraction angCur angNext s1
    let len := lenCur + fraction * (lenNext - lenCur)
    let b := s.endSeg
    let radius := len / (θ - β)
    let center : P2 F := ⟨b.x + radius * T.sin θ, b.y + radius * T.cos θ⟩
    let q : P2 F := ⟨center.x - ρ * T.sin ψ, center.y - ρ * T.cos ψ⟩
    let r := @segmentStep F (fieldScalar T) dm onlyPositive startRadius fraction q angCur angNext lenCur lenNext i s
    let inSector := (ψ ≤ θ ∨ |ψ - θ| < 1 / 10 ^ 12) ∧ (β ≤ ψ ∨ |ψ - β| < 1 / 10 ^ 12)
    DipOK T θ → β < θ → ¬ |θ - β| < 1 / 10 ^ 8 → 1 / 10 ^ 14 ≤ len → 0 < ρ → ¬ ρ < T.eps → -T.pi < ψ → ψ ≤ T.pi →
      0 < radius ∧ radius * (θ - β) = len ∧
      r.beginSeg = b ∧ r.endSeg = ⟨center.x - radius * T.sin β, center.y - radius * T.cos β⟩ ∧
      (inSector → r.newAlong = radius * (θ - ψ) ∧ r.newDistance = ρ - radius ∧
        r.newDepthRef = startRadius - (center.y - radius * T.cos ψ)) ∧
      (¬ inSector → r.newAlong = T.inf ∧ r.newDistance = T.inf ∧ r.newDepthRef = T.inf) := by
  intro s1 θ β len b radius center q r inSector hθ hlt harc hlen hρ hε h0 h1
  have hd : 0 < θ - β := by linarith
  have hpos : 0 < len := lt_of_lt_of_le (by positivity) hlen
  have hnot : ¬ @LT.lt F (fieldScalar T).toLT (@lerpC F (fieldScalar T) lenCur lenNext fraction)
      (@OfScientific.ofScientific F (@Scalar.instOfScientific F (fieldScalar T)) 1 true 14) := by
    rw [lit_1em14]; exact not_lt.mpr hlen
  obtain ⟨g1, g2, g3, g4, g5⟩ := @segmentStep_geom F (fieldScalar T) dm onlyPositive startRadius fraction q angCur angNext lenCur lenNext i s hnot
  have hbs : s1.beginSeg = b := @segPre_beginSeg F (fieldScalar T) dm i s
  have hga := segGeom_arc T startRadius q θ β len s1 harc
  have hs1d : s1.newDistance = s.newDistance := by
    show (@segPre F (fieldScalar T) dm i s).newDistance = _
    unfold segPre; dsimp only; split <;> rfl
  have hs1a : s1.newAlong = s.newAlong := by
    show (@segPre F (fieldScalar T) dm i s).newAlong = _
    unfold segPre; dsimp only; split <;> rfl
  have key := segArc_decr L startRadius θ β len s1 hθ hd hpos ρ ψ hρ hε h0 h1
  rw [hbs] at key
  obtain ⟨k1, k2, k3, k4, k5, k6, k7⟩ := key
  have hge : ∀ (f : SegState F → F), f (@segGeom F (fieldScalar T) startRadius q θ β len s1) = f (@segArc F (fieldScalar T) startRadius q θ β len s1) := by
    intro f; rw [hga]
  refine ⟨k2, ?_, ?_, ?_, fun hin => ?_, fun hout => ?_⟩
  · show len / (θ - β) * (θ - β) = len
    have : θ - β ≠ 0 := ne_of_gt hd
    field_simp
  · refine g1.trans ?_
    show (@segGeom F (fieldScalar T) startRadius q θ β len s1).beginSeg = _
    rw [@segGeom_beginSeg F (fieldScalar T), hbs]
  · refine g2.trans ?_
    show (@segGeom F (fieldScalar T) startRadius q θ β len s1).endSeg = _
    rw [hga]; exact k4
  · obtain ⟨a1, a2, a3⟩ := k6 (k5.2 hin)
    exact ⟨g3.trans ((hge (·.newAlong)).trans a1), g4.trans ((hge (·.newDistance)).trans a2), g5.trans ((hge (·.newDepthRef)).trans a3)⟩
  · obtain ⟨a1, a2, a3⟩ := k7 (fun h => hout (k5.1 h))
    exact ⟨g3.trans ((hge (·.newAlong)).trans a1), g4.trans ((hge (·.newDistance)).trans a2), g5.trans ((hge (·.newDepthRef)).trans a3)⟩

/-- **C06** the formulation of `C06_arc_piece_full`, increasing dip: when the stored along-value is `a = radius·(ψ − θ)` (what
`C06_arc_increasing_dip` gives for an accepted point), turning the begin point `b` about the centre by `(θ − β)·a/len` gives the foot
`P(ψ) = center + radius(sin ψ, cos ψ)`, and the point `q = center + ρ(sin ψ, cos ψ)` lies on the ray from the centre through the
foot: `q − center = (ρ/radius)·(foot − center)`, `ρ/radius > 0` -/
theorem C06_arc_foot_increasing (T : Transc F) (L : ArcLaws T) (b : P2 F) (θ β len ρ ψ : F) (hlt : θ < β) (hlen : 0 < len) (hρ : 0 < ρ) :
    let radius := len / (β - θ)
    let center : P2 F := ⟨b.x - radius * T.sin θ, b.y - radius * T.cos θ⟩
    let q : P2 F := ⟨center.x + ρ * T.sin ψ, center.y + ρ * T.cos ψ⟩
    let φ := (θ - β) * (radius * (ψ - θ)) / len
    let foot : P2 F := ⟨T.cos φ * (b.x - center.x) - T.sin φ * (b.y - center.y) + center.x,
                        T.sin φ * (b.x - center.x) + T.cos φ * (b.y - center.y) + center.y⟩
    foot = ⟨center.x + radius * T.sin ψ, center.y + radius * T.cos ψ⟩ ∧ 0 < ρ / radius ∧
    q.x - center.x = ρ / radius * (foot.x - center.x) ∧ q.y - center.y = ρ / radius * (foot.y - center.y) := by
  intro radius center q φ foot
  have hne : β - θ ≠ 0 := by intro h; linarith
  have hrpos : 0 < radius := div_pos hlen (by linarith)
  have hφ : φ = θ - ψ := by
    show (θ - β) * (len / (β - θ) * (ψ - θ)) / len = θ - ψ
    have : len ≠ 0 := ne_of_gt hlen
    field_simp
    ring
  have hfoot : foot = ⟨center.x + radius * T.sin ψ, center.y + radius * T.cos ψ⟩ := by
    have h := arcEnd_incr L b θ ψ radius
    rw [arcEnd_field, ← hφ] at h
    exact h
  refine ⟨hfoot, div_pos hρ hrpos, ?_, ?_⟩
  · rw [hfoot]
    show center.x + ρ * T.sin ψ - center.x = ρ / radius * (center.x + radius * T.sin ψ - center.x)
    have : radius ≠ 0 := ne_of_gt hrpos
    field_simp
    ring
  · rw [hfoot]
    show center.y + ρ * T.cos ψ - center.y = ρ / radius * (center.y + radius * T.cos ψ - center.y)
    have : radius ≠ 0 := ne_of_gt hrpos
    field_simp
    ring

/-- **C06** the formulation of `C06_arc_piece_full`, decreasing dip: with the stored along-value `a = radius·(θ − ψ)`, turning `b`
about the centre by `(θ − β)·a/len` gives the foot `P(ψ) = center − radius(sin ψ, cos ψ)`, and `q = center − ρ(sin ψ, cos ψ)` lies on
the ray from the centre through the foot -/
theorem C06_arc_foot_decreasing (T : Transc F) (L : ArcLaws T) (b : P2 F) (θ β len ρ ψ : F) (hlt : β < θ) (hlen : 0 < len) (hρ : 0 < ρ) :
    let radius := len / (θ - β)
    let center : P2 F := ⟨b.x + radius * T.sin θ, b.y + radius * T.cos θ⟩
    let q : P2 F := ⟨center.x - ρ * T.sin ψ, center.y - ρ * T.cos ψ⟩
    let φ := (θ - β) * (radius * (θ - ψ)) / len
    let foot : P2 F := ⟨T.cos φ * (b.x - center.x) - T.sin φ * (b.y - center.y) + center.x,
                        T.sin φ * (b.x - center.x) + T.cos φ * (b.y - center.y) + center.y⟩
    foot = ⟨center.x - radius * T.sin ψ, center.y - radius * T.cos ψ⟩ ∧ 0 < ρ / radius ∧
    q.x - center.x = ρ / radius * (foot.x - center.x) ∧ q.y - center.y = ρ / radius * (foot.y - center.y) := by
  intro radius center q φ foot
  have hne : θ - β ≠ 0 := by intro h; linarith
  have hrpos : 0 < radius := div_pos hlen (by linarith)
  have hφ : φ = θ - ψ := by
    show (θ - β) * (len / (θ - β) * (θ - ψ)) / len = θ - ψ
    have : len ≠ 0 := ne_of_gt hlen
    field_simp
  have hfoot : foot = ⟨center.x - radius * T.sin ψ, center.y - radius * T.cos ψ⟩ := by
    have h := arcEnd_decr L b θ ψ radius
    rw [arcEnd_field, ← hφ] at h
    exact h
  refine ⟨hfoot, div_pos hρ hrpos, ?_, ?_⟩
  · rw [hfoot]
    show center.x - ρ * T.sin ψ - center.x = ρ / radius * (center.x - radius * T.sin ψ - center.x)
    have : radius ≠ 0 := ne_of_gt hrpos
    field_simp
    ring
  · rw [hfoot]
    show center.y - ρ * T.cos ψ - center.y = ρ / radius * (center.y - radius * T.cos ψ - center.y)
    have : radius ≠ 0 := ne_of_gt hrpos
    field_simp
    ring

/-- **C06, finding** (increasing dip that starts *negative*, `θ < 0`): the part of the arc where the dip is still negative is lost.
A point `q = center + ρ(sin ψ, cos ψ)` whose foot has a dip `ψ` with `θ ≤ ψ ≤ −1e-14` (and `ψ ≤ β`, `β + 1e-12 ≤ ψ + 2π` — e.g. any
`β < π`) lies in the sector of the planar construction, but the code computes the angle `ψ + 2π ∈ [0, 2π)`, finds it larger than `β`
and does not attribute the point (`newAlong = newDistance = newDepthRef = ∞`). -/
theorem C06_arc_negative_dip_rejected (T : Transc F) (L : ArcLaws T) (dm : DepthMethod) (onlyPositive : Bool) (startRadius fraction : F)
    (angCur angNext : P2 F) (lenCur lenNext : F) (i : Nat) (s : SegState F) (ρ ψ : F) :
    let s1 := @segPre F (fieldScalar T) dm i s
    let θ := @segAngTop F (fieldScalar T) dm fraction angCur angNext i s1
    let β := @segAngBot F (fieldScalar T) fraction angCur angNext s1
    let len := lenCur + fraction * (lenNext - lenCur)
    let b := s.endSeg
    let radius := len / (β - θ)
    let center : P2 F := ⟨b.x - radius * T.sin θ, b.y - radius * T.cos θ⟩
    let q : P2 F := ⟨center.x + ρ * T.sin ψ, center.y + ρ * T.cos ψ⟩
    let r := @segmentStep F (fieldScalar T) dm onlyPositive startRadius fraction q angCur angNext lenCur lenNext i s
    DipOK T θ → θ < β → ¬ |θ - β| < 1 / 10 ^ 8 → 1 / 10 ^ 14 ≤ len → 0 < ρ → ¬ ρ < T.eps →
    θ ≤ ψ → ψ ≤ β → -(2 * T.pi) ≤ ψ → ψ ≤ -(1 / 10 ^ 14) → β + 1 / 10 ^ 12 ≤ ψ + 2 * T.pi →
      r.newAlong = T.inf ∧ r.newDistance = T.inf ∧ r.newDepthRef = T.inf := by
  intro s1 θ β len b radius center q r hθ hlt harc hlen hρ hε h1 h2 h3 h4 h5
  have key := C06_arc_increasing_dip T L dm onlyPositive startRadius fraction angCur angNext lenCur lenNext i s ρ (ψ + 2 * T.pi)
  dsimp only at key
  rw [L.sin_add_two_pi, L.cos_add_two_pi] at key
  obtain ⟨_, _, _, _, _, k⟩ := key hθ hlt harc hlen hρ hε (by linarith) (by linarith)
  apply k
  rintro ⟨_, h | h⟩
  · have : (0 : F) < 1 / 10 ^ 12 := by positivity
    linarith
  · rw [abs_of_nonneg (by linarith)] at h
    linarith

/-- **C06, finding** (decreasing dip that starts *above 180°*, `θ > π`): the part of the arc where the dip is still above `π` is lost.
A point `q = center − ρ(sin ψ, cos ψ)` whose foot has a dip `ψ` with `π < ψ ≤ θ` (and `β ≤ ψ`, `ψ − 2π + 1e-12 ≤ β` — e.g. any `β ≥ 1e-12` when
`ψ ≤ 2π`) lies in the sector of the planar construction, but the code computes the angle `ψ − 2π ∈ (−π, π]`, finds it smaller than `β`
and does not attribute the point. -/
theorem C06_arc_dip_above_pi_rejected (T : Transc F) (L : ArcLaws T) (dm : DepthMethod) (onlyPositive : Bool) (startRadius fraction : F)
    (angCur angNext : P2 F) (lenCur lenNext : F) (i : Nat) (s : SegState F) (ρ ψ : F) :
    let s1 := @segPre F (fieldScalar T) dm i s
    let θ := @segAngTop F (fieldScalar T) dm fraction angCur angNext i s1
    let β := @segAngBot F (fieldScalar T) fraction angCur angNext s1
    let len := lenCur + fraction * (lenNext - lenCur)
    let b := s.endSeg
    let radius := len / (θ - β)
    let center : P2 F := ⟨b.x + radius * T.sin θ, b.y + radius * T.cos θ⟩
    let q : P2 F := ⟨center.x - ρ * T.sin ψ, center.y - ρ * T.cos ψ⟩
    let r := @segmentStep F (fieldScalar T) dm onlyPositive startRadius fraction q angCur angNext lenCur lenNext i s
    DipOK T θ → β < θ → ¬ |θ - β| < 1 / 10 ^ 8 → 1 / 10 ^ 14 ≤ len → 0 < ρ → ¬ ρ < T.eps →
    ψ ≤ θ → β ≤ ψ → T.pi < ψ → ψ ≤ 3 * T.pi → ψ - 2 * T.pi + 1 / 10 ^ 12 ≤ β →
      r.newAlong = T.inf ∧ r.newDistance = T.inf ∧ r.newDepthRef = T.inf := by
  intro s1 θ β len b radius center q r hθ hlt harc hlen hρ hε h1 h2 h3 h4 h5
  have key := C06_arc_decreasing_dip T L dm onlyPositive startRadius fraction angCur angNext lenCur lenNext i s ρ (ψ - 2 * T.pi)
  dsimp only at key
  rw [L.sin_sub_two_pi, L.cos_sub_two_pi] at key
  obtain ⟨_, _, _, _, _, k⟩ := key hθ hlt harc hlen hρ hε (by linarith) (by linarith)
  apply k
  rintro ⟨_, h | h⟩
  · have : (0 : F) < 1 / 10 ^ 12 := by positivity
    linarith
  · rw [abs_of_nonpos (by linarith)] at h
    linarith

end field

/-- **C06** over `ℝ` every point `q` other than the centre is at a polar position: `q = center + ρ(sin ψ, cos ψ)`, `ρ > 0`, `0 ≤ ψ < 2π`,
and also `q = center − ρ(sin ψ', cos ψ')`, `−π < ψ' ≤ π` — the parametrisations of `C06_arc_increasing_dip`, `C06_arc_decreasing_dip` -/
theorem C06_arc_polar_exhaustive (q center : P2 ℝ) (h : q ≠ center) :
    (∃ ρ ψ : ℝ, 0 < ρ ∧ 0 ≤ ψ ∧ ψ < 2 * Real.pi ∧ q = ⟨center.x + ρ * Real.sin ψ, center.y + ρ * Real.cos ψ⟩) ∧
    (∃ ρ ψ : ℝ, 0 < ρ ∧ -Real.pi < ψ ∧ ψ ≤ Real.pi ∧ q = ⟨center.x - ρ * Real.sin ψ, center.y - ρ * Real.cos ψ⟩) := by
  have hne : q.x - center.x ≠ 0 ∨ q.y - center.y ≠ 0 := by
    by_contra hc
    rw [not_or, not_not, not_not] at hc
    apply h
    cases q; cases center
    simp only [P2.mk.injEq]
    constructor <;> linarith [hc.1, hc.2]
  obtain ⟨ρ, ψ, hρ, h0, h1, hx, hy⟩ := real_polar _ _ hne
  have hq : q = ⟨center.x + ρ * Real.sin ψ, center.y + ρ * Real.cos ψ⟩ := by
    cases q; cases center
    simp only [P2.mk.injEq] at hx hy ⊢
    constructor <;> linarith
  have hpi := Real.pi_pos
  refine ⟨⟨ρ, ψ, hρ, h0, h1, hq⟩, ?_⟩
  by_cases hψ : ψ = 0
  · refine ⟨ρ, Real.pi, hρ, by linarith, le_rfl, ?_⟩
    rw [hq, hψ, Real.sin_zero, Real.cos_zero, Real.sin_pi, Real.cos_pi]
    congr 1 <;> ring
  · have hpos : 0 < ψ := lt_of_le_of_ne h0 (Ne.symm hψ)
    refine ⟨ρ, ψ - Real.pi, hρ, by linarith, by linarith, ?_⟩
    rw [hq, Real.sin_sub_pi, Real.cos_sub_pi]
    congr 1 <;> ring

/-! ### the hypotheses of the theorems above are satisfiable (real functions; first segment, no angle correction, fraction 0) -/

/-- `ArcLaws` is satisfiable, and so are the hypotheses of `C06_arc_increasing_dip` with a point inside the sector: dips `0.5 → 1 rad`
over `100 km`, the point at polar position `(1, 0.75)` -/
example (s : SegState ℝ) (h0 : s.addAngle = 0) :
    let s1 := @segPre ℝ (fieldScalar realArcTransc) .none 0 s
    let θ := @segAngTop ℝ (fieldScalar realArcTransc) .none 0 ⟨1 / 2, 1⟩ ⟨1 / 2, 1⟩ 0 s1
    let β := @segAngBot ℝ (fieldScalar realArcTransc) 0 ⟨1 / 2, 1⟩ ⟨1 / 2, 1⟩ s1
    ArcLaws realArcTransc ∧ DipOK realArcTransc θ ∧ θ < β ∧ ¬ |θ - β| < 1 / 10 ^ 8 ∧
      (1 : ℝ) / 10 ^ 14 ≤ 100000 + 0 * (100000 - 100000) ∧ (0 : ℝ) < 1 ∧ ¬ (1 : ℝ) < realArcTransc.eps ∧ (0 : ℝ) ≤ 3 / 4 ∧
      (3 / 4 : ℝ) ≤ 2 * realArcTransc.pi - 1 / 10 ^ 14 ∧
      ((θ ≤ 3 / 4 ∨ |(3 / 4 : ℝ) - θ| < 1 / 10 ^ 12) ∧ ((3 / 4 : ℝ) ≤ β ∨ |(3 / 4 : ℝ) - β| < 1 / 10 ^ 12)) := by
  intro s1 θ β
  obtain ⟨hθ, hβ⟩ := ex_arc_angles s h0 ⟨1 / 2, 1⟩
  have hθ' : θ = 1 / 2 := hθ
  have hβ' : β = 1 := hβ
  have hp : (2 : ℝ) ≤ Real.pi := Real.two_le_pi
  rw [hθ', hβ']
  refine ⟨real_arcLaws, real_dipOK_half, by norm_num, by norm_num [abs_lt], by norm_num, by norm_num, by norm_num [realArcTransc, realTransc],
    by norm_num, ?_, Or.inl (by norm_num), Or.inl (by norm_num)⟩
  show (3 / 4 : ℝ) ≤ 2 * Real.pi - 1 / 10 ^ 14
  norm_num
  linarith

/-- the hypotheses of `C06_arc_decreasing_dip` are satisfiable with a point inside the sector: dips `0.5 → 0.25 rad`, `ψ = 0.375` -/
example (s : SegState ℝ) (h0 : s.addAngle = 0) :
    let s1 := @segPre ℝ (fieldScalar realArcTransc) .none 0 s
    let θ := @segAngTop ℝ (fieldScalar realArcTransc) .none 0 ⟨1 / 2, 1 / 4⟩ ⟨1 / 2, 1 / 4⟩ 0 s1
    let β := @segAngBot ℝ (fieldScalar realArcTransc) 0 ⟨1 / 2, 1 / 4⟩ ⟨1 / 2, 1 / 4⟩ s1
    DipOK realArcTransc θ ∧ β < θ ∧ ¬ |θ - β| < 1 / 10 ^ 8 ∧
      (1 : ℝ) / 10 ^ 14 ≤ 100000 + 0 * (100000 - 100000) ∧ (0 : ℝ) < 1 ∧ ¬ (1 : ℝ) < realArcTransc.eps ∧ -realArcTransc.pi < (3 / 8 : ℝ) ∧
      (3 / 8 : ℝ) ≤ realArcTransc.pi ∧
      (((3 / 8 : ℝ) ≤ θ ∨ |(3 / 8 : ℝ) - θ| < 1 / 10 ^ 12) ∧ (β ≤ 3 / 8 ∨ |(3 / 8 : ℝ) - β| < 1 / 10 ^ 12)) := by
  intro s1 θ β
  obtain ⟨hθ, hβ⟩ := ex_arc_angles s h0 ⟨1 / 2, 1 / 4⟩
  have hθ' : θ = 1 / 2 := hθ
  have hβ' : β = 1 / 4 := hβ
  have hp : (2 : ℝ) ≤ Real.pi := Real.two_le_pi
  rw [hθ', hβ']
  refine ⟨real_dipOK_half, by norm_num, by norm_num [abs_lt], by norm_num, by norm_num, by norm_num [realArcTransc, realTransc],
    ?_, ?_, Or.inl (by norm_num), Or.inl (by norm_num)⟩
  · show -Real.pi < (3 / 8 : ℝ)
    linarith
  · show (3 / 8 : ℝ) ≤ Real.pi
    linarith

/-- the hypotheses of the finding `C06_arc_negative_dip_rejected` are satisfiable: dips `−0.5 → 0.5 rad`, a foot at dip `−0.25 rad` -/
example (s : SegState ℝ) (h0 : s.addAngle = 0) :
    let s1 := @segPre ℝ (fieldScalar realArcTransc) .none 0 s
    let θ := @segAngTop ℝ (fieldScalar realArcTransc) .none 0 ⟨-1 / 2, 1 / 2⟩ ⟨-1 / 2, 1 / 2⟩ 0 s1
    let β := @segAngBot ℝ (fieldScalar realArcTransc) 0 ⟨-1 / 2, 1 / 2⟩ ⟨-1 / 2, 1 / 2⟩ s1
    DipOK realArcTransc θ ∧ θ < β ∧ ¬ |θ - β| < 1 / 10 ^ 8 ∧
      (1 : ℝ) / 10 ^ 14 ≤ 100000 + 0 * (100000 - 100000) ∧ (0 : ℝ) < 1 ∧ ¬ (1 : ℝ) < realArcTransc.eps ∧
      θ ≤ -1 / 4 ∧ (-1 / 4 : ℝ) ≤ β ∧ -(2 * realArcTransc.pi) ≤ (-1 / 4 : ℝ) ∧ (-1 / 4 : ℝ) ≤ -(1 / 10 ^ 14) ∧
      β + 1 / 10 ^ 12 ≤ -1 / 4 + 2 * realArcTransc.pi := by
  intro s1 θ β
  obtain ⟨hθ, hβ⟩ := ex_arc_angles s h0 ⟨-1 / 2, 1 / 2⟩
  have hθ' : θ = -1 / 2 := hθ
  have hβ' : β = 1 / 2 := hβ
  have hp : (2 : ℝ) ≤ Real.pi := Real.two_le_pi
  rw [hθ', hβ']
  refine ⟨real_dipOK_small _ (by norm_num [abs_le]), by norm_num, by norm_num [abs_lt], by norm_num, by norm_num,
    by norm_num [realArcTransc, realTransc], by norm_num, by norm_num, ?_, by norm_num, ?_⟩
  · show -(2 * Real.pi) ≤ (-1 / 4 : ℝ)
    linarith
  · show (1 / 2 : ℝ) + 1 / 10 ^ 12 ≤ -1 / 4 + 2 * Real.pi
    norm_num
    linarith

/-- the hypotheses of the finding `C06_arc_dip_above_pi_rejected` are satisfiable: dips `π + 0.25 → π − 0.25`, a foot at dip `π + 0.125` -/
example (s : SegState ℝ) (h0 : s.addAngle = 0) :
    let s1 := @segPre ℝ (fieldScalar realArcTransc) .none 0 s
    let θ := @segAngTop ℝ (fieldScalar realArcTransc) .none 0 ⟨Real.pi + 1 / 4, Real.pi + -1 / 4⟩ ⟨Real.pi + 1 / 4, Real.pi + -1 / 4⟩ 0 s1
    let β := @segAngBot ℝ (fieldScalar realArcTransc) 0 ⟨Real.pi + 1 / 4, Real.pi + -1 / 4⟩ ⟨Real.pi + 1 / 4, Real.pi + -1 / 4⟩ s1
    DipOK realArcTransc θ ∧ β < θ ∧ ¬ |θ - β| < 1 / 10 ^ 8 ∧
      (1 : ℝ) / 10 ^ 14 ≤ 100000 + 0 * (100000 - 100000) ∧ (0 : ℝ) < 1 ∧ ¬ (1 : ℝ) < realArcTransc.eps ∧
      Real.pi + 1 / 8 ≤ θ ∧ β ≤ Real.pi + 1 / 8 ∧ realArcTransc.pi < Real.pi + 1 / 8 ∧ Real.pi + 1 / 8 ≤ 3 * realArcTransc.pi ∧
      Real.pi + 1 / 8 - 2 * realArcTransc.pi + 1 / 10 ^ 12 ≤ β := by
  intro s1 θ β
  obtain ⟨hθ, hβ⟩ := ex_arc_angles s h0 ⟨Real.pi + 1 / 4, Real.pi + -1 / 4⟩
  have hθ' : θ = Real.pi + 1 / 4 := hθ
  have hβ' : β = Real.pi + -1 / 4 := hβ
  have hp : (2 : ℝ) ≤ Real.pi := Real.two_le_pi
  rw [hθ', hβ']
  have hpi : realArcTransc.pi = Real.pi := rfl
  rw [hpi]
  refine ⟨real_dipOK_near_pi _ (by norm_num [abs_le]), by linarith, ?_, by norm_num, by norm_num,
    by norm_num [realArcTransc, realTransc], by linarith, by linarith, by linarith, by linarith, ?_⟩
  · have : Real.pi + 1 / 4 - (Real.pi + -1 / 4) = 1 / 2 := by ring
    rw [this]; norm_num [abs_lt]
  · norm_num
    linarith

/-! ### `C06_arc_piece_full` (`Properties/C06.lean`) is false of the model as stated -/

/-- **C06** `C06_arc_piece_full` is FALSE for the real functions: one segment, dips `0 → 1 rad` over length `1`, begin point `(0, 1)`
(radius `1`, centre `(0, 0)`), check point `(1e-7, 0)` — closer than `ε` to the centre, where the code sets the angle to `0`
whatever the direction: the point is accepted with along-value `0`, the foot of the statement is the begin point `(0, 1)`, and
`(1e-7, 0)` is not on the ray from the centre through it.  (The corrected statement is `C06_arc_increasing_dip` /
`C06_arc_foot_increasing`, which assume `ρ ≥ ε`.) -/
theorem C06_arc_piece_full_false : ¬ C06_arc_piece_full realArcTransc := by
  intro h
  obtain ⟨s, hsE, hsA⟩ : ∃ s : SegState ℝ, s.endSeg = ⟨0, 1⟩ ∧ s.addAngle = 0 :=
    ⟨{ distance := 0, newDistance := 0, along := 0, newAlong := 0, newDepthRef := 0, segment := 0, segmentFraction := 0,
       totalAverageAngle := 0, depthRef := 0, beginSeg := ⟨0, 1⟩, endSeg := ⟨0, 1⟩, totalLength := 0, addAngle := 0,
       addAngleCorrection := 0, averageAngle := 0, found := false }, rfl, rfl⟩
  have key := h .none false 1 0 ⟨1 / 10 ^ 7, 0⟩ ⟨0, 1⟩ ⟨0, 1⟩ 1 1 0 s
  obtain ⟨hθ, hβ⟩ := ex_arc_angles s hsA ⟨0, 1⟩
  have hp : (2 : ℝ) ≤ Real.pi := Real.two_le_pi
  dsimp only at key
  rw [hθ, hβ] at key
  have hl : (1 : ℝ) + 0 * (1 - 1) = 1 := by norm_num
  rw [hl] at key
  have hd : (0 : ℝ) - 1 = -1 := by norm_num
  rw [hd] at key
  have hrad : @arcRadius ℝ (fieldScalar realArcTransc) 1 (-1) = 1 := by
    rw [arcRadius_field]; norm_num
  rw [hrad, hsE] at key
  have hcen : @arcCenter ℝ (fieldScalar realArcTransc) ⟨0, 1⟩ 0 (-1) 1 = ⟨0, 0⟩ := by
    rw [arcCenter_eq real_arcLaws.plane ⟨0, 1⟩ 0 (-1) 1 (real_dipOK_small 0 (by norm_num)) (by norm_num), if_pos (by norm_num)]
    show (⟨0 - 1 * Real.sin 0, 1 - 1 * Real.cos 0⟩ : P2 ℝ) = ⟨0, 0⟩
    rw [Real.sin_zero, Real.cos_zero]; norm_num
  rw [hcen] at key
  have hcpa : @arcCpa ℝ (fieldScalar realArcTransc) ⟨1 / 10 ^ 7, 0⟩ ⟨0, 0⟩ 1 (-1) = 0 := by
    rw [arcCpa_field]
    have h0 : cpa0 realArcTransc ⟨1 / 10 ^ 7, 0⟩ ⟨0, 0⟩ 1 = 2 * Real.pi := by
      unfold cpa0
      dsimp only
      have hn : ((1 : ℝ) / 10 ^ 7 - 0) * (1 / 10 ^ 7 - 0) + (0 - 0) * (0 - 0) = (1 / 10 ^ 7) * (1 / 10 ^ 7) := by ring
      rw [hn]
      show (if |Real.sqrt (1 / 10 ^ 7 * (1 / 10 ^ 7))| < (1 : ℝ) / 1000000 then 2 * Real.pi else _) = _
      rw [Real.sqrt_mul_self (by positivity), if_pos]
      rw [abs_of_pos (by positivity)]
      norm_num
    rw [h0]
    show (if |(if (-1 : ℝ) ≥ 0 then Real.pi - 2 * Real.pi else 2 * Real.pi - 2 * Real.pi) - 2 * Real.pi| < 1 / 10 ^ 14 then (0 : ℝ)
      else (if (-1 : ℝ) ≥ 0 then Real.pi - 2 * Real.pi else 2 * Real.pi - 2 * Real.pi)) = 0
    rw [if_neg (by norm_num : ¬ (-1 : ℝ) ≥ 0), sub_self]
    split <;> rfl
  rw [hcpa] at key
  have hacc : @arcAccept ℝ (fieldScalar realArcTransc) (-1) 0 0 1 := by
    rw [arcAccept_field]
    exact Or.inr ⟨by norm_num, Or.inl le_rfl, Or.inl (by norm_num)⟩
  obtain ⟨⟨μ, _, hx, _⟩, _⟩ := key (by norm_num [abs_lt]) (by norm_num) hacc
  -- the along value of the step
  have hnot : ¬ @LT.lt ℝ (fieldScalar realArcTransc).toLT (@lerpC ℝ (fieldScalar realArcTransc) 1 1 0)
      (@OfScientific.ofScientific ℝ (@Scalar.instOfScientific ℝ (fieldScalar realArcTransc)) 1 true 14) := by
    rw [lit_1em14]
    show ¬ (1 : ℝ) + 0 * (1 - 1) < 1 / 10 ^ 14
    norm_num
  obtain ⟨_, _, g3, _, _⟩ := @segmentStep_geom ℝ (fieldScalar realArcTransc) .none false 1 0 ⟨1 / 10 ^ 7, 0⟩ ⟨0, 1⟩ ⟨0, 1⟩ 1 1 0 s hnot
  rw [hθ, hβ] at g3
  have hl' : @lerpC ℝ (fieldScalar realArcTransc) 1 1 0 = 1 := by
    show (1 : ℝ) + 0 * (1 - 1) = 1
    norm_num
  rw [hl', segGeom_arc realArcTransc 1 ⟨1 / 10 ^ 7, 0⟩ 0 1 1 _ (by norm_num [abs_lt])] at g3
  have hbs : (@segPre ℝ (fieldScalar realArcTransc) .none 0 s).beginSeg = ⟨0, 1⟩ := by
    rw [@segPre_beginSeg ℝ (fieldScalar realArcTransc), hsE]
  have hacc' := segArc_accept (T := realArcTransc) 1 ⟨1 / 10 ^ 7, 0⟩ 0 1 1 (@segPre ℝ (fieldScalar realArcTransc) .none 0 s)
  dsimp only at hacc'
  rw [hbs, hd, hrad, hcen, hcpa] at hacc'
  obtain ⟨_, a2, _⟩ := hacc' hacc
  rw [a2] at g3
  rw [g3] at hx
  -- now `hx : 1e-7 − 0 = μ * (cos φ * (0 − 0) − sin φ * (1 − 0) + 0 − 0)` with `φ = −1 * ((1*0 − 1*0) * …) / 1`
  have hφ : (-1 : ℝ) * ((1 * 0 - 1 * 0) * if (-1 : ℝ) < 0 then 1 else -1) / 1 = 0 := by norm_num
  rw [hφ] at hx
  have hx' : (1 : ℝ) / 10 ^ 7 - 0 = μ * (Real.cos 0 * (0 - 0) - Real.sin 0 * (1 - 0) + 0 - 0) := hx
  rw [Real.sin_zero, Real.cos_zero] at hx'
  norm_num at hx'

end Gwb
