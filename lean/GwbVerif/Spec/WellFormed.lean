/-
Well-formedness of parsed worlds (C12 / C13): the list-shape invariants that the *indexing* code of the query
functions relies on.  Every array access of the C++ is `idx xs i` in the model (`Err.internal` when out of range);
`…WellFormed` collects exactly the relations between list lengths under which no such access can fail.

* C12 (`Properties/C12.lean`): the parser establishes them (or: which of them it does not establish);
* C13 (`Properties/C13.lean`): they suffice — no query on a well-formed feature returns `Err.internal`.

Core Lean only (no Mathlib): the predicates are `Prop`s over the `Scalar`-polymorphic model.
-/
import GwbVerif.Model.World
namespace Gwb
open Scalar
variable {R : Type} [Scalar R]

/-! ### depth surfaces -/

/-- A depth surface is either constant (no lookup at all) or carries a non-empty kd-tree whose nodes point at
existing triangles, each triangle with its precomputed row (`in_triangle_precomputed`). -/
def Surface.WellFormed (s : Surface R) : Prop :=
  s.constant = true ∨
    (0 < s.nodes.size ∧ s.pre.size = s.triangles.size ∧ ∀ i, (h : i < s.nodes.size) → (s.nodes[i]).index < s.triangles.size)

def DepthRange.WellFormed (r : DepthRange R) : Prop := r.minS.WellFormed ∧ r.maxS.WellFormed

/-- the dumped triangulation / kd-tree of one non-constant surface (an input of the model, produced by the library's own
`delaunator` and `KDTree::create_tree`): a non-empty tree whose nodes point at dumped triangles -/
def SurfaceAux.WellFormed (a : SurfaceAux R) : Prop :=
  0 < a.nodes.size ∧ ∀ i, (h : i < a.nodes.size) → (a.nodes[i]).index < a.triangles.size

/-! ### area / plume models -/

/-- ridge data of the oceanic temperature models: at least one ridge, no empty ridge, one spreading velocity per ridge point -/
def RidgeSpec.WellFormed (r : RidgeSpec R) : Prop :=
  0 < r.ridges.length ∧ (∀ rd ∈ r.ridges, 0 < rd.length) ∧ r.vels.length = r.ridges.length ∧
    ∀ (i : Nat) (rd : List (P2 R)) (vs : List R), r.ridges[i]? = some rd → r.vels[i]? = some vs → vs.length = rd.length

/-- the tables of the gaussian plume temperature have one common length (what `Gaussian::parse_entries` checks) -/
def TempModel.LengthsOk : TempModel R → Prop
  | .gaussian _ depths centerT sigmas => centerT.length = depths.length ∧ sigmas.length = depths.length
  | .uniform rng .. => rng.WellFormed
  | .linear rng .. => rng.WellFormed
  | .adiabatic rng .. => rng.WellFormed
  | .chapman rng .. => rng.WellFormed
  | .halfSpace rng _ _ _ ridge => rng.WellFormed ∧ ridge.WellFormed
  | .plateModel rng _ _ _ ridge => rng.WellFormed ∧ ridge.WellFormed
  | .plateModelConstantAge rng .. => rng.WellFormed

/-- … and that common length is at least one (`front()` / `back()` are used on them) -/
def TempModel.TablesNonEmpty : TempModel R → Prop
  | .gaussian _ depths _ _ => 0 < depths.length
  | _ => True

def TempModel.WellFormed (m : TempModel R) : Prop := m.LengthsOk ∧ m.TablesNonEmpty

def CompModel.WellFormed : CompModel R → Prop
  | .uniform rng _ comps fractions => rng.WellFormed ∧ fractions.length = comps.length
  | .random rng _ comps minValue maxValue => rng.WellFormed ∧ minValue.length = comps.length ∧ maxValue.length = comps.length
  | .tianWater rng _ _ _ => rng.WellFormed

def VelModel.WellFormed : VelModel R → Prop
  | .uniformRaw rng .. => rng.WellFormed

def GrainsModel.WellFormed : GrainsModel R → Prop
  | .uniform rng comps mats sizes => rng.WellFormed ∧ mats.length = comps.length ∧ sizes.length = comps.length
  | .randomUniform rng comps sizes normalize => rng.WellFormed ∧ sizes.length = comps.length ∧ normalize.length = comps.length
  | .randomUniformDeflected rng comps basis sizes normalize deflections =>
    rng.WellFormed ∧ basis.length = comps.length ∧ sizes.length = comps.length ∧ normalize.length = comps.length ∧
      deflections.length = comps.length

/-- the four model lists, with the temperature models' requirement as a parameter (`LengthsOk` or `WellFormed`) -/
def Models.WellFormedWith (P : TempModel R → Prop) (ms : Models R) : Prop :=
  (∀ m ∈ ms.temps, P m) ∧ (∀ m ∈ ms.vels, m.WellFormed) ∧ (∀ m ∈ ms.comps, m.WellFormed) ∧ (∀ m ∈ ms.grains, m.WellFormed)

def Models.WellFormed (ms : Models R) : Prop := ms.WellFormedWith TempModel.WellFormed

/-! ### features -/

/-- continental plate, oceanic plate, mantle layer: a polygon (≥ 3 corners) and well-formed depth surfaces and models.
The indexing code needs the surfaces and the models only (`AreaFeature.IndexSafe`); neither the schema (`minItems 1`) nor the
parser asks for three corners, and a "polygon" with one or two corners is harmless for the point-in-polygon loop. -/
def AreaFeature.IndexSafe (f : AreaFeature R) : Prop := f.rng.WellFormed ∧ f.models.WellFormed

def AreaFeature.WellFormed (f : AreaFeature R) : Prop := 3 ≤ f.coords.length ∧ f.IndexSafe

/-- the four cross-section lists of a plume have one entry per coordinate, and there is at least one coordinate -/
def PlumeFeature.ListsOk (f : PlumeFeature R) : Prop :=
  0 < f.coords.length ∧ f.depths.length = f.coords.length ∧ f.semiMajor.length = f.coords.length ∧
    f.ecc.length = f.coords.length ∧ f.rot.length = f.coords.length

def PlumeFeature.WellFormed (f : PlumeFeature R) : Prop := f.ListsOk ∧ f.models.WellFormed

/-- `depths[i] < depths[i+1]` (what `Plume::parse_entries` checks after the `fix:`) -/
def StrictAscending (xs : List R) : Prop := ∀ (i : Nat) (a b : R), xs[i]? = some a → xs[i + 1]? = some b → a < b

def LineComp.WellFormed : LineComp R → Prop
  | .uniform _ _ _ comps fractions => fractions.length = comps.length
  | .smooth _ _ _ _ comps topF bottomF => topF.length = comps.length ∧ bottomF.length = comps.length
  | .tianWater .. => True

def LineGrains.WellFormed : LineGrains R → Prop
  | .uniform _ _ comps mats sizes => mats.length = comps.length ∧ sizes.length = comps.length
  | .randomUniform _ _ comps sizes normalize => sizes.length = comps.length ∧ normalize.length = comps.length
  | .randomUniformDeflected _ _ comps basis sizes normalize deflections =>
    basis.length = comps.length ∧ sizes.length = comps.length ∧ normalize.length = comps.length ∧ deflections.length = comps.length
  | .drawn _ => True

/-- every comparison of the scalar type decides one way or the other: there is no NaN.  True of every ordered field; false of IEEE doubles. -/
def CmpTotal (R : Type) [Scalar R] : Prop := ∀ a b : R, (a < b ∨ a ≥ b) ∧ (a ≤ b ∨ a > b)

/-- slab `mass conserving`: the tables the ridge search indexes fit together — the ridge data as for the oceanic models; a first
subducting velocity exists; if the subducting velocities are given per ridge point (first row longer than 1) there is one row per ridge,
one value per ridge point, and one `ridge_migration_times` entry (= one `spreading velocity` item) per ridge: all of this is what
`MassConserving::parse_entries` checks (after the upstream fixes) on a schema-valid document.
The spline table itself is always indexed in range (`2·(spline_n_points+1) ≥ 2` rows, Proofs/WellFormed.lean) — except by a NaN index
(`static_cast<int>` of it is undefined in the C++, `Err.internal` in the model), which the library can produce
(e.g. `number of points in spline: 0` with `max distance slab top: 0`): with the spline on, the scalar type must have no NaN. -/
def MassConserving.WellFormed (m : MassConserving R) : Prop :=
  m.ridge.WellFormed ∧
  (∃ sv0 v, m.subVel[0]? = some sv0 ∧ sv0[0]? = some v) ∧
  ((∃ sv0, m.subVel[0]? = some sv0 ∧ 1 < sv0.length) →
    m.subVel.length = m.ridge.ridges.length ∧ m.ridge.ridges.length ≤ m.migrationTimes.length ∧
    ∀ (i : Nat) (rd : List (P2 R)) (sv : List R), m.ridge.ridges[i]? = some rd → m.subVel[i]? = some sv → sv.length = rd.length) ∧
  (m.applySpline = true → CmpTotal R)

/-- temperature models of a segment: only `mass conserving` indexes anything -/
def SegTemp.WellFormed : SegTemp R → Prop
  | .basic _ => True
  | .slab (.plateModel _) => True
  | .slab (.massConserving m) => m.WellFormed

def Segment.WellFormed (s : Segment R) : Prop :=
  (∀ m ∈ s.comps, m.WellFormed) ∧ (∀ m ∈ s.grains, m.WellFormed) ∧ (∀ m ∈ s.temps, m.WellFormed)

/-- the one part of `SegTemp.WellFormed` that is not a property of the document: a `mass conserving` model with the spline on needs a
scalar type without NaN -/
def SegTemp.SplineCmp : SegTemp R → Prop
  | .slab (.massConserving m) => m.applySpline = true → CmpTotal R
  | _ => True

def Segment.SplineCmp (s : Segment R) : Prop := ∀ m ∈ s.temps, m.SplineCmp

/-- the Bezier curve of a line feature belongs to its coordinates: one cubic per pair of consecutive coordinates -/
def Bezier.WellFormedFor (bz : Bezier R) (coords : List (P2 R)) : Prop :=
  bz.points = coords ∧ bz.control.length = coords.length - 1 ∧ bz.angles.length = coords.length

/-- subducting plate, fault: ≥ 2 coordinates, one section per coordinate, every section with the same number (≥ 1) of
segments, the curve through the coordinates, well-formed segment models -/
def LineFeature.WellFormed (f : LineFeature R) : Prop :=
  2 ≤ f.coords.length ∧ f.sections.length = f.coords.length ∧
    (∃ k, 0 < k ∧ ∀ sec ∈ f.sections, sec.length = k) ∧
    f.bezier.WellFormedFor f.coords ∧
    (∀ sec ∈ f.sections, ∀ s ∈ sec, s.WellFormed)

/-- if some `mass conserving` model of the slab has the spline on, the scalar type has no NaN; trivially true of a slab without such a model
and of every slab over an ordered field -/
def LineFeature.SplineCmp (f : LineFeature R) : Prop := ∀ sec ∈ f.sections, ∀ s ∈ sec, s.SplineCmp

/-- per feature kind; for the polygons what the indexing code needs (`IndexSafe`) — the parser does not require three corners -/
def Feature.WellFormed : Feature R → Prop
  | .area f => f.IndexSafe
  | .plume f => f.WellFormed
  | .line f => f.WellFormed

def World.WellFormed (w : World R) : Prop := ∀ f ∈ w.features, f.WellFormed

/-- `LineFeature.SplineCmp` for all slabs of the world -/
def Feature.SplineCmp : Feature R → Prop
  | .line f => f.SplineCmp
  | _ => True

def World.SplineCmp (w : World R) : Prop := ∀ f ∈ w.features, f.SplineCmp

end Gwb
