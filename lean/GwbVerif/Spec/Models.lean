/-
Closed-form reference formulas of the documented models (C05, C20).

Every definition is written from the published parameter documentation
`/repo/doc/world_builder_declarations_open.md` (cited as `doc:<line>`; the same sentences are the strings of the
`declare_entries` functions) and, where the documentation only names the model, from the formula comment of the
source file or the property statement — **not** from the arithmetic of `get_temperature` &c.  In particular the
association of the operations is the natural mathematical one (`(z − z₀)·(T₁ − T₀)/(z₁ − z₀)`, `α·g·d/cp`, …), which
in floating point differs from the code; the theorems of `Properties/C05.lean` relate the two over an ordered field.

The file is `Scalar`-polymorphic and imports core Lean only, so the driver can evaluate a formula at `Float` as an
oracle; the proofs instantiate it at `fieldScalar T`.
-/
import GwbVerif.Model.Layout
import GwbVerif.Model.Ops
namespace Gwb
namespace Spec
open Scalar
variable {R : Type} [Scalar R]

/-! ### sentinels -/

/-- doc:740, 749, 758 (`adiabatic`): "The potential temperature of the mantle at the surface in Kelvin. If the value is
lower then zero, the global value is used." (same sentence for the thermal expansion coefficient and the specific heat) -/
def orGlobal (x glob : R) : R := if x < 0 then glob else x

/-- the adiabatic temperature of the property statement C03/C05: `Tp·exp(α·g·d/cp)`
(doc:536 "Adiabatic temperature model. Uses global values by default.") -/
def adiabatic (tp alpha g cp d : R) : R := tp * exp (alpha * g * d / cp)

/-- doc:1217 (`linear`, top) "The temperature at the top in degree Kelvin of this feature.If the value is below zero, the an
adiabatic temperature is used.", doc:1226 (bottom), doc:800 (`chapman`), doc:13999 (`gaussian`): a boundary temperature
`t`, or — below zero — the adiabatic temperature at the depth `z` of that boundary, with the *global* constants. -/
def orAdiabatic (t tp alpha g cp z : R) : R := if t < 0 then adiabatic tp alpha g cp z else t

/-! ### temperature -/

/-- doc:1238 "Uniform temperature model. Set the temperature to a constant value."; doc:1442 "The temperature in degree
Kelvin which this feature should have" -/
def uniformT (t : R) : R := t

/-- doc:1013 "Linear temperature model. Can be set to use an adiabatic temperature at the boundaries.":
the straight line through `(zTop, tTop)` and `(zBot, tBot)` -/
def linearBetween (tTop tBot zTop zBot z : R) : R := tTop + (z - zTop) * (tBot - tTop) / (zBot - zTop)

/-- `linear` of an area feature (continental plate, oceanic plate, mantle layer), property statement C05: "linear (between
the local top and bottom of the model's depth … range)".  The local top is the deeper of the feature's and the model's
`min depth`, the local bottom the shallower of the two `max depth`s; the sentinels are resolved at those depths.
A range thinner than `10 ε` returns the top temperature (not in the documentation: it guards the division). -/
def areaLinear (top bottom tp alpha g cp fMin fMax mn mx d : R) : R :=
  let zTop := Scalar.max fMin mn
  let zBot := Scalar.min fMax mx
  let tTop := orAdiabatic top tp alpha g cp zTop
  let tBot := orAdiabatic bottom tp alpha g cp zBot
  if zBot - zTop < (10 : R) * Scalar.eps then tTop else linearBetween tTop tBot zTop zBot d

/-- slab / fault `linear` (doc:3486 "Linear temperature model. …"; slab doc:15031 "The temperature at the bottom in degree
Kelvin of this feature. If the value is below zero, an adiabatic temperature is used."; fault doc:3516, 3525
"The minimum distance to the center of the fault. This determines where the linear temperature starts/end."):
the line between the two distances; a negative boundary temperature is the adiabat evaluated **at that distance**
(the documentation does not say at which depth; this is what "at the boundaries" of a distance range can mean). -/
def lineLinear (top bottom tp alpha g cp mn mx x : R) : R :=
  linearBetween (orAdiabatic top tp alpha g cp mn) (orAdiabatic bottom tp alpha g cp mx) mn mx x

/-- doc:770 "Continental geotherm using the steady-state 1-D heat conduction equation from Chapman (1986)."
(chapman.cc:137-138: `T(z) = t_top + (q_top / k) * (Δz) - (A / (2 * k)) * (Δz)^2`), doc:809 heat flux `q`, doc:818
conductivity `k`, doc:827 heat generation `A`; `Δz` is the depth below the local top -/
def chapman (tTop q k A dz : R) : R := tTop + (q / k) * dz - (A / ((2 : R) * k)) * (dz * dz)

/-- `chapman` with its documented sentinel (doc:800 "The temperature at the top surface in K of this feature.If the value
is below zero, then an adiabatic temperature is used.") -/
def chapmanDocumented (top q k A tp alpha g cp fMin mn d : R) : R :=
  let zTop := Scalar.max fMin mn
  chapman (orAdiabatic top tp alpha g cp zTop) q k A (d - zTop)

/-- age of the lithosphere: ridge distance over spreading velocity (property statement C05: "half-space cooling and
plate cooling from ridge distance over spreading velocity"; doc:10850 "The spreading velocity of the plate in meter
per year. This is the velocity with which one side moves away from the ridge.") -/
def ridgeAge (distance spreading : R) : R := distance / spreading

/-- doc:10630 "Half space cooling mode", doc:10834 "The actual surface temperature …", doc:10843 "The mantle temperature
for the half-space cooling model …": `T_b + (T_t − T_b)·erfc(z / (2·√(κ·age)))` for a positive age, the mantle
temperature on the ridge (and behind it) -/
def halfSpace (top bot kappa age d : R) : R :=
  if age > 0 then bot + (top - bot) * erfc (d / ((2 : R) * sqrt (kappa * age))) else bot

/-- `Σ_{j=0}^{n-1} f (i + j)`, added in increasing order starting from zero -/
def sumRange (f : Nat → R) (i : Nat) : Nat → R
  | 0 => 0
  | n + 1 => sumRange f i n + f (i + n)

/-- doc:11557 "Plate model, but with a fixed age.", doc:11779 "The age of the plate in year. This age is assigned to the
whole plate." (plate_model_constant_age.cc:130-131 cites Fowler, *The solid earth*,
ch. 7): `T_t + (T_b − T_t)·( z/D + Σ_{n=1}^{N} 2/(nπ)·sin(nπz/D)·exp(−n²π²κ·age/D²) )` with `N = 100` terms -/
def plateConstAge (N : Nat) (top bot kappa age D d : R) : R :=
  top + (bot - top) * (d / D + sumRange (fun n =>
    (2 : R) / (Scalar.nat n * Scalar.pi) * sin (Scalar.nat n * Scalar.pi * d / D) *
      exp (-(Scalar.nat n * Scalar.nat n * Scalar.pi * Scalar.pi * kappa * age) / (D * D))) 1 N)

/-- doc:11206 "Plate model." (plate_model.cc:166-167: horizontal heat transfer through spreading velocity `v`):
`T_t + (T_b − T_t)·( z/D + Σ_{n=1}^{N} 2/(nπ)·sin(nπz/D)·exp((vD/(2κ) − √(v²D²/(4κ²) + n²π²))·v·age/D) )` -/
def plate (N : Nat) (top bot kappa v age D d : R) : R :=
  top + (bot - top) * (d / D + sumRange (fun n =>
    (2 : R) / (Scalar.nat n * Scalar.pi) * sin (Scalar.nat n * Scalar.pi * d / D) *
      exp ((v * D / ((2 : R) * kappa) - sqrt (v * v * D * D / ((4 : R) * kappa * kappa) + Scalar.nat n * Scalar.nat n * Scalar.pi * Scalar.pi)) *
           (v * age / D))) 1 N)

/-- doc:13979 "Temperature is interpolated linearly in vertical direction between these depths." -/
def lerp (x0 x1 y0 y1 x : R) : R := y0 + (x - x0) / (x1 - x0) * (y1 - y0)

/-- doc:13947 "Gaussian temperature model. … using a Gaussian function: T(r) = T_center(z) exp(-r^2/(2 sigma^2)."
`r2` is the *squared* relative distance from the plume centre (the plume feature hands `x²/a² + y²/b²` to the model);
doc:14019: `sigma` "is non-dimensional, i.e. it is defined relative to the distance between the plume center and margin" -/
def gaussian (tCenter sigma r2 : R) : R := tCenter * exp (-r2 / ((2 : R) * (sigma * sigma)))

/-! ### composition, velocity, grains -/

/-- doc:1988 "Uniform compositional model. Sets constant compositional field."; doc:2184 "A list with the labels of the
composition which are present there."; doc:2204 "TA list of compositional fractions corresponding to the compositions
list.": the value belonging to label `n` (the first occurrence), if `n` is listed -/
def listed {α : Type} (comps : List Nat) (vals : List α) (n : Nat) : Option α :=
  if n ∈ comps then vals[comps.idxOf n]? else none

/-- doc:2222 (operation of a composition model) "Whether the value should replace any value previously defined at this
location (replace) or add the value to the previously define value. Replacing implies that all compositions not
explicitly defined are set to zero. To only replace the defined compositions use the replace only defined option." -/
def paintComposition (op : Op) (old : R) : Option R → R
  | some f => applyOp op old f
  | none => if op = .replace then 0.0 else old

/-- slab `smooth` (doc:15623, 15643 "The composition fraction at the top of the slab (layer)." / "… at the bottom of the slab
(layer)."; smooth.cc:108-109 "the composition returned 1 to 0 over the side_distance"): a `tanh` blend from the top
fraction to the bottom fraction centred in the middle of the layer, `side = |max − min|` -/
def smoothSlab (topF botF mn side x : R) : R :=
  let w := ((1 : R) - tanh ((10 : R) * (x - mn - side / (2 : R)) / side)) / (2 : R)
  botF + (topF - botF) * w

/-- fault `smooth` (doc:3675, 3695, 3664 "The composition fraction at the center of the fault.", "The composition fraction at the sides of
this feature.", "The distance over which the composition is reduced from 1 to 0."): the same blend from the centre
fraction to the side fraction -/
def smoothFault (centerF sideF side x : R) : R :=
  let w := ((1 : R) - tanh ((10 : R) * (x - side / (2 : R)) / side)) / (2 : R)
  sideF + (centerF - sideF) * w

/-- doc:1474 "Uniform velocity model. Set the velocity to a constant value."; doc:1680 "The velocity in meter per year"
(`uniform raw`: the three components as given, no unit conversion) -/
def uniformVelocity (op : Op) (old v : P3 R) : P3 R := ⟨applyOp op old.x v.x, applyOp op old.y v.y, applyOp op old.z v.z⟩

/-- doc:2882 "Uniform grains model. All grains start exactly the same."; doc:3181 "A list of the size of all of the grains in
each composition. If set to <0, the size will be set so that the total is equal to 1.": `k` equal grains -/
def uniformGrains (k : Nat) (mat : M3 R) (size : R) : Grains R :=
  let s := if size < 0 then (1.0 : R) / Scalar.nat k else size
  { sizes := List.replicate k s, mats := List.replicate k mat }

end Spec
end Gwb
