import GwbVerif.Proofs.ParallelFor
namespace Gwb
example (i : Nat) : ([(1, i), (2, 3 * i), (2, 3 * i + 1), (2, 3 * i + 2), (3, i)] : List (Nat × Nat)).Nodup := by
  simp only [List.nodup_cons, List.mem_cons, Prod.mk.injEq, List.not_mem_nil, or_false, List.nodup_nil, and_true]
  simp
  omega
example (n i : Nat) : ((List.range n).map (fun c => (4 + c, i))).Nodup := by
  refine List.Pairwise.map (fun c => (4 + c, i)) ?_ List.nodup_range
  intro a b hab h
  simp only [Prod.mk.injEq] at h
  omega
end Gwb
