import GwbVerif.Properties.C18
import GwbVerif.Properties.C18Sphere
open Gwb
#print axioms C18_counts
#print axioms C18_connectivity_in_range
#print axioms C18_cell_corners
#print axioms C18_vtk_arrays
#print axioms C18_coordinates
#print axioms C18_coordinates_cartesian2_field
#print axioms C18_coordinates_cartesian3_field
#print axioms C18_coordinates_chunk2_field
#print axioms C18_coordinates_chunk3_field
#print axioms C18_coordinates_annulus_field
#print axioms C18_annulus_nt_ge
#print axioms C18_filter_selection
#print axioms C18_filter
#print axioms C18_sphere_total
#print axioms C18_sphere_counts_partial
#print axioms C18_sphere_connectivity_in_range
#print axioms C18_sphere_cell_structure
#print axioms C18_sphere_corner_positions
#print axioms C18_sphere_coordinates
#print axioms C18_sphere_project_radius_field
#print axioms C18_sphere_layers_field
#print axioms C18_sphere_centre_field
#check @C18_counts
#check @C18_connectivity_in_range
#check @C18_cell_corners
#check @C18_vtk_arrays
#check @C18_coordinates
#check @C18_coordinates_cartesian2_field
#check @C18_coordinates_cartesian3_field
#check @C18_coordinates_chunk2_field
#check @C18_coordinates_chunk3_field
#check @C18_coordinates_annulus_field
#check @C18_annulus_nt_ge
#check @C18_filter_selection
#check @C18_filter
#check @C18_sphere_total
#check @C18_sphere_counts_partial
#check @C18_sphere_connectivity_in_range
#check @C18_sphere_cell_structure
#check @C18_sphere_corner_positions
#check @C18_sphere_coordinates
#check @C18_sphere_project_radius_field
#check @C18_sphere_layers_field
#check @C18_sphere_centre_field
