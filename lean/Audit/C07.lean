import GwbVerif.Properties.C07
import GwbVerif.Properties.C07Depth
import GwbVerif.Properties.C07Box
import GwbVerif.Properties.C07Arc
open Gwb
#print axioms C07_cull_pretest_only
#print axioms C07_no_member_discarded
#print axioms C07_cull_equiv
#print axioms C07_depth_piece_invariant
#print axioms C07_depth_walk_bound
#print axioms C07_local_le_maxima
#print axioms C07_depth_cutoff_sound_partial
#print C07_depth_cutoff_sound_full
#print axioms C07_box_piece_invariant
#print axioms C07_box_walk_bound
#print axioms C07_box_frame
#print axioms C07_bezier_hull
#print axioms C07_bezier_bulge
#print axioms C07_ctrl_near
#print axioms C07_bbox_core
#print axioms C07_bbox_cutoff_sound_partial
#print axioms C07_bbox_cutoff_sound_closest
#print C07_bbox_cutoff_sound_old_geom
#print axioms C07_bbox_cutoff_sound_old_false
#print axioms C07_bbox_old_discards_member
#print axioms C07_arc_chord_le_arc
#print axioms C07_depth_arc_piece_geometry
#print axioms C07_depth_arc_piece_invariant
#print axioms C07_straight_is_arc_walk
#print axioms C07_arc_walk_bound
#print axioms C07_depth_cutoff_sound_arcs
#print axioms C07_bbox_cutoff_sound_arcs
#print C07_bbox_cutoff_sound_full
#check @C07_cull_pretest_only
#check @C07_no_member_discarded
#check @C07_cull_equiv
#check @C07_depth_piece_invariant
#check @C07_depth_walk_bound
#check @C07_local_le_maxima
#check @C07_depth_cutoff_sound_partial
#check @C07_box_piece_invariant
#check @C07_box_walk_bound
#check @C07_box_frame
#check @C07_bezier_hull
#check @C07_bezier_bulge
#check @C07_ctrl_near
#check @C07_bbox_core
#check @C07_bbox_cutoff_sound_partial
#check @C07_bbox_cutoff_sound_closest
#check @C07_bbox_cutoff_sound_old_false
#check @C07_bbox_old_discards_member
#check @C07_arc_chord_le_arc
#check @C07_depth_arc_piece_geometry
#check @C07_depth_arc_piece_invariant
#check @C07_straight_is_arc_walk
#check @C07_arc_walk_bound
#check @C07_depth_cutoff_sound_arcs
#check @C07_bbox_cutoff_sound_arcs
