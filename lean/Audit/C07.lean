import GwbVerif.Properties.C07
open Gwb
#print axioms C07_cull_pretest_only
#print axioms C07_no_member_discarded
#print axioms C07_cull_equiv
#check @C07_cull_pretest_only
#check @C07_no_member_discarded
#check @C07_cull_equiv
