import GwbVerif.Properties.C07
import GwbVerif.Properties.C07Depth
open Gwb
#print axioms C07_cull_pretest_only
#print axioms C07_no_member_discarded
#print axioms C07_cull_equiv
#print axioms C07_depth_piece_invariant
#print axioms C07_depth_walk_bound
#print axioms C07_local_le_maxima
#print axioms C07_depth_cutoff_sound_partial
#print C07_depth_cutoff_sound_full
#check @C07_cull_pretest_only
#check @C07_no_member_discarded
#check @C07_cull_equiv
#check @C07_depth_piece_invariant
#check @C07_depth_walk_bound
#check @C07_local_le_maxima
#check @C07_depth_cutoff_sound_partial
