import GwbVerif.Properties.C02
open Gwb
#print axioms C02_noncovering_noop
#print axioms C02_filter_covering
#print axioms C02_same_covering_same_answer
#print axioms C02_tag_last_covering
#print axioms C02_applyOp
#print axioms C02_uniform_composition
#print axioms C02_out_of_range_identity
#print axioms C02_empty_model_list_identity
#check @C02_noncovering_noop
#check @C02_filter_covering
#check @C02_same_covering_same_answer
#check @C02_tag_last_covering
#check @C02_applyOp
#check @C02_uniform_composition
#check @C02_out_of_range_identity
#check @C02_empty_model_list_identity
