import GwbVerif.Properties.C11
open Gwb
#print axioms C11_vertex_reproduction
#print axioms C11_vertex_accepted
#print axioms C11_bounded
#print axioms C11_bounded_neg_vacuous
#print axioms C11_accepts_of_contained
#print axioms C11_negative_orientation_rejected
#print axioms C11_bounded_tolerant
#print axioms C11_affine_exact
#print axioms C11_affine_any_triangulation_gen
#print axioms C11_affine_any_triangulation
#print axioms C11_affine_any_triangulation_spherical
#print axioms C11_build_preOk
#print axioms C11_minmax
#print axioms C11_build_minmax
#print axioms C11_surface_bounded_tolerant
#print axioms C11_approx_self_iff
#print axioms C11_approx_zero_false
#print axioms C11_approx_zero_never
#print axioms C11_axis_node_never_replaced
#print axioms C11_corner_replaced_partial
#print axioms C11_corner_replaced_false
#print axioms C11_merge_closed_form
#print axioms C11_merge_replace
#print axioms C11_merge_append
#print axioms C11_merge_keep
#print axioms C11_merge_listed
#print axioms C11_unlisted_corner_keeps_default
#print axioms C11_tolerance_overshoot
#check @C11_vertex_reproduction
#check @C11_vertex_accepted
#check @C11_bounded
#check @C11_bounded_neg_vacuous
#check @C11_accepts_of_contained
#check @C11_negative_orientation_rejected
#check @C11_bounded_tolerant
#check @C11_affine_exact
#check @C11_affine_any_triangulation_gen
#check @C11_affine_any_triangulation
#check @C11_affine_any_triangulation_spherical
#check @C11_build_preOk
#check @C11_minmax
#check @C11_build_minmax
#check @C11_surface_bounded_tolerant
#check @C11_approx_self_iff
#check @C11_approx_zero_false
#check @C11_approx_zero_never
#check @C11_axis_node_never_replaced
#check @C11_corner_replaced_partial
#check @C11_corner_replaced_false
#check @C11_merge_closed_form
#check @C11_merge_replace
#check @C11_merge_append
#check @C11_merge_keep
#check @C11_merge_listed
#check @C11_unlisted_corner_keeps_default
#check @C11_tolerance_overshoot
