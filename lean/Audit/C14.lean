import GwbVerif.Properties.C14
open Gwb
#print axioms C14_partition
#print axioms C14_node_writes_disjoint
#print axioms C14_interleaving_irrelevant
#print axioms C14_output_independent_of_threads
#check @C14_partition
#check @C14_node_writes_disjoint
#check @C14_interleaving_irrelevant
#check @C14_output_independent_of_threads
