import GwbVerif.Properties.C01
import GwbVerif.Properties.C01Order
open Gwb
#print axioms C01_output_size
#print axioms C01_layout
#print axioms C01_block_eq_single
#print axioms C01_block_eq_single_2d
#print axioms C01_single_entry_points
#print axioms C01_no_hidden_state
#print axioms C01_order_and_grouping_irrelevant
#print axioms C01_duplicate_entries_agree
#print axioms C01_order_and_grouping_irrelevant_2d
#print axioms C01_output_size_2d
#print axioms C01_no_hidden_state_2d
#check @C01_output_size
#check @C01_layout
#check @C01_block_eq_single
#check @C01_block_eq_single_2d
#check @C01_single_entry_points
#check @C01_no_hidden_state
#check @C01_order_and_grouping_irrelevant
#check @C01_duplicate_entries_agree
#check @C01_order_and_grouping_irrelevant_2d
#check @C01_output_size_2d
#check @C01_no_hidden_state_2d
