import GwbVerif.Properties.C06
import GwbVerif.Properties.C06Walk
import GwbVerif.Properties.C06Arc
import GwbVerif.Properties.C06WalkArc
open Gwb
#print axioms C06_membership_iff
#print axioms C06_covers_iff_pretest
#print axioms C06_covers_iff
#print axioms C06_distance_to_plane_same
#print axioms C06_segment_start
#print axioms C06_segment_loop
#print axioms C06_only_positive
#print axioms C06_distance_to_plane_fault
#print axioms C06_segment_walk
#print axioms C06_equal_sections_constant
#print axioms C06_line_piece
#print axioms C06_arc_piece_partial
#print axioms C06_cartesian_frame
#print axioms C06_walk_selects_min
#print axioms C06_walk_selects_min_cartesian
#print axioms C06_walk_along_eq
#print axioms C06_walk_trench_point
#print axioms C06_walk_joint_continuous
#print axioms C06_walk_joint_frames
#print axioms C06_walk_joint_gap
#print axioms C06_walk_joint_gap_side
#print axioms C06_walk_joint_no_gap_same_dip
#print axioms C06_walk_joint_overlap
#print axioms C06_walk_joint_overlap_side
#print axioms C06_walk_only_positive
#print axioms C06_arc_increasing_dip
#print axioms C06_arc_decreasing_dip
#print axioms C06_arc_foot_increasing
#print axioms C06_arc_foot_decreasing
#print axioms C06_arc_negative_dip_rejected
#print axioms C06_arc_dip_above_pi_rejected
#print axioms C06_arc_polar_exhaustive
#print axioms C06_arc_piece_full_false
#print axioms C06_walk_accept_iff
#print axioms C06_walk_selects_min_mixed
#print axioms C06_walk_along_eq_mixed
#print axioms C06_walk_joint_straight_arc
#print axioms C06_walk_joint_arc_arc
#print axioms C06_walk_stale_value_old_step
#print axioms C06_walk_old_step_safe
#check @C06_membership_iff
#check @C06_covers_iff_pretest
#check @C06_covers_iff
#check @C06_distance_to_plane_same
#check @C06_segment_start
#check @C06_segment_loop
#check @C06_only_positive
#check @C06_distance_to_plane_fault
#check @C06_segment_walk
#check @C06_equal_sections_constant
#check @C06_line_piece
#check @C06_arc_piece_partial
#check @C06_cartesian_frame
#check @C06_walk_selects_min
#check @C06_walk_selects_min_cartesian
#check @C06_walk_along_eq
#check @C06_walk_trench_point
#check @C06_walk_joint_continuous
#check @C06_walk_joint_frames
#check @C06_walk_joint_gap
#check @C06_walk_joint_gap_side
#check @C06_walk_joint_no_gap_same_dip
#check @C06_walk_joint_overlap
#check @C06_walk_joint_overlap_side
#check @C06_walk_only_positive
#check @C06_arc_increasing_dip
#check @C06_arc_decreasing_dip
#check @C06_arc_foot_increasing
#check @C06_arc_foot_decreasing
#check @C06_arc_negative_dip_rejected
#check @C06_arc_dip_above_pi_rejected
#check @C06_arc_polar_exhaustive
#check @C06_arc_piece_full_false
#check @C06_walk_accept_iff
#check @C06_walk_selects_min_mixed
#check @C06_walk_along_eq_mixed
#check @C06_walk_joint_straight_arc
#check @C06_walk_joint_arc_arc
#check @C06_walk_stale_value_old_step
#check @C06_walk_old_step_safe
