import GwbVerif.Properties.C19
import GwbVerif.Properties.C19Bezier
open Gwb
#print axioms C19_kdtree_nearest_search_inv
#print axioms C19_kdtree_nearest
#print axioms C19_buildMedian_inv
#print axioms C19_buildMedian_nearest
#print axioms C19_exNodes_inv
#print axioms C19_exNodes_max
#print axioms C19_spherical_roundtrip
#print axioms C19_spherical_roundtrip_inv
#print axioms C19_great_circle_model
#print axioms C19_great_circle
#print axioms C19_great_circle_equator
#print axioms C19_bezier_closest_on_curve
#print axioms C19_bezier_endpoints
#print axioms C19_bezier_bernstein
#print axioms C19_bezier_derivative_point
#print axioms C19_bezier_accept_iff
#print axioms C19_bezier_accept_window
#print axioms C19_bezier_accept_first_piece
#print axioms C19_bezier_accept_later_piece
#print axioms C19_bezier_closest_field
#print axioms C19_bezier_normal_perp
#print axioms C19_bezier_normal_vector
#print axioms C19_bezier_normal_witness
#check @C19_kdtree_nearest_search_inv
#check @C19_kdtree_nearest
#check @C19_buildMedian_inv
#check @C19_buildMedian_nearest
#check @C19_exNodes_inv
#check @C19_exNodes_max
#check @C19_spherical_roundtrip
#check @C19_spherical_roundtrip_inv
#check @C19_great_circle_model
#check @C19_great_circle
#check @C19_great_circle_equator
#check @C19_bezier_closest_on_curve
#check @C19_bezier_endpoints
#check @C19_bezier_bernstein
#check @C19_bezier_derivative_point
#check @C19_bezier_accept_iff
#check @C19_bezier_accept_window
#check @C19_bezier_accept_first_piece
#check @C19_bezier_accept_later_piece
#check @C19_bezier_closest_field
#check @C19_bezier_normal_perp
#check @C19_bezier_normal_vector
#check @C19_bezier_normal_witness
