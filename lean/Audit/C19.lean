import GwbVerif.Properties.C19
open Gwb
#print axioms C19_kdtree_nearest_search_inv
#print axioms C19_kdtree_nearest
#print axioms C19_buildMedian_inv
#print axioms C19_buildMedian_nearest
#print axioms C19_exNodes_inv
#print axioms C19_exNodes_max
#print axioms C19_spherical_roundtrip
#print axioms C19_spherical_roundtrip_inv
#print axioms C19_great_circle_model
#print axioms C19_great_circle
#print axioms C19_great_circle_equator
#check @C19_kdtree_nearest_search_inv
#check @C19_kdtree_nearest
#check @C19_buildMedian_inv
#check @C19_buildMedian_nearest
#check @C19_exNodes_inv
#check @C19_exNodes_max
#check @C19_spherical_roundtrip
#check @C19_spherical_roundtrip_inv
#check @C19_great_circle_model
#check @C19_great_circle
#check @C19_great_circle_equator
