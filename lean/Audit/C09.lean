import GwbVerif.Properties.C09
open Gwb
#print axioms C09_2d_is_projected_3d
#print axioms C09_velocity_projection
#print axioms C09_no_cross_section_refused
#print axioms C09_lift
#print axioms C09_unit_direction
#print axioms C09_section_by_distance
#print axioms C09_projection_bounded
#print axioms C09_lift_radius_spherical
#check @C09_2d_is_projected_3d
#check @C09_velocity_projection
#check @C09_no_cross_section_refused
#check @C09_lift
#check @C09_unit_direction
#check @C09_section_by_distance
#check @C09_projection_bounded
#check @C09_lift_radius_spherical
