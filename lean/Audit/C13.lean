import GwbVerif.Properties.C13
import GwbVerif.Properties.C13Slab
open Gwb
#print axioms C13_upperBound_le
#print axioms C13_upperBound_bracket
#print axioms C13_plume_no_internal
#print axioms C13_plume_covers_no_internal
#print axioms C13_area_models_no_internal
#print axioms C13_surface_no_internal
#print axioms C13_area_no_internal
#print axioms C13_bezier_index_in_range
#print axioms C13_curved_planes_in_range
#print axioms C13_line_no_internal
#print axioms C13_world_query_no_internal
#print axioms C13_world_no_internal
#print axioms C13_world_temperature_no_internal
#print axioms C13_table_fraction_divisor_pos
#print axioms C13_plume_tip_divisor_pos
#print axioms C13_segment_divisors
#print axioms C13_initialEstimate_divisor
#print axioms C13_slab_seconds_in_year
#print axioms C13_mass_conserving_divisors
#print axioms C13_mass_conserving_spline_divisor
#print axioms C13_slab_plate_model_divisors
#check @C13_upperBound_le
#check @C13_upperBound_bracket
#check @C13_plume_no_internal
#check @C13_plume_covers_no_internal
#check @C13_area_models_no_internal
#check @C13_surface_no_internal
#check @C13_area_no_internal
#check @C13_bezier_index_in_range
#check @C13_curved_planes_in_range
#check @C13_line_no_internal
#check @C13_world_query_no_internal
#check @C13_world_no_internal
#check @C13_world_temperature_no_internal
#check @C13_table_fraction_divisor_pos
#check @C13_plume_tip_divisor_pos
#check @C13_segment_divisors
#check @C13_initialEstimate_divisor
#check @C13_slab_seconds_in_year
#check @C13_mass_conserving_divisors
#check @C13_mass_conserving_spline_divisor
#check @C13_slab_plate_model_divisors
