import GwbVerif.Properties.C15
open Gwb
#print axioms C15_rotation_spelled_out
#print axioms C15_arvo_orthonormal
#print axioms C15_arvo_deflected_orthonormal
#print axioms C15_euler_rotation
#print axioms C15_product_rotation
#print axioms C15_drawn_matrices_rotations
#print axioms C15_drawn_matrices_deflected_rotations
#print axioms C15_mt_canonical_unit
#print axioms C15_random_grains_rotations
#print axioms C15_random_grains_deflected_rotations
#print axioms C15_normalised_sum_one
#print axioms C15_normalised_sizes_sum_one
#print axioms C15_normalised_fixed_sizes_sum_one
#print axioms C15_fixed_sizes_as_given
#print axioms C15_normalised_sizes_sum_one_deflected
#print axioms C15_fixed_sizes_as_given_deflected
#print axioms C15_uniform_in_bounds
#print axioms C15_random_composition_bounds
#print axioms C15_deterministic
#print axioms C15_deterministic_history
#print axioms C15_seed_deterministic
#check @C15_rotation_spelled_out
#check @C15_arvo_orthonormal
#check @C15_arvo_deflected_orthonormal
#check @C15_euler_rotation
#check @C15_product_rotation
#check @C15_drawn_matrices_rotations
#check @C15_drawn_matrices_deflected_rotations
#check @C15_mt_canonical_unit
#check @C15_random_grains_rotations
#check @C15_random_grains_deflected_rotations
#check @C15_normalised_sum_one
#check @C15_normalised_sizes_sum_one
#check @C15_normalised_fixed_sizes_sum_one
#check @C15_fixed_sizes_as_given
#check @C15_normalised_sizes_sum_one_deflected
#check @C15_fixed_sizes_as_given_deflected
#check @C15_uniform_in_bounds
#check @C15_random_composition_bounds
#check @C15_deterministic
#check @C15_deterministic_history
#check @C15_seed_deterministic
