import GwbVerif.Properties.C16
open Gwb
#print axioms C16_fully_translated
#print axioms C16_create_world_arguments
#print axioms C16_create_world_null
#print axioms C16_cpp_constructor
#print axioms C16_triple_copy
#print axioms C16_properties_3d
#print axioms C16_properties_2d
#print axioms C16_output_size
#print axioms C16_properties_3d_fits
#print axioms C16_temperature_3d
#print axioms C16_temperature_2d
#print axioms C16_composition_3d
#print axioms C16_composition_2d
#check @C16_fully_translated
#check @C16_create_world_arguments
#check @C16_create_world_null
#check @C16_cpp_constructor
#check @C16_triple_copy
#check @C16_properties_3d
#check @C16_properties_2d
#check @C16_output_size
#check @C16_properties_3d_fits
#check @C16_temperature_3d
#check @C16_temperature_2d
#check @C16_composition_3d
#check @C16_composition_2d
