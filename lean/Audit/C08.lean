import GwbVerif.Properties.C08
open Gwb
#print axioms C08_longitude_alias_same_point
#print axioms C08_longitude_plus_minus_two_pi
#print axioms C08_longitude_alias_same_answer
#print axioms C08_alias_complete
#print axioms C08_polygonContains_tries_all_aliases
#print axioms C08_alias_zero_missed
#print axioms C08_polygon_translation_spec
#print axioms C08_polygon_translation
#print axioms C08_polygon_translation_of_vertexTest
#print axioms C08_vertexExact_of_separated
#print axioms C08_ellipse_translation
#print axioms C08_plume_covers_translation
#print axioms C08_rotation_partial
#print axioms C08_ellipse_rotation_gen
#print axioms C08_ellipse_rotation
#print axioms C08_bezier_build_translation
#print axioms C08_bezier_closest_translation_partial
#print axioms C08_ridge_translation
#print axioms C08_bbox_translation
#print axioms C08_kd_translation
#print axioms C08_triangle_translation
#print axioms C08_surface_translation
#print axioms C08_area_covers_translation
#print axioms C08_polygonContains_lon_offset
#print axioms C08_inPolygon_lon_bounds
#print axioms C08_polygonContains_lon_offset_general
#print axioms C08_bbox_lon_offset
#print axioms C08_approx_not_translation_invariant
#print axioms C08_polygon_translation_full_false
#print axioms C08_bezier_closest_translation_full_false
#print axioms C08_footprint_at_zero_missed
#print axioms C08_canonical_unique
#print axioms C08_bbox_tries_all_aliases
#print axioms C08_bbox_lon_offset_general
#print axioms C08_plume_covers_lon_offset
#print axioms C08_plume_covers_lon_offset_of_centre
#print axioms C08_ridge_lon_offset
#print axioms C08_ridge_reach_of_range
#print axioms C08_ridge_lon_offset_same_sign
#print axioms C08_bbox_lon_offset_general_old_false
#print axioms C08_ridge_lon_offset_inrange_full_false
#check @C08_longitude_alias_same_point
#check @C08_longitude_plus_minus_two_pi
#check @C08_longitude_alias_same_answer
#check @C08_alias_complete
#check @C08_polygonContains_tries_all_aliases
#check @C08_alias_zero_missed
#check @C08_polygon_translation_spec
#check @C08_polygon_translation
#check @C08_polygon_translation_of_vertexTest
#check @C08_vertexExact_of_separated
#check @C08_ellipse_translation
#check @C08_plume_covers_translation
#check @C08_rotation_partial
#check @C08_ellipse_rotation_gen
#check @C08_ellipse_rotation
#check @C08_bezier_build_translation
#check @C08_bezier_closest_translation_partial
#check @C08_ridge_translation
#check @C08_bbox_translation
#check @C08_kd_translation
#check @C08_triangle_translation
#check @C08_surface_translation
#check @C08_area_covers_translation
#check @C08_polygonContains_lon_offset
#check @C08_inPolygon_lon_bounds
#check @C08_polygonContains_lon_offset_general
#check @C08_bbox_lon_offset
#check @C08_approx_not_translation_invariant
#check @C08_polygon_translation_full_false
#check @C08_bezier_closest_translation_full_false
#check @C08_footprint_at_zero_missed
#check @C08_canonical_unique
#check @C08_bbox_tries_all_aliases
#check @C08_bbox_lon_offset_general
#check @C08_plume_covers_lon_offset
#check @C08_plume_covers_lon_offset_of_centre
#check @C08_ridge_lon_offset
#check @C08_ridge_reach_of_range
#check @C08_ridge_lon_offset_same_sign
#check @C08_bbox_lon_offset_general_old_false
#check @C08_ridge_lon_offset_inrange_full_false
