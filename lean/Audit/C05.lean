import GwbVerif.Properties.C05
open Gwb
#print axioms C05_out_of_range
#print axioms C05_uniform
#print axioms C05_composition_uniform
#print axioms C05_velocity_uniform_raw
#print axioms C05_grains_uniform
#print axioms C05_halfspace_code
#print axioms C05_ridge_error
#print axioms C05_plate_model_unfold
#print axioms C05_plate_model_constant_age_unfold
#print axioms C05_gaussian_code
#print axioms C05_line_uniform
#print axioms C05_line_composition_uniform
#print axioms C05_line_adiabatic_code
#print axioms C05_line_linear_out
#print axioms C05_line_smooth_unlisted
#print axioms C05_adiabatic
#print axioms C05_adiabatic_sentinel
#print axioms C05_linear_code
#print axioms C05_linear_full
#print axioms C05_linear_example
#print axioms C05_chapman_code
#print axioms C05_chapman_full
#print axioms C05_chapman_example
#print axioms C05_halfspace
#print axioms C05_plate_model
#print axioms C05_plate_model_constant_age
#print axioms C05_gaussian_upper_bound
#print axioms C05_gaussian_table
#print axioms C05_gaussian
#print axioms C05_line_linear
#print axioms C05_line_linear_degenerate
#print axioms C05_line_adiabatic
#print axioms C05_slab_smooth
#print axioms C05_fault_smooth_code
#print axioms C05_fault_smooth_full
#print axioms C05_fault_smooth_example
#print axioms C05_uniform_grains_total
#check @C05_out_of_range
#check @C05_uniform
#check @C05_composition_uniform
#check @C05_velocity_uniform_raw
#check @C05_grains_uniform
#check @C05_halfspace_code
#check @C05_ridge_error
#check @C05_plate_model_unfold
#check @C05_plate_model_constant_age_unfold
#check @C05_gaussian_code
#check @C05_line_uniform
#check @C05_line_composition_uniform
#check @C05_line_adiabatic_code
#check @C05_line_linear_out
#check @C05_line_smooth_unlisted
#check @C05_adiabatic
#check @C05_adiabatic_sentinel
#check @C05_linear_code
#check @C05_linear_full
#check @C05_linear_example
#check @C05_chapman_code
#check @C05_chapman_full
#check @C05_chapman_example
#check @C05_halfspace
#check @C05_plate_model
#check @C05_plate_model_constant_age
#check @C05_gaussian_upper_bound
#check @C05_gaussian_table
#check @C05_gaussian
#check @C05_line_linear
#check @C05_line_linear_degenerate
#check @C05_line_adiabatic
#check @C05_slab_smooth
#check @C05_fault_smooth_code
#check @C05_fault_smooth_full
#check @C05_fault_smooth_example
#check @C05_uniform_grains_total
