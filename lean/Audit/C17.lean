import GwbVerif.Properties.C17
open Gwb
#print axioms C17_slotNames_layout
#print axioms C17_propNames_layout
#print axioms C17_output_size
#print axioms C17_3d_aligned_without_g
#print axioms C17_3d_header_extra_column
#print axioms C17_aligned_full_false
#print axioms C17_2d_aligned_no_compositions
#print axioms C17_2d_misaligned_witness
#print axioms C17_aligned_2d_full_false
#print axioms C17_2d_aligned_iff
#print axioms C17_2d_off_by_one
#print axioms C17_options_step_eq
#print axioms C17_options_nonoption_ignored
#print axioms C17_options_filter
#print axioms C17_options_position_independent
#print axioms C17_options_insert
#print axioms C17_options_swap
#print axioms C17_options_last_wins_dim
#print axioms C17_options_last_wins_compositions
#print axioms C17_options_last_wins_grain_compositions
#print axioms C17_options_last_wins_n_grains
#print axioms C17_options_spherical
#print axioms C17_options_data_rows
#print axioms C17_bare_hash_out_of_range
#check @C17_slotNames_layout
#check @C17_propNames_layout
#check @C17_output_size
#check @C17_3d_aligned_without_g
#check @C17_3d_header_extra_column
#check @C17_aligned_full_false
#check @C17_2d_aligned_no_compositions
#check @C17_2d_misaligned_witness
#check @C17_aligned_2d_full_false
#check @C17_2d_aligned_iff
#check @C17_2d_off_by_one
#check @C17_options_step_eq
#check @C17_options_nonoption_ignored
#check @C17_options_filter
#check @C17_options_position_independent
#check @C17_options_insert
#check @C17_options_swap
#check @C17_options_last_wins_dim
#check @C17_options_last_wins_compositions
#check @C17_options_last_wins_grain_compositions
#check @C17_options_last_wins_n_grains
#check @C17_options_spherical
#check @C17_options_data_rows
#check @C17_bare_hash_out_of_range
