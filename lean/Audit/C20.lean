import GwbVerif.Properties.C20
import GwbVerif.Properties.C20Slab
open Gwb
#print axioms C20_halfspace_envelope
#print axioms C20_halfspace_monotone_depth
#print axioms C20_halfspace_antitone_age
#print axioms C20_halfspace_surface
#print axioms C20_halfspace_ridge
#print axioms C20_halfspace_model
#print axioms C20_linear_envelope_spec
#print axioms C20_linear_envelope
#print axioms C20_line_linear_envelope
#print axioms C20_plate_boundaries
#print axioms C20_plate_model_boundaries
#print axioms C20_plate_model_constant_age_boundaries
#print axioms C20_mass_conserving_outside_identity
#print axioms C20_slab_plate_model_outside_identity
#print axioms C20_mass_conserving_bottom_envelope
#print axioms C20_mass_conserving_bottom_monotone
#print axioms C20_mass_conserving_top_no_heating
#check @C20_halfspace_envelope
#check @C20_halfspace_monotone_depth
#check @C20_halfspace_antitone_age
#check @C20_halfspace_surface
#check @C20_halfspace_ridge
#check @C20_halfspace_model
#check @C20_linear_envelope_spec
#check @C20_linear_envelope
#check @C20_line_linear_envelope
#check @C20_plate_boundaries
#check @C20_plate_model_boundaries
#check @C20_plate_model_constant_age_boundaries
#check @C20_mass_conserving_outside_identity
#check @C20_slab_plate_model_outside_identity
#check @C20_mass_conserving_bottom_envelope
#check @C20_mass_conserving_bottom_monotone
#check @C20_mass_conserving_top_no_heating
