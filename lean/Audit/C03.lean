import GwbVerif.Properties.C03
open Gwb
#print axioms C03_background
#print axioms C03_forced_surface
#print axioms C03_adiabat_formula
#check @C03_background
#check @C03_forced_surface
#check @C03_adiabat_formula
