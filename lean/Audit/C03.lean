import GwbVerif.Properties.C03
import GwbVerif.Properties.C03Adiabat
import GwbVerif.Properties.C03TwoD
open Gwb
#print axioms C03_background
#print axioms C03_forced_surface
#print axioms C03_adiabat_formula
#print axioms C03_adiabat_surface_and_monotone
#print axioms C03_background_2d_partial
#check @C03_background
#check @C03_forced_surface
#check @C03_adiabat_formula
#check @C03_adiabat_surface_and_monotone
#check @C03_background_2d_partial
