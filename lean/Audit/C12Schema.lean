import GwbVerif.Properties.C12Schema
open Gwb
#print axioms C12_validate_sound_complete
#print axioms C12_validateJ_iff
#print axioms C12_unknown_key_rejected
#print axioms C12_missing_required_rejected
#print axioms C12_wrong_type_rejected
#print axioms C12_enum_rejected
#print axioms C12_rejected_in_property
#print axioms C12_rejected_in_item
#print axioms C12_undeclared_required_key_accepted
#print axioms C12_default_excuses_required
#check @C12_validate_sound_complete
#check @C12_validateJ_iff
#check @C12_unknown_key_rejected
#check @C12_missing_required_rejected
#check @C12_wrong_type_rejected
#check @C12_enum_rejected
#check @C12_rejected_in_property
#check @C12_rejected_in_item
#check @C12_undeclared_required_key_accepted
#check @C12_default_excuses_required
