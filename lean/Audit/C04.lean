import GwbVerif.Properties.C04
import GwbVerif.Properties.C04Plume
open Gwb
#print axioms C04_polygon_loop
#print axioms C04_spherical_alias
#print axioms C04_area_covers_iff
#print axioms C04_polygon_exact
#print axioms C04_boundary_inside
#print axioms C04_separated_of_integers
#print axioms C04_plume_covers_iff_lookup
#print axioms C04_plume_lookup_bracket
#print axioms C04_plume_head_radius_unused
#print axioms C04_plume_covers_iff
#print axioms C04_plume_head
#print axioms C04_plume_between
#print axioms C04_plume_below
#print axioms C04_plume_listed_depth
#print axioms C04_plume_between_convex
#print axioms C04_plume_rotation_cyclic
#print axioms C04_plume_head_inside
#print axioms C04_plume_head_base
#print axioms C04_plume_head_closes
#print axioms C04_plume_laws_toy
#print axioms C04_plume_laws_real
#check @C04_polygon_loop
#check @C04_spherical_alias
#check @C04_area_covers_iff
#check @C04_polygon_exact
#check @C04_boundary_inside
#check @C04_separated_of_integers
#check @C04_plume_covers_iff_lookup
#check @C04_plume_lookup_bracket
#check @C04_plume_head_radius_unused
#check @C04_plume_covers_iff
#check @C04_plume_head
#check @C04_plume_between
#check @C04_plume_below
#check @C04_plume_listed_depth
#check @C04_plume_between_convex
#check @C04_plume_rotation_cyclic
#check @C04_plume_head_inside
#check @C04_plume_head_base
#check @C04_plume_head_closes
#check @C04_plume_laws_toy
#check @C04_plume_laws_real
