import GwbVerif.Properties.C04
open Gwb
#print axioms C04_polygon_loop
#print axioms C04_spherical_alias
#print axioms C04_area_covers_iff
#print axioms C04_polygon_exact
#print axioms C04_boundary_inside
#print axioms C04_separated_of_integers
#check @C04_polygon_loop
#check @C04_spherical_alias
#check @C04_area_covers_iff
#check @C04_polygon_exact
#check @C04_boundary_inside
#check @C04_separated_of_integers
