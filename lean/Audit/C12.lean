import GwbVerif.Properties.C12
open Gwb
#print axioms C12_parse_plume_wellformed
#print axioms C12_parse_plume_depths_ascending
#print axioms C12_parsed_plume_safe
#print axioms C12_parse_plume_wellformed_full_false
#print axioms C12_bezier_build_wellformed
#print axioms C12_parse_line_wellformed
#print axioms C12_parsed_line_safe
#print axioms C12_parse_line_rejects
#print axioms C12_parse_area_indexsafe
#print axioms C12_parse_world_wellformed
#print axioms C12_constructed_world_safe
#print axioms C12_validate_sound_complete
#print axioms C12_validateJ_iff
#print axioms C12_unknown_key_rejected
#print axioms C12_missing_required_rejected
#print axioms C12_wrong_type_rejected
#print axioms C12_enum_rejected
#print axioms C12_rejected_in_property
#print axioms C12_rejected_in_item
#print axioms C12_undeclared_required_key_accepted
#print axioms C12_default_excuses_required
#print axioms C12_splineCmp_of_cmpTotal
#print axioms C12_splineCmp_of_no_spline
#check @C12_parse_plume_wellformed
#check @C12_parse_plume_depths_ascending
#check @C12_parsed_plume_safe
#check @C12_parse_plume_wellformed_full_false
#check @C12_bezier_build_wellformed
#check @C12_parse_line_wellformed
#check @C12_parsed_line_safe
#check @C12_parse_line_rejects
#check @C12_parse_area_indexsafe
#check @C12_parse_world_wellformed
#check @C12_constructed_world_safe
#check @C12_validate_sound_complete
#check @C12_validateJ_iff
#check @C12_unknown_key_rejected
#check @C12_missing_required_rejected
#check @C12_wrong_type_rejected
#check @C12_enum_rejected
#check @C12_rejected_in_property
#check @C12_rejected_in_item
#check @C12_undeclared_required_key_accepted
#check @C12_default_excuses_required
#check @C12_splineCmp_of_cmpTotal
#check @C12_splineCmp_of_no_spline
