import GwbVerif.Properties.C10
import GwbVerif.Properties.C10Quaternion
import GwbVerif.Properties.C10Grains
open Gwb
#print axioms C10_resolve_own
#print axioms C10_resolve_inherit_nearest
#print axioms C10_resolve_nowhere
#print axioms C10_resolve_section_then_feature
#print axioms C10_explicit_models
#print axioms C10_explicit_models_ancestor_free
#print axioms C10_explicit_models_any_chain
#print axioms C10_parseLine_factor
#print axioms C10_repeat_default_segments
#print axioms C10_repeat_default_section
#print axioms C10_repeat_default_sections
#print axioms C10_repeat_default_feature
#print axioms C10_section_entry_sets_one
#print axioms C10_explicit_models_feature
#print axioms C10_world_indistinguishable
#print axioms C10_explicit_models_equiv
#print axioms C10_repeat_default_equiv
#print axioms C10_lerp
#print axioms C10_lerp_extrapolates
#print axioms C10_coversBody_factor
#print axioms C10_named_quantities
#print axioms C10_geometry_convex
#print axioms C10_geometry_at_coordinate
#print axioms C10_local_thickness_convex
#print axioms C10_slab_hit_envelope
#print axioms C10_temperature_convex
#print axioms C10_composition_convex
#print axioms C10_velocity_convex
#print axioms C10_grain_sizes_convex
#print axioms C10_infLaw_field
#print axioms C10_setSection_keeps_curve
#print axioms C10_geometry_reads_two_sections
#print axioms C10_geometry_reads_nothing
#print axioms C10_fraction_passthrough
#print axioms C10_locality_coversBody
#print axioms C10_locality_coversBody_no_laws
#print axioms C10_locality_no_closest_point
#print axioms C10_hit_adjacent_sections
#print axioms C10_locality_covers
#print axioms C10_locality_apply
#print axioms C10_locality_covers_culled
#print axioms C10_fraction_in_unit_interval_false
#print axioms C10_temperature_convex_basic
#print axioms C10_quat_branch_cases
#print axioms C10_quat_roundtrip_w
#print axioms C10_quat_roundtrip_x
#print axioms C10_quat_roundtrip_y
#print axioms C10_quat_roundtrip_z
#print axioms C10_quat_roundtrip
#print axioms C10_quat_unit
#print axioms C10_slerp_endpoints
#print axioms C10_slerp_neg_same_rotation
#print axioms C10_slerp_blend_endpoints
#print axioms C15_blend_is_rotation
#print axioms C15_blend_is_rotation_quat
#print axioms C15_blend_linear_norm
#print axioms C15_blend_defect_exact
#print axioms C15_blend_orthonormal_iff
#print axioms C15_blend_linear_defect
#print axioms C10_quat_laws_real
#print axioms C02_line_no_grains_models_rotation_unchanged
#print axioms C02_line_no_grains_models_unchanged_iff
#print axioms C02_line_no_grains_models_rotation_block_unchanged
#print axioms C10_slerp_geodesic
#print axioms C10_slerp_geodesic_angle
#print axioms C10_slerp_geodesic_linear
#print axioms C10_grains_blend_between
#print axioms C10_grains_laws_real
#check @C10_resolve_own
#check @C10_resolve_inherit_nearest
#check @C10_resolve_nowhere
#check @C10_resolve_section_then_feature
#check @C10_explicit_models
#check @C10_explicit_models_ancestor_free
#check @C10_explicit_models_any_chain
#check @C10_parseLine_factor
#check @C10_repeat_default_segments
#check @C10_repeat_default_section
#check @C10_repeat_default_sections
#check @C10_repeat_default_feature
#check @C10_section_entry_sets_one
#check @C10_explicit_models_feature
#check @C10_world_indistinguishable
#check @C10_explicit_models_equiv
#check @C10_repeat_default_equiv
#check @C10_lerp
#check @C10_lerp_extrapolates
#check @C10_coversBody_factor
#check @C10_named_quantities
#check @C10_geometry_convex
#check @C10_geometry_at_coordinate
#check @C10_local_thickness_convex
#check @C10_slab_hit_envelope
#check @C10_temperature_convex
#check @C10_composition_convex
#check @C10_velocity_convex
#check @C10_grain_sizes_convex
#check @C10_infLaw_field
#check @C10_setSection_keeps_curve
#check @C10_geometry_reads_two_sections
#check @C10_geometry_reads_nothing
#check @C10_fraction_passthrough
#check @C10_locality_coversBody
#check @C10_locality_coversBody_no_laws
#check @C10_locality_no_closest_point
#check @C10_hit_adjacent_sections
#check @C10_locality_covers
#check @C10_locality_apply
#check @C10_locality_covers_culled
#check @C10_fraction_in_unit_interval_false
#check @C10_fraction_in_unit_interval_full
#check @C10_geometry_convex_full
#check @C10_temperature_convex_basic
#check @C10_quat_branch_cases
#check @C10_quat_roundtrip_w
#check @C10_quat_roundtrip_x
#check @C10_quat_roundtrip_y
#check @C10_quat_roundtrip_z
#check @C10_quat_roundtrip
#check @C10_quat_unit
#check @C10_slerp_endpoints
#check @C10_slerp_neg_same_rotation
#check @C10_slerp_blend_endpoints
#check @C15_blend_is_rotation
#check @C15_blend_is_rotation_quat
#check @C15_blend_linear_norm
#check @C15_blend_defect_exact
#check @C15_blend_orthonormal_iff
#check @C15_blend_linear_defect
#check @C10_quat_laws_real
#check @C02_line_no_grains_models_rotation_unchanged
#check @C02_line_no_grains_models_unchanged_iff
#check @C02_line_no_grains_models_rotation_block_unchanged
#check @C10_slerp_geodesic
#check @C10_slerp_geodesic_angle
#check @C10_slerp_geodesic_linear
#check @C10_grains_blend_between
#check @C10_grains_laws_real
