/-
`Scalar Float`: IEEE-754 double.  libm members are Lean's `Float.*` (which call the C library) plus
`erfc`/`fmod` bound directly to libm.  Only used by the compiled driver (never by proofs).
-/
import GwbVerif.Scalar
import GwbVerif.Model.Rng
namespace Gwb

@[extern "erfc"] opaque floatErfc : Float → Float
@[extern "fmod"] opaque floatFmod : Float → Float → Float

def floatOfBits (u : UInt64) : Float := Float.ofBits u

instance : Scalar Float where
  ofNat n := Float.ofNat n
  ofScientific := Float.ofScientific
  decLt a b := Float.decLt a b
  decLe a b := Float.decLe a b
  beq a b := a == b
  sqrt := Float.sqrt
  exp := Float.exp
  log := Float.log
  sin := Float.sin
  cos := Float.cos
  tan := Float.tan
  asin := Float.asin
  acos := Float.acos
  atan := Float.atan
  tanh := Float.tanh
  erfc := floatErfc
  floor := Float.floor
  ceil := Float.ceil
  round := Float.round
  atan2 := Float.atan2
  pow := Float.pow
  fmod := floatFmod
  log10 := Float.log10
  pi := 3.141592653589793238462643383279502884
  eps := Float.ofBits 0x3cb0000000000000      -- 2^-52
  dblMin := Float.ofBits 0x0010000000000000   -- 2^-1022
  dblMax := Float.ofBits 0x7fefffffffffffff
  inf := Float.ofBits 0x7ff0000000000000
  isNaN := Float.isNaN
  isFinite := Float.isFinite

instance : RandGen Mt19937 Float where
  canonical g := canonicalMt (Float.ofBits 0x3fefffffffffffff) g

end Gwb
