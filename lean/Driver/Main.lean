/-
Line-protocol driver around the Lean model at `R = Float` (same protocol as /verif/harness/wbharness.cc).
usage: gwbdriver <declarations.schema.json> <MAJOR.MINOR>     (requests on stdin, answers on stdout)
-/
import Driver.FloatScalar
import GwbVerif.Model.Parse.Json
import GwbVerif.Model.Apps.Grid
import GwbVerif.Model.Apps.Dat
import GwbVerif.Model.Apps.GridMesh
import GwbVerif.Model.Apps.GridSphere
import GwbVerif.Model.Parse.Schema
open Gwb Lean

/-- the text gwb-dat prints for a column name -/
def colText (dim : Nat) : ColName → String
  | .input i => if dim == 2 then (["x", "z", "d"][i]?).getD "?" else (["x", "y", "z", "d"][i]?).getD "?"
  | .T => "T"
  | .v i => if dim == 2 then (["vx", "vz", "v2"][i]?).getD "?" else (["vx", "vy", "vz"][i]?).getD "?"
  | .c n => s!"c{n}"
  | .gs gc g => s!"gs{gc}-{g}"
  | .gm gc g r c => s!"gm{gc}-{g}[{r}:{c}]"
  | .tag => "tag"
  | .g => "g"

def hexDigit (n : UInt64) : Char :=
  let n := n.toNat
  if n < 10 then Char.ofNat (48 + n) else Char.ofNat (87 + n)

def hex (f : Float) : String := Id.run do
  let u := f.toBits
  let mut s := ""
  for i in [0:16] do
    s := s.push (hexDigit ((u >>> (UInt64.ofNat (60 - 4 * i))) &&& 0xf))
  return s

def unhex (s : String) : Option Float := Id.run do
  let mut u : UInt64 := 0
  for c in s.toList do
    let d := if '0' ≤ c ∧ c ≤ '9' then c.toNat - 48
             else if 'a' ≤ c ∧ c ≤ 'f' then c.toNat - 87
             else if 'A' ≤ c ∧ c ≤ 'F' then c.toNat - 55 else 99
    if d == 99 then return none
    u := (u <<< 4) ||| UInt64.ofNat d
  return some (Float.ofBits u)

def parseProps (s : String) : Option (List Req) :=
  if s == "-" then some [] else
  (s.splitOn ",").mapM (fun item =>
    match (item.splitOn ":").map String.toNat? with
    | [some a, some b, some c] => some ⟨a, b, c⟩
    | _ => none)

structure Live where
  world : World Float
  tags : List String
  rng : Mt19937

def parseAux (path : String) : IO (List (SurfaceAux Float)) := do
  if !(← System.FilePath.pathExists path) then return []
  let txt ← IO.FS.readFile path
  let mut out : Array (SurfaceAux Float) := #[]
  let mut tris : Array (Tri Float) := #[]
  let mut nodes : Array (KdNode Float) := #[]
  let mut started := false
  for line in txt.splitOn "\n" do
    let ws := (line.splitOn " ").filter (· ≠ "")
    match ws with
    | "surface" :: _ =>
      if started then out := out.push ⟨tris, nodes⟩
      started := true; tris := #[]; nodes := #[]
    | "t" :: rest =>
      match rest.mapM unhex with
      | some [a, b, c, d, e, f, g, h, i] => tris := tris.push ⟨⟨a, b, c⟩, ⟨d, e, f⟩, ⟨g, h, i⟩⟩
      | _ => throw (IO.userError "bad aux triangle")
    | ["n", i, x, y] =>
      match i.toNat?, unhex x, unhex y with
      | some i, some x, some y => nodes := nodes.push ⟨i, x, y⟩
      | _, _, _ => throw (IO.userError "bad aux node")
    | _ => pure ()
  if started then out := out.push ⟨tris, nodes⟩
  return out.toList

def fmtOut (vs : List Float) : String :=
  "ok " ++ toString vs.length ++ String.join (vs.map (fun v => " " ++ hex v))

def runQ {α : Type} (lv : Live) (m : QM Mt19937 α) : Except Err (α × Live) :=
  match m lv.rng with
  | .ok (a, g) => .ok (a, { lv with rng := g })
  | .error e => .error e

partial def loop (decl : Json) (version : String) (stdin : IO.FS.Stream) (worlds : List (String × Live)) : IO Unit := do
  let line ← stdin.getLine
  if line.isEmpty then return ()
  let ws := (line.trimAscii.toString.splitOn " ").filter (· ≠ "")
  let find (id : String) : Option Live := (worlds.find? (·.1 == id)).map (·.2)
  let put (id : String) (lv : Live) : List (String × Live) := (id, lv) :: worlds.filter (·.1 != id)
  let answer (id : String) (lv : Live) (r : Except Err (List Float × Live)) : IO (List (String × Live)) := do
    match r with
    | .ok (vs, lv') => IO.println (fmtOut vs); return put id lv'
    | .error e => IO.println s!"err {e}"; return put id lv
  match ws with
  | [] => loop decl version stdin worlds
  | "schema" :: _ => IO.println "ok"; loop decl version stdin worlds
  | ["dat", d, c, gc, ng, cs] =>
    match d.toNat?, c.toNat?, gc.toNat?, ng.toNat? with
    | some d, some c, some gc, some ng =>
      let cfg : DatCfg := { dim := d, compositions := c, grainCompositions := gc, nGrains := ng, convertSpherical := cs == "true" }
      let hdr := " ".intercalate ((datHeader cfg).map (colText d))
      let slots := " ".intercalate ((datRowSlots cfg).map (fun (o : Option Nat) => match o with | none => "in" | some s => toString s))
      let props := ",".intercalate ((datProps cfg).map (fun (p : Req) => s!"{p.code}:{p.n}:{p.k}"))
      IO.println s!"ok {hdr} | {slots} | {props}"
      loop decl version stdin worlds
    | _, _, _, _ => IO.println "err bad-args"; loop decl version stdin worlds
  | ["datopts", path] =>
    let txt ← IO.FS.readFile path
    let cfg := datOptions ((txt.splitOn "\n").map datTokens)
    IO.println s!"ok {cfg.dim} {cfg.compositions} {cfg.grainCompositions} {cfg.nGrains} {cfg.convertSpherical}"
    loop decl version stdin worlds
  | "kconv" :: args =>
    match args.mapM unhex with
    | some [x, y, z] =>
      let sc := cartesianToSpherical (⟨x, y, z⟩ : P3 Float)
      let b := sphericalToCartesian sc
      IO.println (fmtOut [sc.x, sc.y, sc.z, b.x, b.y, b.z]); loop decl version stdin worlds
    | _ => IO.println "err bad-args"; loop decl version stdin worlds
  | "kgc" :: args =>
    match args.mapM unhex with
    | some [r, lo1, la1, lo2, la2] =>
      IO.println (fmtOut [distanceSameDepth true (⟨r, lo1, la1⟩ : P3 Float) ⟨r, lo2, la2⟩]); loop decl version stdin worlds
    | _ => IO.println "err bad-args"; loop decl version stdin worlds
  | "kpoly" :: sph :: n :: args =>
    match n.toNat?, args.mapM unhex with
    | some n, some vs =>
      if vs.length != 2 * n + 2 then do IO.println "err bad-args"; loop decl version stdin worlds else
      let pts : List (P2 Float) := (List.range n).map (fun i => ⟨vs[2 * i]!, vs[2 * i + 1]!⟩)
      let p : P2 Float := ⟨vs[2 * n]!, vs[2 * n + 1]!⟩
      IO.println (fmtOut [if polygonContains (sph == "1") pts p then 1.0 else 0.0]); loop decl version stdin worlds
    | _, _ => IO.println "err bad-args"; loop decl version stdin worlds
  | "kkd" :: n :: args =>
    match n.toNat?, args.mapM unhex with
    | some n, some vs =>
      if vs.length != 2 * n + 2 then do IO.println "err bad-args"; loop decl version stdin worlds else
      let nodes : List (KdNode Float) := (List.range n).map (fun i => ⟨i, vs[2 * i]!, vs[2 * i + 1]!⟩)
      let p : P2 Float := ⟨vs[2 * n]!, vs[2 * n + 1]!⟩
      let tree := (buildMedian (n + 1) nodes false).toArray
      match kdFindClosestPoints tree p with
      | .ok st => IO.println (fmtOut [st.minDistance, st.minDistance, Float.ofNat st.vector.length]); loop decl version stdin worlds
      | .error e => IO.println s!"err {e}"; loop decl version stdin worlds
    | _, _ => IO.println "err bad-args"; loop decl version stdin worlds
  | "kbez" :: sph :: n :: args =>
    match n.toNat?, args.mapM unhex with
    | some n, some vs =>
      if vs.length != 2 * n + 2 then do IO.println "err bad-args"; loop decl version stdin worlds else
      let pts : List (P2 Float) := (List.range n).map (fun i => ⟨vs[2 * i]!, vs[2 * i + 1]!⟩)
      let p : P2 Float := ⟨vs[2 * n]!, vs[2 * n + 1]!⟩
      match (do let bz ← Bezier.build pts; bz.closestPoint (sph == "1") p) with
      | .ok (some c) => IO.println (fmtOut [c.distance, c.fraction, Float.ofNat c.index, c.point.x, c.point.y, c.normal.x, c.normal.y]); loop decl version stdin worlds
      | .ok none =>
        let nan : Float := 0.0 / 0.0
        IO.println (fmtOut [1.0 / 0.0, nan, 0.0, nan, nan, nan, nan]); loop decl version stdin worlds
      | .error e => IO.println s!"err {e}"; loop decl version stdin worlds
    | _, _ => IO.println "err bad-args"; loop decl version stdin worlds
  | "grid" :: gtype :: dim :: nx :: ny :: nz :: bounds =>
    -- grid <cartesian|chunk|annulus|sphere> <dim> <nx> <ny> <nz> <xmin xmax ymin ymax zmin zmax as hex>   (angles in degrees, as in the grid file)
    match dim.toNat?, nx.toNat?, ny.toNat?, nz.toNat?, bounds.mapM unhex with
    | some dim, some nx, some ny, some nz, some [xmin, xmax, ymin, ymax, zmin, zmax] =>
      let d2r (a : Float) : Float := degToRad a
      let mesh : Option (GridMesh Float) :=
        if gtype == "cartesian" then
          (if dim == 2 then some (cartesianGrid2 xmin xmax zmin zmax nx nz) else some (cartesianGrid3 xmin xmax ymin ymax zmin zmax nx ny nz))
        else if gtype == "chunk" then
          (if dim == 2 then some (chunkGrid2 (d2r xmin) (d2r xmax) zmin zmax nx nz) else some (chunkGrid3 (d2r xmin) (d2r xmax) (d2r ymin) (d2r ymax) zmin zmax nx ny nz))
        else if gtype == "annulus" then
          let nt := (annulusQuotient zmin zmax nz).toUInt64.toNat
          some (annulusGrid2 zmin zmax nt nz)
        else if gtype == "sphere" && dim == 3 then
          -- n_cell_y is not used by the sphere branch; `Err.internal` cannot happen (theorem C18_sphere_total)
          (match sphereGrid zmin zmax nx nz with
           | .ok m => some m
           | .error _ => none)
        else none
      match mesh with
      | some m =>
        let pts := vtkPoints dim m.nodes
        let conn := vtkConnectivity m.cells
        IO.println s!"ok {m.nP} {m.nCell} |{String.join (pts.map (fun v => " " ++ hex v))} |{String.join (m.nodes.map (fun n => " " ++ hex n.depth))} |{String.join (conn.map (fun c => s!" {c}"))}"
        loop decl version stdin worlds
      | none => IO.println "err unsupported"; loop decl version stdin worlds
    | _, _, _, _, _ => IO.println "err bad-args"; loop decl version stdin worlds
  | ["parfor", a, b, c] =>
    match a.toNat?, b.toNat?, c.toNat? with
    | some start, some stop, some pool =>
      let sl := parallelForSlices start stop pool
      IO.println s!"ok {sl.length}{String.join (sl.map (fun (r : Nat × Nat) => s!" {r.1} {r.2}"))}"
      loop decl version stdin worlds
    | _, _, _ => IO.println "err bad-args"; loop decl version stdin worlds
  | "world" :: id :: file :: seed :: rest =>
    let auxPath := match rest with
      | "aux" :: p :: _ => some p
      | _ => none
    let cull := !(rest.contains "nocull")
    let r : Except String (List (String × Live)) ← (do
      let txt ← IO.FS.readFile file
      match Json.parse txt with
      | .error _ => return .error "parse"
      | .ok doc =>
        if !(doc matches .obj _) then return .error "parse" else
        -- schema validation against the declarations dumped from the library under test (parameters.cc:175-193)
        if !(schemaUnsupported decl).isEmpty then return .error "schema-uses-unmodelled-keywords" else
        if !(validateDoc decl doc) then return .error "schema" else
        let aux ← (match auxPath with
          | some p => parseAux p
          | none => pure [])
        match (parseWorld (R := Float) decl version doc cull) aux with
        | .error e => return .error (toString e)
        | .ok (pw, _) =>
          let s0 := match seed.toNat? with
            | some s => s
            | none => 1
          let s := match pw.seed with
            | some s => s
            | none => s0
          return .ok (put id ⟨pw.world, pw.tags, Mt19937.seed s⟩))
    match r with
    | .ok ws' => IO.println "ok"; loop decl version stdin ws'
    | .error e => IO.println s!"err {e}"; loop decl version stdin worlds
  -- schema validation alone (C12): `ok 1` accepted, `ok 0` rejected
  | ["validate", file] =>
    match schemaUnsupported decl with
    | [] =>
      match Json.parse (← IO.FS.readFile file) with
      | .error _ => IO.println "err parse"; loop decl version stdin worlds
      | .ok doc => IO.println (if validateDoc decl doc then "ok 1" else "ok 0"); loop decl version stdin worlds
    | kws => IO.println s!"err schema-uses-unmodelled-keywords {"|".intercalate kws}"; loop decl version stdin worlds
  | ["free", id] => IO.println "ok"; loop decl version stdin (worlds.filter (·.1 != id))
  | cmd :: id :: args =>
    match find id with
    | none => IO.println "err no-world"; loop decl version stdin worlds
    | some lv =>
      let fl (i : Nat) : Option Float := (args[i]?).bind unhex
      let ws' ← (match cmd with
        | "q3" =>
          match fl 0, fl 1, fl 2, fl 3, (args[4]?).bind parseProps with
          | some x, some y, some z, some d, some ps => answer id lv (runQ lv (lv.world.props3 ⟨x, y, z⟩ d ps))
          | _, _, _, _, _ => do IO.println "err bad-args"; pure worlds
        | "q2" =>
          match fl 0, fl 1, fl 2, (args[3]?).bind parseProps with
          | some x, some z, some d, some ps => answer id lv (runQ lv (lv.world.props2 ⟨x, z⟩ d ps))
          | _, _, _, _ => do IO.println "err bad-args"; pure worlds
        | "t3" =>
          match fl 0, fl 1, fl 2, fl 3 with
          | some x, some y, some z, some d => answer id lv (runQ lv (do let t ← lv.world.temperature3 ⟨x, y, z⟩ d; pure [t]))
          | _, _, _, _ => do IO.println "err bad-args"; pure worlds
        | "t2" =>
          match fl 0, fl 1, fl 2 with
          | some x, some z, some d => answer id lv (runQ lv (do let t ← lv.world.temperature2 ⟨x, z⟩ d; pure [t]))
          | _, _, _ => do IO.println "err bad-args"; pure worlds
        | "c3" =>
          match fl 0, fl 1, fl 2, fl 3, (args[4]?).bind String.toNat? with
          | some x, some y, some z, some d, some n => answer id lv (runQ lv (do let t ← lv.world.composition3 ⟨x, y, z⟩ d n; pure [t]))
          | _, _, _, _, _ => do IO.println "err bad-args"; pure worlds
        | "c2" =>
          match fl 0, fl 1, fl 2, (args[3]?).bind String.toNat? with
          | some x, some z, some d, some n => answer id lv (runQ lv (do let t ← lv.world.composition2 ⟨x, z⟩ d n; pure [t]))
          | _, _, _, _ => do IO.println "err bad-args"; pure worlds
        | "g3" =>
          match fl 0, fl 1, fl 2, fl 3, (args[4]?).bind String.toNat?, (args[5]?).bind String.toNat? with
          | some x, some y, some z, some d, some n, some k => answer id lv (runQ lv (lv.world.props3 ⟨x, y, z⟩ d [Req.grains n k]))
          | _, _, _, _, _, _ => do IO.println "err bad-args"; pure worlds
        | "g2" =>
          match fl 0, fl 1, fl 2, (args[3]?).bind String.toNat?, (args[4]?).bind String.toNat? with
          | some x, some z, some d, some n, some k => answer id lv (runQ lv (lv.world.props2 ⟨x, z⟩ d [Req.grains n k]))
          | _, _, _, _, _ => do IO.println "err bad-args"; pure worlds
        | "size" =>
          match (args[0]?).bind parseProps with
          | some ps =>
            match outputSize? ps with
            | .ok n => do IO.println s!"ok {n}"; pure worlds
            | .error e => do IO.println s!"err {e}"; pure worlds
          | none => do IO.println "err bad-args"; pure worlds
        | "dist" =>
          match args[0]?, fl 1, fl 2, fl 3, fl 4 with
          | some nm, some x, some y, some z, some d =>
            match lv.world.distanceToPlane ⟨x, y, z⟩ d (nm.replace "~" " ") with
            | .ok (a, b) => do IO.println (fmtOut [a, b]); pure worlds
            | .error e => do IO.println s!"err {e}"; pure worlds
          | _, _, _, _, _ => do IO.println "err bad-args"; pure worlds
        | "tags" => do
          IO.println s!"ok {lv.tags.length} {"|".intercalate lv.tags}"; pure worlds
        | _ => do IO.println "err bad-command"; pure worlds)
      loop decl version stdin ws'
  | _ => IO.println "err bad-command"; loop decl version stdin worlds

def main (args : List String) : IO UInt32 := do
  match args with
  | [declPath, version] =>
    let txt ← IO.FS.readFile declPath
    match Json.parse txt with
    | .error e => IO.eprintln s!"cannot parse declarations: {e}"; return 2
    | .ok decl =>
      loop decl version (← IO.getStdin) []
      return 0
  | _ => IO.eprintln "usage: gwbdriver <declarations.schema.json> <MAJOR.MINOR>"; return 2
