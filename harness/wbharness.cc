// Line-protocol harness around the real WorldBuilder library (built from /repo's working tree).
// One request per line on stdin, one answer per line on stdout.  Doubles travel as 16 hex digits
// (IEEE-754 bits) so that nothing is lost or reformatted between the C++ and the Lean driver.
//
//   schema <dir>                               write the declarations (schema + defaults) into <dir>  -> ok
//   world <id> <file> <seed|-> [aux <file>] [nocull]   build a world; with aux, dump every non-constant
//                                              depth surface (triangles + kd nodes) in construction order -> ok | err <class> <msg>
//   free <id>
//   q3 <id> <x> <y> <z> <depth> <props>        props = code:n:k,code:n:k,...             -> ok <n> <v…> | err <class> <msg>
//   q2 <id> <x> <z> <depth> <props>
//   t3/t2 <id> <coords…> <depth>               World::temperature                        -> ok 1 <v>
//   c3/c2 <id> <coords…> <depth> <n>           World::composition
//   g3/g2 <id> <coords…> <depth> <n> <k>       World::grains (sizes then matrices, as unroll_into)
//   size <id> <props>                          properties_output_size                    -> ok <n>
//   dist <id> <name> <x> <y> <z> <depth>       distance_to_plane                         -> ok 2 <from> <along>
//   tags <id>                                  feature_tags                              -> ok <n> <tag|tag|…>
#include <cstdio>
#include <cstdint>
#include <cstring>
#include <fstream>
#include <iostream>
#include <map>
#include <memory>
#include <sstream>
#include <string>
#include <vector>

#include "world_builder/world.h"
#include "world_builder/grains.h"
#include "world_builder/verif_hooks.h"
#include "world_builder/utilities.h"
#include "world_builder/kd_tree.h"
#include "world_builder/objects/bezier_curve.h"
#include "world_builder/coordinate_systems/spherical.h"

using namespace WorldBuilder;

static std::string hex(double d)
{
  uint64_t u;
  std::memcpy(&u, &d, 8);
  char buf[20];
  snprintf(buf, sizeof buf, "%016llx", static_cast<unsigned long long>(u));
  return buf;
}
static double unhex(const std::string &s)
{
  uint64_t u = std::stoull(s, nullptr, 16);
  double d;
  std::memcpy(&d, &u, 8);
  return d;
}
static std::vector<std::array<unsigned int,3>> parse_props(const std::string &s)
{
  std::vector<std::array<unsigned int,3>> r;
  if (s == "-") return r;
  std::stringstream ss(s);
  std::string item;
  while (std::getline(ss, item, ','))
    {
      unsigned int a, b, c;
      if (sscanf(item.c_str(), "%u:%u:%u", &a, &b, &c) != 3) throw std::runtime_error("bad props");
      r.push_back({{a, b, c}});
    }
  return r;
}
// map an exception message to the small error enum shared with the Lean driver
static std::string classify(const std::string &m)
{
  auto has = [&](const char *t) { return m.find(t) != std::string::npos; };
  if (has("Parsing errors world builder file") || has("is not an object")) return "parse";
  if (has("Invalid schema") || has("Invalid keyword")) return "schema";
  if (has("major and minor version")) return "version";
  if (has("not the same amount") || has("same number of entries")) return "length";
  if (has("can only be called when the cross section")) return "no-cross-section";
  if (has("Unimplemented property")) return "unknown-property";
  if (has("was not in any triangle")) return "not-in-triangle";
  if (has("not a valid depth method") || has("Only Euler angles or Rotation") || has("Euler angles or Rotation matrices have")) return "option";
  return "other";
}
static std::string oneline(std::string m)
{
  for (auto &c : m) if (c == '\n' || c == '\r') c = ' ';
  if (m.size() > 300) m.resize(300);
  return m;
}

int main()
{
  std::map<std::string, std::unique_ptr<World>> worlds;
  std::string line;
  std::ios::sync_with_stdio(false);
  while (std::getline(std::cin, line))
    {
      if (line.empty()) continue;
      std::stringstream ss(line);
      std::string cmd;
      ss >> cmd;
      try
        {
          if (cmd == "schema")
            {
              std::string dir, file;
              ss >> dir >> file;
              World w(file, true, dir, 1);
              std::cout << "ok\n";
            }
          else if (cmd == "world")
            {
              std::string id, file, seed, tok, auxfile;
              bool nocull = false;
              ss >> id >> file >> seed;
              while (ss >> tok)
                {
                  if (tok == "aux") ss >> auxfile;
                  else if (tok == "nocull") nocull = true;
                }
              std::vector<Verif::SurfaceDump> sink;
              // a stale dump of an earlier world under the same name must not survive a construction that throws (the driver would read it as this world's)
              if (!auxfile.empty()) std::remove(auxfile.c_str());
              Verif::surface_sink() = auxfile.empty() ? nullptr : &sink;
              Verif::inflate_culling_bounds() = nocull;
              std::unique_ptr<World> w;
              try
                {
                  if (seed == "-") w.reset(new World(file));
                  else w.reset(new World(file, false, "", std::stoul(seed)));
                }
              catch (...)
                {
                  Verif::surface_sink() = nullptr;
                  Verif::inflate_culling_bounds() = false;
                  throw;
                }
              Verif::surface_sink() = nullptr;
              Verif::inflate_culling_bounds() = false;
              if (!auxfile.empty())
                {
                  std::ofstream aux(auxfile);
                  for (const auto &d : sink)
                    {
                      aux << "surface " << d.triangles.size() << " " << d.nodes.size() << "\n";
                      for (const auto &t : d.triangles)
                        {
                          aux << "t";
                          for (int a = 0; a < 3; ++a) for (int b = 0; b < 3; ++b) aux << " " << hex(t[a][b]);
                          aux << "\n";
                        }
                      for (const auto &n : d.nodes)
                        aux << "n " << static_cast<unsigned long>(n[0]) << " " << hex(n[1]) << " " << hex(n[2]) << "\n";
                    }
                }
              worlds[id] = std::move(w);
              std::cout << "ok\n";
            }
          else if (cmd == "kbezsample")
            {
              // kbezsample <sph> <n> x0 y0 … px py <m>: minimum over m+1 samples per piece of the distance from p to the curve  -> ok 3 <min dist> <piece> <t>
              auto rd = [&]() { std::string t; ss >> t; return unhex(t); };
              int sphf; size_t n; ss >> sphf >> n;
              const CoordinateSystem cs = sphf ? spherical : cartesian;
              std::vector<Point<2>> pts;
              for (size_t i = 0; i < n; ++i) { const double x = rd(), y = rd(); pts.emplace_back(x, y, cs); }
              const double px = rd(), py = rd();
              size_t m; ss >> m;
              Objects::BezierCurve bz(pts);
              double best = std::numeric_limits<double>::infinity(), bt = 0; size_t bi = 0;
              for (size_t i = 0; i + 1 < n; ++i)
                for (size_t k = 0; k <= m; ++k)
                  {
                    const double t = static_cast<double>(k) / static_cast<double>(m);
                    const Point<2> q = bz(i, t);
                    double d;
                    if (sphf)
                      {
                        const double sl = std::sin((q[1]-py)*0.5), so = std::sin((q[0]-px)*0.5);
                        d = 2.0 * std::asin(std::sqrt(sl*sl + so*so*std::cos(py)*std::cos(q[1])));
                      }
                    else d = std::sqrt((q[0]-px)*(q[0]-px) + (q[1]-py)*(q[1]-py));
                    if (d < best) { best = d; bi = i; bt = t; }
                  }
              std::cout << "ok 3 " << hex(best) << " " << hex(static_cast<double>(bi)) << " " << hex(bt) << "\n";
            }
          else if (cmd == "kpoly" || cmd == "kkd" || cmd == "kbez" || cmd == "kconv" || cmd == "kgc")
            {
              // direct kernel calls:  kpoly <sph> <n> x0 y0 … px py | kkd <n> x0 y0 … px py | kbez <sph> <n> x0 y0 … px py | kconv x y z | kgc r lon1 lat1 lon2 lat2
              auto rd = [&]() { std::string t; ss >> t; return unhex(t); };
              std::vector<double> out;
              if (cmd == "kconv")
                {
                  const double x = rd(), y = rd(), z = rd();
                  const std::array<double,3> sc = Utilities::cartesian_to_spherical_coordinates(Point<3>(x, y, z, cartesian));
                  const Point<3> back = Utilities::spherical_to_cartesian_coordinates(sc);
                  out = {sc[0], sc[1], sc[2], back[0], back[1], back[2]};
                }
              else if (cmd == "kgc")
                {
                  const double r = rd(), lo1 = rd(), la1 = rd(), lo2 = rd(), la2 = rd();
                  CoordinateSystems::Spherical sph(nullptr);
                  out = {sph.distance_between_points_at_same_depth(Point<3>(r, lo1, la1, spherical), Point<3>(r, lo2, la2, spherical))};
                }
              else
                {
                  int sphf = 0; size_t n;
                  if (cmd != "kkd") ss >> sphf;
                  ss >> n;
                  const CoordinateSystem cs = sphf ? spherical : cartesian;
                  std::vector<Point<2>> pts;
                  for (size_t i = 0; i < n; ++i) { const double x = rd(), y = rd(); pts.emplace_back(x, y, cs); }
                  const double px = rd(), py = rd();
                  const Point<2> p(px, py, cs);
                  if (cmd == "kpoly")
                    out = {Utilities::polygon_contains_point(pts, p) ? 1.0 : 0.0};
                  else if (cmd == "kkd")
                    {
                      std::vector<KDTree::Node> nodes;
                      for (size_t i = 0; i < n; ++i) nodes.emplace_back(i, pts[i][0], pts[i][1]);
                      KDTree::KDTree tree(nodes);
                      tree.create_tree(0, nodes.size()-1, false);
                      const KDTree::IndexDistances ids = tree.find_closest_points(p);
                      const KDTree::IndexDistance id = tree.find_closest_point(p);
                      out = {ids.min_distance, id.distance, static_cast<double>(ids.vector.size())};
                    }
                  else
                    {
                      Objects::BezierCurve bz(pts);
                      const Objects::ClosestPointOnCurve c = bz.closest_point_on_curve_segment(p);
                      out = {c.distance, c.parametric_fraction, static_cast<double>(c.index), c.point[0], c.point[1], c.normal[0], c.normal[1]};
                    }
                }
              std::cout << "ok " << out.size();
              for (double v : out) std::cout << " " << hex(v);
              std::cout << "\n";
            }
          else if (cmd == "free")
            {
              std::string id;
              ss >> id;
              worlds.erase(id);
              std::cout << "ok\n";
            }
          else
            {
              std::string id;
              ss >> id;
              auto it = worlds.find(id);
              if (it == worlds.end()) { std::cout << "err no-world\n"; continue; }
              World &w = *it->second;
              std::vector<double> out;
              auto rd = [&]() { std::string t; ss >> t; return unhex(t); };
              if (cmd == "q3")
                {
                  double x = rd(), y = rd(), z = rd(), d = rd();
                  std::string p; ss >> p;
                  out = w.properties(std::array<double,3> {{x, y, z}}, d, parse_props(p));
                }
              else if (cmd == "q2")
                {
                  double x = rd(), z = rd(), d = rd();
                  std::string p; ss >> p;
                  out = w.properties(std::array<double,2> {{x, z}}, d, parse_props(p));
                }
              else if (cmd == "t3") { double x = rd(), y = rd(), z = rd(), d = rd(); out = {w.temperature(std::array<double,3> {{x, y, z}}, d)}; }
              else if (cmd == "t2") { double x = rd(), z = rd(), d = rd(); out = {w.temperature(std::array<double,2> {{x, z}}, d)}; }
              else if (cmd == "c3") { double x = rd(), y = rd(), z = rd(), d = rd(); unsigned n; ss >> n; out = {w.composition(std::array<double,3> {{x, y, z}}, d, n)}; }
              else if (cmd == "c2") { double x = rd(), z = rd(), d = rd(); unsigned n; ss >> n; out = {w.composition(std::array<double,2> {{x, z}}, d, n)}; }
              else if (cmd == "g3" || cmd == "g2")
                {
                  WorldBuilder::grains g;
                  unsigned n; size_t k;
                  if (cmd == "g3") { double x = rd(), y = rd(), z = rd(), d = rd(); ss >> n >> k; g = w.grains(std::array<double,3> {{x, y, z}}, d, n, k); }
                  else { double x = rd(), z = rd(), d = rd(); ss >> n >> k; g = w.grains(std::array<double,2> {{x, z}}, d, n, k); }
                  out.resize(g.sizes.size() * 10);
                  g.unroll_into(out, 0);
                }
              else if (cmd == "size")
                {
                  std::string p; ss >> p;
                  std::cout << "ok " << w.properties_output_size(parse_props(p)) << "\n";
                  continue;
                }
              else if (cmd == "dist")
                {
                  std::string name; ss >> name;
                  for (auto &c : name) if (c == '~') c = ' ';
                  double x = rd(), y = rd(), z = rd(), d = rd();
                  auto pd = w.distance_to_plane(std::array<double,3> {{x, y, z}}, d, name);
                  out = {pd.get_distance_from_surface(), pd.get_distance_along_surface()};
                }
              else if (cmd == "tags")
                {
                  std::cout << "ok " << w.feature_tags.size();
                  std::cout << " ";
                  for (size_t i = 0; i < w.feature_tags.size(); ++i) std::cout << (i ? "|" : "") << w.feature_tags[i];
                  std::cout << "\n";
                  continue;
                }
              else { std::cout << "err bad-command\n"; continue; }
              std::cout << "ok " << out.size();
              for (double v : out) std::cout << " " << hex(v);
              std::cout << "\n";
            }
        }
      catch (const std::exception &e)
        {
          std::cout << "err " << classify(e.what()) << " " << oneline(e.what()) << "\n";
        }
      catch (...)
        {
          std::cout << "err nonstd\n";
        }
    }
  std::cout.flush();
  return 0;
}
