// Exercises gwb-grid's own ThreadPool::parallel_for (source/gwb-grid/main.cc compiled in with `main` renamed) and prints,
// for each request "start end pool" on stdin, the index ranges the threads actually ran:  "ok <k> a0 b0 a1 b1 ... | <count check>"
#define main gwb_grid_main
#include "main.cc"   // found through -I<repo>/source/gwb-grid
#undef main
#include <mutex>
int main()
{
  size_t start, end, pool;
  while (std::cin >> start >> end >> pool)
    {
      std::vector<std::thread::id> who(end, std::thread::id());
      std::vector<int> count(end, 0);
      std::mutex m;
      ThreadPool tp(pool);
      tp.parallel_for(start, end, [&](size_t k) { std::lock_guard<std::mutex> g(m); who[k] = std::this_thread::get_id(); ++count[k]; });
      // reconstruct the ranges: maximal runs of indices run by one thread (two consecutive ranges could be run by a reused id only if
      // a thread finished and the OS reused the id; the pool keeps all threads until the join, so ids are distinct)
      std::vector<std::pair<size_t,size_t>> ranges;
      bool once = true;
      for (size_t k = start; k < end; ++k)
        {
          if (count[k] != 1) once = false;
          if (k == start || who[k] != who[k-1]) ranges.push_back({k, k+1}); else ranges.back().second = k+1;
        }
      std::cout << "ok " << ranges.size();
      for (auto &r : ranges) std::cout << " " << r.first << " " << r.second;
      std::cout << " | " << (once ? "once" : "NOT-ONCE") << "\n";
    }
  return 0;
}
