// C16: the C interface (wrapper_c.h) and the C++ wrapper class (wrapper_cpp.h) against the native World, in one process.
// usage: wrappers <world.wb> <queries file> <seed> <output dir or -> <has_output_dir: 0|1|null>
//   queries file: one per line "x y z depth props" (3-D) or "x z depth props 2d" (2-D); hex doubles, props as code:n:k,...
// output: lines "MISMATCH <what>", then "ok <comparisons> <mismatches>"; "err <msg>" when construction fails on every side alike.
#include <cstdint>
#include <cstring>
#include <fstream>
#include <iostream>
#include <sstream>
#include <vector>
#include <sys/stat.h>
#include "world_builder/world.h"
#include "world_builder/wrapper_cpp.h"
extern "C" {
#include "world_builder/wrapper_c.h"
}
using namespace WorldBuilder;
static double unhex(const std::string &s) { uint64_t u = std::stoull(s, nullptr, 16); double d; std::memcpy(&d, &u, 8); return d; }
static bool same(double a, double b) { return std::memcmp(&a, &b, 8) == 0; }
static bool exists(const std::string &p) { struct stat st; return stat(p.c_str(), &st) == 0; }
struct Q { bool twod; std::array<double,3> p; double depth; std::vector<std::array<unsigned,3>> props; };
int main(int argc, char **argv)
{
  if (argc < 6) { std::cout << "err usage\n"; return 2; }
  const std::string file = argv[1];
  const unsigned long seed = std::stoul(argv[3]);
  const std::string outdir = argv[4];
  const std::string hod = argv[5];
  std::vector<Q> qs;
  {
    std::ifstream in(argv[2]);
    std::string line;
    while (std::getline(in, line))
      {
        std::stringstream ss(line);
        std::vector<std::string> t; std::string w;
        while (ss >> w) t.push_back(w);
        Q q;
        std::string p;
        if (t.size() == 5 && t[4] == "2d") { q.twod = true; q.p = {{unhex(t[0]), unhex(t[1]), 0}}; q.depth = unhex(t[2]); p = t[3]; }
        else if (t.size() == 5) { q.twod = false; q.p = {{unhex(t[0]), unhex(t[1]), unhex(t[2])}}; q.depth = unhex(t[3]); p = t[4]; }
        else continue;
        std::stringstream ps(p); std::string item;
        while (std::getline(ps, item, ',')) { unsigned x, y, z; sscanf(item.c_str(), "%u:%u:%u", &x, &y, &z); q.props.push_back({{x, y, z}}); }
        qs.push_back(q);
      }
  }
  unsigned long n = 0, bad = 0;
  auto mism = [&](const std::string &s) { ++bad; std::cout << "MISMATCH " << s << "\n"; };
  try
    {
      // --- construction: every argument must reach the world
      void *cw = nullptr;
      bool flag = hod == "1";
      const bool *flagp = hod == "null" ? nullptr : &flag;
      const char *dirp = outdir == "-" ? nullptr : outdir.c_str();
      create_world(&cw, file.c_str(), flagp, dirp, seed);
      if (flagp != nullptr && flag && dirp != nullptr)
        {
          ++n;
          for (const char *f : {"world_builder_declarations.schema.json", "world_builder_declarations.tex", "world_builder_declarations_open.md", "world_builder_declarations_closed.md"})
            if (!exists(outdir + f)) { mism(std::string("create_world: output directory did not reach the world: ") + outdir + f + " was not written"); break; }
        }
      World native(file, false, "", seed);
      World native2(file, false, "", seed);   // second native twin: the C++ wrapper gets its own history
      wrapper_cpp::WorldBuilderWrapper cpp(file, false, "", seed);
      for (const Q &q : qs)
        {
          // properties_output_size
          std::vector<unsigned> flat(q.props.size() * 3 + 3);
          for (size_t i = 0; i < q.props.size(); ++i) for (int k = 0; k < 3; ++k) flat[3*i+k] = q.props[i][k];
          const unsigned (*pp)[3] = reinterpret_cast<const unsigned (*)[3]>(flat.data());
          unsigned sz_native = 0, sz_c = 0; bool thrown_native = false, thrown_c = false;
          try { sz_native = native.properties_output_size(q.props); } catch (const std::exception &) { thrown_native = true; }
          try { sz_c = properties_output_size(cw, pp, q.props.size()); } catch (const std::exception &) { thrown_c = true; }
          ++n;
          if (thrown_native != thrown_c || sz_native != sz_c) { mism("properties_output_size " + std::to_string(sz_native) + " vs " + std::to_string(sz_c)); continue; }
          if (thrown_native) continue;
          std::vector<double> rn, rc(sz_c + 1, -12345.0);
          bool tn = false, tc = false;
          try { rn = q.twod ? native.properties(std::array<double,2> {{q.p[0], q.p[1]}}, q.depth, q.props) : native.properties(q.p, q.depth, q.props); } catch (const std::exception &) { tn = true; }
          try { if (q.twod) properties_2d(cw, q.p[0], q.p[1], q.depth, pp, q.props.size(), rc.data()); else properties_3d(cw, q.p[0], q.p[1], q.p[2], q.depth, pp, q.props.size(), rc.data()); }
          catch (const std::exception &) { tc = true; }
          ++n;
          if (tn != tc) { mism("properties: one side throws"); continue; }
          if (!tn)
            {
              if (rn.size() != sz_c) mism("properties: native returns " + std::to_string(rn.size()) + " values, output size says " + std::to_string(sz_c));
              else
                {
                  for (size_t i = 0; i < rn.size(); ++i) if (!same(rn[i], rc[i])) { mism("properties slot " + std::to_string(i)); break; }
                  if (rc[sz_c] != -12345.0) mism("properties wrote past properties_output_size");
                }
            }
          // temperature / composition: the C world shares its whole call history with `native`, the C++ wrapper (which has no
          // properties call) shares its history with `native2` — worlds with random models advance their engine on every call
          double t_n = 0, t_c = 0, t_p = 0, t_n2 = 0; bool e1 = false, e2 = false, e3 = false, e4 = false;
          try { t_n = q.twod ? native.temperature(std::array<double,2> {{q.p[0], q.p[1]}}, q.depth) : native.temperature(q.p, q.depth); } catch (const std::exception &) { e1 = true; }
          try { if (q.twod) temperature_2d(cw, q.p[0], q.p[1], q.depth, &t_c); else temperature_3d(cw, q.p[0], q.p[1], q.p[2], q.depth, &t_c); } catch (const std::exception &) { e2 = true; }
          try { t_n2 = q.twod ? native2.temperature(std::array<double,2> {{q.p[0], q.p[1]}}, q.depth) : native2.temperature(q.p, q.depth); } catch (const std::exception &) { e4 = true; }
          try { t_p = q.twod ? cpp.temperature_2d(q.p[0], q.p[1], q.depth) : cpp.temperature_3d(q.p[0], q.p[1], q.p[2], q.depth); } catch (const std::exception &) { e3 = true; }
          ++n;
          if (e1 != e2 || e4 != e3 || (!e1 && !same(t_n, t_c)) || (!e4 && !same(t_n2, t_p))) mism("temperature");
          for (unsigned c : {0u, 1u, 3u})
            {
              double c_n = 0, c_c = 0, c_p = 0, c_n2 = 0; e1 = e2 = e3 = e4 = false;
              try { c_n = q.twod ? native.composition(std::array<double,2> {{q.p[0], q.p[1]}}, q.depth, c) : native.composition(q.p, q.depth, c); } catch (const std::exception &) { e1 = true; }
              try { c_n2 = q.twod ? native2.composition(std::array<double,2> {{q.p[0], q.p[1]}}, q.depth, c) : native2.composition(q.p, q.depth, c); } catch (const std::exception &) { e4 = true; }
              try { if (q.twod) composition_2d(cw, q.p[0], q.p[1], q.depth, c, &c_c); else composition_3d(cw, q.p[0], q.p[1], q.p[2], q.depth, c, &c_c); } catch (const std::exception &) { e2 = true; }
              try { c_p = q.twod ? cpp.composition_2d(q.p[0], q.p[1], q.depth, c) : cpp.composition_3d(q.p[0], q.p[1], q.p[2], q.depth, c); } catch (const std::exception &) { e3 = true; }
              ++n;
              if (e1 != e2 || e4 != e3 || (!e1 && !same(c_n, c_c)) || (!e4 && !same(c_n2, c_p))) mism("composition " + std::to_string(c));
            }
        }
      release_world(cw);
    }
  catch (const std::exception &e)
    {
      std::string m = e.what();
      std::cout << "err " << m.substr(0, 200) << "\n";
      return 0;
    }
  std::cout << "ok " << n << " " << bad << "\n";
  return 0;
}
