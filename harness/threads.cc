// Concurrent queries against one world (C14): every thread issues the same set of queries in its own shuffled order
// (locations are revisited back to back with probability 1/4) and compares each answer, bit for bit, with the
// single-threaded reference computed before the threads start.
// usage: threads <world.wb> <queries file> <n_threads> <rounds> <seed>
//   queries file: one per line  "x y z depth props"  (hex doubles, props as code:n:k,...)
// output: "ok <n_queries_issued> <mismatches>"  or "err <msg>"
#include <atomic>
#include <cstdint>
#include <cstring>
#include <fstream>
#include <iostream>
#include <random>
#include <sstream>
#include <thread>
#include <vector>
#include "world_builder/world.h"
using namespace WorldBuilder;
static double unhex(const std::string &s) { uint64_t u = std::stoull(s, nullptr, 16); double d; std::memcpy(&d, &u, 8); return d; }
struct Q { std::array<double,3> p; double depth; std::vector<std::array<unsigned,3>> props; };
int main(int argc, char **argv)
{
  if (argc < 6) { std::cout << "err usage\n"; return 2; }
  try
    {
      World world(argv[1]);
      std::vector<Q> qs;
      std::ifstream in(argv[2]);
      std::string line;
      while (std::getline(in, line))
        {
          std::stringstream ss(line);
          std::string a, b, c, d, p;
          if (!(ss >> a >> b >> c >> d >> p)) continue;
          Q q; q.p = {{unhex(a), unhex(b), unhex(c)}}; q.depth = unhex(d);
          std::stringstream ps(p); std::string item;
          while (std::getline(ps, item, ',')) { unsigned x, y, z; sscanf(item.c_str(), "%u:%u:%u", &x, &y, &z); q.props.push_back({{x, y, z}}); }
          qs.push_back(q);
        }
      const unsigned n_threads = std::stoul(argv[3]), rounds = std::stoul(argv[4]);
      const unsigned long seed = std::stoul(argv[5]);
      std::vector<std::vector<double>> ref(qs.size());
      std::vector<char> ref_throws(qs.size(), 0);
      for (size_t i = 0; i < qs.size(); ++i)
        {
          try { ref[i] = world.properties(qs[i].p, qs[i].depth, qs[i].props); }
          catch (const std::exception &) { ref_throws[i] = 1; }
        }
      std::atomic<unsigned long> issued(0), mismatches(0);
      std::vector<std::thread> ts;
      for (unsigned t = 0; t < n_threads; ++t)
        ts.emplace_back([&, t]()
        {
          std::mt19937 rng(static_cast<unsigned>(seed + 7919 * t));
          for (unsigned r = 0; r < rounds; ++r)
            for (size_t k = 0; k < qs.size(); ++k)
              {
                const size_t i = rng() % qs.size();
                const unsigned reps = (rng() % 4 == 0) ? 3 : 1;
                for (unsigned rep = 0; rep < reps; ++rep)
                  {
                    bool threw = false;
                    std::vector<double> out;
                    try { out = world.properties(qs[i].p, qs[i].depth, qs[i].props); }
                    catch (const std::exception &) { threw = true; }
                    ++issued;
                    bool ok = (threw == (ref_throws[i] != 0)) && out.size() == ref[i].size();
                    if (ok && !threw) ok = std::memcmp(out.data(), ref[i].data(), out.size() * sizeof(double)) == 0;
                    if (!ok) ++mismatches;
                  }
              }
        });
      for (auto &t : ts) t.join();
      std::cout << "ok " << issued.load() << " " << mismatches.load() << "\n";
    }
  catch (const std::exception &e) { std::cout << "err " << e.what() << "\n"; return 1; }
  return 0;
}
