#!/usr/bin/env python3
"""file a confirmed seed: seeded/_incoming/<id> -> seeded/<id> with meta.json.  usage: file_seed.py <id> <needs-to-manifest text>"""
import json, os, shutil, sys
sid, needs = sys.argv[1], sys.argv[2]
src = '/verif/seeded/_incoming/' + sid
log = open(src + '/confirm.log').read()
assert 'applied' in log and 'build ok' in log and '99% tests passed, 1 tests failed out of 135' in log and log.count('exit=1') == 1 and log.count('exit=0') == 1, log
head = os.popen('git -C /repo rev-parse --short HEAD').read().strip()
meta = {"property": sid.split('-')[0], "source": os.environ.get("SEED_SOURCE", "independent sub-agent given only the property text, a scratch worktree and one line per earlier seed describing the idea to avoid"),
        "needs_to_manifest": needs,
        "confirmed": {"suite_with_change": "134/135 pass (grid_fault_edge_limits fails on the unchanged tree too)", "demo_with_change": "exit 1", "demo_without_change": "exit 0"},
        "what_i_ran": "tools/confirm_seed.sh %s: fresh worktree of /repo HEAD (%s), git apply patch.diff, cmake+ninja build, ctest -j8, run_demo.sh with the change, git apply -R, rebuild, run_demo.sh without; see confirm.log" % (sid, head),
        "detected_by": [], "detection_note": "pending"}
json.dump(meta, open(src + '/meta.json', 'w'), indent=1)
dst = '/verif/seeded/' + sid
if os.path.exists(dst):
    shutil.rmtree(dst)
shutil.move(src, dst)
print('filed', sid)
