#!/bin/bash
# confirm a seeded change delivered in /tmp/seed/<id>/out: tests pass with the change, demo fails with it, demo passes on the clean baseline build
id=$1
d=/tmp/seed/$id
log=/verif/seeded/_incoming/$id/confirm.log
{
echo "== ctest with change"
ctest --test-dir $d/_build -j8 --timeout 900 2>&1 | tail -4
echo "== demo with change (expect non-zero)"
bash $d/out/run_demo.sh $d > /tmp/seed/demo_$id.with 2>&1; echo "exit=$?"; tail -3 /tmp/seed/demo_$id.with
echo "== demo on clean baseline /repo (expect 0)"
bash $d/out/run_demo.sh /repo > /tmp/seed/demo_$id.without 2>&1; echo "exit=$?"; tail -3 /tmp/seed/demo_$id.without
} > $log 2>&1
