#!/bin/bash
# Confirm a seeded change delivered in /verif/seeded/_incoming/<id>/ on a FRESH worktree of /repo's HEAD:
#   the patch applies, the tree builds, the pinned suite passes (134), the demo fails with the change and passes on a clean build.
# usage: confirm_seed.sh <id>
id=$1
src=/verif/seeded/_incoming/$id
d=/tmp/seedc/$id
log=$src/confirm.log
mkdir -p /tmp/seedc
{
echo "== fresh worktree of $(git -C /repo rev-parse --short HEAD)"
git -C /repo worktree remove --force $d 2>/dev/null
git -C /repo worktree add --detach $d HEAD >/dev/null 2>&1
echo "== apply patch"; git -C $d apply $src/patch.diff && echo applied
cmake -G Ninja -S $d -B $d/_build -DCMAKE_BUILD_TYPE=RelWithDebInfo -DWB_ENABLE_PYTHON=OFF -DWB_MAKE_FORTRAN_WRAPPER=OFF >/dev/null 2>&1
cmake --build $d/_build -j 8 >/dev/null 2>&1 && echo "build ok" || echo "BUILD FAILED"
echo "== ctest with change"
ctest --test-dir $d/_build -j8 --timeout 900 2>&1 | grep -E "tests passed|Failed|\*\*\*" | head -8
echo "== demo with change (expect non-zero)"
mkdir -p $d/out && cp -r $src/* $d/out/
bash $d/out/run_demo.sh $d > /tmp/seedc/demo_$id.with 2>&1; echo "exit=$?"; tail -3 /tmp/seedc/demo_$id.with
echo "== demo without change (expect 0)"
git -C $d apply -R $src/patch.diff && cmake --build $d/_build -j 8 >/dev/null 2>&1
bash $d/out/run_demo.sh $d > /tmp/seedc/demo_$id.without 2>&1; echo "exit=$?"; tail -3 /tmp/seedc/demo_$id.without
git -C /repo worktree remove --force $d
} > $log 2>&1
