#!/usr/bin/env python3
"""(re)generate lean/Audit/<id>.lean: `#print axioms` and `#check @` for every theorem `<id>_*` of Properties/<id>.lean"""
import os, re, sys
LEAN = os.path.join(os.path.dirname(os.path.dirname(os.path.abspath(__file__))), "lean")
for pid in sys.argv[1:]:
    src = open(os.path.join(LEAN, "GwbVerif", "Properties", pid + ".lean")).read()
    names = re.findall(r"^theorem\s+(%s_\w+)" % pid, src, flags=re.M)
    with open(os.path.join(LEAN, "Audit", pid + ".lean"), "w") as f:
        f.write("import GwbVerif.Properties.%s\nopen Gwb\n" % pid)
        for n in names:
            f.write("#print axioms %s\n" % n)
        for n in names:
            f.write("#check @%s\n" % n)
    print(pid, names)
