#!/usr/bin/env python3
"""MANIFEST.setup_cmd: build the Lean development (all property theorems + the driver) and the C++ library + harness
from files on disk only (offline)."""
import os, subprocess, sys
HERE = os.path.dirname(os.path.abspath(__file__))
sys.path.insert(0, HERE)
import build_repo, proto
LEAN = os.path.join(os.path.dirname(HERE), "lean")
r = subprocess.run(["lake", "build", "GwbVerif", "gwbdriver"], cwd=LEAN)
if r.returncode != 0:
    sys.exit(r.returncode)
build_repo.build("plain")
proto.schema()
print("setup ok")
