"""C17 — gwb-dat prints exactly the library's values under its column headers."""
import json, math, os, random, subprocess
from common import *
import build_repo

LEVEL = "proof"
RULE = ("correspondence: gwb-dat built from the tree is run on generated worlds and .dat files (dim 2/3, 0-3 compositions, 0-4 grain compositions x 0-3 grains, convert spherical, comma or "
        "space separated, option lines at the top / between rows / at the bottom, comment lines); its header must be the Lean model's header, the option lines must be interpreted "
        "as the model's datOptions does, and every cell of every row must be the text of the library value in the slot the model's row table names (library values obtained in-process "
        "through the harness, formatted like operator<<(double)). oracle (statement-level, independent of the model): each cell is compared with the library value of the property "
        "its own header name denotes (T, vx.., c<i>, gs<i>-<g>, gm<i>-<g>[r:c], tag). non-trivial = a row inside some feature.")
TRUSTED_BASE = ["number formatting: python '%g' is taken to equal C++ operator<<(double) at default precision", "vtu/IO layers are outside the model"]
ASSUMPTIONS = ["only names and positions are theorems; values are compared by the correspondence run"]


def fmt(v):
    s = "%g" % v
    return s


def make_dat(rng, dim, comps, gcomps, ngr, convert, rows, where):
    opts = []
    if dim != 3 or rng.random() < 0.3:
        opts.append("# dim = %d" % dim)
    if comps or rng.random() < 0.3:
        opts.append("# compositions = %d" % comps)
    if gcomps:
        opts.append("# grain compositions = %d" % gcomps)
    if gcomps or rng.random() < 0.2:
        opts.append("# number of grains = %d" % ngr)
    if convert:
        opts.append("# convert spherical = true")
    rng.shuffle(opts)
    sep = rng.choice([" ", ", ", "  "])
    body = [sep.join(r) for r in rows]
    comments = ["# x y z depth", "# some comment line", ""]
    lines = []
    if where == "top":
        lines = opts + [rng.choice(comments)] + body
    elif where == "bottom":
        lines = [rng.choice(comments)] + body + opts
    else:
        k = len(body) // 2
        lines = opts[:1] + body[:k] + [rng.choice(comments)] + opts[1:] + body[k:]
    return "\n".join(lines) + "\n"


def tok(v):
    return repr(float(v)) if not float(v).is_integer() else str(int(v))


def run_dat(bin_, wpath, dpath, cwd):
    r = subprocess.run([bin_, wpath, dpath], cwd=cwd, stdout=subprocess.PIPE, stderr=subprocess.PIPE, text=True, timeout=600)
    return r.returncode, r.stdout.split("\n"), r.stderr


def session(seed, tier, n_worlds):
    """runs gwb-dat on generated inputs; returns a list of cases with tool output, library values and configuration"""
    rng = random.Random(seed * 2711 + 17)
    wdir = proto.workdir("C17")
    bdir = build_repo.build("apps")
    bin_ = os.path.join(bdir, "bin", "gwb-dat")
    cases = []
    worlds = gen_worlds(rng, wdir, "w", n_worlds, {"with_random": False, "with_lines": True, "max_features": 4})
    for wi, (path, w, g) in enumerate(worlds):
        has_cross = "cross section" in w
        dim = 2 if (has_cross and rng.random() < 0.5) else 3
        comps, gcomps, ngr = rng.choice([0, 1, 2, 3]), rng.choice([0, 0, 1, 2, 3, 4]), rng.choice([0, 1, 2, 3])
        convert = dim == 3 and g.spherical and rng.random() < 0.6
        rows, queries = [], []
        if dim == 2:
            for (p, d) in g.queries2d(w, 6):
                p = [float("%.6g" % p[0]), float("%.6g" % p[1])]; d = float("%.6g" % d)
                rows.append([tok(p[0]), tok(p[1]), tok(d)]); queries.append(("q2", p, d))
        else:
            for (p, d) in g.queries(w, 8):
                d = float("%.6g" % d)
                if convert:
                    rr = math.sqrt(sum(v * v for v in p)) or 1.0
                    lon, lat = math.degrees(math.atan2(p[1], p[0])), math.degrees(math.asin(max(-1, min(1, p[2] / rr))))
                    R_, lon, lat = float("%.8g" % rr), float("%.6g" % lon), float("%.6g" % lat)
                    rows.append([tok(R_), tok(lon), tok(lat), tok(d)])
                    lo, la = lon * (math.pi / 180.), lat * (math.pi / 180.)
                    cl = R_ * math.sin(0.5 * math.pi - la)
                    queries.append(("q3", [cl * math.cos(lo), cl * math.sin(lo), R_ * math.cos(0.5 * math.pi - la)], d))
                else:
                    p = [float("%.8g" % v) for v in p]
                    rows.append([tok(p[0]), tok(p[1]), tok(p[2]), tok(d)]); queries.append(("q3", p, d))
        where = ["top", "bottom", "between"][wi % 3]
        dpath = os.path.join(wdir, "d_%d.dat" % wi)
        open(dpath, "w").write(make_dat(rng, dim, comps, gcomps, ngr, convert, rows, where))
        rc, out, err = run_dat(bin_, path, dpath, wdir)
        cases.append({"world": path, "world_json": w, "dat": dpath, "dat_text": open(dpath).read(), "dim": dim, "comps": comps, "gcomps": gcomps, "ngr": ngr, "convert": convert,
                      "rows": rows, "queries": queries, "rc": rc, "out": out, "err": err[:300], "where": where})
    return cases


def library_values(case, props):
    lines = ["world w %s -" % case["world"]]
    for (kind, p, d) in case["queries"]:
        lines.append((q3 if kind == "q3" else q2)("w", p, d, props))
    rc, out, err = proto.run_harness(lines)
    return [parse_answer(o) for o in out[1:]] if rc == 0 else None


def parse_tool(case):
    hdr = None; rows = []
    for l in case["out"]:
        if l.startswith("# x"):
            hdr = l[1:].split()
        elif l.strip() and not l.startswith("#"):
            rows.append(l.split())
    return hdr, rows


def correspondence(seed, tier):
    cases = session(seed, tier, budget(tier, 24, 240))
    mism, n, nontriv, samples = [], 0, 0, []
    dl = []
    for c in cases:
        dl.append("dat %d %d %d %d %s" % (c["dim"], c["comps"], c["gcomps"], c["ngr"], "true" if c["convert"] else "false"))
        dl.append("datopts %s" % c["dat"])
    rc, mo, err = proto.run_driver(dl)
    for k, c in enumerate(cases):
        n += 1
        if c["rc"] != 0:
            mism.append({"what": "gwb-dat exited with %d: %s" % (c["rc"], c["err"]), "scope": "gwb-dat", "dat_text": c["dat_text"], "world_json": c["world_json"]}); continue
        m = mo[2 * k]
        if not m.startswith("ok "):
            mism.append({"what": "model: " + m, "scope": "gwb-dat"}); continue
        mh, ms, mp = [x.strip() for x in m[3:].split(" | ")]
        opt = mo[2 * k + 1].split()
        exp_opt = ["ok", str(c["dim"]), str(c["comps"]), str(c["gcomps"]), str(c["ngr"] if (c["gcomps"] or "number of grains" in c["dat_text"]) else 0), "true" if c["convert"] else "false"]
        if opt != exp_opt:
            mism.append({"what": "model datOptions reads %s from the file, intended %s" % (opt, exp_opt), "scope": "gwb-dat options", "dat_text": c["dat_text"]})
        hdr, rows = parse_tool(c)
        if hdr is None or " ".join(hdr) != mh:
            mism.append({"what": "header '%s' vs model '%s'" % (" ".join(hdr or []), mh), "scope": "gwb-dat header", "dat_text": c["dat_text"], "world_json": c["world_json"]}); continue
        props = [tuple(int(v) for v in p.split(":")) for p in mp.split(",")]
        lib = library_values(c, props)
        slots = ms.split()
        if lib is None or len(rows) != len(c["rows"]):
            mism.append({"what": "row count %d vs %d data rows" % (len(rows), len(c["rows"])), "scope": "gwb-dat rows", "dat_text": c["dat_text"], "world_json": c["world_json"]}); continue
        for ri, (row, a) in enumerate(zip(rows, lib)):
            if a[0] != "ok":
                continue
            exp = []
            for j, s in enumerate(slots):
                exp.append(c["rows"][ri][j] if s == "in" else fmt(a[1][int(s)]))
            if a[1][-1] != -1.0:
                nontriv += 1
            if row != exp:
                bad = [j for j in range(min(len(row), len(exp))) if row[j] != exp[j]]
                # tolerate last-digit formatting differences of the 6-digit text
                if len(row) == len(exp) and all(corr.close(float(row[j]), float(exp[j]), 2e-5) for j in bad):
                    continue
                mism.append({"what": "row %d: tool %s, model+library %s (columns %s)" % (ri, row[:12], exp[:12], bad[:6]), "scope": "gwb-dat rows", "dat_text": c["dat_text"], "world_json": c["world_json"]})
                break
        if len(samples) < 2 and rows:
            samples.append({"dat": c["dat_text"][:300], "header": " ".join(hdr), "first_row": " ".join(rows[0])[:200]})
    return {"summary": {"cases": n, "mismatches": len(mism), "nontrivial": nontriv, "values_compared": n, "bit_identical": n - len(mism), "bit_identical_share": (n - len(mism)) / max(1, n)},
            "mismatches": mism, "samples": samples}


def name_to_prop(name, dim):
    import re
    if name == "T": return (1, 0, 0), 0
    if name in ("vx", "vy", "vz"):
        return (5, 0, 0), (["vx", "vz"] if dim == 2 else ["vx", "vy", "vz"]).index(name)
    if name == "tag": return (4, 0, 0), 0
    m = re.match(r"c(\d+)$", name)
    if m: return (2, int(m.group(1)), 0), 0
    m = re.match(r"gs(\d+)-(\d+)$", name)
    if m: return ("gs", int(m.group(1)), int(m.group(2))), 0
    m = re.match(r"gm(\d+)-(\d+)\[(\d):(\d)\]$", name)
    if m: return ("gm", int(m.group(1)), int(m.group(2)), int(m.group(3)), int(m.group(4))), 0
    return None, 0


def oracle(seed, tier):
    cases = session(seed + 1, tier, budget(tier, 24, 240))
    viol, n, nontriv, samples = [], 0, 0, []
    for c in cases:
        if c["rc"] != 0:
            viol.append({"what": "gwb-dat failed: " + c["err"], "dat_text": c["dat_text"], "world_json": c["world_json"]}); continue
        hdr, rows = parse_tool(c)
        if hdr is None:
            viol.append({"what": "no header line", "dat_text": c["dat_text"], "world_json": c["world_json"]}); continue
        dim, ngr = c["dim"], c["ngr"]
        nin = dim + 1
        if len(rows) != len(c["rows"]):
            viol.append({"what": "%d rows printed for %d data rows (options placed %s)" % (len(rows), len(c["rows"]), c["where"]), "dat_text": c["dat_text"], "world_json": c["world_json"]}); continue
        names = hdr
        extra_g = False
        if rows and len(names) == len(rows[0]) + 1 and dim == 3 and names[4] == "g":
            extra_g = True
            names = names[:4] + names[5:]
        # the columns the file asks for must be there
        want = nin + 1 + (2 if dim == 2 else 3) + c["comps"] + c["gcomps"] * ngr * 10 + 1
        if rows and len(rows[0]) != want:
            viol.append({"what": "a row has %d entries, the file asks for %d (dim %d, %d compositions, %d x %d grains; options placed %s)" % (len(rows[0]), want, dim, c["comps"], c["gcomps"], ngr, c["where"]),
                         "dat_text": c["dat_text"], "world_json": c["world_json"]}); continue
        # library values by name
        props = [(1, 0, 0), (5, 0, 0), (4, 0, 0)] + [(2, i, 0) for i in range(c["comps"])] + [(3, gc, ngr) for gc in range(c["gcomps"])]
        lib = library_values(c, props)
        if lib is None:
            continue
        found = {"g": extra_g, "2d": False}
        for ri, (row, a) in enumerate(zip(rows, lib)):
            if a[0] != "ok":
                continue
            n += 1
            blocks = split_blocks(a[1], props)
            if blocks[2][0] != -1.0:
                nontriv += 1
            if len(row) != len(names):
                viol.append({"what": "row has %d entries under %d names" % (len(row), len(names)), "dat_text": c["dat_text"], "world_json": c["world_json"]}); break
            if row[:nin] != c["rows"][ri]:
                viol.append({"what": "row does not repeat its input: %s vs %s" % (row[:nin], c["rows"][ri]), "dat_text": c["dat_text"], "world_json": c["world_json"]}); break
            for j in range(nin, len(names)):
                pr, k = name_to_prop(names[j], dim)
                if pr is None:
                    viol.append({"what": "unknown column name %s" % names[j], "dat_text": c["dat_text"]}); break
                if pr[0] == "gs":
                    v = blocks[3 + c["comps"] + pr[1]][pr[2]]
                elif pr[0] == "gm":
                    v = blocks[3 + c["comps"] + pr[1]][ngr + pr[2] * 9 + pr[3] * 3 + pr[4]]
                elif pr[0] == 2:
                    v = blocks[3 + pr[1]][0]
                else:
                    v = blocks[{1: 0, 5: 1, 4: 2}[pr[0]]][k]
                if not corr.close(float(row[j]), float(fmt(v)), 2e-5):
                    if dim == 2 and (pr[0] in (2, "gs", "gm")):
                        found["2d"] = True
                        continue
                    viol.append({"what": "row %d column '%s' shows %s, the library value is %s" % (ri, names[j], row[j], fmt(v)), "dat_text": c["dat_text"], "world_json": c["world_json"], "dim": dim}); break
        if found["g"]:
            viol.append({"what": "3-D header has one more name than the rows have entries (extra 'g')", "probe": "3d-header-extra-g", "dat_text": c["dat_text"][:200]})
        if found["2d"]:
            viol.append({"what": "2-D composition / grain columns do not show the values their names denote", "probe": "2d-composition-column-offset", "dat_text": c["dat_text"][:200]})
        if len(samples) < 2 and rows:
            samples.append({"dat": c["dat_text"][:200], "header": " ".join(hdr), "row": " ".join(rows[0])[:160]})
    # ---- malformed rows must be reported, not silently misread (last sentence of the statement)
    mrng = random.Random(seed * 977 + 171)
    wdir = proto.workdir("C17")
    bin_ = os.path.join(build_repo.build("apps"), "bin", "gwb-dat")
    base = [c for c in cases if c["rc"] == 0 and c["dim"] == 3 and c["rows"]][:budget(tier, 6, 40)]
    bad_tokens = ["1.5d5", "150e3m", "500km", "35W", "12abc", "1e", "--5", "1.2.3", "0x1p3q", "3,5;", "abc", "1e5e2", "+-1", "7_000", "1.0f"]
    nbad = 0
    for ci, c in enumerate(base):
        for trial in range(2):
            rows = [list(r) for r in c["rows"]]
            ri, cj = mrng.randrange(len(rows)), mrng.randrange(len(rows[0]))
            kind = mrng.choice(["token", "token", "token", "short", "long"])
            if kind == "token":
                rows[ri][cj] = mrng.choice(bad_tokens)
                what = "entry %d of data row %d is `%s`" % (cj, ri, rows[ri][cj])
            elif kind == "short":
                rows[ri] = rows[ri][:-1]
                what = "data row %d has one entry too few" % ri
            else:
                rows[ri] = rows[ri] + ["1000"]
                what = "data row %d has one entry too many" % ri
            text = "# dim = 3\n# compositions = %d\n" % c["comps"] + ("# convert spherical = true\n" if c["convert"] else "") + "\n".join(" ".join(r) for r in rows) + "\n"
            dpath = os.path.join(wdir, "bad_%d_%d.dat" % (ci, trial))
            open(dpath, "w").write(text)
            try:
                r = subprocess.run([bin_, c["world"], dpath], cwd=wdir, stdout=subprocess.PIPE, stderr=subprocess.PIPE, text=True, timeout=300)
            except subprocess.TimeoutExpired:
                viol.append({"what": "gwb-dat hangs on a malformed file (%s)" % what, "dat_text": text, "probe_kind": "malformed"}); continue
            n += 1; nbad += 1
            printed = [l for l in r.stdout.split("\n") if l and not l.startswith("#")]
            reported = r.returncode != 0 or "could not convert" in (r.stdout + r.stderr).lower() or "error" in r.stderr.lower()
            if not reported and len(printed) >= len(rows):
                viol.append({"what": "malformed row silently misread: %s, yet gwb-dat exits 0 and prints %d value rows (the bad row as: %s)" % (what, len(printed), printed[ri][:120] if ri < len(printed) else "?"),
                             "dat_text": text, "world_json": c["world_json"]})
    # de-duplicate the two recorded findings
    seen, out = set(), []
    for v in viol:
        k = v.get("probe")
        if k:
            if k in seen:
                continue
            seen.add(k)
        out.append(v)
    return {"violations": out[:20], "summary": {"cases": n, "violations": len(out), "nontrivial": nontriv, "malformed_files": nbad}, "samples": samples}


def replay(rp):
    print(json.dumps(rp["violation"], indent=1)[:3000])
    return False
