"""helpers shared by the per-property modules"""
import json, os, random, sys
HERE = os.path.dirname(os.path.abspath(__file__))
sys.path.insert(0, os.path.dirname(HERE))
sys.path.insert(0, os.path.join(os.path.dirname(HERE), "gen"))
import proto, corr
from proto import fhex, props_str, parse_answer
from worlds import WorldGen


def budget(tier, quick, thorough):
    return thorough if tier == "thorough" else quick


def summarize_corr(results):
    """merge several corr.run_corr results"""
    cases = sum(r["cases"] for r in results)
    values = sum(r["stats"].values for r in results)
    bit = sum(r["stats"].bit_identical for r in results)
    dist = {}
    cmds = {}
    for r in results:
        for k, v in r["dist"].items():
            dist[k] = dist.get(k, 0) + v
        for k, v in r["stats"].c.items():
            cmds[k] = cmds.get(k, 0) + v
    mism = []
    for r in results:
        for m in r["mismatches"]:
            m = dict(m)
            m["cmdfile"] = r["cmdfile"]
            mism.append(m)
    # non-trivial: queries answered with values by both sides on a world that has at least one feature,
    # counted as distinct command lines
    distinct = set()
    for r in results:
        for line, o in zip(r["lines"], r["out_impl"]):
            if line.split()[0] in ("q3", "q2", "t3", "t2", "c3", "c2", "g3", "g2") and o.startswith("ok"):
                distinct.add(line)
    samples = []
    for r in results[:1]:
        for line, o1, o2 in list(zip(r["lines"], r["out_impl"], r["out_model"]))[:40]:
            if line.startswith("q") and len(samples) < 2:
                samples.append({"cmd": line, "impl": o1[:200], "model": o2[:200]})
    return {"summary": {"cases": cases, "values_compared": values, "bit_identical": bit,
                        "bit_identical_share": round(bit / values, 6) if values else None,
                        "max_ulp": max([r["stats"].max_ulp for r in results] + [0]),
                        "mismatches": len(mism), "nontrivial": len(distinct), "input_distribution": dist, "commands": cmds},
            "mismatches": mism, "samples": samples}


def gen_worlds(rng, wdir, name, n, gen_opts):
    """write n world files; return list of (path, world json, generator)"""
    decl = json.load(open(proto.schema()[0]))
    out = []
    for i in range(n):
        g = WorldGen(random.Random(rng.getrandbits(64)), schema=decl, **gen_opts)
        w = g.world()
        path = os.path.join(wdir, "%s_%d.wb" % (name, i))
        json.dump(w, open(path, "w"))
        out.append((path, w, g))
    return out


def q3(wid, p, d, props):
    return "q3 %s %s %s %s" % (wid, " ".join(fhex(v) for v in p), fhex(d), props_str(props))


def q2(wid, p, d, props):
    return "q2 %s %s %s %s" % (wid, " ".join(fhex(v) for v in p), fhex(d), props_str(props))


def block_sizes(props):
    return [{1: 1, 2: 1, 3: 10 * p[2], 4: 1, 5: 3}[p[0]] for p in props]


def split_blocks(vals, props):
    out, k = [], 0
    for s in block_sizes(props):
        out.append(vals[k:k + s])
        k += s
    return out


def bits(vs):
    return [fhex(v) for v in vs]


def corr_lines(lines, variant="plain"):
    """run the same command lines through the C++ harness and the Lean driver; -> dict in the shape of corr.run_corr's result"""
    st = corr.Stats()
    rc1, out1, err1 = proto.run_harness(lines, variant=variant) if "variant" in proto.run_harness.__code__.co_varnames else proto.run_harness(lines)
    rc2, out2, err2 = proto.run_driver(lines)
    mism = []
    if rc1 != 0 or rc2 != 0 or len(out1) != len(lines) or len(out2) != len(lines):
        mism.append({"cmd": "(session)", "impl": "rc=%s lines=%d %s" % (rc1, len(out1), err1[-200:]), "model": "rc=%s lines=%d %s" % (rc2, len(out2), err2[-200:]), "why": "one side did not answer every command", "info": {}})
    unsupported = set()
    for line, a, b in zip(lines, out1, out2):
        w = line.split()
        # a world the driver cannot elaborate (`err unsupported`: a model outside the Lean model, or - when the library refused the world - no surface dump to read):
        # skipped as in corr.run_corr, together with every command addressed to it, and counted
        if w[0] == "world" and b.startswith("err unsupported"):
            unsupported.add(w[1]); st.add("world:unsupported-by-model"); continue
        if w[0] == "world":
            unsupported.discard(w[1])
        if len(w) > 1 and w[1] in unsupported:
            if w[0] == "free":
                unsupported.discard(w[1])
            continue
        why = corr.compare_answers(a, b, st)
        st.add(line.split()[0])
        if why:
            info = {"kind": line.split()[0]}
            mism.append({"cmd": line, "impl": a[:600], "model": b[:600], "why": why, "info": info})
    return {"cases": len(lines), "stats": st, "dist": {}, "mismatches": mism, "cmdfile": None, "lines": lines, "out_impl": out1, "out_model": out2}


def trim_violations(viol, n=20, per_probe=2):
    """keep at most `n` violations for the report: those without a (possibly known) probe first, then at most `per_probe` of each probe,
    so that many hits of one recorded finding cannot crowd out a different violation"""
    plain = [v for v in viol if not v.get("probe")]
    seen, probed = {}, []
    for v in viol:
        pr = v.get("probe")
        if pr:
            seen[pr] = seen.get(pr, 0) + 1
            if seen[pr] <= per_probe:
                probed.append(v)
    return (plain + probed)[:n]
