"""C15 — seeded randomness is reproducible and random grains are valid."""
import json, math, os, random
from common import *

LEVEL = "proof"
RULE = ("correspondence: generated worlds WITH random models (random composition, random uniform grain distributions incl. deflected; area features and plumes; constructor seeds "
        "-, 1, 5, 2^32+1 and 'random number seed' entries) queried through every entry point with several worlds alive and queries interleaved: the Lean model (own mt19937, "
        "generate_canonical, draw order) must reproduce the library bit for bit. oracle (library alone, all six feature types incl. slabs and faults whose random grains models are "
        "copies of the modelled code): twin worlds with equal seeds queried alike agree bit for bit (same process and fresh process), different seeds give different draws, every grain "
        "matrix is orthonormal with determinant +1 (1e-9), normalised sizes sum to one (1e-12), fixed sizes come back as given, random compositions lie in their own bounds. "
        "non-trivial = a query that consumed at least one random draw.")
TRUSTED_BASE = ["std::mt19937 / std::generate_canonical<double,53> are modelled by hand (Model/Rng.lean) and tied to libstdc++ by the bit-for-bit correspondence only",
                "slab and fault random grains (two section draws blended by slerp) are inside the Lean model since the second round (Model/Features/Line.lean) and are part of the correspondence; their orthonormality is a property of the oracle only (the theorems cover the area-feature draw)"]
ASSUMPTIONS = ["rotation and size theorems are exact-arithmetic statements over ordered fields with sin^2+cos^2=1 and sqrt x * sqrt x = x as hypotheses; in doubles they hold to rounding (oracle tolerance 1e-9 / 1e-12)",
               "deflections in [0,1] and basis matrices that are rotations (the code checks neither)"]

KINDS = ["continental plate", "oceanic plate", "mantle layer", "plume", "subducting plate", "fault"]


def correspondence(seed, tier):
    n = budget(tier, 25, 300)
    rs = [corr.run_corr(seed * 1000 + 150 + k, "C15_%d" % k, n, 25, {"with_random": True, "with_lines": False}) for k in range(budget(tier, 1, 3))]
    # slabs and faults: the grains of the two neighbouring sections are drawn separately and blended (slerp) by the section fraction
    rs += [corr.run_corr(seed * 1000 + 157 + k, "C15_lines_%d" % k, n, 25, {"with_random": True, "with_lines": True, "allow": ["subducting plate", "fault"]}) for k in range(budget(tier, 1, 3))]
    res = summarize_corr(rs)
    res["summary"]["random_models_in_worlds"] = sum(v for k, v in res["summary"]["input_distribution"].items() if "random" in k)
    return res


def rand_world(rng, kind, spherical=False):
    """one feature of the given kind with a random grains model of known configuration (plus a random composition for continental plates)"""
    comps = rng.sample(range(0, 4), rng.choice([1, 2]))
    sizes = [rng.choice([-1, 0.5, 0.25, 2.0]) for _ in comps]
    norm = [rng.random() < 0.5 for _ in comps]
    name = rng.choice(["random uniform distribution", "random uniform distribution deflected"]) if kind != "plume" else "random uniform distribution deflected"
    if kind in ("subducting plate", "fault") and rng.random() < 0.5:
        name = "random uniform distribution deflected"
    gm = {"model": name, "compositions": comps, "grain sizes": sizes, "normalize grain sizes": norm}
    if name.endswith("deflected"):
        gm["deflections"] = [rng.choice([0, 0.25, 0.5, 1, 1e-3, 1e-5]) for _ in comps]
        if kind in ("subducting plate", "fault") and rng.random() < 0.6:
            # slabs and faults blend the draws of two sections: with a small deflection the two orientations are nearly parallel (the blend must still be a rotation)
            gm["deflections"] = [rng.choice([1e-3, 3e-4, 1e-5, 1e-2]) for _ in comps]
        if rng.random() < 0.5:
            gm["basis rotation matrices"] = [[[1, 0, 0], [0, 1, 0], [0, 0, 1]] if rng.random() < 0.5 else [[0, -1, 0], [1, 0, 0], [0, 0, 1]] for _ in comps]
        else:
            gm["basis Euler angles z-x-z"] = [[rng.choice([0, 10, 45, 200]), rng.choice([0, 20, 60]), rng.choice([0, 30, 300])] for _ in comps]
    w = {"version": "1.1", "features": []}
    cfg = {"kind": kind, "grains": gm, "comp": None}
    if kind in ("continental plate", "oceanic plate", "mantle layer"):
        f = {"model": kind, "name": "f", "coordinates": [[-500e3, -500e3], [500e3, -500e3], [500e3, 500e3], [-500e3, 500e3]], "min depth": 0, "max depth": 300e3, "grains models": [gm]}
        if kind == "continental plate":
            cc = rng.sample(range(0, 5), rng.choice([1, 2, 3]))
            mn = [rng.choice([0, 0.25, 0.5]) for _ in cc]
            mx = [m + rng.choice([0, 0.125, 0.5]) for m in mn]
            cm = {"model": "random", "compositions": cc, "min value": mn, "max value": mx}
            f["composition models"] = [cm]
            cfg["comp"] = cm
    elif kind == "plume":
        f = {"model": "plume", "name": "f", "coordinates": [[0, 0], [10e3, 0]], "cross section depths": [0, 400e3], "semi-major axis": [300e3, 300e3], "eccentricity": [0, 0],
             "rotation angles": [0, 0], "min depth": 0, "max depth": 400e3, "grains models": [gm]}
    else:
        dk = "fault center" if kind == "fault" else "slab top"
        gm["min distance " + dk] = -100e3 if kind == "fault" else 0
        gm["max distance " + dk] = 100e3
        f = {"model": kind, "name": "f", "coordinates": [[-400e3, 0], [400e3, 0]], "dip point": [0, 1e7],
             "segments": [{"length": 400e3, "thickness": [200e3], "angle": [45 if kind != "fault" else 90]}], "grains models": [gm]}
    w["features"].append(f)
    if rng.random() < 0.3:
        w["random number seed"] = rng.choice([0, 3, 77])
    return w, cfg


def points_for(rng, kind, n):
    out = []
    for _ in range(n):
        if kind in ("subducting plate",):
            # the slab dips at 45 degrees towards +y from the trench y = 0: its top is at depth y, its body below it (depth > y); 10-100 km below the top, measured vertically
            d = rng.uniform(120e3, 270e3)
            out.append(([rng.uniform(-300e3, 300e3), d - rng.uniform(10e3, 100e3), 1000e3 - d], d))
        elif kind == "fault":
            d = rng.uniform(10e3, 300e3)
            out.append(([rng.uniform(-300e3, 300e3), rng.uniform(-50e3, 50e3), 1000e3 - d], d))
        else:
            d = rng.uniform(1e3, 290e3)
            out.append(([rng.uniform(-200e3, 200e3), rng.uniform(-200e3, 200e3), 1000e3 - d], d))
    return out


def det3(m):
    return (m[0] * (m[4] * m[8] - m[5] * m[7]) - m[1] * (m[3] * m[8] - m[5] * m[6]) + m[2] * (m[3] * m[7] - m[4] * m[6]))


def oracle(seed, tier):
    rng = random.Random(seed * 3571 + 15)
    wdir = proto.workdir("C15_oracle")
    viol, cases, nontriv, samples = [], 0, 0, []
    dist = {}
    nw = budget(tier, 36, 240)
    for wi in range(nw):
        kind = KINDS[wi % len(KINDS)]
        w, cfg = rand_world(rng, kind)
        path = os.path.join(wdir, "r_%d.wb" % wi)
        json.dump(w, open(path, "w"))
        gm = cfg["grains"]
        dist[kind + "/" + gm["model"]] = dist.get(kind + "/" + gm["model"], 0) + 1
        pts = points_for(rng, kind, budget(tier, 6, 12))
        ngr = rng.choice([1, 2, 3, 7, 20])
        sa, sb = rng.sample([1, 2, 5, 1000, 123456], 2)
        props = [(3, c, ngr) for c in gm["compositions"]] + [(3, 4, ngr)]
        if cfg["comp"]:
            props += [(2, c, 0) for c in cfg["comp"]["compositions"]]
        qs = [q3("%s", p, d, props) for (p, d) in pts]
        lines = ["world a %s %d" % (path, sa), "world b %s %d" % (path, sa), "world c %s %d" % (path, sb)]
        for q in qs:               # a, b, c queried alike, interleaved
            lines += [q % "a", q % "b", q % "c"]
        rc, out, err = proto.run_harness(lines)
        if rc != 0 or len(out) != len(lines) or not all(o == "ok" for o in out[:3]):
            viol.append({"what": "library failed on a world with random models (%s): rc=%s %s" % (kind, rc, (out[:3], err[-300:])), "world_json": w}); continue
        # fresh process, same seed, same queries
        rc2, out2, _ = proto.run_harness(["world a %s %d" % (path, sa)] + [q % "a" for q in qs])
        A = [out[3 + 3 * i] for i in range(len(qs))]; B = [out[4 + 3 * i] for i in range(len(qs))]; C = [out[5 + 3 * i] for i in range(len(qs))]
        cases += len(qs)
        def bad(msg, extra=None):
            v = {"what": "%s / %s: %s" % (kind, gm["model"], msg), "world_json": w, "world": path, "seeds": [sa, sb], "queries": [q % "a" for q in qs]}
            v.update(extra or {})
            viol.append(v)
        if A != B:
            bad("twin worlds with equal seeds queried alike disagree", {"first": next((a, b) for a, b in zip(A, B) if a != b)}); continue
        if rc2 != 0 or out2[1:] != A:
            bad("the same world, seed and query sequence gives other answers in a fresh process"); continue
        file_seed = "random number seed" in w
        hit = False
        for i, (p, d) in enumerate(pts):
            a = parse_answer(A[i])
            if a[0] != "ok":
                continue
            bl = split_blocks(a[1], props)
            for ci, c in enumerate(gm["compositions"]):
                g = bl[ci]
                sizes, mats = g[:ngr], [g[ngr + 9 * k: ngr + 9 * k + 9] for k in range(ngr)]
                drawn = any(not (m == [1.0, 0, 0, 0, 1.0, 0, 0, 0, 1.0] or all(math.isnan(x) for x in m) or m == [0.0] * 9) for m in mats) and any(s == s and s != 0 for s in sizes)
                inside = not all(s != s or s == 0 for s in sizes) and any(any(x != 0 for x in m) for m in mats)
                if not inside:
                    continue
                hit = True
                for k, m in enumerate(mats):
                    mmT = [sum(m[3 * r + t] * m[3 * s + t] for t in range(3)) for r in range(3) for s in range(3)]
                    if any(abs(mmT[j] - (1.0 if j in (0, 4, 8) else 0.0)) > 1e-9 for j in range(9)) or abs(det3(m) - 1.0) > 1e-9 or any(x != x for x in m):
                        bad("grain %d of composition %d is not a proper rotation: det=%r" % (k, c, det3(m)), {"query": qs[i] % "a", "matrix": m}); break
                if gm["normalize grain sizes"][ci]:
                    if abs(sum(sizes) - 1.0) > 1e-12:
                        bad("normalised grain sizes of composition %d sum to %r" % (c, sum(sizes)), {"query": qs[i] % "a"})
                elif gm["grain sizes"][ci] >= 0:
                    if any(s != gm["grain sizes"][ci] for s in sizes):
                        bad("fixed grain size %r of composition %d returned as %r" % (gm["grain sizes"][ci], c, sizes[:3]), {"query": qs[i] % "a"})
                else:
                    if any(not (0 <= s < 1) for s in sizes):
                        bad("random grain size outside [0,1): %r" % sizes[:3], {"query": qs[i] % "a"})
            # composition not listed in the grains model: untouched (no random model may write it)
            if cfg["comp"]:
                cm = cfg["comp"]
                off = len(gm["compositions"]) + 1
                for j, c in enumerate(cm["compositions"]):
                    v = bl[off + j][0]
                    if not (cm["min value"][j] <= v <= cm["max value"][j]):
                        bad("random composition %d = %r outside its bounds [%r, %r]" % (c, v, cm["min value"][j], cm["max value"][j]), {"query": qs[i] % "a"})
        if hit:
            nontriv += len(qs)
            # draws are visible in the answer only if something random reaches it (a deflection of 0 with fixed sizes returns the basis itself; one grain with a
            # normalised random size always has size 1)
            visible = (not gm["model"].endswith("deflected")) or any(x > 0 for x in gm["deflections"]) or any(x < 0 and not (nm and ngr == 1) for x, nm in zip(gm["grain sizes"], gm["normalize grain sizes"])) or bool(cfg["comp"] and any(a < b for a, b in zip(cfg["comp"]["min value"], cfg["comp"]["max value"])))
            if not file_seed and visible and A == C:
                bad("different seeds (%d, %d) give identical draws" % (sa, sb))
            if file_seed and A != C:
                bad("'random number seed' in the file does not override the constructor seed")
        if len(samples) < 2 and hit:
            samples.append({"world": w, "query": qs[0] % "a", "answer": A[0][:160]})
    # ---- a slab / fault whose neighbouring section has NO grains model for the composition: between the two coordinates the random orientation is blended with what the other
    # section leaves in place
    for kind in ("subducting plate", "fault"):
        dk = "fault center" if kind == "fault" else "slab top"
        gm = {"model": "random uniform distribution", "compositions": [0], "grain sizes": [0.5], "normalize grain sizes": [False], "max distance " + dk: 100e3}
        if kind == "fault":
            gm["min distance " + dk] = -100e3
        seg = {"length": 300e3, "thickness": [100e3], "angle": [45 if kind != "fault" else 90]}
        w = {"version": "1.1", "features": [{"model": kind, "name": "s", "coordinates": [[0, -300e3], [0, 300e3]], "dip point": [1e6, 0], "segments": [dict(seg, **{"grains models": [gm]})],
                                             "sections": [{"coordinate": 1, "segments": [dict(seg, **{"grains models": []})]}]}]}
        path = os.path.join(wdir, "blend_%s.wb" % kind.split()[0])
        json.dump(w, open(path, "w"))
        d = 100e3
        x = (d - 30e3) if kind != "fault" else 10e3
        lines = ["world w %s 3" % path] + [q3("w", [x, y, 1000e3 - d], d, [(3, 0, 1), (4, 0, 0)]) for y in (-200e3, 0.0, 150e3)]
        rc, out, err = proto.run_harness(lines)
        if rc != 0 or len(out) != len(lines) or out[0] != "ok":
            viol.append({"what": "library failed on the section-without-grains world (%s)" % kind, "world_json": w}); continue
        for o, cmd in zip(out[1:], lines[1:]):
            a = parse_answer(o)
            cases += 1
            if a[0] != "ok" or a[1][-1] == -1.0:
                continue
            size, m = a[1][0], a[1][1:10]
            mmT = [sum(m[3 * r + t] * m[3 * s + t] for t in range(3)) for r in range(3) for s in range(3)]
            if abs(size - 0.5) > 1e-12 or any(abs(mmT[j] - (1.0 if j in (0, 4, 8) else 0.0)) > 1e-9 for j in range(9)) or abs(det3(m) - 1.0) > 1e-9:
                viol.append({"what": "%s / random uniform distribution at one coordinate, no grains model at the next: between them the fixed grain size 0.5 is returned as %r and the orientation has "
                                     "determinant %r (not a rotation)" % (kind, size, det3(m)), "world_json": w, "world": path, "cmd": cmd, "probe": "line-grains-blended-with-section-without-grains"})
                break
    return {"violations": trim_violations(viol, 20), "summary": {"cases": cases, "violations": len(viol), "nontrivial": nontriv, "input_distribution": dist}, "samples": samples}


def replay(rp):
    v = rp["violation"]
    print(json.dumps({k: v[k] for k in v if k != "world_json"}, indent=1)[:3000])
    return False
