"""C16 — the C and C++ wrappers are transparent."""
import json, os, random, shutil, subprocess
from common import *
import build_repo, gen_wrapper_model

LEVEL = "proof"
RULE = ("translation: tools/gen_wrapper_model.py regenerates lean/GwbVerif/Generated/Wrapper.lean from wrapper_c.cc / wrapper_cpp.cc before the proofs are checked (any unrecognised statement is an "
        "open obligation). correspondence/oracle: harness/wrappers.cc, in one process with the real library: every generated query (3-D and 2-D, random property lists incl. grains and invalid codes) "
        "through World, the C interface and the C++ wrapper class, compared bit for bit, values array guarded by a sentinel behind properties_output_size; create_world with null / non-null "
        "has_output_dir and output directory (the declaration files must appear in exactly that directory), seeds 1, 7, 2^32+1 on worlds with random models. non-trivial = a comparison on a query "
        "answered with values.")
TRUSTED_BASE = ["the translator (regular expressions over the C++ subset used by the two wrapper files) and the meaning given to its output in lean/GwbVerif/Model/Wrapper.lean",
                "reinterpret_cast, new/delete, std::string construction and exception propagation are exercised by the harness only"]
ASSUMPTIONS = ["the Fortran and Python wrappers are outside the property"]


def pregen():
    return gen_wrapper_model.main()


def write_queries(path, g, w, rng, n):
    with open(path, "w") as f:
        for (p, d) in g.queries(w, n):
            props = g.props(5)
            if rng.random() < 0.05:
                props = props + [(rng.choice([0, 7]), 0, 0)]
            f.write("%s %s %s\n" % (" ".join(fhex(v) for v in p), fhex(d), props_str(props)))
        if "cross section" in w:
            for (p, d) in g.queries2d(w, max(2, n // 3)):
                f.write("%s %s %s 2d\n" % (" ".join(fhex(v) for v in p), fhex(d), props_str(g.props(4))))


def session(seed, tier, tag, with_random):
    rng = random.Random(seed * 9241 + (16 if with_random else 61))
    wdir = proto.workdir("C16_" + tag)
    h = build_repo.compile_harness(os.path.join(proto.VERIF, "harness", "wrappers.cc"))
    worlds = gen_worlds(rng, wdir, tag, budget(tier, 12, 120), {"with_random": with_random, "with_lines": not with_random, "max_features": 4})
    res = []
    for wi, (path, w, g) in enumerate(worlds):
        qf = os.path.join(wdir, "%s_%d.q" % (tag, wi))
        write_queries(qf, g, w, rng, budget(tier, 12, 25))
        mode = rng.choice(["null", "0", "1", "1"])
        od = "-"
        if mode == "1" or rng.random() < 0.3:
            # relative to the harness's working directory, so that a wrapper that mangles the path cannot write outside the scratch directory
            od = "out_%d/" % wi
            shutil.rmtree(os.path.join(wdir, od), ignore_errors=True); os.makedirs(os.path.join(wdir, od))
        sd = rng.choice([1, 7, 4294967297])
        r = subprocess.run([h, path, qf, str(sd), od, mode], stdout=subprocess.PIPE, stderr=subprocess.PIPE, text=True, timeout=600, cwd=wdir)
        res.append((path, w, qf, sd, od, mode, r))
    return res


def digest(res, what):
    viol, cases, nontriv, dist = [], 0, 0, {}
    for (path, w, qf, sd, od, mode, r) in res:
        dist["has_output_dir=" + mode + (",dir" if od != "-" else ",nodir")] = dist.get("has_output_dir=" + mode + (",dir" if od != "-" else ",nodir"), 0) + 1
        lines = r.stdout.strip().split("\n")
        last = lines[-1] if lines else ""
        if r.returncode != 0 or not (last.startswith("ok") or last.startswith("err")):
            viol.append({"what": "%s: wrapper harness died (rc=%s): %s" % (what, r.returncode, r.stderr[-300:]), "world_json": w, "args": [path, qf, sd, od, mode]}); continue
        if last.startswith("err"):
            # construction is refused by every interface alike (the native constructor runs last): nothing to compare
            continue
        n, bad = int(last.split()[1]), int(last.split()[2])
        cases += n; nontriv += n
        if bad:
            viol.append({"what": "%s: %s" % (what, "; ".join(l for l in lines if l.startswith("MISMATCH"))[:400]), "world_json": w, "args": [path, qf, sd, od, mode], "scope": "wrappers vs native"})
    return viol, cases, nontriv, dist


def correspondence(seed, tier):
    unt = pregen()
    mism = [{"what": "translator: %s" % u, "scope": "gen_wrapper_model"} for u in unt]
    viol, cases, nontriv, dist = digest(session(seed, tier, "d", False), "deterministic worlds")
    # a wrapper/native mismatch is at once a broken correspondence and a failing input of the property
    for v in viol:
        v["is_property_violation"] = True
    return {"summary": {"cases": cases, "mismatches": len(mism) + len(viol), "nontrivial": nontriv, "values_compared": cases, "bit_identical": cases - len(viol), "bit_identical_share": 1.0 if not viol else 0.0,
                        "input_distribution": dist}, "mismatches": mism + viol, "samples": []}


def oracle(seed, tier):
    viol, cases, nontriv, dist = digest(session(seed + 3, tier, "r", True), "seeded worlds with random models")
    return {"violations": trim_violations(viol, 10), "summary": {"cases": cases, "violations": len(viol), "nontrivial": nontriv, "input_distribution": dist}, "samples": []}


def replay(rp):
    v = rp["violation"]
    print(json.dumps({k: v[k] for k in v if k != "world_json"}, indent=1)[:3000])
    if "args" in v:
        h = build_repo.compile_harness(os.path.join(proto.VERIF, "harness", "wrappers.cc"))
        r = subprocess.run([h] + [str(x) for x in v["args"]], stdout=subprocess.PIPE, text=True)
        print(r.stdout[-1000:])
        return "MISMATCH" not in r.stdout
    return False
