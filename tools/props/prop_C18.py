"""C18 — gwb-grid writes the requested mesh and the library's values at its nodes."""
import math
import json, math, os, random, re, shutil, subprocess
from common import *
import build_repo
from prop_C14 import write_grid

LEVEL = "proof"
RULE = ("correspondence: gwb-grid built from the tree is run on small generated grids (cartesian 2-D/3-D, chunk 2-D/3-D, annulus; 1-6 cells per direction incl. single cells and odd counts, random "
        "bounds; sphere: hollow shells and full spheres down to r = 0, n_cell_x = n_cell_y in 1..4, n_cell_z in 1..3, every (n_cell_x, n_cell_z, hollow/full) combination once per run plus random "
        "ones over generated worlds) over generated worlds; the ASCII .vtu is parsed and its points, Depth and connectivity are compared with the Lean mesh model (6 significant digits, as printed); "
        "for the sphere also the node count (n_cell_z+1)(12 n_cell_x^2+2), which the Lean theorems leave open, is compared with the tool and the model. "
        "oracle (statement-level): node/cell counts, every connectivity entry < number of points, offsets = multiples of 2^dim, Depth = top of the grid minus z (radius), and Temperature, "
        "velocity, Tag and every composition at each node equal to the library's answer at the node's position and depth (in-process harness; sphere grids included, at the model's exact node "
        "positions); --filtered / --by-tag outputs contain exactly the cells whose highest node tag is selected, with unchanged node values. non-trivial = a node inside some feature.")
TRUSTED_BASE = ["sphere grid: the whole branch (reference points, lay_points, project_on_sphere, point de-duplication, renumbering, layers) is modelled and compared; what is NOT a theorem is the "
                "closed form 12 n^2 + 2 of the number of shell points (it depends on floating-point distance tests; stated as C18_sphere_node_count_full, checked by the correspondence for n = 1..4)",
                "vtu11's ASCII writer and the 6-digit text precision"]
ASSUMPTIONS = ["the annulus cell count n_cell_t is the truncation of the model's annulusQuotient evaluated in double arithmetic"]


def parse_vtu(path):
    txt = open(path).read()
    m = re.search(r'NumberOfCells="(\d+)" NumberOfPoints="(\d+)"', txt)
    res = {"ncell": int(m.group(1)), "np": int(m.group(2)), "data": {}}
    for mm in re.finditer(r'<DataArray([^>]*)>\s*(.*?)\s*</DataArray>', txt, flags=re.S):
        attrs, body = mm.group(1), mm.group(2)
        nm = re.search(r'Name="([^"]+)"', attrs)
        name = nm.group(1) if nm else "points"
        vals = body.split()
        res["data"][name] = [int(v) for v in vals] if "Int" in attrs else [float(v) for v in vals]
    return res


def rand_grid(rng, gtype, dim):
    n = lambda: rng.choice([1, 2, 3, 4, 5, 6])
    if gtype == "cartesian":
        o = {"x_min": rng.choice([-300e3, 0, 100e3]), "z_min": rng.choice([0, 300e3, 600e3]), "n_cell_x": n(), "n_cell_z": n()}
        o["x_max"] = o["x_min"] + rng.choice([200e3, 500e3, 900e3]); o["z_max"] = rng.choice([1000e3])
        if dim == 3 or rng.random() < 0.5:
            # in a 2-D grid file the y entries (a 3-D file switched to 2-D by editing only `dim`) must be ignored
            o["y_min"] = rng.choice([-400e3, 0]); o["y_max"] = o["y_min"] + rng.choice([300e3, 800e3]); o["n_cell_y"] = n()
    elif gtype == "chunk":
        o = {"x_min": rng.choice([-30, 0, 150, 170]), "z_min": rng.choice([3471000, 5371000]), "z_max": 6371000, "n_cell_x": n(), "n_cell_z": n()}
        o["x_max"] = o["x_min"] + rng.choice([10, 25, 40])
        if dim == 3:
            o["y_min"] = rng.choice([-20, 0, 30]); o["y_max"] = o["y_min"] + rng.choice([10, 30]); o["n_cell_y"] = n()
        else:
            # a 2-D chunk grid file without y_min/y_max is rejected by gwb-grid (NaN <= NaN assertion): the tool demands them although unused
            o["y_min"] = 0; o["y_max"] = 0
            if rng.random() < 0.5:
                o["y_min"] = rng.choice([-20, 0, 30]); o["y_max"] = o["y_min"] + rng.choice([10, 30]); o["n_cell_y"] = n()
    elif gtype == "sphere":
        # n_cell_y is only read by a debug-only WBAssert (n_cell_x == n_cell_y); z_min = 0 is the full sphere
        ncx = rng.choice([1, 2, 3, 4])
        o = {"x_min": 0, "x_max": 0, "y_min": 0, "y_max": 0, "z_min": rng.choice([0, 0, 3471000, 5371000, 6071000]), "z_max": 6371000, "n_cell_x": ncx, "n_cell_y": ncx,
             "n_cell_z": rng.choice([1, 2, 3])}
    else:
        o = {"x_min": 0, "x_max": 0, "z_min": rng.choice([3471000, 5371000]), "z_max": 6371000, "n_cell_x": n(), "n_cell_z": rng.choice([1, 2, 3])}
    return o


def sphere_counts(ncx, ncz):
    """nodes and cells of the sphere grid: 12 blocks of ncx x ncx quadrilaterals per layer, whose shared edge points are merged (Euler: 12 n^2 + 2 points per layer)"""
    return (ncz + 1) * (12 * ncx * ncx + 2), 12 * ncx * ncx * ncz


def run_grid(bin_, rd, w, gtype, dim, opts, comps, flags=()):
    shutil.rmtree(rd, ignore_errors=True); os.makedirs(rd)
    wp = os.path.join(rd, "w.wb"); json.dump(w, open(wp, "w"))
    gp = os.path.join(rd, "w.grid"); write_grid(gp, gtype, dim, opts, comps)
    r = subprocess.run([bin_, "-j", "3"] + list(flags) + [wp, gp], cwd=rd, stdout=subprocess.PIPE, stderr=subprocess.PIPE, text=True, timeout=600)
    return r, wp


def cases_for(seed, tier, n):
    rng = random.Random(seed * 4099 + 18)
    wdir = proto.workdir("C18")
    bdir = build_repo.build("apps")
    bin_ = os.path.join(bdir, "bin", "gwb-grid")
    cart = gen_worlds(rng, wdir, "c", max(4, n // 2), {"with_random": False, "with_lines": True, "max_features": 4, "spherical": False})
    sph = gen_worlds(rng, wdir, "s", max(4, n // 2), {"with_random": False, "with_lines": True, "max_features": 4, "spherical": True})
    out = []
    total = n
    combos = [("cartesian", 2), ("cartesian", 3), ("chunk", 2), ("chunk", 3), ("annulus", 2)]
    for k in range(n):
        gtype, dim = combos[k % len(combos)]
        pool = cart if gtype == "cartesian" else sph
        withf = [x for x in pool if len(x[1].get("features", [])) >= 2] or pool
        path, w, g = rng.choice(withf if k % 5 != 2 else pool)
        w = dict(w)
        if dim == 2 and "cross section" not in w:
            w["cross section"] = [[0, 0], [100e3, 0]] if gtype == "cartesian" else [[0, 0], [10, 0]]
        opts = rand_grid(rng, gtype, dim)
        if k % 5 != 2 and w.get("features"):
            # aim the grid at the features, so that nodes carry tags and the filtered / by-tag outputs are not empty
            xs = [p[0] for f in w["features"] for p in f["coordinates"]]
            ys = [p[1] for f in w["features"] for p in f["coordinates"]]
            radius = w.get("coordinate system", {}).get("radius", 6371000.0)
            n = lambda: rng.choice([2, 3, 4, 5, 6])
            if gtype == "cartesian":
                mx, my = 0.1 * (max(xs) - min(xs)) + 20e3, 0.1 * (max(ys) - min(ys)) + 20e3
                if dim == 3:
                    opts = {"x_min": min(xs) - mx, "x_max": max(xs) + mx, "y_min": min(ys) - my, "y_max": max(ys) + my, "z_min": 1000e3 - rng.choice([300e3, 600e3]), "z_max": 1000e3,
                            "n_cell_x": n(), "n_cell_y": n(), "n_cell_z": n()}
                else:
                    w["cross section"] = [[min(xs) - mx, min(ys) - my], [max(xs) + mx, max(ys) + my]]
                    opts = {"x_min": 0, "x_max": math.hypot(max(xs) - min(xs) + 2 * mx, max(ys) - min(ys) + 2 * my), "z_min": 1000e3 - rng.choice([300e3, 600e3]), "z_max": 1000e3,
                            "n_cell_x": n() + 2, "n_cell_z": n()}
            elif gtype == "chunk":
                if dim == 3:
                    opts = {"x_min": max(-359, min(xs) - 2), "x_max": min(359, max(xs) + 2), "y_min": max(-89, min(ys) - 2), "y_max": min(89, max(ys) + 2),
                            "z_min": radius - rng.choice([300e3, 600e3]), "z_max": radius, "n_cell_x": n(), "n_cell_y": n(), "n_cell_z": n()}
                else:
                    w["cross section"] = [[min(xs), min(ys)], [max(xs), max(ys) if max(ys) != min(ys) or max(xs) != min(xs) else max(ys) + 1]]
                    opts = {"x_min": 0, "x_max": 40, "y_min": 0, "y_max": 0, "z_min": radius - rng.choice([300e3, 600e3]), "z_max": radius, "n_cell_x": n() + 3, "n_cell_z": n()}
            else:
                w["cross section"] = [[min(xs), min(ys)], [max(xs), max(ys) if max(ys) != min(ys) or max(xs) != min(xs) else max(ys) + 1]]
                opts = {"x_min": 0, "x_max": 0, "z_min": radius - rng.choice([300e3, 600e3]), "z_max": radius, "n_cell_x": n() + 4, "n_cell_z": rng.choice([2, 3])}
        comps = rng.choice([0, 1, 3])
        out.append((bin_, os.path.join(wdir, "run_%d" % k), w, g, gtype, dim, opts, comps))
    # the sphere grid over generated spherical worlds (appended, so that the cases above do not depend on it): hollow shells and full spheres alternate
    for k in range(max(4, total // 5)):
        withf = [x for x in sph if len(x[1].get("features", [])) >= 2] or sph
        path, w, g = rng.choice(withf if k % 3 != 2 else sph)
        w = dict(w)
        opts = rand_grid(rng, "sphere", 3)
        opts["z_max"] = w.get("coordinate system", {}).get("radius", 6371000.0)
        if k % 2 == 0:
            opts["z_min"] = 0
        elif opts["z_min"] == 0 or opts["z_min"] >= opts["z_max"]:
            opts["z_min"] = opts["z_max"] - rng.choice([300e3, 1000e3, 2900e3])
        out.append((bin_, os.path.join(wdir, "run_s%d" % k), w, g, "sphere", 3, opts, rng.choice([0, 1, 3])))
    return out


def sphere_sweep(seed, bin_, wdir):
    """every (n_cell_x, n_cell_z, hollow/full) combination once, over an empty spherical world; the radii vary with the seed"""
    rng = random.Random(seed * 8191 + 1818)
    w = {"version": "1.1", "coordinate system": {"model": "spherical", "depth method": "begin segment"}, "features": []}
    out = []
    for ncx in (1, 2, 3, 4):
        for ncz in (1, 2, 3):
            for full in (False, True):
                zmax = rng.choice([6371000, 6371000, 3389500, 1737400, 1.0, 2.5])
                zmin = 0 if full else zmax * rng.choice([0.25, 0.5448124313294617, 0.75, 0.9])
                o = {"x_min": 0, "x_max": 0, "y_min": 0, "y_max": 0, "z_min": zmin, "z_max": zmax, "n_cell_x": ncx, "n_cell_y": ncx if rng.random() < 0.8 else ncx + 1, "n_cell_z": ncz}
                out.append((bin_, os.path.join(wdir, "run_sweep_%d_%d_%d" % (ncx, ncz, full)), w, None, "sphere", 3, o, 0))
    return out


def close6(a, b, scale=1.0):
    return abs(a - b) <= 2e-5 * max(abs(a), abs(b)) + 1e-9 * scale


def correspondence(seed, tier):
    cs = cases_for(seed, tier, budget(tier, 20, 200))
    if cs:
        cs = cs + sphere_sweep(seed, cs[0][0], proto.workdir("C18"))
    mism, n, nontriv, samples = [], 0, 0, []
    nsphere, nsphere_full, sphere_ok = 0, 0, 0
    for (bin_, rd, w, g, gtype, dim, opts, comps) in cs:
        r, wp = run_grid(bin_, rd, w, gtype, dim, opts, comps)
        vt = os.path.join(rd, "w.vtu")
        n += 1
        if r.returncode != 0 or not os.path.exists(vt):
            mism.append({"what": "gwb-grid failed: %s" % r.stderr[:200], "scope": "gwb-grid", "grid": [gtype, dim, opts], "world_json": w}); continue
        v = parse_vtu(vt)
        b = [opts.get(k, 0) for k in ("x_min", "x_max", "y_min", "y_max", "z_min", "z_max")]
        cmd = "grid %s %d %d %d %d %s" % (gtype, dim, opts.get("n_cell_x", 1), opts.get("n_cell_y", 1), opts.get("n_cell_z", 1), " ".join(fhex(x) for x in b))
        rc, mo, err = proto.run_driver([cmd])
        if rc != 0 or not mo or not mo[0].startswith("ok"):
            mism.append({"what": "model: %s" % (mo[:1] or err[:200]), "scope": "gwb-grid mesh"}); continue
        head, pts, dep, conn = mo[0].split("|")
        mnp, mnc = int(head.split()[1]), int(head.split()[2])
        mp = [proto.unhex(t) for t in pts.split()]; md = [proto.unhex(t) for t in dep.split()]; mc = [int(t) for t in conn.split()]
        scale = max(abs(x) for x in b) or 1.0
        what = None
        if (v["np"], v["ncell"]) != (mnp, mnc):
            what = "counts: tool %d points / %d cells, model %d / %d" % (v["np"], v["ncell"], mnp, mnc)
        elif len(v["data"]["points"]) != len(mp) or any(not close6(a, c, scale) for a, c in zip(v["data"]["points"], mp)):
            what = "node coordinates differ"
        elif any(not close6(a, c, scale) for a, c in zip(v["data"]["Depth"], md)):
            what = "Depth differs"
        elif v["data"]["connectivity"] != mc:
            what = "connectivity differs"
        elif gtype == "sphere" and (v["np"], v["ncell"]) != sphere_counts(opts["n_cell_x"], opts["n_cell_z"]):
            # not a theorem of the model (the de-duplication is a floating-point distance test): C18_sphere_node_count_full
            what = "sphere: %d points / %d cells, the closed form gives %d / %d" % ((v["np"], v["ncell"]) + sphere_counts(opts["n_cell_x"], opts["n_cell_z"]))
        if gtype == "sphere":
            nsphere += 1; nsphere_full += 1 if opts["z_min"] == 0 else 0; sphere_ok += 0 if what else 1
        if what:
            mism.append({"what": "%s %dD %s: %s" % (gtype, dim, opts, what), "scope": "gwb-grid mesh", "grid": [gtype, dim, opts], "world_json": w, "cmd": cmd})
        if v["ncell"] > 1:
            nontriv += 1
        if len(samples) < 3:
            samples.append({"grid": [gtype, dim, opts], "points": v["np"], "cells": v["ncell"]})
        shutil.rmtree(rd, ignore_errors=True)
    return {"summary": {"cases": n, "mismatches": len(mism), "nontrivial": nontriv, "values_compared": n, "bit_identical": n - len(mism), "bit_identical_share": (n - len(mism)) / max(1, n),
                        "sphere_cases": nsphere, "sphere_full_spheres": nsphere_full, "sphere_cases_agreeing": sphere_ok},
            "mismatches": mism, "samples": samples}


def oracle(seed, tier):
    cs = cases_for(seed + 7, tier, budget(tier, 15, 150))
    # (the cases include sphere grids over generated worlds; further below: fixed sphere grids over an empty world, structurally)
    viol, n, nontriv, samples, nexact = [], 0, 0, [], 0
    for idx, (bin_, rd, w, g, gtype, dim, opts, comps) in enumerate(cs):
        flags = [("--filtered",), ("--by-tag",), (), ("--filtered", "--by-tag"), ("--by-tag", "--filtered")][idx % 5]
        r, wp = run_grid(bin_, rd, w, gtype, dim, opts, comps, flags)
        vt = os.path.join(rd, "w.vtu")
        if r.returncode != 0 or not os.path.exists(vt):
            viol.append({"what": "gwb-grid failed: %s" % r.stderr[:200], "grid": [gtype, dim, opts], "world_json": w}); continue
        v = parse_vtu(vt)
        D = v["data"]
        nv = 4 if dim == 2 else 8
        def bad(msg):
            viol.append({"what": "%s %dD: %s" % (gtype, dim, msg), "grid": [gtype, dim, opts], "world_json": w, "flags": list(flags)})
        nx, ny, nz = opts.get("n_cell_x", 1), opts.get("n_cell_y", 1), opts.get("n_cell_z", 1)
        if gtype != "annulus":
            exp_np = (nx + 1) * (nz + 1) * ((ny + 1) if dim == 3 else 1); exp_nc = nx * nz * (ny if dim == 3 else 1)
            if gtype == "sphere":
                exp_np, exp_nc = sphere_counts(nx, nz)
            if (v["np"], v["ncell"]) != (exp_np, exp_nc):
                bad("%d points / %d cells, requested %d / %d" % (v["np"], v["ncell"], exp_np, exp_nc)); continue
        if len(D["connectivity"]) != v["ncell"] * nv or any(c < 0 or c >= v["np"] for c in D["connectivity"]):
            bad("connectivity references a non-existing node"); continue
        if D["offsets"] != [(i + 1) * nv for i in range(v["ncell"])]:
            bad("offsets are not multiples of the cell size"); continue
        P = D["points"]
        top = opts["z_max"]
        if any(not math.isfinite(x) for x in P) or any(not math.isfinite(x) for x in D["Depth"]):
            bad("node positions / Depth contain values that are not finite numbers"); continue
        # exact node positions: the Lean mesh model (compared with the file to its 6 printed digits by the correspondence stage)
        b = [opts.get(k, 0) for k in ("x_min", "x_max", "y_min", "y_max", "z_min", "z_max")]
        cmd = "grid %s %d %d %d %d %s" % (gtype, dim, nx, ny, nz, " ".join(fhex(x) for x in b))
        rc, mo, err = proto.run_driver([cmd])
        exact = None
        if rc == 0 and mo and mo[0].startswith("ok"):
            head, pts, dep, conn = mo[0].split("|")
            mp = [proto.unhex(t) for t in pts.split()]; md = [proto.unhex(t) for t in dep.split()]
            if len(mp) == len(P) and all(close6(a, c, max(abs(x) for x in b) or 1.0) for a, c in zip(P, mp)) and all(close6(a, c, top) for a, c in zip(D["Depth"], md)):
                exact = (mp, md); nexact += 1
        lines = ["world w %s -" % wp]
        props = [(1, 0, 0), (5, 0, 0), (4, 0, 0)] + [(2, c, 0) for c in range(comps)]
        okdepth = True
        for i in range(v["np"]):
            src = exact[0] if exact else P
            x, y, z = src[3 * i], src[3 * i + 1], src[3 * i + 2]
            if dim == 2:
                zz = y if gtype == "cartesian" else math.hypot(x, y)
                pt = [x, y]
            else:
                zz = z if gtype == "cartesian" else math.sqrt(x * x + y * y + z * z)
                pt = [x, y, z]
            dep = D["Depth"][i]
            if abs(dep - (top - zz)) > 2e-5 * top:
                okdepth = False
            lines.append((q2 if dim == 2 else q3)("w", pt, exact[1][i] if exact else dep, props))
        if not okdepth:
            bad("Depth is not the distance below the top of the grid"); continue
        rc, out, err = proto.run_harness(lines)
        if rc != 0 or len(out) != len(lines):
            bad("library crashed at a grid node"); continue
        nbad, first = 0, None
        for i in range(v["np"]):
            a = parse_answer(out[i + 1])
            n += 1
            if a[0] != "ok":
                continue
            bl = split_blocks(a[1], props)
            if bl[2][0] != -1.0:
                nontriv += 1
            exp = {"Temperature": bl[0][0], "Tag": bl[2][0], "vx": bl[1][0], "vy": bl[1][1], "vz": bl[1][2]}
            vel = D.get("velocity", D.get("Velocity"))
            got = {"Temperature": D["Temperature"][i], "Tag": D["Tag"][i], "vx": vel[3 * i], "vy": vel[3 * i + 1], "vz": vel[3 * i + 2]}
            for c in range(comps):
                exp["Composition %d" % c] = bl[3 + c][0]; got["Composition %d" % c] = D["Composition %d" % c][i]
            for k in exp:
                if not close6(got[k], exp[k], 1.0) and not (math.isnan(got[k]) and math.isnan(exp[k])):
                    nbad += 1
                    first = first or {"node": i, "field": k, "file": got[k], "library": exp[k], "point": pt}
        # with exact node positions every value must agree to the printed digits; with positions read back from the file (6 digits) nodes
        # sitting on feature boundaries may legitimately differ, so a small fraction is tolerated there (unmodelled meshes only)
        if (exact and nbad > 0) or nbad > max(2, 0.1 * v["np"] * (4 + comps)):
            bad("%d node values differ from the library's answer at the node (of %d nodes); first: %s" % (nbad, v["np"], first))
        # filtered / by-tag outputs: exactly the cells whose highest node tag is selected, in order, node data unchanged, connectivity into the output's own nodes
        if flags:
            tags_rc, tg, _ = proto.run_harness(["world w %s -" % wp, "tags w"])
            names = tg[1].split(" ", 2)[2].split("|") if len(tg) > 1 and len(tg[1].split(" ", 2)) > 2 and tg[1].split()[1] != "0" else []
            cell_tag = [max(int(D["Tag"][k]) for k in D["connectivity"][c * nv:(c + 1) * nv]) for c in range(v["ncell"])]
            fields = [k for k in D if k not in ("connectivity", "offsets", "types", "points")]
            width = {k: (len(D[k]) // v["np"] if v["np"] else 1) for k in fields}

            def node_key(dd, i):
                return tuple(dd["points"][3 * i:3 * i + 3]) + tuple(x for k in fields for x in dd[k][i * width[k]:(i + 1) * width[k]])

            def check_selection(label, path, selected):
                if not os.path.exists(path):
                    bad("%s: the file %s was not written" % (label, os.path.basename(path))); return
                fv = parse_vtu(path)
                fd = fv["data"]
                want = [c for c in range(v["ncell"]) if selected(cell_tag[c])]
                if fv["ncell"] != len(want):
                    bad("%s output has %d cells, the tag rule selects %d of the %d cells" % (label, fv["ncell"], len(want), v["ncell"])); return
                if len(fd.get("connectivity", [])) != nv * fv["ncell"] or any(c < 0 or c >= fv["np"] for c in fd.get("connectivity", [])):
                    bad("%s connectivity has %d entries for %d cells / references a non-existing node" % (label, len(fd.get("connectivity", [])), fv["ncell"])); return
                if fd.get("offsets", []) != [nv * (c + 1) for c in range(fv["ncell"])]:
                    bad("%s offsets are not the multiples of %d" % (label, nv)); return
                if any(len(fd.get(k, [])) != width[k] * fv["np"] for k in fields) or len(fd.get("points", [])) != 3 * fv["np"]:
                    bad("%s node data arrays do not have one entry per output node" % label); return
                for ci, c in enumerate(want):
                    src = [node_key(D, k) for k in D["connectivity"][c * nv:(c + 1) * nv]]
                    dst = [node_key(fd, k) for k in fd["connectivity"][ci * nv:(ci + 1) * nv]]
                    if src != dst:
                        bad("%s: output cell %d is not input cell %d with unchanged node values" % (label, ci, c)); return

            if "--filtered" in flags:
                check_selection("--filtered", os.path.join(rd, "w.filtered.vtu"), lambda ht: ht >= 0 and (ht >= len(names) or names[ht] != "mantle layer"))
            if "--by-tag" in flags:
                for ti, tn in enumerate(names):
                    if tn == "mantle layer":
                        continue
                    check_selection("--by-tag (tag %d `%s`)" % (ti, tn), os.path.join(rd, "w.%d.vtu" % ti), lambda ht, ti=ti: ht == ti)
        if len(samples) < 3:
            samples.append({"grid": [gtype, dim, opts], "flags": list(flags), "nodes": v["np"]})
        shutil.rmtree(rd, ignore_errors=True)
    # the sphere grid over an empty world: structural checks (layers, Depth, finite values)
    if cs:
        bin_, rd, w, g, gtype, dim, opts, comps = cs[0]
        w2 = {"version": "1.1", "coordinate system": {"model": "spherical", "depth method": "begin segment"}, "features": []}
        # hollow shells and the full sphere down to the centre (z_min = 0: the innermost layer consists of 12 n^2 + 2 nodes which all lie at r = 0; Lean: C18_sphere_centre_field)
        for (zmin, ncz, ncx) in ((5371000, 2, 2), (3471000, 3, 2), (0, 1, 3), (0, 3, 2)):
            o = {"x_min": 0, "x_max": 0, "y_min": 0, "y_max": 0, "z_min": zmin, "z_max": 6371000, "n_cell_x": ncx, "n_cell_y": ncx, "n_cell_z": ncz}
            sd = rd + "_sphere_%d_%d" % (zmin, ncz)
            r, wp = run_grid(bin_, sd, w2, "sphere", 3, o, 0)
            vt = os.path.join(sd, "w.vtu")
            if r.returncode == 0 and os.path.exists(vt):
                v = parse_vtu(vt); n += 1
                def sbad(msg):
                    viol.append({"what": "sphere grid: " + msg, "grid": ["sphere", 3, o]})
                if any(c < 0 or c >= v["np"] for c in v["data"]["connectivity"]) or len(v["data"]["connectivity"]) != 8 * v["ncell"]:
                    sbad("cells reference non-existing nodes")
                P = v["data"]["points"]
                notfinite = [k for k in ("points", "Depth", "Temperature") if k in v["data"] and any(not math.isfinite(x) for x in v["data"][k])]
                if notfinite:
                    sbad("%s contain values that are not finite numbers" % ", ".join(notfinite))
                else:
                    radii = []
                    for i in range(v["np"]):
                        rr = math.sqrt(sum(P[3 * i + k] ** 2 for k in range(3)))
                        radii.append(rr)
                        if not close6(v["data"]["Depth"][i], 6371000 - rr, 6371000) and abs(v["data"]["Depth"][i] - (6371000 - rr)) > 100:
                            sbad("Depth is not outer radius - r at node %d" % i); break
                    # the layers: n_cell_z + 1 radii evenly spaced from z_min to z_max
                    want = [zmin + (6371000 - zmin) * k / ncz for k in range(ncz + 1)]
                    off = [rr for rr in radii if min(abs(rr - x) for x in want) > 100]
                    missing = [x for x in want if not any(abs(rr - x) <= 100 for rr in radii)]
                    if off or missing:
                        sbad("node radii are not the %d requested layers %s (%d nodes off a layer, layers without nodes: %s)" % (ncz + 1, want, len(off), missing))
            else:
                viol.append({"what": "sphere grid: gwb-grid failed (exit %s) %s" % (r.returncode, (r.stderr or "")[-200:]), "grid": ["sphere", 3, o]})
            shutil.rmtree(sd, ignore_errors=True)
    return {"violations": trim_violations(viol, 20), "summary": {"cases": n, "violations": len(viol), "nontrivial": nontriv, "grids_with_exact_node_positions": nexact, "grids": len(cs)}, "samples": samples}


def replay(rp):
    print(json.dumps(rp["violation"], indent=1)[:3000])
    return False
