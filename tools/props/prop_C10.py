"""C10 — segment models are inherited and sections interpolate only between neighbours."""
import copy, json, math, os, random
from common import *

LEVEL = "proof"
RULE = ("generated slabs and faults with models at all three levels (feature, section entry, segment), curved trenches, Cartesian and spherical. oracle on the library, bit for bit: "
        "(a) the inherited models written explicitly into every segment (segment > section entry > feature); (b) a `sections` entry repeating the default segment list added for every "
        "coordinate that has none; (c) locality: the section of one coordinate of a straight four- or five-coordinate trench overridden (different models, thickness, truncation, same lengths), "
        "queries whose foot lies between two other coordinates (margin 2 %) must not change; (d) convexity: sections with different uniform temperatures / compositions / thicknesses on a straight "
        "trench, every painted quantity is a convex combination of the two adjacent sections' values with ONE common fraction in [0,1] (the parameter of the trench curve), and at a coordinate it is that section's own value. "
        "correspondence: the Lean model vs the library on the generated three-level layouts. non-trivial = a compared query inside the feature.")
TRUSTED_BASE = ["locality with the culling shortcuts on relies on C07's premise (the culling bounds are maxima over all sections); the theorem is stated for cull = false and, given that premise, for cull = true",
                "that the closest-point search picks the piece between the two nearest coordinates is Newton convergence (C06/C19 territory), not a theorem; the oracle uses straight trenches for (c) and (d)"]
ASSUMPTIONS = ["the section fraction is not clamped to [0,1] in the code (it can exceed it by 1e-8 at joints; C10_fraction_in_unit_interval_false): the convexity oracle allows 1e-6 relative slack"]

KEYS = ["temperature models", "composition models", "grains models", "velocity models"]
PROPS = [(1, 0, 0), (2, 0, 0), (2, 1, 0), (2, 2, 0), (2, 3, 0), (3, 0, 1), (3, 1, 2), (4, 0, 0), (5, 0, 0)]


def explicit(w):
    w = copy.deepcopy(w)
    for f in w["features"]:
        if f["model"] not in ("subducting plate", "fault"):
            continue
        for seg in f.get("segments", []):
            for key in KEYS:
                if key not in seg and key in f:
                    seg[key] = copy.deepcopy(f[key])
        for sec in f.get("sections", []) or []:
            for seg in sec.get("segments", []):
                for key in KEYS:
                    if key not in seg:
                        src = sec if key in sec else (f if key in f else None)
                        if src is not None:
                            seg[key] = copy.deepcopy(src[key])
    return w


def repeat_default(w, rng):
    w = copy.deepcopy(w)
    for f in w["features"]:
        if f["model"] not in ("subducting plate", "fault"):
            continue
        have = {s.get("coordinate", 0) for s in f.get("sections", []) or []}
        secs = list(f.get("sections", []) or [])
        for ci in range(len(f["coordinates"])):
            if ci not in have and rng.random() < 0.8:
                secs.insert(rng.randint(0, len(secs)), {"coordinate": ci, "segments": copy.deepcopy(f["segments"])})
        if secs:
            f["sections"] = secs
    return w


def relayout_oracle(rng, decl, tier, wdir, viol, stats):
    cases = nontriv = 0
    for wi in range(budget(tier, 40, 400)):
        g = WorldGen(random.Random(rng.getrandbits(64)), schema=decl, allow=["subducting plate", "fault"], with_lines=True, max_features=2, with_cross=False)
        w = g.world()
        if not w["features"]:
            continue
        variants = [("explicit-models", explicit(w)), ("repeat-default-section", repeat_default(w, rng)), ("both", repeat_default(explicit(w), rng))]
        qs = g.queries(w, budget(tier, 25, 40))
        lines = []
        paths = []
        for vi, (name, wv) in enumerate([("original", w)] + variants):
            p = os.path.join(wdir, "r_%d_%d.wb" % (wi, vi))
            json.dump(wv, open(p, "w"))
            paths.append(p)
            lines.append("world v%d %s -" % (vi, p))
            for (pt, d) in qs:
                lines.append(q3("v%d" % vi, pt, d, PROPS))
        rc, out, err = proto.run_harness(lines)
        if rc != 0 or len(out) != len(lines):
            viol.append({"what": "library died on a re-layout set: rc=%s %s" % (rc, err[-300:]), "world_json": w, "probe": "crash"})
            continue
        n = 1 + len(qs)
        base = out[:n]
        if base[0] != "ok":
            continue
        for vi, (name, wv) in enumerate(variants, start=1):
            cur = out[vi * n:(vi + 1) * n]
            stats[name] = stats.get(name, 0) + 1
            for qi in range(n):
                cases += 1
                if qi > 0 and base[qi].startswith("ok") and not base[qi].endswith("bff0000000000000 0000000000000000 0000000000000000 0000000000000000"):
                    nontriv += 1
                if cur[qi] != base[qi]:
                    viol.append({"what": "re-layout `%s` is distinguishable from the original: %s" % (name, ("the re-laid-out world is refused: " + cur[0][:200]) if qi == 0 else
                                                                                                   "answer to `%s` differs: %s vs %s" % (lines[qi][:120], base[qi][:100], cur[qi][:100])),
                                 "world_json": w, "relayout_json": wv, "world": paths[0], "relayout": paths[vi], "cmd": lines[qi] if qi else None, "probe": "relayout:" + name})
                    break
    return cases, nontriv


def straight_case(rng, fault):
    n = rng.choice([4, 5])
    az = rng.uniform(0, 2 * math.pi)
    L = rng.choice([800e3, 1200e3])
    A = [rng.choice([-500e3, 0, 300e3]), rng.choice([-400e3, 0, 200e3])]
    cs = [[A[0] + L * i / (n - 1) * math.cos(az), A[1] + L * i / (n - 1) * math.sin(az)] for i in range(n)]
    side = rng.choice([-1, 1])
    nh = [-math.sin(az) * side, math.cos(az) * side]
    mid = [(cs[0][0] + cs[-1][0]) / 2, (cs[0][1] + cs[-1][1]) / 2]
    dk = "fault center" if fault else "slab top"
    nseg = rng.choice([1, 2])
    lens = [rng.choice([150e3, 200e3]) for _ in range(nseg)]
    angs = [rng.choice([30, 45, 60]) for _ in range(nseg)]

    def segs(th, temp, frac):
        out = []
        for k in range(nseg):
            sg = {"length": lens[k], "thickness": [th], "angle": [angs[k]],
                  "temperature models": [{"model": "uniform", "temperature": temp, "max distance " + dk: 500e3}],
                  "composition models": [{"model": "uniform", "compositions": [0], "fractions": [frac], "max distance " + dk: 500e3}]}
            out.append(sg)
        return out
    vals = [(rng.choice([80e3, 100e3, 140e3]), rng.choice([400, 700, 1000, 1300]), rng.choice([0.25, 0.5, 1.0])) for _ in range(n)]
    f = {"model": "fault" if fault else "subducting plate", "name": "s", "coordinates": cs, "dip point": [mid[0] + nh[0] * 1e5, mid[1] + nh[1] * 1e5], "max depth": 660e3,
         "segments": segs(*vals[0]), "sections": [{"coordinate": i, "segments": segs(*vals[i])} for i in range(1, n)]}
    return {"version": "1.1", "features": [f]}, cs, nh, az, L, n, vals, lens, angs


def structured_oracle(rng, tier, wdir, viol, stats):
    cases = nontriv = 0
    for wi in range(budget(tier, 24, 240)):
        fault = wi % 3 == 2
        w, cs, nh, az, L, n, vals, lens, angs = straight_case(rng, fault)
        k = rng.randrange(n)
        w2 = copy.deepcopy(w)
        f2 = w2["features"][0]
        dk = "fault center" if fault else "slab top"
        newsegs = copy.deepcopy(f2["segments"] if k == 0 else [s for s in f2["sections"] if s["coordinate"] == k][0]["segments"])
        for sg in newsegs:
            sg["thickness"] = [rng.choice([60e3, 120e3])]
            sg["temperature models"] = [{"model": "uniform", "temperature": 1999, "max distance " + dk: 500e3}]
            sg["composition models"] = [{"model": "uniform", "compositions": [0, 1], "fractions": [0.125, 1], "max distance " + dk: 500e3}]
        if k == 0:
            # coordinate 0 uses the default segments: give every other coordinate its own entry first (they all have one) and override through an entry
            f2["sections"] = [{"coordinate": 0, "segments": newsegs}] + f2["sections"]
        else:
            for s in f2["sections"]:
                if s["coordinate"] == k:
                    s["segments"] = newsegs
        p1, p2 = os.path.join(wdir, "l_%d_a.wb" % wi), os.path.join(wdir, "l_%d_b.wb" % wi)
        json.dump(w, open(p1, "w")); json.dump(w2, open(p2, "w"))
        lines = ["world a %s -" % p1, "world b %s -" % p2]
        meta = []
        for _ in range(budget(tier, 30, 40)):
            t = rng.uniform(0.01, 0.99) * (n - 1)
            if rng.random() < 0.25:
                t = float(rng.randrange(n))           # exactly at a coordinate
                t = min(max(t, 0.02), n - 1 - 0.02) if t in (0.0, float(n - 1)) else t
            i = min(int(t), n - 2)
            fr = t - i
            u = rng.uniform(5e3, 0.5 * lens[0] * math.cos(math.radians(angs[0])))      # horizontal offset towards the dip side, inside the first segment
            d = u * math.tan(math.radians(angs[0])) + (0.0 if fault else rng.uniform(2e3, 30e3) / math.cos(math.radians(angs[0])))
            al = t / (n - 1)
            x = cs[0][0] + (cs[-1][0] - cs[0][0]) * al + nh[0] * u
            y = cs[0][1] + (cs[-1][1] - cs[0][1]) * al + nh[1] * u
            for wid in ("a", "b"):
                lines.append(q3(wid, [x, y, 1000e3 - d], d, [(1, 0, 0), (2, 0, 0), (2, 1, 0), (4, 0, 0)]))
            meta.append((i, fr, t))
        rc, out, err = proto.run_harness(lines)
        if rc != 0 or len(out) != len(lines) or out[0] != "ok" or out[1] != "ok":
            viol.append({"what": "library failed on a structured section world: rc=%s %s %s" % (rc, out[:2], err[-200:]), "world_json": w, "probe": "crash"})
            continue
        for qi, (i, fr, t) in enumerate(meta):
            a, b = parse_answer(out[2 + 2 * qi]), parse_answer(out[3 + 2 * qi])
            cases += 1
            if a[0] != "ok" or b[0] != "ok":
                viol.append({"what": "query failed: %s %s" % (a, b), "world_json": w, "probe": "crash"}); break
            inside = a[1][3] != -1.0
            if inside:
                nontriv += 1
            # exactly / nearly collinear trench coordinates make the library's trench curve overshoot the interior coordinates (recorded known finding, see KNOWN_FINDINGS):
            # a violation whose foot lies within 15 % of a piece length of an interior coordinate is attributed to it
            joint = (fr < 0.15 and i > 0) or (fr > 0.85 and i + 1 < n - 1)
            # (c) locality
            margin = 0.02
            affected = (i == k) or (i + 1 == k)
            if not affected:
                # the foot lies between coordinates i and i+1, neither of which is k; keep a margin at the joints next to k's pieces
                if not ((i + 1 == k - 1 and fr > 1 - margin) or (i == k + 1 and fr < margin)):
                    stats["locality"] = stats.get("locality", 0) + 1
                    if out[2 + 2 * qi] != out[3 + 2 * qi]:
                        viol.append({"what": "overriding the section of coordinate %d changed the answer of a query whose foot lies between coordinates %d and %d (fraction %.4f): %s vs %s" % (
                            k, i, i + 1, fr, out[2 + 2 * qi][:90], out[3 + 2 * qi][:90]), "world_json": w, "overridden_json": w2, "cmd": lines[2 + 2 * qi], "probe": "collinear-trench-joint" if joint else "locality"})
                        if not joint:
                            break
            # (d) convexity on the original world
            if inside:
                stats["convexity"] = stats.get("convexity", 0) + 1
                Ti, Tj = vals[i][1], vals[i + 1][1]
                Ci, Cj = vals[i][2], vals[i + 1][2]
                T, C = a[1][0], a[1][1]
                # the section fraction is the parameter of the trench curve (not the distance fraction): it must be ONE number in [0,1] for every interpolated quantity,
                # 0 at coordinate i (the section's own values there)
                fs = []
                if Ti != Tj:
                    fs.append((T - Ti) / (Tj - Ti))
                if Ci != Cj:
                    fs.append((C - Ci) / (Cj - Ci))
                bad = None
                if any(f < -1e-6 or f > 1 + 1e-6 for f in fs):
                    bad = "is not between the two adjacent sections' values"
                elif len(fs) == 2 and abs(fs[0] - fs[1]) > 1e-6:
                    bad = "uses different section fractions for temperature (%.9g) and composition (%.9g)" % (fs[0], fs[1])
                elif fr == 0.0 and (abs(T - Ti) > 1e-6 * abs(Ti) + 1e-6 or abs(C - Ci) > 1e-6):
                    bad = "at coordinate %d is not that section's own value" % i
                elif Ti == Tj and abs(T - Ti) > 1e-9 * abs(Ti):
                    bad = "differs although both adjacent sections specify the same temperature"
                if bad:
                    viol.append({"what": "between coordinates %d and %d (distance fraction %.6f) the painted temperature / composition %.9g / %.9g %s; adjacent sections: (%g, %g) / (%g, %g)" % (
                        i, i + 1, fr, T, C, bad, Ti, Tj, Ci, Cj), "world_json": w, "cmd": lines[2 + 2 * qi], "probe": "collinear-trench-joint" if joint else "convexity"})
                    if not joint:
                        break
    return cases, nontriv


def length_oracle(rng, tier, wdir, viol, stats):
    """segment LENGTHS interpolate like everything else: a two-coordinate trench with vertical segments whose second segment has a different length (possibly zero)
    at the two coordinates.  The section weight f at a position is read off the interpolated temperature of the first segment; the feature must then end at depth
    L1 + (1-f)*La + f*Lb there (a vertical surface: distance along the surface = depth)."""
    cases = nontriv = 0
    for wi in range(budget(tier, 10, 80)):
        fault = wi % 2 == 1
        az = rng.uniform(0, 2 * math.pi)
        A = [rng.uniform(-500e3, 500e3), rng.uniform(-500e3, 500e3)]
        Lt = 800e3
        B = [A[0] + Lt * math.cos(az), A[1] + Lt * math.sin(az)]
        nh = [-math.sin(az), math.cos(az)]
        L1 = rng.choice([150e3, 200e3])
        La, Lb = rng.choice([(0, 200e3), (200e3, 0), (100e3, 300e3), (0, 120e3), (250e3, 50e3)])
        T0, T1 = 500.0, 1100.0
        dk = "fault center" if fault else "slab top"
        def segs(l2, T):
            return [{"length": L1, "thickness": [100e3], "angle": [90], "temperature models": [{"model": "uniform", "temperature": T, "max distance " + dk: 500e3}]},
                    {"length": l2, "thickness": [100e3], "angle": [90], "temperature models": [{"model": "uniform", "temperature": T, "max distance " + dk: 500e3}]}]
        w = {"version": "1.1", "features": [{"model": "fault" if fault else "subducting plate", "name": "s", "coordinates": [A, B], "dip point": [(A[0] + B[0]) / 2 + nh[0] * 1e5, (A[1] + B[1]) / 2 + nh[1] * 1e5],
                                             "max depth": 900e3, "segments": segs(La, T0), "sections": [{"coordinate": 1, "segments": segs(Lb, T1)}]}]}
        path = os.path.join(wdir, "len_%d.wb" % wi)
        json.dump(w, open(path, "w"))
        als = [0.03, 0.2, 0.35, 0.5, 0.65, 0.8, 0.97, rng.uniform(0.05, 0.95)]
        off = 10e3 if fault else -20e3         # inside the thickness (a vertical slab's body lies on the side away from the dip point, beneath its top surface)
        pts = [[A[0] + (B[0] - A[0]) * al + nh[0] * off, A[1] + (B[1] - A[1]) * al + nh[1] * off] for al in als]
        rc, out, err = proto.run_harness(["world w %s -" % path] + [q3("w", [p[0], p[1], 1000e3 - 0.5 * L1], 0.5 * L1, [(1, 0, 0), (4, 0, 0)]) for p in pts])
        if rc != 0 or len(out) != 1 + len(pts) or out[0] != "ok":
            viol.append({"what": "library failed on a length-interpolation world: rc=%s %s %s" % (rc, out[:1], err[-200:]), "world_json": w, "probe": "crash"}); continue
        lines, meta = ["world w %s -" % path], []
        for al, p, o in zip(als, pts, out[1:]):
            a = parse_answer(o)
            if a[0] != "ok" or a[1][1] == -1.0:
                viol.append({"what": "a point inside the first segment (depth %.6g of %.6g, %.0f km from the trench plane) is not inside the feature: %s" % (0.5 * L1, L1, off / 1e3, a), "world_json": w, "world": path}); break
            f = (a[1][0] - T0) / (T1 - T0)
            if not (-1e-9 <= f <= 1 + 1e-9):
                viol.append({"what": "interpolated temperature %.9g is outside [%g, %g]" % (a[1][0], T0, T1), "world_json": w, "world": path}); break
            Lexp = (1 - f) * La + f * Lb
            for d, inside in ((L1 + 0.3 * Lexp, True), (L1 + 0.8 * Lexp, True), (L1 + Lexp - 2e3, True), (L1 + Lexp + 2e3, False), (L1 + Lexp + 40e3, False)):
                if inside and Lexp < 10e3:
                    continue
                lines.append(q3("w", [p[0], p[1], 1000e3 - d], d, [(4, 0, 0)])); meta.append((al, f, Lexp, d, inside))
        rc, out, err = proto.run_harness(lines)
        if rc != 0 or len(out) != len(lines):
            viol.append({"what": "library failed: rc=%s %s" % (rc, err[-200:]), "world_json": w, "probe": "crash"}); continue
        for (al, f, Lexp, d, inside), o, cmd in zip(meta, out[1:], lines[1:]):
            a = parse_answer(o)
            cases += 1
            nontriv += 1 if inside else 0
            got = a[0] == "ok" and a[1][0] != -1.0
            if got != inside:
                viol.append({"what": "%s: at trench fraction %.3f the section weight is %.6f, so the second segment is %.6g m long (%.6g at coordinate 0, %.6g at coordinate 1) and the feature ends at depth %.6g; "
                                     "depth %.6g is reported %s" % ("fault" if fault else "slab", al, f, Lexp, La, Lb, L1 + Lexp, d, "inside" if got else "outside"),
                             "world_json": w, "world": path, "cmd": cmd, "probe": "length-interpolation"})
                break
    stats["length_interpolation"] = cases
    return cases, nontriv


def oracle(seed, tier):
    rng = random.Random(seed * 5081 + 10)
    decl = json.load(open(proto.schema()[0]))
    wdir = proto.workdir("C10")
    viol, stats = [], {}
    c1, n1 = relayout_oracle(rng, decl, tier, wdir, viol, stats)
    c2, n2 = structured_oracle(rng, tier, wdir, viol, stats)
    c3, n3 = length_oracle(rng, tier, wdir, viol, stats)
    return {"violations": trim_violations(viol, 20), "summary": {"cases": c1 + c2 + c3, "violations": len(viol), "nontrivial": n1 + n2 + n3, "checks": stats},
            "samples": [{"relayouts": ["explicit-models", "repeat-default-section", "both"], "structured": "straight trench, one section per coordinate, one overridden"}]}


def correspondence(seed, tier):
    rs = [corr.run_corr(seed * 1000 + 100 + k, "C10_%d" % k, budget(tier, 25, 250), 25, {"with_random": False, "with_lines": True, "allow": ["subducting plate", "fault"], "max_features": 2}) for k in range(budget(tier, 1, 3))]
    return summarize_corr(rs)


def replay(rp):
    v = rp["violation"]
    print(json.dumps({k: v[k] for k in v if not k.endswith("_json")}, indent=1)[:3000])
    return False
