"""C06 — slab and fault geometry equals the elementary planar construction for straight trenches."""
import json, math, os, random
from common import *

LEVEL = "proof"
RULE = ("correspondence: the Lean transliteration of distance_point_from_curved_planes and of the slab/fault membership test vs the library, bit for bit (generated slabs and faults, curved and straight, "
        "plus the `dist` entry point). oracle (independent planar construction in Python): straight Cartesian trenches of any position/azimuth/length/dip side, 1-4 segments with straight "
        "(equal dips) and circular-arc (different dips) pieces, thickness pairs, top truncations, min depths; World::distance_to_plane and membership (tag) at random points of the perpendicular plane "
        "are compared with the construction (tolerance 1e-6 of the trench length + 1e-9 relative); spherical trenches along a meridian / the equator with radius-scaled tolerance. "
        "non-trivial = a point with a foot on some piece.")
TRUSTED_BASE = ["that the Bezier closest-point iteration returns the orthogonal foot on a straight trench is not a theorem (sampled here and in C19)"]
ASSUMPTIONS = ["points whose foot lies within 1e-6 of a piece end or whose two nearest pieces are equally near (1e-6) are skipped: the winner is then a rounding matter"]


def pieces(segs):
    """[(u0, v0, a0, a1, L, s0)] start point, start/end dip (radians), length, cumulative length"""
    out = []
    u = v = s = 0.0
    for (L, a0, a1) in segs:
        out.append((u, v, a0, a1, L, s))
        if abs(a0 - a1) < 1e-12:
            u, v = u + L * math.cos(a0), v + L * math.sin(a0)
        else:
            k = (a1 - a0) / L           # curvature dθ/ds
            # ∫cos(a0+ks)ds, ∫sin(a0+ks)ds
            u, v = u + (math.sin(a1) - math.sin(a0)) / k, v - (math.cos(a1) - math.cos(a0)) / k
        s += L
    return out


def foot(piece, P):
    """(signed distance (positive below the surface), local along) or None"""
    u0, v0, a0, a1, L, s0 = piece
    pu, pv = P
    if abs(a0 - a1) < 1e-12:
        du, dv = math.cos(a0), math.sin(a0)
        t = (pu - u0) * du + (pv - v0) * dv
        if not (0 <= t <= L):
            return None
        d = (pu - u0) * (-dv) + (pv - v0) * du
        return d, t, min(t, L - t)
    k = (a1 - a0) / L
    R = 1.0 / k                              # signed radius
    # centre: C = start + R * n_left where for θ increasing the centre lies towards (−sinθ, cosθ)
    cu, cv = u0 - R * math.sin(a0), v0 + R * math.cos(a0)
    ru, rv = pu - cu, pv - cv
    r = math.hypot(ru, rv)
    if r < 1e-9:
        return None
    # point on the arc at angle θ: C + R(sinθ, −cosθ); find θ of the radial direction
    if R > 0:
        th = math.atan2(ru, -rv)
    else:
        th = math.atan2(-ru, rv)
    # bring θ into the piece's range
    lo, hi = min(a0, a1), max(a0, a1)
    cands = [th + 2 * math.pi * j for j in (-1, 0, 1)]
    cands = [c for c in cands if lo <= c <= hi]
    if not cands:
        return None
    th = cands[0]
    t = (th - a0) / k
    fu, fv = cu + R * math.sin(th), cv - R * math.cos(th)
    d = (pu - fu) * (-math.sin(th)) + (pv - fv) * math.cos(th)
    return d, t, min(t, L - t)


def joints(segs):
    """interior joints of the surface whose tangent direction jumps: (u, v, end dip of the piece before, start dip of the piece after, along-surface position, index of the piece before)"""
    pcs = pieces(segs)
    out = []
    for k in range(len(pcs) - 1):
        (u1, v1, a0n, a1n, Ln, s1) = pcs[k + 1]
        a1 = pcs[k][3]
        if abs(a1 - a0n) > math.radians(1.0):
            out.append((u1, v1, a1, a0n, s1, k))
    return out


def nearest_kink(segs, P):
    """the interior kink closest to P: (distance, below both pieces?, above both pieces?, joint) or None"""
    best = None
    for (u1, v1, a1, a0n, s1, k) in joints(segs):
        du, dv = P[0] - u1, P[1] - v1
        r = math.hypot(du, dv)
        # in the wedge of the kink: beyond the end of the piece before, before the start of the piece after
        if not (du * math.cos(a1) + dv * math.sin(a1) > 0 and du * math.cos(a0n) + dv * math.sin(a0n) < 0):
            continue
        d1 = du * (-math.sin(a1)) + dv * math.cos(a1); d2 = du * (-math.sin(a0n)) + dv * math.cos(a0n)
        if best is None or r < best[0]:
            best = (r, d1 > 0 and d2 > 0, d1 < 0 and d2 < 0, (u1, v1, a1, a0n, s1, k))
    return best


def planar(segs, P):
    best = None
    second = None
    for pc in pieces(segs):
        f = foot(pc, P)
        if f is None:
            continue
        d, t, margin = f
        cand = (abs(d), d, pc[5] + t, margin)
        if best is None or cand[0] < best[0]:
            second, best = best, cand
        elif second is None or cand[0] < second[0]:
            second = cand
    return best, second


def make_case(rng, fault, collinear=None):
    nseg = rng.choice([1, 1, 2, 3, 4])
    segs, sj = [], []
    a_prev = None
    for i in range(nseg):
        a0 = a_prev if (a_prev is not None and rng.random() < 0.7) else rng.choice([15, 30, 45, 60, 75, 90, 110])
        a1 = a0 if rng.random() < 0.45 else rng.choice([20, 35, 50, 65, 80, 100])
        L = rng.choice([80e3, 150e3, 250e3])
        t0 = rng.choice([60e3, 100e3]); t1 = rng.choice([t0, 140e3])
        seg = {"length": L, "thickness": [t0, t1] if t1 != t0 or rng.random() < 0.5 else [t0], "angle": [a0, a1] if a1 != a0 or rng.random() < 0.5 else [a0]}
        tt = [0, 0]
        if not fault and rng.random() < 0.3:
            tt = [rng.choice([0, 10e3, -20e3, -30e3]), rng.choice([0, 5e3, 20e3])]; seg["top truncation"] = tt
        sj.append(seg); segs.append((L, math.radians(a0), math.radians(a1), t0, t1, tt[0], tt[1]))
        a_prev = a1
    az = rng.uniform(0, 2 * math.pi); ln = rng.choice([300e3, 900e3, 2000e3])
    A = [rng.uniform(-1e6, 1e6), rng.uniform(-1e6, 1e6)]
    B = [A[0] + ln * math.cos(az), A[1] + ln * math.sin(az)]
    side = rng.choice([-1, 1])
    nh = [-math.sin(az) * side, math.cos(az) * side]
    mid = [(A[0] + B[0]) / 2, (A[1] + B[1]) / 2]
    dip_pt = [mid[0] + nh[0] * rng.choice([1e5, 1e7]), mid[1] + nh[1] * rng.choice([1e5, 1e7])]
    mind = rng.choice([0, 0, 10e3, 50e3, 80e3])
    coords = [A, B]
    if collinear:
        m = collinear
        coords = [A, [A[0] + (B[0] - A[0]) * m, A[1] + (B[1] - A[1]) * m], B]
    f = {"model": "fault" if fault else "subducting plate", "name": "s", "coordinates": coords, "dip point": dip_pt, "min depth": mind, "max depth": rng.choice([660e3, 400e3, 250e3, 150e3, 90e3]), "segments": sj,
         "composition models": [{"model": "uniform", "compositions": [0]}]}
    w = {"version": "1.1", "features": [f]}
    return w, segs, A, B, nh, ln, az, mind, f["max depth"]


def oracle(seed, tier):
    rng = random.Random(seed * 2657 + 6)
    wdir = proto.workdir("C06_oracle")
    viol, cases, nontriv, samples, dist = [], 0, 0, [], {"straight": 0, "arc": 0, "fault": 0, "slab": 0}
    nmain = budget(tier, 40, 500)
    for wi in range(nmain + budget(tier, 6, 40)):
        fault = wi % 3 == 2
        # the last worlds: the same straight trench given by three collinear coordinates (interior coordinate at fraction m)
        m = None if wi < nmain else rng.choice([0.5, 0.5, 0.25, 0.6])
        w, segs, A, B, nh, ln, az, mind, maxd = make_case(rng, fault, m)
        if m is not None and wi % 2 == 0:
            # axis-aligned: the cross products of the side tests are exactly zero
            az = rng.choice([0.0, math.pi / 2]); side = rng.choice([-1, 1])
            A = [rng.choice([0.0, -300e3]), rng.choice([0.0, 200e3])]
            B = [A[0] + ln * round(math.cos(az)), A[1] + ln * round(math.sin(az))]
            nh = [-round(math.sin(az)) * side, round(math.cos(az)) * side]
            f0 = w["features"][0]
            f0["coordinates"] = [A, [A[0] + (B[0] - A[0]) * m, A[1] + (B[1] - A[1]) * m], B]
            f0["dip point"] = [(A[0] + B[0]) / 2 + nh[0] * 1e5, (A[1] + B[1]) / 2 + nh[1] * 1e5]
        dist["collinear-3-coordinates"] = dist.get("collinear-3-coordinates", 0) + (1 if m is not None else 0)
        dist["fault" if fault else "slab"] += 1
        for sg in segs:
            dist["straight" if abs(sg[1] - sg[2]) < 1e-12 else "arc"] += 1
        path = os.path.join(wdir, "g_%d.wb" % wi)
        json.dump(w, open(path, "w"))
        geo = [(sg[0], sg[1], sg[2]) for sg in segs]
        Ltot = sum(sg[0] for sg in segs)
        pts, lines = [], ["world w %s -" % path]
        npts = budget(tier, 25, 40)
        for pi in range(npts + (6 if m is not None else 0)):
            al = rng.uniform(0.03, 0.97)
            u = rng.uniform(-150e3, 500e3); v = rng.uniform(0, 450e3)
            if pi < npts and pi % 3 == 2:
                # every third point: 1.5 km inside or outside a membership boundary (top truncation / thickness, interpolated down the segment; half thickness for faults)
                pcs = pieces(geo)
                ki = rng.randrange(len(pcs))
                (u0, v0, a0, a1, L, s0) = pcs[ki]
                t = rng.uniform(0.05, 0.95) * L
                sg = segs[ki]; fr = t / L
                th = sg[3] + fr * (sg[4] - sg[3]); tt = sg[5] + fr * (sg[6] - sg[5])
                bnd = rng.choice([th / 2, -th / 2]) if fault else rng.choice([tt, tt, th])
                dd = bnd + rng.choice([-1.5e3, 1.5e3])
                if abs(a0 - a1) < 1e-12:
                    tha = a0; fu, fv = u0 + t * math.cos(a0), v0 + t * math.sin(a0)
                else:
                    k = (a1 - a0) / L; R = 1.0 / k; tha = a0 + k * t
                    fu, fv = u0 - R * math.sin(a0) + R * math.sin(tha), v0 + R * math.cos(a0) - R * math.cos(tha)
                u, v = fu - dd * math.sin(tha), fv + dd * math.cos(tha)
                if v < 0:
                    u = rng.uniform(-150e3, 500e3); v = rng.uniform(0, 450e3)
            if pi < npts and pi % 9 == 4 and joints(geo):
                # inside the wedge of a kink (the dip jumps between two segments): no piece has a perpendicular foot there, the kink itself is the closest point of the surface
                (u1, v1, a1, a0n, s1, kk) = rng.choice(joints(geo))
                thj = min(segs[kk][4], segs[kk + 1][3])
                sgn = 1.0 if a1 > a0n else -1.0          # dip decreasing: the wedge opens below the surface
                bis = ((a1 + a0n) / 2)
                r = rng.uniform(0.15, 0.45) * (thj / 2 if fault else thj)
                u, v = u1 + sgn * r * (-math.sin(bis)), v1 + sgn * r * math.cos(bis)
                if v < 0:
                    u = rng.uniform(-150e3, 500e3); v = rng.uniform(0, 450e3)
            if pi >= npts:
                # deterministic probes just before the interior coordinate, a little below the start of the surface
                al = m * (1 - [0.01, 0.02, 0.03, 0.04, 0.05, 0.06][pi - npts])
                a0 = segs[0][1]
                t = rng.uniform(0.1, 0.6) * segs[0][0]
                u = t * math.cos(a0) + 3e3 * math.sin(a0); v = t * math.sin(a0) - 3e3 * math.cos(a0)
                if v < 0:
                    u, v = t * math.cos(a0), t * math.sin(a0)
            x = A[0] + (B[0] - A[0]) * al + nh[0] * u; y = A[1] + (B[1] - A[1]) * al + nh[1] * u
            d = mind + v
            pts.append((u, v, d, al))
            lines.append("dist w s %s %s %s %s" % (fhex(x), fhex(y), fhex(1000e3 - d), fhex(d)))
            lines.append(q3("w", [x, y, 1000e3 - d], d, [(4, 0, 0)]))
        rc, out, err = proto.run_harness(lines)
        if rc != 0 or len(out) != len(lines) or out[0] != "ok":
            viol.append({"what": "library failed: rc=%s %s %s" % (rc, out[:1], err[-200:]), "world_json": w}); continue
        tol = 1e-6 * ln
        kinked_reported = False
        for k, (u, v, d, al) in enumerate(pts):
            # three collinear coordinates: the library's trench curve overshoots the interior coordinate (recorded known finding); a mismatch whose foot lies near it
            # is attributed to that finding
            # (measured: the affected feet lie up to 9 % of the piece before the interior coordinate and up to 9 % of the piece after it; 12 % of the respective piece is attributed)
            joint = m is not None and ((m - al) < 0.12 * m if al <= m else (al - m) < 0.12 * (1 - m))
            best, second = planar(geo, (u, v))
            a = parse_answer(out[1 + 2 * k]); tg = parse_answer(out[2 + 2 * k])
            cases += 1
            if a[0] != "ok" or tg[0] != "ok":
                viol.append({"what": "query failed: %s %s" % (a, tg), "world_json": w, "cmd": lines[1 + 2 * k]}); break
            dl, al_ = a[1][0], a[1][1]
            kink = nearest_kink(geo, (u, v)) if m is None else None
            if kink is not None and (best is None or kink[0] < best[0] - (1e-6 * Ltot + 1.0)) and not kinked_reported:
                # the closest point of the surface is the kink itself (distance kink[0]); membership by the statement's ranges, with a 2 km margin on every bound
                (u1, v1, a1, a0n, s1, kk) = kink[3]
                thj = min(segs[kk][4], segs[kk + 1][3]); ttj = max(segs[kk][6], segs[kk + 1][5])
                if fault:
                    inside_k = kink[0] < thj / 2 - 2e3
                else:
                    inside_k = kink[1] and ttj + 2e3 < kink[0] < thj - 2e3
                if inside_k and d < maxd - 2e3 and tg[1][0] == -1.0:
                    kinked_reported = True
                    nontriv += 1
                    viol.append({"what": "%s: a point %.6g m from the kink between segments %d and %d (dips %.4g -> %.4g degrees; u=%.6g, v=%.6g in the perpendicular plane) lies within thickness %.6g of the surface but is "
                                         "not a member; distance_to_plane reports (%.9g, %.9g)" % ("fault" if fault else "slab", kink[0], kk, kk + 1, math.degrees(a1), math.degrees(a0n), u, v, thj, dl, al_),
                                 "world_json": w, "world": path, "cmd": lines[1 + 2 * k], "segments": w["features"][0]["segments"], "probe": "kink-wedge"})
                continue
            if best is None:
                continue        # no foot: the library reports infinity or a value from an end cap; not part of the statement
            if best[3] < 1e-6 * Ltot + 1.0 or (second is not None and abs(second[0] - best[0]) < 1e-6 * Ltot + 1.0):
                continue
            nontriv += 1
            def bad(msg):
                viol.append({"what": "%s: %s (u=%.6g, v=%.6g in the perpendicular plane; trench length %.4g, azimuth %.4g)" % ("fault" if fault else "slab", msg, u, v, ln, az), "world_json": w, "world": path,
                             "cmd": lines[1 + 2 * k], "segments": w["features"][0]["segments"], "probe": "collinear-trench-gap" if joint else ("collinear" if m is not None else "planar")})
            if not (abs(dl - best[1]) <= tol + 1e-9 * abs(best[1]) and abs(al_ - best[2]) <= tol + 1e-9 * abs(best[2])):
                bad("distance_to_plane reports (%.9g, %.9g), the planar construction gives (%.9g, %.9g)" % (dl, al_, best[1], best[2]))
                if joint:
                    continue
                break
            # membership: thickness / truncation interpolated along the winning piece
            s = best[2]; acc = 0.0
            for sg in segs:
                if s <= acc + sg[0] or sg is segs[-1]:
                    fr = (s - acc) / sg[0]
                    th = sg[3] + fr * (sg[4] - sg[3]); tt = sg[5] + fr * (sg[6] - sg[5]); break
                acc += sg[0]
            dd = best[1]
            inside = (abs(dd) <= th / 2) if fault else (tt <= dd <= th)
            near = min(abs(abs(dd) - th / 2) if fault else min(abs(dd - tt), abs(dd - th)), abs(d - maxd)) < 10 * tol + 1.0
            inside = inside and d <= maxd
            if near:
                continue
            got = tg[1][0] != -1.0
            if got != inside:
                bad("membership %s, construction says %s (distance %.9g, thickness %.6g, truncation %.6g, depth %.6g)" % (got, inside, dd, th, tt, d))
                if joint:
                    continue
                break
        if len(samples) < 2:
            samples.append({"world": w, "cmd": lines[1], "answer": out[1][:80]})
    # a point whose radial foot lies 5e-13 rad beyond the end of a circular piece (inside the 1e-12 rad tolerance of its sector test, so its along-distance exceeds the
    # piece's length and nothing is recorded), followed by a longer circular piece that does not contain the point: the answer is 'no foot' or the end of the first piece,
    # never the first piece's numbers recorded for the second one (upstream fix 7e53c3e5)
    for (l0, t0, b0, l1, t1, b1) in [(100e3, 30, 60, 150e3, 80, 85), (80e3, 20, 50, 250e3, 70, 75), (150e3, 45, 60, 250e3, 75, 80)]:
        w = {"version": "1.1", "features": [{"model": "subducting plate", "name": "s", "coordinates": [[0, -500e3], [0, 500e3]], "dip point": [1e7, 0], "min depth": 0, "max depth": 660e3,
                                              "segments": [{"length": l0, "thickness": [100e3], "angle": [t0, b0]}, {"length": l1, "thickness": [100e3], "angle": [t1, b1]}],
                                              "composition models": [{"model": "uniform", "compositions": [0]}]}]}
        path = os.path.join(wdir, "stale_%d.wb" % int(l0))
        json.dump(w, open(path, "w"))
        th0, be0 = math.radians(t0), math.radians(b0)
        r0 = l0 / (be0 - th0)
        lines, hs = ["world w %s -" % path], []
        for h in (10e3, -20e3, 35e3):
            for eps_ in (5e-13, 2e-13, 8e-13):
                psi = be0 + eps_
                u = -r0 * math.sin(th0) + (r0 + h) * math.sin(psi)
                v = r0 * math.cos(th0) - (r0 + h) * math.cos(psi)
                if v <= 0:
                    continue
                hs.append((h, u, v))
                lines.append("dist w s %s %s %s %s" % (fhex(u), fhex(0.0), fhex(1000e3 - v), fhex(v)))
        rc, out, err = proto.run_harness(lines)
        if rc != 0 or len(out) != len(lines) or out[0] != "ok":
            viol.append({"what": "library failed on the arc-end probes: rc=%s %s" % (rc, out[:1]), "world_json": w}); continue
        for (h, u, v), o in zip(hs, out[1:]):
            a = parse_answer(o); cases += 1
            if a[0] == "ok" and math.isfinite(a[1][1]) and a[1][1] > l0 + 1.0 and abs(abs(a[1][0]) - abs(h)) < 1.0:
                viol.append({"what": "slab: a point %.6g m %s the end of the first circular piece (u=%.12g, v=%.12g) is answered with distance along the plane %.9g: the first piece's numbers recorded for the second "
                                     "piece (the first piece is %.6g m long)" % (abs(h), "above" if h > 0 else "below", u, v, a[1][1], l0), "world_json": w, "world": path, "segments": w["features"][0]["segments"], "probe": "arc-end-stale"})
                break
    return {"violations": trim_violations(viol, 20), "summary": {"cases": cases, "violations": len(viol), "nontrivial": nontriv, "input_distribution": dist}, "samples": samples}


def correspondence(seed, tier):
    n = budget(tier, 25, 300)
    rs = [corr.run_corr(seed * 1000 + 60 + k, "C06_%d" % k, n, 25, {"with_random": False, "with_lines": True, "allow": ["subducting plate", "fault"]}) for k in range(budget(tier, 1, 3))]
    # the `dist` entry point on straight-trench worlds of the oracle's kind
    rng = random.Random(seed * 8191 + 66)
    wdir = proto.workdir("C06_struct")
    lines = []
    for wi in range(budget(tier, 10, 100)):
        w, segs, A, B, nh, ln, az, mind, maxd = make_case(rng, wi % 3 == 2)
        path = os.path.join(wdir, "s_%d.wb" % wi)
        json.dump(w, open(path, "w"))
        lines.append("world w %s -" % path)
        for _ in range(10):
            al = rng.uniform(0.03, 0.97); u = rng.uniform(-150e3, 500e3); v = rng.uniform(0, 450e3)
            x = A[0] + (B[0] - A[0]) * al + nh[0] * u; y = A[1] + (B[1] - A[1]) * al + nh[1] * u; d = mind + v
            lines.append("dist w s %s %s %s %s" % (fhex(x), fhex(y), fhex(1000e3 - d), fhex(d)))
            lines.append(q3("w", [x, y, 1000e3 - d], d, [(4, 0, 0), (2, 0, 0)]))
        lines.append("free w")
    rs.append(corr_lines(lines))
    return summarize_corr(rs)


def replay(rp):
    v = rp["violation"]
    print(json.dumps({k: v[k] for k in v if k != "world_json"}, indent=1)[:3000])
    return False
