"""Twin worlds: two features of one kind, side by side (disjoint footprints), carrying the SAME model type with DIFFERENT parameter values.
Anything a model keeps outside its own object (a function-local static, a cache shared between instances) makes one twin answer with the other's
parameters.  The oracle compares each twin's answers inside the two-feature world with the answers of the world that holds this twin alone,
obtained in a FRESH process (so that nothing evaluated earlier can have primed a shared state) - deletion of a non-covering feature (C02) and
independence of the history (C01)."""
import json, os, random
import proto
from common import q3, parse_answer

RIDGE_A = [[[-900e3, -2000e3], [-900e3, 2000e3]]]
RIDGE_B = [[[900e3, -2000e3], [880e3, 2000e3]]]

AREA_T = {
    "uniform": ({"temperature": 500}, {"temperature": 910.5}),
    "linear": ({"max depth": 150e3, "top temperature": 300, "bottom temperature": 1500}, {"max depth": 120e3, "top temperature": 420, "bottom temperature": 1250}),
    "adiabatic": ({"potential mantle temperature": 1500, "thermal expansion coefficient": 3e-5, "specific heat": 1000},
                  {"potential mantle temperature": 1700, "thermal expansion coefficient": 2.2e-5, "specific heat": 1300}),
}
KIND_T = {
    "continental plate": dict(AREA_T, chapman=({"max depth": 150e3, "top temperature": 293, "top heat flux": 0.055, "thermal conductivity": 2.5, "heat generation per unit volume": 1e-6},
                                               {"max depth": 150e3, "top temperature": 350, "top heat flux": 0.0625, "thermal conductivity": 3, "heat generation per unit volume": 5e-7})),
    "oceanic plate": dict(AREA_T, **{
        "half space model": ({"max depth": 150e3, "top temperature": 273, "bottom temperature": 1573, "spreading velocity": 0.05, "ridge coordinates": RIDGE_A},
                             {"max depth": 140e3, "top temperature": 300, "bottom temperature": 1650, "spreading velocity": 0.02, "ridge coordinates": RIDGE_B}),
        "plate model": ({"max depth": 150e3, "top temperature": 273, "bottom temperature": 1573, "spreading velocity": 0.05, "ridge coordinates": RIDGE_A},
                        {"max depth": 120e3, "top temperature": 300, "bottom temperature": 1650, "spreading velocity": 0.02, "ridge coordinates": RIDGE_B}),
        "plate model constant age": ({"max depth": 150e3, "top temperature": 273, "bottom temperature": 1573, "plate age": 2e7},
                                     {"max depth": 120e3, "top temperature": 300, "bottom temperature": 1650, "plate age": 8e7})}),
    "mantle layer": AREA_T,
}
AREA_C = {"uniform": ({"compositions": [0, 1], "fractions": [0.25, 1]}, {"compositions": [0, 1], "fractions": [0.75, 0.5]})}
LINE_T = {
    "uniform": ({"temperature": 500}, {"temperature": 910.5}),
    "linear": ({"top temperature": 300, "bottom temperature": 1500, "max distance slab top": 80e3}, {"top temperature": 450, "bottom temperature": 1200, "max distance slab top": 60e3}),
    "adiabatic": ({"potential mantle temperature": 1500, "thermal expansion coefficient": 3e-5, "specific heat": 1000},
                  {"potential mantle temperature": 1700, "thermal expansion coefficient": 2.2e-5, "specific heat": 1300}),
    "plate model": ({"plate velocity": 0.05, "density": 3300, "thermal conductivity": 2.5, "max distance slab top": 100e3},
                    {"plate velocity": 0.02, "density": 3000, "thermal conductivity": 3.3, "max distance slab top": 100e3}),
    "mass conserving": ({"spreading velocity": 0.05, "subducting velocity": 0.05, "ridge coordinates": RIDGE_A, "density": 3300, "thermal conductivity": 3.3, "coupling depth": 80e3,
                         "taper distance": 100e3, "min distance slab top": -100e3, "max distance slab top": 100e3, "apply spline": True, "number of points in spline": 5},
                        {"spreading velocity": 0.02, "subducting velocity": 0.03, "ridge coordinates": RIDGE_B, "density": 3000, "thermal conductivity": 2.5, "coupling depth": 100e3,
                         "taper distance": 50e3, "min distance slab top": -100e3, "max distance slab top": 100e3, "apply spline": True, "number of points in spline": 8}),
}
FAULT_T = {
    "uniform": ({"temperature": 500}, {"temperature": 910.5}),
    "linear": ({"center temperature": 300, "side temperature": 1500, "max distance fault center": 40e3}, {"center temperature": 450, "side temperature": 1200, "max distance fault center": 30e3}),
    "adiabatic": LINE_T["adiabatic"],
}
PLUME_T = {
    "uniform": ({"temperature": 1900}, {"temperature": 2105.5}),
    "gaussian": ({"depths": [0, 300e3], "centerline temperatures": [1900, 2000], "gaussian sigmas": [0.3, 0.5]}, {"depths": [0, 300e3], "centerline temperatures": [2100, 1800], "gaussian sigmas": [0.6, 0.2]}),
}


def catalogue():
    cat = []
    for kind, ms in KIND_T.items():
        for name, (a, b) in ms.items():
            cat.append((kind, "temperature models", name, a, b))
        cat.append((kind, "composition models", "uniform", AREA_C["uniform"][0], AREA_C["uniform"][1]))
    for name, (a, b) in LINE_T.items():
        cat.append(("subducting plate", "temperature models", name, a, b))
    for name, (a, b) in FAULT_T.items():
        cat.append(("fault", "temperature models", name, a, b))
    for name, (a, b) in PLUME_T.items():
        cat.append(("plume", "temperature models", name, a, b))
    return cat


def twin_world(kind, key, name, pa, pb):
    feats = []
    for nm, x0, par in (("A", -700e3, pa), ("B", 300e3, pb)):
        m = dict({"model": name}, **par)
        if kind in ("continental plate", "oceanic plate", "mantle layer"):
            f = {"model": kind, "name": nm, "coordinates": [[x0, -200e3], [x0 + 400e3, -200e3], [x0 + 400e3, 200e3], [x0, 200e3]], "min depth": 0, "max depth": 300e3, key: [m]}
        elif kind == "plume":
            cx = x0 + 200e3
            f = {"model": "plume", "name": nm, "coordinates": [[cx, 0], [cx + 10e3, 0]], "cross section depths": [0, 400e3], "semi-major axis": [150e3, 150e3], "eccentricity": [0, 0.2],
                 "rotation angles": [0, 30], "min depth": 0, "max depth": 400e3, key: [m]}
        else:
            f = {"model": kind, "name": nm, "coordinates": [[x0 + 50e3, -300e3], [x0 + 50e3, 300e3]], "dip point": [x0 + 1e6, 0], "min depth": 0, "max depth": 500e3,
                 "segments": [{"length": 300e3, "thickness": [100e3], "top truncation": [-100e3], "angle": [60]} if kind == "subducting plate" else {"length": 300e3, "thickness": [100e3], "angle": [90]}], key: [m]}
        feats.append(f)
    return {"version": "1.1", "features": feats}


def twin_queries(rng, kind, n):
    out = []
    for which, x0 in (("A", -700e3), ("B", 300e3)):
        for _ in range(n):
            d = rng.uniform(2e3, 140e3)
            if kind in ("continental plate", "oceanic plate", "mantle layer"):
                p = [x0 + rng.uniform(20e3, 380e3), rng.uniform(-180e3, 180e3)]
            elif kind == "plume":
                p = [x0 + 200e3 + rng.uniform(-60e3, 60e3), rng.uniform(-60e3, 60e3)]
            elif kind == "subducting plate":
                # slab dipping 60 degrees towards +x: its top at depth d lies at x = trench + d/tan(60); body on the trench side of it
                p = [x0 + 50e3 + d / 1.7320508 - rng.uniform(5e3, 60e3), rng.uniform(-250e3, 250e3)]
            else:
                p = [x0 + 50e3 + rng.uniform(-40e3, 40e3), rng.uniform(-250e3, 250e3)]
            out.append((which, [p[0], p[1], 1000e3 - d], d))
    return out


def twin_oracle(rng, tier_budget, wdir, viol, props=((1, 0, 0), (2, 0, 0), (2, 1, 0), (4, 0, 0))):
    """-> (cases, nontrivial).  A violation: a twin's answer in the two-feature world differs from the answer of the world holding it alone (fresh process)."""
    cases = nontriv = 0
    cat = catalogue()
    rng.shuffle(cat)
    for ci, (kind, key, name, pa, pb) in enumerate(cat[:tier_budget]):
        if rng.random() < 0.5:
            pa, pb = pb, pa
        w = twin_world(kind, key, name, pa, pb)
        tag = "%s_%s_%s" % (kind.replace(" ", "-"), key.split()[0], name.replace(" ", "-"))
        pw = os.path.join(wdir, "twin_%s.wb" % tag)
        json.dump(w, open(pw, "w"))
        qs = twin_queries(rng, kind, 6)
        rng.shuffle(qs)
        order = rng.choice(["A-first", "B-first", "mixed"])
        if order != "mixed":
            qs.sort(key=lambda q: (q[0] != order[0]))
        rc, out, err = proto.run_harness(["world w %s -" % pw] + [q3("w", p, d, list(props)) for (_, p, d) in qs])
        if rc != 0 or len(out) != 1 + len(qs) or out[0] != "ok":
            viol.append({"what": "library failed on a twin world (%s %s): rc=%s %s %s" % (kind, name, rc, out[:1], err[-200:]), "world_json": w}); continue
        for which in ("A", "B"):
            solo = dict(w, features=[f for f in w["features"] if f["name"] == which])
            ps = os.path.join(wdir, "twin_%s_%s.wb" % (tag, which))
            json.dump(solo, open(ps, "w"))
            idx = [i for i, q in enumerate(qs) if q[0] == which]
            rc2, out2, err2 = proto.run_harness(["world w %s -" % ps] + [q3("w", qs[i][1], qs[i][2], list(props)) for i in idx])
            if rc2 != 0 or len(out2) != 1 + len(idx):
                viol.append({"what": "library failed on a single-twin world (%s %s)" % (kind, name), "world_json": solo}); continue
            for k, i in enumerate(idx):
                cases += 1
                a, b = parse_answer(out[1 + i]), parse_answer(out2[1 + k])
                if a[0] == "ok" and a[1][-1] != -1.0:
                    nontriv += 1
                # tags are indices into each world's own tag list: compare everything but the tag, and the tag by presence
                same = a[0] == b[0] and (a[0] != "ok" or (a[1][:-1] == b[1][:-1] and (a[1][-1] == -1.0) == (b[1][-1] == -1.0)))
                if not same:
                    viol.append({"what": "%s / %s %s: twin %s answers %s inside the two-feature world (queries %s) but %s when it is alone in a fresh process - the other twin, which does not cover the point, "
                                         "changes the answer" % (kind, key.split()[0], name, which, a[1][:3] if a[0] == "ok" else a, order, b[1][:3] if b[0] == "ok" else b),
                                 "world_json": w, "solo_world_json": solo, "cmd": q3("w", qs[i][1], qs[i][2], list(props)), "probe": None})
                    break
    return cases, nontriv


TIAN = {"model": "tian water content", "compositions": [0], "lithology": "peridotite", "initial water content": 5, "cutoff pressure": 26}


def pair_oracle(rng, tier_budget, wdir, viol, props=((1, 0, 0), (2, 0, 0), (2, 1, 0), (4, 0, 0))):
    """Two WORLDS alive in one process that hold the same feature at the same place with different model parameters, queried alternately at bit-identical points:
    each world's answers must equal the answers of that world alone in a fresh process.  (Anything kept outside the world - a function-local static, a memo keyed
    on the position only - makes one world answer with the other's values.)  Oceanic plates and slabs also carry a `tian water content` composition, whose value
    depends on the world's own temperature at the point through a nested properties() call.  -> (cases, nontrivial)"""
    cases = nontriv = 0
    cat = [c for c in catalogue() if c[1] == "temperature models"]
    rng.shuffle(cat)
    for ci, (kind, key, name, pa, pb) in enumerate(cat[:tier_budget]):
        ws = {}
        for which, par in (("a", pa), ("b", pb)):
            w = twin_world(kind, key, name, par, par)
            w["features"] = w["features"][:1]
            if kind in ("oceanic plate", "subducting plate"):
                w["features"][0]["composition models"] = [dict(TIAN)]
            ws[which] = w
            json.dump(w, open(os.path.join(wdir, "pair_%d_%s.wb" % (ci, which)), "w"))
        qs = [(p, d) for (wh, p, d) in twin_queries(rng, kind, 6) if wh == "A"]
        lines = ["world a %s -" % os.path.join(wdir, "pair_%d_a.wb" % ci), "world b %s -" % os.path.join(wdir, "pair_%d_b.wb" % ci)]
        order = []
        for (p, d) in qs:
            pair = ["a", "b"] if rng.random() < 0.5 else ["b", "a"]
            for wh in pair:
                lines.append(q3(wh, p, d, list(props))); order.append((wh, p, d))
        rc, out, err = proto.run_harness(lines)
        if rc != 0 or len(out) != len(lines) or out[:2] != ["ok", "ok"]:
            viol.append({"what": "library failed on a world pair (%s %s): rc=%s %s %s" % (kind, name, rc, out[:2], err[-200:]), "world_json": ws["a"]}); continue
        for which in ("a", "b"):
            idx = [i for i, o in enumerate(order) if o[0] == which]
            rc2, out2, err2 = proto.run_harness(["world %s %s -" % (which, os.path.join(wdir, "pair_%d_%s.wb" % (ci, which)))] + [q3(which, order[i][1], order[i][2], list(props)) for i in idx])
            if rc2 != 0 or len(out2) != 1 + len(idx):
                viol.append({"what": "library failed on a single world of a pair (%s %s)" % (kind, name), "world_json": ws[which]}); continue
            for k, i in enumerate(idx):
                cases += 1
                a, b = parse_answer(out[2 + i]), parse_answer(out2[1 + k])
                if a[0] == "ok" and a[1][-1] != -1.0:
                    nontriv += 1
                if not (a[0] == b[0] and (a[0] != "ok" or a[1] == b[1])):
                    viol.append({"what": "%s / temperature %s%s: world %s answers %s while the other world is alive and was queried at the same point, but %s alone in a fresh process"
                                         % (kind, name, " + tian water content" if "composition models" in ws[which]["features"][0] else "", which, a[1][:3] if a[0] == "ok" else a, b[1][:3] if b[0] == "ok" else b),
                                 "world_json": ws[which], "other_world_json": ws["b" if which == "a" else "a"], "cmd": q3(which, order[i][1], order[i][2], list(props)), "probe": None})
                    break
    return cases, nontriv
