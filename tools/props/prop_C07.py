"""C07 — acceleration shortcuts never change an answer."""
import json, math, os, random
from common import *

LEVEL = "proof"
RULE = ("correspondence: worlds with slabs/faults (and area features with value-at-points depth surfaces), each built twice — shortcuts on, and off through the GWB_VERIF hook "
        "(model flag cull=false) — model vs library bit for bit. oracle (library only): the same world with the hook on and off must answer bit-identically at points biased "
        "to the culling boundaries: along the dip direction out to length+thickness, below the slab tip, around min depth + length, near the bounding-box edges, for curved trenches, "
        "min depth > 0, top truncation, both coordinate systems incl. trenches at 60-85 degrees latitude, N-S and E-W, and trenches crossing the +-180 meridian; the kd-guided triangle lookup of depth surfaces against affine nodal data (dense probes, surfaces written across the date line / 360 degrees away). "
        "non-trivial = a point inside the slab/fault with the shortcuts off.")
TRUSTED_BASE = ["the premise of C07_cull_equiv (a culled point is never a member) is not proved for arbitrary geometry; it is searched by the hook-on/hook-off oracle"]
ASSUMPTIONS = ["the hook replaces the bounding box by the default infinite box and the total length by +infinity; nothing else"]


def correspondence(seed, tier):
    rs = []
    for k in range(budget(tier, 1, 2)):
        rs.append(corr.run_corr(seed * 1000 + 70 + k, "C07_on_%d" % k, budget(tier, 20, 200), 30, {"with_random": False, "with_lines": True, "allow": ["subducting plate", "fault", "oceanic plate"]}))
        rs.append(corr.run_corr(seed * 1000 + 70 + k, "C07_off_%d" % k, budget(tier, 20, 200), 30, {"with_random": False, "with_lines": True, "allow": ["subducting plate", "fault", "oceanic plate"]}, nocull=True))
    return summarize_corr(rs)


def special_line_world(rng, g):
    """slab/fault aimed at the culling bounds: high latitude, dateline, long, min depth, shallow dips, top truncation"""
    kind = rng.choice(["subducting plate", "fault"])
    if g.spherical:
        lat = rng.choice([0, 30, 55, 70, 80, -65, -78])
        lon = rng.choice([0, 100, 170, 178, -179, -175])
        ns = rng.random() < 0.6
        L = rng.choice([3, 8, 15])
        if rng.random() < 0.35:
            # oblique trench dipping towards the pole: members sit at higher latitudes than the trench itself
            sgn = 1 if lat >= 0 else -1
            pts = [[lon - L, max(-85, min(85, lat - sgn * L))], [lon, lat], [lon + L, max(-85, min(85, lat + sgn * L * 0.8))]]
            dip = [lon - sgn * 25, max(-89, min(89, lat + sgn * 12))]
        elif ns:
            pts = [[lon, max(-85, min(85, lat - L))], [lon + rng.choice([0, 0.5, -1]), lat], [lon, max(-85, min(85, lat + L))]]
            dip = [lon + rng.choice([-20, 20]), lat]
        else:
            pts = [[lon - L, lat], [lon, lat + rng.choice([0, 0.5])], [lon + L, lat]]
            dip = [lon, max(-89, min(89, lat + rng.choice([-10, 10])))]
        if rng.random() < 0.4:
            pts = pts[:2]
        # drop duplicates
        pts = [p for i, p in enumerate(pts) if i == 0 or p != pts[i - 1]]
    else:
        az = rng.uniform(0, 2 * math.pi)
        L = rng.choice([100e3, 400e3])
        c = [rng.choice([0, 300e3, -500e3]), rng.choice([0, -200e3])]
        bend = rng.uniform(-0.9, 0.9)
        pts = [[round(c[0] - L * math.cos(az)), round(c[1] - L * math.sin(az))], [round(c[0]), round(c[1])],
               [round(c[0] + L * math.cos(az + bend)), round(c[1] + L * math.sin(az + bend))]]
        side = rng.choice([-1, 1])
        dip = [round(c[0] - side * 500e3 * math.sin(az)), round(c[1] + side * 500e3 * math.cos(az))]
    nseg = rng.choice([1, 2, 3])
    segs = []
    for i in range(nseg):
        a0 = rng.choice([5, 15, 30, 45, 60, 89, 120])
        segs.append({"length": rng.choice([100e3, 300e3, 800e3, 2000e3]), "thickness": [rng.choice([50e3, 100e3, 200e3])],
                     "angle": [a0] if rng.random() < 0.5 else [a0, rng.choice([10, 40, 70])]})
        if kind == "subducting plate" and rng.random() < 0.3:
            # incl. truncations that extend the slab above its surface by more than its thickness (the culling bounds must cover that side)
            segs[-1]["top truncation"] = [rng.choice([-50e3, -10e3, 20e3, -300e3, -500e3])]
            if rng.random() < 0.5:
                # two different values within the segment: the bounds have to cover the LARGER upward extension
                segs[-1]["top truncation"].append(rng.choice([-250e3, -20e3, 0, -400e3, -120e3]))
                if rng.random() < 0.5:
                    segs[-1]["top truncation"].reverse()
    f = {"model": kind, "name": "L", "coordinates": pts, "dip point": dip, "segments": segs,
         "min depth": rng.choice([0, 0, 50e3, 150e3, 300e3]), "max depth": rng.choice([1e7, 700e3]),
         "composition models": [{"model": "uniform", "compositions": [0]}], "temperature models": [{"model": "uniform", "temperature": 600}]}
    w = {"version": "1.1", "features": [f]}
    if g.spherical:
        w["coordinate system"] = {"model": "spherical", "depth method": rng.choice(["starting point", "begin segment", "begin at end segment"])}
    return w


def culling_queries(rng, g, w, n):
    f = w["features"][0]
    pts, dip = f["coordinates"], f["dip point"]
    total = sum(s["length"] for s in f["segments"])
    th = max(max(max(s["thickness"]), -min(s.get("top truncation", [0]))) for s in f["segments"])
    md = f.get("min depth", 0)
    out = []
    # broad sampling of the whole region the slab can reach (members are then identified by the shortcuts-off answer)
    for _ in range(n):
        base = rng.choice(pts)
        reach = (total + th) * 1.2
        d = md + rng.uniform(0, 1) * (total + th) * rng.choice([0.2, 0.6, 1.0])
        if g.spherical:
            ang = math.degrees(reach / max(1e5, 6371000.0 - d))
            coslat = max(0.03, math.cos(math.radians(base[1])))
            sp = [base[0] + rng.uniform(-1, 1) * ang / coslat, max(-89.9, min(89.9, base[1] + rng.uniform(-1, 1) * ang))]
            sp[0] = ((sp[0] + 180) % 360) - 180
        else:
            sp = [base[0] + rng.uniform(-1, 1) * reach, base[1] + rng.uniform(-1, 1) * reach]
        out.append((g.point3(sp, d), float(d)))
    for _ in range(n):
        i = rng.randrange(len(pts) - 1)
        t = rng.uniform(-0.1, 1.1)
        base = [pts[i][0] + t * (pts[i + 1][0] - pts[i][0]), pts[i][1] + t * (pts[i + 1][1] - pts[i][1])]
        dx, dy = dip[0] - base[0], dip[1] - base[1]
        nn = math.hypot(dx, dy) or 1.0
        reach = (total + th) * rng.choice([0.1, 0.5, 0.9, 1.0, 1.05, 1.3]) * rng.choice([1, 1, -0.2])
        if g.spherical:
            reach = math.degrees(reach / 6371000.0)
            coslat = max(0.05, math.cos(math.radians(base[1])))
            sp = [base[0] + reach * dx / nn / coslat, max(-89.9, min(89.9, base[1] + reach * dy / nn))]
            sp[0] = ((sp[0] + 180) % 360) - 180
        else:
            sp = [base[0] + reach * dx / nn, base[1] + reach * dy / nn]
        d = rng.choice([md, md + rng.uniform(0, total + th), md + total, md + total + th * rng.uniform(0, 1.2), total + th, rng.uniform(0, 50e3), md + 0.5 * total])
        out.append((g.point3(sp, d), float(d)))
    return out


def oracle(seed, tier):
    rng = random.Random(seed * 8191 + 7)
    wdir = proto.workdir("C07_oracle")
    viol, cases, nontriv, samples = [], 0, 0, []
    decl = json.load(open(proto.schema()[0]))
    worlds = []
    for wi in range(budget(tier, 60, 500)):
        g = WorldGen(random.Random(rng.getrandbits(64)), schema=decl, spherical=(wi % 3 != 0), with_lines=True)
        w = special_line_world(rng, g)
        g.radius = 6371000
        path = os.path.join(wdir, "s_%d.wb" % wi)
        json.dump(w, open(path, "w"))
        worlds.append((path, w, g, culling_queries(rng, g, w, budget(tier, 150, 400))))
    for (path, w, g) in gen_worlds(rng, wdir, "r", budget(tier, 10, 100), {"with_random": False, "with_lines": True, "allow": ["subducting plate", "fault"], "max_features": 3}):
        worlds.append((path, w, g, g.queries(w, budget(tier, 30, 60))))
    # bulging trenches: long chords with a sharp bend (the Bezier trench curve leaves the box of its coordinates by up to 0.15 chord lengths) and a slab or fault whose reach
    # (length + thickness) is much smaller than that bulge; probed on a dense lattice over the coordinates' box +- 120 km, near the surface
    class _Cart:
        spherical = False
    for bi in range(budget(tier, 4, 30)):
        L = rng.choice([600e3, 1000e3, 1500e3])
        # the first chord along a coordinate axis: it is then an edge of the coordinates' box and the curve bulges across it, away from the third coordinate
        az = rng.choice([0.0, 0.5 * math.pi, math.pi, 1.5 * math.pi]) if bi % 4 != 3 else rng.uniform(0, 2 * math.pi)
        bend = math.radians(rng.choice([50, 65, 73.74, -60, -73.74]))
        A = [rng.uniform(-5e5, 5e5), rng.uniform(-5e5, 5e5)]
        B = [A[0] + L * math.cos(az), A[1] + L * math.sin(az)]
        C = [B[0] + L * math.cos(az + bend), B[1] + L * math.sin(az + bend)]
        kind = rng.choice(["subducting plate", "fault"])
        side = rng.choice([-1, 1])
        w = {"version": "1.1", "features": [{"model": kind, "name": "b", "coordinates": [A, B, C], "dip point": [B[0] - side * 1e6 * math.sin(az), B[1] + side * 1e6 * math.cos(az)],
                                             "segments": [{"length": rng.choice([20e3, 40e3]), "thickness": [rng.choice([10e3, 20e3])], "angle": [rng.choice([45, 90])]}],
                                             "composition models": [{"model": "uniform", "compositions": [0]}]}]}
        path = os.path.join(wdir, "bulge_%d.wb" % bi)
        json.dump(w, open(path, "w"))
        # a band of +-0.16 chord lengths around each chord, 3 km apart across it (the slab is 10-20 km thick): the curve and the slab body along it are inside the band
        qs = []
        for (P, Q) in ((A, B), (B, C)):
            ux, uy = (Q[0] - P[0]) / L, (Q[1] - P[1]) / L
            nt = budget(tier, 50, 90)
            for i in range(nt):
                t = (i + 0.5) / nt
                o = -0.16 * L
                while o <= 0.16 * L:
                    d = rng.choice([1e3, 4e3, 9e3])
                    qs.append(([P[0] + ux * L * t - uy * o, P[1] + uy * L * t + ux * o, 1000e3 - d], d))
                    o += 3e3
        worlds.append((path, w, _Cart(), qs))
    # halo slabs: a negative top truncation with two different values in one segment extends the slab above its surface by more than its thickness, more at one end than at
    # the other; short, moderately dipping slabs whose halo reaches beyond (length + thickness) horizontally and upwards; lattice over the whole reach on two cross sections
    for hi in range(budget(tier, 4, 30)):
        fixed = [[(300e3, 50e3, [-50e3, -250e3], 45)], [(200e3, 30e3, [-400e3, 0], 30)], [(150e3, 50e3, [-120e3, -400e3], 60)], [(150e3, 50e3, [-250e3, -50e3], 45), (150e3, 30e3, [-50e3, -250e3], 30)]]
        if hi < len(fixed):
            cfg = fixed[hi]
        else:
            cfg = [(rng.choice([150e3, 200e3, 300e3]), rng.choice([30e3, 50e3]), rng.sample([-50e3, -250e3, -400e3, -120e3, 0], 2), rng.choice([30, 45, 60])) for _ in range(rng.choice([1, 1, 2]))]
        segs = [{"length": l, "thickness": [t], "top truncation": tt, "angle": [a]} for (l, t, tt, a) in cfg]
        w = {"version": "1.1", "features": [{"model": "subducting plate", "name": "h", "coordinates": [[0, -500e3], [0, 500e3]], "dip point": [rng.choice([1e7, -1e7]), 0], "segments": segs,
                                             "min depth": rng.choice([0, 0, 30e3]),
                                             "temperature models": [{"model": "uniform", "temperature": 600, "min distance slab top": -1e6}],
                                             "composition models": [{"model": "uniform", "compositions": [0], "min distance slab top": -1e6}]}]}
        path = os.path.join(wdir, "halo_%d.wb" % hi)
        json.dump(w, open(path, "w"))
        sgn = 1 if w["features"][0]["dip point"][0] > 0 else -1
        reach = sum(sg["length"] for sg in segs) + 450e3
        qs = []
        x = -200e3
        while x <= reach:
            d = 0.0
            while d <= reach:
                qs.append(([sgn * x, rng.choice([0.0, 200e3]), 1000e3 - d], d))
                d += 15e3
            x += 15e3
        worlds.append((path, w, _Cart(), qs))
    lines, meta = [], []
    props = [(4, 0, 0), (1, 0, 0), (2, 0, 0), (2, 1, 0), (5, 0, 0)]
    for wi, (path, w, g, qs) in enumerate(worlds):
        lines += ["world a %s -" % path, "world b %s - nocull" % path]; meta += [None, None]
        for (p, d) in qs:
            lines.append(q3("a", p, d, props)); meta.append(("on", wi))
            lines.append(q3("b", p, d, props)); meta.append(("off", wi))
        lines += ["free a", "free b"]; meta += [None, None]
    rc, out, err = proto.run_harness(lines)
    if rc != 0 or len(out) != len(lines):
        viol.append({"what": "library crashed", "stderr": err[-300:], "next_cmd": lines[len(out)] if len(out) < len(lines) else None})
    for i in range(len(out) - 1):
        m = meta[i]
        if m is None or m[0] != "on":
            continue
        cases += 1
        a, b = out[i], out[i + 1]
        pb = parse_answer(b)
        if pb[0] == "ok" and pb[1][0] != -1.0:
            nontriv += 1
        if a != b:
            path, w, g, _ = worlds[m[1]]
            viol.append({"what": "shortcuts on: %s ; shortcuts off: %s" % (a[:120], b[:120]), "world": path, "world_json": w, "cmd": lines[i]})
        elif len(samples) < 3 and pb[0] == "ok" and pb[1][0] != -1.0:
            samples.append({"world": worlds[m[1]][0], "cmd": lines[i], "answer": a[:120]})
    # ---- the nearest-triangle search of depth surfaces must be a pure optimisation: affine nodal data make the brute-force answer known (the affine value whatever
    #      triangle contains the point); dense probes on surfaces with many nodes written across the date line / 360 degrees away also reach the full-scan fallback
    import prop_C11
    sviol = []
    c_, n_ = prop_C11.far_longitude_surfaces(random.Random(seed * 131 + 77), tier, proto.workdir("C07_surfaces"), sviol)
    for v in sviol:
        v["what"] = "triangle lookup of a depth surface: " + v["what"]
    viol += sviol
    cases += c_; nontriv += n_
    return {"violations": trim_violations(viol, 20), "summary": {"cases": cases, "violations": len(viol), "nontrivial": nontriv, "surface_lookup_probes": c_}, "samples": samples}


def replay(rp):
    v = rp["violation"]
    wdir = proto.workdir("C07_replay")
    path = os.path.join(wdir, "replay.wb")
    json.dump(v["world_json"], open(path, "w"))
    c = v["cmd"].split()
    ca = " ".join([c[0], "a"] + c[2:]); cb = " ".join([c[0], "b"] + c[2:])
    rc, out, err = proto.run_harness(["world a %s -" % path, "world b %s - nocull" % path, ca, cb])
    print("\n".join(out))
    return rc == 0 and len(out) == 4 and out[2] == out[3]
