"""C14 — concurrent queries are race-free and gwb-grid output does not depend on -j."""
import json, os, random, shutil, subprocess, hashlib
from common import *
import build_repo
import twins

LEVEL = "proof"
RULE = ("correspondence: gwb-grid's own ThreadPool::parallel_for (source/gwb-grid/main.cc compiled into the harness) run on (start, end, threads) triples — all of start 0..2, "
        "length 0..24, threads 1..40 (quick: a random third of them) plus large random ones — the index ranges actually executed by the threads (and 'every index exactly once') "
        "compared with the Lean model parallelForSlices. oracle: (a) 2..32 threads issue shuffled query streams (locations revisited back to back) against one generated world "
        "without random models and every answer is compared bit for bit with the single-threaded answer (thorough: the same under ThreadSanitizer); (b) gwb-grid built from the tree "
        "run with -j 1,2,3,5,8,13,40 on small and awkward grids (node counts not divisible by the thread count, more threads than nodes): the .vtu files must be byte-identical. "
        "non-trivial = a triple with at least two ranges / a world with features / a -j > 1 run.")
TRUSTED_BASE = ["race-freedom of the compiled library (no write to shared memory in a const query; std::thread start/join happens-before) is NOT a theorem: it is explored by answer comparison under concurrency and, in the thorough tier, ThreadSanitizer",
                "harness/parfor.cc reconstructs the executed ranges from std::thread ids"]
ASSUMPTIONS = ["worlds without random models", "thread counts >= 1 (pool.size() = 0 divides by zero in parallel_for and is outside the property's quantifier)"]


def correspondence(seed, tier):
    rng = random.Random(seed * 131 + 14)
    triples = [(s, s + n, p) for s in range(0, 3) for n in range(0, 25) for p in range(1, 41)]
    exhaustive = tier == "thorough"
    if not exhaustive:
        triples = rng.sample(triples, len(triples) // 3)
    triples += [(rng.randint(0, 50), 0, rng.randint(1, 40)) for _ in range(budget(tier, 40, 400))]
    triples = [(s, max(s, e) if e else s + rng.randint(0, 3000), p) for (s, e, p) in triples]
    h = build_repo.compile_harness(os.path.join(proto.VERIF, "harness", "parfor.cc"), extra_flags=["-I" + os.path.join(build_repo.REPO, "source", "gwb-grid"), "-Wno-unused"])
    r = subprocess.run([h], input="".join("%d %d %d\n" % t for t in triples), stdout=subprocess.PIPE, stderr=subprocess.PIPE, text=True, timeout=3000)
    impl = r.stdout.strip().split("\n")
    rc, model, err = proto.run_driver(["parfor %d %d %d" % t for t in triples])
    mism, nontriv = [], 0
    if r.returncode != 0 or len(impl) != len(triples) or len(model) != len(triples):
        mism.append({"what": "parallel_for harness or driver died (%s, %d/%d/%d)" % (r.returncode, len(impl), len(model), len(triples)), "scope": "parallel_for"})
    for t, a, b in zip(triples, impl, model):
        ranges, once = a.split(" | ") if " | " in a else (a, "?")
        if len(ranges.split()) > 4:
            nontriv += 1
        if ranges.strip() != b.strip() or once != "once":
            mism.append({"what": "parallel_for(%d,%d) with %d threads: executed ranges '%s' (%s), model '%s'" % (t[0], t[1], t[2], ranges, once, b), "scope": "parallel_for", "triple": t,
                         "is_property_violation": once != "once", "cmd": "parfor %d %d %d" % t})
    return {"summary": {"cases": len(triples), "mismatches": len(mism), "nontrivial": nontriv, "exhaustive": exhaustive, "values_compared": len(triples), "bit_identical": len(triples) - len(mism),
                        "bit_identical_share": (len(triples) - len(mism)) / max(1, len(triples))},
            "mismatches": mism, "samples": [{"triple": triples[i], "impl": impl[i] if i < len(impl) else None, "model": model[i] if i < len(model) else None} for i in range(min(3, len(triples)))]}


GRIDS = [
    ("cartesian", 2, {"x_min": 0, "x_max": 700e3, "z_min": 300e3, "z_max": 1000e3, "n_cell_x": 7, "n_cell_z": 5}),
    ("cartesian", 3, {"x_min": -300e3, "x_max": 300e3, "y_min": -300e3, "y_max": 300e3, "z_min": 500e3, "z_max": 1000e3, "n_cell_x": 4, "n_cell_y": 3, "n_cell_z": 5}),
    ("cartesian", 2, {"x_min": 0, "x_max": 100e3, "z_min": 900e3, "z_max": 1000e3, "n_cell_x": 1, "n_cell_z": 1}),
    ("chunk", 3, {"x_min": -20, "x_max": 20, "y_min": -15, "y_max": 15, "z_min": 5871000, "z_max": 6371000, "n_cell_x": 5, "n_cell_y": 3, "n_cell_z": 4}),
    ("annulus", 2, {"x_min": 0, "x_max": 0, "z_min": 5371000, "z_max": 6371000, "n_cell_x": 11, "n_cell_z": 3}),
]


def write_grid(path, gtype, dim, opts, compositions):
    with open(path, "w") as f:
        f.write("grid_type = %s\ndim = %d\ncompositions = %d\nvtu_output_format = ASCII\n" % (gtype, dim, compositions))
        for k, v in opts.items():
            f.write("%s = %s\n" % (k, repr(v) if isinstance(v, float) else v))


def oracle(seed, tier):
    rng = random.Random(seed * 733 + 14)
    wdir = proto.workdir("C14_oracle")
    viol, cases, nontriv, samples = [], 0, 0, []
    # ---- (a) concurrent queries
    variants = ["plain"] + (["tsan"] if tier == "thorough" else [])
    worlds = gen_worlds(rng, wdir, "t", budget(tier, 6, 30), {"with_random": False, "with_lines": True, "max_features": 5})
    # structured worlds so that every model type is evaluated by several threads at once: the twin catalogue (one world per feature kind x model type, incl. the slab-only
    # temperatures with the spline) with query streams inside the features
    class _TwinGen:
        def __init__(self, kind):
            self.kind = kind
        def queries(self, w, n):
            qs = [(p, d) for (_, p, d) in twins.twin_queries(rng, self.kind, max(3, n // 6))]
            return [qs[i % len(qs)] for i in range(n)]          # few locations, revisited by many threads
        def props(self, n):
            return rng.choice([[(1, 0, 0)], [(1, 0, 0), (2, 0, 0), (4, 0, 0)], [(2, 1, 0), (1, 0, 0)]])
    cat = twins.catalogue()
    rng.shuffle(cat)
    for ci, (kind, key, name, pa, pb) in enumerate(cat):
        tw = twins.twin_world(kind, key, name, pa, pb)
        tp = os.path.join(wdir, "twin_%d.wb" % ci)
        json.dump(tw, open(tp, "w"))
        worlds.append((tp, tw, _TwinGen(kind)))
    for variant in variants:
        h = build_repo.compile_harness(os.path.join(proto.VERIF, "harness", "threads.cc"), variant)
        for wi, (path, w, g) in enumerate(worlds):
            qs = g.queries(w, budget(tier, 120, 300))
            qf = os.path.join(wdir, "t_%d.q" % wi)
            with open(qf, "w") as f:
                for (p, d) in qs:
                    f.write("%s %s %s\n" % (" ".join(fhex(v) for v in p), fhex(d), props_str(g.props(4))))
            for nthreads in ([2, 8, 32] if tier != "thorough" else [2, 3, 8, 16, 32]):
                env = dict(os.environ, TSAN_OPTIONS="halt_on_error=0 exitcode=66")
                r = subprocess.run([h, path, qf, str(nthreads), str(budget(tier, 3, 6) if variant == "plain" else 1), str(seed)], stdout=subprocess.PIPE, stderr=subprocess.PIPE, text=True, env=env, timeout=3000)
                cases += 1
                if w["features"]:
                    nontriv += 1
                out = r.stdout.strip().split()
                if out[:1] == ["err"] and "AssertThrow" in r.stdout and nthreads == ([2, 8, 32] if tier != "thorough" else [2, 3, 8, 16, 32])[0]:
                    break               # the generator produced a world the library refuses to construct (nothing to query)
                races = r.stderr.count("WARNING: ThreadSanitizer: data race")
                if r.returncode != 0 or out[:1] != ["ok"] or out[2] != "0" or races:
                    viol.append({"what": "concurrent queries (%d threads, %s build): %s; %d data-race reports" % (nthreads, variant, r.stdout.strip()[:200] or ("exit %d" % r.returncode), races),
                                 "world": path, "world_json": w, "queries_file": qf, "threads": nthreads, "stderr": r.stderr[:1500]})
                    break
                if len(samples) < 2:
                    samples.append({"world": path, "threads": nthreads, "result": r.stdout.strip(), "variant": variant})
    # ---- (b) gwb-grid -j
    bdir = build_repo.build("apps")
    grid_bin = os.path.join(bdir, "bin", "gwb-grid")
    gworlds = gen_worlds(rng, wdir, "g", budget(tier, 3, 12), {"with_random": False, "with_lines": True, "max_features": 4, "spherical": False})
    sworlds = gen_worlds(rng, wdir, "s", budget(tier, 2, 8), {"with_random": False, "with_lines": True, "max_features": 3, "spherical": True})
    for gi, (gtype, dim, opts) in enumerate(GRIDS):
        pool = gworlds if gtype == "cartesian" else sworlds
        for wi, (path, w, g) in enumerate(pool):
            if dim == 2 and "cross section" not in w:
                w = dict(w); w["cross section"] = [[0, 0], [100e3 if gtype == "cartesian" else 10, 0]]
            ref = None
            for j in [1, 2, 3, 5, 8, 13, 40]:
                rd = os.path.join(wdir, "grid_%d_%d_j%d" % (gi, wi, j))
                shutil.rmtree(rd, ignore_errors=True); os.makedirs(rd)
                wp = os.path.join(rd, "w.wb"); json.dump(w, open(wp, "w"))
                gp = os.path.join(rd, "w.grid"); write_grid(gp, gtype, dim, opts, 3)
                r = subprocess.run([grid_bin, "-j", str(j), wp, gp], cwd=rd, stdout=subprocess.PIPE, stderr=subprocess.PIPE, text=True, timeout=600)
                vt = os.path.join(rd, "w.vtu")
                cases += 1
                if j > 1:
                    nontriv += 1
                if r.returncode != 0 or not os.path.exists(vt):
                    if ref is None and j == 1:
                        ref = ("fail", r.stderr[:200]); continue
                    if ref and ref[0] == "fail":
                        continue
                    viol.append({"what": "gwb-grid -j %d failed (%s) where -j 1 succeeded" % (j, r.stderr[:200]), "world_json": w, "grid": [gtype, dim, opts]}); break
                dig = hashlib.sha256(open(vt, "rb").read()).hexdigest()
                if ref is None:
                    ref = ("ok", dig)
                elif ref[0] == "ok" and dig != ref[1]:
                    viol.append({"what": "gwb-grid output with -j %d differs from -j 1 (%s grid, dim %d)" % (j, gtype, dim), "world_json": w, "grid": [gtype, dim, opts], "threads": j}); break
                shutil.rmtree(rd, ignore_errors=True)
            if len(samples) < 4 and ref:
                samples.append({"grid": [gtype, dim, opts], "world": path, "j1": ref})
    return {"violations": trim_violations(viol, 20), "summary": {"cases": cases, "violations": len(viol), "nontrivial": nontriv}, "samples": samples}


def replay(rp):
    print(json.dumps(rp["violation"], indent=1)[:3000])
    return False
