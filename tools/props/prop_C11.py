"""C11 — depth surfaces given at points are honoured, affine-exact and bounded."""
import json, math, os, random
from common import *

LEVEL = "proof"
RULE = ("correspondence: area features whose min/max depths (feature and models) are value-at-points surfaces (triangulation and kd order dumped from the library through the GWB_VERIF "
        "hook and checked against the model's own nodes), model vs library bit for bit. oracle (library only), both coordinate systems, all coordinates non-zero: "
        "(a) nodal values sampled from one affine function (corners listed or defaulted consistently, extra interior points): the switch-on depth of the feature at random interior "
        "points must be the affine value (tested 1e-6 relative above / below it); (b) arbitrary nodal values: at every listed point the depth used is the listed value, at unlisted corners "
        "the default, a listed value on a corner replaces the default; (c) everywhere inside the polygon the depth used lies between the least and greatest nodal value. "
        "non-trivial = a probe at a point inside the polygon.")
TRUSTED_BASE = ["delaunator (any valid triangulation) and libstdc++ nth_element (kd order) are inputs of the model, dumped from the library under test",
                "the absolute 1e4*eps acceptance tolerance of in_triangle is covered by the *_tolerant theorems only"]
ASSUMPTIONS = ["probes keep a relative margin of 1e-6 from the surface (floating-point interpolation)"]


def correspondence(seed, tier):
    rs = [corr.run_corr(seed * 1000 + 110 + k, "C11_%d" % k, budget(tier, 30, 300), 30,
                        {"with_random": False, "max_features": 2, "allow": ["continental plate", "oceanic plate", "mantle layer"]}) for k in range(budget(tier, 1, 3))]
    return summarize_corr(rs)


def convex_polygon(rng, c, rad, n, step):
    angs = sorted(rng.uniform(0, 2 * math.pi) for _ in range(n))
    pts = []
    for a in angs:
        p = [round((c[0] + rad * math.cos(a)) / step) * step, round((c[1] + rad * math.sin(a)) / step) * step]
        if not pts or pts[-1] != p:
            pts.append(p)
    # rounding to the lattice can make the polygon non-convex, self-intersecting or a sliver: keep strictly convex ones with a sensible area only
    def strictly_convex(ps):
        k = len(ps)
        cr = [(ps[(i + 1) % k][0] - ps[i][0]) * (ps[(i + 2) % k][1] - ps[(i + 1) % k][1]) - (ps[(i + 1) % k][1] - ps[i][1]) * (ps[(i + 2) % k][0] - ps[(i + 1) % k][0]) for i in range(k)]
        area2 = abs(sum(ps[i][0] * ps[(i + 1) % k][1] - ps[(i + 1) % k][0] * ps[i][1] for i in range(k)))
        return all(v > 0.02 * rad * rad for v in cr) and area2 > 0.5 * rad * rad
    if len(pts) >= 3 and len(set(map(tuple, pts))) == len(pts) and strictly_convex(pts):
        return pts
    return convex_polygon(rng, c, rad, n, step)


def inside_point(rng, corners):
    w = [rng.random() + 0.05 for _ in corners]
    s = sum(w)
    return [sum(wi * p[0] for wi, p in zip(w, corners)) / s, sum(wi * p[1] for wi, p in zip(w, corners)) / s]


def point3(sph, sp, d):
    if sph:
        rr = 6371000.0 - d
        lo, la = math.radians(sp[0]), math.radians(sp[1])
        cl = rr * math.sin(0.5 * math.pi - la)
        return [cl * math.cos(lo), cl * math.sin(lo), rr * math.cos(0.5 * math.pi - la)]
    return [sp[0], sp[1], 1000e3 - d]


def far_longitude_surfaces(rng, tier, wdir, viol):
    """-> (cases, nontrivial).  Appends violations to `viol`."""
    cases = nontriv = 0
    kinds = ["continental plate", "oceanic plate", "mantle layer"]
        # ---- dense probes of surfaces with many nodes whose longitudes are written across the date line or 360 degrees away from the query longitude: the triangle lookup
    #      then goes through its alias passes and, for points the kd-guided search does not find, through the full-scan fallback (about 1 % of the positions)
    for fi, (lon0, width) in enumerate([(170.0, 20.0), (185.0, 30.0), (-200.0, 25.0), (150.0, 25.0)][:budget(tier, 4, 4)]):
        kind = kinds[fi % 3]
        lat0 = rng.choice([-30.0, 5.0, 25.0])
        corners = [[lon0, lat0], [lon0 + width, lat0 + 1.0], [lon0 + width - 1.5, lat0 + 18.0], [lon0 + 0.5, lat0 + 16.5]]
        extra = []
        while len(extra) < 8:
            q = [lon0 + width * rng.uniform(0.12, 0.88), lat0 + 17.0 * rng.uniform(0.15, 0.85)]
            q = [round(q[0] * 4) / 4, round(q[1] * 4) / 4]
            if q not in extra:
                extra.append(q)
        which = ["max depth", "min depth"][fi % 2]
        base = 150e3 if which == "max depth" else 40e3
        bx, by = rng.choice([-600.0, 400.0, 900.0]), rng.choice([-500.0, 700.0])
        f = lambda p: base + bx * (p[0] - lon0) + by * (p[1] - lat0)
        feat = {"model": kind, "name": "f", "coordinates": corners, which: [[f(p), [p]] for p in corners + extra], "composition models": [{"model": "uniform", "compositions": [0]}]}
        feat["min depth" if which == "max depth" else "max depth"] = 0 if which == "max depth" else 400e3
        w = {"version": "1.1", "coordinate system": {"model": "spherical", "depth method": "begin segment"}, "features": [feat]}
        path = os.path.join(wdir, "far_%d.wb" % fi)
        json.dump(w, open(path, "w"))
        lines, meta = ["world w %s -" % path], [None]
        ngrid = budget(tier, 22, 45)
        for i in range(ngrid):
            for j in range(ngrid):
                sp = [lon0 + width * (0.1 + 0.8 * (i + 0.37) / ngrid), lat0 + 17.0 * (0.12 + 0.76 * (j + 0.61) / ngrid)]
                val = f(sp)
                m = abs(val) * 1e-6 + 1e-2
                for d, above in ((val - m, False), (val + m, True)):
                    exp_inside = above if which == "min depth" else (not above)
                    lines.append(q3("w", point3(True, sp, d), d, [(4, 0, 0)])); meta.append((sp, d, exp_inside))
        rc, out, err = proto.run_harness(lines)
        if rc != 0 or len(out) != len(lines) or not out[0].startswith("ok"):
            viol.append({"what": "library failed on a far-longitude surface world: rc=%s %s" % (rc, out[:1]), "world_json": w}); continue
        for i, mm in enumerate(meta):
            if mm is None:
                continue
            a = parse_answer(out[i]); cases += 1; nontriv += 1
            got = a[0] == "ok" and a[1][0] != -1.0
            if a[0] != "ok" or got != mm[2]:
                viol.append({"what": "%s %s over longitudes %g..%g with 12 nodes sampled from one affine function: at surface point %s depth %r the feature is %s, the affine depth says %s" % (
                    kind, which, lon0, lon0 + width, [round(v, 4) for v in mm[0]], mm[1], out[i][:40] if a[0] != "ok" else ("present" if got else "absent"), "present" if mm[2] else "absent"),
                    "world_json": w, "cmd": lines[i]})
                break

    return cases, nontriv


def oracle(seed, tier):
    rng = random.Random(seed * 524287 + 11)
    wdir = proto.workdir("C11_oracle")
    viol, cases, nontriv, samples = [], 0, 0, []
    kinds = ["continental plate", "oceanic plate", "mantle layer"]
    for wi in range(budget(tier, 36, 360)):
        sph = wi % 2 == 1
        kind = kinds[wi % 3]
        mode = ["affine", "listed", "bounded"][(wi // 6) % 3]
        step = 0.5 if sph else 1000.0
        c = [rng.choice([20, -60, 150, 179]) if sph else rng.choice([200e3, -350e3, 800e3]), rng.choice([10, -35, 50]) if sph else rng.choice([150e3, -500e3])]
        rad = rng.choice([4, 8]) if sph else rng.choice([100e3, 200e3])
        corners = convex_polygon(rng, c, rad, rng.choice([3, 4, 5, 6]), step)
        if any(v == 0 for p in corners for v in p):
            continue                       # zero coordinates: recorded finding, probed separately
        which = rng.choice(["min depth", "max depth"])
        base = 20e3 if which == "min depth" else 150e3
        default = 0.0 if which == "min depth" else 1.7976931348623157e308
        extra = [inside_point(rng, corners) for _ in range(rng.choice([0, 1, 2, 3]))]
        extra = [[round(p[0] / step) * step, round(p[1] / step) * step] for p in extra]
        extra = [p for i, p in enumerate(extra) if p not in corners and p not in extra[:i] and all(v != 0 for v in p)]   # no point listed twice (which value wins is order dependent)
        if mode == "affine":
            bx, by = rng.choice([-100, 0, 50, 200]) * (1000.0 / step) * 1e-3 * (1 if not sph else 1e3), rng.choice([-50, 0, 100]) * (1000.0 / step) * 1e-3 * (1 if not sph else 1e3)
            f = lambda p: base + bx * (p[0] - c[0]) + by * (p[1] - c[1])
            nodes = [(p, f(p)) for p in corners + extra]
        else:
            f = None
            listed_corners = [p for p in corners if rng.random() < 0.5] if which == "min depth" else list(corners)
            nodes = [(p, base + rng.choice([-10e3, 0, 5e3, 15e3, 30e3])) for p in listed_corners + extra]
        entry = [[v, [p]] for (p, v) in nodes]
        rng.shuffle(entry)
        # non-affine modes, every other world: an entry WITHOUT points somewhere in the list.  It sets the polygon corners (and only those) to its value at that place
        # in the order; listed points before it keep their values unless they are corners, corners listed after it are replaced again.
        pointless = None
        if f is None and rng.random() < 0.5 and len(entry) >= 1:
            pointless = (rng.randint(0, len(entry)), base + rng.choice([-5e3, 10e3, 25e3]))
            entry.insert(pointless[0], [pointless[1]])
            cur = dict((tuple(p), default) for p in corners)
            for e in entry:
                if len(e) == 1:
                    for p in corners:
                        cur[tuple(p)] = e[0]
                else:
                    for p in e[1]:
                        cur[tuple(p)] = e[0]
            nodes = [(list(k), v) for k, v in cur.items()]
        feat = {"model": kind, "name": "f", "coordinates": corners, "composition models": [{"model": "uniform", "compositions": [0]}]}
        feat[which] = entry
        other = "max depth" if which == "min depth" else "min depth"
        feat[other] = 400e3 if other == "max depth" else 0
        w = {"version": "1.1", "features": [feat]}
        if sph:
            w["coordinate system"] = {"model": "spherical", "depth method": "begin segment"}
        path = os.path.join(wdir, "w_%d.wb" % wi)
        json.dump(w, open(path, "w"))
        nodal = dict((tuple(p), v) for (p, v) in nodes)
        for p in corners:
            nodal.setdefault(tuple(p), default)
        vals = [v for v in nodal.values()]
        lo, hi = min(vals), max(vals)
        lines, meta = ["world w %s -" % path], [None]
        def probe(sp, surface_value, label):
            # the feature switches on (min depth) / off (max depth) at the surface value
            m = abs(surface_value) * 1e-6 + 1e-2
            for d, above in ((surface_value - m, False), (surface_value + m, True)):
                if d < 0 or d > 399e3:
                    continue
                exp_inside = above if which == "min depth" else (not above)
                lines.append(q3("w", point3(sph, sp, d), d, [(4, 0, 0)])); meta.append((sp, d, exp_inside, label))
        if mode == "affine":
            for _ in range(budget(tier, 12, 30)):
                sp = inside_point(rng, corners)
                probe(sp, f(sp), "affine value %r" % f(sp))
        elif mode == "listed":
            for (p, v) in nodal.items():
                if v < 1e300:
                    # step a hair towards the centroid so that the probe is strictly inside the polygon; nodal data nearby differ by O(1e-7) relative
                    cx = sum(q[0] for q in corners) / len(corners); cy = sum(q[1] for q in corners) / len(corners)
                    sp = [p[0] + 1e-9 * (cx - p[0]), p[1] + 1e-9 * (cy - p[1])]
                    probe(sp, v, "nodal value %r at %s (%s)" % (v, list(p), "listed" if list(p) in [list(q) for q, _ in nodes] else "default corner"))
        else:
            if hi < 1e300:
                for _ in range(budget(tier, 12, 30)):
                    sp = inside_point(rng, corners)
                    m = 1e-6 * max(abs(lo), abs(hi)) + 1e-2
                    for d, exp in ((lo - m, which != "min depth"), (hi + m, which == "min depth")):
                        if 0 <= d <= 399e3:
                            lines.append(q3("w", point3(sph, sp, d), d, [(4, 0, 0)])); meta.append((sp, d, exp, "bounded by nodal values [%r, %r]" % (lo, hi)))
        rc, out, err = proto.run_harness(lines)
        if rc != 0 or len(out) != len(lines):
            viol.append({"what": "library crashed", "world_json": w}); continue
        if not out[0].startswith("ok"):
            viol.append({"what": "world rejected: " + out[0][:200], "world_json": w}); continue
        for i, m in enumerate(meta):
            if m is None:
                continue
            a = parse_answer(out[i])
            cases += 1
            nontriv += 1
            got = a[0] == "ok" and a[1][0] != -1.0
            if a[0] != "ok" or got != m[2]:
                viol.append({"what": "%s %s (%s, %s): at surface point %s depth %r the feature is %s, expected %s [%s]" % (kind, which, "spherical" if sph else "cartesian", mode, m[0], m[1],
                             out[i][:40] if a[0] != "ok" else ("present" if got else "absent"), "present" if m[2] else "absent", m[3]), "world_json": w, "cmd": lines[i]})
        if len(samples) < 3:
            samples.append({"world": path, "mode": mode, "which": which, "nodes": len(nodal), "probes": len(meta) - 1})
    c_, n_ = far_longitude_surfaces(rng, tier, wdir, viol)
    cases += c_; nontriv += n_
    # ---- probe of the recorded finding (a listed point on a corner with a zero coordinate)
    for sph in (False, True):
        corners = [[0, 0], [10, 0], [10, 10], [0, 10]] if sph else [[0, 0], [100e3, 0], [100e3, 100e3], [0, 100e3]]
        feat = {"model": "continental plate", "name": "f", "coordinates": corners, "min depth": [[50e3, [p]] for p in corners], "max depth": 200e3,
                "composition models": [{"model": "uniform", "compositions": [0]}]}
        w = {"version": "1.1", "features": [feat]}
        if sph:
            w["coordinate system"] = {"model": "spherical", "depth method": "begin segment"}
        path = os.path.join(wdir, "zero_%d.wb" % int(sph))
        json.dump(w, open(path, "w"))
        sp = [5, 5] if sph else [50e3, 50e3]
        lines = ["world w %s -" % path] + [q3("w", point3(sph, s, 25e3), 25e3, [(4, 0, 0)]) for s in (sp, [sp[0] * 0.2, sp[1] * 0.2], [sp[0] * 1.8, sp[1] * 0.2])]
        rc, out, err = proto.run_harness(lines)
        for i in range(1, len(out)):
            a = parse_answer(out[i]); cases += 1
            if a[0] == "ok" and a[1][0] != -1.0:
                viol.append({"what": "min depth 50 km listed at all four corners (corners with a zero coordinate): feature present at depth 25 km", "world_json": w, "cmd": lines[i],
                             "probe": "listed-value-at-corner-with-zero-coordinate"})
                break
    # ---- MODEL-level depth surfaces (a model's own min / max depth given at points): every area feature kind x model kind (temperature, composition, velocity, grains, and the
    # water-content model's wiping of the other compositions) x constant / affine-surface combinations; the local bound is the affine function, the expected value is known
    import prop_C05
    for wi, (w, exp) in enumerate(prop_C05.range_surface_cases(random.Random(seed * 977 + 111))):
        path = os.path.join(wdir, "ms_%d.wb" % wi)
        json.dump(w, open(path, "w"))
        lines = ["world w %s -" % path] + [q3("w", [p[0], p[1], 1000e3 - d], d, [pr]) for (p, d, pr, e, nt, nm) in exp]
        rc, out, err = proto.run_harness(lines)
        if rc != 0 or len(out) != len(lines) or out[0] != "ok":
            viol.append({"what": "library failed on a model-level surface world: rc=%s %s %s" % (rc, out[:1], err[-200:]), "world_json": w}); continue
        for (p, d, pr, e, nt, nm), o, line in zip(exp, out[1:], lines[1:]):
            a = parse_answer(o)
            cases += 1
            nontriv += 1 if nt else 0
            if not (a[0] == "ok" and len(a[1]) == len(e) and all(abs(x - y) <= 1e-9 * max(1.0, abs(x), abs(y)) for x, y in zip(a[1], e))):
                viol.append({"what": "%s: library %s, expected %s at depth %.6g, surface point %s (the model's own depth surface is affine: the local bound is known)" % (
                    nm, a[1][:4] if a[0] == "ok" else a, [float("%.10g" % x) for x in e[:4]], d, p), "world_json": w, "world": path, "cmd": line})
                break
    return {"violations": trim_violations(viol, 20), "summary": {"cases": cases, "violations": len(viol), "nontrivial": nontriv}, "samples": samples}


def replay(rp):
    v = rp["violation"]
    wdir = proto.workdir("C11_replay")
    path = os.path.join(wdir, "replay.wb")
    json.dump(v["world_json"], open(path, "w"))
    w = v["cmd"].split(); w[1] = "r"
    rc, out, err = proto.run_harness(["world r %s -" % path, " ".join(w)])
    print("\n".join(out))
    return False
